/-
C06 helper lemmas: invariant of the process-shutdown transition system (`awaitPandoraTermination`) for a
configuration that waits in the signal branch, notifies both signals and cancels on both.
-/
import Pandora.Model.C06CliShutdown

namespace Pandora.Proofs.C06Cli
open Pandora.Model.CliShutdown

/-- the code has the three properties the proof needs -/
structure Good (cfg : Cfg) : Prop where
  waits : cfg.waitOnErrs = true
  notified : ∀ s, cfg.notified s = true
  cancels : ∀ s, cfg.cancels s = true
  failWaits : cfg.waitOnFail = true

theorem good_repaired : Good Cfg.repaired := ⟨rfl, fun _ => rfl, fun _ => rfl, rfl⟩

structure Inv (st : St) : Prop where
  errsOk : st.errsReady = some true → st.flushed = true
  sigsLe : st.sigs.length ≤ st.delivered
  waited : (st.pc = .sigWait ∨ st.pc = .sigWaitTasks) → st.sigs.length + 1 ≤ st.delivered
  exitOk : ∀ x, st.exit = some x →
    x.flushed = true ∨ (x.reason = .timeout ∧ st.timerFired = true) ∨ (x.reason = .secondSignal ∧ 2 ≤ st.delivered)
  exitPc : st.exit ≠ none → st.pc = .exited
  /-- once the main goroutine has left the outer select other than by a normal finish, the run context is cancelled -/
  canc : (st.pc = .sigWait ∨ st.pc = .sigWaitTasks ∨ st.pc = .errWait) → st.cancelled = true
  exitCanc : ∀ x, st.exit = some x → x.reason ≠ .finished → st.cancelled = true

theorem inv_init : Inv {} := by
  refine ⟨?_, ?_, ?_, ?_, ?_, ?_, ?_⟩ <;> simp

theorem inv_step {cfg : Cfg} (g : Good cfg) {st : St} (h : Inv st) (e : Ev) : Inv (step cfg st e) := by
  obtain ⟨h1, h2, h3, h4, h5, h6, h7⟩ := h
  unfold step
  by_cases hx : st.pc = .exited
  · simp only [hx, if_true]; exact ⟨h1, h2, h3, h4, h5, h6, h7⟩
  · have hne : st.exit = none := by
      cases he : st.exit with
      | none => rfl
      | some x => exact absurd (h5 (by simp [he])) hx
    simp only [hx, if_false]
    cases e with
    | signal s =>
      simp only [g.notified s, Bool.not_true, Bool.false_eq_true, if_false]
      split
      · refine ⟨h1, by simp; omega, fun hp => by simp at hp ⊢; have := h3 hp; omega,
          fun x hxe => by simp [hne] at hxe, by simpa using h5, h6, fun x hxe => by simp [hne] at hxe⟩
      · refine ⟨h1, by simp; omega, fun hp => by simp at hp ⊢; have := h3 hp; omega,
          fun x hxe => by simp [hne] at hxe, by simpa using h5, h6, fun x hxe => by simp [hne] at hxe⟩
    | engineReturned ok =>
      dsimp only
      split
      · exact ⟨h1, h2, h3, h4, h5, h6, h7⟩
      · split
        · exact ⟨h1, h2, h3, h4, h5, h6, h7⟩
        · rename_i hd hk
          refine ⟨?_, h2, h3, by simpa using h4, by simpa using h5, h6, by simpa using h7⟩
          intro he
          simp at he
          subst he
          simpa using hk
    | tasksDone =>
      dsimp only
      exact ⟨fun _ => rfl, h2, h3, by simpa using h4, by simpa using h5, h6, by simpa using h7⟩
    | timerFires =>
      dsimp only
      split
      · refine ⟨h1, h2, h3, ?_, by simpa using h5, h6, by simpa using h7⟩
        intro x hxe
        simp [hne] at hxe
      · exact ⟨h1, h2, h3, h4, h5, h6, h7⟩
    | takeSignal =>
      dsimp only
      split
      · exact ⟨h1, h2, h3, h4, h5, h6, h7⟩
      · rename_i s rest hs
        have hlen : st.sigs.length = rest.length + 1 := by rw [hs]; rfl
        split
        · refine ⟨h1, by simp; omega, fun _ => by simp; omega, by simp [hne], by simp [hne],
            fun _ => by simp [g.cancels s], by simp [hne]⟩
        · rename_i hp
          have := h3 (Or.inl hp)
          have hc := h6 (Or.inl hp)
          refine ⟨h1, by simp [St.die]; omega, fun _ => by simp [St.die]; omega, ?_, by simp [St.die],
            fun _ => by simpa [St.die] using hc, fun _ _ _ => by simpa [St.die] using hc⟩
          intro x hxe
          simp [St.die] at hxe
          subst hxe
          right; right
          exact ⟨rfl, by (try simp [St.die]); omega⟩
        · rename_i hp
          have := h3 (Or.inr hp)
          have hc := h6 (Or.inr (Or.inl hp))
          refine ⟨h1, by simp [St.die]; omega, fun _ => by simp [St.die]; omega, ?_, by simp [St.die],
            fun _ => by simpa [St.die] using hc, fun _ _ _ => by simpa [St.die] using hc⟩
          intro x hxe
          simp [St.die] at hxe
          subst hxe
          right; right
          exact ⟨rfl, by (try simp [St.die]); omega⟩
        · exact ⟨h1, h2, h3, h4, h5, h6, h7⟩
    | takeErrs =>
      dsimp only
      split
      · rename_i he hp
        refine ⟨by simp [St.die], by simpa [St.die] using h2, by simp [St.die], ?_, by simp [St.die],
          by simp [St.die], ?_⟩
        · intro x hxe
          simp [St.die] at hxe
          subst hxe
          left
          exact h1 he
        · intro x hxe hr
          simp [St.die] at hxe
          subst hxe
          simp at hr
      · simp only [g.failWaits, if_true]
        refine ⟨by simp, by simpa using h2, by simp, by simp [hne], by simp [hne], by simp, by simp [hne]⟩
      · rename_i hp
        simp only [g.waits, if_true]
        have hc := h6 (Or.inl hp)
        refine ⟨by simp, by simpa using h2, fun _ => by simpa using h3 (Or.inl hp), by simp [hne], by simp [hne],
          fun _ => by simpa using hc, by simp [hne]⟩
      · exact ⟨h1, h2, h3, h4, h5, h6, h7⟩
    | takeTimeout =>
      dsimp only
      split
      · rename_i hf
        split
        all_goals first
          | exact ⟨h1, h2, h3, h4, h5, h6, h7⟩
          | (rename_i hp
             have hc : st.cancelled = true := h6 (by simp [hp])
             refine ⟨by simpa [St.die] using h1, by simpa [St.die] using h2, by simp [St.die], ?_, by simp [St.die],
               fun _ => by simpa [St.die] using hc, fun _ _ _ => by simpa [St.die] using hc⟩
             intro x hxe
             simp [St.die] at hxe
             subst hxe
             right; left
             exact ⟨rfl, by simpa [St.die] using hf⟩)
      · exact ⟨h1, h2, h3, h4, h5, h6, h7⟩
    | takeWaitDone =>
      dsimp only
      split
      · rename_i hf
        split
        all_goals first
          | exact ⟨h1, h2, h3, h4, h5, h6, h7⟩
          | (rename_i hp
             have hc : st.cancelled = true := h6 (by simp [hp])
             refine ⟨by simpa [St.die] using h1, by simpa [St.die] using h2, by simp [St.die], ?_, by simp [St.die],
               fun _ => by simpa [St.die] using hc, fun _ _ _ => by simpa [St.die] using hc⟩
             intro x hxe
             simp [St.die] at hxe
             subst hxe
             left
             exact hf)
      · exact ⟨h1, h2, h3, h4, h5, h6, h7⟩

theorem inv_run {cfg : Cfg} (g : Good cfg) (tr : List Ev) {st : St} (h : Inv st) : Inv (run cfg st tr) := by
  induction tr generalizing st with
  | nil => exact h
  | cons e es ih => exact ih (inv_step g h e)

end Pandora.Proofs.C06Cli
