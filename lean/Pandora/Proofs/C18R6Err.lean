/-
C18, round 6 — WHERE an error result can come from.

`C18_errors` (Spec `errorsOk`) relates a step's result to the failing invocations LOGGED in that step.  This file adds the
other direction of the tie to the world: an error result (or a panic carrying an error) of ANY operation is the error of an
invocation of user code that the fault plan makes fail AND that has an error result at all —
  `.fill i`: a fillConf was given and its i-th invocation fails,
  `.ctor i`: the registered constructor HAS an error result and its i-th invocation fails,
  `.fact i`: the registered factory HAS an error result and its i-th invocation fails —
and nothing else: in particular a constructor (or factory) without an error result never makes `New`, `NewFactory` or a
factory call end with an error, whatever the component it returns is (seeded change C18-r6-1: the component itself was
taken for the error result when its implementation type has an `Error() string` method).
-/
import Pandora.Proofs.C18Run

set_option linter.unusedSimpArgs false

namespace Pandora.Proofs.C18
open Pandora.Model.C18 Pandora.Spec.C18

/-- the failing invocations the world prescribes: the fault plan says so AND the function has an error result -/
def planned (sh : Shape) (w : World) : Err → Bool
  | .fill i => w.hasFill && w.fillFault i
  | .ctor i => sh.ctorErr && w.ctorFault i
  | .fact i => sh.factErr && w.factFault i

/-- every error a step ends with is a planned one -/
def SrcOk (sh : Shape) (w : World) (s : Step) : Prop :=
  ∀ e, (s.res = .err e ∨ s.res = .panic e) → planned sh w e = true

theorem conv_src {sh : Shape} {w : World} {pan : Bool} {e0 : Err} {evs : List Ev} (h : planned sh w e0 = true) :
    SrcOk sh w ⟨evs, conv pan e0⟩ := by
  intro e he
  cases pan <;> simp [conv] at he <;> (subst he; exact h)

theorem ok_src (sh : Shape) (w : World) (evs : List Ev) (p : Product) : SrcOk sh w ⟨evs, .ok p⟩ := by
  intro e he; simp at he

theorem made_src (sh : Shape) (w : World) (evs : List Ev) : SrcOk sh w ⟨evs, .made⟩ := by
  intro e he; simp at he

theorem callSpec_src (sh : Shape) (w : World) (doGet vf pan : Bool) (st : St) :
    SrcOk sh w (callSpec sh w doGet vf pan st).2.2 := by
  unfold callSpec
  by_cases hf : (doGet && fillFails w st.fills) = true
  · simp only [hf, if_true]
    have : fillFails w st.fills = true := by
      cases doGet <;> simp_all
    exact conv_src (by simpa [planned, fillFails] using this)
  · simp only [hf, Bool.false_eq_true, if_false]
    by_cases hcf : ctorFails sh w st.ctors = true
    · simp only [hcf, if_true]
      exact conv_src (by simpa [planned, ctorFails] using hcf)
    · simp only [hcf, Bool.false_eq_true, if_false]
      cases vf
      · simp only [Bool.not_false, if_true]
        exact ok_src _ _ _ _
      · simp only [Bool.not_true, Bool.false_eq_true, if_false]
        by_cases hff : factFails sh w st.facts = true
        · simp only [hff, if_true]
          exact conv_src (by simpa [planned, factFails] using hff)
        · simp only [hff, Bool.false_eq_true, if_false]
          exact ok_src _ _ _ _

theorem facSpec_src (sh : Shape) (w : World) (rf : RegFac) (pan : Bool) (st : St) :
    SrcOk sh w (facSpec sh w rf pan st).2.2 := by
  unfold facSpec
  by_cases hff : factFails sh w st.facts = true
  · simp only [hff, if_true]
    exact conv_src (by simpa [planned, factFails] using hff)
  · simp only [hff, Bool.false_eq_true, if_false]
    exact ok_src _ _ _ _

theorem createSpec_src (sh : Shape) (w : World) (n : Nat) (st : St) (e : Err)
    (h : (createSpec sh w n st).2.2.2 = .error e) : planned sh w e = true := by
  unfold createSpec at h
  by_cases hfa : sh.factory = true
  · simp only [hfa, Bool.not_true, Bool.false_eq_true, if_false] at h
    by_cases hf : fillFails w st.fills = true
    · simp only [hf, if_true, Except.error.injEq] at h
      subst h; simpa [planned, fillFails] using hf
    · simp only [hf, Bool.false_eq_true, if_false] at h
      by_cases hcf : ctorFails sh w st.ctors = true
      · simp only [hcf, if_true, Except.error.injEq] at h
        subst h; simpa [planned, ctorFails] using hcf
      · simp [hcf] at h
  · simp only [Bool.not_eq_true] at hfa
    simp only [hfa, Bool.not_false, if_true] at h
    by_cases hc : sh.cfg = .none
    · simp only [hc, if_true] at h
      by_cases hf : fillFails w st.fills = true
      · simp only [hf, if_true, Except.error.injEq] at h
        subst h; simpa [planned, fillFails] using hf
      · simp [hf] at h
    · simp [hc] at h

theorem src_component (sh : Shape) (w : World) (k : Nat) (st : St) :
    ∀ s ∈ (iter (step (regNew sh w)) k st).2, SrcOk sh w s := by
  have := iter_inv (step (regNew sh w)) (fun _ => True) (fun s => SrcOk sh w s)
    (fun st _ => ⟨trivial, by
      rw [(tri_step (step_regNew sh w st)).2.2]
      exact callSpec_src sh w true sh.factory false st⟩) k st trivial
  exact this.2

theorem src_calls (sh : Shape) (w : World) (n : Nat) (hn : n = 1 ∨ n = 2) (fac : Fac) (hok : FacOk sh n fac)
    (k : Nat) (st : St) :
    ∀ s ∈ (iter (step (callFac sh w fac)) k st).2, SrcOk sh w s := by
  have := iter_inv (step (callFac sh w fac)) (fun _ => True) (fun s => SrcOk sh w s)
    (fun st _ => ⟨trivial, by
      rcases callFac_cases sh w n hn fac hok st with ⟨_, doGet, _, h⟩ | ⟨_, rf, _, h⟩
      · rw [(tri_step h).2.2]; exact callSpec_src sh w doGet false _ st
      · rw [(tri_step h).2.2]; exact facSpec_src sh w rf _ st⟩) k st trivial
  exact this.2

/-- **error source, one creation started in any state** -/
theorem src_phase (inp : Input) (st : St) : ∀ s ∈ (phaseObs inp st).steps, SrcOk inp.sh inp.w s := by
  have hcase := phase_cases inp st
  generalize phaseObs inp st = obs at hcase ⊢
  rcases hcase with ⟨_, hsteps, _⟩ | ⟨_, hn, _, hcr⟩
  · rw [hsteps]
    exact src_component inp.sh inp.w inp.k (st0 st)
  · obtain ⟨_, _, _, q4⟩ := quad_proj (create_eq inp.sh inp.w inp.form.numOut (st0 st) rfl)
    rcases hcr with ⟨e, hce, hsteps⟩ | ⟨fac, hfac, hsteps, _⟩
    · rw [hsteps]
      intro s hs
      simp only [List.mem_singleton] at hs
      subst hs
      intro e' he'
      simp only [Res.err.injEq, reduceCtorEq, or_false] at he'
      subst he'
      exact createSpec_src inp.sh inp.w inp.form.numOut (st0 st) _ (by rw [← q4]; exact hce)
    · rw [hsteps]
      intro s hs
      simp only [List.mem_cons] at hs
      rcases hs with rfl | hs
      · exact made_src _ _ _
      · have hok := createSpec_facOk inp.sh inp.w inp.form.numOut (st0 st) fac (by rw [← q4]; exact hfac)
        exact src_calls inp.sh inp.w inp.form.numOut hn fac hok inp.k _ s hs

end Pandora.Proofs.C18
