/-
C05 — who cancels the run context: the caller, the return of `Pool.Run` (its deferred `cancel()`), or
`checkAllInstancesAreFinished` once every started instance was awaited.  Consequence: an instance that is still
shooting sees its context cancelled only after the caller's cancel or after `Pool.Run` has returned without
success; in a run nobody cancels that ends successfully no instance is ever stopped by a cancelled context.
-/
import Pandora.Proofs.C05Fin

namespace Pandora.Proofs.C05
open Pandora.Model.C05

def InvC (s : State) : Prop :=
  s.runC = true → s.extC = true ∨ (∃ r, s.main = .returned r) ∨ (s.aw ≠ .off ∧ s.runResOpen = false)

theorem invC_init : InvC init := by simp [InvC, init]

theorem c_finish (s : State) (h : InvC s) : InvC (finish s) := by
  unfold finish InvC at *
  split <;> simp_all

theorem c_checkAll (s : State) (h : InvC s) (hl : s.aw ≠ .off) : InvC (checkAll s) := by
  unfold checkAll InvC at *
  repeat' split
  all_goals simp_all

theorem c_afterErr (s : State) (chk : Bool) (h : InvC { s with aw := .loop }) : InvC (afterErr s chk) := by
  unfold afterErr
  apply c_finish
  split
  · exact c_checkAll _ h (by simp)
  · exact h

theorem c_handleRes (s : State) (w : Wrap) (r : Ret) (done chk : Bool) (h : InvC s) (hl : s.aw = .loop) :
    InvC (handleRes s w r done chk) := by
  unfold handleRes
  split
  · apply c_afterErr
    have e : { s with aw := AwPc.loop } = s := by cases s; simp_all
    rw [e]; exact h
  · unfold InvC at *; simp_all

macro "c_simp" : tactic => `(tactic|
  simp only [InvC, cancelAll, mainReturn, addErr, sendRes, nextWait] at *)

theorem step_invC (cfg : Cfg) (s : State) (c : Choice) (ha : InvA s) (h : InvC s) : InvC (step cfg s c) := by
  have hpre := ha.1.pre
  have hpre2 := ha.1.pre2
  cases c with
  | extCancel => simp [step, InvC, cancelAll]
  | warm o =>
    simp only [step]; split
    · (cases o <;> (c_simp; grind))
    · exact h
  | sched o =>
    simp only [step]; split
    · (cases o <;> (c_simp; grind))
    · exact h
  | provRet r =>
    simp only [step]; split
    · (cases r <;> (c_simp; grind))
    · exact h
  | aggRet r =>
    simp only [step]; split
    · (cases r <;> (c_simp; grind))
    · exact h
  | rpsFinished =>
    simp only [step]; split
    · (c_simp; grind)
    · exact h
  | startFirst o =>
    simp only [step]; split
    · (cases o <;> (c_simp; grind))
    · exact h
  | startTick =>
    simp only [step]; split
    · (c_simp; grind)
    · exact h
  | startEnd =>
    simp only [step]; split
    · (c_simp; grind)
    · exact h
  | instCreate i o =>
    simp only [step]; split
    · cases o <;> (c_simp; grind)
    · exact h
  | instRet i r =>
    simp only [step]; split
    · split
      · exact h
      · cases r <;> (c_simp; grind)
    · exact h
  | awaitProv =>
    simp only [step]; split
    · rename_i r hl hp
      exact c_handleRes _ _ _ _ _ (by c_simp; grind) (by exact hl)
    · exact h
  | awaitAgg =>
    simp only [step]; split
    · rename_i r hl hp
      exact c_handleRes _ _ _ _ _ (by c_simp; grind) (by exact hl)
    · exact h
  | awaitStart =>
    simp only [step]; split
    · rename_i n r hl ht hr
      exact c_handleRes _ _ _ _ _ (by c_simp; grind) (by exact hl)
    · exact h
  | awaitRun =>
    simp only [step]; split
    · rename_i id r rest hl ho hb
      split
      · exact c_afterErr _ _ (by split <;> (c_simp; grind))
      · exact c_handleRes _ _ _ _ _ (by c_simp; grind) (by exact hl)
    · exact h
  | errDeliver =>
    simp only [step]; split
    · exact c_afterErr _ _ (by c_simp; grind)
    · exact h
  | errSuppress =>
    simp only [step]; split
    · rename_i w r chk hl
      have key : InvC (afterErr s chk) := c_afterErr _ _ (by c_simp; grind)
      repeat' split
      all_goals first | exact h | exact key
    · exact h
  | mainCancel =>
    simp only [step]; split
    · (c_simp; grind)
    · exact h
  | mainClosed =>
    simp only [step]; split
    · (c_simp; grind)
    · exact h

theorem foldl_invAC (cfg : Cfg) (cs : List Choice) (s : State) (ha : InvA s) (h : InvC s) :
    InvC (cs.foldl (step cfg) s) := by
  induction cs generalizing s with
  | nil => exact h
  | cons c cs ih => exact ih _ (step_invA cfg s c ha) (step_invC cfg s c ha h)

theorem run_invC (cfg : Cfg) (cs : List Choice) : InvC (run cfg cs) := foldl_invAC cfg cs _ invA_init invC_init

/-- a live instance under a cancelled run context: the caller cancelled, or `Pool.Run` has returned -/
theorem live_cancelled (cfg : Cfg) (cs : List Choice) (i : Nat) (x : Inst)
    (hl : (run cfg cs).live[i]? = some x) (hc : (run cfg cs).runC = true) :
    (run cfg cs).extC = true ∨ ∃ r, (run cfg cs).main = .returned r := by
  rcases run_invC cfg cs hc with h | h | ⟨h1, h2⟩
  · exact Or.inl h
  · exact Or.inr h
  · have := ((run_invA cfg cs).1.closedRun h1 h2).2.1
    rw [this] at hl
    simp at hl

end Pandora.Proofs.C05
