/-
C08 (round 6) — entry sizes: when every line fits the reader of EVERY pass the sized loops are the unsized ones.
-/
import Pandora.Model.C08Size

namespace Pandora.Proofs.C08
open Pandora.Model.C08

/-- every line is handed out by the scanner of every pass ⇒ `grpcLoopSz` is `grpcLoop` -/
theorem grpcLoopSz_eq {α : Type} (file : List α) (chosen : α → Bool) (b : Bounds) (cancelAt : Option Nat)
    (rd : Nat → Nat → Bool) (hrd : ∀ p i, i < file.length → rd p i = true) :
    ∀ fuel s out, grpcLoopSz file chosen b cancelAt rd fuel s out = grpcLoop file chosen b cancelAt fuel s out := by
  intro fuel
  induction fuel with
  | zero => intro s out; rfl
  | succ fuel ih =>
    intro s out
    unfold grpcLoopSz grpcLoop
    have h0 : ¬ (s.pos < file.length ∧ rd s.passNum s.pos = false) := by
      intro ⟨h1, h2⟩
      rw [hrd _ _ h1] at h2
      cases h2
    rw [if_neg h0]
    by_cases hc : s.pos < file.length ∧ (b.limit = 0 ∨ s.ammoNum < b.limit)
    · rw [if_pos hc, if_pos hc]
      cases file[s.pos]? with
      | none => rfl
      | some a => simp only [ih]
    · rw [if_neg hc, if_neg hc]
      simp only [ih]

/-- a line the scanner of the current pass does not hand out ends `start` at once with the scanner's error — before
the limit is looked at, without a retry -/
theorem grpcLoopSz_unreadable {α : Type} (file : List α) (chosen : α → Bool) (b : Bounds) (cancelAt : Option Nat)
    (rd : Nat → Nat → Bool) (fuel : Nat) (s : GrpcSt) (out : List α)
    (hpos : s.pos < file.length) (hrd : rd s.passNum s.pos = false) :
    grpcLoopSz file chosen b cancelAt rd (fuel + 1) s out = some (out, .errOther) := by
  unfold grpcLoopSz
  rw [if_pos ⟨hpos, hrd⟩]

/-- all lines shorter than the token limit ⇒ readable in every pass (grpc/json) -/
theorem readable_grpc (mas : Nat) (sizes : List Nat) (hfit : ∀ len, len ∈ sizes → len < tokMax mas) (p i : Nat) :
    readable .grpcJson mas sizes p i = true := by
  unfold readable
  cases h : sizes[i]? with
  | none => rfl
  | some len =>
    have hm : len ∈ sizes := List.mem_of_getElem? h
    simp [fitsTok, lineMax, hfit len hm]

/-- uri: every line a 64-bit machine can hold is readable, in every pass -/
theorem readable_uri (mas : Nat) (sizes : List Nat) (hfit : ∀ len, len ∈ sizes → len < maxInt) (p i : Nat) :
    readable .uri mas sizes p i = true := by
  unfold readable
  cases h : sizes[i]? with
  | none => rfl
  | some len =>
    have hm : len ∈ sizes := List.mem_of_getElem? h
    simp [fitsTok, lineMax, hfit len hm]

/-- the readers without a token limit read every line -/
theorem readable_unlimited (k : Kind) (hk : k ≠ .grpcJson ∧ k ≠ .uri) (mas : Nat) (sizes : List Nat) (p i : Nat) :
    readable k mas sizes p i = true := by
  unfold readable
  cases h : sizes[i]? with
  | none => rfl
  | some len => cases k <;> simp_all [fitsTok, lineMax]

/-- a grpc/json cell whose lines all fit the configured token limit IS the cell without sizes -/
theorem runGrpcSz_eq_run (inp : Input) (hk : inp.kind = .grpcJson) (sizes : List Nat) (mas : Nat)
    (hfit : ∀ len, len ∈ sizes → len < tokMax mas) :
    runGrpcSz inp sizes mas none = run inp sizes.length := by
  unfold runGrpcSz run
  simp only
  cases hT : target inp.b.limit inp.b.passes sizes.length inp.cancelAt with
  | none => rfl
  | some t =>
    simp only
    rw [grpcLoopSz_eq _ _ _ _ _ (fun p i _ => readable_grpc mas sizes hfit p i)]
    simp only [runFuel, hk, grpcRun]
    generalize grpcLoop _ _ _ _ _ _ _ = r
    rcases r with _ | ⟨out, e⟩ <;> rfl

/-- … also with a chosencases option -/
theorem runGrpcSz_eq_runPick (inp : Input) (hk : inp.kind = .grpcJson) (sizes : List Nat) (mas : Nat) (pick : List Nat)
    (hfit : ∀ len, len ∈ sizes → len < tokMax mas) :
    runGrpcSz inp sizes mas (some pick) = runPick inp sizes.length pick := by
  unfold runGrpcSz runPick
  simp only
  cases hT : target inp.b.limit inp.b.passes (chosenOf sizes.length pick).length inp.cancelAt with
  | none => rfl
  | some t =>
    simp only
    rw [grpcLoopSz_eq _ _ _ _ _ (fun p i _ => readable_grpc mas sizes hfit p i)]
    simp only [runFuelPick, hk, grpcRun]
    generalize grpcLoop _ _ _ _ _ _ _ = r
    rcases r with _ | ⟨out, e⟩ <;> rfl

/-- the line-level reader over lines that all fit is the reader of `Model.C08Scan` -/
theorem rdAtSz_eq (f : Lines) (fits : Nat → Bool) (hfit : ∀ i, i < f.length → fits i = true) (pos : Nat) :
    rdAtSz f fits pos = rdAt f pos := by
  unfold rdAtSz
  split
  · next h => rw [hfit _ h.1] at h; cases h.2
  · rfl

end Pandora.Proofs.C08
