/-
Lemmas for Props/C11.lean (core Lean only): lock hand-over, data-race freedom of well-formed traces, view
non-interference, gun exclusivity.
-/
import Pandora.Model.C11Sharing

namespace Pandora.Proofs.C11
open Pandora.Model.C11

/-! ### list helpers -/

theorem getElem?_at {α} (tr xs : List α) (x : α) (ys : List α) (n : Nat)
    (h : tr = xs ++ x :: ys) (hn : n = xs.length) : tr[n]? = some x := by
  subst h; subst hn; simp

theorem split_of_getElem? {α} : ∀ (l : List α) (i : Nat) (a : α), l[i]? = some a →
    ∃ pre post, l = pre ++ a :: post ∧ pre.length = i := by
  intro l
  induction l with
  | nil => intro i a h; simp at h
  | cons x xs ih =>
    intro i a h
    cases i with
    | zero => simp at h; subst h; exact ⟨[], xs, rfl, rfl⟩
    | succ n =>
      simp at h
      obtain ⟨pre, post, hp, hl⟩ := ih n a h
      exact ⟨x :: pre, post, by simp [hp], by simp [hl]⟩

/-! ### locks -/

theorem locksAfter_cons (h : Locks) (e : Ev) (es : List Ev) : locksAfter h (e :: es) = locksAfter (next h e) es := rfl

theorem locksAfter_append (h : Locks) (xs ys : List Ev) :
    locksAfter h (xs ++ ys) = locksAfter (locksAfter h xs) ys := by
  simp [locksAfter, List.foldl_append]

theorem WF_append (cls : Nat → Class) : ∀ (xs ys : List Ev) (h : Locks),
    WF cls h (xs ++ ys) ↔ WF cls h xs ∧ WF cls (locksAfter h xs) ys := by
  intro xs
  induction xs with
  | nil => intro ys h; simp [WF, locksAfter]
  | cons e es ih =>
    intro ys h
    simp only [List.cons_append, WF, locksAfter_cons]
    rw [ih ys (next h e)]
    exact and_assoc.symm

theorem set_same (h : Locks) (l : Nat) (v : Option Nat) : (h.set l v) l = v := by simp [Locks.set]
theorem set_other (h : Locks) (l l' : Nat) (v : Option Nat) (hne : l' ≠ l) : (h.set l v) l' = h l' := by
  simp [Locks.set, hne]

/-- if nobody… rather: whoever ends up holding `l` although it was not held by them before has acquired it -/
theorem exists_acq (l t2 : Nat) : ∀ (mid : List Ev) (h : Locks), h l ≠ some t2 → (locksAfter h mid) l = some t2 →
    ∃ m1 m2, mid = m1 ++ Ev.acq t2 l :: m2 := by
  intro mid
  induction mid with
  | nil => intro h h1 h2; exact absurd h2 h1
  | cons e es ih =>
    intro h h1 h2
    by_cases he : e = Ev.acq t2 l
    · exact ⟨[], es, by simp [he]⟩
    · rw [locksAfter_cons] at h2
      have hn : (next h e) l ≠ some t2 := by
        cases e with
        | acc t o w v => exact h1
        | acq t l' =>
          simp only [next]
          by_cases hl : l = l'
          · subst hl
            rw [set_same]
            intro hc
            apply he
            rw [Option.some.inj hc]
          · rw [set_other _ _ _ _ hl]; exact h1
        | rel t l' =>
          simp only [next]
          by_cases hl : l = l'
          · subst hl; rw [set_same]; simp
          · rw [set_other _ _ _ _ hl]; exact h1
      obtain ⟨m1, m2, hm⟩ := ih (next h e) hn h2
      exact ⟨e :: m1, m2, by simp [hm]⟩

/-- lock hand-over: if `t1` holds `l` and later `t2 ≠ t1` holds it, then in between `t1` released it and after that
`t2` acquired it -/
theorem exists_rel_acq (cls : Nat → Class) (l t1 t2 : Nat) (hne : t1 ≠ t2) : ∀ (mid : List Ev) (h : Locks),
    h l = some t1 → WF cls h mid → (locksAfter h mid) l = some t2 →
    ∃ m1 m2 m3, mid = m1 ++ Ev.rel t1 l :: m2 ++ Ev.acq t2 l :: m3 := by
  intro mid
  induction mid with
  | nil =>
    intro h h1 _ h2
    simp only [locksAfter, List.foldl_nil] at h2
    rw [h1] at h2
    exact absurd (Option.some.inj h2) hne
  | cons e es ih =>
    intro h h1 hwf h2
    obtain ⟨hok, hwf'⟩ := hwf
    rw [locksAfter_cons] at h2
    by_cases he : e = Ev.rel t1 l
    · subst he
      have hn : (next h (Ev.rel t1 l)) l ≠ some t2 := by simp [next, set_same]
      obtain ⟨m2, m3, hm⟩ := exists_acq l t2 es _ hn h2
      exact ⟨[], m2, m3, by simp [hm]⟩
    · have hkeep : (next h e) l = some t1 := by
        cases e with
        | acc t o w v => exact h1
        | acq t l' =>
          simp only [next]
          by_cases hl : l = l'
          · subst hl
            simp only [stepOk] at hok
            rw [h1] at hok
            cases hok
          · rw [set_other _ _ _ _ hl]; exact h1
        | rel t l' =>
          simp only [next]
          by_cases hl : l = l'
          · subst hl
            simp only [stepOk] at hok
            rw [h1] at hok
            exact absurd (by rw [Option.some.inj hok]) he
          · rw [set_other _ _ _ _ hl]; exact h1
      obtain ⟨m1, m2, m3, hm⟩ := ih (next h e) hkeep hwf' h2
      exact ⟨e :: m1, m2, m3, by simp [hm]⟩

/-- DRF in decomposed form -/
theorem drf_decomposed (cls : Nat → Class) (pre mid post : List Ev) (a b : Ev)
    (hwf : WF cls noLocks (pre ++ a :: (mid ++ b :: post))) (hc : Conflict a b) :
    HB (pre ++ a :: (mid ++ b :: post)) pre.length (pre.length + 1 + mid.length) := by
  cases a with
  | acq t l => simp [Conflict] at hc
  | rel t l => simp [Conflict] at hc
  | acc t1 o w1 v1 =>
    cases b with
    | acq t l => simp [Conflict] at hc
    | rel t l => simp [Conflict] at hc
    | acc t2 o2 w2 v2 =>
      obtain ⟨ho, hne, hw⟩ := hc
      subst ho
      rw [WF_append] at hwf
      obtain ⟨_, hwf1⟩ := hwf
      obtain ⟨hoka, hwf2⟩ := hwf1
      simp only [next] at hwf2
      rw [WF_append] at hwf2
      obtain ⟨hwfmid, hwf3⟩ := hwf2
      obtain ⟨hokb, _⟩ := hwf3
      simp only [stepOk] at hoka hokb
      cases hcls : cls o with
      | loc i =>
        rw [hcls] at hoka hokb
        simp only at hoka hokb
        exact absurd (hoka.trans hokb.symm) hne
      | sharedRO =>
        rw [hcls] at hoka hokb
        simp only at hoka hokb
        rcases hw with h | h
        · rw [hoka] at h; cases h
        · rw [hokb] at h; cases h
      | sharedSync l =>
        rw [hcls] at hoka hokb
        simp only at hoka hokb
        obtain ⟨m1, m2, m3, hm⟩ := exists_rel_acq cls l t1 t2 hne mid (locksAfter noLocks pre) hoka hwfmid hokb
        subst hm
        -- positions
        have hi : (pre ++ Ev.acc t1 o w1 v1 :: ((m1 ++ Ev.rel t1 l :: m2 ++ Ev.acq t2 l :: m3) ++ Ev.acc t2 o w2 v2 :: post))[pre.length]?
            = some (Ev.acc t1 o w1 v1) := getElem?_at _ pre _ _ _ rfl rfl
        have hi' : (pre ++ Ev.acc t1 o w1 v1 :: ((m1 ++ Ev.rel t1 l :: m2 ++ Ev.acq t2 l :: m3) ++ Ev.acc t2 o w2 v2 :: post))[pre.length + 1 + m1.length]?
            = some (Ev.rel t1 l) :=
          getElem?_at _ (pre ++ Ev.acc t1 o w1 v1 :: m1) _ (m2 ++ Ev.acq t2 l :: m3 ++ Ev.acc t2 o w2 v2 :: post) _
            (by simp [List.append_assoc]) (by simp; omega)
        have hj' : (pre ++ Ev.acc t1 o w1 v1 :: ((m1 ++ Ev.rel t1 l :: m2 ++ Ev.acq t2 l :: m3) ++ Ev.acc t2 o w2 v2 :: post))[pre.length + 1 + m1.length + 1 + m2.length]?
            = some (Ev.acq t2 l) :=
          getElem?_at _ (pre ++ Ev.acc t1 o w1 v1 :: m1 ++ Ev.rel t1 l :: m2) _ (m3 ++ Ev.acc t2 o w2 v2 :: post) _
            (by simp [List.append_assoc]) (by simp; omega)
        have hj : (pre ++ Ev.acc t1 o w1 v1 :: ((m1 ++ Ev.rel t1 l :: m2 ++ Ev.acq t2 l :: m3) ++ Ev.acc t2 o w2 v2 :: post))[pre.length + 1 + (m1 ++ Ev.rel t1 l :: m2 ++ Ev.acq t2 l :: m3).length]?
            = some (Ev.acc t2 o w2 v2) :=
          getElem?_at _ (pre ++ Ev.acc t1 o w1 v1 :: (m1 ++ Ev.rel t1 l :: m2 ++ Ev.acq t2 l :: m3)) _ post _
            (by simp [List.append_assoc]) (by simp; omega)
        refine HB.trans (HB.po (by omega) hi hi' rfl) (HB.trans (HB.sw (by omega) hi' hj') (HB.po ?_ hj' hj rfl))
        simp; omega

/-- DRF for positions -/
theorem drf_of_wf (cls : Nat → Class) (tr : List Ev) (hwf : WF cls noLocks tr) : DRF tr := by
  intro i j a b hij hi hj hc
  obtain ⟨pre, rest, htr, hlen⟩ := split_of_getElem? tr i a hi
  have hj2 : rest[j - i - 1]? = some b := by
    rw [htr, List.getElem?_append_right (by omega)] at hj
    have : j - pre.length = (j - i - 1) + 1 := by omega
    rw [this, List.getElem?_cons_succ] at hj
    exact hj
  obtain ⟨mid, post, hrest, hlen2⟩ := split_of_getElem? rest (j - i - 1) b hj2
  subst hrest
  subst htr
  have := drf_decomposed cls pre mid post a b hwf hc
  rw [hlen] at this
  have hjj : i + 1 + mid.length = j := by omega
  rw [hjj] at this
  exact this

/-! ### non-interference of views -/

/-- the two memories agree on everything instance `i` may rely on -/
def Agree (cls : Nat → Class) (i : Nat) (m m' : Mem) : Prop := ∀ o, stable cls i o = true → m o = m' o

theorem agree_other (cls : Nat → Class) (i : Nat) (h : Locks) (m m' : Mem) (e : Ev)
    (hok : stepOk cls h e) (hne : e.thread ≠ i) (ha : Agree cls i m m') : Agree cls i (applyEv m e) m' := by
  cases e with
  | acq t l => exact ha
  | rel t l => exact ha
  | acc t o w v =>
    cases w with
    | false => exact ha
    | true =>
      intro o' hs
      simp only [applyEv, Mem.write]
      by_cases ho : o' = o
      · subst ho
        exfalso
        simp only [stepOk] at hok
        simp only [stable] at hs
        cases hcls : cls o' with
        | loc j => rw [hcls] at hok hs; simp at hs hok; exact hne (by simp [Ev.thread, hok, hs])
        | sharedRO => rw [hcls] at hok; simp at hok
        | sharedSync l => rw [hcls] at hs; simp at hs
      · simp [ho]; exact ha o' hs

theorem agree_same (cls : Nat → Class) (i : Nat) (m m' : Mem) (e : Ev) (ha : Agree cls i m m') :
    Agree cls i (applyEv m e) (applyEv m' e) := by
  cases e with
  | acq t l => exact ha
  | rel t l => exact ha
  | acc t o w v =>
    cases w with
    | false => exact ha
    | true =>
      intro o' hs
      simp only [applyEv, Mem.write]
      by_cases ho : o' = o
      · simp [ho]
      · simp [ho]; exact ha o' hs

theorem view_filter (cls : Nat → Class) (i : Nat) : ∀ (tr : List Ev) (h : Locks) (m m' : Mem),
    WF cls h tr → Agree cls i m m' →
    view cls i m tr = view cls i m' (tr.filter fun e => e.thread == i) := by
  intro tr
  induction tr with
  | nil => intro h m m' _ _; rfl
  | cons e es ih =>
    intro h m m' hwf ha
    obtain ⟨hok, hwf'⟩ := hwf
    by_cases ht : e.thread = i
    · have hf : (e :: es).filter (fun e => e.thread == i) = e :: es.filter (fun e => e.thread == i) :=
        List.filter_cons_of_pos (by simpa using ht)
      rw [hf]
      have ha' := agree_same cls i m m' e ha
      have ih' := ih (next h e) (applyEv m e) (applyEv m' e) hwf' ha'
      cases e with
      | acq t l => simpa [view] using ih'
      | rel t l => simpa [view] using ih'
      | acc t o w v =>
        cases w with
        | true => simpa [view] using ih'
        | false =>
          simp only [view]
          by_cases hc : t = i ∧ stable cls i o = true
          · rw [if_pos hc, if_pos hc, ih', ha o hc.2]
          · rw [if_neg hc, if_neg hc]
            exact ih'
    · have hf : (e :: es).filter (fun e => e.thread == i) = es.filter (fun e => e.thread == i) :=
        List.filter_cons_of_neg (by simpa using ht)
      rw [hf]
      have ha' := agree_other cls i h m m' e hok ht ha
      have ih' := ih (next h e) (applyEv m e) m' hwf' ha'
      cases e with
      | acq t l => simpa [view] using ih'
      | rel t l => simpa [view] using ih'
      | acc t o w v =>
        cases w with
        | true => simpa [view] using ih'
        | false =>
          simp only [view]
          have : ¬ (t = i ∧ stable cls i o = true) := fun hc => ht (by simp [Ev.thread, hc.1])
          rw [if_neg this]
          exact ih'

/-! ### guns -/

theorem toggle_guns : ∀ (i : Nat) (l : List Inst), (toggle i l).map (·.gun) = l.map (·.gun) := by
  intro i l
  induction l generalizing i with
  | nil => cases i <;> rfl
  | cons x xs ih =>
    cases i with
    | zero => simp [toggle]
    | succ n => simp [toggle, ih n]

/-- guns are pairwise distinct objects and all older than the factory's next one -/
def EngOk (s : Eng) : Prop := (s.insts.map (·.gun)).Nodup ∧ ∀ g ∈ s.insts.map (·.gun), g < s.nextGun

theorem engStep_ok (s : Eng) (a : Act) (h : EngOk s) : EngOk (engStep s a) := by
  obtain ⟨hn, hlt⟩ := h
  cases a with
  | start =>
    refine ⟨?_, ?_⟩
    · simp only [engStep, List.map_append, List.map_cons, List.map_nil]
      rw [List.nodup_append]
      refine ⟨hn, by simp, ?_⟩
      intro a ha b hb
      simp at hb
      subst hb
      exact Nat.ne_of_lt (hlt a ha)
    · intro g hg
      simp only [engStep, List.map_append, List.map_cons, List.map_nil, List.mem_append, List.mem_singleton] at hg
      rcases hg with hg | hg
      · exact Nat.lt_succ_of_lt (hlt g hg)
      · simp [engStep, hg]
  | warmup =>
    exact ⟨hn, fun g hg => Nat.lt_succ_of_lt (hlt g hg)⟩
  | move i =>
    refine ⟨?_, ?_⟩
    · simp only [engStep, toggle_guns]; exact hn
    · intro g hg
      simp only [engStep, toggle_guns] at hg
      exact hlt g hg

theorem engRun_ok (acts : List Act) : ∀ s, EngOk s → EngOk (engRun s acts) := by
  induction acts with
  | nil => intro s h; exact h
  | cons a as ih => intro s h; exact ih (engStep s a) (engStep_ok s a h)

theorem active_le_one (g : Nat) : ∀ (l : List Inst), (l.map (·.gun)).Nodup → active g l ≤ 1 := by
  intro l
  induction l with
  | nil => intro _; simp [active]
  | cons x xs ih =>
    intro hn
    simp only [List.map_cons, List.nodup_cons] at hn
    obtain ⟨hx, hxs⟩ := hn
    by_cases hg : x.gun = g
    · have hzero : active g xs = 0 := by
        simp only [active, List.length_eq_zero_iff, List.filter_eq_nil_iff]
        intro y hy
        have : y.gun ≠ g := by
          intro hyg
          apply hx
          rw [hg, ← hyg]
          exact List.mem_map_of_mem hy
        simp [this]
      simp only [active, List.filter_cons]
      split
      · simp only [List.length_cons]
        have := hzero
        simp only [active] at this
        omega
      · have := hzero
        simp only [active] at this
        omega
    · have : (x.gun == g && x.shooting) = false := by simp [hg]
      simp only [active, List.filter_cons, this]
      exact ih hxs

end Pandora.Proofs.C11
