import Pandora.Model.C07Json

/-! Round 4 — the JSON text reader reads back what `renderEntJ` / `renderStreamJ` / `renderElemsJ` write. -/
namespace Pandora.Proofs.C07
open Pandora.Model.C07

theorem skipWs_gap (g x : Bytes) (hg : allJWs g = true) : skipWs (g ++ x) = skipWs x := by
  induction g with
  | nil => rfl
  | cons b r ih =>
    have h : isJWs b = true ∧ allJWs r = true := by simpa [allJWs] using hg
    simp [skipWs, h.1, ih h.2]

theorem skipWs_nonws (b : UInt8) (x : Bytes) (hb : isJWs b = false) : skipWs (b :: x) = b :: x := by
  simp [skipWs, hb]

theorem skipWs_all (g : Bytes) (hg : allJWs g = true) : skipWs g = [] := by
  have := skipWs_gap g [] hg
  simpa [skipWs] using this

theorem hexVal_hexDigit : ∀ n, n < 16 → hexVal (hexDigit n) = some n := by decide

theorem ctl_facts : ∀ n, n < 32 →
    hexVal (hexDigit (n / 16)) = some (n / 16) ∧ hexVal (hexDigit (n % 16)) = some (n % 16)
      ∧ ((0 * 16 + 0) * 16 + n / 16) * 16 + n % 16 = n := by decide

theorem readStr_escByte (b : UInt8) (x s rest : Bytes) (ih : readStr x = some (s, rest)) :
    readStr (escByte b ++ x) = some (b :: s, rest) := by
  unfold escByte
  by_cases h34 : b = 34
  · subst h34
    show readStr (92 :: 34 :: x) = _
    rw [readStr.eq_def]; simp [simpleEsc, ih]
  · by_cases h92 : b = 92
    · subst h92
      show readStr (92 :: 92 :: x) = _
      rw [readStr.eq_def]; simp [simpleEsc, ih]
    · have e34 : (b == 34) = false := by simpa using h34
      have e92 : (b == 92) = false := by simpa using h92
      by_cases hc : b < 32
      · have hn : b.toNat < 32 := by simpa [UInt8.lt_iff_toNat_lt] using hc
        obtain ⟨f1, f2, _⟩ := ctl_facts b.toNat hn
        have f3 : b.toNat / 16 * 16 + b.toNat % 16 = b.toNat := by omega
        have h48 : hexVal 48 = some 0 := by decide
        have hu : utf8Enc b.toNat = [b] := by
          have : b.toNat < 128 := by omega
          simp [utf8Enc, this]
        simp only [e34, e92, hc, if_true, Bool.false_eq_true, if_false]
        show readStr (92 :: 117 :: 48 :: 48 :: hexDigit (b.toNat / 16) :: hexDigit (b.toNat % 16) :: x) = _
        rw [readStr.eq_def]
        simp [h48, f1, f2, ih]
        rw [f3]
        exact ⟨by omega, by simp [hu]⟩
      · simp only [e34, e92, hc, if_false, Bool.false_eq_true]
        show readStr (b :: x) = _
        rw [readStr.eq_def]
        simp [e34, e92, hc, ih]

theorem readStr_esc (s rest : Bytes) : readStr (escStr s ++ 34 :: rest) = some (s, rest) := by
  induction s with
  | nil =>
    show readStr (34 :: rest) = _
    rw [readStr.eq_def]; simp
  | cons b r ih =>
    simp only [escStr, List.append_assoc]
    exact readStr_escByte b _ r rest ih

theorem readStr_jStr (s rest : Bytes) : readStr (escStr s ++ ([34] ++ rest)) = some (s, rest) := readStr_esc s rest

theorem jStr_append (s X : Bytes) : jStr s ++ X = 34 :: (escStr s ++ 34 :: X) := by simp [jStr]

theorem skipWs_jStr (s X : Bytes) : skipWs (jStr s ++ X) = jStr s ++ X := by
  rw [jStr_append]; exact skipWs_nonws 34 _ (by decide)

theorem readStrVal_jStr (v X : Bytes) : readStrVal (jStr v ++ X) = some (some v, X) := by
  rw [jStr_append]; simp [readStrVal, readStr_esc]

/-- a string member of an entity object -/
theorem fieldStep_str (f : Nat) (key : Bytes) (e : Entity) (seen : List Bytes) (v X : Bytes)
    (hk : key ∈ knownKeys) (hs : key ∉ seen) (hh : key ≠ kHeaders) :
    fieldStep f key e seen (jStr v ++ X) =
      some ((if key == kHost then { e with host := v } else if key == kMethod then { e with method := v }
              else if key == kUri then { e with uri := v } else if key == kTag then { e with tag := v } else { e with body := v }),
            key :: seen, X) := by
  simp [fieldStep, hk, hs, hh, readStrVal_jStr]

/-- the members of a non-empty `headers` object -/
theorem readHdrMembers_render (g : Bytes) (hg : allJWs g = true) :
    ∀ (hs : List (Bytes × Bytes)) (fuel : Nat) (X : Bytes), hs ≠ [] → hs.length ≤ fuel →
      readHdrMembers fuel (renderHdrMembers g hs ++ X) = some (hs, X)
  | [], _, _, h, _ => absurd rfl h
  | [kv], fuel, X, _, hf => by
    obtain ⟨n, rfl⟩ : ∃ n, fuel = n + 1 := ⟨fuel - 1, by simp at hf; omega⟩
    obtain ⟨k, v⟩ := kv
    simp only [renderHdrMembers, jMember, List.append_assoc, List.cons_append, List.nil_append]
    rw [readHdrMembers]
    simp only [skipWs_gap _ _ hg, skipWs_jStr]
    rw [jStr_append]
    simp only [readStr_esc, skipWs_gap _ _ hg, skipWs_nonws 58 _ (by decide), skipWs_jStr]
    rw [jStr_append]
    simp only [readStr_esc, skipWs_gap _ _ hg, skipWs_nonws 125 _ (by decide)]
  | kv :: kv2 :: r, fuel, X, _, hf => by
    obtain ⟨n, rfl⟩ : ∃ n, fuel = n + 1 := ⟨fuel - 1, by simp at hf; omega⟩
    obtain ⟨k, v⟩ := kv
    have ih := readHdrMembers_render g hg (kv2 :: r) n X (by simp) (by simp at hf ⊢; omega)
    simp only [renderHdrMembers, jMember, List.append_assoc, List.cons_append, List.nil_append] at ih ⊢
    rw [readHdrMembers]
    simp only [skipWs_gap _ _ hg, skipWs_jStr]
    rw [jStr_append]
    simp only [readStr_esc, skipWs_gap _ _ hg, skipWs_nonws 58 _ (by decide), skipWs_jStr]
    rw [jStr_append]
    simp only [readStr_esc, skipWs_gap _ _ hg, skipWs_nonws 44 _ (by decide)]
    rw [ih]; rfl

theorem readHdrs_render (g : Bytes) (hg : allJWs g = true) (hs : List (Bytes × Bytes)) (fuel : Nat) (X : Bytes)
    (hf : hs.length ≤ fuel) : readHdrs fuel (renderHdrsJ g hs ++ X) = some (hs, X) := by
  unfold renderHdrsJ
  cases hs with
  | nil =>
    simp only [List.isEmpty_nil, if_true, List.cons_append, List.append_assoc]
    simp [readHdrs, skipWs_gap _ _ hg, skipWs, isJWs]
  | cons kv r =>
    simp only [List.isEmpty_cons, Bool.false_eq_true, if_false, List.cons_append]
    have h := readHdrMembers_render g hg (kv :: r) fuel X (by simp) hf
    have hne : ∀ Y, skipWs (renderHdrMembers g (kv :: r) ++ X) ≠ 125 :: Y := by
      intro Y
      cases r with
      | nil =>
        simp only [renderHdrMembers, jMember, List.append_assoc, skipWs_gap _ _ hg, skipWs_jStr]
        rw [jStr_append]; simp
      | cons kv2 r2 =>
        simp only [renderHdrMembers, jMember, List.append_assoc, skipWs_gap _ _ hg, skipWs_jStr]
        rw [jStr_append]; simp
    rw [readHdrs]
    split
    · rename_i r1 heq; exact absurd heq (hne r1)
    · exact h

theorem skipWs_hdrs (g : Bytes) (hs : List (Bytes × Bytes)) (X : Bytes) :
    skipWs (renderHdrsJ g hs ++ X) = renderHdrsJ g hs ++ X := by
  unfold renderHdrsJ; split <;> exact skipWs_nonws 123 _ (by decide)

theorem fieldStep_hdrs (g : Bytes) (hg : allJWs g = true) (f : Nat) (e : Entity) (seen : List Bytes)
    (hs : List (Bytes × Bytes)) (X : Bytes) (hsn : kHeaders ∉ seen) (hf : hs.length ≤ f) :
    fieldStep f kHeaders e seen (renderHdrsJ g hs ++ X) = some ({ e with headers := hs }, kHeaders :: seen, X) := by
  have hk : kHeaders ∈ knownKeys := by decide
  simp [fieldStep, hk, hsn, readHdrs_render g hg hs f X hf]

/-- one member followed by a comma -/
theorem readFields_comma (g : Bytes) (hg : allJWs g = true) (fuel : Nat) (e e' : Entity) (seen seen' : List Bytes)
    (key val rest : Bytes) (hval : ∀ Y, skipWs (val ++ Y) = val ++ Y)
    (hstep : fieldStep (fuel + 1) key e seen (val ++ (g ++ 44 :: rest)) = some (e', seen', g ++ 44 :: rest)) :
    readFields (fuel + 1) e seen (g ++ (jMember g key val ++ (g ++ 44 :: rest))) = readFields fuel e' seen' rest := by
  rw [readFields]
  simp only [jMember, List.append_assoc, List.cons_append, skipWs_gap _ _ hg, skipWs_jStr]
  rw [jStr_append]
  simp only [readStr_esc, skipWs_gap _ _ hg, skipWs_nonws 58 _ (by decide), hval, hstep, skipWs_nonws 44 _ (by decide)]

/-- the last member and the closing brace -/
theorem readFields_close (g : Bytes) (hg : allJWs g = true) (fuel : Nat) (e e' : Entity) (seen seen' : List Bytes)
    (key val rest : Bytes) (hval : ∀ Y, skipWs (val ++ Y) = val ++ Y)
    (hstep : fieldStep (fuel + 1) key e seen (val ++ (g ++ 125 :: rest)) = some (e', seen', g ++ 125 :: rest)) :
    readFields (fuel + 1) e seen (g ++ (jMember g key val ++ (g ++ 125 :: rest))) = some (e', rest) := by
  rw [readFields]
  simp only [jMember, List.append_assoc, List.cons_append, skipWs_gap _ _ hg, skipWs_jStr]
  rw [jStr_append]
  simp only [readStr_esc, skipWs_gap _ _ hg, skipWs_nonws 58 _ (by decide), hval, hstep, skipWs_nonws 125 _ (by decide)]

/-- **one entity object**: the reader gives back the entity, for every gap of JSON white space -/
theorem readObj_render (g : Bytes) (hg : allJWs g = true) (e : Entity) (fuel : Nat)
    (hh : e.headers.length + 6 ≤ fuel) (X : Bytes) : readObj fuel (entBody g e ++ X) = some (e, X) := by
  obtain ⟨n, rfl⟩ : ∃ n, fuel = n + 6 := ⟨fuel - 6, by omega⟩
  have hne : ∀ Y, skipWs (entBody g e ++ X) ≠ 125 :: Y := by
    intro Y
    simp only [entBody, jMember, List.append_assoc, skipWs_gap _ _ hg, skipWs_jStr]
    rw [jStr_append]; simp
  unfold readObj
  split
  · rename_i r1 heq; exact absurd heq (hne r1)
  · simp only [entBody, List.append_assoc, List.cons_append, List.nil_append]
    rw [readFields_comma g hg (n + 5) emptyEntity _ [] _ kHost (jStr e.host) _ (skipWs_jStr _)
          (fieldStep_str _ kHost _ _ _ _ (by decide) (by decide) (by decide))]
    rw [readFields_comma g hg (n + 4) _ _ _ _ kMethod (jStr e.method) _ (skipWs_jStr _)
          (fieldStep_str _ kMethod _ _ _ _ (by decide) (by decide) (by decide))]
    rw [readFields_comma g hg (n + 3) _ _ _ _ kUri (jStr e.uri) _ (skipWs_jStr _)
          (fieldStep_str _ kUri _ _ _ _ (by decide) (by decide) (by decide))]
    rw [readFields_comma g hg (n + 2) _ _ _ _ kHeaders (renderHdrsJ g e.headers) _ (skipWs_hdrs g _)
          (fieldStep_hdrs g hg _ _ _ _ _ (by decide) (by omega))]
    rw [readFields_comma g hg (n + 1) _ _ _ _ kTag (jStr e.tag) _ (skipWs_jStr _)
          (fieldStep_str _ kTag _ _ _ _ (by decide) (by decide) (by decide))]
    rw [readFields_close g hg n _ _ _ _ kBody (jStr e.body) _ (skipWs_jStr _)
          (fieldStep_str _ kBody _ _ _ _ (by decide) (by decide) (by decide))]
    cases e; rfl

theorem skipWs_ent (g : Bytes) (e : Entity) (X : Bytes) : skipWs (renderEntJ g e ++ X) = 123 :: (entBody g e ++ X) :=
  skipWs_nonws 123 _ (by decide)

theorem readStream_skip (n fo : Nat) (sep X : Bytes) (hs : allJWs sep = true) :
    readStream n fo (sep ++ X) = readStream n fo X := by
  cases n with
  | zero => rfl
  | succ m => simp only [readStream, skipWs_gap _ _ hs]

/-- **a stream of objects** (one per line, packed, pretty-printed: any white space before and after each) -/
theorem readStream_render (g lead sep : Bytes) (hg : allJWs g = true) (hl : allJWs lead = true) (hs : allJWs sep = true)
    (fo : Nat) :
    ∀ (es : List Entity) (fuel : Nat), es.length < fuel → (∀ e ∈ es, e.headers.length + 6 ≤ fo) →
      readStream fuel fo (renderStreamJ g lead sep es) = some es
  | [], fuel, hf, _ => by
    obtain ⟨n, rfl⟩ : ∃ n, fuel = n + 1 := ⟨fuel - 1, by simp at hf; omega⟩
    simp [readStream, renderStreamJ, skipWs_all lead hl]
  | e :: r, fuel, hf, hh => by
    obtain ⟨n, rfl⟩ : ∃ n, fuel = n + 1 := ⟨fuel - 1, by simp at hf; omega⟩
    have ih := readStream_render g lead sep hg hl hs fo r n (by simp at hf; omega)
      (fun x hx => hh x (List.mem_cons_of_mem _ hx))
    have hobj := readObj_render g hg e fo (hh e (by simp)) (sep ++ renderStreamJ g lead sep r)
    rw [readStream]
    simp only [renderStreamJ, skipWs_gap _ _ hl, skipWs_ent, hobj, readStream_skip _ _ _ _ hs, ih]
    rfl

/-- **ONE array of objects** -/
theorem readElems_render (g lead sep trail : Bytes) (hg : allJWs g = true) (hl : allJWs lead = true)
    (hs : allJWs sep = true) (fo : Nat) :
    ∀ (es : List Entity) (fuel : Nat), es ≠ [] → es.length ≤ fuel → (∀ e ∈ es, e.headers.length + 6 ≤ fo) →
      readElems fuel fo (renderElemsJ g lead sep trail es) = some (es, trail)
  | [], _, h, _, _ => absurd rfl h
  | [e], fuel, _, hf, hh => by
    obtain ⟨n, rfl⟩ : ∃ n, fuel = n + 1 := ⟨fuel - 1, by simp at hf; omega⟩
    have hobj := readObj_render g hg e fo (hh e (by simp)) (sep ++ 93 :: trail)
    rw [readElems]
    simp only [renderElemsJ, skipWs_gap _ _ hl, skipWs_ent, hobj, skipWs_gap _ _ hs, skipWs_nonws 93 _ (by decide)]
  | e :: e2 :: r, fuel, _, hf, hh => by
    obtain ⟨n, rfl⟩ : ∃ n, fuel = n + 1 := ⟨fuel - 1, by simp at hf; omega⟩
    have ih := readElems_render g lead sep trail hg hl hs fo (e2 :: r) n (by simp) (by simp at hf ⊢; omega)
      (fun x hx => hh x (List.mem_cons_of_mem _ hx))
    have hobj := readObj_render g hg e fo (hh e (by simp)) (sep ++ 44 :: renderElemsJ g lead sep trail (e2 :: r))
    rw [readElems]
    simp only [renderElemsJ, skipWs_gap _ _ hl, skipWs_ent, hobj, skipWs_gap _ _ hs, skipWs_nonws 44 _ (by decide)]
    rw [ih]; rfl

/-! ### document level: the fuel `jsonDoc` takes (the length of the file) is enough -/

theorem len_hdrMembers (g : Bytes) : ∀ hs : List (Bytes × Bytes), hs.length ≤ (renderHdrMembers g hs).length
  | [] => by simp
  | [kv] => by simp [renderHdrMembers, jMember, jStr]; omega
  | kv :: kv2 :: r => by
    have ih := len_hdrMembers g (kv2 :: r)
    simp [renderHdrMembers, jMember, jStr] at ih ⊢; omega

theorem len_hdrs (g : Bytes) (hs : List (Bytes × Bytes)) : hs.length ≤ (renderHdrsJ g hs).length := by
  unfold renderHdrsJ
  split
  · rename_i h; cases hs <;> simp_all
  · have := len_hdrMembers g hs; simp; omega

theorem len_ent (g : Bytes) (e : Entity) : e.headers.length + 6 ≤ (renderEntJ g e).length := by
  have := len_hdrs g e.headers
  simp [renderEntJ, entBody, jMember, jStr]; omega

theorem len_stream (g lead sep : Bytes) : ∀ es : List Entity,
    es.length ≤ (renderStreamJ g lead sep es).length ∧ ∀ e ∈ es, e.headers.length + 6 ≤ (renderStreamJ g lead sep es).length
  | [] => by simp
  | e :: r => by
    have ih := len_stream g lead sep r
    have he := len_ent g e
    refine ⟨by simp [renderStreamJ]; omega, ?_⟩
    intro x hx
    simp only [renderStreamJ, List.length_append]
    rcases List.mem_cons.mp hx with rfl | hx
    · omega
    · have := ih.2 x hx; omega

theorem len_elems (g lead sep trail : Bytes) : ∀ es : List Entity,
    es.length ≤ (renderElemsJ g lead sep trail es).length ∧ ∀ e ∈ es, e.headers.length + 6 ≤ (renderElemsJ g lead sep trail es).length
  | [] => by simp
  | [e] => by
    have he := len_ent g e
    refine ⟨by simp [renderElemsJ]; omega, ?_⟩
    intro x hx
    simp only [List.mem_singleton] at hx; subst hx
    simp only [renderElemsJ, List.length_append]; omega
  | e :: e2 :: r => by
    have ih := len_elems g lead sep trail (e2 :: r)
    have he := len_ent g e
    refine ⟨by simp [renderElemsJ] at ih ⊢; omega, ?_⟩
    intro x hx
    simp only [renderElemsJ, List.length_append, List.length_cons]
    rcases List.mem_cons.mp hx with rfl | hx
    · omega
    · have := ih.2 x hx; omega

/-- **an http/json file of one object after the other** is read back as its entities, in stream mode -/
theorem jsonDoc_stream (g lead sep : Bytes) (hg : allJWs g = true) (hl : allJWs lead = true) (hs : allJWs sep = true)
    (es : List Entity) (hne : es ≠ []) (hu : utf8Valid (renderStreamJ g lead sep es) = true) :
    jsonDoc (renderStreamJ g lead sep es) = some (false, es) := by
  have hlen := len_stream g lead sep es
  have hread := readStream_render g lead sep hg hl hs ((renderStreamJ g lead sep es).length + 1) es
    ((renderStreamJ g lead sep es).length + 1) (by omega) (fun e he => by have := hlen.2 e he; omega)
  unfold jsonDoc
  simp only [hu, Bool.not_true, Bool.false_eq_true, if_false]
  cases es with
  | nil => exact absurd rfl hne
  | cons e r =>
    have hsk : skipWs (renderStreamJ g lead sep (e :: r)) = 123 :: (entBody g e ++ (sep ++ renderStreamJ g lead sep r)) := by
      simp only [renderStreamJ, skipWs_gap _ _ hl, skipWs_ent]
    rw [hsk]
    simp only [hread, Option.map_some]

/-- **an http/json file that is ONE array** is read back as its entities, in array mode -/
theorem jsonDoc_array (g lead0 lead sep trail : Bytes) (hg : allJWs g = true) (hl0 : allJWs lead0 = true)
    (hl : allJWs lead = true) (hs : allJWs sep = true) (ht : allJWs trail = true)
    (es : List Entity) (hne : es ≠ []) (hu : utf8Valid (lead0 ++ 91 :: renderElemsJ g lead sep trail es) = true) :
    jsonDoc (lead0 ++ 91 :: renderElemsJ g lead sep trail es) = some (true, es) := by
  have hlen := len_elems g lead sep trail es
  have hL : (renderElemsJ g lead sep trail es).length ≤ (lead0 ++ 91 :: renderElemsJ g lead sep trail es).length := by simp; omega
  have hread := readElems_render g lead sep trail hg hl hs ((lead0 ++ 91 :: renderElemsJ g lead sep trail es).length + 1) es
    ((lead0 ++ 91 :: renderElemsJ g lead sep trail es).length + 1) hne (by omega) (fun e he => by have := hlen.2 e he; omega)
  have hsk : ∃ Z, skipWs (renderElemsJ g lead sep trail es) = 123 :: Z := by
    cases es with
    | nil => exact absurd rfl hne
    | cons e r =>
      cases r with
      | nil =>
        refine ⟨entBody g e ++ (sep ++ 93 :: trail), ?_⟩
        simp only [renderElemsJ, skipWs_gap _ _ hl, skipWs_ent]
      | cons e2 r2 =>
        refine ⟨entBody g e ++ (sep ++ 44 :: renderElemsJ g lead sep trail (e2 :: r2)), ?_⟩
        simp only [renderElemsJ, skipWs_gap _ _ hl, skipWs_ent]
  obtain ⟨Z, hZ⟩ := hsk
  unfold jsonDoc
  simp only [hu, Bool.not_true, Bool.false_eq_true, if_false, skipWs_gap _ _ hl0, skipWs_nonws 91 _ (by decide), hZ]
  rw [hread]
  simp [skipWs_all trail ht]

end Pandora.Proofs.C07
