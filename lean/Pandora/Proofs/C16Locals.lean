/-
Proofs C16 (locals, functions, ammo): helper lemmas for `Props/C16.lean`.

* `envGet_mergeMaps`   what `mergeMaps(to, from)` leaves under a key: the LAST entry of `from` with that key, otherwise
                        what `to` had;
* `evalLocals_append`  `decodeLocals` processes the blocks left to right;
* `eval_inline`        evaluating an expression under the locals = evaluating, under NO locals, the expression with
                        every defined local written out as a literal.
-/
import Pandora.Model.C16Locals

namespace Pandora.Proofs.C16
open Pandora.Go Pandora.Model.C16

/-! ### environments -/

theorem envGet_nil (k : String) : envGet [] k = none := rfl

theorem envGet_cons (p : String × V) (env : Env) (k : String) :
    envGet (p :: env) k = if p.1 == k then some p.2 else envGet env k := by
  unfold envGet
  simp only [List.find?]
  split <;> simp_all

theorem envGet_envSet (env : Env) (k k' : String) (v : V) :
    envGet (envSet env k v) k' = if k == k' then some v else envGet env k' := by
  induction env with
  | nil => simp [envSet, envGet_cons, envGet_nil]
  | cons p rest ih =>
    unfold envSet
    by_cases h : (p.1 == k) = true
    · rw [if_pos h, envGet_cons, envGet_cons]
      have hk : p.1 = k := eq_of_beq h
      by_cases h2 : (k == k') = true
      · simp [h2]
      · have : (p.1 == k') = false := by rw [hk]; simpa using h2
        simp [h2, this]
    · rw [if_neg h, envGet_cons, envGet_cons, ih]
      by_cases h3 : (p.1 == k') = true
      · have hk' : p.1 = k' := eq_of_beq h3
        have : (k == k') = false := by
          cases hkk : (k == k') with
          | false => rfl
          | true =>
            have : k = k' := eq_of_beq hkk
            exact absurd (by rw [hk', this]; exact beq_self_eq_true k') h
        simp [h3, this]
      · simp [h3]

theorem envGet_append_single (env : Env) (p : String × V) (k : String) :
    envGet (env ++ [p]) k = match envGet env k with
      | some v => some v
      | none => if p.1 == k then some p.2 else none := by
  induction env with
  | nil => simp [envGet_cons, envGet_nil]
  | cons q rest ih =>
    simp only [List.cons_append, envGet_cons]
    by_cases h : (q.1 == k) = true
    · simp [h]
    · simp only [h, ih]
      simp

/-- `mergeMaps(to, from)[k]` = the last `from` entry under `k`, otherwise `to[k]` -/
theorem envGet_mergeMaps (src dst : Env) (k : String) :
    envGet (mergeMaps dst src) k = match envGet src.reverse k with
      | some v => some v
      | none => envGet dst k := by
  induction src generalizing dst with
  | nil => simp [mergeMaps, envGet_nil]
  | cons p rest ih =>
    have hstep : mergeMaps dst (p :: rest) = mergeMaps (envSet dst p.1 p.2) rest := by
      simp [mergeMaps, List.foldl]
    rw [hstep, ih, List.reverse_cons, envGet_append_single, envGet_envSet]
    cases envGet rest.reverse k with
    | some v => rfl
    | none =>
      by_cases h : (p.1 == k) = true
      · simp [h]
      · simp [h]

/-! ### the structural equality test -/

mutual
theorem beqV_refl : ∀ v : V, beqV v v = true
  | .null => by simp [beqV]
  | .str s => by simp [beqV]
  | .int i => by simp [beqV]
  | .bool b => by simp [beqV]
  | .seq xs => by simp [beqV, beqVL_refl xs]
  | .map kvs => by simp [beqV, beqVM_refl kvs]
theorem beqVL_refl : ∀ xs : List V, beqVL xs xs = true
  | [] => by simp [beqVL]
  | x :: xs => by simp [beqVL, beqV_refl x, beqVL_refl xs]
theorem beqVM_refl : ∀ kvs : List (String × V), beqVM kvs kvs = true
  | [] => by simp [beqVM]
  | (k, x) :: rest => by simp [beqVM, beqV_refl x, beqVM_refl rest]
end

theorem beqOV_refl (o : Option V) : beqOV o o = true := by
  cases o <;> simp [beqOV, beqV_refl]

theorem ne_of_beqOV_false {a b : Option V} (h : beqOV a b = false) : a ≠ b := by
  intro hab
  subst hab
  simp [beqOV_refl] at h

/-! ### `decodeLocals` -/

theorem evalLocals_append (fns : List (String × String)) (bs : List (List (String × E))) (b : List (String × E))
    (vars : Env) :
    evalLocals fns vars (bs ++ [b]) = (evalLocals fns vars bs).bind fun e => localsStep fns e b := by
  induction bs generalizing vars with
  | nil =>
    simp only [List.nil_append, evalLocals]
    cases h : localsStep fns vars b <;> simp [h]
  | cons b0 rest ih =>
    simp only [List.cons_append, evalLocals]
    cases localsStep fns vars b0 with
    | none => simp
    | some v => simp [ih]

theorem evalLocals_append_list (fns : List (String × String)) (bs cs : List (List (String × E))) (vars : Env) :
    evalLocals fns vars (bs ++ cs) = (evalLocals fns vars bs).bind fun e => evalLocals fns e cs := by
  induction bs generalizing vars with
  | nil => simp [evalLocals]
  | cons b0 rest ih =>
    simp only [List.cons_append, evalLocals]
    cases localsStep fns vars b0 with
    | none => simp
    | some v => simp [ih]

/-! ### literals -/

mutual
theorem eval_quote (fns : List (String × String)) (env : Env) : ∀ v : V, evalE fns env (quote v) = some v
  | .null => by simp [quote, evalE]
  | .str s => by simp [quote, evalE]
  | .int i => by simp [quote, evalE]
  | .bool b => by simp [quote, evalE]
  | .seq xs => by simp [quote, evalE, eval_quoteL fns env xs]
  | .map kvs => by simp [quote, evalE, eval_quoteM fns env kvs]
theorem eval_quoteL (fns : List (String × String)) (env : Env) : ∀ xs : List V, evalL fns env (quoteL xs) = some xs
  | [] => by simp [quoteL, evalL]
  | x :: xs => by simp [quoteL, evalL, eval_quote fns env x, eval_quoteL fns env xs]
theorem eval_quoteM (fns : List (String × String)) (env : Env) :
    ∀ kvs : List (String × V), evalM fns env (quoteM kvs) = some kvs
  | [] => by simp [quoteM, evalM]
  | (k, x) :: rest => by simp [quoteM, evalM, eval_quote fns env x, eval_quoteM fns env rest]
end

theorem isStrLit_quote (v : V) : isStrLit (quote v) = true → ∃ s, v = .str s := by
  cases v <;> simp [quote, isStrLit]

/-! ### locals are conveniences: writing their values out does not change the evaluated description -/

theorem inlineL_length (env : Env) : ∀ xs : List E, (inlineEL env xs).length = xs.length
  | [] => by simp [inlineEL]
  | x :: xs => by simp [inlineEL, inlineL_length env xs]

/-- the single-part template rule gives the same value for a part and for its inlined form -/
theorem tmpl_single (fns : List (String × String)) (env : Env) (p : E) (v : V)
    (hp : evalE fns env p = some v) :
    (if isStrLit (inlineE env p) then (tmplStr v).map V.str else some v) =
    (if isStrLit p then (tmplStr v).map V.str else some v) := by
  cases p with
  | loc n =>
    simp only [evalE] at hp
    have hi : inlineE env (.loc n) = quote v := by simp [inlineE, hp]
    rw [hi]
    have hl : isStrLit (E.loc n) = false := rfl
    rw [hl]
    by_cases hq : isStrLit (quote v) = true
    · obtain ⟨s, hs⟩ := isStrLit_quote v hq
      subst hs
      simp [quote, isStrLit, tmplStr]
    · rw [if_neg hq]
      simp
  | null => rw [show inlineE env E.null = E.null by simp [inlineE]]
  | str s => rw [show inlineE env (E.str s) = E.str s by simp [inlineE]]
  | int i => rw [show inlineE env (E.int i) = E.int i by simp [inlineE]]
  | bool b => rw [show inlineE env (E.bool b) = E.bool b by simp [inlineE]]
  | seq xs => simp [inlineE, isStrLit]
  | map kvs => simp [inlineE, isStrLit]
  | tmpl ps => simp [inlineE, isStrLit]
  | call f args => simp [inlineE, isStrLit]
  | idx e k => simp [inlineE, isStrLit]

mutual
theorem eval_inline (fns : List (String × String)) (env : Env) :
    ∀ e : E, evalE fns [] (inlineE env e) = evalE fns env e
  | .null => by simp [inlineE, evalE]
  | .str s => by simp [inlineE, evalE]
  | .int i => by simp [inlineE, evalE]
  | .bool b => by simp [inlineE, evalE]
  | .seq xs => by simp [inlineE, evalE, eval_inlineL fns env xs]
  | .map kvs => by simp [inlineE, evalE, eval_inlineM fns env kvs]
  | .loc n => by
    simp only [inlineE]
    cases h : envGet env n with
    | none => simp [evalE, h, envGet_nil]
    | some v => simp [evalE, h, eval_quote]
  | .call f args => by simp [inlineE, evalE, eval_inlineL fns env args]
  | .idx e k => by simp [inlineE, evalE, eval_inline fns env e, eval_inline fns env k]
  | .tmpl ps => by
    simp only [inlineE, evalE, eval_inlineL fns env ps]
    cases hvs : evalL fns env ps with
    | none => simp
    | some vs =>
      simp only [Option.bind_some]
      match ps, vs, hvs with
      | [], vs, _ => simp [inlineEL]
      | [p], [], hvs =>
        simp only [evalL] at hvs
        cases h1 : evalE fns env p <;> simp [h1] at hvs
      | [p], [v], hvs =>
        have hp : evalE fns env p = some v := by
          simp only [evalL] at hvs
          cases h1 : evalE fns env p with
          | none => simp [h1] at hvs
          | some w => simp [h1] at hvs; rw [hvs]
        simp only [inlineEL]
        exact tmpl_single fns env p v hp
      | [p], _ :: _ :: _, hvs =>
        simp only [evalL] at hvs
        cases h1 : evalE fns env p <;> simp [h1] at hvs
      | _ :: _ :: _, vs, _ => simp [inlineEL]
theorem eval_inlineL (fns : List (String × String)) (env : Env) :
    ∀ xs : List E, evalL fns [] (inlineEL env xs) = evalL fns env xs
  | [] => by simp [inlineEL, evalL]
  | x :: xs => by simp [inlineEL, evalL, eval_inline fns env x, eval_inlineL fns env xs]
theorem eval_inlineM (fns : List (String × String)) (env : Env) :
    ∀ kvs : List (String × E), evalM fns [] (inlineEM env kvs) = evalM fns env kvs
  | [] => by simp [inlineEM, evalM]
  | (k, x) :: rest => by simp [inlineEM, evalM, eval_inline fns env x, eval_inlineM fns env rest]
end

/-! ### the conversion to the types of the HCL structs is idempotent

what `gohcl.DecodeBody` stores is in converted form: converting it again changes nothing -/

theorem strsConv_idem : ∀ (xs : List V) (ss : List String), strsConv xs = some ss → strsConv (ss.map V.str) = some ss
  | [], ss, h => by simp [strsConv] at h; subst h; simp [strsConv]
  | x :: r, ss, h => by
    simp only [strsConv] at h
    cases hx : primStr x with
    | none => simp [hx] at h
    | some s =>
      simp only [hx, Option.bind_some] at h
      cases hr : strsConv r with
      | none => simp [hr] at h
      | some rs =>
        simp only [hr, Option.map_some, Option.some.injEq] at h
        subst h
        simp [strsConv, primStr, strsConv_idem r rs hr]

theorem mapStrVals_idem : ∀ (kvs kvs' : List (String × V)), mapStrVals kvs = some kvs' → mapStrVals kvs' = some kvs'
  | [], kvs', h => by simp [mapStrVals] at h; subst h; simp [mapStrVals]
  | (k, x) :: rest, kvs', h => by
    simp only [mapStrVals] at h
    cases hx : primStr x with
    | none => simp [hx] at h
    | some s =>
      simp only [hx, Option.bind_some] at h
      cases hr : mapStrVals rest with
      | none => simp [hr] at h
      | some rs =>
        simp only [hr, Option.map_some, Option.some.injEq] at h
        subst h
        simp [mapStrVals, primStr, mapStrVals_idem rest rs hr]

theorem coerceLeaf_idem (l : C16Leaf) (v w : V) (h : coerceLeaf l v = some w) : coerceLeaf l w = some w := by
  cases l <;> cases v <;> simp [coerceLeaf, primStr] at h <;> (try subst h) <;> (try simp [coerceLeaf, primStr])
  · obtain ⟨a, ha, hw⟩ := h
    subst hw
    simp [strsConv_idem _ _ ha]
  · obtain ⟨a, ha, hw⟩ := h
    subst hw
    simp [mapStrVals_idem _ _ ha]

/-- a leaf conversion keeps null null and makes nothing null -/
theorem coerceLeaf_null (l : C16Leaf) (v w : V) (h : coerceLeaf l v = some w) : isNullV w = isNullV v := by
  cases l <;> cases v <;> simp [coerceLeaf, primStr] at h <;> (try subst h) <;> (try simp [isNullV])
  all_goals (obtain ⟨a, _, hw⟩ := h; subst hw; simp)

theorem coerceV_leaf (T : Tables) (l : C16Leaf) (v : V) : coerceV T (.leaf l) v = coerceLeaf l v := by
  cases v <;> simp [coerceV]
  cases l <;> simp [coerceLeaf]


theorem written_cons (p : String × V) (fs : List (String × V)) (k : String) :
    written (p :: fs) k = ((p.1 == k && !isNullV p.2) || written fs k) := by
  simp [written]

mutual
theorem coerceV_idem (T : Tables) :
    ∀ (v : V) (ty : C16HTy) (w : V), coerceV T ty v = some w → coerceV T ty w = some w ∧ isNullV w = isNullV v
  | .null, ty, w, h => by
    cases ty <;> simp [coerceV] at h <;> subst h <;> simp [coerceV]
  | .str x, ty, w, h => by
    cases ty with
    | leaf l =>
      rw [coerceV_leaf] at h
      exact ⟨by rw [coerceV_leaf]; exact coerceLeaf_idem l _ w h, coerceLeaf_null l _ w h⟩
    | struct s => simp [coerceV] at h
    | structList s => simp [coerceV] at h
  | .int x, ty, w, h => by
    cases ty with
    | leaf l =>
      rw [coerceV_leaf] at h
      exact ⟨by rw [coerceV_leaf]; exact coerceLeaf_idem l _ w h, coerceLeaf_null l _ w h⟩
    | struct s => simp [coerceV] at h
    | structList s => simp [coerceV] at h
  | .bool x, ty, w, h => by
    cases ty with
    | leaf l =>
      rw [coerceV_leaf] at h
      exact ⟨by rw [coerceV_leaf]; exact coerceLeaf_idem l _ w h, coerceLeaf_null l _ w h⟩
    | struct s => simp [coerceV] at h
    | structList s => simp [coerceV] at h
  | .seq xs, ty, w, h => by
    cases ty with
    | leaf l =>
      rw [coerceV_leaf] at h
      exact ⟨by rw [coerceV_leaf]; exact coerceLeaf_idem l _ w h, coerceLeaf_null l _ w h⟩
    | struct s => simp [coerceV] at h
    | structList s =>
      simp only [coerceV] at h
      cases hx : coerceXs T s xs with
      | none => simp [hx] at h
      | some xs' =>
        simp only [hx, Option.map_some, Option.some.injEq] at h
        subst h
        simp [coerceV, coerceXs_idem T s xs xs' hx, isNullV]
  | .map fs, ty, w, h => by
    cases ty with
    | leaf l =>
      rw [coerceV_leaf] at h
      exact ⟨by rw [coerceV_leaf]; exact coerceLeaf_idem l _ w h, coerceLeaf_null l _ w h⟩
    | structList s => simp [coerceV] at h
    | struct s =>
      simp only [coerceV] at h
      by_cases hr : requiredOK T s fs = true
      · rw [if_pos hr] at h
        cases hx : coerceFs T s fs with
        | none => simp [hx] at h
        | some fs' =>
          simp only [hx, Option.map_some, Option.some.injEq] at h
          subst h
          obtain ⟨h1, h2⟩ := coerceFs_idem T s fs fs' hx
          have hr' : requiredOK T s fs' = true := by
            unfold requiredOK at hr ⊢
            simpa [h2] using hr
          simp [coerceV, hr', h1, isNullV]
      · rw [if_neg hr] at h
        cases h
theorem coerceFs_idem (T : Tables) (s : String) :
    ∀ (fs fs' : List (String × V)), coerceFs T s fs = some fs' →
      coerceFs T s fs' = some fs' ∧ ∀ k, written fs' k = written fs k
  | [], fs', h => by
    simp [coerceFs] at h
    subst h
    simp [coerceFs]
  | (k, x) :: rest, fs', h => by
    simp only [coerceFs] at h
    cases hf : findH T s k with
    | none => simp [hf] at h
    | some f =>
      simp only [hf] at h
      cases hx : coerceV T f.ty x with
      | none => simp [hx] at h
      | some y =>
        cases hr : coerceFs T s rest with
        | none => simp [hx, hr] at h
        | some ys =>
          simp only [hx, hr, Option.some.injEq] at h
          subst h
          obtain ⟨hy1, hy2⟩ := coerceV_idem T x f.ty y hx
          obtain ⟨hr1, hr2⟩ := coerceFs_idem T s rest ys hr
          refine ⟨by simp [coerceFs, hf, hy1, hr1], ?_⟩
          intro k'
          rw [written_cons, written_cons, hr2 k', hy2]
theorem coerceXs_idem (T : Tables) (s : String) :
    ∀ (xs xs' : List V), coerceXs T s xs = some xs' → coerceXs T s xs' = some xs'
  | [], xs', h => by
    simp [coerceXs] at h
    subst h
    simp [coerceXs]
  | x :: rest, xs', h => by
    simp only [coerceXs] at h
    cases hx : coerceV T (.struct s) x with
    | none => simp [hx] at h
    | some y =>
      cases hr : coerceXs T s rest with
      | none => simp [hx, hr] at h
      | some ys =>
        simp only [hx, hr, Option.some.injEq] at h
        subst h
        simp [coerceXs, (coerceV_idem T x (.struct s) y hx).1, coerceXs_idem T s rest ys hr]
end


end Pandora.Proofs.C16
