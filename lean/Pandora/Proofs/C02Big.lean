/-
C02 — the DESCRIBED model (`Model/C02Big.lean`: a finite part is a token count and a function from the token index to
its offset) IS the list model on the expanded offsets `(List.range n).map off`.

Same route as `Proofs/C02Huge.lean`: `BLeaf.expand` is a homomorphism of schedule objects onto the list leaf
(`bleafHom`), a `Sem` pulls back along it (`pullSem`), and `compSem` / `sumSem` / `newComposite_sem` / `seq_refines`
are generic in the children, so every described tree refines the flat spec of its expansion (`bbuild_ok`).

Second half: the factory model (`Model/C02Fac.lean`).  `facRun` on k objects, projected to the calls made to object
`j`, is `seqRun` of object `j` alone (`facRun_proj`): the produced schedules are independent objects.
-/
import Pandora.Model.C02Big
import Pandora.Model.C02Fac
import Pandora.Proofs.C02Huge

set_option linter.unusedVariables false
set_option linter.unusedSimpArgs false

namespace Pandora.Proofs.C02Big
open Pandora.Model.C02 Pandora.Spec.C02 Pandora.Proofs.C02Flat Pandora.Proofs.C02Sem Pandora.Proofs.C02Huge

/-! ### described parts -/

theorem expandOffs_length (n : Nat) (off : Nat → Int) : (expandOffs n off).length = n := by
  simp [expandOffs]

theorem expandOffs_get (n : Nat) (off : Nat → Int) (k : Nat) :
    (expandOffs n off)[k]? = if k < n then some (off k) else none := by
  simp only [expandOffs, List.getElem?_map, List.getElem?_range']
  by_cases h : k < n
  · simp [h, List.getElem?_range h]
  · simp [h, List.getElem?_eq_none (l := List.range n) (by simpa using Nat.le_of_not_lt h)]

theorem bleafHom : Hom BLeaf.expand bleafOps leafOps where
  start := by
    intro s t
    match s with
    | .fin n off dur i none => rfl
    | .fin n off dur i (some _) => rfl
    | .unl dur none => rfl
    | .unl dur (some _) => rfl
  next := by
    intro s now
    match s with
    | .fin n off dur i st =>
      simp only [bleafOps, leafOps, BLeaf.next, BLeaf.expand, Leaf.next, expandOffs_get]
      by_cases h : i < n <;> simp [h, Except.map, BLeaf.expand]
    | .unl dur fi =>
      simp only [bleafOps, leafOps, BLeaf.next, BLeaf.expand, Leaf.next]
      split <;> rfl
  left := by
    intro s now
    match s with
    | .fin n off dur i st => simp [bleafOps, leafOps, BLeaf.left, BLeaf.expand, Leaf.left, expandOffs_length, Except.map]
    | .unl dur none => rfl
    | .unl dur (some f) => rfl
  once0 := by simp [bleafOps, leafOps, BLeaf.expand, expandOffs]

theorem bleaf_left_same (s : BLeaf) (now : Int) (s' : BLeaf) (l : Int) (h : bleafOps.left s now = .ok (s', l)) : s' = s := by
  match s with
  | .fin n off dur i st => simp [bleafOps, BLeaf.left] at h; exact h.1.symm
  | .unl dur none => simp [bleafOps, BLeaf.left] at h; exact h.1.symm
  | .unl dur (some f) => simp [bleafOps, BLeaf.left] at h; exact h.1.symm

theorem bleaf_next_start (s : BLeaf) (now : Int) (s1 : BLeaf) (h : bleafOps.start s now = .ok s1) :
    bleafOps.next s now = bleafOps.next s1 now := by
  match s with
  | .fin n off dur i none => simp [bleafOps, BLeaf.start] at h; subst h; simp [bleafOps, BLeaf.next]
  | .fin n off dur i (some _) => simp [bleafOps, BLeaf.start] at h
  | .unl dur none => simp [bleafOps, BLeaf.start] at h; subst h; simp [bleafOps, BLeaf.next]
  | .unl dur (some _) => simp [bleafOps, BLeaf.start] at h

/-- the described leaf refines the flat spec of its EXPANDED part -/
def bleafSem : Sem bleafOps := pullSem BLeaf.expand bleafHom leafSem bleaf_left_same bleaf_next_start

def blvlSem : (d : Nat) → Sem (blvlOps d)
  | 0 => bleafSem
  | d + 1 => sumSem (blvlSem d) (compSem (blvlSem d))

mutual
/-- **every described tree refines the flat succession of the leaf parts of its expansion** -/
theorem bbuild_ok (now : Int) : ∀ (d : Nat) (t : BTree), t.depth ≤ d →
    ∃ s, bbuild now d t = .ok s ∧ (blvlSem d).U s (flat t.expand)
  | 0, .fin n off dur, _ => ⟨BLeaf.fin n off dur 0 none, by simp [bbuild, pure, Except.pure],
      by simp [blvlSem, bleafSem, pullSem, BLeaf.expand, leafSem, leafU, flat, BTree.expand]⟩
  | 0, .unl dur, _ => ⟨BLeaf.unl dur none, by simp [bbuild, pure, Except.pure],
      by simp [blvlSem, bleafSem, pullSem, BLeaf.expand, leafSem, leafU, flat, BTree.expand]⟩
  | 0, .comp cs, h => by simp [BTree.depth] at h
  | d + 1, .comp cs, h => by
      have hd : bdepthList cs ≤ d := by simp only [BTree.depth] at h; omega
      obtain ⟨kids, pss, hk, hU, hfl⟩ := bbuildList_ok now d cs hd
      obtain ⟨s, hs, hU'⟩ := newComposite_sem (blvlSem d) now kids pss hU
      refine ⟨s, by simp only [bbuild, hk, bind, Except.bind]; exact hs, ?_⟩
      simp only [BTree.expand, flat, ← hfl]
      exact hU'
  | d + 1, .fin n off dur, _ => by
      obtain ⟨x, hx, hU⟩ := bbuild_ok now d (.fin n off dur) (by simp [BTree.depth])
      exact ⟨.inl x, by simp [bbuild, hx, bind, Except.bind, pure, Except.pure], hU⟩
  | d + 1, .unl dur, _ => by
      obtain ⟨x, hx, hU⟩ := bbuild_ok now d (.unl dur) (by simp [BTree.depth])
      exact ⟨.inl x, by simp [bbuild, hx, bind, Except.bind, pure, Except.pure], hU⟩
theorem bbuildList_ok (now : Int) : ∀ (d : Nat) (ts : List BTree), bdepthList ts ≤ d →
    ∃ cs pss, bbuildList now d ts = .ok cs ∧ AllU (blvlSem d) cs pss ∧ pss.flatten = flatList (bexpandList ts)
  | d, [], _ => ⟨[], [], by simp [bbuildList, pure, Except.pure], trivial, by simp [flatList, bexpandList]⟩
  | d, t :: ts, h => by
      have h1 : t.depth ≤ d := by simp only [bdepthList] at h; omega
      have h2 : bdepthList ts ≤ d := by simp only [bdepthList] at h; omega
      obtain ⟨x, hx, hUx⟩ := bbuild_ok now d t h1
      obtain ⟨xs, pss, hxs, hU, hfl⟩ := bbuildList_ok now d ts h2
      exact ⟨x :: xs, flat t.expand :: pss, by simp [bbuildList, hx, hxs, bind, Except.bind, pure, Except.pure],
        ⟨hUx, hU⟩, by simp [flatList, bexpandList, hfl]⟩
end

/-! ### the factory: produced objects are independent -/

/-- `seqRun` written with `seqStep` -/
theorem seqRun_cons {σ : Type} (ops : Ops σ) (s : σ) (c : SOp × Int) (r : List (SOp × Int)) :
    seqRun ops s (c :: r) = match seqStep ops s c with
      | .ok (s', o) => o :: seqRun ops s' r
      | .error e => [.err e] := by
  obtain ⟨op, now⟩ := c
  cases op <;> simp only [seqRun, seqStep, Except.map] <;> split <;> simp_all

theorem noErr_cons_ok {j : Nat} {o : Obs} {r : List (Nat × Obs)} (h : noErr ((j, o) :: r) = true) : noErr r = true := by
  cases o <;> simp_all [noErr]

/-- **the schedules a factory produced are independent objects**: in a run without panic, what object `j` answered is
`seqRun` of that object alone on the calls made to it, whatever was done with the other objects in between -/
theorem facRun_proj {σ : Type} (ops : Ops σ) : ∀ (calls : List (Nat × SOp × Int)) (ss : List σ) (j : Nat) (s : σ),
    ss[j]? = some s → noErr (facRun ops ss calls) = true →
    projObs j (facRun ops ss calls) = seqRun ops s (projCalls j calls)
  | [], ss, j, s, _, _ => by simp [facRun, projObs, projCalls, seqRun]
  | (j', c) :: r, ss, j, s, hs, hne => by
    simp only [facRun] at hne ⊢
    cases hj' : ss[j']? with
    | none =>
      simp only [hj'] at hne ⊢
      have hjj : (j' == j) = false := by
        cases h : j' == j with
        | false => rfl
        | true => simp only [beq_iff_eq] at h; subst h; rw [hs] at hj'; cases hj'
      simp only [projCalls, List.filter_cons, hjj]
      exact facRun_proj ops r ss j s hs hne
    | some sj' =>
      simp only [hj'] at hne ⊢
      cases hst : seqStep ops sj' c with
      | error e => simp [hst, noErr] at hne
      | ok x =>
        obtain ⟨s', o⟩ := x
        simp only [hst] at hne ⊢
        have hne' := noErr_cons_ok hne
        by_cases hjj : j' = j
        · subst hjj
          rw [hs] at hj'; cases hj'
          have hlt : j' < ss.length := by
            rcases Nat.lt_or_ge j' ss.length with h | h
            · exact h
            · rw [List.getElem?_eq_none h] at hs; cases hs
          have hset : (ss.set j' s')[j']? = some s' := by simp [List.getElem?_set, hlt]
          have ih := facRun_proj ops r (ss.set j' s') j' s' hset hne'
          simp only [projObs, projCalls, List.filter_cons, beq_self_eq_true, if_true, List.map_cons] at ih ⊢
          rw [seqRun_cons, hst]
          simp only [ih]
        · have hb : (j' == j) = false := by simpa using hjj
          have hset : (ss.set j' s')[j]? = some s := by rw [List.getElem?_set_ne hjj]; exact hs
          have ih := facRun_proj ops r (ss.set j' s') j s hset hne'
          simp only [projObs, projCalls, List.filter_cons, hb] at ih ⊢
          exact ih

end Pandora.Proofs.C02Big
