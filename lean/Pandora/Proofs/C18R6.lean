/-
C18, round 6 — the glue around the registry core, tied SEMANTICALLY to the source.

`Gen/Plugin.lean` (round-6 part, gen/area_plugin_r6.go) holds decision TABLES obtained by evaluating the Go functions
`convertFactoryOutParams`, `getFillConf`, `getNewDefaultConfig` and the config-error branch of the MakeFunc closure of
`pluginConstructor.NewFactory` on their whole abstract input space, the top-level expectations of `Registry.New` /
`Registry.NewFactory` as Lean conditions over the abstract `reflect.Type`, and the wrapper table of plugin.go.
This file proves that they are what the model (`Model.C18.convertOut`, `callFac`, `Form`, `World.hasFill`, `DefKind.absent`)
assumes — for every value of the inputs, not for the text of the source.
-/
import Pandora.Gen.Plugin
import Pandora.Model.C18
import Pandora.Model.C18Reg

namespace Pandora.Proofs.C18R6
open Pandora.Model.C18Ty Pandora.Model.C18 Pandora.Model.C18Reg Pandora.Gen.Plugin

/-! ### requested forms: which types `NewFactory` (and `LookupFactory`, `FactoryPluginType`) take as a factory type -/

/-- declaratively: `func() (X [, error])` with `X` an interface type -/
def requestedOk (t : Ty) : Bool :=
  match t with
  | .func .nil (.cons x .nil) => x.kind == .iface
  | .func .nil (.cons x (.cons e .nil)) => x.kind == .iface && e == Ty.error
  | _ => false

/-- the plugin interface a requested factory type asks for -/
def requestedPlugin (t : Ty) : Ty := t.out 0

/-- **for every Go type**: the regenerated `isFactoryType` accepts exactly `func() (Interface [, error])` -/
theorem kindFunc (a b : Tys) : (Ty.func a b).kind = Kind.func := rfl

theorem isFactoryType_eq (t : Ty) : isFactoryType t = requestedOk t := by
  cases t with
  | base k i m => cases k <;> simp [isFactoryType, requestedOk, Ty.kind, Ty.numIn, Ty.numOut]
  | ptr e m => simp [isFactoryType, requestedOk, Ty.kind, Ty.numIn, Ty.numOut]
  | func ins outs =>
    rcases ins with _ | ⟨a, ri⟩
    · rcases outs with _ | ⟨x, _ | ⟨e, _ | ⟨e2, ro⟩⟩⟩
      · simp [isFactoryType, requestedOk, kindFunc, Ty.numIn, Ty.numOut, Tys.len]
      · cases hx : x.kind <;>
          simp [isFactoryType, requestedOk, kindFunc, Ty.numIn, Ty.numOut, Ty.out, Tys.len, Tys.get, hx]
      · cases hx : x.kind <;> by_cases he : e = Ty.error <;>
          simp [isFactoryType, requestedOk, kindFunc, Ty.numIn, Ty.numOut, Ty.out, Tys.len, Tys.get, hx, he]
      · simp [isFactoryType, requestedOk, kindFunc, Ty.numIn, Ty.numOut, Tys.len]
    · simp [isFactoryType, requestedOk, kindFunc, Ty.numIn, Ty.numOut, Tys.len]

/-- `Registry.New`'s own expectations: the requested plugin type is an interface and the name is not empty -/
theorem newExpects_eq (t : Ty) (name : String) :
    (newExpects t name).all id = (t.kind == .iface && name != "") := by
  simp [newExpects, Bool.and_comm]

/-- `Registry.NewFactory`'s own expectations: the requested type is `func() (Interface [, error])`, the name not empty -/
theorem newFactoryExpects_eq (t : Ty) (name : String) :
    (newFactoryExpects t name).all id = (requestedOk t && name != "") := by
  simp [newFactoryExpects, isFactoryType_eq, Bool.and_comm]

/-- the two factory forms of the model are requested types, of the model's `numOut`, asking for the plugin interface -/
theorem forms_requested :
    requestedOk (formTy 1) = true ∧ requestedOk (formTy 2) = true ∧
    (formTy 1).numOut = Form.facNoErr.numOut ∧ (formTy 2).numOut = Form.facErr.numOut ∧
    requestedPlugin (formTy 1) = plugT ∧ requestedPlugin (formTy 2) = plugT := by decide

/-! ### the result conversion, semantically -/

/-- the outcome `convertFactoryOutParams` has on a callee result of `outLen` values whose error is nil or not -/
def convOutcome (numOut outLen : Nat) (errNil : Bool) : String :=
  ((convertTable.find? fun r => r.1 == numOut && r.2.1 == outLen && r.2.2.1 == errNil).map (·.2.2.2)).getD "?"

/-- what the model's `convertOut` says, in the table's vocabulary -/
def modelOutcome (numOut outLen : Nat) (errNil : Bool) : String :=
  if errNil then
    (if outLen < numOut then s!"ret:len={numOut}+nilerr" else s!"ret:len={numOut}")
  else
    match convertOut numOut outLen (.error (.ctor 0)) with
    | .panic _ => "panic:err"
    | _ => s!"ret:len={numOut}"

/-- **the regenerated decision table of `convertFactoryOutParams` is the model's `convertOut`**: for both requested arities
and both callee arities — a nil error is appended when the callee has none, a nil error is dropped, a non-nil error is
the error result when one is requested and a panic carrying it when not; always exactly `numOut` results; any other
requested arity panics -/
theorem convert_sem :
    (∀ numOut ∈ [1, 2], ∀ outLen ∈ [1, 2], ∀ errNil ∈ [true, false], (outLen = 1 → errNil = true) →
      convOutcome numOut outLen errNil = modelOutcome numOut outLen errNil) ∧
    (∀ outLen ∈ [1, 2], ∀ errNil ∈ [true, false], (outLen = 1 → errNil = true) →
      convOutcome 3 outLen errNil = "panic:other") := by decide

/-- `convertOut` in words (what `modelOutcome` abbreviates): an ok result stays, an error becomes a panic iff the
requested form has fewer results than the callee -/
theorem convertOut_spec (numOut outLen : Nat) (p : Product) (e : Err) :
    convertOut numOut outLen (.ok p) = .ok p ∧
    convertOut numOut outLen (.error e) = (if numOut < outLen then .panic e else .err e) := by
  simp [convertOut]

/-- **a config error inside the closure of a component-constructor factory** (regenerated by evaluation): a panic carrying
the error for `func() Plugin`, `(zero, err)` for `func() (Plugin, error)` — never "continues" (the constructor is not
called with a configuration whose filling failed): the model's `callFac (.wrapPlugin numOut)` error branch -/
theorem confErr_sem : confErrTable = [(1, "panic:err"), (2, "ret:zero,err"), (3, "panic:other")] := by decide

/-- the model's reading of that table: `numOut = 1` panics, otherwise the error result -/
theorem confErr_model (sh : Shape) (w : World) (st : St) (numOut : Nat) (e : Err) (hc : sh.cfg ≠ .none)
    (hg : (dcGet sh w st).2 = .error e) :
    (callFac sh w (.wrapPlugin numOut) st).2 = (if numOut = 1 then .panic e else .err e) := by
  simp [callFac, hc, hg]

/-! ### optional arguments -/

/-- `getFillConf` / `getNewDefaultConfig`: no optional argument = nil (the model's `hasFill = false` / `DefKind.absent`),
one = that argument, two or more = an expectation panic -/
theorem optional_args :
    getFillConfTable = [(0, "ret:nil"), (1, "ret:elem0"), (2, "panic:expect")] ∧
    getNewDefaultConfigTable = [(0, "ret:nil"), (1, "ret:elem0"), (2, "panic:expect")] := by decide

/-! ### plugin.go: the package-level functions are the default registry's methods -/

/-- every wrapper calls the method of its own name with its own parameters in order -/
theorem wrappers_delegate :
    defaultWrappers.all (fun r => r.1 == r.2.1 && r.2.2) = true ∧
    ["Lookup", "LookupFactory", "New", "NewFactory", "Register"].all (fun n => defaultWrappers.any (·.1 == n)) = true := by
  decide

end Pandora.Proofs.C18R6
