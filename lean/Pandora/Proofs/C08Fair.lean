/-
C08 (round 6, audit of vacuity) — the hypothesis `Progressing` of `C08_conc_fair_end` is satisfiable: a concrete infinite
schedule (the two-consumer example of Props/C08.lean, then `prod` for ever) and the facts needed to show it makes
minimal progress.
-/
import Pandora.Proofs.C08Term

namespace Pandora.Proofs.C08
open Pandora.Model.C08

/-- a state in which `Run` has returned, nothing is on offer or in the channel and every consumer has seen the end is stuck -/
theorem stuck_of_done (inp : Input) (n cap cons : Nat) (s : Sys) (hr : s.result.isSome = true) (ho : s.offering = none)
    (hb : s.buf = []) (he : ∀ c, c < cons → c ∈ s.ended) : Stuck inp n cap cons s := by
  intro l hl
  cases l with
  | prod => simp [Sys.next, hr]
  | push => simp [Sys.next, ho]
  | hand c => simp [Sys.next, ho]
  | done => simp [Sys.next, ho]
  | recv c => simp [Sys.next, hb]
  | eoa c =>
    simp only [Sys.next]
    split
    · next h => exact absurd (he c h.2.2.1) h.2.2.2
    · rfl
  | cancel => exact absurd rfl hl

def fairInp : Input := ⟨.uri, true, ⟨3, 0⟩, none⟩
def fairLs : List Label := [.prod, .prod, .hand 1, .prod, .hand 0, .prod, .hand 1, .prod, .eoa 0, .eoa 1]
/-- the schedule of the two-consumer example, then `prod` for ever -/
def fairSched (t : Nat) : Label := (fairLs[t]?).getD .prod

theorem fairSched_const : ∀ j, stateAt fairInp 2 0 2 fairSched (10 + j) = stateAt fairInp 2 0 2 fairSched 10 := by
  intro j
  induction j with
  | zero => rfl
  | succ j ih =>
    have hσ : fairSched (10 + j) = .prod := by
      unfold fairSched
      have : fairLs[10 + j]? = none := by
        apply List.getElem?_eq_none
        simp [fairLs]
      rw [this]; rfl
    show ((stateAt fairInp 2 0 2 fairSched (10 + j)).next fairInp 2 0 2 (fairSched (10 + j))).getD _ = _
    rw [hσ, ih]
    have : (stateAt fairInp 2 0 2 fairSched 10).next fairInp 2 0 2 .prod = none := by decide
    rw [this]
    exact ih

end Pandora.Proofs.C08
