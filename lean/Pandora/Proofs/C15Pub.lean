/-
C15 round 6: under every schedule of any number of instances, `getTemplate` as it is (parse, then publish) never returns
a template object that is not parsed; the publish-first order of seed C15-r6-2 does.
-/
import Pandora.Model.C15Pub

namespace Pandora.Proofs.C15
open Pandora.Model.C15

/-- the statement list of the real `getTemplate` -/
def realGet : List PubOp := [.load, .branch, .parse, .chk, .store, .join, .ret]

theorem ofGetCode_getCode : ofGetCode getCode = realGet := by decide

def validId (heap : List Bool) (o : Option Nat) : Prop := ∀ i, o = some i → i < heap.length

/-- where an instance can be, and what it then knows -/
def ThOK (heap : List Bool) (th : PTh) : Prop :=
  th.exposed = false ∧
  (th.code = realGet ∨
   (th.code = realGet.drop 1 ∧ th.ok = th.tmpl.isSome ∧ validId heap th.tmpl) ∨
   th.code = realGet.drop 2 ∨
   ((th.code = realGet.drop 3 ∨ th.code = realGet.drop 4 ∨ th.code = realGet.drop 5 ∨ th.code = realGet.drop 6) ∧
      ∃ i, th.tmpl = some i ∧ i < heap.length) ∨
   th.code = [])

structure PInv (s : PSys) : Prop where
  parsed : ∀ i, i < s.heap.length → s.heap.getD i false = true
  cache : validId s.heap s.cache
  ths : ∀ t, ThOK s.heap (s.ths t)

theorem ThOK_mono {heap : List Bool} {th : PTh} (b : Bool) (h : ThOK heap th) : ThOK (heap ++ [b]) th := by
  obtain ⟨he, h⟩ := h
  refine ⟨he, ?_⟩
  rcases h with h | ⟨h1, h2, h3⟩ | h | ⟨h1, i, hi, hl⟩ | h
  · exact Or.inl h
  · refine Or.inr (Or.inl ⟨h1, h2, ?_⟩)
    intro i hi; have := h3 i hi; simp; omega
  · exact Or.inr (Or.inr (Or.inl h))
  · exact Or.inr (Or.inr (Or.inr (Or.inl ⟨h1, i, hi, by simp; omega⟩)))
  · exact Or.inr (Or.inr (Or.inr (Or.inr h)))

theorem init_inv : PInv (PSys.init realGet) :=
  { parsed := by intro i hi; simp [PSys.init] at hi
    cache := by intro i hi; simp [PSys.init] at hi
    ths := fun _ => ⟨rfl, Or.inl rfl⟩ }

theorem setTh_same (f : Nat → PTh) (t : Nat) (x : PTh) : setTh f t x t = x := by simp [setTh]
theorem setTh_other (f : Nat → PTh) (t u : Nat) (x : PTh) (h : u ≠ t) : setTh f t x u = f u := by simp [setTh, h]

/-- every statement of every instance preserves the invariant -/
theorem step_inv (s : PSys) (t : Nat) (h : PInv s) : PInv (s.step t) := by
  obtain ⟨hp, hc, hth⟩ := h
  obtain ⟨hex, hcode⟩ := hth t
  have others : ∀ (x : PTh) (u : Nat), u ≠ t → ThOK s.heap (setTh s.ths t x u) := by
    intro x u hu; rw [setTh_other _ _ _ _ hu]; exact hth u
  have parsedApp : ∀ i, i < (s.heap ++ [true]).length → (s.heap ++ [true]).getD i false = true := by
    intro i hi
    by_cases hlt : i < s.heap.length
    · have := hp i hlt
      simpa [List.getD, List.getElem?_append_left hlt] using this
    · have : i = s.heap.length := by simp at hi; omega
      subst this; simp [List.getD]
  rcases hcode with h | ⟨h1, h2, h3⟩ | h | ⟨h1, i, hi, hl⟩ | h
  · -- load
    refine { parsed := ?_, cache := ?_, ths := ?_ }
    · simpa [PSys.step, h, realGet] using hp
    · simpa [PSys.step, h, realGet] using hc
    · intro u
      by_cases hu : u = t
      · subst hu
        simp only [PSys.step, h, realGet, setTh_same]
        exact ⟨hex, Or.inr (Or.inl ⟨rfl, rfl, hc⟩)⟩
      · simpa [PSys.step, h, realGet] using others _ u hu
  · -- branch
    refine { parsed := ?_, cache := ?_, ths := ?_ }
    · simpa [PSys.step, h1, realGet] using hp
    · simpa [PSys.step, h1, realGet] using hc
    · intro u
      by_cases hu : u = t
      · subst hu
        simp only [PSys.step, h1, realGet, List.drop, setTh_same]
        refine ⟨hex, ?_⟩
        by_cases hok : (s.ths u).ok = true
        · have hsome : (s.ths u).tmpl.isSome = true := by rw [← h2]; exact hok
          obtain ⟨i, hi⟩ := Option.isSome_iff_exists.mp hsome
          refine Or.inr (Or.inr (Or.inr (Or.inl ⟨Or.inr (Or.inr (Or.inr ?_)), i, hi, h3 i hi⟩)))
          simp [hok, realGet]
        · refine Or.inr (Or.inr (Or.inl ?_))
          simp [hok, realGet]
      · simpa [PSys.step, h1, realGet] using others _ u hu
  · -- parse
    refine { parsed := ?_, cache := ?_, ths := ?_ }
    · simpa [PSys.step, h, realGet] using parsedApp
    · have : validId (s.heap ++ [true]) s.cache := by intro i hi; have := hc i hi; simp; omega
      simpa [PSys.step, h, realGet] using this
    · intro u
      by_cases hu : u = t
      · subst hu
        simp only [PSys.step, h, realGet, List.drop, setTh_same]
        exact ⟨hex, Or.inr (Or.inr (Or.inr (Or.inl ⟨Or.inl rfl, s.heap.length, rfl, by simp⟩)))⟩
      · have := ThOK_mono true (others { (s.ths t) with code := [.chk, .store, .join, .ret], tmpl := some s.heap.length } u hu)
        simpa [PSys.step, h, realGet] using this
  · -- chk / store / join / ret
    rcases h1 with h1 | h1 | h1 | h1
    · refine { parsed := ?_, cache := ?_, ths := ?_ }
      · simpa [PSys.step, h1, realGet] using hp
      · simpa [PSys.step, h1, realGet] using hc
      · intro u
        by_cases hu : u = t
        · subst hu
          simp only [PSys.step, h1, realGet, List.drop, setTh_same]
          exact ⟨hex, Or.inr (Or.inr (Or.inr (Or.inl ⟨Or.inr (Or.inl rfl), i, hi, hl⟩)))⟩
        · simpa [PSys.step, h1, realGet] using others _ u hu
    · refine { parsed := ?_, cache := ?_, ths := ?_ }
      · simpa [PSys.step, h1, realGet] using hp
      · have : validId s.heap (s.ths t).tmpl := by intro j hj; rw [hi] at hj; cases hj; exact hl
        simpa [PSys.step, h1, realGet] using this
      · intro u
        by_cases hu : u = t
        · subst hu
          simp only [PSys.step, h1, realGet, List.drop, setTh_same]
          exact ⟨hex, Or.inr (Or.inr (Or.inr (Or.inl ⟨Or.inr (Or.inr (Or.inl rfl)), i, hi, hl⟩)))⟩
        · simpa [PSys.step, h1, realGet] using others _ u hu
    · refine { parsed := ?_, cache := ?_, ths := ?_ }
      · simpa [PSys.step, h1, realGet] using hp
      · simpa [PSys.step, h1, realGet] using hc
      · intro u
        by_cases hu : u = t
        · subst hu
          simp only [PSys.step, h1, realGet, List.drop, setTh_same]
          exact ⟨hex, Or.inr (Or.inr (Or.inr (Or.inl ⟨Or.inr (Or.inr (Or.inr rfl)), i, hi, hl⟩)))⟩
        · simpa [PSys.step, h1, realGet] using others _ u hu
    · refine { parsed := ?_, cache := ?_, ths := ?_ }
      · simpa [PSys.step, h1, realGet] using hp
      · simpa [PSys.step, h1, realGet] using hc
      · intro u
        by_cases hu : u = t
        · subst hu
          simp only [PSys.step, h1, realGet, List.drop, setTh_same, hi]
          exact ⟨by have := hp i hl; simpa [List.getD] using this, Or.inr (Or.inr (Or.inr (Or.inr rfl)))⟩
        · simpa [PSys.step, h1, realGet] using others _ u hu
  · -- finished
    have : s.step t = s := by simp [PSys.step, h]
    rw [this]; exact ⟨hp, hc, hth⟩

theorem run_inv (s : PSys) (sched : List Nat) (h : PInv s) : PInv (s.run sched) := by
  induction sched generalizing s with
  | nil => exact h
  | cons t r ih => exact ih (s.step t) (step_inv s t h)

end Pandora.Proofs.C15
