import Pandora.Model.C12Left

/-
C12, round 4: the arithmetic of `leftAfter` (`NewComposite`) and of `(*compositeSchedule).Left`.
-/
namespace Pandora.Proofs.C12Left
open Pandora.Go.C12Left Pandora.Model.C12Left

theorem seqLeft_cons (c : Int) (rest : List Int) :
    seqLeft (c :: rest) = if c < 0 ∨ seqLeft rest < 0 then -1 else c + seqLeft rest := rfl

/-- unknown is −1, nothing else is negative -/
theorem seqLeft_range (cs : List Int) : seqLeft cs = -1 ∨ 0 ≤ seqLeft cs := by
  induction cs with
  | nil => right; simp [seqLeft]
  | cons c rest ih =>
    rw [seqLeft_cons]
    split
    · left; rfl
    · right; omega

/-- unknown exactly when some part is unknown -/
theorem seqLeft_neg_iff (cs : List Int) : seqLeft cs < 0 ↔ ∃ c ∈ cs, c < 0 := by
  induction cs with
  | nil => simp [seqLeft]
  | cons c rest ih =>
    rw [seqLeft_cons]
    constructor
    · intro h
      split at h
      · rename_i hc
        rcases hc with hc | hc
        · exact ⟨c, by simp, hc⟩
        · obtain ⟨d, hd, hd'⟩ := ih.mp hc
          exact ⟨d, by simp [hd], hd'⟩
      · omega
    · rintro ⟨d, hd, hd'⟩
      have : c < 0 ∨ seqLeft rest < 0 := by
        rcases List.mem_cons.mp hd with rfl | hm
        · left; exact hd'
        · right; exact ih.mpr ⟨d, hm, hd'⟩
      rw [if_pos this]; omega

/-- "exactly nothing left" only when every part has exactly nothing -/
theorem seqLeft_eq_zero (cs : List Int) (h : seqLeft cs = 0) : ∀ c ∈ cs, c = 0 := by
  induction cs with
  | nil => simp
  | cons c rest ih =>
    rw [seqLeft_cons] at h
    split at h
    · omega
    · rename_i hn
      have hr := seqLeft_range rest
      have h0 : seqLeft rest = 0 := by omega
      intro d hd
      rcases List.mem_cons.mp hd with rfl | hm
      · omega
      · exact ih h0 d hm

/-- known parts: the sum -/
theorem seqLeft_known (cs : List Int) (h : ∀ c ∈ cs, 0 ≤ c) : seqLeft cs = cs.foldr (· + ·) 0 := by
  induction cs with
  | nil => rfl
  | cons c rest ih =>
    have hr : ∀ d ∈ rest, 0 ≤ d := fun d hd => h d (by simp [hd])
    have hc : 0 ≤ c := h c (by simp)
    have hn : ¬ seqLeft rest < 0 := by
      intro hlt
      obtain ⟨d, hd, hd'⟩ := (seqLeft_neg_iff rest).mp hlt
      have := hr d hd; omega
    rw [seqLeft_cons, if_neg (by omega), ih hr]; rfl

/-- the loop keeps: accumulator = meaning of the parts visited so far, flag = "that is unknown" -/
theorem loopFrom_acc (cs : List Int) :
    (loopFrom cs).2.1 = seqLeft cs ∧ (loopFrom cs).2.2 = decide (seqLeft cs < 0) := by
  induction cs with
  | nil => simp [loopFrom, loopWith, seqLeft]
  | cons c rest ih =>
    obtain ⟨ha, hu⟩ := ih
    simp only [loopFrom] at ha hu ⊢
    simp only [loopWith, stepLeft, ha, hu, seqLeft_cons]
    have hr := seqLeft_range rest
    constructor
    · by_cases hc : c < 0
      · simp [hc]
      · by_cases hs : seqLeft rest < 0
        · simp [hc, hs]; omega
        · simp [hc, hs]; omega
    · by_cases hc : c < 0
      · simp [hc]
      · by_cases hs : seqLeft rest < 0
        · simp [hc, hs]
        · simp [hc, hs]; omega

/-- `leftAfter` of a part IS the meaning of the parts behind it -/
theorem leftAfterOf_cons (c : Int) (rest : List Int) :
    leftAfterOf (c :: rest) = seqLeft rest :: leftAfterOf rest := by
  simp only [leftAfterOf, loopFrom, loopWith, stepLeft]
  have := (loopFrom_acc rest).1
  simp only [loopFrom] at this
  rw [this]

theorem leftAfterOf_length (cs : List Int) : (leftAfterOf cs).length = cs.length := by
  induction cs with
  | nil => rfl
  | cons c rest ih => rw [leftAfterOf_cons]; simp [ih]

theorem leftAfterOf_get (cs : List Int) (i : Nat) (h : i < cs.length) :
    (leftAfterOf cs)[i]? = some (seqLeft (cs.drop (i + 1))) := by
  induction cs generalizing i with
  | nil => simp at h
  | cons c rest ih =>
    rw [leftAfterOf_cons]
    cases i with
    | zero => simp
    | succ j =>
      have hj : j < rest.length := by simpa using h
      simpa using ih j hj

/-- the answer 0 needs the current part at 0 and (no part behind, or `leftAfter` = 0) -/
theorem leftDecide_zero {n la l : Int} {st : Bool} (h : leftDecide n la l st = .ret 0) :
    l = 0 ∧ (n = 1 ∨ la = 0) := by
  unfold leftDecide at h
  split at h
  · injection h with h; exact ⟨h, Or.inl ‹_›⟩
  · split at h
    · split at h
      · injection h with h; exact ⟨‹_›, Or.inr h⟩
      · split at h <;> simp at h
    · split at h
      · simp at h
      · injection h with h; omega

/-- never 0 while a part behind is unknown -/
theorem leftDecide_unknown {n la l : Int} {st : Bool} (hn : n ≠ 1) (hla : la < 0) :
    leftDecide n la l st ≠ .ret 0 := by
  intro h
  have := leftDecide_zero h
  omega

/-- all known, current part not drained: the exact figure -/
theorem leftDecide_known {n la l : Int} {st : Bool} (hn : n ≠ 1) (hl : 0 < l) (hla : 0 ≤ la) :
    leftDecide n la l st = .ret (l + la) := by
  unfold leftDecide
  rw [if_neg hn, if_neg (by omega), if_neg (by omega)]

/-- it shifts only from a drained part, behind which something is unknown, and only once started -/
theorem leftDecide_shift {n la l : Int} {st : Bool} (h : leftDecide n la l st = .shift) :
    l = 0 ∧ la < 0 ∧ st = true ∧ n ≠ 1 := by
  unfold leftDecide at h
  split at h
  · simp at h
  · rename_i hn
    split at h
    · rename_i hl
      split at h
      · simp at h
      · rename_i hla
        split at h
        · simp at h
        · rename_i hst
          refine ⟨hl, by omega, by simpa using hst, hn⟩
    · split at h <;> simp at h

/-- `Left()` followed through its shifts answers 0 only if every part it passed, and the one it stopped at, answered 0, and
every part behind that one has a known length of no token -/
theorem fullLeft_zero (st : Bool) : ∀ (fuel : Nat) (curs cs : List Int), curs.length = cs.length →
    fullLeftWith leftDecide 1 1 st fuel curs (leftAfterOf cs) = some 0 →
    ∃ k, k < curs.length ∧ (∀ j, j ≤ k → curs[j]? = some 0) ∧ ∀ c ∈ cs.drop (k + 1), c = 0
  | 0, _, _, _, h => by simp [fullLeftWith] at h
  | fuel + 1, [], _, _, h => by simp [fullLeftWith] at h
  | fuel + 1, c :: rest, [], hlen, _ => by simp at hlen
  | fuel + 1, c :: rest, d :: ds, hlen, h => by
    have hl : rest.length = ds.length := by simpa using hlen
    simp only [fullLeftWith, leftAfterOf_cons, List.headD_cons] at h
    split at h
    · -- it answers
      rename_i v hv
      have hv0 : v = 0 := by simpa using h
      subst hv0
      obtain ⟨hc, hrest⟩ := leftDecide_zero hv
      refine ⟨0, by simp, ?_, ?_⟩
      · intro j hj
        have : j = 0 := by omega
        subst this; simp [hc]
      · rcases hrest with hn | hla
        · have : rest.length = 0 := by
            simp only [List.length_cons] at hn; omega
          have hds : ds = [] := List.eq_nil_of_length_eq_zero (by omega)
          simp [hds]
        · simpa using seqLeft_eq_zero ds hla
    · -- it shifts: the current part is drained, go on with the next
      rename_i hs
      obtain ⟨hc, _, _, _⟩ := leftDecide_shift hs
      simp only [List.drop_one, List.tail_cons] at h
      obtain ⟨k, hk, hall, hbehind⟩ := fullLeft_zero st fuel rest ds hl h
      refine ⟨k + 1, by simp; omega, ?_, by simpa using hbehind⟩
      intro j hj
      cases j with
      | zero => simp [hc]
      | succ j' => simpa using hall j' (by omega)

end Pandora.Proofs.C12Left
