/-
C20 — round 4 helper lemmas: the generic scenario provider's loop (`scenRun`) in closed form, the grpc/json provider with
unlimited passes and a limit, `replacePort` on `<anything>:<port>`, the preprocessor's index forms.
-/
import Pandora.Model.C20Feed
import Pandora.Proofs.C20Feed

namespace Pandora.Proofs.C20R4
open Pandora.Model.C20 Pandora.Proofs.C20Feed

/-! ### the scenario provider's loop -/

/-- how many more ammo the loop can deliver when `n` have been delivered and `fuel` more are asked for -/
def scenLeft (len passes limit fuel n : Nat) : Nat :=
  match scenAvail len passes limit with
  | none => fuel
  | some b => min fuel (b - n)

theorem scenStop_iff (len passes limit n : Nat) (hl : 0 < len) :
    ((passes != 0 && decide (n / len ≥ passes)) || (limit != 0 && decide (n ≥ limit))) = true ↔
      (match scenAvail len passes limit with | none => False | some b => n ≥ b) := by
  have hdiv : n / len ≥ passes ↔ n ≥ passes * len := by
    constructor
    · intro h; exact (Nat.le_div_iff_mul_le hl).mp h
    · intro h; exact (Nat.le_div_iff_mul_le hl).mpr h
  unfold scenAvail
  by_cases hp : passes = 0 <;> by_cases hm : limit = 0 <;> simp [hp, hm, hdiv]
  omega

theorem scenRun_spec (len passes limit : Nat) (hl : 0 < len) : ∀ (fuel n : Nat),
    scenRun len passes limit fuel n = (List.range' n (scenLeft len passes limit fuel n)).map (· % len)
  | 0, n => by
    unfold scenLeft
    cases scenAvail len passes limit <;> simp [scenRun]
  | fuel + 1, n => by
    have hiff := scenStop_iff len passes limit n hl
    have ih := scenRun_spec len passes limit hl fuel (n + 1)
    unfold scenRun
    by_cases hp : (passes != 0 && decide (n / len ≥ passes)) = true
    · simp only [hp, if_true]
      have hs := hiff.mp (by simp [hp])
      unfold scenLeft
      cases hb : scenAvail len passes limit with
      | none => simp [hb] at hs
      | some b =>
        simp only [hb] at hs
        have : b - n = 0 := by omega
        simp [this]
    · simp only [hp, Bool.false_eq_true, if_false]
      by_cases hm : (limit != 0 && decide (n ≥ limit)) = true
      · simp only [hm, if_true]
        have hs := hiff.mp (by simp [hm])
        unfold scenLeft
        cases hb : scenAvail len passes limit with
        | none => simp [hb] at hs
        | some b =>
          simp only [hb] at hs
          have : b - n = 0 := by omega
          simp [this]
      · simp only [hm, Bool.false_eq_true, if_false]
        have hns : ¬ (match scenAvail len passes limit with | none => False | some b => n ≥ b) := by
          intro h
          have := hiff.mpr h
          simp [hp, hm] at this
        rw [ih]
        unfold scenLeft at hns ⊢
        cases hb : scenAvail len passes limit with
        | none => simp [List.range'_succ]
        | some b =>
          simp only [hb] at hns
          have : min (fuel + 1) (b - n) = min fuel (b - (n + 1)) + 1 := by omega
          simp [this, List.range'_succ]

/-! ### grpc/json: unlimited passes (`passes: 0` or not written) with a limit -/

/-- with unlimited passes the ammo delivered by `fuel` passes from here on is the ammo of the harmless prefix of those
passes' lines, cut at the limit — for every `fuel` (no pass is ever "the last") -/
theorem runPasses_unlimited_spec (cfg : ProvCfg) (raws : List Raw) (hp : cfg.passes = 0) :
    ∀ (fuel passNum : Nat) (pooled : Entry) (n : Nat),
      (runPasses cfg raws fuel passNum pooled n).1 = takeRem cfg.limit n (items cfg (passesRaws raws fuel))
  | 0, _, _, _ => by simp [runPasses, passesRaws, items, takeRem]
  | fuel + 1, passNum, pooled, n => by
    obtain ⟨h1, h2, h3, h4⟩ := scanPass_spec cfg raws pooled n
    unfold runPasses
    simp only
    rw [passesRaws_succ]
    by_cases hst : (scanPass cfg raws pooled n).2.2 = .none
    · simp only [hst, bne_self_eq_false, Bool.false_eq_true, if_false]
      by_cases hlim : (cfg.limit != 0 && decide ((scanPass cfg raws pooled n).2.1 ≥ cfg.limit)) = true
      · simp only [hlim, if_true]
        have h0 : cfg.limit ≠ 0 ∧ (scanPass cfg raws pooled n).2.1 ≥ cfg.limit := by simpa using hlim
        obtain ⟨t, ht⟩ := items_prefix cfg raws (passesRaws raws fuel)
        rw [ht, h1]
        rw [h2, h1] at h0
        exact (takeRem_prefix cfg.limit n _ t h0.1 h0.2).symm
      · simp only [hlim, Bool.false_eq_true, if_false]
        have hall : raws.all (rawOk cfg) = true := by
          rcases h3 hst with h | h
          · exact absurd (by simpa using h) (by simpa using hlim)
          · exact h
        have hlast : (cfg.passes != 0 && decide (passNum + 1 ≥ cfg.passes)) = false := by simp [hp]
        simp only [hlast, Bool.false_eq_true, if_false]
        rw [items_append_all cfg raws _ hall]
        have hfull : (scanPass cfg raws pooled n).1 = items cfg raws := by
          rw [h1]
          by_cases hz : cfg.limit = 0
          · simp [takeRem, hz]
          · have hlt : ¬ ((scanPass cfg raws pooled n).2.1 ≥ cfg.limit) := by simpa [hz] using hlim
            rw [h2, h1] at hlt
            simp only [takeRem, hz, beq_iff_eq, if_false, List.length_take] at hlt ⊢
            apply List.take_of_length_le
            omega
        by_cases hzero : ((scanPass cfg raws pooled n).2.1 == 0) = true
        · simp only [hzero, if_true]
          have hn : (scanPass cfg raws pooled n).2.1 = 0 := by simpa using hzero
          rw [h2] at hn
          have hnil : items cfg raws = [] := by
            rw [← hfull]; exact List.eq_nil_of_length_eq_zero (by omega)
          have hrest : ∀ k, items cfg (passesRaws raws k) = [] := by
            intro k
            induction k with
            | zero => simp [passesRaws, items]
            | succ k ih => rw [passesRaws_succ, items_append_all cfg raws _ hall, hnil, ih]; rfl
          rw [hfull, hnil, hrest]
          simp [takeRem]
        · simp only [hzero, Bool.false_eq_true, if_false]
          have ih := runPasses_unlimited_spec cfg raws hp fuel (passNum + 1)
            ((scanPass cfg raws pooled n).1.getLast?.getD pooled) (scanPass cfg raws pooled n).2.1
          rw [ih, hfull, h2, hfull]
          by_cases hz : cfg.limit = 0
          · simp [takeRem, hz]
          · simp only [takeRem, hz, beq_iff_eq, if_false]
            rw [List.take_append]
            have hlt : ¬ ((scanPass cfg raws pooled n).2.1 ≥ cfg.limit) := by simpa [hz] using hlim
            rw [h2, hfull] at hlt
            have : (items cfg raws).take (cfg.limit - n) = items cfg raws := List.take_of_length_le (by omega)
            rw [this]
            congr 2
            omega
    · have hst' : ((scanPass cfg raws pooled n).2.2 != Stop.none) = true := by simpa using hst
      simp only [hst', if_true]
      rw [items_append_not_all cfg raws _ (h4 hst), h1]

theorem passesItems_add (cfg : ProvCfg) (raws : List Raw) (a b : Nat) :
    passesItems cfg raws (a + b) = passesItems cfg raws a ++ passesItems cfg raws b := by
  induction a with
  | zero => simp [passesItems]
  | succ a ih =>
    have : a + 1 + b = (a + b) + 1 := by omega
    simp only [passesItems] at ih ⊢
    rw [this, List.replicate_succ, List.replicate_succ, List.flatten_cons, List.flatten_cons, ih, List.append_assoc]

theorem passesItems_length (cfg : ProvCfg) (raws : List Raw) (k : Nat) :
    (passesItems cfg raws k).length = k * (raws.filterMap (itemOf cfg)).length := by
  induction k with
  | zero => simp [passesItems]
  | succ k ih =>
    rw [passesItems_add, List.length_append, ih]
    simp [passesItems, Nat.succ_mul]

/-- cutting `k ≥ limit` passes of a file that delivers something at `limit` gives the same as cutting `limit` passes -/
theorem passesItems_take (cfg : ProvCfg) (raws : List Raw) (limit k : Nat) (hk : limit ≤ k)
    (hne : raws.filterMap (itemOf cfg) ≠ []) :
    (passesItems cfg raws k).take limit = (passesItems cfg raws limit).take limit := by
  obtain ⟨d, rfl⟩ : ∃ d, k = limit + d := ⟨k - limit, by omega⟩
  rw [passesItems_add]
  have hpos : 0 < (raws.filterMap (itemOf cfg)).length := by
    cases h : raws.filterMap (itemOf cfg) with
    | nil => exact absurd h hne
    | cons _ _ => simp
  have hlen : limit ≤ (passesItems cfg raws limit).length := by
    rw [passesItems_length]
    exact Nat.le_mul_of_pos_right limit hpos
  rw [List.take_append_of_le_length hlen]

theorem items_passesRaws_all (cfg : ProvCfg) (raws : List Raw) (hok : raws.all (rawOk cfg) = true) (k : Nat) :
    items cfg (passesRaws raws k) = passesItems cfg raws k := by
  induction k with
  | zero => simp [passesRaws, items, passesItems]
  | succ k ih =>
    rw [passesRaws_succ, items_append_all cfg raws _ hok, ih]
    have : k + 1 = 1 + k := by omega
    rw [this, passesItems_add]
    simp [passesItems, items, takeWhile_all _ _ hok]

/-! ### scenario weights: the Go code's `GCD` / `GCDM` compute the gcd of all the weights -/

theorem goGcdLoop_eq : ∀ (fuel a b : Nat), a + b ≤ fuel → goGcdLoop fuel a b = Nat.gcd a b
  | 0, a, b, h => by
    have ha : a = 0 := by omega
    have hb : b = 0 := by omega
    subst ha hb
    simp [goGcdLoop]
  | fuel + 1, a, b, h => by
    unfold goGcdLoop
    by_cases ha : a = 0
    · subst ha; simp
    · by_cases hb : b = 0
      · subst hb
        have : a > 0 := Nat.pos_of_ne_zero ha
        simp [this]
      · have ha' : a > 0 := Nat.pos_of_ne_zero ha
        have hb' : b > 0 := Nat.pos_of_ne_zero hb
        simp only [ha', hb', decide_true, Bool.and_self, if_true]
        by_cases hab : a ≥ b
        · simp only [hab, if_true]
          have hlt : a % b < b := Nat.mod_lt _ hb'
          rw [goGcdLoop_eq fuel (a % b) b (by omega), Nat.gcd_comm a b, Nat.gcd_rec b a]
        · simp only [hab, if_false]
          have hlt : b % a < a := Nat.mod_lt _ ha'
          rw [goGcdLoop_eq fuel a (b % a) (by omega), Nat.gcd_rec a b, Nat.gcd_comm]

theorem goGcd_eq (a b : Nat) : goGcd a b = Nat.gcd a b := goGcdLoop_eq _ a b (Nat.le_refl _)

theorem gcd_fold_step (x y A : Nat) (hA : A ∣ x) : Nat.gcd A (Nat.gcd x y) = Nat.gcd y A := by
  apply Nat.dvd_antisymm
  · apply Nat.dvd_gcd
    · exact Nat.dvd_trans (Nat.gcd_dvd_right _ _) (Nat.gcd_dvd_right _ _)
    · exact Nat.gcd_dvd_left _ _
  · apply Nat.dvd_gcd
    · exact Nat.gcd_dvd_right _ _
    · apply Nat.dvd_gcd
      · exact Nat.dvd_trans (Nat.gcd_dvd_right _ _) hA
      · exact Nat.gcd_dvd_left _ _

theorem goGcdmRev_eq : ∀ (l : List Nat), 2 ≤ l.length → goGcdmRev l = l.foldr Nat.gcd 0
  | [], h => by simp at h
  | [_], h => by simp at h
  | [y, x], _ => by simp [goGcdmRev, goGcd_eq, Nat.gcd_comm]
  | y :: x :: z :: r, _ => by
    have ih := goGcdmRev_eq (x :: z :: r) (by simp)
    have hstep : goGcdmRev (y :: x :: z :: r) = goGcd (goGcdmRev (x :: z :: r)) (goGcd x y) := rfl
    rw [hstep, goGcd_eq, goGcd_eq, ih]
    simp only [List.foldr_cons]
    exact gcd_fold_step x y _ (Nat.gcd_dvd_left _ _)

theorem goGcdm_eq (ws : List Nat) (h : 2 ≤ ws.length) : goGcdm ws = ws.foldl Nat.gcd 0 := by
  unfold goGcdm
  rw [goGcdmRev_eq ws.reverse (by simpa using h), List.foldr_reverse]
  congr 1
  funext a b
  exact Nat.gcd_comm b a

/-! ### `replacePort` on `<anything>:<port>` -/

theorem splitColon_acc (acc s : List Char) :
    splitColon acc s = (match splitColon [] s with | [] => [] | x :: r => (acc.reverse ++ x) :: r) := by
  induction s generalizing acc with
  | nil => simp [splitColon]
  | cons c rest ih =>
    by_cases hc : c = ':'
    · simp [splitColon, hc]
    · simp only [splitColon, hc, if_false]
      rw [ih (c :: acc), ih [c]]
      cases splitColon [] rest <;> simp

theorem splitColon_ne_nil (acc s : List Char) : splitColon acc s ≠ [] := by
  induction s generalizing acc with
  | nil => simp [splitColon]
  | cons c rest ih =>
    by_cases hc : c = ':'
    · simp [splitColon, hc]
    · simp only [splitColon, hc, if_false]; exact ih _

/-- a text without `:` is one part -/
theorem splitColon_noColon (q : List Char) (hq : ∀ c ∈ q, c ≠ ':') : splitColon [] q = [q] := by
  induction q with
  | nil => simp [splitColon]
  | cons c rest ih =>
    have hc : c ≠ ':' := hq c (by simp)
    have := ih (fun d hd => hq d (by simp [hd]))
    simp only [splitColon, hc, if_false]
    rw [splitColon_acc, this]
    simp

/-- splitting `pre ++ ":" ++ q` (no `:` in `q`): the parts of `pre`, then `q` -/
theorem splitColon_append (pre q : List Char) (hq : ∀ c ∈ q, c ≠ ':') :
    splitColon [] (pre ++ ':' :: q) = splitColon [] pre ++ [q] := by
  induction pre with
  | nil => simp [splitColon, splitColon_noColon q hq]
  | cons c rest ih =>
    by_cases hc : c = ':'
    · simp [splitColon, hc, ih]
    · simp only [List.cons_append, splitColon, hc, if_false]
      rw [splitColon_acc, splitColon_acc [c] rest, ih]
      cases h : splitColon [] rest with
      | nil => exact absurd h (splitColon_ne_nil _ _)
      | cons x r => simp

theorem joinColon_append (l : List (List Char)) (hl : l ≠ []) (x : List Char) :
    joinColon (l ++ [x]) = joinColon l ++ ':' :: x := by
  induction l with
  | nil => exact absurd rfl hl
  | cons a rest ih =>
    cases rest with
    | nil => simp [joinColon]
    | cons b r =>
      have := ih (by simp)
      simp only [List.cons_append] at this ⊢
      simp [joinColon, this]

theorem joinColon_splitColon (s : List Char) : joinColon (splitColon [] s) = s := by
  induction s with
  | nil => simp [splitColon, joinColon]
  | cons c rest ih =>
    by_cases hc : c = ':'
    · subst hc
      simp only [splitColon, if_true]
      cases h : splitColon [] rest with
      | nil => exact absurd h (splitColon_ne_nil _ _)
      | cons x r =>
        rw [h] at ih
        simp [joinColon, ih]
    · simp only [splitColon, hc, if_false]
      rw [splitColon_acc]
      cases h : splitColon [] rest with
      | nil => exact absurd h (splitColon_ne_nil _ _)
      | cons x r =>
        rw [h] at ih
        cases r with
        | nil => simp [joinColon] at ih ⊢; exact ih
        | cons y r' => simp [joinColon] at ih ⊢; exact ih

end Pandora.Proofs.C20R4
