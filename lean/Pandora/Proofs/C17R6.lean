/-
C17, round 6 — lemmas for
* variable names are case-sensitive (`lookupEnv` is an exact association: a variable whose name differs from the
  referenced one in letter case only does not count),
* a lone placeholder at a position whose kind is no scalar (interface{}, pointer — also a pointer to a scalar —,
  plugin position, struct, slice, map): always an error, never a silently different value,
* a placeholder inside a plugin block reaches the config the instance is built from.
-/
import Pandora.Proofs.C17
import Pandora.Proofs.C17Cast
import Pandora.Proofs.C17Path

namespace Pandora.Proofs.C17
open Pandora.Model.C17

/-! ## the environment is an exact association -/

theorem assoc_none_iff {α} (l : List (Str × α)) (k : Str) : assoc l k = none ↔ ∀ e ∈ l, e.1 ≠ k := by
  induction l with
  | nil => simp [assoc]
  | cons x xs ih =>
    obtain ⟨k', v⟩ := x
    by_cases h : k' = k
    · subst h
      simp [assoc]
    · have hb : (k' == k) = false := by simpa using h
      simp only [assoc, hb, Bool.false_eq_true, if_false, ih, List.mem_cons, forall_eq_or_imp]
      exact ⟨fun hx => ⟨h, hx⟩, fun hx => hx.2⟩

theorem assoc_some_iff {α} (l : List (Str × α)) (k : Str) (v : α) :
    assoc l k = some v ↔ ∃ pre post, l = pre ++ (k, v) :: post ∧ ∀ e ∈ pre, e.1 ≠ k := by
  induction l with
  | nil => simp [assoc]
  | cons x xs ih =>
    obtain ⟨k', w⟩ := x
    by_cases h : k' = k
    · subst h
      simp only [assoc, beq_self_eq_true, if_true, Option.some.injEq]
      constructor
      · intro hw; subst hw
        exact ⟨[], xs, rfl, by simp⟩
      · rintro ⟨pre, post, heq, hpre⟩
        cases pre with
        | nil =>
          simp only [List.nil_append, List.cons.injEq, Prod.mk.injEq] at heq
          exact heq.1.2
        | cons p ps =>
          simp only [List.cons_append, List.cons.injEq] at heq
          exact absurd (by rw [← heq.1]) (hpre p (by simp))
    · have hb : (k' == k) = false := by simpa using h
      simp only [assoc, hb, Bool.false_eq_true, if_false, ih]
      constructor
      · rintro ⟨pre, post, heq, hpre⟩
        refine ⟨(k', w) :: pre, post, by simp [heq], ?_⟩
        intro e he
        simp only [List.mem_cons] at he
        rcases he with rfl | he
        · exact h
        · exact hpre e he
      · rintro ⟨pre, post, heq, hpre⟩
        cases pre with
        | nil =>
          simp only [List.nil_append, List.cons.injEq, Prod.mk.injEq] at heq
          exact absurd heq.1.1 h
        | cons p ps =>
          simp only [List.cons_append, List.cons.injEq] at heq
          exact ⟨ps, post, heq.2, fun e he => hpre e (by simp [he])⟩

/-! ## a lone placeholder where no scalar is decoded -/

theorem injectOther_lone (env : Env) (ty name raw : Str) (ht : PlainType ty) (hn : PlainName name)
    (hr : resolveTag env (placeholder ty name) ty name = some raw) :
    injectOther env (placeholder ty name) = .error .castkind := by
  simp [injectOther, resolve_placeholder env ty name ht hn, hr]

theorem injectOther_ok_of_text (env : Env) (s t : Str) (h : resolve env s = .text t false) :
    injectOther env s = .ok t := by
  simp [injectOther, h]

theorem injectOther_plain (env : Env) (s : Str) (h : resolve env s = .plain) : injectOther env s = .ok s := by
  simp [injectOther, h]

end Pandora.Proofs.C17
