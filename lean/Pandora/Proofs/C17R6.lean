/-
C17, round 6 — lemmas for
* variable names are case-sensitive (`lookupEnv` is an exact association: a variable whose name differs from the
  referenced one in letter case only does not count),
* a lone placeholder at a position whose kind is no scalar (interface{}, pointer — also a pointer to a scalar —,
  plugin position, struct, slice, map): always an error, never a silently different value,
* a placeholder inside a plugin block reaches the config the instance is built from.
-/
import Pandora.Proofs.C17
import Pandora.Proofs.C17Cast
import Pandora.Proofs.C17Path
import Pandora.Spec.C17

namespace Pandora.Proofs.C17
open Pandora.Model.C17

/-! ## the environment is an exact association -/

theorem assoc_none_iff {α} (l : List (Str × α)) (k : Str) : assoc l k = none ↔ ∀ e ∈ l, e.1 ≠ k := by
  induction l with
  | nil => simp [assoc]
  | cons x xs ih =>
    obtain ⟨k', v⟩ := x
    by_cases h : k' = k
    · subst h
      simp [assoc]
    · have hb : (k' == k) = false := by simpa using h
      simp only [assoc, hb, Bool.false_eq_true, if_false, ih, List.mem_cons, forall_eq_or_imp]
      exact ⟨fun hx => ⟨h, hx⟩, fun hx => hx.2⟩

theorem assoc_some_iff {α} (l : List (Str × α)) (k : Str) (v : α) :
    assoc l k = some v ↔ ∃ pre post, l = pre ++ (k, v) :: post ∧ ∀ e ∈ pre, e.1 ≠ k := by
  induction l with
  | nil => simp [assoc]
  | cons x xs ih =>
    obtain ⟨k', w⟩ := x
    by_cases h : k' = k
    · subst h
      simp only [assoc, beq_self_eq_true, if_true, Option.some.injEq]
      constructor
      · intro hw; subst hw
        exact ⟨[], xs, rfl, by simp⟩
      · rintro ⟨pre, post, heq, hpre⟩
        cases pre with
        | nil =>
          simp only [List.nil_append, List.cons.injEq, Prod.mk.injEq] at heq
          exact heq.1.2
        | cons p ps =>
          simp only [List.cons_append, List.cons.injEq] at heq
          exact absurd (by rw [← heq.1]) (hpre p (by simp))
    · have hb : (k' == k) = false := by simpa using h
      simp only [assoc, hb, Bool.false_eq_true, if_false, ih]
      constructor
      · rintro ⟨pre, post, heq, hpre⟩
        refine ⟨(k', w) :: pre, post, by simp [heq], ?_⟩
        intro e he
        simp only [List.mem_cons] at he
        rcases he with rfl | he
        · exact h
        · exact hpre e he
      · rintro ⟨pre, post, heq, hpre⟩
        cases pre with
        | nil =>
          simp only [List.nil_append, List.cons.injEq, Prod.mk.injEq] at heq
          exact absurd heq.1.1 h
        | cons p ps =>
          simp only [List.cons_append, List.cons.injEq] at heq
          exact ⟨ps, post, heq.2, fun e he => hpre e (by simp [he])⟩

/-! ## a lone placeholder where no scalar is decoded -/

theorem injectOther_lone (env : Env) (ty name raw : Str) (ht : PlainType ty) (hn : PlainName name)
    (hr : resolveTag env (placeholder ty name) ty name = some raw) :
    injectOther env (placeholder ty name) = .error .castkind := by
  simp [injectOther, resolve_placeholder env ty name ht hn, hr]

theorem injectOther_ok_of_text (env : Env) (s t : Str) (h : resolve env s = .text t false) :
    injectOther env s = .ok t := by
  simp [injectOther, h]

theorem injectOther_plain (env : Env) (s : Str) (h : resolve env s = .plain) : injectOther env s = .ok s := by
  simp [injectOther, h]

/-! ## the decoded value at a path through struct fields, pointers, LIST ELEMENTS and PLUGIN POSITIONS

`FAt` / `value_at` (round 1) follow Go field names through structs and pointers to structs only.  `GAt` adds the steps the
real configuration tree has between the root and an option of a component: the element `#i` of a list (`pools[0]`),
the config a constructed plugin instance was built from (`Gun` of a pool: the instance stands for the config it received)
and the config `#i` the i-th call of a factory hands to its constructor.  The plugin steps need the block to be
accepted (an eagerly built plugin whose block is refused does not exist); below a lazily filled factory the config is
there whatever the block says. -/

open Pandora.Spec.C17 in
inductive GAt (fl : Flags) (env : Env) : List Str → Schema → Val → Schema → Val → Prop
  | here (s : Schema) (c : Val) : GAt fl env [] s c s c
  | field (fs : Fields) (kvs : List (Str × Val)) (f : FInfo) (s : Schema) (key : Str) (c : Val) (p : List Str)
      (s' : Schema) (c' : Val) :
      FieldFirst f s fs → f.settable = true → findKey kvs f.key = some (key, c) →
      GAt fl env p s c s' c' → GAt fl env (f.name :: p) (.struct fs) (.map kvs) s' c'
  | deref (n : Bool) (fs : Fields) (kvs : List (Str × Val)) (nm : Str) (p : List Str) (s' : Schema) (c' : Val) :
      GAt fl env (nm :: p) (.struct fs) (.map kvs) s' c' → GAt fl env (nm :: p) (.ptr n (.struct fs)) (.map kvs) s' c'
  | elem (e : Schema) (d : DVal) (xs : List Val) (ds : Str) (c : Val) (p : List Str) (s' : Schema) (c' : Val) :
      xs[digitsVal ds 0]? = some c → GAt fl env p e c s' c' →
      GAt fl env (('#' :: ds) :: p) (.slice e d) (.list xs) s' c'
  | inst (pi : PInfo) (alts : Alts) (m : List (Str × Val)) (name : Str) (lzy : Bool) (fs : Fields)
      (nm : Str) (p : List Str) (s' : Schema) (c' : Val) :
      pi.factory = false → typeEntries m = [.str name] → pi.names.contains name = true →
      altOf alts name = some (lzy, .struct fs) →
      (lzy = true ∨ settle (decode fl env (.struct fs) (.map (dropType m))) = []) →
      GAt fl env (nm :: p) (.struct fs) (.map (dropType m)) s' c' →
      GAt fl env (nm :: p) (.plugin pi alts) (.map m) s' c'
  | call (pi : PInfo) (alts : Alts) (m : List (Str × Val)) (name : Str) (lzy : Bool) (fs : Fields)
      (ds : Str) (p : List Str) (s' : Schema) (c' : Val) :
      pi.factory = true → typeEntries m = [.str name] → pi.names.contains name = true →
      altOf alts name = some (lzy, .struct fs) →
      (lzy = true ∨ settle (decode fl env (.struct fs) (.map (dropType m))) = []) →
      GAt fl env p (.struct fs) (.map (dropType m)) s' c' →
      GAt fl env (('#' :: ds) :: p) (.plugin pi alts) (.map m) s' c'

theorem plugin_val (fl : Flags) (env : Env) (pi : PInfo) (alts : Alts) (m : List (Str × Val)) (name : Str) (lzy : Bool)
    (s : Schema) (hte : typeEntries m = [.str name]) (hname : pi.names.contains name = true)
    (halt : altOf alts name = some (lzy, s))
    (hacc : lzy = true ∨ settle (decode fl env s (.map (dropType m))) = []) :
    (decode fl env (.plugin pi alts) (.map m)).val =
      if pi.factory then .factory (decode fl env s (.map (dropType m))).val
      else .plugin (decode fl env s (.map (dropType m))).val := by
  rw [decode_plugin_map fl env pi alts m name lzy s hte hname halt _ rfl]
  rcases hacc with rfl | hs
  · simp
  · cases lzy <;> simp [hs]

open Pandora.Spec.C17 in
theorem value_at_g (fl : Flags) (env : Env) {p : List Str} {s : Schema} {cfg : Val} {s' : Schema} {c' : Val}
    (h : GAt fl env p s cfg s' c') : lookup p (decode fl env s cfg).val = some (decode fl env s' c').val := by
  induction h with
  | here s c => rfl
  | field fs kvs f s key c p s' c' hff hset hfind _ ih =>
    have hfr : fieldResult fl env kvs f s = decode fl env s c := by simp [fieldResult, hset, hfind]
    rw [decode_struct_map]
    simp only [lookup, stepPtr, find_first fl env kvs hff, hfr]
    exact ih
  | deref n fs kvs nm p s' c' _ ih =>
    rw [decode_ptr fl env n (.struct fs) (.map kvs) (by intro h; cases h) (by intro _ h; cases h)]
    rw [decode_struct_map] at ih ⊢
    simpa [lookup, stepPtr] using ih
  | elem e d xs ds c p s' c' hget _ ih =>
    rw [decode_slice_list]
    simp only [lookup, stepPtr, List.getElem?_map, hget, Option.map_some]
    exact ih
  | inst pi alts m name lzy fs nm p s' c' hfac hte hname halt hacc _ ih =>
    rw [plugin_val fl env pi alts m name lzy (.struct fs) hte hname halt hacc]
    rw [decode_struct_map] at ih ⊢
    simpa [hfac, lookup, stepPtr] using ih
  | call pi alts m name lzy fs ds p s' c' hfac hte hname halt hacc _ ih =>
    rw [plugin_val fl env pi alts m name lzy (.struct fs) hte hname halt hacc]
    rw [decode_struct_map] at ih ⊢
    simpa [hfac, lookup, stepPtr] using ih

/-- every `FAt` path is a `GAt` path -/
theorem GAt.ofFAt (fl : Flags) (env : Env) {p : List Str} {s : Schema} {cfg : Val} {s' : Schema} {c' : Val}
    (h : FAt p s cfg s' c') : GAt fl env p s cfg s' c' := by
  induction h with
  | here s c => exact .here s c
  | field fs kvs f s key c p s' c' hff hset hfind _ ih => exact .field fs kvs f s key c p s' c' hff hset hfind ih
  | deref n fs kvs nm p s' c' _ ih => exact .deref n fs kvs nm p s' c' ih

end Pandora.Proofs.C17
