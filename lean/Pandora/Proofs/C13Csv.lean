/-
C13, round 4 — lemmas about the rows of a csv variable source (Model/C13Csv.lean).
-/
import Pandora.Model.C13Csv
import Pandora.Proofs.C13Cfg

namespace Pandora.Proofs.C13
open Pandora.Model.C13

/-- with the test in front of `record[i]` every record gives a row, one assignment per configured column -/
theorem csvRowFrom_guarded (record : List Bytes) (fields : List Bytes) (i : Nat) :
    ∃ row, csvRowFrom true record fields i = .ok row ∧ row.length = fields.length := by
  induction fields generalizing i with
  | nil => exact ⟨[], by simp [csvRowFrom]⟩
  | cons f fs ih =>
    obtain ⟨rest, hrest, hlen⟩ := ih (i + 1)
    by_cases h : i ≥ record.length
    · refine ⟨(if f = [] then itoaBytes i else f, []) :: rest, ?_, by simp [hlen]⟩
      simp [csvRowFrom, h, hrest, Res.bind]
    · have hlt : i < record.length := by omega
      refine ⟨(if f = [] then itoaBytes i else f, record[i]) :: rest, ?_, by simp [hlen]⟩
      have hidx : indexC record (i : Int) = .ok record[i] := by
        simp [indexC, List.getElem?_eq_getElem hlt]
      simp [csvRowFrom, h, hidx, hrest, Res.bind]

/-- number of rows: one per record, but for an ignored first one -/
def csvRowCount (n : Nat) (ign : Bool) : Nat := if ign then n - 1 else n

theorem csvRows_guarded (records : List (List Bytes)) (fields : List Bytes) (ign : Bool) :
    ∃ rows, csvRows true records fields ign = .ok rows ∧ rows.length = csvRowCount records.length ign := by
  induction records generalizing fields ign with
  | nil => exact ⟨[], by simp [csvRows], by cases ign <;> simp [csvRowCount]⟩
  | cons r more ih =>
    cases ign with
    | true =>
      obtain ⟨rows, h, hl⟩ := ih (csvCols fields r) false
      exact ⟨rows, by simp [csvRows, h], by simp [csvRowCount] at hl ⊢; exact hl⟩
    | false =>
      obtain ⟨rows, h, hl⟩ := ih (csvCols fields r) false
      obtain ⟨row, hr, _⟩ := csvRowFrom_guarded r (csvCols fields r) 0
      refine ⟨row :: rows, ?_, ?_⟩
      · simp [csvRows, h, hr, Res.bind]
      · simp [csvRowCount] at hl ⊢; exact hl

/-- every row names every configured column (when columns are configured) -/
theorem csvRows_row_length (records : List (List Bytes)) (fields : List Bytes) (ign : Bool) (hf : fields.length ≠ 0)
    (rows : List (List (Bytes × Bytes))) (h : csvRows true records fields ign = .ok rows) :
    ∀ row ∈ rows, row.length = fields.length := by
  induction records generalizing ign rows with
  | nil => simp [csvRows] at h; subst h; simp
  | cons r more ih =>
    cases ign with
    | true =>
      have hc : csvCols fields r = fields := by simp [csvCols, hf]
      simp only [csvRows, hc] at h
      exact ih false rows (by simpa using h)
    | false =>
      obtain ⟨row, hr, hrl⟩ := csvRowFrom_guarded r fields 0
      obtain ⟨rest, hrest, _⟩ := csvRows_guarded more fields false
      have hc : csvCols fields r = fields := by simp [csvCols, hf]
      simp [csvRows, hc, hr, hrest, Res.bind] at h
      subst h
      intro x hx
      rcases List.mem_cons.mp hx with rfl | hx
      · exact hrl
      · exact ih false rest hrest x hx

/-- the records read before do not depend on what follows them: the rows of `good ++ more` begin with the rows of `good` -/
theorem csvRows_append (good more : List (List Bytes)) (fields : List Bytes) (ign : Bool) :
    ∃ rows tail, csvRows true good fields ign = .ok rows ∧ csvRows true (good ++ more) fields ign = .ok (rows ++ tail) := by
  induction good generalizing fields ign with
  | nil =>
    obtain ⟨t, ht, _⟩ := csvRows_guarded more fields ign
    exact ⟨[], t, by simp [csvRows], by simpa using ht⟩
  | cons r g ih =>
    obtain ⟨rows, tail, h1, h2⟩ := ih (csvCols fields r) false
    cases ign with
    | true => exact ⟨rows, tail, by simp [csvRows, h1], by simp [csvRows, h2]⟩
    | false =>
      obtain ⟨row, hr, _⟩ := csvRowFrom_guarded r (csvCols fields r) 0
      exact ⟨row :: rows, tail, by simp [csvRows, h1, hr, Res.bind], by simp [csvRows, h2, hr, Res.bind]⟩

/-- a record shorter than the configured columns makes the unguarded loop panic -/
theorem csvRowFrom_unguarded_short (record fields : List Bytes) (i : Nat) (hf : fields ≠ []) (h : record.length ≤ i) :
    (csvRowFrom false record fields i).isPanic = true := by
  cases fields with
  | nil => exact absurd rfl hf
  | cons f fs =>
    have hidx : indexC record (i : Int) = .panic "index out of range" := by
      have : record[i]? = none := List.getElem?_eq_none (by omega)
      simp [indexC, this]
    simp [csvRowFrom, hidx, Res.bind, Res.isPanic]

end Pandora.Proofs.C13
