/-
C03, round 6 — COMPOSITION with the schedule leaf of C01/C02's regenerated area `schedule`.

`Model.C03` abstracts a finite profile to a token counter (`shared`, `own[i]`).  Here the pool is run against the
REGENERATED `doAtSchedule` (`Pandora.Gen.Schedule`: `NewDoAtSchedule`, `doAtSchedule_Next`, `doAtSchedule_Left`, re-translated
from core/schedule/do_at.go + start_sync.go on every check — the leaf behind `once`, `const`, `line` and every step of
`step`): the answers of `IsFinished` (`Left()`) and of `Wait` (`Next()`) are COMPUTED by the regenerated functions on the leaf
object the instance draws from — the one shared object, or the object the factory made for that instance at its start.

* `lstep` — the product system: an event of an instance that consults its profile is accepted iff the regenerated leaf
  gives that answer AND the pool model accepts the event;
* `agree_step` / `lrun_agree` — in every reachable state the pool's token counters ARE the tokens left in the leaves
  (`shared = tokensLeft sh`, `own = own leaves .map tokensLeft`), all leaves have consistent start flags;
* `next_never_blocks` / `left_never_blocks` — the pool model never refuses what the leaf answers: an instance at `Wait` can
  always go on with exactly the event the regenerated `Next()` dictates, an instance at `IsFinished` with the value the
  regenerated `Left()` returns (so the product is not an artificial restriction of either side);
* `lrun_is_run` — every run of the product is a run of `Model.C03` with `tokens = n` (the leaf's `n`, clamped at 0).

The property theorems over this composed system are in `Props/C03.lean` (`C03_leaf_*`).
-/
import Pandora.Proofs.C03Reach
import Pandora.Bridge.C03DoAt

namespace Pandora.Proofs.C03Leaf
open Pandora.Model.C03 Pandora.Proofs.C03 Pandora.Gen.Schedule Pandora.Bridge.C03DoAt

/-- a pool together with the regenerated leaf objects its instances draw from -/
structure LSt where
  pool : St
  sh : DoAtSt          -- the one shared profile object (`buildNewInstanceSchedule` without rps-per-instance)
  own : List DoAtSt    -- rps-per-instance: the object the factory made for instance `i` at its start

/-- the parameters of the profile (`NewDoAtSchedule duration n doAt`) -/
structure Leaf where
  duration : Int
  n : Int
  doAt : Int → Int

def Leaf.fresh (p : Leaf) : DoAtSt := NewDoAtSchedule p.duration p.n p.doAt
/-- placeholder for an instance that does not exist yet (no tokens) -/
def Leaf.none (p : Leaf) : DoAtSt := NewDoAtSchedule p.duration 0 p.doAt

def linit (c : Cfg) (p : Leaf) : LSt :=
  { pool := init c, sh := p.fresh, own := List.replicate c.instances p.none }

/-- the leaf instance `i` draws from -/
def LSt.prof (c : Cfg) (l : LSt) (i : Nat) : Option DoAtSt := if c.perInstance then l.own[i]? else some l.sh

def LSt.setProf (c : Cfg) (l : LSt) (i : Nat) (d : DoAtSt) : LSt :=
  if c.perInstance then { l with own := l.own.set i d } else { l with sh := d }

/-- one step of the product: `now` is what `time.Now()` returns should the leaf be started by this call -/
def lstep (c : Cfg) (p : Leaf) (l : LSt) (now : Int) (e : Ev) : Option LSt :=
  match e with
  | .start i =>
    -- `newInstance` calls the schedule factory: a fresh leaf object for this instance
    (step c l.pool e).map fun q => { l with pool := q, own := l.own.set i p.fresh }
  | .chk i left =>
    match l.prof c i with
    | none => none
    | some d =>
      match doAtSchedule_Left d with
      | .ok (v, d') => if v = (left : Int) then (step c l.pool e).map fun q => { (l.setProf c i d') with pool := q } else none
      | .error _ => none
  | .tokOk i =>
    match l.prof c i with
    | none => none
    | some d =>
      match doAtSchedule_Next now d with
      | .ok ((_, true), d') => (step c l.pool e).map fun q => { (l.setProf c i d') with pool := q }
      | _ => none
  | .tokEnd i =>
    match l.prof c i with
    | none => none
    | some d =>
      match doAtSchedule_Next now d with
      | .ok ((_, false), d') => (step c l.pool e).map fun q => { (l.setProf c i d') with pool := q }
      | _ => none
  | _ => (step c l.pool e).map fun q => { l with pool := q }

def lrun (c : Cfg) (p : Leaf) : LSt → List (Int × Ev) → Option LSt
  | l, [] => some l
  | l, (now, e) :: es => match lstep c p l now e with
    | some l' => lrun c p l' es
    | none => none

/-- the pool's token counters are the tokens left in the regenerated leaves -/
structure Agree (c : Cfg) (l : LSt) : Prop where
  shared : l.pool.shared = tokensLeft l.sh
  shFlags : Flags l.sh
  own : l.pool.own = l.own.map tokensLeft
  ownFlags : ∀ d ∈ l.own, Flags d
  ownLen : l.own.length = c.instances

theorem init_agree (c : Cfg) (p : Leaf) (hn : c.tokens = p.n.toNat) : Agree c (linit c p) := by
  have h1 := new_tokens p.duration p.n p.doAt
  have h0 := new_tokens p.duration 0 p.doAt
  refine ⟨?_, h1.2, ?_, ?_, by simp [linit]⟩
  · simp only [linit, init, Leaf.fresh]; rw [h1.1, hn]
  · simp only [linit, init, Leaf.none, List.map_replicate]; rw [h0.1]; rfl
  · intro d hd
    simp only [linit, Leaf.none] at hd
    rw [List.eq_of_mem_replicate hd]
    exact h0.2

theorem set_same {α : Type} (l : List α) (i : Nat) (d : α) (h : l[i]? = some d) : l.set i d = l := by
  have hi := lt_of_get h
  rw [List.getElem?_eq_getElem hi] at h
  injection h with h
  rw [← h]
  exact List.set_getElem_self hi

theorem mem_set_cases {α : Type} {l : List α} {i : Nat} {a b : α} (h : b ∈ l.set i a) : b = a ∨ b ∈ l := by
  rcases List.mem_or_eq_of_mem_set h with h | h
  · exact Or.inr h
  · exact Or.inl h

/-- what the pool's `step` does to the token counters -/
theorem step_tokens {c : Cfg} {s s' : St} {e : Ev} (h : step c s e = some s') :
    (∀ i, e = .start i → s'.shared = s.shared ∧ s'.own = s.own.set i c.tokens) ∧
    (∀ i, e = .tokOk i → s.pcs[i]? = some .wait ∧ 0 < s.left c i ∧ s'.shared = (s.draw c i).shared ∧ s'.own = (s.draw c i).own) ∧
    (∀ i, e = .tokEnd i → s.pcs[i]? = some .wait ∧ s.left c i = 0) ∧
    (∀ i left, e = .chk i left → s.pcs[i]? = some .check ∧ left = s.left c i) ∧
    ((∀ i, e ≠ .start i) → (∀ i, e ≠ .tokOk i) → s'.shared = s.shared ∧ s'.own = s.own) := by
  cases e <;> simp only [step] at h
  case start i =>
    split at h
    · injection h with h; subst h; simp
    · cases h
  case chk i left =>
    split at h
    · rename_i hg; injection h with h; subst h; simp [hg.1, hg.2]
    · cases h
  case acq i =>
    split at h
    · split at h
      · injection h with h; subst h; simp
      · cases h
      · injection h with h; subst h; simp
    · cases h
  case empty i =>
    split at h
    · injection h with h; subst h; simp
    · cases h
  case tokOk i =>
    split at h
    · rename_i hg; injection h with h; subst h; simp [hg.1, hg.2]
    · cases h
  case tokEnd i =>
    split at h
    · rename_i hg; injection h with h; subst h; simp [hg.1, hg.2]
    · cases h
  case reqAdd i =>
    split at h
    · injection h with h; subst h; simp
    · cases h
  case shoot i k =>
    split at h
    · injection h with h; subst h; simp
    · cases h
  case respAdd i =>
    split at h
    · injection h with h; subst h; simp
    · cases h
  case discard i =>
    split at h
    · injection h with h; subst h; simp
    · cases h
  case rel i k =>
    split at h
    · injection h with h; subst h; simp
    · cases h

/-- `Agree` survives a change of the pool that leaves the token counters alone -/
theorem agree_pool {c : Cfg} {l : LSt} (ha : Agree c l) {q : St} (h1 : q.shared = l.pool.shared) (h2 : q.own = l.pool.own) :
    Agree c { l with pool := q } :=
  ⟨by simp [h1, ha.shared], ha.shFlags, by simp [h2, ha.own], ha.ownFlags, ha.ownLen⟩

/-- the leaf of an instance under `Agree`: its tokens are what the pool model calls `left` -/
theorem prof_left {c : Cfg} {l : LSt} (ha : Agree c l) {i : Nat} {d : DoAtSt} (hp : l.prof c i = some d) :
    l.pool.left c i = tokensLeft d ∧ Flags d := by
  unfold LSt.prof at hp
  unfold St.left
  split at hp
  · rename_i hc
    simp only [hc, if_true]
    refine ⟨?_, ha.ownFlags d (List.mem_of_getElem? hp)⟩
    rw [ha.own, List.getElem?_map, hp]; rfl
  · rename_i hc
    injection hp with hp
    simp only [hc]
    subst hp
    exact ⟨ha.shared, ha.shFlags⟩

/-- replacing the leaf of instance `i` by one with `t` tokens, while the pool's counter for `i` becomes `t` -/
theorem agree_setProf {c : Cfg} {l : LSt} (ha : Agree c l) {i : Nat} {d d' : DoAtSt} (_hp : l.prof c i = some d)
    (hf : Flags d') {q : St}
    (hs : q.shared = if c.perInstance then l.pool.shared else tokensLeft d')
    (ho : q.own = if c.perInstance then l.pool.own.set i (tokensLeft d') else l.pool.own) :
    Agree c { (l.setProf c i d') with pool := q } := by
  unfold LSt.setProf
  cases hc : c.perInstance
  · simp only [hc, Bool.false_eq_true, if_false] at hs ho ⊢
    exact ⟨by simp [hs], hf, by simp [ho, ha.own], ha.ownFlags, ha.ownLen⟩
  · simp only [hc, if_true] at hs ho ⊢
    refine ⟨by simp [hs, ha.shared], ha.shFlags, ?_, ?_, by simp [ha.ownLen]⟩
    · simp only [ho, ha.own, List.map_set]
    · intro x hx
      rcases mem_set_cases hx with h | h
      · rw [h]; exact hf
      · exact ha.ownFlags x h

/-- **one step of the product keeps the counters and the leaves in agreement, and is a step of the pool model** -/
theorem agree_step {c : Cfg} {p : Leaf} (hn : c.tokens = p.n.toNat) {l l' : LSt} {now : Int} {e : Ev}
    (ha : Agree c l) (h : lstep c p l now e = some l') : Agree c l' ∧ step c l.pool e = some l'.pool := by
  cases e
  case start i =>
    simp only [lstep, Option.map_eq_some_iff] at h
    obtain ⟨q, hq, rfl⟩ := h
    refine ⟨?_, hq⟩
    obtain ⟨h1, h2⟩ := (step_tokens hq).1 i rfl
    have hfresh := new_tokens p.duration p.n p.doAt
    refine ⟨by simp [h1, ha.shared], ha.shFlags, ?_, ?_, by simp [ha.ownLen]⟩
    · simp only [h2, ha.own, List.map_set, Leaf.fresh, hfresh.1, hn]
    · intro x hx
      rcases mem_set_cases hx with h | h
      · rw [h]; exact hfresh.2
      · exact ha.ownFlags x h
  case chk i left =>
    simp only [lstep] at h
    split at h
    · cases h
    · rename_i d hp
      rw [left_eq d] at h
      simp only at h
      split at h
      · simp only [Option.map_eq_some_iff] at h
        obtain ⟨q, hq, rfl⟩ := h
        refine ⟨?_, hq⟩
        have hk := (step_tokens hq).2.2.2.2 (by intro j hj; cases hj) (by intro j hj; cases hj)
        obtain ⟨hl, hf⟩ := prof_left ha hp
        apply agree_setProf ha hp hf
        · rw [hk.1]; split
          · rfl
          · rename_i hc
            have : l.prof c i = some l.sh := by simp [LSt.prof, hc]
            rw [this] at hp; injection hp with hp; rw [← hp]; exact ha.shared
        · rw [hk.2]; split
          · rename_i hc
            have hp' : l.own[i]? = some d := by simpa [LSt.prof, hc] using hp
            have : l.pool.own[i]? = some (tokensLeft d) := by rw [ha.own, List.getElem?_map, hp']; rfl
            exact (set_same _ _ _ this).symm
          · rfl
      · cases h
  case tokOk i =>
    simp only [lstep] at h
    split at h
    · cases h
    · rename_i d hp
      obtain ⟨hl, hf⟩ := prof_left ha hp
      obtain ⟨tx, d', hnx, _, _, hf', ht'⟩ := next_draws d hf now
      rw [hnx] at h
      split at h
      · rename_i heq
        injection heq with heq
        simp only [Prod.mk.injEq] at heq
        obtain ⟨⟨_, hok⟩, hd⟩ := heq
        subst hd
        simp only [Option.map_eq_some_iff] at h
        obtain ⟨q, hq, rfl⟩ := h
        refine ⟨?_, hq⟩
        obtain ⟨_, hpos, h1, h2⟩ := (step_tokens hq).2.1 i rfl
        apply agree_setProf ha hp hf'
        · rw [h1]; unfold St.draw; split
          · rfl
          · rename_i hc
            simp only [ht', ← hl]
            simp [St.left, hc]
        · rw [h2]; unfold St.draw; split
          · rename_i hc
            simp only [ht', ← hl]
            simp [St.left, hc]
          · rfl
      · cases h
  case tokEnd i =>
    simp only [lstep] at h
    split at h
    · cases h
    · rename_i d hp
      obtain ⟨hl, hf⟩ := prof_left ha hp
      obtain ⟨tx, d', hnx, _, _, hf', ht'⟩ := next_draws d hf now
      rw [hnx] at h
      split at h
      · rename_i heq
        injection heq with heq
        simp only [Prod.mk.injEq] at heq
        obtain ⟨⟨_, hok⟩, hd⟩ := heq
        subst hd
        simp only [Option.map_eq_some_iff] at h
        obtain ⟨q, hq, rfl⟩ := h
        refine ⟨?_, hq⟩
        obtain ⟨_, hz⟩ := (step_tokens hq).2.2.1 i rfl
        have hk := (step_tokens hq).2.2.2.2 (by intro j hj; cases hj) (by intro j hj; cases hj)
        have ht0 : tokensLeft d' = 0 := by rw [ht', ← hl, hz]
        apply agree_setProf ha hp hf'
        · rw [hk.1]; split
          · rfl
          · rename_i hc
            rw [ht0]
            have : l.pool.left c i = l.pool.shared := by simp [St.left, hc]
            rw [← this, hz]
        · rw [hk.2]; split
          · rename_i hc
            rw [ht0]
            have : l.pool.own[i]? = some 0 := by
              have hp' : l.own[i]? = some d := by simpa [LSt.prof, hc] using hp
              rw [ha.own, List.getElem?_map, hp']
              simp only [Option.map_some]
              rw [← hl, hz]
            exact (set_same _ _ _ this).symm
          · rfl
      · cases h
  all_goals
    simp only [lstep, Option.map_eq_some_iff] at h
    obtain ⟨q, hq, rfl⟩ := h
    refine ⟨?_, hq⟩
    have hk := (step_tokens hq).2.2.2.2 (by intro j hj; cases hj) (by intro j hj; cases hj)
    exact agree_pool ha hk.1 hk.2

/-- every run of the product is a run of the pool model, and ends in agreement -/
theorem lrun_agree {c : Cfg} {p : Leaf} (hn : c.tokens = p.n.toNat) :
    ∀ (es : List (Int × Ev)) (l l' : LSt), Agree c l → lrun c p l es = some l' →
      Agree c l' ∧ run c l.pool (es.map (·.2)) = some l'.pool
  | [], l, l', ha, h => by
    simp only [lrun] at h
    injection h with h
    subst h
    exact ⟨ha, rfl⟩
  | (now, e) :: es, l, l', ha, h => by
    simp only [lrun] at h
    split at h
    · rename_i l1 h1
      obtain ⟨ha1, hs1⟩ := agree_step hn ha h1
      obtain ⟨ha', hr⟩ := lrun_agree hn es l1 l' ha1 h
      refine ⟨ha', ?_⟩
      simp only [List.map_cons, run, hs1]
      exact hr
    · cases h

theorem lrun_is_run {c : Cfg} {p : Leaf} (hn : c.tokens = p.n.toNat) {es : List (Int × Ev)} {l : LSt}
    (h : lrun c p (linit c p) es = some l) : run c (init c) (es.map (·.2)) = some l.pool ∧ Agree c l := by
  obtain ⟨ha, hr⟩ := lrun_agree hn es _ l (init_agree c p hn) h
  exact ⟨hr, ha⟩

/-- an existing instance has a leaf -/
theorem prof_exists {c : Cfg} {l : LSt} (ha : Agree c l) (hlen : l.pool.pcs.length = c.instances) {i : Nat} {pc : Pc}
    (hpc : l.pool.pcs[i]? = some pc) : ∃ d, l.prof c i = some d := by
  unfold LSt.prof
  split
  · have hi : i < l.own.length := by rw [ha.ownLen, ← hlen]; exact lt_of_get hpc
    exact ⟨l.own[i], List.getElem?_eq_getElem hi⟩
  · exact ⟨l.sh, rfl⟩

/-- **`Wait` never blocks on a disagreement**: whenever an instance stands at `Wait`, the regenerated `Next()` of its leaf
answers `ok`, and the product accepts exactly the event that answer dictates (`tokOk` for true, `tokEnd` for false) -/
theorem next_never_blocks {c : Cfg} {p : Leaf} (hn : c.tokens = p.n.toNat) {es : List (Int × Ev)} {l : LSt}
    (h : lrun c p (linit c p) es = some l) (i : Nat) (hw : l.pool.pcs[i]? = some .wait) (now : Int) :
    ∃ d tx ok d' l', l.prof c i = some d ∧ doAtSchedule_Next now d = .ok ((tx, ok), d') ∧
      ok = decide (0 < l.pool.left c i) ∧
      lstep c p l now (if ok then .tokOk i else .tokEnd i) = some l' := by
  obtain ⟨hr, ha⟩ := lrun_is_run hn h
  have hlen := (reach_invA hr).len
  obtain ⟨d, hp⟩ := prof_exists ha hlen hw
  obtain ⟨hl, hf⟩ := prof_left ha hp
  obtain ⟨tx, d', hnx, _, _, _, _⟩ := next_draws d hf now
  by_cases hpos : 0 < tokensLeft d
  · have hstep : ∃ q, step c l.pool (.tokOk i) = some q := by
      simp only [step, hw, hl, hpos, and_self, if_true]; exact ⟨_, rfl⟩
    obtain ⟨q, hq⟩ := hstep
    refine ⟨d, tx, true, d', { (l.setProf c i d') with pool := q }, hp, by simpa [hpos] using hnx, by simp [hl, hpos], ?_⟩
    simp only [if_true, lstep, hp, hnx, hpos, decide_true, hq, Option.map_some]
  · have hz : tokensLeft d = 0 := by omega
    have hstep : ∃ q, step c l.pool (.tokEnd i) = some q := by
      simp only [step, hw, hl, hz, and_self, if_true]; exact ⟨_, rfl⟩
    obtain ⟨q, hq⟩ := hstep
    refine ⟨d, tx, false, d', { (l.setProf c i d') with pool := q }, hp, by simpa [hpos] using hnx, by simp [hl, hz], ?_⟩
    simp only [Bool.false_eq_true, if_false, lstep, hp, hnx, hpos, decide_false, hq, Option.map_some]

/-- **`IsFinished` never blocks on a disagreement**: the regenerated `Left()` returns the pool model's `left`, and the
product accepts the check with that value -/
theorem left_never_blocks {c : Cfg} {p : Leaf} (hn : c.tokens = p.n.toNat) {es : List (Int × Ev)} {l : LSt}
    (h : lrun c p (linit c p) es = some l) (i : Nat) (hw : l.pool.pcs[i]? = some .check) (now : Int) :
    ∃ d l', l.prof c i = some d ∧ doAtSchedule_Left d = .ok ((l.pool.left c i : Int), d) ∧
      lstep c p l now (.chk i (l.pool.left c i)) = some l' := by
  obtain ⟨hr, ha⟩ := lrun_is_run hn h
  have hlen := (reach_invA hr).len
  obtain ⟨d, hp⟩ := prof_exists ha hlen hw
  obtain ⟨hl, _⟩ := prof_left ha hp
  have hstep : ∃ q, step c l.pool (.chk i (l.pool.left c i)) = some q := by
    simp only [step, hw, and_self, if_true]; exact ⟨_, rfl⟩
  obtain ⟨q, hq⟩ := hstep
  refine ⟨d, { (l.setProf c i d) with pool := q }, hp, by rw [left_eq d, hl], ?_⟩
  rw [hl] at hq
  simp only [lstep, hp, left_eq d, hl, if_true, hq, Option.map_some]

end Pandora.Proofs.C03Leaf
