/-
C08: invariants of the transition system provider + channel + consumers + context (`Model.C08Mach`), for every
schedule.  Core Lean only.
-/
import Pandora.Proofs.C08Mach

namespace Pandora.Proofs.C08
open Pandora.Model.C08

/-- what holds in every reachable state, whatever the schedule -/
structure SysInv (inp : Input) (n cap : Nat) (s : Sys) : Prop where
  seq : s.acquired ++ s.buf = cycl n s.sent
  below : Below inp.b n s.sent
  bufcap : s.buf.length ≤ cap
  running : s.result = none → s.closed = false ∧ Good inp n s.sent s.ps ∧
    ∀ i ps', s.offering = some (i, ps') → i = s.sent % n ∧ Strict inp.b n s.sent ∧ Good inp n (s.sent + 1) ps'
  returned : ∀ r, s.result = some r → s.closed = true ∧ s.offering = none ∧
    ((r = .nil ∧ AtBound inp.b n s.sent) ∨ (s.cancelled = true ∧ (r = .canceled ∨ r = doneResOf inp.kind)))
  ended : s.ended ≠ [] → s.closed = true ∧ s.buf = []

theorem sysInv_init (inp : Input) (n cap : Nat) (hn : 0 < n) : SysInv inp n cap (Sys.init inp n) where
  seq := by simp [Sys.init, Sys.acquired, Sys.sent]
  below := by simp [Sys.init, Sys.sent]; exact below_zero _ _
  bufcap := by simp [Sys.init]
  running := by
    intro _
    refine ⟨rfl, ?_, ?_⟩
    · simpa [Sys.init, Sys.sent] using good_init inp n hn
    · intro i ps' h; simp [Sys.init] at h
  returned := by intro r h; simp [Sys.init] at h
  ended := by intro h; simp [Sys.init] at h

theorem isSome_false_of_none {α : Type} {o : Option α} (h : ¬ (o.isSome = true)) : o = none := by
  cases o <;> simp_all

/-- every transition preserves the invariant -/
theorem sysInv_next (inp : Input) (n cap cons : Nat) (hn : 0 < n) (s s' : Sys) (l : Label)
    (hi : SysInv inp n cap s) (h : s.next inp n cap cons l = some s') : SysInv inp n cap s' := by
  cases l with
  | prod =>
    simp only [Sys.next] at h
    split at h
    · cases h
    · rename_i hne
      have hres : s.result = none := isSome_false_of_none (fun h => hne (Or.inl h))
      have hoff : s.offering = none := isSome_false_of_none (fun h => hne (Or.inr h))
      obtain ⟨hcl, hg, _⟩ := hi.running hres
      have ok := good_step inp n hn s.cancelled s.sent s.ps hg hi.below
      split at h
      · rename_i r hstep
        cases h
        refine ⟨hi.seq, hi.below, hi.bufcap, ?_, ?_, ?_⟩
        · intro h; simp at h
        · intro r' hr'
          simp only [Option.some.injEq] at hr'
          subst hr'
          refine ⟨rfl, hoff, ?_⟩
          rcases ok.ret r hstep with h1 | ⟨h1, h2⟩
          · exact Or.inl h1
          · exact Or.inr ⟨h1, Or.inl h2⟩
        · intro _; exact ⟨rfl, (hi.ended ‹_›).2⟩
      · rename_i i ps' hstep
        cases h
        refine ⟨hi.seq, hi.below, hi.bufcap, ?_, ?_, hi.ended⟩
        · intro _
          refine ⟨hcl, hg, ?_⟩
          intro i' ps'' h'
          simp only [Option.some.injEq, Prod.mk.injEq] at h'
          obtain ⟨rfl, rfl⟩ := h'
          exact ok.offer i ps' hstep
        · intro r hr; simp [hres] at hr
      · rename_i ps' hstep
        cases h
        refine ⟨hi.seq, hi.below, hi.bufcap, ?_, ?_, hi.ended⟩
        · intro _
          refine ⟨hcl, (ok.tau ps' hstep).1, ?_⟩
          intro i' ps'' h'; simp [hoff] at h'
        · intro r hr; simp [hres] at hr
  | push =>
    simp only [Sys.next] at h
    split at h
    · rename_i i ps' hoff
      split at h
      · rename_i hc
        cases h
        have hres : s.result = none := by simpa using hc.1
        obtain ⟨hcl, _, ho⟩ := hi.running hres
        obtain ⟨hi1, hi2, hi3⟩ := ho i ps' hoff
        have hsent : (Sys.sent { s with ps := ps', offering := none, buf := s.buf ++ [i] }) = s.sent + 1 := by
          simp [Sys.sent]; omega
        refine ⟨?_, ?_, ?_, ?_, ?_, ?_⟩
        · rw [hsent, cycl_succ, ← hi1, ← hi.seq]; simp [Sys.acquired]
        · rw [hsent]; exact hi2.below_succ
        · simp; omega
        · intro _
          refine ⟨hcl, by rw [hsent]; exact hi3, ?_⟩
          intro i' ps'' h'; simp at h'
        · intro r hr; simp [hres] at hr
        · intro he
          have := hi.ended he
          simp [hcl] at this
      · cases h
    · cases h
  | hand c =>
    simp only [Sys.next] at h
    split at h
    · rename_i i ps' hoff
      split at h
      · rename_i hc
        cases h
        have hres : s.result = none := by simpa using hc.1
        have hbuf : s.buf = [] := hc.2.1
        obtain ⟨hcl, _, ho⟩ := hi.running hres
        obtain ⟨hi1, hi2, hi3⟩ := ho i ps' hoff
        have hsent : (Sys.sent { s with ps := ps', offering := none, log := s.log ++ [(c, i)] }) = s.sent + 1 := by
          simp [Sys.sent]; omega
        refine ⟨?_, ?_, ?_, ?_, ?_, ?_⟩
        · rw [hsent, cycl_succ, ← hi1, ← hi.seq]; simp [Sys.acquired, hbuf]
        · rw [hsent]; exact hi2.below_succ
        · exact hi.bufcap
        · intro _
          refine ⟨hcl, by rw [hsent]; exact hi3, ?_⟩
          intro i' ps'' h'; simp at h'
        · intro r hr; simp [hres] at hr
        · intro he
          have := hi.ended he
          simp [hcl] at this
      · cases h
    · cases h
  | done =>
    simp only [Sys.next] at h
    split at h
    · rename_i hc
      cases h
      refine ⟨hi.seq, hi.below, hi.bufcap, ?_, ?_, ?_⟩
      · intro h; simp at h
      · intro r hr
        simp only [Option.some.injEq] at hr
        subst hr
        exact ⟨rfl, rfl, Or.inr ⟨hc.2.2, Or.inr rfl⟩⟩
      · intro he; exact ⟨rfl, (hi.ended he).2⟩
    · cases h
  | recv c =>
    simp only [Sys.next] at h
    split at h
    · rename_i i rest hbuf
      split at h
      · cases h
        have hsent : (Sys.sent { s with buf := rest, log := s.log ++ [(c, i)] }) = s.sent := by
          simp [Sys.sent, hbuf]; omega
        refine ⟨?_, ?_, ?_, ?_, ?_, ?_⟩
        · rw [hsent, ← hi.seq]; simp [Sys.acquired, hbuf]
        · rw [hsent]; exact hi.below
        · have := hi.bufcap; simp [hbuf] at this; simp; omega
        · intro hr
          obtain ⟨h1, h2, h3⟩ := hi.running hr
          exact ⟨h1, by rw [hsent]; exact h2, by rw [hsent]; exact h3⟩
        · intro r hr
          obtain ⟨h1, h2, h3⟩ := hi.returned r hr
          exact ⟨h1, h2, by rw [hsent]; exact h3⟩
        · intro he
          have := (hi.ended he).2
          simp [hbuf] at this
      · cases h
    · cases h
  | eoa c =>
    simp only [Sys.next] at h
    split at h
    · rename_i hc
      cases h
      exact ⟨hi.seq, hi.below, hi.bufcap, hi.running, hi.returned, fun _ => ⟨hc.1, hc.2.1⟩⟩
    · cases h
  | cancel =>
    simp only [Sys.next] at h
    cases h
    refine ⟨hi.seq, hi.below, hi.bufcap, hi.running, ?_, hi.ended⟩
    intro r hr
    obtain ⟨h1, h2, h3⟩ := hi.returned r hr
    refine ⟨h1, h2, ?_⟩
    rcases h3 with h3 | ⟨_, h3⟩
    · exact Or.inl h3
    · exact Or.inr ⟨rfl, h3⟩

theorem sysInv_run (inp : Input) (n cap cons : Nat) (hn : 0 < n) (ls : List Label) :
    ∀ s, SysInv inp n cap s → SysInv inp n cap (s.run inp n cap cons ls) := by
  induction ls with
  | nil => intro s h; exact h
  | cons l ls ih =>
    intro s h
    simp only [Sys.run, List.foldl_cons]
    apply ih
    cases hnext : s.next inp n cap cons l with
    | none => simpa using h
    | some s' => simpa using sysInv_next inp n cap cons hn s s' l h hnext

theorem sysInv_reach (inp : Input) (n cons : Nat) (hn : 0 < n) (ls : List Label) :
    SysInv inp n inp.kind.chanCap (reach inp n cons ls) :=
  sysInv_run inp n _ cons hn ls _ (sysInv_init inp n _ hn)

/-! ## the provider returns by itself once its bound is reached or the context is cancelled -/

/-- one step of `Run` alone: the Done branch of the select when it is in the select with a cancelled context,
otherwise one loop iteration -/
def ownStep (inp : Input) (n cap cons : Nat) (s : Sys) : Sys :=
  if s.offering.isSome ∧ s.cancelled then (s.next inp n cap cons .done).getD s
  else (s.next inp n cap cons .prod).getD s

def ownRun (inp : Input) (n cap cons : Nat) : Nat → Sys → Sys
  | 0, s => s
  | m + 1, s => ownRun inp n cap cons m (ownStep inp n cap cons s)

theorem ownRun_returned (inp : Input) (n cap cons : Nat) (m : Nat) (s : Sys) (h : s.result.isSome) :
    (ownRun inp n cap cons m s).result.isSome := by
  induction m generalizing s with
  | zero => exact h
  | succ m ih =>
    apply ih
    unfold ownStep
    have hd : s.next inp n cap cons .done = none := by
      simp only [Sys.next]
      cases hr : s.result <;> simp_all
    have hp : s.next inp n cap cons .prod = none := by simp [Sys.next, h]
    split <;> simp [hd, hp, h]

theorem ownRun_succ (inp : Input) (n cap cons m : Nat) (s : Sys) :
    ownRun inp n cap cons (m + 1) s = ownRun inp n cap cons m (ownStep inp n cap cons s) := rfl

theorem own_done (inp : Input) (n cap cons : Nat) (s : Sys) (i : Nat) (ps' : PSt) (hoff : s.offering = some (i, ps'))
    (hc : s.cancelled = true) (hres : s.result = none) : (ownStep inp n cap cons s).result.isSome = true := by
  simp [ownStep, hoff, hc, Sys.next, hres]

theorem own_ret (inp : Input) (n cap cons : Nat) (s : Sys) (r : RunRes) (hoff : s.offering = none)
    (hres : s.result = none) (hstep : stepOf inp n s.cancelled s.ps = .ret r) :
    (ownStep inp n cap cons s).result.isSome = true := by
  simp [ownStep, hoff, Sys.next, hres, hstep]

theorem own_offer (inp : Input) (n cap cons : Nat) (s : Sys) (i : Nat) (ps' : PSt) (hoff : s.offering = none)
    (hres : s.result = none) (hstep : stepOf inp n s.cancelled s.ps = .offer i ps') :
    ownStep inp n cap cons s = { s with offering := some (i, ps') } := by
  simp [ownStep, hoff, Sys.next, hres, hstep]

theorem own_tau (inp : Input) (n cap cons : Nat) (s : Sys) (ps' : PSt) (hoff : s.offering = none)
    (hres : s.result = none) (hstep : stepOf inp n s.cancelled s.ps = .tau ps') :
    ownStep inp n cap cons s = { s with ps := ps' } ∧ s.next inp n cap cons .prod = some { s with ps := ps' } := by
  simp [ownStep, hoff, Sys.next, hres, hstep]

/-- `Run` alone returns within `tauBudget + 2` of its own steps once the bound is reached or the context is
cancelled: it needs nobody to receive, and it does not spin -/
theorem returns_alone (inp : Input) (n cap cons : Nat) (hn : 0 < n) :
    ∀ (j : Nat) (s : Sys), SysInv inp n cap s → s.result = none →
      (s.cancelled = true ∨ AtBound inp.b n s.sent) → tauBudget n s.ps ≤ j →
      (ownRun inp n cap cons (j + 2) s).result.isSome = true := by
  intro j
  induction j with
  | zero =>
    intro s hi hres hstop hj
    obtain ⟨hcl, hg, ho⟩ := hi.running hres
    rw [ownRun_succ]
    cases hoff : s.offering with
    | some p =>
      obtain ⟨i, ps'⟩ := p
      have hstrict := (ho i ps' hoff).2.1
      have hc : s.cancelled = true := by
        rcases hstop with h | h
        · exact h
        · exact absurd h hstrict.not_atBound
      exact ownRun_returned _ _ _ _ _ _ (own_done inp n cap cons s i ps' hoff hc hres)
    | none =>
      have ok := good_step inp n hn s.cancelled s.sent s.ps hg hi.below
      cases hstep : stepOf inp n s.cancelled s.ps with
      | ret r => exact ownRun_returned _ _ _ _ _ _ (own_ret inp n cap cons s r hoff hres hstep)
      | tau ps' =>
        have := (ok.tau ps' hstep).2
        omega
      | offer i ps' =>
        have hstrict := (ok.offer i ps' hstep).2.1
        have hc : s.cancelled = true := by
          rcases hstop with h | h
          · exact h
          · exact absurd h hstrict.not_atBound
        rw [own_offer inp n cap cons s i ps' hoff hres hstep, ownRun_succ]
        exact ownRun_returned _ _ _ _ _ _ (own_done inp n cap cons _ i ps' rfl hc hres)
  | succ j ih =>
    intro s hi hres hstop hj
    obtain ⟨hcl, hg, ho⟩ := hi.running hres
    rw [ownRun_succ]
    cases hoff : s.offering with
    | some p =>
      obtain ⟨i, ps'⟩ := p
      have hstrict := (ho i ps' hoff).2.1
      have hc : s.cancelled = true := by
        rcases hstop with h | h
        · exact h
        · exact absurd h hstrict.not_atBound
      exact ownRun_returned _ _ _ _ _ _ (own_done inp n cap cons s i ps' hoff hc hres)
    | none =>
      have ok := good_step inp n hn s.cancelled s.sent s.ps hg hi.below
      cases hstep : stepOf inp n s.cancelled s.ps with
      | ret r => exact ownRun_returned _ _ _ _ _ _ (own_ret inp n cap cons s r hoff hres hstep)
      | tau ps' =>
        have hlt := (ok.tau ps' hstep).2
        obtain ⟨h1, hnext⟩ := own_tau inp n cap cons s ps' hoff hres hstep
        have hi' := sysInv_next inp n cap cons hn s _ .prod hi hnext
        rw [h1]
        exact ih _ hi' hres (by simpa [Sys.sent] using hstop) (by simp; omega)
      | offer i ps' =>
        have hstrict := (ok.offer i ps' hstep).2.1
        have hc : s.cancelled = true := by
          rcases hstop with h | h
          · exact h
          · exact absurd h hstrict.not_atBound
        rw [own_offer inp n cap cons s i ps' hoff hres hstep, ownRun_succ]
        exact ownRun_returned _ _ _ _ _ _ (own_done inp n cap cons _ i ps' rfl hc hres)

/-! ## providers that read ctx.Err() at the loop top send nothing more once the context is cancelled
(except the ammo that is already in the select) -/

theorem ctxTop_no_offer (inp : Input) (n : Nat) (hn : 0 < n) (k : Nat) (s : PSt) (hg : Good inp n k s)
    (ht : inp.kind.ctxTop = true) (i : Nat) (s' : PSt) : stepOf inp n true s ≠ .offer i s' := by
  intro h
  cases s with
  | stream d a =>
    simp only [stepOf, liftAct_offer, streamStep_true] at h
    obtain ⟨_, h, _⟩ := h; cases h
  | arr d a =>
    simp only [stepOf, liftAct_offer, streamStep_true] at h
    obtain ⟨_, h, _⟩ := h; cases h
  | unloaded =>
    have hlen : (List.range n).length ≠ 0 := by rw [List.length_range]; omega
    simp only [stepOf, loadOf_ok inp.kind n hn, if_neg hlen] at h
    split at h <;> cases h
  | replay ammos a =>
    simp only [stepOf, liftAct_offer, replayStep] at h
    obtain ⟨_, h, _⟩ := h
    simp at h
  | grpc g =>
    obtain ⟨hk, _⟩ := hg
    simp [hk, Kind.ctxTop] at ht
  | gen a r ps =>
    obtain ⟨hk, _⟩ := hg
    simp [hk, Kind.ctxTop] at ht

/-- ammo sent, counting the one that is in the select -/
def pot (s : Sys) : Nat := s.sent + (if s.offering.isSome then 1 else 0)

theorem next_prod_some (inp : Input) (n cap cons : Nat) (s s' : Sys) (h : s.next inp n cap cons .prod = some s') :
    s.result = none ∧ s.offering = none ∧
    ((∃ r, stepOf inp n s.cancelled s.ps = .ret r ∧ s' = { s with result := some r, closed := true }) ∨
     (∃ i ps', stepOf inp n s.cancelled s.ps = .offer i ps' ∧ s' = { s with offering := some (i, ps') }) ∨
     (∃ ps', stepOf inp n s.cancelled s.ps = .tau ps' ∧ s' = { s with ps := ps' })) := by
  simp only [Sys.next] at h
  by_cases hne : s.result.isSome = true ∨ s.offering.isSome = true
  · rw [if_pos hne] at h; cases h
  · rw [if_neg hne] at h
    have hres : s.result = none := isSome_false_of_none (fun h => hne (Or.inl h))
    have hoff : s.offering = none := isSome_false_of_none (fun h => hne (Or.inr h))
    refine ⟨hres, hoff, ?_⟩
    cases hstep : stepOf inp n s.cancelled s.ps with
    | ret r => rw [hstep] at h; simp only [Option.some.injEq] at h; exact Or.inl ⟨r, rfl, h.symm⟩
    | offer i ps' => rw [hstep] at h; simp only [Option.some.injEq] at h; exact Or.inr (Or.inl ⟨i, ps', rfl, h.symm⟩)
    | tau ps' => rw [hstep] at h; simp only [Option.some.injEq] at h; exact Or.inr (Or.inr ⟨ps', rfl, h.symm⟩)

theorem pot_next_cancelled (inp : Input) (n cap cons : Nat) (hn : 0 < n) (ht : inp.kind.ctxTop = true)
    (s s' : Sys) (l : Label) (hi : SysInv inp n cap s) (hc : s.cancelled = true)
    (h : s.next inp n cap cons l = some s') : pot s' ≤ pot s ∧ s'.cancelled = true := by
  cases l with
  | prod =>
    obtain ⟨hres, hoff, h⟩ := next_prod_some inp n cap cons s s' h
    obtain ⟨_, hg, _⟩ := hi.running hres
    rcases h with ⟨r, _, rfl⟩ | ⟨i, ps', hstep, rfl⟩ | ⟨ps', _, rfl⟩
    · exact ⟨by simp [pot, Sys.sent], hc⟩
    · rw [hc] at hstep
      exact absurd hstep (ctxTop_no_offer inp n hn s.sent s.ps hg ht i ps')
    · exact ⟨by simp [pot, Sys.sent], hc⟩
  | push =>
    simp only [Sys.next] at h
    cases hoff : s.offering with
    | none => rw [hoff] at h; cases h
    | some p =>
      rw [hoff] at h
      simp only at h
      by_cases hcnd : s.result.isNone = true ∧ s.buf.length < cap
      · rw [if_pos hcnd] at h; cases h
        refine ⟨?_, hc⟩; simp [pot, Sys.sent, hoff]; omega
      · rw [if_neg hcnd] at h; cases h
  | hand c =>
    simp only [Sys.next] at h
    cases hoff : s.offering with
    | none => rw [hoff] at h; cases h
    | some p =>
      rw [hoff] at h
      simp only at h
      by_cases hcnd : s.result.isNone = true ∧ s.buf = [] ∧ c < cons ∧ c ∉ s.ended
      · rw [if_pos hcnd] at h; cases h
        refine ⟨?_, hc⟩; simp [pot, Sys.sent, hoff]; omega
      · rw [if_neg hcnd] at h; cases h
  | done =>
    simp only [Sys.next] at h
    by_cases hcnd : s.result.isNone = true ∧ s.offering.isSome = true ∧ s.cancelled = true
    · rw [if_pos hcnd] at h; cases h
      refine ⟨?_, hc⟩; simp [pot, Sys.sent]
    · rw [if_neg hcnd] at h; cases h
  | recv c =>
    simp only [Sys.next] at h
    cases hbuf : s.buf with
    | nil => rw [hbuf] at h; cases h
    | cons i rest =>
      rw [hbuf] at h
      simp only at h
      by_cases hcnd : c < cons ∧ c ∉ s.ended
      · rw [if_pos hcnd] at h; cases h
        refine ⟨?_, hc⟩; simp [pot, Sys.sent, hbuf]; omega
      · rw [if_neg hcnd] at h; cases h
  | eoa c =>
    simp only [Sys.next] at h
    by_cases hcnd : s.closed = true ∧ s.buf = [] ∧ c < cons ∧ c ∉ s.ended
    · rw [if_pos hcnd] at h; cases h
      exact ⟨by simp [pot, Sys.sent], hc⟩
    · rw [if_neg hcnd] at h; cases h
  | cancel =>
    simp only [Sys.next] at h
    cases h; exact ⟨by simp [pot, Sys.sent], rfl⟩

theorem run_cons (inp : Input) (n cap cons : Nat) (s : Sys) (l : Label) (ls : List Label) :
    s.run inp n cap cons (l :: ls) = ((s.next inp n cap cons l).getD s).run inp n cap cons ls := rfl

theorem pot_run_cancelled (inp : Input) (n cap cons : Nat) (hn : 0 < n) (ht : inp.kind.ctxTop = true) (ls : List Label) :
    ∀ s, SysInv inp n cap s → s.cancelled = true → pot (s.run inp n cap cons ls) ≤ pot s := by
  induction ls with
  | nil => intro s _ _; exact Nat.le_refl _
  | cons l ls ih =>
    intro s hi hc
    rw [run_cons]
    cases hnext : s.next inp n cap cons l with
    | none => simpa using ih s hi hc
    | some s' =>
      have ⟨h1, h2⟩ := pot_next_cancelled inp n cap cons hn ht s s' l hi hc hnext
      have := ih s' (sysInv_next inp n cap cons hn s s' l hi hnext) h2
      simp only [Option.getD_some]
      exact Nat.le_trans this h1

/-! ## no deadlock: as long as a consumer keeps calling Acquire something can happen, until everybody has seen the end -/

theorem no_deadlock (inp : Input) (n cap cons : Nat) (s : Sys) (hi : SysInv inp n cap s) (hc : 0 < cons)
    (hstuck : ∀ l, l ≠ .cancel → s.next inp n cap cons l = none) :
    s.result.isSome ∧ s.buf = [] ∧ ∀ c, c < cons → c ∈ s.ended := by
  cases hres : s.result with
  | none =>
    exfalso
    obtain ⟨hcl, _, _⟩ := hi.running hres
    have hend : s.ended = [] := by
      cases he : s.ended with
      | nil => rfl
      | cons a l => have := (hi.ended (by simp [he])).1; simp [hcl] at this
    cases hoff : s.offering with
    | none =>
      have := hstuck .prod (by simp)
      cases hstep : stepOf inp n s.cancelled s.ps <;> simp [Sys.next, hres, hoff, hstep] at this
    | some p =>
      obtain ⟨i, ps'⟩ := p
      by_cases hroom : s.buf.length < cap
      · have := hstuck .push (by simp)
        simp [Sys.next, hoff, hres, hroom] at this
      · cases hbuf : s.buf with
        | nil =>
          have := hstuck (.hand 0) (by simp)
          simp [Sys.next, hoff, hres, hbuf, hc, hend] at this
        | cons a rest =>
          have := hstuck (.recv 0) (by simp)
          simp [Sys.next, hbuf, hc, hend] at this
  | some r =>
    obtain ⟨hcl, _, _⟩ := hi.returned r hres
    have hbuf : s.buf = [] := by
      cases hb : s.buf with
      | nil => rfl
      | cons a rest =>
        exfalso
        have hend : s.ended = [] := by
          cases he : s.ended with
          | nil => rfl
          | cons x l => have := (hi.ended (by simp [he])).2; simp [hb] at this
        have := hstuck (.recv 0) (by simp)
        simp [Sys.next, hb, hc, hend] at this
    refine ⟨by simp, hbuf, ?_⟩
    intro c hcc
    have := hstuck (.eoa c) (by simp)
    simp only [Sys.next] at this
    by_cases hm : c ∈ s.ended
    · exact hm
    · simp [hcl, hbuf, hcc, hm] at this

end Pandora.Proofs.C08
