/-
C09 — helper lemmas: association-list header maps, MIME canonicalisation is idempotent, characterisation of the
folds (`Set`, `Add`, add-if-absent) and of EnrichRequestWithHeaders through lookups.
-/
import Pandora.Model.C09
import Pandora.Spec.C09

namespace Pandora.Proofs.C09
open Pandora.Model.C09 Pandora.Spec.C09

/-! ## hget / hput / hdel -/

theorem hget_hput (h : Hdr) (k k' : Str) (vs : List Str) :
    hget (hput h k vs) k' = if k' = k then some vs else hget h k' := by
  induction h with
  | nil =>
    simp only [hput, hget]
    by_cases hk : k = k'
    · subst hk; simp
    · have : ¬ k' = k := fun e => hk e.symm
      simp [hk, this]
  | cons a t ih =>
    obtain ⟨a1, a2⟩ := a
    simp only [hput]
    by_cases ha : a1 = k
    · subst ha
      simp only [if_true, hget]
      by_cases hk : a1 = k'
      · subst hk; simp
      · have : ¬ k' = a1 := fun e => hk e.symm
        simp [hk, this]
    · simp only [ha, if_false, hget]
      by_cases hk : a1 = k'
      · subst hk
        have : ¬ a1 = k := ha
        simp [this]
      · simp [hk, ih]

theorem hget_hdel_self (h : Hdr) (k : Str) : hget (hdel h k) k = none := by
  induction h with
  | nil => simp [hdel, hget]
  | cons a t ih =>
    obtain ⟨a1, a2⟩ := a
    by_cases ha : a1 = k
    · simp [hdel, ha, ih]
    · simp [hdel, ha, hget, ih]

theorem hget_hdel_ne (h : Hdr) (k n : Str) (hn : n ≠ k) : hget (hdel h k) n = hget h n := by
  induction h with
  | nil => simp [hdel, hget]
  | cons a t ih =>
    obtain ⟨a1, a2⟩ := a
    by_cases ha : a1 = k
    · subst ha
      have : ¬ a1 = n := fun e => hn e.symm
      simp [hdel, hget, ih, this]
    · simp [hdel, ha, hget, ih]

/-- keys of the map -/
def keys (h : Hdr) : List Str := h.map (·.1)

theorem hget_none_of_not_mem (h : Hdr) (k : Str) (hk : k ∉ keys h) : hget h k = none := by
  induction h with
  | nil => simp [hget]
  | cons a t ih =>
    obtain ⟨a1, a2⟩ := a
    simp only [keys, List.map_cons, List.mem_cons, not_or] at hk
    have h1 : ¬ a1 = k := fun e => hk.1 e.symm
    simp [hget, h1]
    exact ih hk.2

theorem hget_some_of_mem (h : Hdr) (k : Str) (hk : k ∈ keys h) : ∃ vs, hget h k = some vs := by
  induction h with
  | nil => simp [keys] at hk
  | cons a t ih =>
    obtain ⟨a1, a2⟩ := a
    by_cases ha : a1 = k
    · exact ⟨a2, by simp [hget, ha]⟩
    · simp only [keys, List.map_cons, List.mem_cons] at hk
      rcases hk with hk | hk
      · exact absurd hk.symm ha
      · obtain ⟨vs, hvs⟩ := ih hk
        exact ⟨vs, by simp [hget, ha, hvs]⟩

theorem keys_hput (h : Hdr) (k : Str) (vs : List Str) :
    keys (hput h k vs) = if k ∈ keys h then keys h else keys h ++ [k] := by
  induction h with
  | nil => simp [hput, keys]
  | cons a t ih =>
    obtain ⟨a1, a2⟩ := a
    by_cases ha : a1 = k
    · subst ha; simp [hput, keys]
    · have hk : ¬ k = a1 := fun e => ha e.symm
      have e1 : keys (hput ((a1, a2) :: t) k vs) = a1 :: keys (hput t k vs) := by simp [hput, ha, keys]
      have e2 : keys ((a1, a2) :: t) = a1 :: keys t := by simp [keys]
      rw [e1, e2, ih]
      by_cases hm : k ∈ keys t
      · simp [hm]
      · simp [hm, hk]

theorem mem_hput (h : Hdr) (k : Str) (vs : List Str) (kv : Str × List Str) (hm : kv ∈ hput h k vs) :
    kv ∈ h ∨ kv = (k, vs) := by
  induction h with
  | nil => simp [hput] at hm; exact Or.inr hm
  | cons a t ih =>
    obtain ⟨a1, a2⟩ := a
    by_cases ha : a1 = k
    · subst ha
      simp only [hput, if_true, List.mem_cons] at hm
      rcases hm with hm | hm
      · exact Or.inr hm
      · exact Or.inl (List.mem_cons_of_mem _ hm)
    · simp only [hput, ha, if_false, List.mem_cons] at hm
      rcases hm with hm | hm
      · exact Or.inl (hm ▸ List.mem_cons_self)
      · rcases ih hm with h1 | h1
        · exact Or.inl (List.mem_cons_of_mem _ h1)
        · exact Or.inr h1

/-! ## well-formed header maps: canonical, distinct keys, no empty value list -/

structure WF (h : Hdr) : Prop where
  canonKeys : ∀ kv ∈ h, canon kv.1 = kv.1
  nodup : (keys h).Nodup
  nonempty : ∀ kv ∈ h, kv.2 ≠ []

theorem WF_nil : WF [] := ⟨by simp, by simp [keys], by simp⟩

theorem WF_hput {h : Hdr} (w : WF h) {k : Str} (hk : canon k = k) {vs : List Str} (hv : vs ≠ []) :
    WF (hput h k vs) := by
  refine ⟨?_, ?_, ?_⟩
  · intro kv hm
    rcases mem_hput h k vs kv hm with h1 | h1
    · exact w.canonKeys kv h1
    · subst h1; exact hk
  · rw [keys_hput]
    split
    · exact w.nodup
    · rename_i hnot
      rw [List.nodup_append]
      refine ⟨w.nodup, by simp, ?_⟩
      intro a ha b hb
      simp at hb
      subst hb
      intro e; subst e; exact hnot ha
  · intro kv hm
    rcases mem_hput h k vs kv hm with h1 | h1
    · exact w.nonempty kv h1
    · subst h1; exact hv

theorem WF_tail {a : Str × List Str} {t : Hdr} (w : WF (a :: t)) : WF t :=
  ⟨fun kv hm => w.canonKeys kv (List.mem_cons_of_mem _ hm),
   by have := w.nodup; simp only [keys, List.map_cons, List.nodup_cons] at this; exact this.2,
   fun kv hm => w.nonempty kv (List.mem_cons_of_mem _ hm)⟩

theorem WF_head_not_mem {a : Str × List Str} {t : Hdr} (w : WF (a :: t)) : a.1 ∉ keys t := by
  have := w.nodup; simp only [keys, List.map_cons, List.nodup_cons] at this; exact this.1

/-! ## CanonicalMIMEHeaderKey is idempotent -/

theorem tok_ne_space (c : Nat) (h : isTokenByte c = true) : (c == 32) = false := by
  simp only [isTokenByte, isLower, isUpper, isDigit, isTcharPunct, Bool.or_eq_true, Bool.and_eq_true,
    decide_eq_true_eq, beq_iff_eq] at h
  simp only [beq_eq_false_iff_ne, ne_eq]
  omega

/-- one step of the case mapping -/
def mapByte (up : Bool) (c : Nat) : Nat :=
  if up && isLower c then c - 32 else if !up && isUpper c then c + 32 else c

theorem caseMap_cons (up : Bool) (c : Nat) (cs : Str) :
    caseMap up (c :: cs) = mapByte up c :: caseMap (mapByte up c == 45) cs := by
  simp [caseMap, mapByte]

theorem isLower_sub (c : Nat) (h : isLower c = true) : isLower (c - 32) = false := by
  simp only [isLower, Bool.and_eq_true, decide_eq_true_eq, Bool.and_eq_false_iff, decide_eq_false_iff_not] at *
  omega

theorem isUpper_add (c : Nat) (h : isUpper c = true) : isUpper (c + 32) = false := by
  simp only [isUpper, Bool.and_eq_true, decide_eq_true_eq, Bool.and_eq_false_iff, decide_eq_false_iff_not] at *
  omega

theorem mapByte_idem (up : Bool) (c : Nat) : mapByte up (mapByte up c) = mapByte up c := by
  cases up
  · cases hl : isUpper c <;> simp [mapByte, hl, isUpper_add]
  · cases hl : isLower c <;> simp [mapByte, hl, isLower_sub]

theorem mapByte_token (up : Bool) (c : Nat) (h : isTokenByte c = true) : isTokenByte (mapByte up c) = true := by
  cases up
  · cases hl : isUpper c
    · simpa [mapByte, hl] using h
    · simp only [mapByte, hl, Bool.false_and, Bool.not_false, Bool.true_and, if_true, Bool.false_eq_true, if_false]
      simp only [isUpper, Bool.and_eq_true, decide_eq_true_eq] at hl
      simp only [isTokenByte, isLower, isUpper, isDigit, isTcharPunct, Bool.or_eq_true, Bool.and_eq_true,
        decide_eq_true_eq, beq_iff_eq]
      omega
  · cases hl : isLower c
    · simpa [mapByte, hl] using h
    · simp only [mapByte, hl, Bool.true_and, if_true]
      simp only [isLower, Bool.and_eq_true, decide_eq_true_eq] at hl
      simp only [isTokenByte, isLower, isUpper, isDigit, isTcharPunct, Bool.or_eq_true, Bool.and_eq_true,
        decide_eq_true_eq, beq_iff_eq]
      omega

theorem caseMap_idem (up : Bool) (l : Str) : caseMap up (caseMap up l) = caseMap up l := by
  induction l generalizing up with
  | nil => simp [caseMap]
  | cons c cs ih =>
    rw [caseMap_cons, caseMap_cons, mapByte_idem, ih]

theorem caseMap_token (up : Bool) (l : Str) (h : l.all isTokenByte = true) :
    (caseMap up l).all isTokenByte = true := by
  induction l generalizing up with
  | nil => simp [caseMap]
  | cons c cs ih =>
    rw [caseMap_cons]
    simp only [List.all_cons, Bool.and_eq_true] at h ⊢
    exact ⟨mapByte_token up c h.1, ih _ h.2⟩

theorem all_tok_of (k : Str) (h1 : k.all (fun c => isTokenByte c || c == 32) = true) (h2 : k.any (· == 32) = false) :
    k.all isTokenByte = true := by
  induction k with
  | nil => simp
  | cons c cs ih =>
    rw [List.all_cons, Bool.and_eq_true] at h1 ⊢
    rw [List.any_cons, Bool.or_eq_false_iff] at h2
    refine ⟨?_, ih h1.2 h2.2⟩
    have := h1.1
    rw [h2.1, Bool.or_false] at this
    exact this

theorem tok_all_or (k : Str) (h : k.all isTokenByte = true) :
    k.all (fun c => isTokenByte c || c == 32) = true ∧ k.any (· == 32) = false := by
  induction k with
  | nil => simp
  | cons c cs ih =>
    rw [List.all_cons, Bool.and_eq_true] at h
    obtain ⟨i1, i2⟩ := ih h.2
    rw [List.all_cons, Bool.and_eq_true, List.any_cons, Bool.or_eq_false_iff]
    exact ⟨⟨by rw [h.1]; rfl, i1⟩, tok_ne_space c h.1, i2⟩

theorem canon_idem (k : Str) : canon (canon k) = canon k := by
  unfold canon
  by_cases h1 : k.all (fun c => isTokenByte c || c == 32) = true
  · by_cases h2 : k.any (· == 32) = true
    · simp [h1, h2]
    · have h2' : k.any (· == 32) = false := Bool.eq_false_iff.mpr h2
      have ht := caseMap_token true k (all_tok_of k h1 h2')
      obtain ⟨j1, j2⟩ := tok_all_or _ ht
      simp only [h1, h2', if_true, Bool.false_eq_true, if_false, j1, j2]
      exact caseMap_idem true k
  · simp [h1]

/-! ## the folds -/

theorem lastOf_cons (v : Str) (l : List Str) : lastOf (v :: l) = if l = [] then [v] else lastOf l := by
  cases l <;> simp [lastOf]

theorem valsOf_cons (kv : Str × Str) (rest : List (Str × Str)) (n : Str) :
    valsOf (kv :: rest) n = if canon kv.1 = n then kv.2 :: valsOf rest n else valsOf rest n := by
  unfold valsOf
  by_cases h : canon kv.1 = n <;> simp [h]

theorem lastOf_ne_nil (l : List Str) (h : l ≠ []) : lastOf l ≠ [] := by
  induction l with
  | nil => exact absurd rfl h
  | cons v t ih =>
    rw [lastOf_cons]
    split
    · simp
    · rename_i ht; exact ih ht

/-- `Set` of every line in turn: the last line of a name stands -/
theorem hget_commonOf (h0 : Hdr) (lines : List (Str × Str)) (n : Str) :
    hget (commonOf h0 lines) n =
      match lastOf (valsOf lines n) with
      | [] => hget h0 n
      | vs => some vs := by
  induction lines generalizing h0 with
  | nil => simp [commonOf, valsOf, lastOf]
  | cons kv rest ih =>
    have hstep : commonOf h0 (kv :: rest) = commonOf (hset h0 kv.1 kv.2) rest := by simp [commonOf]
    rw [hstep, ih, valsOf_cons]
    by_cases hk : canon kv.1 = n
    · simp only [hk, if_true, lastOf_cons]
      by_cases hr : valsOf rest n = []
      · simp [hr, lastOf, hset, hget_hput, hk]
      · have hne := lastOf_ne_nil _ hr
        rw [if_neg hr]
        generalize lastOf (valsOf rest n) = l at hne ⊢
        cases l with
        | nil => exact absurd rfl hne
        | cons v vs => rfl
    · have hk' : ¬ n = canon kv.1 := fun e => hk e.symm
      simp only [hk, if_false]
      split
      · simp [hset, hget_hput, hk']
      · rfl

theorem mergeJson_eq (conf : Hdr) (lines : List (Str × Str)) : mergeJson conf lines = commonOf conf lines := rfl

/-- `Add` of every line in turn: the values of a name accumulate -/
theorem hget_foldl_hadd (f : Str → Str) (h0 : Hdr) (lines : List (Str × Str)) (n : Str) :
    hget (lines.foldl (fun h kv => hadd h kv.1 (f kv.2)) h0) n =
      match valsOf (lines.map fun kv => (kv.1, f kv.2)) n with
      | [] => hget h0 n
      | vs => some ((hget h0 n).getD [] ++ vs) := by
  induction lines generalizing h0 with
  | nil => simp [valsOf]
  | cons kv rest ih =>
    simp only [List.foldl_cons, List.map_cons]
    rw [ih, valsOf_cons]
    by_cases hk : canon kv.1 = n
    · simp only [hk, if_true]
      cases hr : valsOf (rest.map fun kv => (kv.1, f kv.2)) n with
      | nil => simp [hadd, hget_hput, hk]
      | cons v vs => simp [hadd, hget_hput, hk]
    · have hk' : ¬ n = canon kv.1 := fun e => hk e.symm
      simp only [hk, if_false]
      cases hr : valsOf (rest.map fun kv => (kv.1, f kv.2)) n with
      | nil => simp [hadd, hget_hput, hk']
      | cons v vs => simp [hadd, hget_hput, hk']

theorem WF_foldl_hset (h0 : Hdr) (w : WF h0) (lines : List (Str × Str)) : WF (commonOf h0 lines) := by
  induction lines generalizing h0 with
  | nil => exact w
  | cons kv rest ih =>
    have hstep : commonOf h0 (kv :: rest) = commonOf (hset h0 kv.1 kv.2) rest := by simp [commonOf]
    rw [hstep]
    exact ih _ (WF_hput w (canon_idem _) (by simp))

theorem WF_foldl_hadd (f : Str → Str) (h0 : Hdr) (w : WF h0) (lines : List (Str × Str)) :
    WF (lines.foldl (fun h kv => hadd h kv.1 (f kv.2)) h0) := by
  induction lines generalizing h0 with
  | nil => exact w
  | cons kv rest ih =>
    simp only [List.foldl_cons]
    exact ih _ (WF_hput w (canon_idem _) (by simp))

theorem WF_confHdr (conf : List (Str × Str)) : WF (confHdr conf) := by
  have := WF_foldl_hadd id [] WF_nil conf
  simpa [confHdr] using this

theorem hget_confHdr (conf : List (Str × Str)) (n : Str) :
    hget (confHdr conf) n = match valsOf conf n with
      | [] => none
      | vs => some vs := by
  have := hget_foldl_hadd id [] conf n
  simp only [id, hget, Option.getD_none, List.nil_append] at this
  have hm : (conf.map fun kv => (kv.1, kv.2)) = conf := by simp
  rw [hm] at this
  simpa [confHdr] using this

/-! ## add-if-absent merge (repaired uri/uripost) -/

theorem hget_mergeUri (common conf : Hdr) (hc : ∀ kv ∈ conf, canon kv.1 = kv.1) (n : Str) :
    hget (mergeUri common conf) n = match hget common n with
      | some x => some x
      | none => hget conf n := by
  induction conf generalizing common with
  | nil => simp [mergeUri, hget]; split <;> simp_all
  | cons kv rest ih =>
    have hk : canon kv.1 = kv.1 := hc kv List.mem_cons_self
    have hrest : ∀ kv ∈ rest, canon kv.1 = kv.1 := fun x hx => hc x (List.mem_cons_of_mem _ hx)
    have hstep : mergeUri common (kv :: rest) =
        mergeUri (match hget common (canon kv.1) with
          | some _ => common
          | none => hput common (canon kv.1) kv.2) rest := rfl
    rw [hstep, ih _ hrest, hk]
    obtain ⟨k, vs⟩ := kv
    simp only [hget]
    by_cases hkn : k = n
    · subst hkn
      cases hg : hget common k with
      | some x => simp [hg]
      | none => simp [hget_hput]
    · have hnk : ¬ n = k := fun e => hkn e.symm
      cases hg : hget common k with
      | some x => simp [hkn]
      | none => simp [hkn, hget_hput, hnk]

theorem WF_mergeUri (common conf : Hdr) (wc : WF common) (wf : WF conf) : WF (mergeUri common conf) := by
  induction conf generalizing common with
  | nil => exact wc
  | cons kv rest ih =>
    have hstep : mergeUri common (kv :: rest) =
        mergeUri (match hget common (canon kv.1) with
          | some _ => common
          | none => hput common (canon kv.1) kv.2) rest := rfl
    rw [hstep]
    apply ih _ _ (WF_tail wf)
    split
    · exact wc
    · exact WF_hput wc (canon_idem _) (wf.nonempty kv List.mem_cons_self)

/-! ## EnrichRequestWithHeaders -/

theorem hostKey_canon : canon hostKey = hostKey := by decide

theorem enrich_fields (r r' : Req) (H : Hdr) (h : enrich r H = some r') :
    r'.method = r.method ∧ r'.uri = r.uri ∧ r'.body = r.body := by
  induction H generalizing r with
  | nil => simp [enrich] at h; subst h; simp
  | cons kv rest ih =>
    obtain ⟨k, vs⟩ := kv
    simp only [enrich] at h
    split at h
    · exact ih r h
    · split at h
      · split at h
        · split at h
          · exact absurd h (by simp)
          · have := ih _ h; simpa using this
        · exact ih r h
      · have := ih _ h; simpa using this

/-- every header but Host: what the request had stays, everything else is added from `H` -/
theorem enrich_header (r r' : Req) (H : Hdr) (hc : ∀ kv ∈ H, canon kv.1 = kv.1) (h : enrich r H = some r')
    (n : Str) (hn : n ≠ hostKey) :
    hget r'.header n = match hget r.header n with
      | some x => some x
      | none => hget H n := by
  induction H generalizing r with
  | nil => simp [enrich] at h; subst h; simp [hget]; split <;> simp_all
  | cons kv rest ih =>
    obtain ⟨k, vs⟩ := kv
    have hk : canon k = k := hc (k, vs) List.mem_cons_self
    have hrest : ∀ kv ∈ rest, canon kv.1 = kv.1 := fun x hx => hc x (List.mem_cons_of_mem _ hx)
    simp only [enrich, hk] at h
    simp only [hget]
    split at h
    · -- already present
      rename_i x hx
      rw [ih r hrest h]
      by_cases hkn : k = n
      · subst hkn; simp [hx]
      · simp [hkn]
    · rename_i hx
      split at h
      · -- Host
        rename_i hhost
        have hkn : ¬ k = n := fun e => hn (e ▸ hhost)
        split at h
        · split at h
          · exact absurd h (by simp)
          · have := ih _ hrest h; simpa [hkn] using this
        · have := ih _ hrest h; simpa [hkn] using this
      · have := ih _ hrest h
        simp only [hget_hput] at this
        rw [this]
        by_cases hkn : k = n
        · subst hkn; simp [hx]
        · have : ¬ n = k := fun e => hkn e.symm
          simp [hkn, this]

/-- Host: kept when the request has one, else the first value of `H`'s Host entry -/
theorem enrich_host (r r' : Req) (H : Hdr) (w : WF H) (hr : hget r.header hostKey = none)
    (h : enrich r H = some r') :
    r'.host = if r.host ≠ [] then r.host else match hget H hostKey with
      | some (v :: _) => v
      | _ => [] := by
  induction H generalizing r with
  | nil => simp [enrich] at h; subst h; simp [hget]
  | cons kv rest ih =>
    obtain ⟨k, vs⟩ := kv
    have hk : canon k = k := w.canonKeys (k, vs) List.mem_cons_self
    have wt := WF_tail w
    have hnm := WF_head_not_mem w
    simp only [enrich, hk] at h
    simp only [hget]
    by_cases hkh : k = hostKey
    · subst hkh
      simp only [hr, if_true] at h
      have hnone : hget rest hostKey = none := hget_none_of_not_mem rest hostKey hnm
      by_cases hh : r.host = []
      · simp only [hh, if_true] at h
        cases vs with
        | nil => simp at h
        | cons v vt =>
          simp only at h
          have := ih _ wt (by simpa using hr) h
          simp only [hnone] at this
          simp only [hh, ne_eq, not_true_eq_false, if_false, if_true]
          rw [this]
          by_cases hv : v = []
          · simp [hv]
          · simp [hv]
      · simp only [hh, if_false] at h
        have := ih _ wt hr h
        simp only [hh, ne_eq, not_false_eq_true, if_true] at this ⊢
        exact this
    · simp only [hkh, if_false] at h ⊢
      split at h
      · exact ih _ wt hr h
      · have hr' : hget (hput r.header k vs) hostKey = none := by
          rw [hget_hput]; have : ¬ hostKey = k := fun e => hkh e.symm
          simp [this, hr]
        have := ih _ wt (by simpa using hr') h
        simpa using this

/-- with no empty value list in `H` the Go code never indexes an empty slice -/
theorem enrich_no_panic (r : Req) (H : Hdr) (hne : ∀ kv ∈ H, kv.2 ≠ []) : ∃ r', enrich r H = some r' := by
  induction H generalizing r with
  | nil => exact ⟨r, rfl⟩
  | cons kv rest ih =>
    obtain ⟨k, vs⟩ := kv
    have hrest : ∀ kv ∈ rest, kv.2 ≠ [] := fun x hx => hne x (List.mem_cons_of_mem _ hx)
    have hv : vs ≠ [] := hne (k, vs) List.mem_cons_self
    simp only [enrich]
    split
    · exact ih r hrest
    · split
      · split
        · cases vs with
          | nil => exact absurd rfl hv
          | cons v vt => exact ih _ hrest
        · exact ih r hrest
      · exact ih _ hrest

/-! ## the request each format builds, through lookups -/

theorem lastOf_getLast? (l : List Str) :
    lastOf l = match l.getLast? with
      | some v => [v]
      | none => [] := by
  induction l with
  | nil => simp [lastOf]
  | cons v t ih =>
    rw [lastOf_cons]
    cases t with
    | nil => simp
    | cons w t' => simp only [reduceCtorEq, if_false]; rw [ih]; simp [List.getLast?_cons_cons]

theorem hget_nil (n : Str) : hget [] n = none := rfl

/-- header lookups of the request each format builds, in terms of the lines and the option -/
theorem header_of_buildReq (f : Format) (conf lines : List (Str × Str)) (e : Entry) (r : Req)
    (h : buildReq f (confHdr conf) lines e = some r) (n : Str) (hn : n ≠ hostKey) :
    hget r.header n = expHeader f conf (seenLines f lines) n := by
  have wc := WF_confHdr conf
  have hcf := hget_confHdr conf n
  cases f with
  | uri =>
    simp only [buildReq, buildAmmo] at h
    have w := WF_mergeUri _ _ (WF_foldl_hset [] WF_nil lines) wc
    rw [enrich_header _ _ _ w.canonKeys h n hn]
    simp only [newRequest, hget_nil, hget_mergeUri _ _ wc.canonKeys, hget_commonOf, hcf, expHeader, fileVals, seenLines]
    generalize lastOf (valsOf lines n) = l
    cases l <;> rfl
  | uripost =>
    simp only [buildReq, buildAmmo] at h
    have w := WF_mergeUri _ _ (WF_foldl_hset [] WF_nil lines) wc
    rw [enrich_header _ _ _ w.canonKeys h n hn]
    simp only [newRequest, hget_nil, hget_mergeUri _ _ wc.canonKeys, hget_commonOf, hcf, expHeader, fileVals, seenLines]
    generalize lastOf (valsOf lines n) = l
    cases l <;> rfl
  | jsonline =>
    simp only [buildReq, buildAmmo, mergeJson_eq] at h
    have w := WF_foldl_hset _ wc lines
    rw [enrich_header _ _ _ w.canonKeys h n hn]
    simp only [newRequest, hget_nil, hget_commonOf, hcf, expHeader, fileVals, seenLines]
    generalize lastOf (valsOf lines n) = l
    cases l <;> rfl
  | jsonarr =>
    simp only [buildReq, buildAmmo, mergeJson_eq] at h
    have w := WF_foldl_hset _ wc lines
    rw [enrich_header _ _ _ w.canonKeys h n hn]
    simp only [newRequest, hget_nil, hget_commonOf, hcf, expHeader, fileVals, seenLines]
    generalize lastOf (valsOf lines n) = l
    cases l <;> rfl
  | raw =>
    simp only [buildReq] at h
    rw [enrich_header _ _ _ wc.canonKeys h n hn]
    simp only [readRequest, readRequestWith, hget_hdel_ne _ _ _ hn, hget_foldl_hadd, hget_nil, hcf, expHeader, fileVals, seenLines,
      Option.getD_none, List.nil_append]
    generalize valsOf (List.map (fun kv => (kv.fst, trimHTTP kv.snd)) lines) n = l
    cases l <;> rfl

/-- `req.Host` of the request each format builds -/
theorem host_of_buildReq (f : Format) (conf lines : List (Str × Str)) (e : Entry) (r : Req)
    (h : buildReq f (confHdr conf) lines e = some r) :
    r.host = if urlHost f e ≠ [] then urlHost f e else
      match fileHost f (seenLines f lines) with
      | some v => if v ≠ [] ∨ f ≠ .raw then v else
          (match valsOf conf hostKey with
            | c :: _ => c
            | [] => [])
      | none => match valsOf conf hostKey with
        | c :: _ => c
        | [] => [] := by
  have wc := WF_confHdr conf
  have hcf := hget_confHdr conf hostKey
  cases f with
  | uri =>
    simp only [buildReq, buildAmmo] at h
    have w := WF_mergeUri _ _ (WF_foldl_hset [] WF_nil lines) wc
    rw [enrich_host _ _ _ w (hget_nil _) h]
    simp only [newRequest, splitURL, viaOf, hget_mergeUri _ _ wc.canonKeys, hget_commonOf, hget_nil, hcf, urlHost, urlOf,
      fileHost, seenLines, lastOf_getLast?, reduceCtorEq, decide_false]
    by_cases hu : (splitURLv false e.uri).1 = []
    · cases hg : (valsOf lines hostKey).getLast? with
      | some v => simp [hu]
      | none => cases hc : valsOf conf hostKey <;> simp [hu]
    · simp [hu]
  | uripost =>
    simp only [buildReq, buildAmmo] at h
    have w := WF_mergeUri _ _ (WF_foldl_hset [] WF_nil lines) wc
    rw [enrich_host _ _ _ w (hget_nil _) h]
    simp only [newRequest, splitURL, viaOf, hget_mergeUri _ _ wc.canonKeys, hget_commonOf, hget_nil, hcf, urlHost, urlOf,
      fileHost, seenLines, lastOf_getLast?, reduceCtorEq, decide_false]
    by_cases hu : (splitURLv false e.uri).1 = []
    · cases hg : (valsOf lines hostKey).getLast? with
      | some v => simp [hu]
      | none => cases hc : valsOf conf hostKey <;> simp [hu]
    · simp [hu]
  | jsonline =>
    simp only [buildReq, buildAmmo, mergeJson_eq] at h
    have w := WF_foldl_hset _ wc lines
    rw [enrich_host _ _ _ w (hget_nil _) h]
    simp only [newRequest, splitURL, viaOf, hget_commonOf, hcf, urlHost, urlOf, fileHost, seenLines, lastOf_getLast?,
      reduceCtorEq, decide_false]
    by_cases hu : (splitURLv false (httpPfx ++ (e.host ++ e.uri))).1 = []
    · cases hg : (valsOf lines hostKey).getLast? with
      | some v => simp [hu]
      | none => cases hc : valsOf conf hostKey <;> simp [hu]
    · simp [hu]
  | jsonarr =>
    simp only [buildReq, buildAmmo, mergeJson_eq] at h
    have w := WF_foldl_hset _ wc lines
    rw [enrich_host _ _ _ w (hget_nil _) h]
    simp only [newRequest, splitURL, viaOf, hget_commonOf, hcf, urlHost, urlOf, fileHost, seenLines, lastOf_getLast?,
      reduceCtorEq, decide_false]
    by_cases hu : (splitURLv false (httpPfx ++ (e.host ++ e.uri))).1 = []
    · cases hg : (valsOf lines hostKey).getLast? with
      | some v => simp [hu]
      | none => cases hc : valsOf conf hostKey <;> simp [hu]
    · simp [hu]
  | raw =>
    simp only [buildReq] at h
    rw [enrich_host _ _ _ wc (by simp [readRequest, readRequestWith, hget_hdel_self]) h]
    simp only [readRequest, readRequestWith, viaOf, hget_foldl_hadd, hget_nil, hcf, urlHost, urlOf, fileHost, seenLines,
      Option.getD_none, List.nil_append, decide_true]
    generalize valsOf (List.map (fun kv => (kv.fst, trimHTTP kv.snd)) lines) hostKey = l
    by_cases hu : (splitURLv true e.uri).1 = []
    · cases l with
      | nil => simp [hu]; cases valsOf conf hostKey <;> rfl
      | cons v vs =>
        by_cases hv : v = []
        · simp [hu, hv]; cases valsOf conf hostKey <;> rfl
        · simp [hu, hv]
    · cases l <;> simp [hu]

theorem buildReq_total (f : Format) (conf lines : List (Str × Str)) (e : Entry) :
    ∃ r, buildReq f (confHdr conf) lines e = some r := by
  have wc := WF_confHdr conf
  cases f with
  | uri => exact enrich_no_panic _ _ (WF_mergeUri _ _ (WF_foldl_hset [] WF_nil lines) wc).nonempty
  | uripost => exact enrich_no_panic _ _ (WF_mergeUri _ _ (WF_foldl_hset [] WF_nil lines) wc).nonempty
  | jsonline => exact enrich_no_panic _ _ (WF_foldl_hset _ wc lines).nonempty
  | jsonarr => exact enrich_no_panic _ _ (WF_foldl_hset _ wc lines).nonempty
  | raw => exact enrich_no_panic _ _ wc.nonempty

/-! ## who asks to close the connection -/

theorem enrich_close (r r' : Req) (H : Hdr) (h : enrich r H = some r') : r'.close = r.close := by
  induction H generalizing r with
  | nil => simp [enrich] at h; subst h; rfl
  | cons kv rest ih =>
    obtain ⟨k, vs⟩ := kv
    simp only [enrich] at h
    split at h
    · exact ih r h
    · split at h
      · split at h
        · split at h
          · exact absurd h (by simp)
          · have := ih _ h; simpa using this
        · exact ih r h
      · have := ih _ h; simpa using this

theorem connKey_ne_hostKey : connKey ≠ hostKey := by decide

/-- a request whose entry and option say nothing about `Connection` never asks to close -/
theorem close_of_buildReq (f : Format) (conf lines : List (Str × Str)) (e : Entry) (r : Req)
    (h : buildReq f (confHdr conf) lines e = some r)
    (hn : expHeader f conf (seenLines f lines) connKey = none) : wantsClose r = false := by
  have hh := header_of_buildReq f conf lines e r h connKey connKey_ne_hostKey
  rw [hn] at hh
  simp only [wantsClose, hh, Option.getD_none, hasTok, List.any_nil, Bool.or_false]
  cases f with
  | raw =>
    simp only [buildReq] at h
    rw [enrich_close _ _ _ h]
    have hv : valsOf (lines.map fun kv => (kv.1, trimHTTP kv.2)) connKey = [] := by
      simp only [expHeader, fileVals, seenLines] at hn
      cases hq : valsOf (lines.map fun kv => (kv.1, trimHTTP kv.2)) connKey with
      | nil => rfl
      | cons a t => simp [hq] at hn
    simp only [readRequest, readRequestWith, hget_foldl_hadd, hv, hget_nil, Option.getD_none, decodeClose, goShouldClose,
      hasTok, List.any_nil]
    split <;> simp
  | uri => simp only [buildReq, buildAmmo] at h; rw [enrich_close _ _ _ h]; rfl
  | uripost => simp only [buildReq, buildAmmo] at h; rw [enrich_close _ _ _ h]; rfl
  | jsonline => simp only [buildReq, buildAmmo] at h; rw [enrich_close _ _ _ h]; rfl
  | jsonarr => simp only [buildReq, buildAmmo] at h; rw [enrich_close _ _ _ h]; rfl

end Pandora.Proofs.C09
