/-
C07 — lemmas about the library models of Pandora.Model.C07Base (Cut, Split/Join, TrimSpace, Atoi, …).
-/
import Pandora.Model.C07

namespace Pandora.Proofs.C07
open Pandora.Model.C07


theorem lt128_ne {c x : UInt8} (h : c < 128) (hx : 128 ≤ x) : (c == x) = false := by
  simp only [beq_eq_false_iff_ne, ne_eq]
  rintro rfl
  exact absurd (Nat.lt_of_lt_of_le (UInt8.lt_iff_toNat_lt.mp h) (UInt8.le_iff_toNat_le.mp hx)) (Nat.lt_irrefl _)

theorem cut_append_sep (sep : UInt8) (a b : Bytes) (h : sep ∉ a) : cut sep (a ++ sep :: b) = (a, b, true) := by
  induction a with
  | nil => simp [cut]
  | cons x a ih =>
    simp only [List.mem_cons, not_or] at h
    simp [cut, ih h.2, Ne.symm h.1]

theorem cut_no_sep (sep : UInt8) (a : Bytes) (h : sep ∉ a) : cut sep a = (a, [], false) := by
  induction a with
  | nil => simp [cut]
  | cons x a ih =>
    simp only [List.mem_cons, not_or] at h
    simp [cut, ih h.2, Ne.symm h.1]

theorem splitOn_append_sep (sep : UInt8) (a b : Bytes) (h : sep ∉ a) : splitOn sep (a ++ sep :: b) = a :: splitOn sep b := by
  induction a with
  | nil => simp [splitOn]
  | cons x a ih =>
    simp only [List.mem_cons, not_or] at h
    simp [splitOn, ih h.2, Ne.symm h.1]

theorem splitOn_no_sep (sep : UInt8) (a : Bytes) (h : sep ∉ a) : splitOn sep a = [a] := by
  induction a with
  | nil => simp [splitOn]
  | cons x a ih =>
    simp only [List.mem_cons, not_or] at h
    simp [splitOn, ih h.2, Ne.symm h.1]

theorem splitOn_ne_nil (sep : UInt8) (s : Bytes) : splitOn sep s ≠ [] := by
  induction s with
  | nil => simp [splitOn]
  | cons x a ih =>
    unfold splitOn; split
    · simp
    · split <;> simp

theorem join_splitOn (sep : UInt8) (s : Bytes) : join sep (splitOn sep s) = s := by
  induction s with
  | nil => simp [splitOn, join]
  | cons x a ih =>
    unfold splitOn; split
    · rename_i hx
      cases hs : splitOn sep a with
      | nil => exact absurd hs (splitOn_ne_nil _ _)
      | cons h t => rw [hs] at ih; simp [join, ih, hx]
    · cases hs : splitOn sep a with
      | nil => exact absurd hs (splitOn_ne_nil _ _)
      | cons h t =>
        rw [hs] at ih
        cases t with
        | nil => simp [join] at ih ⊢; exact ih
        | cons t1 t2 => simp [join] at ih ⊢; exact ih


theorem ne_of_lt128 {c : UInt8} (h : c < 128) (x : UInt8) (hx : 128 ≤ x) : c ≠ x := by
  rintro rfl
  exact absurd (Nat.lt_of_lt_of_le (UInt8.lt_iff_toNat_lt.mp h) (UInt8.le_iff_toNat_le.mp hx)) (Nat.lt_irrefl _)

theorem notWs_of_spWidthRev (a : UInt8) (r : Bytes) (h0 : spWidthRev (a :: r) = 0) : isAsciiWs a = false := by
  cases hh : isAsciiWs a with
  | false => rfl
  | true => simp [spWidthRev, hh] at h0

theorem spWidthRev_append (s t : Bytes) (hs : s ≠ []) (h0 : spWidthRev s = 0) (ht : ∀ x ∈ t.head?, x < 128) :
    spWidthRev (s ++ t) = 0 := by
  match s, hs with
  | [a], _ =>
    match t with
    | [] => simpa using h0
    | c :: t2 =>
      have hc : c < 128 := ht c (by simp)
      have hw := notWs_of_spWidthRev a [] h0
      have e1 := ne_of_lt128 hc 194 (by decide)
      have e2 := ne_of_lt128 hc 154 (by decide)
      have e3 := ne_of_lt128 hc 128 (by decide)
      have e4 := ne_of_lt128 hc 129 (by decide)
      cases t2 with
      | nil => simp [spWidthRev, hw, e1]
      | cons d t3 => simp [spWidthRev, hw, e1, e2, e3, e4]
  | [a, b], _ =>
    match t with
    | [] => simpa using h0
    | d :: t2 =>
      have hd : d < 128 := ht d (by simp)
      have hw := notWs_of_spWidthRev a [b] h0
      have e1 := ne_of_lt128 hd 225 (by decide)
      have e2 := ne_of_lt128 hd 226 (by decide)
      have e3 := ne_of_lt128 hd 227 (by decide)
      simp [spWidthRev, hw] at h0 ⊢
      simp [e1, e2, e3]
      exact h0
  | a :: b :: c :: r, _ => simpa [spWidthRev] using h0


theorem ws_lt128 {b : UInt8} (h : isAsciiWs b = true) : b < 128 := by
  simp [isAsciiWs] at h
  rcases h with ((((h|h)|h)|h)|h)|h <;> subst h <;> decide

theorem trimAux_of_zero (w : Bytes → Nat) (s : Bytes) (h : w s = 0) : trimAux w 0 s = s := by
  cases s with
  | nil => rfl
  | cons b r => simp [trimAux, h]

theorem spWidth_ws (b : UInt8) (r : Bytes) (h : isAsciiWs b = true) : spWidth (b :: r) = 1 := by
  simp [spWidth, h]
theorem spWidthRev_ws (b : UInt8) (r : Bytes) (h : isAsciiWs b = true) : spWidthRev (b :: r) = 1 := by
  simp [spWidthRev, h]

theorem trimAux_ws (b : UInt8) (r : Bytes) (h : isAsciiWs b = true) : trimAux spWidth 0 (b :: r) = trimAux spWidth 0 r := by
  simp [trimAux, spWidth_ws b r h]
theorem trimAuxRev_ws (b : UInt8) (r : Bytes) (h : isAsciiWs b = true) : trimAux spWidthRev 0 (b :: r) = trimAux spWidthRev 0 r := by
  simp [trimAux, spWidthRev_ws b r h]

/-! ### white-space runes (ASCII and Unicode) as padding -/

/-- one white-space rune in its UTF-8 encoding -/
inductive WsRune : Bytes → Prop
  | ascii (b : UInt8) (h : isAsciiWs b = true) : WsRune [b]
  | two (c : UInt8) (h : (c == 0x85 || c == 0xA0) = true) : WsRune [0xC2, c]
  | three (b c d : UInt8)
      (h : ((b == 0xE1 && c == 0x9A && d == 0x80) || (b == 0xE2 && c == 0x80 && isE280Sp d)
            || (b == 0xE2 && c == 0x81 && d == 0x9F) || (b == 0xE3 && c == 0x80 && d == 0x80)) = true) :
      WsRune [b, c, d]

/-- a sequence of white-space runes (ASCII blanks, NEL, NBSP, U+1680, U+2000–200A, U+2028/9, U+202F, U+205F, U+3000) -/
inductive allWs : Bytes → Prop
  | nil : allWs []
  | cons (r p : Bytes) (hr : WsRune r) (hp : allWs p) : allWs (r ++ p)

theorem e280_ge {d : UInt8} (h : isE280Sp d = true) : 128 ≤ d := by
  simp only [isE280Sp, Bool.or_eq_true, Bool.and_eq_true, decide_eq_true_eq, beq_iff_eq] at h
  rcases h with ((h | h) | h) | h
  · exact h.1
  · subst h; decide
  · subst h; decide
  · subst h; decide

theorem notWs_of_ge128 {d : UInt8} (h : 128 ≤ d) : isAsciiWs d = false := by
  cases hh : isAsciiWs d with
  | false => rfl
  | true =>
    have := UInt8.lt_iff_toNat_lt.mp (show d < 128 from by
      simp [isAsciiWs] at hh
      rcases hh with ((((h|h)|h)|h)|h)|h <;> subst h <;> decide)
    have := UInt8.le_iff_toNat_le.mp h
    omega

/-- the three-byte white-space runes, one by one -/
theorem ws3_cases {b c d : UInt8}
    (h : ((b == 0xE1 && c == 0x9A && d == 0x80) || (b == 0xE2 && c == 0x80 && isE280Sp d)
          || (b == 0xE2 && c == 0x81 && d == 0x9F) || (b == 0xE3 && c == 0x80 && d == 0x80)) = true) :
    (b = 0xE1 ∧ c = 0x9A ∧ d = 0x80) ∨ (b = 0xE2 ∧ c = 0x80 ∧ isE280Sp d = true) ∨ (b = 0xE2 ∧ c = 0x81 ∧ d = 0x9F)
      ∨ (b = 0xE3 ∧ c = 0x80 ∧ d = 0x80) := by
  simp only [Bool.or_eq_true, Bool.and_eq_true, beq_iff_eq] at h
  rcases h with ((h | h) | h) | h
  · exact Or.inl ⟨h.1.1, h.1.2, h.2⟩
  · exact Or.inr (Or.inl ⟨h.1.1, h.1.2, h.2⟩)
  · exact Or.inr (Or.inr (Or.inl ⟨h.1.1, h.1.2, h.2⟩))
  · exact Or.inr (Or.inr (Or.inr ⟨h.1.1, h.1.2, h.2⟩))

/-- `TrimSpace` from the left steps over one white-space rune -/
theorem trimAux_rune (r s : Bytes) (hr : WsRune r) : trimAux spWidth 0 (r ++ s) = trimAux spWidth 0 s := by
  cases hr with
  | ascii b h => exact trimAux_ws b s h
  | two c h =>
    have hw : spWidth (0xC2 :: c :: s) = 2 := by
      simp [spWidth, isAsciiWs, h]
    show trimAux spWidth 0 (0xC2 :: c :: s) = _
    simp [trimAux, hw]
  | three b c d h =>
    have hw : spWidth (b :: c :: d :: s) = 3 := by
      rcases ws3_cases h with ⟨rfl, rfl, rfl⟩ | ⟨rfl, rfl, hd⟩ | ⟨rfl, rfl, rfl⟩ | ⟨rfl, rfl, rfl⟩
      · simp [spWidth, isAsciiWs]
      · simp [spWidth, isAsciiWs, hd]
      · simp [spWidth, isAsciiWs]
      · simp [spWidth, isAsciiWs]
    show trimAux spWidth 0 (b :: c :: d :: s) = _
    simp [trimAux, hw]

/-- `TrimSpace` from the right steps over one white-space rune (`DecodeLastRune`) -/
theorem trimAuxRev_rune (r s : Bytes) (hr : WsRune r) : trimAux spWidthRev 0 (r.reverse ++ s) = trimAux spWidthRev 0 s := by
  cases hr with
  | ascii b h => exact trimAuxRev_ws b s h
  | two c h =>
    have hw : spWidthRev (c :: 0xC2 :: s) = 2 := by
      simp only [Bool.or_eq_true, beq_iff_eq] at h
      rcases h with rfl | rfl <;> simp [spWidthRev, isAsciiWs]
    show trimAux spWidthRev 0 (c :: 0xC2 :: s) = _
    simp [trimAux, hw]
  | three b c d h =>
    have hw : spWidthRev (d :: c :: b :: s) = 3 := by
      rcases ws3_cases h with ⟨rfl, rfl, rfl⟩ | ⟨rfl, rfl, hd⟩ | ⟨rfl, rfl, rfl⟩ | ⟨rfl, rfl, rfl⟩
      · simp [spWidthRev, isAsciiWs]
      · simp [spWidthRev, notWs_of_ge128 (e280_ge hd), hd]
      · simp [spWidthRev, isAsciiWs]
      · simp [spWidthRev, isAsciiWs]
    show trimAux spWidthRev 0 (d :: c :: b :: s) = _
    simp [trimAux, hw]

theorem trimAux_pad (p s : Bytes) (hp : allWs p) : trimAux spWidth 0 (p ++ s) = trimAux spWidth 0 s := by
  induction hp with
  | nil => rfl
  | cons r p hr _ ih => rw [List.append_assoc, trimAux_rune r _ hr, ih]

/-- from the right: the reversed padding is stepped over rune by rune -/
theorem trimAuxRev_pad (p s : Bytes) (hp : allWs p) : trimAux spWidthRev 0 (p.reverse ++ s) = trimAux spWidthRev 0 s := by
  induction hp generalizing s with
  | nil => rfl
  | cons r p hr _ ih => rw [List.reverse_append, List.append_assoc, ih, trimAuxRev_rune r s hr]

theorem allWs_append {p q : Bytes} (hp : allWs p) (hq : allWs q) : allWs (p ++ q) := by
  induction hp with
  | nil => exact hq
  | cons r p hr _ ih => rw [List.append_assoc]; exact allWs.cons r _ hr ih

theorem allWs_single {b : UInt8} (h : isAsciiWs b = true) : allWs [b] := by
  have := allWs.cons [b] [] (WsRune.ascii b h) allWs.nil
  simpa using this

theorem allWs_LF : allWs [LF] := allWs_single (by decide)

/-- the bytes of a white-space rune: an ASCII blank, or a byte ≥ 0x80 -/
theorem wsRune_bytes {r : Bytes} (hr : WsRune r) : ∀ b ∈ r, isAsciiWs b = true ∨ 128 ≤ b := by
  cases hr with
  | ascii b h => intro x hx; simp at hx; subst hx; exact Or.inl h
  | two c h =>
    intro x hx
    simp only [Bool.or_eq_true, beq_iff_eq] at h
    simp only [List.mem_cons, List.not_mem_nil, or_false] at hx
    rcases hx with rfl | rfl
    · exact Or.inr (by decide)
    · rcases h with rfl | rfl <;> exact Or.inr (by decide)
  | three b c d h =>
    intro x hx
    simp only [List.mem_cons, List.not_mem_nil, or_false] at hx
    rcases ws3_cases h with ⟨rfl, rfl, rfl⟩ | ⟨rfl, rfl, hd⟩ | ⟨rfl, rfl, rfl⟩ | ⟨rfl, rfl, rfl⟩
    · rcases hx with rfl | rfl | rfl <;> exact Or.inr (by decide)
    · rcases hx with rfl | rfl | rfl
      · exact Or.inr (by decide)
      · exact Or.inr (by decide)
      · exact Or.inr (e280_ge hd)
    · rcases hx with rfl | rfl | rfl <;> exact Or.inr (by decide)
    · rcases hx with rfl | rfl | rfl <;> exact Or.inr (by decide)

theorem allWs_bytes {p : Bytes} (hp : allWs p) : ∀ b ∈ p, isAsciiWs b = true ∨ 128 ≤ b := by
  induction hp with
  | nil => intro b hb; simp at hb
  | cons r p hr _ ih =>
    intro b hb
    rcases List.mem_append.mp hb with h | h
    · exact wsRune_bytes hr b h
    · exact ih b h

/-- the first byte of a white-space rune is an ASCII blank or a UTF-8 lead byte: never a continuation byte -/
theorem wsRune_head {r : Bytes} (hr : WsRune r) : ∃ y t, r = y :: t ∧ (y < 128 ∨ 192 ≤ y) := by
  cases hr with
  | ascii b h => exact ⟨b, [], rfl, Or.inl (ws_lt128 h)⟩
  | two c h => exact ⟨0xC2, [c], rfl, Or.inr (by decide)⟩
  | three b c d h =>
    refine ⟨b, [c, d], rfl, Or.inr ?_⟩
    rcases ws3_cases h with ⟨rfl, _⟩ | ⟨rfl, _⟩ | ⟨rfl, _⟩ | ⟨rfl, _⟩ <;> decide

theorem allWs_head {p : Bytes} (hp : allWs p) : ∀ x ∈ p.head?, x < 128 ∨ 192 ≤ x := by
  cases hp with
  | nil => intro x hx; simp at hx
  | cons r p hr _ =>
    obtain ⟨y, t, rfl, hy⟩ := wsRune_head hr
    intro x hx
    simp at hx; subst hx; exact hy

/-- a white-space rune ends in CR only when it IS the CR -/
theorem wsRune_concat_cr {q r : Bytes} (hr : WsRune r) (h : r = q ++ [13]) : q = [] := by
  cases hr with
  | ascii b hb =>
    cases q with
    | nil => rfl
    | cons x t => simp at h
  | two c hc =>
    simp only [Bool.or_eq_true, beq_iff_eq] at hc
    match q, h with
    | [], h => simp at h
    | [x], h =>
      simp at h
      rcases hc with rfl | rfl <;> exact absurd h.2 (by decide)
    | x :: y :: t, h => simp at h
  | three b c d hd3 =>
    match q, h with
    | [], h => simp at h
    | [x], h => simp at h
    | [x, y], h =>
      simp at h
      have hd : d = 13 := h.2.2
      rcases ws3_cases hd3 with ⟨_, _, rfl⟩ | ⟨_, _, he⟩ | ⟨_, _, rfl⟩ | ⟨_, _, rfl⟩
      · exact absurd hd (by decide)
      · subst hd; exact absurd he (by decide)
      · exact absurd hd (by decide)
      · exact absurd hd (by decide)
    | x :: y :: z :: t, h => simp at h

/-- dropping a final CR from padding leaves padding -/
theorem allWs_of_concat_cr {q : Bytes} (h : allWs (q ++ [13])) : allWs q := by
  generalize hp : q ++ [13] = p at h
  induction h generalizing q with
  | nil => simp at hp
  | cons r p hr hpp ih =>
    cases p with
    | nil =>
      simp only [List.append_nil] at hp
      rw [wsRune_concat_cr hr hp.symm]; exact allWs.nil
    | cons x t =>
      -- the last element of `r ++ x :: t` is the last of `x :: t`
      obtain ⟨t', e⟩ : ∃ t', x :: t = t' ++ [13] := by
        have hl : (q ++ [13]).getLast? = (r ++ x :: t).getLast? := by rw [hp]
        rw [List.getLast?_concat, List.getLast?_append] at hl
        have hx : (x :: t).getLast? = some 13 := by
          cases hxt : (x :: t).getLast? with
          | none => simp at hxt
          | some z => rw [hxt] at hl; simpa using hl.symm
        rcases List.eq_nil_or_concat (x :: t) with hn | ⟨t', z, hz⟩
        · simp at hn
        · rw [List.concat_eq_append] at hz
          rw [hz, List.getLast?_concat] at hx
          exact ⟨t', by rw [hz]; simp at hx; rw [hx]⟩
      have hq : q = r ++ t' := by
        rw [e, ← List.append_assoc] at hp
        exact List.append_inj_left' hp rfl
      rw [hq]
      exact allWs.cons r t' hr (ih e.symm)

/-- a following ASCII byte never completes a white-space rune -/
theorem spWidth_append (s t : Bytes) (hs : s ≠ []) (h0 : spWidth s = 0) (ht : ∀ x ∈ t.head?, x < 128) :
    spWidth (s ++ t) = 0 := by
  match s, hs with
  | [a], _ =>
    match t with
    | [] => simpa using h0
    | c :: t2 =>
      have hc : c < 128 := ht c (by simp)
      have hw : isAsciiWs a = false := by
        cases hh : isAsciiWs a with
        | false => rfl
        | true => simp [spWidth, hh] at h0
      cases t2 with
      | nil => simp [spWidth, hw, lt128_ne hc]
      | cons d t3 => simp [spWidth, hw, lt128_ne hc]
  | [a, b], _ =>
    match t with
    | [] => simpa using h0
    | d :: t2 =>
      have hd : d < 128 := ht d (by simp)
      have hw : isAsciiWs a = false := by
        cases hh : isAsciiWs a with
        | false => rfl
        | true => simp [spWidth, hh] at h0
      simp [spWidth, hw] at h0 ⊢
      have hd3 : ¬ (128 : UInt8) ≤ d := UInt8.not_le.mpr hd
      have e1 : d ≠ 128 := fun h => by subst h; exact absurd hd (by decide)
      have e2 : d ≠ 159 := fun h => by subst h; exact absurd hd (by decide)
      simp [lt128_ne hd, isE280Sp, hd3, e1, e2]
      exact h0
  | a :: b :: c :: r, _ => simpa [spWidth] using h0


theorem ge192_ne {x c : UInt8} (hx : 192 ≤ x) (hc : c < 192) : (x == c) = false := by
  cases h : x == c with
  | false => rfl
  | true =>
    have := eq_of_beq h; subst this
    exact absurd (Nat.lt_of_lt_of_le (UInt8.lt_iff_toNat_lt.mp hc) (UInt8.le_iff_toNat_le.mp hx)) (Nat.lt_irrefl _)

theorem ge192_notE280 {x : UInt8} (hx : 192 ≤ x) : isE280Sp x = false := by
  have h := UInt8.le_iff_toNat_le.mp hx
  have h1 : ¬ x ≤ 138 := fun hh => by have := UInt8.le_iff_toNat_le.mp hh; simp at this h; omega
  simp [isE280Sp, h1, ge192_ne hx (c := 168) (by decide), ge192_ne hx (c := 169) (by decide), ge192_ne hx (c := 175) (by decide)]

/-- a following ASCII byte OR UTF-8 lead byte (anything but a continuation byte) never completes a white-space rune -/
theorem spWidth_append' (s t : Bytes) (hs : s ≠ []) (h0 : spWidth s = 0) (ht : ∀ x ∈ t.head?, x < 128 ∨ 192 ≤ x) :
    spWidth (s ++ t) = 0 := by
  cases t with
  | nil => simpa using h0
  | cons y t2 =>
    rcases ht y (by simp) with hy | hy
    · exact spWidth_append s (y :: t2) hs h0 (by intro x hx; simp at hx; subst hx; exact hy)
    · match s, hs with
      | [a], _ =>
        have hw : isAsciiWs a = false := by
          cases hh : isAsciiWs a with
          | false => rfl
          | true => simp [spWidth, hh] at h0
        cases t2 with
        | nil => simp [spWidth, hw, ge192_ne hy (c := 133) (by decide), ge192_ne hy (c := 160) (by decide)]
        | cons d t3 =>
          simp [spWidth, hw, ge192_ne hy (c := 133) (by decide), ge192_ne hy (c := 160) (by decide),
            ge192_ne hy (c := 154) (by decide), ge192_ne hy (c := 128) (by decide), ge192_ne hy (c := 129) (by decide)]
      | [a, b], _ =>
        have hw : isAsciiWs a = false := by
          cases hh : isAsciiWs a with
          | false => rfl
          | true => simp [spWidth, hh] at h0
        have e1 : y ≠ 128 := fun h => by subst h; exact absurd hy (by decide)
        have e2 : y ≠ 159 := fun h => by subst h; exact absurd hy (by decide)
        simp [spWidth, hw] at h0 ⊢
        simp [e1, e2, ge192_notE280 hy]
        exact h0
      | a :: b :: c :: r, _ => simpa [spWidth] using h0

theorem trimLeft_allWs (p : Bytes) (hp : allWs p) : trimLeft p = [] := by
  have := trimAux_pad p [] hp
  simpa [trimLeft, trimAux] using this

/-- `TrimSpace` of padding ++ core ++ padding is the core, when the core has no white-space rune at its ends -/
theorem trimSpace_pad (pre core post : Bytes) (hpre : allWs pre) (hpost : allWs post)
    (h1 : spWidth core = 0) (h2 : spWidthRev core.reverse = 0) :
    trimSpace (pre ++ core ++ post) = core := by
  by_cases hc : core = []
  · subst hc
    have : allWs (pre ++ [] ++ post) := by
      simpa using allWs_append hpre hpost
    rw [trimSpace, trimLeft_allWs _ this]; rfl
  · have hl : trimLeft (pre ++ core ++ post) = core ++ post := by
      unfold trimLeft
      rw [List.append_assoc, trimAux_pad _ _ hpre]
      apply trimAux_of_zero
      exact spWidth_append' _ _ hc h1 (allWs_head hpost)
    unfold trimSpace trimRight
    rw [hl, List.reverse_append, trimAuxRev_pad _ _ hpost,
      trimAux_of_zero _ _ h2, List.reverse_reverse]

theorem trimSpace_allWs (p : Bytes) (hp : allWs p) : trimSpace p = [] := by
  have := trimSpace_pad p [] [] hp allWs.nil rfl rfl
  simpa using this

theorem spWidth_ascii (a : UInt8) (r : Bytes) (ha : a < 128) (hw : isAsciiWs a = false) : spWidth (a :: r) = 0 := by
  have e1 := ne_of_lt128 ha 194 (by decide)
  have e2 := ne_of_lt128 ha 225 (by decide)
  have e3 := ne_of_lt128 ha 226 (by decide)
  have e4 := ne_of_lt128 ha 227 (by decide)
  match r with
  | [] => simp [spWidth, hw]
  | [c] => simp [spWidth, hw, e1]
  | c :: d :: _ => simp [spWidth, hw, e1, e2, e3, e4]

theorem spWidthRev_ascii (a : UInt8) (r : Bytes) (ha : a < 128) (hw : isAsciiWs a = false) : spWidthRev (a :: r) = 0 := by
  have e1 := ne_of_lt128 ha 133 (by decide)
  have e2 := ne_of_lt128 ha 160 (by decide)
  have e3 := ne_of_lt128 ha 128 (by decide)
  have e4 := ne_of_lt128 ha 159 (by decide)
  have e5 : ¬ (128 : UInt8) ≤ a := UInt8.not_le.mpr ha
  have e6 := ne_of_lt128 ha 168 (by decide)
  have e7 := ne_of_lt128 ha 169 (by decide)
  have e8 := ne_of_lt128 ha 175 (by decide)
  match r with
  | [] => simp [spWidthRev, hw]
  | [c] => simp [spWidthRev, hw, e1, e2]
  | c :: d :: _ => simp [spWidthRev, hw, e1, e2, e3, e4, e5, e6, e7, e8, isE280Sp]

/-! dropCR -/

theorem dropCR_concat_cr (s : Bytes) : dropCR (s ++ [13]) = s := by
  simp [dropCR]

theorem dropCR_of_last_ne (s : Bytes) (h : s.getLast? ≠ some 13) : dropCR s = s := by
  unfold dropCR
  split
  · rename_i h'; exact absurd h' h
  · rfl


def digitOf (d : Nat) : UInt8 := (48 + d).toUInt8

theorem digitOf_toNat (d : Nat) (h : d < 10) : (digitOf d).toNat = 48 + d := by
  simp [digitOf, Nat.toUInt8, UInt8.toNat_ofNat']
  omega

theorem digitOf_isDigit (d : Nat) (h : d < 10) : isDigit (digitOf d) = true := by
  have := digitOf_toNat d h
  simp [isDigit, UInt8.le_iff_toNat_le, this]
  omega

theorem digitsVal_concat (l : Bytes) (d : UInt8) : digitsVal (l ++ [d]) = digitsVal l * 10 + (d.toNat - 48) := by
  simp [digitsVal, List.foldl_append]

theorem natToDec_spec (n : Nat) :
    natToDec n ≠ [] ∧ (∀ b ∈ natToDec n, isDigit b = true) ∧ digitsVal (natToDec n) = n := by
  induction n using Nat.strongRecOn with
  | _ n ih =>
    rw [natToDec]
    split
    · rename_i h
      refine ⟨by simp, ?_, ?_⟩
      · intro b hb; rw [List.mem_singleton.mp hb]; exact digitOf_isDigit n h
      · have := digitOf_toNat n h
        simp only [digitOf] at this
        simp only [digitsVal, List.foldl, this]; omega
    · rename_i h
      have ⟨h1, h2, h3⟩ := ih (n / 10) (by omega)
      refine ⟨by simp, ?_, ?_⟩
      · intro b hb
        rcases List.mem_append.mp hb with hb | hb
        · exact h2 b hb
        · rw [List.mem_singleton.mp hb]; exact digitOf_isDigit (n % 10) (by omega)
      · have := digitOf_toNat (n % 10) (by omega)
        simp only [digitOf] at this
        rw [digitsVal_concat, h3, this]; omega

theorem isDigit_props {b : UInt8} (h : isDigit b = true) :
    b < 128 ∧ isAsciiWs b = false ∧ b ≠ LBR ∧ b ≠ SP ∧ b ≠ LF ∧ b ≠ 45 ∧ b ≠ 43 := by
  simp [isDigit, UInt8.le_iff_toNat_le] at h
  have hb : ∀ x : UInt8, x.toNat < 48 ∨ 57 < x.toNat → b ≠ x := by
    intro x hx e; subst e; omega
  refine ⟨?_, ?_, hb _ (by decide), hb _ (by decide), hb _ (by decide), hb _ (by decide), hb _ (by decide)⟩
  · simp [UInt8.lt_iff_toNat_lt]; omega
  · simp [isAsciiWs, hb 9 (by decide), hb 10 (by decide), hb 11 (by decide), hb 12 (by decide), hb 13 (by decide), hb 32 (by decide)]

theorem atoi_natToDec (n : Nat) (hn : n < 9223372036854775808) : atoi (natToDec n) = some (n : Int) := by
  have ⟨h1, h2, h3⟩ := natToDec_spec n
  cases hd : natToDec n with
  | nil => exact absurd hd h1
  | cons b r =>
    have hb := isDigit_props (h2 b (by simp [hd]))
    have hall : (b :: r).all isDigit = true := by
      rw [← hd]; simp only [List.all_eq_true]; exact h2
    rw [hd] at h3
    simp [atoi, hb.2.2.2.2.2.1, hb.2.2.2.2.2.2, atoiUnsigned, hall, h3, hn]


/-! ### the size field: optional `+`, leading zeros, decimal digits -/

def sizeTextT (plus : Bool) (zeros : Nat) (n : Nat) : Bytes :=
  (if plus then [43] else []) ++ (List.replicate zeros 48 ++ natToDec n)

theorem digitsVal_zeros (z : Nat) (ds : Bytes) : digitsVal (List.replicate z 48 ++ ds) = digitsVal ds := by
  have h : ∀ z : Nat, List.foldl (fun a (d : UInt8) => a * 10 + (d.toNat - 48)) 0 (List.replicate z (48 : UInt8)) = 0 := by
    intro z
    induction z with
    | zero => rfl
    | succ k ih => rw [List.replicate_succ', List.foldl_append, ih]; rfl
  simp only [digitsVal, List.foldl_append, h]

theorem atoiUnsigned_digits (ds : Bytes) (hne : ds ≠ []) (hall : ∀ b ∈ ds, isDigit b = true)
    (hv : digitsVal ds < 9223372036854775808) : atoiUnsigned false ds = some (digitsVal ds : Int) := by
  have hall' : ds.all isDigit = true := List.all_eq_true.mpr hall
  have hemp : ds.isEmpty = false := by cases ds with | nil => exact absurd rfl hne | cons _ _ => rfl
  simp [atoiUnsigned, hall', hemp, hv]

theorem atoi_digits (ds : Bytes) (hne : ds ≠ []) (hall : ∀ b ∈ ds, isDigit b = true)
    (hv : digitsVal ds < 9223372036854775808) : atoi ds = some (digitsVal ds : Int) := by
  cases ds with
  | nil => exact absurd rfl hne
  | cons b r =>
    have hb := isDigit_props (hall b (by simp))
    have := atoiUnsigned_digits (b :: r) hne hall hv
    simp only [atoi, hb.2.2.2.2.2.1, hb.2.2.2.2.2.2, if_false]
    exact this

/-- what the decoders need of a size field that denotes `n` -/
structure SizeTok (sz : Bytes) (n : Nat) : Prop where
  noSP : SP ∉ sz
  noLF : LF ∉ sz
  head : ∃ c r, sz = c :: r ∧ c < 128 ∧ isAsciiWs c = false ∧ c ≠ LBR
  revEdge : spWidthRev sz.reverse = 0
  val : atoi sz = some (n : Int)

theorem sizeTextT_tok (plus : Bool) (zeros n : Nat) (hn : n < 9223372036854775808) :
    SizeTok ((if plus then [43] else []) ++ (List.replicate zeros 48 ++ natToDec n)) n := by
  show SizeTok (sizeTextT plus zeros n) n
  have ⟨h1, h2, h3⟩ := natToDec_spec n
  have hdig : ∀ b ∈ List.replicate zeros (48 : UInt8) ++ natToDec n, isDigit b = true := by
    intro b hb
    rcases List.mem_append.mp hb with hb | hb
    · rw [(List.mem_replicate.mp hb).2]; decide
    · exact h2 b hb
  have hne : List.replicate zeros (48 : UInt8) ++ natToDec n ≠ [] := by simp [h1]
  have hval : digitsVal (List.replicate zeros 48 ++ natToDec n) = n := by rw [digitsVal_zeros, h3]
  have hmem : ∀ b ∈ sizeTextT plus zeros n, isDigit b = true ∨ b = 43 := by
    intro b hb
    unfold sizeTextT at hb
    rcases List.mem_append.mp hb with hb | hb
    · cases plus <;> simp at hb; exact Or.inr hb
    · exact Or.inl (hdig b hb)
  have hat : atoi (List.replicate zeros 48 ++ natToDec n) = some (n : Int) := by
    have := atoi_digits _ hne hdig (by rw [hval]; exact hn)
    rw [hval] at this; exact this
  refine ⟨?_, ?_, ?_, ?_, ?_⟩
  · intro hm; rcases hmem _ hm with h | h
    · exact (isDigit_props h).2.2.2.1 rfl
    · exact absurd h (by decide)
  · intro hm; rcases hmem _ hm with h | h
    · exact (isDigit_props h).2.2.2.2.1 rfl
    · exact absurd h (by decide)
  · cases plus with
    | true => exact ⟨43, _, rfl, by decide, by decide, by decide⟩
    | false =>
      cases hd : List.replicate zeros (48 : UInt8) ++ natToDec n with
      | nil => exact absurd hd hne
      | cons c r =>
        have hp := isDigit_props (hdig c (by simp [hd]))
        exact ⟨c, r, by simp [sizeTextT, hd], hp.1, hp.2.1, hp.2.2.1⟩
  · -- the last byte is the last digit of natToDec n
    have hr : (sizeTextT plus zeros n).reverse = (natToDec n).reverse ++ ((List.replicate zeros (48 : UInt8)).reverse ++ (if plus then [43] else []).reverse) := by
      simp [sizeTextT]
    rw [hr]
    cases hd : (natToDec n).reverse with
    | nil => simp at hd; exact absurd hd h1
    | cons x r =>
      have hx : x ∈ natToDec n := by
        have : x ∈ (natToDec n).reverse := by rw [hd]; simp
        simpa using this
      have hp := isDigit_props (h2 x hx)
      exact spWidthRev_ascii x _ hp.1 hp.2.1
  · cases plus with
    | true =>
      have : sizeTextT true zeros n = 43 :: (List.replicate zeros 48 ++ natToDec n) := rfl
      rw [this]
      have hu := atoiUnsigned_digits _ hne hdig (by rw [hval]; exact hn)
      rw [hval] at hu
      simp only [atoi]
      exact hu
    | false =>
      have : sizeTextT false zeros n = List.replicate zeros 48 ++ natToDec n := rfl
      rw [this]; exact hat

theorem sizeText_tok (l : ItemLay) (n : Nat) (hn : sizeOK n = true) : SizeTok (sizeText l n) n := by
  simp only [sizeOK, decide_eq_true_eq] at hn
  exact sizeTextT_tok l.szPlus l.szZeros n hn

/-- a string with a white-space rune at its head splits into that rune and the rest -/
theorem spWidth_split (b : UInt8) (r : Bytes) (h : spWidth (b :: r) ≠ 0) :
    ∃ rune, WsRune rune ∧ b :: r = rune ++ (b :: r).drop (spWidth (b :: r)) := by
  by_cases hb : isAsciiWs b = true
  · refine ⟨[b], WsRune.ascii b hb, ?_⟩
    simp [spWidth, hb]
  · have hb' : isAsciiWs b = false := by simpa using hb
    match r with
    | [] => simp [spWidth, hb'] at h
    | [c] =>
      by_cases h2 : (b == 0xC2 && (c == 0x85 || c == 0xA0)) = true
      · simp only [Bool.and_eq_true, beq_iff_eq] at h2
        obtain ⟨rfl, hc⟩ := h2
        exact ⟨[0xC2, c], WsRune.two c hc, by simp [spWidth, isAsciiWs, hc]⟩
      · simp [spWidth, hb', h2] at h
    | c :: d :: r2 =>
      by_cases h2 : (b == 0xC2 && (c == 0x85 || c == 0xA0)) = true
      · simp only [Bool.and_eq_true, beq_iff_eq] at h2
        obtain ⟨rfl, hc⟩ := h2
        exact ⟨[0xC2, c], WsRune.two c hc, by simp [spWidth, isAsciiWs, hc]⟩
      · by_cases h3 : ((b == 0xE1 && c == 0x9A && d == 0x80) || (b == 0xE2 && c == 0x80 && isE280Sp d)
            || (b == 0xE2 && c == 0x81 && d == 0x9F) || (b == 0xE3 && c == 0x80 && d == 0x80)) = true
        · refine ⟨[b, c, d], WsRune.three b c d h3, ?_⟩
          have hw : spWidth (b :: c :: d :: r2) = 3 := by
            simp only [spWidth, hb', Bool.false_eq_true, if_false, h2, h3, if_true]
          rw [hw]; rfl
        · have hw : spWidth (b :: c :: d :: r2) = 0 := by
            simp only [spWidth, hb', Bool.false_eq_true, if_false, h2, h3]
          exact absurd hw h

theorem wsRunesAux_allWs : ∀ (n : Nat) (p : Bytes), wsRunesAux n p = true → allWs p
  | _, [], _ => allWs.nil
  | 0, _ :: _, h => by simp [wsRunesAux] at h
  | n + 1, b :: r, h => by
    simp only [wsRunesAux, Bool.and_eq_true, bne_iff_ne, ne_eq] at h
    obtain ⟨rune, hr, he⟩ := spWidth_split b r h.1
    rw [he]
    exact allWs.cons rune _ hr (wsRunesAux_allWs n _ h.2)

theorem padOK_allWs {p : Bytes} (h : padOK p = true) : allWs p := by
  simp only [padOK, Bool.and_eq_true] at h
  exact wsRunesAux_allWs _ _ h.1

theorem padOK_noLF {p : Bytes} (h : padOK p = true) : LF ∉ p := by
  simp only [padOK, Bool.and_eq_true, Bool.not_eq_true', List.contains_eq_mem, decide_eq_false_iff_not] at h
  exact h.2

theorem ws_ne_colon {b : UInt8} (h : isAsciiWs b = true) : b ≠ COLON := by
  intro e; subst e; simp [isAsciiWs, COLON] at h

theorem padOK_noColon {p : Bytes} (h : padOK p = true) : COLON ∉ p := by
  intro hb
  rcases allWs_bytes (padOK_allWs h) _ hb with h1 | h1
  · exact ws_ne_colon h1 rfl
  · exact absurd h1 (by decide)

theorem noLF_iff (s : Bytes) : noLF s = true ↔ LF ∉ s := by simp [noLF]

/-- `util.DecodeHeader` reads back a rendered header line -/
theorem decodeHeader_render (k v i1 i2 i3 i4 : Bytes) (hk : hdrKeyOK k = true) (hv : hdrValOK v = true)
    (h1 : padOK i1 = true) (h2 : padOK i2 = true) (h3 : padOK i3 = true) (h4 : padOK i4 = true) :
    decodeHeader (LBR :: (i1 ++ k ++ i2 ++ COLON :: (i3 ++ v ++ i4 ++ [RBR]))) = .ok (k, v) := by
  simp only [hdrKeyOK, hdrValOK, edgesOK, Bool.and_eq_true, beq_iff_eq, Bool.not_eq_true', noLF] at hk hv
  obtain ⟨⟨⟨hk1, hk2⟩, hk3⟩, hk4, hk5⟩ := hk
  obtain ⟨hv2, hv4, hv5⟩ := hv
  have hcut : cut COLON ((LBR :: (i1 ++ k ++ i2 ++ COLON :: (i3 ++ v ++ i4 ++ [RBR]))).drop 1).dropLast
      = (i1 ++ k ++ i2, i3 ++ v ++ i4, true) := by
    have : ((LBR :: (i1 ++ k ++ i2 ++ COLON :: (i3 ++ v ++ i4 ++ [RBR]))).drop 1).dropLast
        = (i1 ++ k ++ i2) ++ COLON :: (i3 ++ v ++ i4) := by
      simp only [List.drop_one, List.tail_cons]
      rw [show i1 ++ k ++ i2 ++ COLON :: (i3 ++ v ++ i4 ++ [RBR]) = (i1 ++ k ++ i2 ++ COLON :: (i3 ++ v ++ i4)) ++ [RBR] by simp]
      exact List.dropLast_concat
    rw [this]
    apply cut_append_sep
    intro hm
    rcases List.mem_append.mp hm with hm | hm
    · rcases List.mem_append.mp hm with hm | hm
      · exact padOK_noColon h1 hm
      · simp at hk3; exact hk3 hm
    · exact padOK_noColon h2 hm
  unfold decodeHeader
  have hlast : (LBR :: (i1 ++ k ++ i2 ++ COLON :: (i3 ++ v ++ i4 ++ [RBR]))).getLast? = some RBR := by
    rw [show LBR :: (i1 ++ k ++ i2 ++ COLON :: (i3 ++ v ++ i4 ++ [RBR])) = (LBR :: (i1 ++ k ++ i2 ++ COLON :: (i3 ++ v ++ i4))) ++ [RBR] by simp]
    exact List.getLast?_concat
  have tk : trimSpace (i1 ++ k ++ i2) = k := trimSpace_pad i1 k i2 (padOK_allWs h1) (padOK_allWs h2) hk4 hk5
  have tv : trimSpace (i3 ++ v ++ i4) = v := trimSpace_pad i3 v i4 (padOK_allWs h3) (padOK_allWs h4) hv4 hv5
  rw [hcut]
  simp only [hlast, tk, tv]
  simp [hk1]
  omega

end Pandora.Proofs.C07
