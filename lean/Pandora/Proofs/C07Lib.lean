/-
C07 — lemmas about the library models of Pandora.Model.C07Base (Cut, Split/Join, TrimSpace, Atoi, …).
-/
import Pandora.Model.C07

namespace Pandora.Proofs.C07
open Pandora.Model.C07


theorem lt128_ne {c x : UInt8} (h : c < 128) (hx : 128 ≤ x) : (c == x) = false := by
  simp only [beq_eq_false_iff_ne, ne_eq]
  rintro rfl
  exact absurd (Nat.lt_of_lt_of_le (UInt8.lt_iff_toNat_lt.mp h) (UInt8.le_iff_toNat_le.mp hx)) (Nat.lt_irrefl _)

theorem cut_append_sep (sep : UInt8) (a b : Bytes) (h : sep ∉ a) : cut sep (a ++ sep :: b) = (a, b, true) := by
  induction a with
  | nil => simp [cut]
  | cons x a ih =>
    simp only [List.mem_cons, not_or] at h
    simp [cut, ih h.2, Ne.symm h.1]

theorem cut_no_sep (sep : UInt8) (a : Bytes) (h : sep ∉ a) : cut sep a = (a, [], false) := by
  induction a with
  | nil => simp [cut]
  | cons x a ih =>
    simp only [List.mem_cons, not_or] at h
    simp [cut, ih h.2, Ne.symm h.1]

theorem splitOn_append_sep (sep : UInt8) (a b : Bytes) (h : sep ∉ a) : splitOn sep (a ++ sep :: b) = a :: splitOn sep b := by
  induction a with
  | nil => simp [splitOn]
  | cons x a ih =>
    simp only [List.mem_cons, not_or] at h
    simp [splitOn, ih h.2, Ne.symm h.1]

theorem splitOn_no_sep (sep : UInt8) (a : Bytes) (h : sep ∉ a) : splitOn sep a = [a] := by
  induction a with
  | nil => simp [splitOn]
  | cons x a ih =>
    simp only [List.mem_cons, not_or] at h
    simp [splitOn, ih h.2, Ne.symm h.1]

theorem splitOn_ne_nil (sep : UInt8) (s : Bytes) : splitOn sep s ≠ [] := by
  induction s with
  | nil => simp [splitOn]
  | cons x a ih =>
    unfold splitOn; split
    · simp
    · split <;> simp

theorem join_splitOn (sep : UInt8) (s : Bytes) : join sep (splitOn sep s) = s := by
  induction s with
  | nil => simp [splitOn, join]
  | cons x a ih =>
    unfold splitOn; split
    · rename_i hx
      cases hs : splitOn sep a with
      | nil => exact absurd hs (splitOn_ne_nil _ _)
      | cons h t => rw [hs] at ih; simp [join, ih, hx]
    · cases hs : splitOn sep a with
      | nil => exact absurd hs (splitOn_ne_nil _ _)
      | cons h t =>
        rw [hs] at ih
        cases t with
        | nil => simp [join] at ih ⊢; exact ih
        | cons t1 t2 => simp [join] at ih ⊢; exact ih


theorem ne_of_lt128 {c : UInt8} (h : c < 128) (x : UInt8) (hx : 128 ≤ x) : c ≠ x := by
  rintro rfl
  exact absurd (Nat.lt_of_lt_of_le (UInt8.lt_iff_toNat_lt.mp h) (UInt8.le_iff_toNat_le.mp hx)) (Nat.lt_irrefl _)

theorem notWs_of_spWidthRev (a : UInt8) (r : Bytes) (h0 : spWidthRev (a :: r) = 0) : isAsciiWs a = false := by
  cases hh : isAsciiWs a with
  | false => rfl
  | true => simp [spWidthRev, hh] at h0

theorem spWidthRev_append (s t : Bytes) (hs : s ≠ []) (h0 : spWidthRev s = 0) (ht : ∀ x ∈ t.head?, x < 128) :
    spWidthRev (s ++ t) = 0 := by
  match s, hs with
  | [a], _ =>
    match t with
    | [] => simpa using h0
    | c :: t2 =>
      have hc : c < 128 := ht c (by simp)
      have hw := notWs_of_spWidthRev a [] h0
      have e1 := ne_of_lt128 hc 194 (by decide)
      have e2 := ne_of_lt128 hc 154 (by decide)
      have e3 := ne_of_lt128 hc 128 (by decide)
      have e4 := ne_of_lt128 hc 129 (by decide)
      cases t2 with
      | nil => simp [spWidthRev, hw, e1]
      | cons d t3 => simp [spWidthRev, hw, e1, e2, e3, e4]
  | [a, b], _ =>
    match t with
    | [] => simpa using h0
    | d :: t2 =>
      have hd : d < 128 := ht d (by simp)
      have hw := notWs_of_spWidthRev a [b] h0
      have e1 := ne_of_lt128 hd 225 (by decide)
      have e2 := ne_of_lt128 hd 226 (by decide)
      have e3 := ne_of_lt128 hd 227 (by decide)
      simp [spWidthRev, hw] at h0 ⊢
      simp [e1, e2, e3]
      exact h0
  | a :: b :: c :: r, _ => simpa [spWidthRev] using h0


theorem ws_lt128 {b : UInt8} (h : isAsciiWs b = true) : b < 128 := by
  simp [isAsciiWs] at h
  rcases h with ((((h|h)|h)|h)|h)|h <;> subst h <;> decide

theorem trimAux_of_zero (w : Bytes → Nat) (s : Bytes) (h : w s = 0) : trimAux w 0 s = s := by
  cases s with
  | nil => rfl
  | cons b r => simp [trimAux, h]

theorem spWidth_ws (b : UInt8) (r : Bytes) (h : isAsciiWs b = true) : spWidth (b :: r) = 1 := by
  simp [spWidth, h]
theorem spWidthRev_ws (b : UInt8) (r : Bytes) (h : isAsciiWs b = true) : spWidthRev (b :: r) = 1 := by
  simp [spWidthRev, h]

theorem trimAux_ws (b : UInt8) (r : Bytes) (h : isAsciiWs b = true) : trimAux spWidth 0 (b :: r) = trimAux spWidth 0 r := by
  simp [trimAux, spWidth_ws b r h]
theorem trimAuxRev_ws (b : UInt8) (r : Bytes) (h : isAsciiWs b = true) : trimAux spWidthRev 0 (b :: r) = trimAux spWidthRev 0 r := by
  simp [trimAux, spWidthRev_ws b r h]

/-- all bytes ASCII white space -/
def allWs (p : Bytes) : Prop := ∀ b ∈ p, isAsciiWs b = true

theorem trimAux_pad (p s : Bytes) (hp : allWs p) : trimAux spWidth 0 (p ++ s) = trimAux spWidth 0 s := by
  induction p with
  | nil => rfl
  | cons b r ih =>
    have hb := hp b (by simp)
    rw [List.cons_append, trimAux_ws _ _ hb]
    exact ih (fun x hx => hp x (by simp [hx]))
theorem trimAuxRev_pad (p s : Bytes) (hp : allWs p) : trimAux spWidthRev 0 (p ++ s) = trimAux spWidthRev 0 s := by
  induction p with
  | nil => rfl
  | cons b r ih =>
    have hb := hp b (by simp)
    rw [List.cons_append, trimAuxRev_ws _ _ hb]
    exact ih (fun x hx => hp x (by simp [hx]))

/-- a following ASCII byte never completes a white-space rune -/
theorem spWidth_append (s t : Bytes) (hs : s ≠ []) (h0 : spWidth s = 0) (ht : ∀ x ∈ t.head?, x < 128) :
    spWidth (s ++ t) = 0 := by
  match s, hs with
  | [a], _ =>
    match t with
    | [] => simpa using h0
    | c :: t2 =>
      have hc : c < 128 := ht c (by simp)
      have hw : isAsciiWs a = false := by
        cases hh : isAsciiWs a with
        | false => rfl
        | true => simp [spWidth, hh] at h0
      cases t2 with
      | nil => simp [spWidth, hw, lt128_ne hc]
      | cons d t3 => simp [spWidth, hw, lt128_ne hc]
  | [a, b], _ =>
    match t with
    | [] => simpa using h0
    | d :: t2 =>
      have hd : d < 128 := ht d (by simp)
      have hw : isAsciiWs a = false := by
        cases hh : isAsciiWs a with
        | false => rfl
        | true => simp [spWidth, hh] at h0
      simp [spWidth, hw] at h0 ⊢
      have hd3 : ¬ (128 : UInt8) ≤ d := UInt8.not_le.mpr hd
      have e1 : d ≠ 128 := fun h => by subst h; exact absurd hd (by decide)
      have e2 : d ≠ 159 := fun h => by subst h; exact absurd hd (by decide)
      simp [lt128_ne hd, isE280Sp, hd3, e1, e2]
      exact h0
  | a :: b :: c :: r, _ => simpa [spWidth] using h0


theorem trimLeft_allWs (p : Bytes) (hp : allWs p) : trimLeft p = [] := by
  have := trimAux_pad p [] hp
  simpa [trimLeft, trimAux] using this

/-- `TrimSpace` of padding ++ core ++ padding is the core, when the core has no white-space rune at its ends -/
theorem trimSpace_pad (pre core post : Bytes) (hpre : allWs pre) (hpost : allWs post)
    (h1 : spWidth core = 0) (h2 : spWidthRev core.reverse = 0) :
    trimSpace (pre ++ core ++ post) = core := by
  by_cases hc : core = []
  · subst hc
    have : allWs (pre ++ [] ++ post) := by
      intro b hb; simp at hb; rcases hb with hb | hb
      · exact hpre b hb
      · exact hpost b hb
    rw [trimSpace, trimLeft_allWs _ this]; rfl
  · have hl : trimLeft (pre ++ core ++ post) = core ++ post := by
      unfold trimLeft
      rw [List.append_assoc, trimAux_pad _ _ hpre]
      apply trimAux_of_zero
      apply spWidth_append _ _ hc h1
      intro x hx
      cases post with
      | nil => simp at hx
      | cons y r => simp at hx; subst hx; exact ws_lt128 (hpost _ (by simp))
    unfold trimSpace trimRight
    rw [hl, List.reverse_append, trimAuxRev_pad _ _ (by intro b hb; exact hpost b (by simpa using hb)),
      trimAux_of_zero _ _ h2, List.reverse_reverse]

theorem trimSpace_allWs (p : Bytes) (hp : allWs p) : trimSpace p = [] := by
  have := trimSpace_pad p [] [] hp (by intro b hb; simp at hb) rfl rfl
  simpa using this

theorem spWidth_ascii (a : UInt8) (r : Bytes) (ha : a < 128) (hw : isAsciiWs a = false) : spWidth (a :: r) = 0 := by
  have e1 := ne_of_lt128 ha 194 (by decide)
  have e2 := ne_of_lt128 ha 225 (by decide)
  have e3 := ne_of_lt128 ha 226 (by decide)
  have e4 := ne_of_lt128 ha 227 (by decide)
  match r with
  | [] => simp [spWidth, hw]
  | [c] => simp [spWidth, hw, e1]
  | c :: d :: _ => simp [spWidth, hw, e1, e2, e3, e4]

theorem spWidthRev_ascii (a : UInt8) (r : Bytes) (ha : a < 128) (hw : isAsciiWs a = false) : spWidthRev (a :: r) = 0 := by
  have e1 := ne_of_lt128 ha 133 (by decide)
  have e2 := ne_of_lt128 ha 160 (by decide)
  have e3 := ne_of_lt128 ha 128 (by decide)
  have e4 := ne_of_lt128 ha 159 (by decide)
  have e5 : ¬ (128 : UInt8) ≤ a := UInt8.not_le.mpr ha
  have e6 := ne_of_lt128 ha 168 (by decide)
  have e7 := ne_of_lt128 ha 169 (by decide)
  have e8 := ne_of_lt128 ha 175 (by decide)
  match r with
  | [] => simp [spWidthRev, hw]
  | [c] => simp [spWidthRev, hw, e1, e2]
  | c :: d :: _ => simp [spWidthRev, hw, e1, e2, e3, e4, e5, e6, e7, e8, isE280Sp]

/-! dropCR -/

theorem dropCR_concat_cr (s : Bytes) : dropCR (s ++ [13]) = s := by
  simp [dropCR]

theorem dropCR_of_last_ne (s : Bytes) (h : s.getLast? ≠ some 13) : dropCR s = s := by
  unfold dropCR
  split
  · rename_i h'; exact absurd h' h
  · rfl


def digitOf (d : Nat) : UInt8 := (48 + d).toUInt8

theorem digitOf_toNat (d : Nat) (h : d < 10) : (digitOf d).toNat = 48 + d := by
  simp [digitOf, Nat.toUInt8, UInt8.toNat_ofNat']
  omega

theorem digitOf_isDigit (d : Nat) (h : d < 10) : isDigit (digitOf d) = true := by
  have := digitOf_toNat d h
  simp [isDigit, UInt8.le_iff_toNat_le, this]
  omega

theorem digitsVal_concat (l : Bytes) (d : UInt8) : digitsVal (l ++ [d]) = digitsVal l * 10 + (d.toNat - 48) := by
  simp [digitsVal, List.foldl_append]

theorem natToDec_spec (n : Nat) :
    natToDec n ≠ [] ∧ (∀ b ∈ natToDec n, isDigit b = true) ∧ digitsVal (natToDec n) = n := by
  induction n using Nat.strongRecOn with
  | _ n ih =>
    rw [natToDec]
    split
    · rename_i h
      refine ⟨by simp, ?_, ?_⟩
      · intro b hb; rw [List.mem_singleton.mp hb]; exact digitOf_isDigit n h
      · have := digitOf_toNat n h
        simp only [digitOf] at this
        simp only [digitsVal, List.foldl, this]; omega
    · rename_i h
      have ⟨h1, h2, h3⟩ := ih (n / 10) (by omega)
      refine ⟨by simp, ?_, ?_⟩
      · intro b hb
        rcases List.mem_append.mp hb with hb | hb
        · exact h2 b hb
        · rw [List.mem_singleton.mp hb]; exact digitOf_isDigit (n % 10) (by omega)
      · have := digitOf_toNat (n % 10) (by omega)
        simp only [digitOf] at this
        rw [digitsVal_concat, h3, this]; omega

theorem isDigit_props {b : UInt8} (h : isDigit b = true) :
    b < 128 ∧ isAsciiWs b = false ∧ b ≠ LBR ∧ b ≠ SP ∧ b ≠ LF ∧ b ≠ 45 ∧ b ≠ 43 := by
  simp [isDigit, UInt8.le_iff_toNat_le] at h
  have hb : ∀ x : UInt8, x.toNat < 48 ∨ 57 < x.toNat → b ≠ x := by
    intro x hx e; subst e; omega
  refine ⟨?_, ?_, hb _ (by decide), hb _ (by decide), hb _ (by decide), hb _ (by decide), hb _ (by decide)⟩
  · simp [UInt8.lt_iff_toNat_lt]; omega
  · simp [isAsciiWs, hb 9 (by decide), hb 10 (by decide), hb 11 (by decide), hb 12 (by decide), hb 13 (by decide), hb 32 (by decide)]

theorem atoi_natToDec (n : Nat) (hn : n < 9223372036854775808) : atoi (natToDec n) = some (n : Int) := by
  have ⟨h1, h2, h3⟩ := natToDec_spec n
  cases hd : natToDec n with
  | nil => exact absurd hd h1
  | cons b r =>
    have hb := isDigit_props (h2 b (by simp [hd]))
    have hall : (b :: r).all isDigit = true := by
      rw [← hd]; simp only [List.all_eq_true]; exact h2
    rw [hd] at h3
    simp [atoi, hb.2.2.2.2.2.1, hb.2.2.2.2.2.2, atoiUnsigned, hall, h3, hn]


theorem padOK_iff (p : Bytes) : padOK p = true ↔ ∀ b ∈ p, isAsciiWs b = true ∧ b ≠ LF := by
  simp [padOK]

theorem padOK_allWs {p : Bytes} (h : padOK p = true) : allWs p := fun b hb => ((padOK_iff p).mp h b hb).1

theorem padOK_noLF {p : Bytes} (h : padOK p = true) : LF ∉ p := fun hb => ((padOK_iff p).mp h _ hb).2 rfl

theorem ws_ne_colon {b : UInt8} (h : isAsciiWs b = true) : b ≠ COLON := by
  intro e; subst e; simp [isAsciiWs, COLON] at h

theorem padOK_noColon {p : Bytes} (h : padOK p = true) : COLON ∉ p := fun hb => ws_ne_colon (((padOK_iff p).mp h _ hb).1) rfl

theorem allWs_append {p q : Bytes} (hp : allWs p) (hq : allWs q) : allWs (p ++ q) := by
  intro b hb; rcases List.mem_append.mp hb with h | h
  · exact hp b h
  · exact hq b h

theorem allWs_LF : allWs [LF] := by intro b hb; rw [List.mem_singleton.mp hb]; rfl

theorem noLF_iff (s : Bytes) : noLF s = true ↔ LF ∉ s := by simp [noLF]

/-- `util.DecodeHeader` reads back a rendered header line -/
theorem decodeHeader_render (k v i1 i2 i3 i4 : Bytes) (hk : hdrKeyOK k = true) (hv : hdrValOK v = true)
    (h1 : padOK i1 = true) (h2 : padOK i2 = true) (h3 : padOK i3 = true) (h4 : padOK i4 = true) :
    decodeHeader (LBR :: (i1 ++ k ++ i2 ++ COLON :: (i3 ++ v ++ i4 ++ [RBR]))) = .ok (k, v) := by
  simp only [hdrKeyOK, hdrValOK, edgesOK, Bool.and_eq_true, beq_iff_eq, Bool.not_eq_true', noLF] at hk hv
  obtain ⟨⟨⟨hk1, hk2⟩, hk3⟩, hk4, hk5⟩ := hk
  obtain ⟨hv2, hv4, hv5⟩ := hv
  have hcut : cut COLON ((LBR :: (i1 ++ k ++ i2 ++ COLON :: (i3 ++ v ++ i4 ++ [RBR]))).drop 1).dropLast
      = (i1 ++ k ++ i2, i3 ++ v ++ i4, true) := by
    have : ((LBR :: (i1 ++ k ++ i2 ++ COLON :: (i3 ++ v ++ i4 ++ [RBR]))).drop 1).dropLast
        = (i1 ++ k ++ i2) ++ COLON :: (i3 ++ v ++ i4) := by
      simp only [List.drop_one, List.tail_cons]
      rw [show i1 ++ k ++ i2 ++ COLON :: (i3 ++ v ++ i4 ++ [RBR]) = (i1 ++ k ++ i2 ++ COLON :: (i3 ++ v ++ i4)) ++ [RBR] by simp]
      exact List.dropLast_concat
    rw [this]
    apply cut_append_sep
    intro hm
    rcases List.mem_append.mp hm with hm | hm
    · rcases List.mem_append.mp hm with hm | hm
      · exact padOK_noColon h1 hm
      · simp at hk3; exact hk3 hm
    · exact padOK_noColon h2 hm
  unfold decodeHeader
  have hlast : (LBR :: (i1 ++ k ++ i2 ++ COLON :: (i3 ++ v ++ i4 ++ [RBR]))).getLast? = some RBR := by
    rw [show LBR :: (i1 ++ k ++ i2 ++ COLON :: (i3 ++ v ++ i4 ++ [RBR])) = (LBR :: (i1 ++ k ++ i2 ++ COLON :: (i3 ++ v ++ i4))) ++ [RBR] by simp]
    exact List.getLast?_concat
  have tk : trimSpace (i1 ++ k ++ i2) = k := trimSpace_pad i1 k i2 (padOK_allWs h1) (padOK_allWs h2) hk4 hk5
  have tv : trimSpace (i3 ++ v ++ i4) = v := trimSpace_pad i3 v i4 (padOK_allWs h3) (padOK_allWs h4) hv4 hv5
  rw [hcut]
  simp only [hlast, tk, tv]
  simp [hk1]
  omega

end Pandora.Proofs.C07
