/-
C20 — round 6 helper lemmas: the expansion of a scenario's `requests` list (`Model/C20Expand.lean`).
-/
import Pandora.Model.C20Expand

namespace Pandora.Proofs.C20R6Expand
open Pandora.Model.C20

theorem addSleepLast_names : ∀ (l : List (String × Int)) (ms : Int), (addSleepLast l ms).map (·.1) = l.map (·.1)
  | [], _ => rfl
  | [x], _ => rfl
  | x :: y :: rest, ms => by
    simp only [addSleepLast, List.map_cons]
    have := addSleepLast_names (y :: rest) ms
    simp only [List.map_cons] at this
    rw [this]

theorem addSleepLast_length (l : List (String × Int)) (ms : Int) : (addSleepLast l ms).length = l.length := by
  have := congrArg List.length (addSleepLast_names l ms)
  simpa using this

theorem expandSpec_cons_sleep (sh : Shoot) (rest : List Shoot) (h : (sh.name == "sleep") = true) :
    expandSpec (sh :: rest) = expandSpec rest := by
  have h' : sh.name = "sleep" := by simpa using h
  simp [expandSpec, List.filter_cons, h']

theorem expandSpec_cons_call (sh : Shoot) (rest : List Shoot) (h : (sh.name == "sleep") = false) :
    expandSpec (sh :: rest) = List.replicate sh.cnt.toNat sh.name ++ expandSpec rest := by
  have h' : ¬ sh.name = "sleep" := by simpa using h
  simp [expandSpec, List.filter_cons, h']

/-- whenever the expansion succeeds: the steps are, in order, the steps so far followed by every non-pause entry's name
`count` times; there are at most `MaxScenarioRequests` of them; and every new name is one the registry holds -/
theorem expandReqs_ok (known : String → Bool) : ∀ (reqs : List Shoot) (acc out : List (String × Int)),
    expandReqs known reqs acc = .ok out → acc.length ≤ maxScenarioRequests →
      out.map (·.1) = acc.map (·.1) ++ expandSpec reqs ∧ out.length ≤ maxScenarioRequests ∧
      (∀ n ∈ expandSpec reqs, known n = true)
  | [], acc, out, h, hl => by
    simp only [expandReqs, Except.ok.injEq] at h
    subst h
    simp [expandSpec, hl]
  | sh :: rest, acc, out, h, hl => by
    unfold expandReqs at h
    by_cases hs : (sh.name == "sleep") = true
    · simp only [hs, if_true] at h
      by_cases he : acc.isEmpty = true
      · simp [he] at h
      · simp only [he, Bool.false_eq_true, if_false] at h
        obtain ⟨h1, h2, h3⟩ := expandReqs_ok known rest (addSleepLast acc sh.cnt) out h (by rw [addSleepLast_length]; exact hl)
        rw [expandSpec_cons_sleep sh rest hs]
        exact ⟨by rw [h1, addSleepLast_names], h2, h3⟩
    · have hs' : (sh.name == "sleep") = false := by simpa using hs
      simp only [hs', Bool.false_eq_true, if_false] at h
      by_cases hk : known sh.name = true
      · simp only [hk, Bool.not_true, Bool.false_eq_true, if_false] at h
        by_cases hm : sh.cnt > (maxScenarioRequests : Int) - acc.length
        · simp [hm] at h
        · simp only [hm, if_false] at h
          have hlen : (acc ++ List.replicate sh.cnt.toNat (sh.name, if sh.sleep > 0 then sh.sleep else 0)).length ≤ maxScenarioRequests := by
            simp only [List.length_append, List.length_replicate]
            omega
          obtain ⟨h1, h2, h3⟩ := expandReqs_ok known rest _ out h hlen
          rw [expandSpec_cons_call sh rest hs']
          refine ⟨?_, h2, ?_⟩
          · rw [h1]; simp [List.map_replicate]
          · intro n hn
            simp only [List.mem_append, List.mem_replicate] at hn
            rcases hn with ⟨_, rfl⟩ | hn
            · exact hk
            · exact h3 n hn
      · have hk' : known sh.name = false := by simpa using hk
        simp [hk'] at h

end Pandora.Proofs.C20R6Expand
