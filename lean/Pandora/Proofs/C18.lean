/-
Helper lemmas for C18 (generic facts about `iter`, the heap and `Cfg.get`; per-operation facts).
-/
import Pandora.Spec.C18

namespace Pandora.Proofs.C18
open Pandora.Model.C18 Pandora.Spec.C18

/-! ### configuration values -/

theorem get_cons_ne {k f : Nat} {v : Int} {c : Cfg} (h : f ≠ k) : Cfg.get ((k, v) :: c) f = Cfg.get c f := by
  unfold Cfg.get
  simp [List.lookup]
  have : (f == k) = false := by simp [h]
  rw [this]

theorem get_append (u c : Cfg) (f : Nat) :
    Cfg.get (u ++ c) f = match List.lookup f u with | some v => v | none => Cfg.get c f := by
  induction u with
  | nil => simp [Cfg.get]
  | cons a u ih =>
    obtain ⟨k, v⟩ := a
    by_cases h : f = k
    · subst h; simp [Cfg.get, List.lookup]
    · have hb : (f == k) = false := by simp [h]
      simp only [List.cons_append, Cfg.get, List.lookup, hb] at ih ⊢
      exact ih

/-! ### iteration -/

theorem iter_length (f : St → St × Step) : ∀ k st, (iter f k st).2.length = k := by
  intro k; induction k with
  | zero => intro st; rfl
  | succ k ih => intro st; simp [iter, ih]

/-- an invariant of the state and a property of every produced step -/
theorem iter_inv (f : St → St × Step) (I : St → Prop) (P : Step → Prop)
    (hstep : ∀ st, I st → I (f st).1 ∧ P (f st).2) :
    ∀ k st, I st → I (iter f k st).1 ∧ ∀ s ∈ (iter f k st).2, P s := by
  intro k; induction k with
  | zero => intro st h; exact ⟨h, by simp [iter]⟩
  | succ k ih =>
    intro st h
    have h1 := hstep st h
    have h2 := ih (f st).1 h1.1
    refine ⟨h2.1, ?_⟩
    intro s hs
    simp only [iter, List.mem_cons] at hs
    rcases hs with rfl | hs
    · exact h1.2
    · exact h2.2 s hs

/-- keys (fresh identities) taken by successive steps are strictly increasing -/
theorem iter_keys (f : St → St × Step) (I : St → Prop) (key : Step → Option Nat)
    (hstep : ∀ st, I st → I (f st).1 ∧ st.next ≤ (f st).1.next ∧
      ∀ c, key (f st).2 = some c → st.next ≤ c ∧ c < (f st).1.next) :
    ∀ k st, I st → st.next ≤ (iter f k st).1.next ∧
      (∀ c ∈ (iter f k st).2.filterMap key, st.next ≤ c) ∧
      ((iter f k st).2.filterMap key).Pairwise (· < ·) := by
  intro k; induction k with
  | zero => intro st _; simp [iter]
  | succ k ih =>
    intro st h
    obtain ⟨h1, h2, h3⟩ := hstep st h
    obtain ⟨i1, i2, i3⟩ := ih (f st).1 h1
    refine ⟨Nat.le_trans h2 i1, ?_, ?_⟩
    · intro c hc
      simp only [iter, List.filterMap_cons] at hc
      cases hk : key (f st).2 with
      | none => rw [hk] at hc; exact Nat.le_trans h2 (i2 c hc)
      | some c0 =>
        rw [hk] at hc
        simp only [List.mem_cons] at hc
        rcases hc with rfl | hc
        · exact (h3 _ hk).1
        · exact Nat.le_trans h2 (i2 c hc)
    · simp only [iter, List.filterMap_cons]
      cases hk : key (f st).2 with
      | none => exact i3
      | some c0 =>
        simp only [List.pairwise_cons]
        exact ⟨fun c hc => Nat.lt_of_lt_of_le (h3 _ hk).2 (i2 c hc), i3⟩

theorem pairwise_lt_nodup {l : List Nat} (h : l.Pairwise (· < ·)) : l.Nodup := by
  unfold List.Nodup
  exact h.imp (fun hab => Nat.ne_of_lt hab)

/-- cells below the allocation frontier are not touched by later steps -/
theorem iter_frame (f : St → St × Step) (I : St → Prop)
    (hstep : ∀ st, I st → I (f st).1 ∧ st.next ≤ (f st).1.next ∧ ∀ c, c < st.next → (f st).1.heap c = st.heap c) :
    ∀ k st, I st → ∀ c, c < st.next → (iter f k st).1.heap c = st.heap c := by
  intro k; induction k with
  | zero => intro st _ c _; rfl
  | succ k ih =>
    intro st h c hc
    obtain ⟨h1, h2, h3⟩ := hstep st h
    simp only [iter]
    rw [ih (f st).1 h1 c (Nat.lt_of_lt_of_le hc h2), h3 c hc]

/-- isolation: every product that holds a cell below the frontier reads its own serial number at the end -/
theorem iter_views (f : St → St × Step) (I : St → Prop)
    (hstep : ∀ st, I st → I (f st).1 ∧ st.next ≤ (f st).1.next ∧
      (∀ c, c < st.next → (f st).1.heap c = st.heap c) ∧
      ∀ p c, (f st).2.res = .ok p → p.cell = some c →
        c < (f st).1.next ∧ ((f st).1.heap c).get markField = p.serial) :
    ∀ k st, I st → ∀ v ∈ viewsOf (iter f k st).1.heap (iter f k st).2, (v.1 : Int) = v.2 := by
  intro k; induction k with
  | zero => intro st _ v hv; simp [iter, viewsOf] at hv
  | succ k ih =>
    intro st h v hv
    obtain ⟨h1, h2, h3, h4⟩ := hstep st h
    have hfr := iter_frame f I (fun st hI => ⟨(hstep st hI).1, (hstep st hI).2.1, (hstep st hI).2.2.1⟩) k (f st).1 h1
    simp only [iter, viewsOf, List.filterMap_cons] at hv
    split at hv
    · exact ih (f st).1 h1 v hv
    · rename_i b hb
      simp only [List.mem_cons] at hv
      rcases hv with rfl | hv
      · -- the head step's own view
        revert hb
        split
        · rename_i serial c seen hres
          intro hb
          simp only [Option.some.injEq] at hb
          subst hb
          obtain ⟨hlt, hm⟩ := h4 ⟨serial, some c, seen⟩ c hres rfl
          simp only
          rw [hfr c hlt, hm]
        · intro hb; simp at hb
      · exact ih (f st).1 h1 v hv
