/-
Helper lemmas for C18 (generic facts about `iter`, the heap and `Cfg.get`; per-operation facts).
-/
import Pandora.Spec.C18

set_option linter.unusedSimpArgs false

namespace Pandora.Proofs.C18
open Pandora.Model.C18 Pandora.Spec.C18

/-! ### configuration values -/

theorem get_cons_ne {k f : Nat} {v : Int} {c : Cfg} (h : f ≠ k) : Cfg.get ((k, v) :: c) f = Cfg.get c f := by
  unfold Cfg.get
  simp [List.lookup]
  have : (f == k) = false := by simp [h]
  rw [this]

theorem get_append (u c : Cfg) (f : Nat) :
    Cfg.get (u ++ c) f = match List.lookup f u with | some v => v | none => Cfg.get c f := by
  induction u with
  | nil => simp [Cfg.get]
  | cons a u ih =>
    obtain ⟨k, v⟩ := a
    by_cases h : f = k
    · subst h; simp [Cfg.get, List.lookup]
    · have hb : (f == k) = false := by simp [h]
      simp only [List.cons_append, Cfg.get, List.lookup, hb] at ih ⊢
      exact ih

/-! ### iteration -/

theorem iter_length (f : St → St × Step) : ∀ k st, (iter f k st).2.length = k := by
  intro k; induction k with
  | zero => intro st; rfl
  | succ k ih => intro st; simp [iter, ih]

/-- an invariant of the state and a property of every produced step -/
theorem iter_inv (f : St → St × Step) (I : St → Prop) (P : Step → Prop)
    (hstep : ∀ st, I st → I (f st).1 ∧ P (f st).2) :
    ∀ k st, I st → I (iter f k st).1 ∧ ∀ s ∈ (iter f k st).2, P s := by
  intro k; induction k with
  | zero => intro st h; exact ⟨h, by simp [iter]⟩
  | succ k ih =>
    intro st h
    have h1 := hstep st h
    have h2 := ih (f st).1 h1.1
    refine ⟨h2.1, ?_⟩
    intro s hs
    simp only [iter, List.mem_cons] at hs
    rcases hs with rfl | hs
    · exact h1.2
    · exact h2.2 s hs

/-- keys (fresh identities) taken by successive steps are strictly increasing -/
theorem iter_keys (f : St → St × Step) (I : St → Prop) (key : Step → Option Nat)
    (hstep : ∀ st, I st → I (f st).1 ∧ st.next ≤ (f st).1.next ∧
      ∀ c, key (f st).2 = some c → st.next ≤ c ∧ c < (f st).1.next) :
    ∀ k st, I st → st.next ≤ (iter f k st).1.next ∧
      (∀ c ∈ (iter f k st).2.filterMap key, st.next ≤ c) ∧
      ((iter f k st).2.filterMap key).Pairwise (· < ·) := by
  intro k; induction k with
  | zero => intro st _; simp [iter]
  | succ k ih =>
    intro st h
    obtain ⟨h1, h2, h3⟩ := hstep st h
    obtain ⟨i1, i2, i3⟩ := ih (f st).1 h1
    refine ⟨Nat.le_trans h2 i1, ?_, ?_⟩
    · intro c hc
      simp only [iter, List.filterMap_cons] at hc
      cases hk : key (f st).2 with
      | none => rw [hk] at hc; exact Nat.le_trans h2 (i2 c hc)
      | some c0 =>
        rw [hk] at hc
        simp only [List.mem_cons] at hc
        rcases hc with rfl | hc
        · exact (h3 _ hk).1
        · exact Nat.le_trans h2 (i2 c hc)
    · simp only [iter, List.filterMap_cons]
      cases hk : key (f st).2 with
      | none => exact i3
      | some c0 =>
        simp only [List.pairwise_cons]
        exact ⟨fun c hc => Nat.lt_of_lt_of_le (h3 _ hk).2 (i2 c hc), i3⟩

theorem pairwise_lt_nodup {l : List Nat} (h : l.Pairwise (· < ·)) : l.Nodup := by
  unfold List.Nodup
  exact h.imp (fun hab => Nat.ne_of_lt hab)

/-- cells below the allocation frontier are not touched by later steps -/
theorem iter_frame (f : St → St × Step) (I : St → Prop)
    (hstep : ∀ st, I st → I (f st).1 ∧ st.next ≤ (f st).1.next ∧ ∀ c, c < st.next → (f st).1.heap c = st.heap c) :
    ∀ k st, I st → ∀ c, c < st.next → (iter f k st).1.heap c = st.heap c := by
  intro k; induction k with
  | zero => intro st _ c _; rfl
  | succ k ih =>
    intro st h c hc
    obtain ⟨h1, h2, h3⟩ := hstep st h
    simp only [iter]
    rw [ih (f st).1 h1 c (Nat.lt_of_lt_of_le hc h2), h3 c hc]

/-- isolation: every product that holds a cell below the frontier reads its own serial number at the end -/
theorem iter_views (f : St → St × Step) (I : St → Prop)
    (hstep : ∀ st, I st → I (f st).1 ∧ st.next ≤ (f st).1.next ∧
      (∀ c, c < st.next → (f st).1.heap c = st.heap c) ∧
      ∀ p c, (f st).2.res = .ok p → p.cell = some c →
        c < (f st).1.next ∧ ((f st).1.heap c).get markField = p.serial) :
    ∀ k st, I st → ∀ v ∈ viewsOf (iter f k st).1.heap (iter f k st).2, (v.1 : Int) = v.2 := by
  intro k; induction k with
  | zero => intro st _ v hv; simp [iter, viewsOf] at hv
  | succ k ih =>
    intro st h v hv
    obtain ⟨h1, h2, h3, h4⟩ := hstep st h
    have hfr := iter_frame f I (fun st hI => ⟨(hstep st hI).1, (hstep st hI).2.1, (hstep st hI).2.2.1⟩) k (f st).1 h1
    simp only [iter, viewsOf, List.filterMap_cons] at hv
    split at hv
    · exact ih (f st).1 h1 v hv
    · rename_i b hb
      simp only [List.mem_cons] at hv
      rcases hv with rfl | hv
      · -- the head step's own view
        revert hb
        split
        · rename_i serial c seen hres
          intro hb
          simp only [Option.some.injEq] at hb
          subst hb
          obtain ⟨hlt, hm⟩ := h4 ⟨serial, some c, seen⟩ c hres rfl
          simp only
          rw [hfr c hlt, hm]
        · intro hb; simp at hb
      · exact ih (f st).1 h1 v hv

/-! ### the primitives, as equations -/

/-- the config identity `Get` works on -/
def cellOf (sh : Shape) (next : Nat) : Option Nat :=
  if sh.cfg = .none then none else some (if sh.dflt = .shared then 0 else next)

def fillEvs (sh : Shape) (w : World) (fills next : Nat) : List Ev :=
  if w.hasFill then [Ev.fill fills (cellOf sh next) (!w.fillFault fills)] else []

def dfltEvs (sh : Shape) : List Ev :=
  if sh.cfg = .none ∨ sh.dflt = .absent then [] else [Ev.dflt]

/-- content of a config right after `defaultConfigContainer.new` -/
def baseCfg (sh : Shape) (w : World) (heap : Nat → Cfg) : Cfg :=
  match sh.dflt with
  | .absent | .nilPtr => []
  | .fresh => w.dflt
  | .shared => heap 0

def getHeap (sh : Shape) (w : World) (heap : Nat → Cfg) (fills next : Nat) : Nat → Cfg :=
  match cellOf sh next with
  | none => heap
  | some c => upd heap c ((if w.hasFill && !w.fillFault fills then w.user else []) ++ baseCfg sh w heap)

def fillFails (w : World) (fills : Nat) : Bool := w.hasFill && w.fillFault fills

theorem upd_self (h : Nat → Cfg) (c : Nat) : upd h c (h c) = h := by
  funext i; unfold upd; split <;> simp_all

@[simp] theorem upd_same (h : Nat → Cfg) (c : Nat) (v : Cfg) : upd h c v c = v := by simp [upd]

theorem upd_ne (h : Nat → Cfg) {c i : Nat} (v : Cfg) (hne : i ≠ c) : upd h c v i = h i := by simp [upd, hne]

@[simp] theorem upd_upd (h : Nat → Cfg) (c : Nat) (v v' : Cfg) : upd (upd h c v) c v' = upd h c v' := by
  funext i; unfold upd; split <;> rfl

theorem dcGet_proj (sh : Shape) (w : World) (st : St) :
    (dcGet sh w st).1.log = fillEvs sh w st.fills st.next ++ dfltEvs sh ++ st.log ∧
    (dcGet sh w st).2 = (if fillFails w st.fills then .error (.fill st.fills) else .ok (cellOf sh st.next)) ∧
    (dcGet sh w st).1.fills = st.fills + (if w.hasFill then 1 else 0) ∧
    (dcGet sh w st).1.ctors = st.ctors ∧ (dcGet sh w st).1.facts = st.facts ∧
    (dcGet sh w st).1.next = (if sh.cfg = .none ∨ sh.dflt = .shared then st.next else st.next + 1) ∧
    (dcGet sh w st).1.heap = getHeap sh w st.heap st.fills st.next := by
  obtain ⟨factory, cfg, ctorErr, factErr, iface, dflt⟩ := sh
  by_cases h1 : w.hasFill = true <;> by_cases h2 : w.fillFault st.fills = true <;>
  cases cfg <;> cases dflt <;>
  simp [dcGet, dcNew, cellOf, fillEvs, dfltEvs, fillFails, getHeap, baseCfg, upd_self, upd_same, upd_upd, h1, h2]

def seenOf (kind : CfgKind) (conf : Option Nat) (copy : Cfg) (heap : Nat → Cfg) : Cfg :=
  match kind, conf with
  | .ptr, some c => heap c
  | .struct, some c => heap c
  | _, _ => copy

def markHeap (kind : CfgKind) (serial : Nat) (conf : Option Nat) (heap : Nat → Cfg) : Nat → Cfg :=
  match kind, conf with
  | .ptr, some c => upd heap c ((markField, (serial : Int)) :: heap c)
  | _, _ => heap

theorem produce_eq (kind : CfgKind) (serial : Nat) (conf : Option Nat) (copy : Cfg) (st : St) :
    produce kind serial conf copy st =
      ({ st with heap := markHeap kind serial conf st.heap },
       ⟨serial, if kind = .ptr then conf else none, seenOf kind conf copy st.heap⟩) := by
  cases kind <;> cases conf <;> simp [produce, markHeap, seenOf]

def ctorFails (sh : Shape) (w : World) (ctors : Nat) : Bool := sh.ctorErr && w.ctorFault ctors
def factFails (sh : Shape) (w : World) (facts : Nat) : Bool := sh.factErr && w.factFault facts

theorem pluginCtor_eq (sh : Shape) (w : World) (conf : Option Nat) (st : St) :
    pluginCtor sh w conf st =
      if ctorFails sh w st.ctors then
        ({ st with ctors := st.ctors + 1, log := .ctor st.ctors (shownConf sh conf) false :: st.log }, .error (.ctor st.ctors))
      else
        ({ st with ctors := st.ctors + 1, log := .ctor st.ctors (shownConf sh conf) true :: st.log,
                   heap := markHeap sh.cfg st.ctors conf st.heap },
         .ok ⟨st.ctors, if sh.cfg = .ptr then conf else none, seenOf sh.cfg conf [] st.heap⟩) := by
  unfold pluginCtor ctorFails
  split <;> simp [produce_eq]

theorem regFacCall_eq (sh : Shape) (w : World) (rf : RegFac) (st : St) :
    regFacCall sh w rf st =
      if factFails sh w st.facts then
        ({ st with facts := st.facts + 1, log := .fact st.facts false :: st.log }, .error (.fact st.facts))
      else
        ({ st with facts := st.facts + 1, log := .fact st.facts true :: st.log,
                   heap := markHeap sh.cfg st.facts rf.cell st.heap },
         .ok ⟨st.facts, if sh.cfg = .ptr then rf.cell else none, seenOf sh.cfg rf.cell rf.copy st.heap⟩) := by
  unfold regFacCall factFails
  split <;> simp [produce_eq]

/-- what the registered factory constructor captures -/
def capture (sh : Shape) (conf : Option Nat) (heap : Nat → Cfg) : RegFac :=
  match sh.cfg, conf with
  | .ptr, some c => ⟨some c, []⟩
  | .struct, some c => ⟨none, heap c⟩
  | _, _ => ⟨none, []⟩

theorem factoryCtor_eq (sh : Shape) (w : World) (conf : Option Nat) (st : St) :
    factoryCtor sh w conf st =
      if ctorFails sh w st.ctors then
        ({ st with ctors := st.ctors + 1, log := .ctor st.ctors (shownConf sh conf) false :: st.log }, .error (.ctor st.ctors))
      else
        ({ st with ctors := st.ctors + 1, log := .ctor st.ctors (shownConf sh conf) true :: st.log },
         .ok (capture sh conf st.heap)) := by
  unfold factoryCtor ctorFails capture
  split <;> rfl

/-! ### one call, in explicit form -/

@[simp] theorem dfltEvs_reverse (sh : Shape) : (dfltEvs sh).reverse = dfltEvs sh := by
  unfold dfltEvs; split <;> rfl

@[simp] theorem fillEvs_reverse (sh : Shape) (w : World) (a b : Nat) : (fillEvs sh w a b).reverse = fillEvs sh w a b := by
  unfold fillEvs; split <;> rfl

def conv (pan : Bool) (e : Err) : Res := if pan then .panic e else .err e

def nextG (sh : Shape) (doGet : Bool) (next : Nat) : Nat :=
  if doGet = false ∨ sh.cfg = .none ∨ sh.dflt = .shared then next else next + 1

/-- explicit description of one call that (optionally) gets a config, calls the registered constructor and, for
a factory constructor, calls the factory it returned once: final heap, final frontier, step -/
def callSpec (sh : Shape) (w : World) (doGet viaFactory pan : Bool) (st : St) : (Nat → Cfg) × Nat × Step :=
  let evG := if doGet then dfltEvs sh ++ fillEvs sh w st.fills st.next else []
  let cell := if doGet then cellOf sh st.next else none
  let heapG := if doGet then getHeap sh w st.heap st.fills st.next else st.heap
  let nx := nextG sh doGet st.next
  if doGet && fillFails w st.fills then (heapG, nx, ⟨evG, conv pan (.fill st.fills)⟩)
  else if ctorFails sh w st.ctors then
    (heapG, nx, ⟨evG ++ [.ctor st.ctors (shownConf sh cell) false], conv pan (.ctor st.ctors)⟩)
  else if !viaFactory then
    (markHeap sh.cfg st.ctors cell heapG, nx,
      ⟨evG ++ [.ctor st.ctors (shownConf sh cell) true],
       .ok ⟨st.ctors, if sh.cfg = .ptr then cell else none, seenOf sh.cfg cell [] heapG⟩⟩)
  else
    let rf := capture sh cell heapG
    if factFails sh w st.facts then
      (heapG, nx, ⟨evG ++ [.ctor st.ctors (shownConf sh cell) true, .fact st.facts false], conv pan (.fact st.facts)⟩)
    else
      (markHeap sh.cfg st.facts rf.cell heapG, nx,
        ⟨evG ++ [.ctor st.ctors (shownConf sh cell) true, .fact st.facts true],
         .ok ⟨st.facts, if sh.cfg = .ptr then rf.cell else none, seenOf sh.cfg rf.cell rf.copy heapG⟩⟩)

/-- state and step of an operation, as the triple `callSpec` speaks about -/
def tri (r : St × Step) : (Nat → Cfg) × Nat × Step := (r.1.heap, r.1.next, r.2)

theorem nextG_get (sh : Shape) (next : Nat) :
    (if sh.cfg = .none ∨ sh.dflt = .shared then next else next + 1) = nextG sh true next := by
  simp [nextG]

theorem step_regNew (sh : Shape) (w : World) (st : St) :
    tri (step (regNew sh w) st) = callSpec sh w true sh.factory false st := by
  obtain ⟨g1, g2, g3, g4, g5, g6, g7⟩ := dcGet_proj sh w { st with log := [] }
  simp only [nextG_get] at g6
  simp only [tri, step, regNew, g2, callSpec, if_true, Bool.true_and]
  by_cases hf : fillFails w st.fills = true
  · simp [hf, g1, g6, g7, conv]
  · simp only [hf, newPlugin]
    by_cases hcf : ctorFails sh w st.ctors = true <;> by_cases hfa : sh.factory = true
    · simp [hcf, hfa, factoryCtor_eq, g1, g4, g6, g7, conv, toRes]
    · simp [hcf, hfa, pluginCtor_eq, g1, g4, g6, g7, conv, toRes]
    · by_cases hff : factFails sh w st.facts = true
      · simp [hcf, hfa, hff, factoryCtor_eq, regFacCall_eq, g1, g4, g5, g6, g7, conv, toRes]
      · simp [hcf, hfa, hff, factoryCtor_eq, regFacCall_eq, g1, g4, g5, g6, g7, conv, toRes]
    · simp [hcf, hfa, pluginCtor_eq, g1, g4, g6, g7, conv, toRes]

theorem ctorFails_err {sh : Shape} {w : World} {i : Nat} (h : ctorFails sh w i = true) : sh.ctorErr = true := by
  simp [ctorFails] at h; exact h.1

theorem factFails_err {sh : Shape} {w : World} {i : Nat} (h : factFails sh w i = true) : sh.factErr = true := by
  simp [factFails] at h; exact h.1

theorem step_wrapPlugin (sh : Shape) (w : World) (n : Nat) (hn : n = 1 ∨ n = 2) (st : St) (hc : sh.cfg ≠ .none) :
    tri (step (callFac sh w (.wrapPlugin n)) st) = callSpec sh w true false (n == 1) st := by
  obtain ⟨g1, g2, g3, g4, g5, g6, g7⟩ := dcGet_proj sh w { st with log := [] }
  simp only [nextG_get] at g6
  simp only [tri, step, callFac, hc, if_false, g2, callSpec, if_true, Bool.true_and]
  by_cases hf : fillFails w st.fills = true
  · rcases hn with rfl | rfl <;> simp [hf, g1, g6, g7, conv]
  · by_cases hcf : ctorFails sh w st.ctors = true
    · have := ctorFails_err hcf
      rcases hn with rfl | rfl <;>
        simp [hf, hcf, pluginCtor_eq, g1, g4, g6, g7, conv, convertOut, outLen, this]
    · simp [hf, hcf, pluginCtor_eq, g1, g4, g6, g7, convertOut]

theorem step_wrapPlugin_none (sh : Shape) (w : World) (n : Nat) (hn : n = 1 ∨ n = 2) (st : St) (hc : sh.cfg = .none) :
    tri (step (callFac sh w (.wrapPlugin n)) st) = callSpec sh w false false (n == 1) st := by
  simp only [tri, step, callFac, hc, if_true, callSpec]
  by_cases hcf : ctorFails sh w st.ctors = true
  · have := ctorFails_err hcf
    rcases hn with rfl | rfl <;> simp [hcf, pluginCtor_eq, conv, convertOut, outLen, this, nextG]
  · simp [hcf, pluginCtor_eq, convertOut, nextG, hc]

theorem step_direct (sh : Shape) (w : World) (n : Nat) (hn : outLen sh.ctorErr = n) (st : St) :
    tri (step (callFac sh w .direct) st) = callSpec sh w false false (n == 1) st := by
  simp only [tri, step, callFac, callSpec]
  by_cases hcf : ctorFails sh w st.ctors = true
  · have := ctorFails_err hcf
    subst hn
    simp [hcf, pluginCtor_eq, conv, toRes, nextG, outLen, this]
  · simp [hcf, pluginCtor_eq, toRes, nextG]

/-- explicit description of one call of a factory made from a factory constructor -/
def facSpec (sh : Shape) (w : World) (rf : RegFac) (pan : Bool) (st : St) : (Nat → Cfg) × Nat × Step :=
  if factFails sh w st.facts then (st.heap, st.next, ⟨[.fact st.facts false], conv pan (.fact st.facts)⟩)
  else
    (markHeap sh.cfg st.facts rf.cell st.heap, st.next,
      ⟨[.fact st.facts true],
       .ok ⟨st.facts, if sh.cfg = .ptr then rf.cell else none, seenOf sh.cfg rf.cell rf.copy st.heap⟩⟩)

theorem step_wrapFactory (sh : Shape) (w : World) (rf : RegFac) (n : Nat) (hn : n = 1 ∨ n = 2) (st : St) :
    tri (step (callFac sh w (.wrapFactory rf n)) st) = facSpec sh w rf (n == 1) st := by
  simp only [tri, step, callFac, facSpec]
  by_cases hff : factFails sh w st.facts = true
  · have := factFails_err hff
    rcases hn with rfl | rfl <;> simp [hff, regFacCall_eq, conv, convertOut, outLen, this]
  · simp [hff, regFacCall_eq, convertOut]

theorem step_directFactory (sh : Shape) (w : World) (rf : RegFac) (n : Nat) (hn : outLen sh.factErr = n) (st : St) :
    tri (step (callFac sh w (.directFactory rf)) st) = facSpec sh w rf (n == 1) st := by
  simp only [tri, step, callFac, facSpec]
  by_cases hff : factFails sh w st.facts = true
  · have := factFails_err hff
    subst hn
    simp [hff, regFacCall_eq, conv, toRes, outLen, this]
  · simp [hff, regFacCall_eq, toRes]

/-! ### C18_errors, per step -/

theorem filterMap_none {evs : List Ev} (h : ∀ e ∈ evs, evFail e = none) : evs.filterMap evFail = [] := by
  induction evs with
  | nil => rfl
  | cons a l ih =>
    have ha := h a (by simp)
    simp only [List.filterMap_cons, ha]
    exact ih (fun e he => h e (by simp [he]))

theorem errOk_fail (pan : Bool) (evs : List Ev) (x : Ev) (err : Err)
    (h : ∀ e ∈ evs, evFail e = none) (hx : evFail x = some err) :
    stepErrOk pan ⟨evs ++ [x], conv pan err⟩ = true := by
  unfold stepErrOk
  simp only [List.filterMap_append, filterMap_none h, List.nil_append, List.filterMap_cons, hx, List.filterMap_nil]
  cases pan <;> simp [conv, hx]

theorem errOk_ok (pan : Bool) (evs : List Ev) (p : Product) (h : ∀ e ∈ evs, evFail e = none) :
    stepErrOk pan ⟨evs, .ok p⟩ = true := by
  unfold stepErrOk
  simp [filterMap_none h]

theorem dfltEvs_nofail (sh : Shape) : ∀ e ∈ dfltEvs sh, evFail e = none := by
  unfold dfltEvs; split <;> simp [evFail]

theorem fillEvs_nofail (sh : Shape) (w : World) (a b : Nat) (h : fillFails w a = false) :
    ∀ e ∈ fillEvs sh w a b, evFail e = none := by
  unfold fillEvs
  by_cases h1 : w.hasFill = true
  · simp [fillFails, h1] at h
    simp [h1, evFail, h]
  · simp [h1]

theorem fillEvs_fail (sh : Shape) (w : World) (a b : Nat) (h : fillFails w a = true) :
    fillEvs sh w a b = [Ev.fill a (cellOf sh b) false] := by
  simp [fillFails] at h
  simp [fillEvs, h.1, h.2]

theorem callSpec_err (sh : Shape) (w : World) (doGet vf pan : Bool) (st : St) :
    stepErrOk pan (callSpec sh w doGet vf pan st).2.2 = true ∧ isMade (callSpec sh w doGet vf pan st).2.2 = false := by
  unfold callSpec
  by_cases hf : (doGet && fillFails w st.fills) = true
  · simp only [hf, if_true]
    simp only [Bool.and_eq_true] at hf
    simp only [hf.1, if_true, fillEvs_fail sh w _ _ hf.2]
    exact ⟨errOk_fail pan _ _ _ (dfltEvs_nofail sh) (by simp [evFail]), by cases pan <;> simp [isMade, conv]⟩
  · simp only [hf]
    have hev : ∀ e ∈ (if doGet = true then dfltEvs sh ++ fillEvs sh w st.fills st.next else []), evFail e = none := by
      cases doGet
      · simp
      · simp only [if_true, List.mem_append]
        simp at hf
        rintro e (he | he)
        · exact dfltEvs_nofail sh e he
        · exact fillEvs_nofail sh w _ _ hf e he
    by_cases hcf : ctorFails sh w st.ctors = true
    · simp only [hcf, if_true]
      exact ⟨errOk_fail pan _ _ _ hev (by simp [evFail]), by cases pan <;> simp [isMade, conv]⟩
    · simp only [hcf]
      cases vf
      · simp only [Bool.not_false, if_true]
        refine ⟨errOk_ok pan _ _ ?_, by simp [isMade]⟩
        intro e he
        simp only [List.mem_append, List.mem_singleton] at he
        rcases he with he | rfl
        · exact hev e he
        · simp [evFail]
      · simp only [Bool.not_true]
        by_cases hff : factFails sh w st.facts = true
        · simp only [hff, if_true]
          refine ⟨?_, by cases pan <;> simp [isMade, conv]⟩
          have : ∀ e ∈ (if doGet = true then dfltEvs sh ++ fillEvs sh w st.fills st.next else []) ++
              [Ev.ctor st.ctors (shownConf sh (if doGet = true then cellOf sh st.next else none)) true], evFail e = none := by
            intro e he
            simp only [List.mem_append, List.mem_singleton] at he
            rcases he with he | rfl
            · exact hev e he
            · simp [evFail]
          have := errOk_fail pan _ (Ev.fact st.facts false) (.fact st.facts) this (by simp [evFail])
          simpa using this
        · simp only [hff]
          refine ⟨errOk_ok pan _ _ ?_, by simp [isMade]⟩
          intro e he
          simp only [List.mem_append, List.mem_cons, List.mem_singleton, List.not_mem_nil, or_false] at he
          rcases he with he | rfl | rfl
          · exact hev e he
          · simp [evFail]
          · simp [evFail]

theorem facSpec_err (sh : Shape) (w : World) (rf : RegFac) (pan : Bool) (st : St) :
    stepErrOk pan (facSpec sh w rf pan st).2.2 = true ∧ isMade (facSpec sh w rf pan st).2.2 = false := by
  unfold facSpec
  by_cases hff : factFails sh w st.facts = true
  · simp only [hff, if_true]
    exact ⟨errOk_fail pan [] _ _ (by simp) (by simp [evFail]), by cases pan <;> simp [isMade, conv]⟩
  · simp only [hff]
    exact ⟨errOk_ok pan _ _ (by simp [evFail]), by simp [isMade]⟩
/-! ### creation of a factory, in explicit form -/

def createSpec (sh : Shape) (w : World) (n : Nat) (st : St) : (Nat → Cfg) × Nat × List Ev × Except Err Fac :=
  if !sh.factory then
    if sh.cfg = .none then
      (st.heap, st.next, fillEvs sh w st.fills st.next,
        if fillFails w st.fills then .error (.fill st.fills)
        else .ok (if sh.iface && (outLen sh.ctorErr == n) then .direct else .wrapPlugin n))
    else (st.heap, st.next, [], .ok (.wrapPlugin n))
  else
    let evG := dfltEvs sh ++ fillEvs sh w st.fills st.next
    let cell := cellOf sh st.next
    let heapG := getHeap sh w st.heap st.fills st.next
    let nx := nextG sh true st.next
    if fillFails w st.fills then (heapG, nx, evG, .error (.fill st.fills))
    else if ctorFails sh w st.ctors then
      (heapG, nx, evG ++ [.ctor st.ctors (shownConf sh cell) false], .error (.ctor st.ctors))
    else
      (heapG, nx, evG ++ [.ctor st.ctors (shownConf sh cell) true],
        .ok (if sh.iface && (outLen sh.factErr == n) then .directFactory (capture sh cell heapG)
             else .wrapFactory (capture sh cell heapG) n))

def quad (r : St × Except Err Fac) : (Nat → Cfg) × Nat × List Ev × Except Err Fac :=
  (r.1.heap, r.1.next, r.1.log.reverse, r.2)

theorem dfltEvs_none {sh : Shape} (h : sh.cfg = .none) : dfltEvs sh = [] := by simp [dfltEvs, h]
theorem cellOf_none {sh : Shape} (h : sh.cfg = .none) (n : Nat) : cellOf sh n = none := by simp [cellOf, h]
theorem getHeap_none {sh : Shape} (h : sh.cfg = .none) (w : World) (heap : Nat → Cfg) (a b : Nat) :
    getHeap sh w heap a b = heap := by simp [getHeap, cellOf, h]

theorem create_eq (sh : Shape) (w : World) (n : Nat) (st : St) (hl : st.log = []) :
    quad (regNewFactory sh w n st) = createSpec sh w n st := by
  obtain ⟨g1, g2, g3, g4, g5, g6, g7⟩ := dcGet_proj sh w st
  simp only [nextG_get] at g6
  rw [hl] at g1
  by_cases hfa : sh.factory = true
  · -- factory constructor
    by_cases hc : sh.cfg = .none
    · simp only [quad, regNewFactory, hc, if_true, g2, createSpec, hfa, Bool.not_true]
      by_cases hf : fillFails w st.fills = true
      · simp [hf, g1, g6, g7, hc]
      · simp only [hf, ctorNewFactory, hfa, Bool.not_true]
        by_cases hcf : ctorFails sh w st.ctors = true
        · simp [hcf, factoryCtor_eq, g1, g4, g6, g7, hc, cellOf_none hc]
        · by_cases hty : (sh.iface && (outLen sh.factErr == n)) = true
          · simp [hcf, hty, factoryCtor_eq, g1, g4, g6, g7, hc, cellOf_none hc]
          · simp [hcf, hty, factoryCtor_eq, g1, g4, g6, g7, hc, cellOf_none hc]
    · simp only [quad, regNewFactory, hc, if_false, ctorNewFactory, hfa, Bool.not_true, if_true, g2, createSpec]
      by_cases hf : fillFails w st.fills = true
      · simp [hf, g1, g6, g7]
      · by_cases hcf : ctorFails sh w st.ctors = true
        · simp [hf, hcf, factoryCtor_eq, g1, g4, g6, g7]
        · by_cases hty : (sh.iface && (outLen sh.factErr == n)) = true
          · simp [hf, hcf, hty, factoryCtor_eq, g1, g4, g6, g7]
          · simp [hf, hcf, hty, factoryCtor_eq, g1, g4, g6, g7]
  · -- component constructor
    by_cases hc : sh.cfg = .none
    · simp only [quad, regNewFactory, hc, if_true, g2, createSpec, hfa]
      by_cases hf : fillFails w st.fills = true
      · simp [hf, g1, g6, g7, hc, dfltEvs_none hc, getHeap_none hc, nextG]
      · by_cases hty : (sh.iface && (outLen sh.ctorErr == n)) = true
        · simp [hf, hty, ctorNewFactory, hfa, g1, g6, g7, hc, dfltEvs_none hc, getHeap_none hc, nextG]
        · simp [hf, hty, ctorNewFactory, hfa, g1, g6, g7, hc, dfltEvs_none hc, getHeap_none hc, nextG]
    · simp [quad, regNewFactory, hc, ctorNewFactory, hfa, createSpec, hl]
/-! ### what `NewFactory` can hand out -/

def FacOk (sh : Shape) (n : Nat) : Fac → Prop
  | .direct => sh.factory = false ∧ sh.cfg = .none ∧ outLen sh.ctorErr = n
  | .wrapPlugin m => sh.factory = false ∧ m = n
  | .directFactory _ => sh.factory = true ∧ outLen sh.factErr = n
  | .wrapFactory _ m => sh.factory = true ∧ m = n

theorem createSpec_facOk (sh : Shape) (w : World) (n : Nat) (st : St) (fac : Fac)
    (h : (createSpec sh w n st).2.2.2 = .ok fac) : FacOk sh n fac := by
  unfold createSpec at h
  by_cases hfa : sh.factory = true
  · simp only [hfa, Bool.not_true] at h
    by_cases hf : fillFails w st.fills = true
    · simp [hf] at h
    · by_cases hcf : ctorFails sh w st.ctors = true
      · simp [hf, hcf] at h
      · by_cases hty : (sh.iface && (outLen sh.factErr == n)) = true
        · simp [hf, hcf, hty] at h
          subst h
          simp at hty
          exact ⟨hfa, hty.2⟩
        · simp [hf, hcf, hty] at h
          subst h
          exact ⟨hfa, rfl⟩
  · simp only [hfa] at h
    simp at hfa
    by_cases hc : sh.cfg = .none
    · by_cases hf : fillFails w st.fills = true
      · simp [hc, hf] at h
      · by_cases hty : (sh.iface && (outLen sh.ctorErr == n)) = true
        · simp [hc, hf, hty] at h
          subst h
          simp at hty
          exact ⟨hfa, hc, hty.2⟩
        · simp [hc, hf, hty] at h
          subst h
          exact ⟨hfa, rfl⟩
    · simp [hc] at h
      subst h
      exact ⟨hfa, rfl⟩

theorem tri_step {r : St × Step} {x : (Nat → Cfg) × Nat × Step} (h : tri r = x) :
    r.1.heap = x.1 ∧ r.1.next = x.2.1 ∧ r.2 = x.2.2 := by
  subst h; exact ⟨rfl, rfl, rfl⟩

/-- every factory call is a `callSpec` or a `facSpec` -/
theorem callFac_cases (sh : Shape) (w : World) (n : Nat) (hn : n = 1 ∨ n = 2) (fac : Fac) (hok : FacOk sh n fac) (st : St) :
    (sh.factory = false ∧ ∃ doGet, (doGet = true ↔ sh.cfg ≠ .none) ∧
        tri (step (callFac sh w fac) st) = callSpec sh w doGet false (n == 1) st) ∨
    (sh.factory = true ∧ ∃ rf, (fac = .directFactory rf ∨ fac = .wrapFactory rf n) ∧
        tri (step (callFac sh w fac) st) = facSpec sh w rf (n == 1) st) := by
  cases fac with
  | direct =>
    obtain ⟨h1, h2, h3⟩ := hok
    exact .inl ⟨h1, false, by simp [h2], step_direct sh w n h3 st⟩
  | wrapPlugin m =>
    obtain ⟨h1, rfl⟩ := hok
    by_cases hc : sh.cfg = .none
    · exact .inl ⟨h1, false, by simp [hc], step_wrapPlugin_none sh w m hn st hc⟩
    · exact .inl ⟨h1, true, by simp [hc], step_wrapPlugin sh w m hn st hc⟩
  | directFactory rf =>
    obtain ⟨h1, h2⟩ := hok
    exact .inr ⟨h1, rf, .inl rfl, step_directFactory sh w rf n h2 st⟩
  | wrapFactory rf m =>
    obtain ⟨h1, rfl⟩ := hok
    exact .inr ⟨h1, rf, .inr rfl, step_wrapFactory sh w rf m hn st⟩

/-! ### C18_errors assembled -/

theorem errors_component (sh : Shape) (w : World) (k : Nat) (st : St) :
    (iter (step (regNew sh w)) k st).2.length = k ∧
    ∀ s ∈ (iter (step (regNew sh w)) k st).2, stepErrOk false s = true ∧ isMade s = false := by
  refine ⟨iter_length _ k st, ?_⟩
  have := iter_inv (step (regNew sh w)) (fun _ => True) (fun s => stepErrOk false s = true ∧ isMade s = false)
    (fun st _ => ⟨trivial, by
      rw [(tri_step (step_regNew sh w st)).2.2]
      exact callSpec_err sh w true sh.factory false st⟩) k st trivial
  exact this.2

theorem errors_calls (sh : Shape) (w : World) (n : Nat) (hn : n = 1 ∨ n = 2) (fac : Fac) (hok : FacOk sh n fac)
    (k : Nat) (st : St) :
    ∀ s ∈ (iter (step (callFac sh w fac)) k st).2, stepErrOk (n == 1) s = true ∧ isMade s = false := by
  have := iter_inv (step (callFac sh w fac)) (fun _ => True) (fun s => stepErrOk (n == 1) s = true ∧ isMade s = false)
    (fun st _ => ⟨trivial, by
      rcases callFac_cases sh w n hn fac hok st with ⟨_, doGet, _, h⟩ | ⟨_, rf, _, h⟩
      · rw [(tri_step h).2.2]; exact callSpec_err sh w doGet false _ st
      · rw [(tri_step h).2.2]; exact facSpec_err sh w rf _ st⟩) k st trivial
  exact this.2

/-- the creation step: an error is the error result (never a panic), nothing failing otherwise -/
theorem createSpec_err (sh : Shape) (w : World) (n : Nat) (st : St) :
    match (createSpec sh w n st).2.2.2 with
    | .error e => stepErrOk false ⟨(createSpec sh w n st).2.2.1, .err e⟩ = true
    | .ok _ => stepErrOk false ⟨(createSpec sh w n st).2.2.1, .made⟩ = true := by
  have hmade : ∀ evs : List Ev, (∀ e ∈ evs, evFail e = none) → stepErrOk false ⟨evs, .made⟩ = true := by
    intro evs h; unfold stepErrOk; simp [filterMap_none h]
  unfold createSpec
  by_cases hf : fillFails w st.fills = true
  · have hfe := fillEvs_fail sh w st.fills st.next hf
    by_cases hfa : sh.factory = true
    · simp only [hfa, Bool.not_true, hf, if_true, hfe, Bool.false_eq_true, ↓reduceIte]
      exact errOk_fail false _ _ _ (dfltEvs_nofail sh) (by simp [evFail])
    · simp only [Bool.not_eq_true] at hfa
      by_cases hc : sh.cfg = .none
      · simp only [hfa, Bool.not_false, hc, hf, if_true, hfe, Bool.false_eq_true, ↓reduceIte]
        exact errOk_fail false [] _ _ (by simp) (by simp [evFail])
      · simp only [hfa, Bool.not_false, if_true, hc, if_false, Bool.false_eq_true, ↓reduceIte]
        exact hmade [] (by simp)
  · have hev : ∀ e ∈ dfltEvs sh ++ fillEvs sh w st.fills st.next, evFail e = none := by
      intro e he
      simp only [List.mem_append] at he
      rcases he with he | he
      · exact dfltEvs_nofail sh e he
      · exact fillEvs_nofail sh w _ _ (by simpa using hf) e he
    by_cases hfa : sh.factory = true
    · simp only [hfa, Bool.not_true, hf, Bool.false_eq_true, ↓reduceIte]
      by_cases hcf : ctorFails sh w st.ctors = true
      · simp only [hcf, if_true, Bool.false_eq_true, ↓reduceIte]
        exact errOk_fail false _ _ _ hev (by simp [evFail])
      · simp only [hcf, Bool.false_eq_true, ↓reduceIte]
        apply hmade
        intro e he
        simp only [List.mem_append, List.mem_singleton] at he
        rcases he with he | rfl
        · exact hev e (by simpa using he)
        · simp [evFail]
    · simp only [Bool.not_eq_true] at hfa
      by_cases hc : sh.cfg = .none
      · simp only [hfa, Bool.not_false, hc, hf, if_true, Bool.false_eq_true, ↓reduceIte]
        exact hmade _ (fillEvs_nofail sh w _ _ (by simpa using hf))
      · simp only [hfa, Bool.not_false, if_true, hc, if_false, Bool.false_eq_true, ↓reduceIte]
        exact hmade [] (by simp)
theorem initSt_log (sh : Shape) (w : World) : (initSt sh w).log = [] := by
  unfold initSt; split <;> rfl

theorem quad_proj {r : St × Except Err Fac} {x : (Nat → Cfg) × Nat × List Ev × Except Err Fac} (h : quad r = x) :
    r.1.heap = x.1 ∧ r.1.next = x.2.1 ∧ r.1.log.reverse = x.2.2.1 ∧ r.2 = x.2.2.2 := by
  subst h; exact ⟨rfl, rfl, rfl, rfl⟩

theorem errors_factory (sh : Shape) (w : World) (n k : Nat) (hn : n = 1 ∨ n = 2) (st : St) (hl : st.log = []) :
    match (regNewFactory sh w n st).2 with
    | .error e => stepErrOk false ⟨(regNewFactory sh w n st).1.log.reverse, .err e⟩ = true
    | .ok fac =>
        stepErrOk false ⟨(regNewFactory sh w n st).1.log.reverse, .made⟩ = true ∧
        (iter (step (callFac sh w fac)) k (regNewFactory sh w n st).1).2.length = k ∧
        ∀ s ∈ (iter (step (callFac sh w fac)) k (regNewFactory sh w n st).1).2,
          stepErrOk (n == 1) s = true ∧ isMade s = false := by
  obtain ⟨_, _, q3, q4⟩ := quad_proj (create_eq sh w n st hl)
  have hc := createSpec_err sh w n st
  rw [q3, q4]
  cases hq : (createSpec sh w n st).2.2.2 with
  | error e => rw [hq] at hc; exact hc
  | ok fac =>
    rw [hq] at hc
    have hok := createSpec_facOk sh w n st fac hq
    exact ⟨hc, iter_length _ k _, errors_calls sh w n hn fac hok k _⟩
/-! ### C18_config -/

/-- two configurations agree on every field but `Mark` -/
def Agree (c e : Cfg) : Prop := ∀ f, f ≠ markField → c.get f = e.get f

/-- what a product must have been built from -/
def SeenOk (sh : Shape) (w : World) (seen : Cfg) : Prop :=
  (sh.cfg = .none → seen = []) ∧ (sh.cfg ≠ .none → Agree seen (expected sh w))

/-- invariant of the one config object owned by a `shared` default-config function -/
def SharedOk (sh : Shape) (w : World) (heap : Nat → Cfg) : Prop :=
  sh.dflt = .shared → ∀ f, f ≠ markField →
    (heap 0).get f = w.dflt.get f ∨ (w.hasFill = true ∧ (heap 0).get f = (w.user ++ w.dflt).get f)

theorem agree_mark {c e : Cfg} (s : Int) (h : Agree c e) : Agree ((markField, s) :: c) e := by
  intro f hf; rw [get_cons_ne hf]; exact h f hf

theorem initSt_shared (sh : Shape) (w : World) : SharedOk sh w (initSt sh w).heap := by
  intro hs f _
  simp [initSt, hs]

theorem markHeap_shared (sh : Shape) (w : World) (kind : CfgKind) (s : Nat) (conf : Option Nat) (heap : Nat → Cfg)
    (h : SharedOk sh w heap) : SharedOk sh w (markHeap kind s conf heap) := by
  intro hs f hf
  have := h hs f hf
  unfold markHeap
  split
  · rename_i c
    by_cases hc : c = 0
    · subst hc; simp only [upd_same]; rw [get_cons_ne hf]; exact this
    · rw [upd_ne _ _ (Ne.symm hc)]; exact this
  · exact this

theorem getHeap_cell (sh : Shape) (w : World) (heap : Nat → Cfg) (a b c : Nat) (hc : cellOf sh b = some c) :
    getHeap sh w heap a b c = (if w.hasFill && !w.fillFault a then w.user else []) ++ baseCfg sh w heap := by
  simp [getHeap, hc]

theorem cellOf_shared {sh : Shape} {b c : Nat} (hs : sh.dflt = .shared) (hc : cellOf sh b = some c) : c = 0 := by
  unfold cellOf at hc
  split at hc
  · simp at hc
  · simp [hs] at hc; exact hc.symm

theorem getHeap_agree (sh : Shape) (w : World) (heap : Nat → Cfg) (a b c : Nat) (hB : SharedOk sh w heap)
    (hf : fillFails w a = false) (hc : cellOf sh b = some c) :
    Agree (getHeap sh w heap a b c) (expected sh w) := by
  rw [getHeap_cell sh w heap a b c hc]
  have hfill : (w.hasFill && !w.fillFault a) = w.hasFill := by
    unfold fillFails at hf
    cases h1 : w.hasFill <;> simp_all
  rw [hfill]
  intro f hfm
  cases hd : sh.dflt with
  | absent => simp [baseCfg, expected, defaults, hd]
  | nilPtr => simp [baseCfg, expected, defaults, hd]
  | fresh => simp [baseCfg, expected, defaults, hd]
  | shared =>
    have hb := hB hd f hfm
    simp only [baseCfg, expected, defaults, hd]
    cases h1 : w.hasFill with
    | false =>
      simp only [h1, Bool.false_eq_true, if_false, List.nil_append] at hb ⊢
      rcases hb with hb | hb
      · exact hb
      · exact absurd hb.1 (by simp)
    | true =>
      simp only [if_true]
      rw [get_append, get_append]
      cases hl : List.lookup f w.user with
      | some v => rfl
      | none =>
        rcases hb with hb | hb
        · exact hb
        · rw [hb.2, get_append, hl]

theorem getHeap_shared (sh : Shape) (w : World) (heap : Nat → Cfg) (a b : Nat) (hB : SharedOk sh w heap) :
    SharedOk sh w (getHeap sh w heap a b) := by
  intro hs f hfm
  cases hc : cellOf sh b with
  | none => simp only [getHeap, hc]; exact hB hs f hfm
  | some c =>
    have h0 := cellOf_shared hs hc
    subst h0
    rw [getHeap_cell sh w heap a b 0 hc]
    have hb := hB hs f hfm
    simp only [baseCfg, hs]
    by_cases hfl : (w.hasFill && !w.fillFault a) = true
    · simp only [hfl, if_true]
      have h1 : w.hasFill = true := by simp at hfl; exact hfl.1
      right
      refine ⟨h1, ?_⟩
      rw [get_append, get_append]
      cases hl : List.lookup f w.user with
      | some v => rfl
      | none =>
        rcases hb with hb | hb
        · exact hb
        · rw [hb.2, get_append, hl]
    · simp only [hfl, Bool.false_eq_true, if_false, List.nil_append]
      exact hb

theorem seenOk_nil (sh : Shape) (w : World) (hc : sh.cfg = .none) : SeenOk sh w [] :=
  ⟨fun _ => rfl, fun h => absurd hc h⟩

theorem callSpec_config (sh : Shape) (w : World) (doGet vf pan : Bool) (st : St)
    (hd : doGet = true ∨ sh.cfg = .none) (hB : SharedOk sh w st.heap) :
    SharedOk sh w (callSpec sh w doGet vf pan st).1 ∧
    ∀ p, (callSpec sh w doGet vf pan st).2.2.res = .ok p → SeenOk sh w p.seen := by
  have hBG : SharedOk sh w (if doGet = true then getHeap sh w st.heap st.fills st.next else st.heap) := by
    cases doGet
    · exact hB
    · exact getHeap_shared sh w _ _ _ hB
  unfold callSpec
  by_cases hf : (doGet && fillFails w st.fills) = true
  · simp only [hf, if_true]
    exact ⟨hBG, by cases pan <;> simp [conv]⟩
  · simp only [hf, Bool.false_eq_true, if_false]
    by_cases hcf : ctorFails sh w st.ctors = true
    · simp only [hcf, if_true]
      exact ⟨hBG, by cases pan <;> simp [conv]⟩
    · simp only [hcf, Bool.false_eq_true, if_false]
      -- the config the constructor sees
      have hseen : ∀ copy, (sh.cfg = .none → copy = []) →
          SeenOk sh w (seenOf sh.cfg (if doGet = true then cellOf sh st.next else none) copy
            (if doGet = true then getHeap sh w st.heap st.fills st.next else st.heap)) := by
        intro copy hcopy
        by_cases hc : sh.cfg = .none
        · have : seenOf sh.cfg (if doGet = true then cellOf sh st.next else none) copy
              (if doGet = true then getHeap sh w st.heap st.fills st.next else st.heap) = [] := by
            simp [seenOf, hc, hcopy hc, cellOf_none hc]
          rw [this]; exact seenOk_nil sh w hc
        · have hdg : doGet = true := by rcases hd with h | h; exact h; exact absurd h hc
          subst hdg
          simp only [if_true]
          have hff : fillFails w st.fills = false := by simpa using hf
          obtain ⟨c, hcell⟩ : ∃ c, cellOf sh st.next = some c := by simp [cellOf, hc]
          have ha := getHeap_agree sh w st.heap st.fills st.next c hB hff hcell
          refine ⟨fun h => absurd h hc, fun _ => ?_⟩
          rw [hcell]
          cases hk : sh.cfg with
          | none => exact absurd hk hc
          | struct => simpa [seenOf] using ha
          | ptr => simpa [seenOf] using ha
      cases vf
      · simp only [Bool.not_false, if_true]
        refine ⟨markHeap_shared sh w _ _ _ _ hBG, ?_⟩
        intro p hp
        simp only [Res.ok.injEq] at hp
        subst hp
        exact hseen [] (fun _ => rfl)
      · simp only [Bool.not_true, Bool.false_eq_true, if_false]
        -- seen through the captured config
        have hcap : SeenOk sh w (seenOf sh.cfg
            (capture sh (if doGet = true then cellOf sh st.next else none)
              (if doGet = true then getHeap sh w st.heap st.fills st.next else st.heap)).cell
            (capture sh (if doGet = true then cellOf sh st.next else none)
              (if doGet = true then getHeap sh w st.heap st.fills st.next else st.heap)).copy
            (if doGet = true then getHeap sh w st.heap st.fills st.next else st.heap)) := by
          have := hseen [] (fun _ => rfl)
          generalize (if doGet = true then cellOf sh st.next else none) = cell at this ⊢
          generalize (if doGet = true then getHeap sh w st.heap st.fills st.next else st.heap) = hp at this ⊢
          cases hk : sh.cfg <;> cases cell <;> simp_all [seenOf, capture]
        by_cases hff : factFails sh w st.facts = true
        · simp only [hff, if_true]
          exact ⟨hBG, by cases pan <;> simp [conv]⟩
        · simp only [hff, Bool.false_eq_true, if_false]
          refine ⟨markHeap_shared sh w _ _ _ _ hBG, ?_⟩
          intro p hp
          simp only [Res.ok.injEq] at hp
          subst hp
          exact hcap
theorem capture_seen (sh : Shape) (w : World) (heap : Nat → Cfg) (a b : Nat) (hB : SharedOk sh w heap)
    (hf : fillFails w a = false) :
    SeenOk sh w (seenOf sh.cfg (capture sh (cellOf sh b) (getHeap sh w heap a b)).cell
      (capture sh (cellOf sh b) (getHeap sh w heap a b)).copy (getHeap sh w heap a b)) := by
  by_cases hc : sh.cfg = .none
  · have : seenOf sh.cfg (capture sh (cellOf sh b) (getHeap sh w heap a b)).cell
        (capture sh (cellOf sh b) (getHeap sh w heap a b)).copy (getHeap sh w heap a b) = [] := by
      simp [seenOf, capture, hc, cellOf_none hc]
    rw [this]; exact seenOk_nil sh w hc
  · obtain ⟨c, hcell⟩ : ∃ c, cellOf sh b = some c := by simp [cellOf, hc]
    have ha := getHeap_agree sh w heap a b c hB hf hcell
    refine ⟨fun h => absurd h hc, fun _ => ?_⟩
    rw [hcell]
    cases hk : sh.cfg with
    | none => exact absurd hk hc
    | struct => simpa [seenOf, capture, hk] using ha
    | ptr => simpa [seenOf, capture, hk] using ha

theorem createSpec_config (sh : Shape) (w : World) (n : Nat) (st : St) (hB : SharedOk sh w st.heap) :
    (sh.factory = false → SharedOk sh w (createSpec sh w n st).1) ∧
    ∀ rf, ((createSpec sh w n st).2.2.2 = .ok (.directFactory rf) ∨ (createSpec sh w n st).2.2.2 = .ok (.wrapFactory rf n)) →
      SeenOk sh w (seenOf sh.cfg rf.cell rf.copy (createSpec sh w n st).1) := by
  unfold createSpec
  by_cases hfa : sh.factory = true
  · simp only [hfa, Bool.not_true, Bool.false_eq_true, if_false]
    refine ⟨by simp, ?_⟩
    by_cases hf : fillFails w st.fills = true
    · simp [hf]
    · simp only [hf, Bool.false_eq_true, if_false]
      by_cases hcf : ctorFails sh w st.ctors = true
      · simp [hcf]
      · simp only [hcf, Bool.false_eq_true, if_false]
        have hcap := capture_seen sh w st.heap st.fills st.next hB (by simpa using hf)
        intro rf hrf
        by_cases hty : (sh.iface && (outLen sh.factErr == n)) = true
        · simp only [hty, if_true] at hrf
          rcases hrf with hrf | hrf
          · simp only [Except.ok.injEq, Fac.directFactory.injEq] at hrf
            subst hrf; exact hcap
          · simp at hrf
        · simp only [hty, Bool.false_eq_true, if_false] at hrf
          rcases hrf with hrf | hrf
          · simp at hrf
          · simp only [Except.ok.injEq, Fac.wrapFactory.injEq] at hrf
            rw [← hrf.1]; exact hcap
  · simp only [Bool.not_eq_true] at hfa
    simp only [hfa, Bool.not_false, if_true]
    by_cases hc : sh.cfg = .none
    · simp only [hc, if_true]
      refine ⟨fun _ => hB, ?_⟩
      intro rf hrf
      by_cases hf : fillFails w st.fills = true
      · simp [hf] at hrf
      · by_cases hty : (sh.iface && (outLen sh.ctorErr == n)) = true <;> simp [hf, hty] at hrf
    · simp only [hc, if_false]
      exact ⟨fun _ => hB, by simp⟩

theorem facSpec_config (sh : Shape) (w : World) (rf : RegFac) (pan : Bool) (st : St)
    (hI : SeenOk sh w (seenOf sh.cfg rf.cell rf.copy st.heap)) :
    SeenOk sh w (seenOf sh.cfg rf.cell rf.copy (facSpec sh w rf pan st).1) ∧
    ∀ p, (facSpec sh w rf pan st).2.2.res = .ok p → SeenOk sh w p.seen := by
  unfold facSpec
  by_cases hff : factFails sh w st.facts = true
  · simp only [hff, if_true]
    exact ⟨hI, by cases pan <;> simp [conv]⟩
  · simp only [hff, Bool.false_eq_true, if_false]
    refine ⟨?_, ?_⟩
    · cases hk : sh.cfg with
      | none => simpa [seenOf, markHeap, hk] using hI
      | struct => simpa [seenOf, markHeap, hk] using hI
      | ptr =>
        cases hcell : rf.cell with
        | none => simpa [seenOf, markHeap, hk, hcell] using hI
        | some c =>
          simp only [seenOf, markHeap, upd_same]
          simp only [seenOf, hk, hcell] at hI
          refine ⟨fun h => by simp [hk] at h, fun _ => agree_mark _ (hI.2 (by simp [hk]))⟩
    · intro p hp
      simp only [Res.ok.injEq] at hp
      subst hp
      exact hI

theorem config_component (sh : Shape) (w : World) (k : Nat) :
    ∀ s ∈ (iter (step (regNew sh w)) k (initSt sh w)).2, ∀ p, s.res = .ok p → SeenOk sh w p.seen := by
  have := iter_inv (step (regNew sh w)) (fun st => SharedOk sh w st.heap)
    (fun s => ∀ p, s.res = .ok p → SeenOk sh w p.seen)
    (fun st hI => by
      obtain ⟨t1, _, t3⟩ := tri_step (step_regNew sh w st)
      rw [t1, t3]
      exact callSpec_config sh w true sh.factory false st (.inl rfl) hI) k (initSt sh w) (initSt_shared sh w)
  exact this.2

theorem config_factory (sh : Shape) (w : World) (n k : Nat) (hn : n = 1 ∨ n = 2) (st : St) (hl : st.log = [])
    (hB : SharedOk sh w st.heap) (fac : Fac) (hfac : (regNewFactory sh w n st).2 = .ok fac) :
    ∀ s ∈ (iter (step (callFac sh w fac)) k (regNewFactory sh w n st).1).2, ∀ p, s.res = .ok p → SeenOk sh w p.seen := by
  obtain ⟨q1, _, _, q4⟩ := quad_proj (create_eq sh w n st hl)
  rw [q4] at hfac
  have hok := createSpec_facOk sh w n st fac hfac
  obtain ⟨c1, c2⟩ := createSpec_config sh w n st hB
  cases fac with
  | direct =>
    have := iter_inv (step (callFac sh w .direct)) (fun st => SharedOk sh w st.heap)
      (fun s => ∀ p, s.res = .ok p → SeenOk sh w p.seen)
      (fun st hI => by
        obtain ⟨t1, _, t3⟩ := tri_step (step_direct sh w n hok.2.2 st)
        rw [t1, t3]
        exact callSpec_config sh w false false _ st (.inr hok.2.1) hI) k _ (by rw [q1]; exact c1 hok.1)
    exact this.2
  | wrapPlugin m =>
    obtain ⟨h1, rfl⟩ := hok
    have := iter_inv (step (callFac sh w (.wrapPlugin m))) (fun st => SharedOk sh w st.heap)
      (fun s => ∀ p, s.res = .ok p → SeenOk sh w p.seen)
      (fun st hI => by
        by_cases hc : sh.cfg = .none
        · obtain ⟨t1, _, t3⟩ := tri_step (step_wrapPlugin_none sh w m hn st hc)
          rw [t1, t3]
          exact callSpec_config sh w false false _ st (.inr hc) hI
        · obtain ⟨t1, _, t3⟩ := tri_step (step_wrapPlugin sh w m hn st hc)
          rw [t1, t3]
          exact callSpec_config sh w true false _ st (.inl rfl) hI) k _ (by rw [q1]; exact c1 h1)
    exact this.2
  | directFactory rf =>
    have := iter_inv (step (callFac sh w (.directFactory rf))) (fun st => SeenOk sh w (seenOf sh.cfg rf.cell rf.copy st.heap))
      (fun s => ∀ p, s.res = .ok p → SeenOk sh w p.seen)
      (fun st hI => by
        obtain ⟨t1, _, t3⟩ := tri_step (step_directFactory sh w rf n hok.2 st)
        rw [t1, t3]
        exact facSpec_config sh w rf _ st hI) k _ (by rw [q1]; exact c2 rf (.inl hfac))
    exact this.2
  | wrapFactory rf m =>
    obtain ⟨h1, rfl⟩ := hok
    have := iter_inv (step (callFac sh w (.wrapFactory rf m))) (fun st => SeenOk sh w (seenOf sh.cfg rf.cell rf.copy st.heap))
      (fun s => ∀ p, s.res = .ok p → SeenOk sh w p.seen)
      (fun st hI => by
        obtain ⟨t1, _, t3⟩ := tri_step (step_wrapFactory sh w rf m hn st)
        rw [t1, t3]
        exact facSpec_config sh w rf _ st hI) k _ (by rw [q1]; exact c2 rf (.inr hfac))
    exact this.2
/-! ### C18_once -/

theorem createSpec_once (sh : Shape) (w : World) (n : Nat) (st : St) (hfa : sh.factory = true) (r : Res) :
    onceCreateOk sh w ⟨(createSpec sh w n st).2.2.1, r⟩ = true := by
  unfold createSpec
  simp only [hfa, Bool.not_true, Bool.false_eq_true, if_false]
  by_cases h1 : w.hasFill = true <;> by_cases h2 : w.fillFault st.fills = true <;>
  by_cases hd : (sh.cfg = .none ∨ sh.dflt = .absent) <;> by_cases hcf : ctorFails sh w st.ctors = true <;>
  simp [onceCreateOk, fillFails, fillEvs, dfltEvs, h1, h2, hd, hcf, isDflt, isFill, isCtor, isFact, fillFailed,
    List.countP_cons, List.countP_nil]

theorem facSpec_once (sh : Shape) (w : World) (rf : RegFac) (pan : Bool) (st : St) :
    onceCallOk (facSpec sh w rf pan st).2.2 = true := by
  unfold facSpec
  by_cases hff : factFails sh w st.facts = true <;> simp [hff, onceCallOk, isFact, List.countP_cons]

theorem once_factory (sh : Shape) (w : World) (n k : Nat) (hn : n = 1 ∨ n = 2) (st : St) (hl : st.log = [])
    (hfa : sh.factory = true) :
    (∀ r, onceCreateOk sh w ⟨(regNewFactory sh w n st).1.log.reverse, r⟩ = true) ∧
    ∀ fac, (regNewFactory sh w n st).2 = .ok fac →
      ∀ s ∈ (iter (step (callFac sh w fac)) k (regNewFactory sh w n st).1).2, onceCallOk s = true := by
  obtain ⟨_, _, q3, q4⟩ := quad_proj (create_eq sh w n st hl)
  refine ⟨fun r => by rw [q3]; exact createSpec_once sh w n st hfa r, ?_⟩
  intro fac hfac
  rw [q4] at hfac
  have hok := createSpec_facOk sh w n st fac hfac
  have := iter_inv (step (callFac sh w fac)) (fun _ => True) (fun s => onceCallOk s = true)
    (fun st _ => ⟨trivial, by
      rcases callFac_cases sh w n hn fac hok st with ⟨hf, _⟩ | ⟨_, rf, _, h⟩
      · rw [hfa] at hf; exact absurd hf (by simp)
      · rw [(tri_step h).2.2]; exact facSpec_once sh w rf _ st⟩) k (regNewFactory sh w n st).1 trivial
  exact this.2
/-! ### C18_fresh -/

theorem get_cons_self (k : Nat) (v : Int) (c : Cfg) : Cfg.get ((k, v) :: c) k = v := by
  simp [Cfg.get, List.lookup]

theorem cellOf_fresh {sh : Shape} (hc : sh.cfg ≠ .none) (hs : sh.dflt ≠ .shared) (n : Nat) : cellOf sh n = some n := by
  simp [cellOf, hc, hs]

theorem nextG_fresh {sh : Shape} (hc : sh.cfg ≠ .none) (hs : sh.dflt ≠ .shared) (n : Nat) : nextG sh true n = n + 1 := by
  simp [nextG, hc, hs]

theorem upd_lt (h : Nat → Cfg) {c i : Nat} (v : Cfg) (hlt : i < c) : upd h c v i = h i :=
  upd_ne h v (Nat.ne_of_lt hlt)

@[simp] theorem conv_ne_ok (pan : Bool) (e : Err) (p : Product) : (conv pan e = .ok p) = False := by
  cases pan <;> simp [conv]

@[simp] theorem product?_conv (evs : List Ev) (pan : Bool) (e : Err) : product? ⟨evs, conv pan e⟩ = none := by
  cases pan <;> simp [conv, product?]

@[simp] theorem product?_ok (evs : List Ev) (p : Product) : product? ⟨evs, .ok p⟩ = some p := rfl

@[simp] theorem fillAddr_dflt (sh : Shape) : List.findSome? fillAddrEv (dfltEvs sh) = none := by
  unfold dfltEvs; split <;> simp [fillAddrEv]

@[simp] theorem ctorConf_dflt (sh : Shape) : List.findSome? ctorConfEv (dfltEvs sh) = none := by
  unfold dfltEvs; split <;> simp [ctorConfEv]

set_option maxHeartbeats 1000000 in
theorem callSpec_freshCall (sh : Shape) (w : World) (vf pan : Bool) (st : St)
    (hc : sh.cfg ≠ .none) (hs : sh.dflt ≠ .shared) (hvf : vf = sh.factory) :
    freshCallOk sh w (callSpec sh w true vf pan st).2.2 = true := by
  subst hvf
  unfold callSpec
  simp only [cellOf_fresh hc hs, if_true, Bool.true_and]
  obtain ⟨factory, cfg, ctorErr, factErr, iface, dflt⟩ := sh
  simp only at hc hs
  by_cases h1 : w.hasFill = true <;> by_cases h2 : w.fillFault st.fills = true <;>
  by_cases hcf : (ctorErr && w.ctorFault st.ctors) = true <;>
  by_cases hff : (factErr && w.factFault st.facts) = true <;>
  cases factory <;> cases cfg <;> cases dflt <;>
  simp [freshCallOk, fillFails, ctorFails, factFails, fillEvs, dfltEvs, h1, h2, hcf, hff, isDflt, isFill, isCtor, isFact,
    fillFailed, ctorFailed, fillAddr?, ctorConf?, fillAddrEv, ctorConfEv, prodCell?, shownConf, capture, cellOf,
    List.countP_cons, List.countP_nil, List.findSome?_cons] at hc hs ⊢

set_option maxHeartbeats 1000000 in
/-- allocation facts of one reconfiguring call: the three identities a step can show are the fresh cell, nothing
below the frontier is touched, a pointer-holding product reads its own serial number -/
theorem callSpec_alloc (sh : Shape) (w : World) (vf pan : Bool) (st : St)
    (hc : sh.cfg ≠ .none) (hs : sh.dflt ≠ .shared) :
    (callSpec sh w true vf pan st).2.1 = st.next + 1 ∧
    (∀ c, fillAddr? (callSpec sh w true vf pan st).2.2 = some c → c = st.next) ∧
    (∀ c, ctorConf? (callSpec sh w true vf pan st).2.2 = some c → c = st.next) ∧
    (∀ c, prodCell? (callSpec sh w true vf pan st).2.2 = some c → c = st.next) ∧
    (∀ c, c < st.next → (callSpec sh w true vf pan st).1 c = st.heap c) ∧
    (∀ p, (callSpec sh w true vf pan st).2.2.res = .ok p → ∀ c, p.cell = some c →
      ((callSpec sh w true vf pan st).1 c).get markField = p.serial) := by
  unfold callSpec
  simp only [cellOf_fresh hc hs, nextG_fresh hc hs, if_true, Bool.true_and]
  by_cases h1 : w.hasFill = true <;> by_cases h2 : w.fillFault st.fills = true <;>
  by_cases hcf : ctorFails sh w st.ctors = true <;>
  by_cases hff : factFails sh w st.facts = true <;>
  cases vf <;> cases hk : sh.cfg <;>
  simp (config := { contextual := true }) [fillFails, hcf, hff, h1, h2, hk, fillEvs, fillAddr?, ctorConf?, prodCell?, shownConf, capture,
    cellOf, hs, getHeap, markHeap, upd_lt, get_cons_self, List.findSome?_append, List.findSome?_cons, fillAddrEv, ctorConfEv] at hc ⊢
theorem viewsOf_length (heap : Nat → Cfg) (steps : List Step) :
    (viewsOf heap steps).length = (steps.filterMap prodCell?).length := by
  induction steps with
  | nil => rfl
  | cons s l ih =>
    obtain ⟨evs, res⟩ := s
    simp only [viewsOf, List.filterMap_cons] at ih ⊢
    cases res with
    | ok p =>
      obtain ⟨serial, cell, seen⟩ := p
      cases cell <;> simp [prodCell?, product?, ih]
    | made => simp [prodCell?, product?, ih]
    | err e => simp [prodCell?, product?, ih]
    | panic e => simp [prodCell?, product?, ih]

/-- k successive reconfiguring calls -/
theorem fresh_iter (sh : Shape) (w : World) (vf pan : Bool) (f : St → St × Step)
    (hf : ∀ st, tri (f st) = callSpec sh w true vf pan st)
    (hc : sh.cfg ≠ .none) (hs : sh.dflt ≠ .shared) (hvf : vf = sh.factory) (k : Nat) (st : St) :
    (∀ s ∈ (iter f k st).2, freshCallOk sh w s = true) ∧
    ((iter f k st).2.filterMap fillAddr?).Nodup ∧
    ((iter f k st).2.filterMap ctorConf?).Nodup ∧
    ((iter f k st).2.filterMap prodCell?).Nodup ∧
    ∀ v ∈ viewsOf (iter f k st).1.heap (iter f k st).2, (v.1 : Int) = v.2 := by
  have hall : ∀ st, (f st).1.next = st.next + 1 ∧
      (∀ c, fillAddr? (f st).2 = some c → c = st.next) ∧
      (∀ c, ctorConf? (f st).2 = some c → c = st.next) ∧
      (∀ c, prodCell? (f st).2 = some c → c = st.next) ∧
      (∀ c, c < st.next → (f st).1.heap c = st.heap c) ∧
      (∀ p, (f st).2.res = .ok p → ∀ c, p.cell = some c → ((f st).1.heap c).get markField = p.serial) := by
    intro st
    obtain ⟨t1, t2, t3⟩ := tri_step (hf st)
    rw [t1, t2, t3]
    exact callSpec_alloc sh w vf pan st hc hs
  have hkey : ∀ key : Step → Option Nat, (∀ st c, key (f st).2 = some c → c = st.next) →
      ((iter f k st).2.filterMap key).Nodup := by
    intro key hk
    have := iter_keys f (fun _ => True) key (fun st _ => ⟨trivial, by rw [(hall st).1]; omega, fun c hcc => by
      have := hk st c hcc; rw [(hall st).1]; omega⟩) k st trivial
    exact pairwise_lt_nodup this.2.2
  refine ⟨?_, hkey _ (fun st => (hall st).2.1), hkey _ (fun st => (hall st).2.2.1), hkey _ (fun st => (hall st).2.2.2.1), ?_⟩
  · have := iter_inv f (fun _ => True) (fun s => freshCallOk sh w s = true)
      (fun st _ => ⟨trivial, by rw [(tri_step (hf st)).2.2]; exact callSpec_freshCall sh w vf pan st hc hs hvf⟩) k st trivial
    exact this.2
  · exact iter_views f (fun _ => True) (fun st _ => ⟨trivial, by rw [(hall st).1]; omega, (hall st).2.2.2.2.1,
      fun p c hp hcell => ⟨by
        have : prodCell? (f st).2 = some c := by simp [prodCell?, product?, hp, hcell]
        have := (hall st).2.2.2.1 c this
        rw [(hall st).1]; omega, (hall st).2.2.2.2.2 p hp c hcell⟩⟩) k st trivial

end Pandora.Proofs.C18
