/-
C15 (round 3) — the code of `lib/mp/map.go` (`GetMapValue`'s segment loop, `calcIndex`) and of `scenario.Provider.Run`
as interpreted instruction lists equals the hand-written model; slices of `GetMapValue` are in range; the feed with
`passes` / `limit`.
-/
import Pandora.Model.C15Walk
import Pandora.Spec.C15

namespace Pandora.Proofs.C15
open Pandora.Model.C15
open Pandora.Spec.C15 (feedCount)

/-! ### the segment loop of `GetMapValue` -/

theorem singleton_dot : String.singleton '.' = "." := by decide

theorem walkBy_cons (id : Nat) (seg0 : String) (rest : List String) (cur : List (String × Val)) (key : String) (it : Iter)
    (ih : ∀ c k i, walkBy walkCode id rest c k i = some (walk id rest c k i)) :
    walkBy walkCode id (seg0 :: rest) cur key it = some (walk id (seg0 :: rest) cur key it) := by
  rw [walk, walkBy]
  simp only [walkCode] at ih
  simp only [walkIter, walkCode, runWOps, trimS, singleton_dot, String.toList_ofList, String.append_assoc]
  by_cases hc : ((trimSpace seg0.toList).contains '[' && (trimSpace seg0.toList).getLast? == some ']') = true
  · simp only [hc, if_true, runWOps]
    cases h1 : goSlice (trimSpace seg0.toList) (indexOfC '[' (trimSpace seg0.toList) + 1) (↑(trimSpace seg0.toList).length - 1) with
    | none => simp
    | some inner =>
      simp only []
      cases h2 : goSlice (trimSpace seg0.toList) 0 (indexOfC '[' (trimSpace seg0.toList)) with
      | none => simp
      | some nameL =>
        simp only []
        cases h3 : getKey (String.ofList nameL) cur with
        | none => simp
        | some v =>
          cases v with
          | list xs =>
            simp only []
            cases h4 : calcIndex (lowerS (String.ofList (trimSpace inner))) (key ++ ("." ++ String.ofList (trimSpace seg0.toList))) xs.length id it with
            | err e => simp
            | panic p => simp
            | ok r =>
              obtain ⟨i, it'⟩ := r
              simp only []
              cases h5 : xs[i]? with
              | none => simp
              | some v2 => cases v2 <;> simp [ih] <;> (by_cases hr : rest = [] <;> simp [hr])
          | nil => simp
          | str s => simp
          | num n => simp
          | map m => simp
  · have hc' : ((trimSpace seg0.toList).contains '[' && (trimSpace seg0.toList).getLast? == some ']') = false := by
      simpa using hc
    simp only [hc', Bool.false_eq_true, ↓reduceIte, runWOps]
    cases h3 : getKey (String.ofList (trimSpace seg0.toList)) cur with
    | none => simp
    | some v => cases v <;> simp [ih] <;> (by_cases hr : rest = [] <;> simp [hr])

/-- **the segment loop of `GetMapValue`, interpreted on the code of the repository, is the model's `walk`** -/
theorem walkBy_eq (id : Nat) : ∀ (segs : List String) (cur : List (String × Val)) (key : String) (it : Iter),
    walkBy walkCode id segs cur key it = some (walk id segs cur key it)
  | [], cur, key, it => by rw [walkBy, walk]
  | seg0 :: rest, cur, key, it => walkBy_cons id seg0 rest cur key it (fun c k i => walkBy_eq id rest c k i)

/-! ### the slices of the indexed branch never panic -/

theorem takeWhile_lt (c d : Char) (hdc : d ≠ c) : ∀ (s : List Char), s.contains c = true → s.getLast? = some d →
    (s.takeWhile (· != c)).length + 1 < s.length
  | [], h, _ => by simp at h
  | x :: t, h, hl => by
    by_cases hx : x = c
    · subst hx
      cases t with
      | nil => simp at hl; exact absurd hl.symm hdc
      | cons y t' => simp [List.takeWhile]
    · have hne : (x != c) = true := by simpa using hx
      have ht : t.contains c = true := by
        simp only [List.contains_cons, Bool.or_eq_true] at h
        rcases h with h | h
        · exact absurd (by simpa using h) (fun e : c = x => hx e.symm)
        · exact h
      cases t with
      | nil => simp at ht
      | cons y t' =>
        have hl' : (y :: t').getLast? = some d := by simpa [List.getLast?_cons_cons] using hl
        have := takeWhile_lt c d hdc (y :: t') ht hl'
        simp only [List.takeWhile, hne, List.length_cons] at this ⊢
        omega

/-- under the guard of the indexed branch both slice expressions of `GetMapValue` are in range -/
theorem walk_slices_ok (seg : List Char) (h : (seg.contains '[' && seg.getLast? == some ']') = true) :
    (goSlice seg (indexOfC '[' seg + 1) ((seg.length : Int) - 1)).isSome = true ∧
    (goSlice seg 0 (indexOfC '[' seg)).isSome = true := by
  simp only [Bool.and_eq_true, beq_iff_eq] at h
  obtain ⟨hc, hl⟩ := h
  have := takeWhile_lt '[' ']' (by decide) seg hc hl
  unfold goSlice indexOfC
  simp only [hc, if_true]
  constructor
  · rw [if_pos]; rfl
    omega
  · rw [if_pos]; rfl
    omega

/-! ### `calcIndex` -/

/-- the model's `calcIndex` returns a row number; the code interpreter an `int` -/
def outInt : Outcome (Nat × Iter) → Outcome (Int × Iter)
  | .ok (i, it) => .ok ((i : Int), it)
  | .err e => .err e
  | .panic p => .panic p

theorem numericIdx_nonneg (i : Int) (len : Nat) (hl : len ≠ 0) : 0 ≤ numericIdx i len := by
  unfold numericIdx
  split
  · omega
  · have h1 := Int.lt_tmod_of_pos i (show (0 : Int) < len by omega)
    simp only []
    split <;> omega

theorem runCOps_eq (indexStr seg : String) (len id : Nat) (it : Iter) :
    runCOps indexStr seg len id calcCode none it = some (outInt (calcIndex indexStr seg len id it)) := by
  unfold calcCode calcIndex
  simp only [runCOps, List.contains_cons, List.contains_nil, Bool.or_false]
  by_cases hl : indexStr = "last" <;> by_cases hr : indexStr = "rand" <;> by_cases hn : indexStr = "next" <;>
    by_cases h0 : len = 0 <;> cases hnum : atoi indexStr.toList <;>
    simp [hl, hr, hn, h0, outInt]
  all_goals first
    | omega
    | (split <;> rfl)
    | (rename_i v
       have hnn := numericIdx_nonneg v len h0
       unfold numericIdx at hnn ⊢
       split
       · rename_i hc; simp only [Int.toNat_of_nonneg hc.1]
       · rename_i hc
         simp only [if_neg hc] at hnn
         simp only [Int.toNat_of_nonneg hnn])

/-! ### `Provider.Run` with `passes` / `limit` -/

/-- the two stop conditions of `Provider.Run` at loop counter `j` -/
def feedStop (passes limit len j : Nat) : Bool := (passes != 0 && j / len ≥ passes) || (limit != 0 && j ≥ limit)

theorem feedStop_iff (passes limit len j : Nat) (hl : 0 < len) :
    feedStop passes limit len j = true ↔ (passes ≠ 0 ∧ passes * len ≤ j) ∨ (limit ≠ 0 ∧ limit ≤ j) := by
  unfold feedStop
  simp only [Bool.or_eq_true, Bool.and_eq_true, bne_iff_ne, ne_eq, decide_eq_true_eq, ge_iff_le,
    Nat.le_div_iff_mul_le hl]

theorem deliver_nonempty {α} (ring : List α) (hne : ring.length ≠ 0) (j : Nat) :
    ∃ a, ring[j % ring.length]? = some a ∧ deliver ring j = some a := by
  have hlt : j % ring.length < ring.length := Nat.mod_lt _ (by omega)
  refine ⟨ring[j % ring.length], by simp [hlt], ?_⟩
  unfold deliver
  simp [hne, hlt]

theorem feedLoop_spec {α} (ring : List α) (hne : ring.length ≠ 0) (p l : Nat) : ∀ (fuel k : Nat),
    ∃ m, m ≤ fuel ∧ feedLoop ring p l fuel k = (List.range' k m).filterMap (deliver ring) ∧
      (m < fuel → feedStop p l ring.length (k + m) = true) ∧ (∀ j, j < m → feedStop p l ring.length (k + j) = false)
  | 0, k => ⟨0, Nat.le_refl _, by simp [feedLoop], by simp, by simp⟩
  | fuel + 1, k => by
    by_cases hs : feedStop p l ring.length k = true
    · refine ⟨0, by omega, ?_, fun _ => by simpa using hs, by simp⟩
      unfold feedStop at hs
      simp only [Bool.or_eq_true, Bool.and_eq_true] at hs
      rw [feedLoop]
      rcases hs with hs | hs
      · simp [hs.1, hs.2]
      · simp only [hs.1, hs.2, Bool.and_self, if_true]
        split <;> simp
    · obtain ⟨m, hm, he, h1, h2⟩ := feedLoop_spec ring hne p l fuel (k + 1)
      obtain ⟨a, ha, hd⟩ := deliver_nonempty ring hne k
      have hs' : feedStop p l ring.length k = false := by simpa using hs
      refine ⟨m + 1, by omega, ?_, ?_, ?_⟩
      · unfold feedStop at hs'
        simp only [Bool.or_eq_false_iff] at hs'
        rw [feedLoop]
        simp only [hs'.1, hs'.2, Bool.false_eq_true, if_false, ha, he]
        simp [List.range'_succ, hd]
      · intro hlt
        have := h1 (by omega)
        rwa [show k + (m + 1) = k + 1 + m by omega]
      · intro j hj
        cases j with
        | zero => simpa using hs'
        | succ j' =>
          have := h2 j' (by omega)
          rwa [show k + (j' + 1) = k + 1 + j' by omega]

/-- **the feed of `Provider.Run` with `passes` / `limit`**: a consumer taking at most `n` ammo receives deliveries
0 … m−1 of the unlimited feed, where m ≤ n is the first loop counter at which a stop condition holds (or n) -/
theorem feed_spec {α} (ring : List α) (hne : ring.length ≠ 0) (p l n : Nat) :
    ∃ m, m ≤ n ∧ feed ring p l n = (List.range m).filterMap (deliver ring) ∧
      (m < n → feedStop p l ring.length m = true) ∧ (∀ j, j < m → feedStop p l ring.length j = false) := by
  obtain ⟨m, hm, he, h1, h2⟩ := feedLoop_spec ring hne p l n 0
  refine ⟨m, hm, ?_, by simpa using h1, by simpa using h2⟩
  unfold feed
  simp only [beq_iff_eq, hne, if_false, he, List.range_eq_range']

theorem length_deliveries {α} (ring : List α) (hne : ring.length ≠ 0) (m : Nat) :
    ((List.range m).filterMap (deliver ring)).length = m := by
  induction m with
  | zero => rfl
  | succ k ih =>
    obtain ⟨a, _, hd⟩ := deliver_nonempty ring hne k
    rw [List.range_succ, List.filterMap_append, List.length_append, ih]
    simp [hd]

theorem feed_length {α} (ring : List α) (hne : ring.length ≠ 0) (p l n : Nat) :
    (feed ring p l n).length = feedCount ring.length p l n := by
  obtain ⟨m, hm, he, h1, h2⟩ := feed_spec ring hne p l n
  have hlen : (feed ring p l n).length = m := by rw [he]; exact length_deliveries ring hne m
  rw [hlen]
  have hpos : 0 < ring.length := by omega
  have hstop := fun j => feedStop_iff p l ring.length j hpos
  unfold feedCount
  generalize hB : p * ring.length = B at hstop
  have hm1 : m < n → ((p ≠ 0 ∧ B ≤ m) ∨ (l ≠ 0 ∧ l ≤ m)) := fun h => (hstop m).mp (h1 h)
  have hm2 : 0 < m → ¬ ((p ≠ 0 ∧ B ≤ m - 1) ∨ (l ≠ 0 ∧ l ≤ m - 1)) := fun h hh => by
    have := h2 (m - 1) (by omega)
    rw [(hstop (m - 1)).mpr hh] at this
    cases this
  by_cases hp : p = 0 <;> by_cases hl : l = 0 <;> simp [hp, hl] <;> omega

/-! ### one mapping entry of `Preprocessor.Process` -/

theorem resolveEntry_path (fn : String → List Val → Option String) (vars : List (String × Val)) (v : String) (id : Nat) (it : Iter)
    (h : funcNames.contains (String.ofList (parseStrF v.toList).1) = false) :
    resolveEntry fn vars v id it = getMapValue vars v id it := by
  unfold resolveEntry resolveEntryBy
  simp only [h, Bool.and_false, Bool.false_eq_true, if_false]

theorem resolveEntry_func (fn : String → List Val → Option String) (vars : List (String × Val)) (v : String) (id : Nat) (it : Iter)
    (h : funcNames.contains (String.ofList (parseStrF v.toList).1) = true) :
    resolveEntry fn vars v id it =
      match fn (String.ofList (parseStrF v.toList).1)
          (resolveArgs vars id ((parseStrF v.toList).2.map String.ofList) it).1 with
      | some s => .ok (.str s, (resolveArgs vars id ((parseStrF v.toList).2.map String.ofList) it).2)
      | none => .err "template-func" := by
  unfold resolveEntry resolveEntryBy
  simp only [h, entryCode, Bool.and_self, if_true]
  rfl

end Pandora.Proofs.C15
