/-
C02, concurrent part: for EVERY number of callers, EVERY program of Next/Left calls per caller and EVERY
interleaving of the atomic sections, a composite over finite parts hands out exactly the tokens of the flat
succession of its parts, in order, each once; nothing is dropped; every "finished" answer carries the one
finish time.  Proof: an invariant of `Conc.step`, induction over the schedule.
-/
import Pandora.Model.C02Conc

namespace Pandora.Proofs.C02Conc
open Pandora.Model.C02 Pandora.Model.C02.Conc

/-! ### chains of finite parts -/

def UnstartedFin : Leaf → Prop
  | .fin _ _ 0 none => True
  | _ => False

/-- tokens still to come when the head part started at `s` and every later part starts at the finish of its predecessor -/
def chainToks : Int → List Leaf → List Int
  | _, [] => []
  | s, .fin offs dur i _ :: rest => (offs.drop i).map (s + ·) ++ chainToks (s + dur) rest
  | s, .unl _ _ :: rest => chainToks s rest

def chainFinish : Int → List Leaf → Int
  | s, [] => s
  | s, .fin _ dur _ _ :: rest => chainFinish (s + dur) rest
  | s, .unl _ _ :: rest => chainFinish s rest

/-- shared-state invariant: `done` = tokens handed out so far (oldest first) -/
def ShInv (cs : List Leaf) (done E : List Int) (F : Int) : Prop :=
  ∃ offs dur i s rest, cs = Leaf.fin offs dur i (some s) :: rest ∧ (∀ r ∈ rest, UnstartedFin r) ∧
    done ++ chainToks s cs = E ∧ chainFinish s cs = F

def HeadExhausted (cs : List Leaf) (tx : Int) : Prop :=
  ∃ offs dur i s rest, cs = Leaf.fin offs dur i (some s) :: rest ∧ offs.length ≤ i ∧ tx = s + dur

def PcInv (cs : List Leaf) : Pc → Prop
  | .idle => True
  | .nextW tx seen => 2 ≤ seen ∧ cs.length ≤ seen ∧ (cs.length = seen → HeadExhausted cs tx)
  | .leftW seen => 2 ≤ seen ∧ cs.length ≤ seen ∧ (cs.length = seen → ∃ tx, HeadExhausted cs tx)

/-- the children list only ever advances: it gets shorter, or keeps its length and an exhausted head stays so -/
def Adv (cs cs' : List Leaf) : Prop :=
  cs'.length < cs.length ∨ (cs'.length = cs.length ∧ ∀ tx, HeadExhausted cs tx → HeadExhausted cs' tx)

theorem Adv.refl (cs : List Leaf) : Adv cs cs := Or.inr ⟨rfl, fun _ h => h⟩

theorem PcInv.adv {cs cs' : List Leaf} {pc : Pc} (h : PcInv cs pc) (a : Adv cs cs') : PcInv cs' pc := by
  cases pc with
  | idle => trivial
  | nextW tx seen =>
    obtain ⟨h2, hle, hex⟩ := h
    rcases a with hlt | ⟨heq, hk⟩
    · exact ⟨h2, by omega, fun h' => by omega⟩
    · exact ⟨h2, by omega, fun h' => hk tx (hex (by omega))⟩
  | leftW seen =>
    obtain ⟨h2, hle, hex⟩ := h
    rcases a with hlt | ⟨heq, hk⟩
    · exact ⟨h2, by omega, fun h' => by omega⟩
    · exact ⟨h2, by omega, fun h' => by obtain ⟨tx, ht⟩ := hex (by omega); exact ⟨tx, hk tx ht⟩⟩

/-! ### the leaf step on a started finite head -/

theorem leafNext_fin (offs : List Int) (dur : Int) (i : Nat) (s now : Int) :
    leafNext (.fin offs dur i (some s)) now =
      match offs[i]? with
      | some o => (.fin offs dur (i + 1) (some s), s + o, true)
      | none => (.fin offs dur (i + 1) (some s), s + dur, false) := by
  unfold leafNext Leaf.next
  cases h : offs[i]? <;> simp [h]

theorem drop_of_get {offs : List Int} {i : Nat} {o : Int} (h : offs[i]? = some o) :
    offs.drop i = o :: offs.drop (i + 1) := by
  have hi : i < offs.length := by
    rcases Nat.lt_or_ge i offs.length with h' | h'
    · exact h'
    · rw [List.getElem?_eq_none h'] at h; cases h
  rw [List.getElem?_eq_getElem hi] at h
  cases h
  exact (List.drop_eq_getElem_cons hi)

theorem drop_of_none {offs : List Int} {i : Nat} (h : offs[i]? = none) : offs.length ≤ i := by
  exact List.getElem?_eq_none_iff.mp h

theorem chainToks_exhausted (s : Int) (offs : List Int) (dur : Int) (i : Nat) (st : Option Int)
    (rest : List Leaf) (h : offs.length ≤ i) :
    chainToks s (.fin offs dur i st :: rest) = chainToks (s + dur) rest := by
  simp [chainToks, List.drop_eq_nil_of_le h]

/-- one `Next` on the head, when it yields a token -/
theorem head_ok {offs dur i s rest done E F o}
    (hinv : ShInv (Leaf.fin offs dur i (some s) :: rest) done E F) (h : offs[i]? = some o) :
    ShInv (Leaf.fin offs dur (i + 1) (some s) :: rest) (done ++ [s + o]) E F := by
  obtain ⟨offs', dur', i', s', rest', hcs, hun, hE, hF⟩ := hinv
  cases hcs
  refine ⟨offs, dur, i + 1, s, rest, rfl, hun, ?_, ?_⟩
  · rw [← hE]; simp [chainToks, drop_of_get h]
  · simpa [chainFinish] using hF

/-- one `Next` on an exhausted head changes nothing observable -/
theorem head_none {offs dur i s rest done E F}
    (hinv : ShInv (Leaf.fin offs dur i (some s) :: rest) done E F) (h : offs.length ≤ i) :
    ShInv (Leaf.fin offs dur (i + 1) (some s) :: rest) done E F := by
  obtain ⟨offs', dur', i', s', rest', hcs, hun, hE, hF⟩ := hinv
  cases hcs
  refine ⟨offs, dur, i + 1, s, rest, rfl, hun, ?_, ?_⟩
  · rw [← hE, chainToks_exhausted _ _ _ _ _ _ h, chainToks_exhausted _ _ _ _ _ _ (by omega)]
  · simpa [chainFinish] using hF

theorem adv_head (offs : List Int) (dur : Int) (i : Nat) (s : Int) (rest : List Leaf) :
    Adv (Leaf.fin offs dur i (some s) :: rest) (Leaf.fin offs dur (i + 1) (some s) :: rest) := by
  refine Or.inr ⟨rfl, ?_⟩
  rintro tx ⟨o', d', i', s', r', hcs, hle, htx⟩
  cases hcs
  exact ⟨offs, dur, i + 1, s, rest, rfl, by omega, htx⟩

/-- `startNext` on an exhausted head: the chain is unchanged, the list is shorter -/
theorem startNext_ok {offs dur i s h t la st done E F}
    (hinv : ShInv (Leaf.fin offs dur i (some s) :: h :: t) done E F) (hex : offs.length ≤ i) :
    ∃ offs2 dur2, h = Leaf.fin offs2 dur2 0 none ∧
      startNext ⟨Leaf.fin offs dur i (some s) :: h :: t, la, st⟩ (s + dur) =
        .ok ⟨Leaf.fin offs2 dur2 0 (some (s + dur)) :: t, la.tail, st⟩ ∧
      ShInv (Leaf.fin offs2 dur2 0 (some (s + dur)) :: t) done E F := by
  obtain ⟨offs', dur', i', s', rest', hcs, hun, hE, hF⟩ := hinv
  cases hcs
  have hh := hun h (by simp)
  match h, hh with
  | .fin offs2 dur2 0 none, _ =>
    refine ⟨offs2, dur2, rfl, ?_, ?_⟩
    · simp [startNext, Leaf.start]; rfl
    · refine ⟨offs2, dur2, 0, s + dur, t, rfl, fun r hr => hun r (by simp [hr]), ?_, ?_⟩
      · rw [← hE, chainToks_exhausted _ _ _ _ _ _ hex]; simp [chainToks]
      · simpa [chainFinish] using hF

/-! ### the four sections -/

/-- what a section's outcome must satisfy, given `done` tokens handed out before it -/
def OutOK (cs' : List Leaf) (done E : List Int) (F : Int) : Out → Prop
  | .ret (.tok tx true) => ShInv cs' (done ++ [tx]) E F
  | .ret (.tok tx false) => ShInv cs' done E F ∧ tx = F
  | .ret (.cnt _) => ShInv cs' done E F
  | .ret (.panic _) => False
  | .ret .parked => False
  | .park pc => ShInv cs' done E F ∧ PcInv cs' pc

theorem nextReader_ok {cs la st done E F} (now : Int) (hinv : ShInv cs done E F) :
    OutOK (nextReader ⟨cs, la, st⟩ now).1.cs done E F (nextReader ⟨cs, la, st⟩ now).2 ∧
      Adv cs (nextReader ⟨cs, la, st⟩ now).1.cs := by
  obtain ⟨offs, dur, i, s, rest, hcs, hun, hE, hF⟩ := hinv
  subst hcs
  have hinv : ShInv (Leaf.fin offs dur i (some s) :: rest) done E F := ⟨offs, dur, i, s, rest, rfl, hun, hE, hF⟩
  unfold nextReader
  simp only [leafNext_fin]
  cases hget : offs[i]? with
  | some o =>
    simp only [if_true]
    exact ⟨head_ok hinv hget, adv_head ..⟩
  | none =>
    have hex := drop_of_none hget
    have hinv' := head_none hinv hex
    cases rest with
    | nil =>
      simp only [List.isEmpty_nil, if_true, Bool.false_eq_true, if_false]
      refine ⟨⟨hinv', ?_⟩, adv_head ..⟩
      rw [← hF]; simp [chainFinish]
    | cons h t =>
      simp only [List.isEmpty_cons, Bool.false_eq_true, if_false]
      refine ⟨⟨hinv', ?_, ?_, ?_⟩, adv_head ..⟩
      · simp
      · simp
      · intro _; exact ⟨offs, dur, i + 1, s, h :: t, rfl, by omega, rfl⟩

theorem nextWriter_ok {cs la st done E F tx seen} (now : Int) (hinv : ShInv cs done E F)
    (hpc : PcInv cs (.nextW tx seen)) :
    OutOK (nextWriter ⟨cs, la, st⟩ tx seen now).1.cs done E F (nextWriter ⟨cs, la, st⟩ tx seen now).2 ∧
      Adv cs (nextWriter ⟨cs, la, st⟩ tx seen now).1.cs := by
  obtain ⟨hge2, hle, hex⟩ := hpc
  obtain ⟨offs, dur, i, s, rest, hcs, hun, hE, hF⟩ := hinv
  subst hcs
  have hinv : ShInv (Leaf.fin offs dur i (some s) :: rest) done E F := ⟨offs, dur, i, s, rest, rfl, hun, hE, hF⟩
  unfold nextWriter
  by_cases hlt : (Leaf.fin offs dur i (some s) :: rest).length < seen
  · -- somebody shifted before us
    simp only [hlt, if_true, leafNext_fin]
    cases hget : offs[i]? with
    | some o =>
      simp only [Bool.true_or, if_true]
      exact ⟨head_ok hinv hget, adv_head ..⟩
    | none =>
      have hexh := drop_of_none hget
      have hinv' := head_none hinv hexh
      cases rest with
      | nil =>
        simp only [List.length_singleton, Bool.false_or, beq_self_eq_true, if_true]
        refine ⟨⟨hinv', ?_⟩, adv_head ..⟩
        rw [← hF]; simp [chainFinish]
      | cons h t =>
        have : ((Leaf.fin offs dur i (some s) :: h :: t).length == 1) = false := by simp
        simp only [this, Bool.or_self, Bool.false_eq_true, if_false]
        have hr := nextReader_ok (la := la) (st := st) now hinv'
        have hadv : Adv (Leaf.fin offs dur i (some s) :: h :: t) (Leaf.fin offs dur (i + 1) (some s) :: h :: t) := adv_head ..
        refine ⟨hr.1, ?_⟩
        rcases hr.2 with h1 | ⟨h1, h2⟩
        · exact Or.inl (by simpa using h1)
        · exact Or.inr ⟨by simpa using h1, fun tx' ht => h2 tx' (by
            rcases hadv with hh | ⟨_, hh⟩
            · simp at hh
            · exact hh tx' ht)⟩
  · -- nobody shifted: the head is the exhausted one we saw
    have heq : (Leaf.fin offs dur i (some s) :: rest).length = seen := by omega
    obtain ⟨o', d', i', s', r', hcs', hexh, htx⟩ := hex heq
    cases hcs'
    simp only [hlt, if_false]
    cases rest with
    | nil => simp at heq; omega
    | cons h t =>
      obtain ⟨offs2, dur2, hh, hstart, hinv2⟩ := startNext_ok (la := la) (st := st) hinv hexh
      subst htx
      rw [hstart]
      simp only [leafNext_fin]
      have hshort : Adv (Leaf.fin offs dur i (some s) :: h :: t) (Leaf.fin offs2 dur2 (0 + 1) (some (s + dur)) :: t) :=
        Or.inl (by simp)
      cases hget : offs2[0]? with
      | some o =>
        simp only [if_true]
        exact ⟨head_ok hinv2 hget, hshort⟩
      | none =>
        simp only [Bool.false_eq_true, if_false]
        have hinv3 := head_none hinv2 (drop_of_none hget)
        have hr := nextReader_ok (la := la.tail) (st := st) now hinv3
        refine ⟨hr.1, ?_⟩
        rcases hr.2 with h1 | ⟨h1, _⟩
        · exact Or.inl (by simp at h1 ⊢; omega)
        · exact Or.inl (by simp at h1 ⊢; omega)

theorem leafLeft_fin (offs : List Int) (dur : Int) (i : Nat) (st : Option Int) (now : Int) :
    leafLeft (.fin offs dur i st) now = ((offs.length - i : Nat) : Int) := by
  simp [leafLeft, Leaf.left]

theorem leftReader_ok {cs la st done E F} (now : Int) (hinv : ShInv cs done E F) :
    OutOK cs done E F (leftReader ⟨cs, la, st⟩ now) := by
  obtain ⟨offs, dur, i, s, rest, hcs, hun, hE, hF⟩ := hinv
  subst hcs
  have hinv : ShInv (Leaf.fin offs dur i (some s) :: rest) done E F := ⟨offs, dur, i, s, rest, rfl, hun, hE, hF⟩
  unfold leftReader
  simp only [leafLeft_fin]
  cases rest with
  | nil => simpa [OutOK] using hinv
  | cons h t =>
    simp only [List.isEmpty_cons, Bool.false_eq_true, if_false]
    split
    · rename_i hz
      split
      · exact hinv
      · split
        · exact hinv
        · refine ⟨hinv, by simp, by simp, fun _ => ⟨s + dur, offs, dur, i, s, h :: t, rfl, ?_, rfl⟩⟩
          have : ((offs.length - i : Nat) : Int) = 0 := by simpa using hz
          omega
    · split
      · exact hinv
      · exact hinv

theorem leftWriter_ok {cs la st done E F seen} (now : Int) (hinv : ShInv cs done E F)
    (hpc : PcInv cs (.leftW seen)) :
    OutOK (leftWriter ⟨cs, la, st⟩ seen now).1.cs done E F (leftWriter ⟨cs, la, st⟩ seen now).2 ∧
      Adv cs (leftWriter ⟨cs, la, st⟩ seen now).1.cs := by
  obtain ⟨hge2, hle, hex⟩ := hpc
  unfold leftWriter
  by_cases heq : cs.length = seen
  · obtain ⟨tx, offs, dur, i, s, rest, hcs, hexh, htx⟩ := hex heq
    subst hcs
    have hb : ((Leaf.fin offs dur i (some s) :: rest).length == seen) = true := by simpa using heq
    simp only [hb, if_true, leafNext_fin]
    have hnone : offs[i]? = none := List.getElem?_eq_none hexh
    simp only [hnone, Bool.false_eq_true, if_false]
    have hinv' := head_none hinv hexh
    cases rest with
    | nil => simp at heq; omega
    | cons h t =>
      obtain ⟨offs2, dur2, hh, hstart, hinv2⟩ := startNext_ok (la := la) (st := st) hinv' (by omega : offs.length ≤ i + 1)
      rw [hstart]
      exact ⟨leftReader_ok now hinv2, Or.inl (by simp)⟩
  · have hb : (cs.length == seen) = false := by simpa using heq
    simp only [hb, Bool.false_eq_true, if_false]
    exact ⟨leftReader_ok now hinv, Adv.refl _⟩

/-! ### the global invariant -/

/-- tokens handed out so far, oldest first -/
def okToks (log : List (Nat × Ret)) : List Int :=
  log.reverse.filterMap fun e => match e.2 with | .tok tx true => some tx | _ => none

theorem okToks_cons (e : Nat × Ret) (log : List (Nat × Ret)) :
    okToks (e :: log) = okToks log ++ (match e.2 with | .tok tx true => [tx] | _ => []) := by
  unfold okToks
  rw [List.reverse_cons, List.filterMap_append]
  congr 1
  rcases e with ⟨i, r⟩
  cases r with
  | tok tx ok => cases ok <;> simp
  | _ => simp

def LogOK (F : Int) (e : Nat × Ret) : Prop :=
  match e.2 with
  | .tok tx false => tx = F
  | .panic _ => False
  | _ => True

def Inv (E : List Int) (F : Int) (st : St) : Prop :=
  ShInv st.cs (okToks st.log) E F ∧ (∀ th ∈ st.thr, PcInv st.cs th.pc) ∧ (∀ e ∈ st.log, LogOK F e)

theorem mem_setNth {l : List Thread} {i : Nat} {x y : Thread} (h : y ∈ setNth l i x) : y ∈ l ∨ y = x := by
  unfold setNth at h
  exact List.mem_or_eq_of_mem_set h

/-- how a section's outcome is folded back into the global state -/
theorem apply_out {E F} {st : St} {i : Nat} {th : Thread} {more : List Op} {sh' : Sh} {out : Out}
    (hinv : Inv E F st) (hok : OutOK sh'.cs (okToks st.log) E F out) (hadv : Adv st.cs sh'.cs) :
    Inv E F (applyOut st i th more sh' out) := by
  unfold applyOut
  obtain ⟨_, hthr, hlog⟩ := hinv
  cases out with
  | park pc =>
    obtain ⟨hsh, hpc⟩ := hok
    refine ⟨?_, ?_, ?_⟩
    · simpa [okToks_cons] using hsh
    · intro y hy
      rcases mem_setNth hy with hy | rfl
      · exact (hthr y hy).adv hadv
      · exact hpc
    · intro e he
      rcases List.mem_cons.mp he with rfl | he
      · simp [LogOK]
      · exact hlog e he
  | ret r =>
    have hthr' : ∀ y ∈ setNth st.thr i { pc := .idle, todo := more, rets := r :: th.rets }, PcInv sh'.cs y.pc := by
      intro y hy
      rcases mem_setNth hy with hy | rfl
      · exact (hthr y hy).adv hadv
      · trivial
    cases r with
    | tok tx ok =>
      cases ok with
      | true =>
        have hok' : ShInv sh'.cs (okToks st.log ++ [tx]) E F := hok
        refine ⟨by simpa [okToks_cons] using hok', hthr', ?_⟩
        intro e he
        rcases List.mem_cons.mp he with rfl | he
        · simp [LogOK]
        · exact hlog e he
      | false =>
        obtain ⟨hsh, htx⟩ := hok
        refine ⟨by simpa [okToks_cons] using hsh, hthr', ?_⟩
        intro e he
        rcases List.mem_cons.mp he with rfl | he
        · simpa [LogOK] using htx
        · exact hlog e he
    | cnt n =>
      have hok' : ShInv sh'.cs (okToks st.log) E F := hok
      refine ⟨by simpa [okToks_cons] using hok', hthr', ?_⟩
      intro e he
      rcases List.mem_cons.mp he with rfl | he
      · simp [LogOK]
      · exact hlog e he
    | panic m => exact absurd hok (by simp [OutOK])
    | parked => exact absurd hok (by simp [OutOK])

theorem section_ok {E F} {st : St} (now : Int) (pc : Pc) (op : Op) (hinv : Inv E F st) (hpc : PcInv st.cs pc) :
    OutOK (runSection ⟨st.cs, st.la, st.started⟩ pc op now).1.cs (okToks st.log) E F
        (runSection ⟨st.cs, st.la, st.started⟩ pc op now).2 ∧
      Adv st.cs (runSection ⟨st.cs, st.la, st.started⟩ pc op now).1.cs := by
  unfold runSection
  cases pc with
  | idle =>
    cases op with
    | next => exact nextReader_ok now hinv.1
    | left => exact ⟨leftReader_ok now hinv.1, Adv.refl _⟩
  | nextW tx seen => exact nextWriter_ok now hinv.1 hpc
  | leftW seen => exact leftWriter_ok now hinv.1 hpc

theorem step_inv {E F} (now : Int) (st : St) (i : Nat) (hinv : Inv E F st) : Inv E F (step now st i) := by
  unfold step
  cases hth : st.thr[i]? with
  | none => simpa using hinv
  | some th =>
    have hmem : th ∈ st.thr := List.mem_of_getElem? hth
    have hpc := hinv.2.1 th hmem
    cases htodo : th.todo with
    | nil => simpa [htodo] using hinv
    | cons op more =>
      have h := section_ok now th.pc op hinv hpc
      simp only [htodo]
      exact apply_out hinv h.1 h.2

theorem run_inv {E F} (now : Int) (sched : List Nat) (st : St) (hinv : Inv E F st) : Inv E F (run now st sched) := by
  unfold run
  induction sched generalizing st with
  | nil => simpa using hinv
  | cons i rest ih => exact ih (step now st i) (step_inv now st i hinv)

end Pandora.Proofs.C02Conc
