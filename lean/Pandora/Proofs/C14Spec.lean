/-
C14: lemmas that connect the model (`Model.C14`) with the executable Spec (`Spec.C14`) and the driver's view of a
model outcome (`Drv.C14`), and the analysis of the pre-repair streaming loop on a file from which nothing is chosen.
Core Lean only.
-/
import Pandora.Proofs.C14
import Pandora.Drv.C14

namespace Pandora.Proofs.C14
open Pandora.Model.C08 hiding fullScan httpRun runFuel run
open Pandora.Model.C14 Pandora.Proofs.C08

variable {α β : Type}

/-! ## chosen-case filter -/

/-- `isChosen` with a non-empty chosencases list is membership of the tag -/
theorem isChosen_iff_mem (cases : List String) (hc : cases ≠ []) (e : Entry) :
    isChosen cases e = true ↔ e.tag ∈ cases := by
  unfold isChosen
  have : cases.length ≠ 0 := fun h => hc (List.eq_nil_of_length_eq_zero h)
  rw [if_neg this]
  simp [List.any_eq_true]

/-- without chosencases every entry is chosen -/
theorem isChosen_nil (e : Entry) : isChosen [] e = true := by simp [isChosen]

theorem filter_isChosen_eq_mem (cases : List String) (hc : cases ≠ []) (file : List Entry) :
    file.filter (isChosen cases) = file.filter (fun e => decide (e.tag ∈ cases)) := by
  apply List.filter_congr
  intro e _
  by_cases h : e.tag ∈ cases
  · simp [h, (isChosen_iff_mem cases hc e).mpr h]
  · have : isChosen cases e = false := by
      cases hx : isChosen cases e with
      | false => rfl
      | true => exact absurd ((isChosen_iff_mem cases hc e).mp hx) h
    simp [h, this]

theorem filter_isChosen_nil (file : List Entry) : file.filter (isChosen []) = file := by
  rw [List.filter_eq_self]; intro e _; exact isChosen_nil e

/-! ## stopping count -/

theorem target_none_iff (l p f : Nat) : target l p f none = none ↔ l = 0 ∧ p = 0 := by
  unfold target
  by_cases h : l = 0 ∧ p = 0 <;> simp [h]

theorem target_some_ne_none (l p f c : Nat) : target l p f (some c) ≠ none := by
  unfold target
  simp only
  split <;> simp

theorem expected_eq_target (l p f : Nat) (hf : 0 < f) : Spec.C14.expected l p f = target l p f none := by
  unfold Spec.C14.expected target
  cases l with
  | zero =>
    cases p with
    | zero => simp
    | succ p => simp [minPlus]
  | succ l =>
    cases p with
    | zero => simp [minPlus]
    | succ p =>
      have : (p + 1) * f ≠ 0 := Nat.ne_of_gt (Nat.mul_pos (by omega) hf)
      simp [minPlus, this]

/-! ## the Spec's view of a cell = the model's -/

theorem map_rep (g : α → β) (q : Nat) (F : List α) : (rep q F).map g = rep q (F.map g) := by
  induction q with
  | zero => simp
  | succ q ih => rw [rep_succ, rep_succ, List.map_append, ih]

theorem map_cycTake (g : α → β) (F : List α) (t : Nat) : (cycTake F t).map g = cycTake (F.map g) t := by
  unfold cycTake
  rw [List.map_take, map_rep]

/-- `p` whole passes: the first `p · |F|` elements of the endless repetition are `p` copies of `F` -/
theorem cycTake_full (F : List α) (p : Nat) (hf : 0 < F.length) : cycTake F (p * F.length) = rep p F := by
  rw [cycTake_eq F (p * F.length) p hf (Nat.le_refl _)]
  exact List.take_of_length_le (by simp)

theorem chosenIds_zip (cases : List String) (is : List Nat) (ts : List String) :
    ((List.zipWith (fun i t => (⟨i, t⟩ : Entry)) is ts).filter (isChosen cases)).map (·.id)
      = (is.zip ts).filterMap (fun (x : Nat × String) => if Spec.C14.isChosenTag cases x.2 then some x.1 else none) := by
  induction is generalizing ts with
  | nil => simp
  | cons i is ih =>
    cases ts with
    | nil => simp
    | cons t ts =>
      have hsame : isChosen cases ⟨i, t⟩ = Spec.C14.isChosenTag cases t := rfl
      simp only [List.zipWith_cons_cons, List.zip_cons_cons, List.filter_cons, List.filterMap_cons, hsame]
      cases h : Spec.C14.isChosenTag cases t <;> simp [ih]

/-- the Spec's chosen ids are the ids of the model's chosen entries -/
theorem chosenIds_eq (tags cases : List String) (l p cap : Nat) :
    Spec.C14.chosenIds ⟨tags, cases, l, p, cap⟩ = ((mkFile tags).filter (isChosen cases)).map (·.id) := by
  unfold Spec.C14.chosenIds mkFile
  exact (chosenIds_zip cases (List.range tags.length) tags).symm

/-- the model never predicts a provider that kills its process -/
theorem modelSideOf_not_fatal (k : Fmt) (preload : Bool) (tags cases : List String) (b : Bounds) (cap : Nat)
    (hasFile closeFails : Bool) :
    (Drv.C14.modelSideOf k preload tags cases b cap hasFile closeFails).run ≠ .fatal := by
  unfold Drv.C14.modelSideOf
  split
  · cases h : run k preload tags cases b (if cap = 0 then none else some cap) with
    | none => simp [Drv.C14.sideOf]
    | some o =>
      cases hr : o.run <;> cases closeFails <;>
        simp [Drv.C14.sideOf, Drv.C14.classOf, hr, epilogue, EV.ofRun, EV.ofClose, EV.isNil, EV.join]
  · simp [Drv.C14.constructFailed]

/-! ## /repo HEAD before b8504d9: the streaming path on a file from which nothing is chosen, passes = 0 -/

/-- `Head.fullScan` (runFullScan without the no-ammo ending) over a non-empty file from which nothing is chosen
and a decoder without a pass bound never ends, whatever the fuel: it keeps calling `Scan`. -/
theorem head_fullScan_never_ends {σ : Type} (scan : σ → ScanRes × σ) (R : Nat → Nat → σ → Prop)
    (file : List α) (chosen : α → Bool) (limit : Nat) (cancelAt : Option Nat)
    (hn : 0 < file.length) (hf : file.filter chosen = []) (hc0 : cancelled cancelAt 0 = false)
    (src : Src scan file.length 0 R) :
    ∀ fuel q r s, R q r s → r ≤ file.length →
      Head.fullScan scan file chosen limit cancelAt fuel s [] = none := by
  intro fuel
  induction fuel with
  | zero => intro q r s _ _; rfl
  | succ fuel ih =>
    intro q r s hR hr
    unfold Head.fullScan
    have hlim : ¬ (limit ≠ 0 ∧ limit ≤ ([] : List α).length) := by simp
    simp only [List.length_nil] at hlim ⊢
    rw [hc0]
    simp only [Bool.false_eq_true, if_false]
    rw [if_neg hlim]
    by_cases hrn : r < file.length
    · obtain ⟨s', hs, hR'⟩ := src.next q r s hR hrn (Or.inl rfl)
      obtain ⟨a, ha⟩ : ∃ a, file[r]? = some a := ⟨file[r], List.getElem?_eq_getElem hrn⟩
      have hch := not_chosen_of_filter_nil file chosen hf r a ha
      simp only [hs, ha, hch, Bool.false_eq_true, if_false]
      exact ih q (r + 1) s' hR' (by omega)
    · have hrn' : r = file.length := by omega
      subst hrn'
      obtain ⟨s', hs, hR'⟩ := src.wrap q s hR (Or.inl rfl)
      obtain ⟨a, ha⟩ : ∃ a, file[0]? = some a := ⟨file[0], List.getElem?_eq_getElem hn⟩
      have hch := not_chosen_of_filter_nil file chosen hf 0 a ha
      simp only [hs, ha, hch, Bool.false_eq_true, if_false]
      exact ih (q + 1) 1 s' hR' (by omega)

theorem head_runFuel_never_ends (k : Fmt) (file : List α) (chosen : α → Bool) (limit : Nat)
    (cancelAt : Option Nat) (hn : 0 < file.length) (hf : file.filter chosen = []) (hc : cancelAt ≠ some 0)
    (fuel : Nat) : Head.runFuel k false file chosen ⟨limit, 0⟩ cancelAt fuel = none := by
  have hc0 := cancelled_zero cancelAt hc
  unfold Head.runFuel Head.httpRun
  cases k with
  | uri | uripost | raw =>
    simp only [Bool.false_eq_true, if_false]
    rw [head_fullScan_never_ends _ (RStream file.length) file chosen limit cancelAt hn hf hc0 (src_eofCheck _ _ hn)
      fuel 0 0 Dec.init (RStream_init _) (by omega)]
  | jsonLines =>
    simp only [Bool.false_eq_true, if_false]
    rw [head_fullScan_never_ends _ (RStream file.length) file chosen limit cancelAt hn hf hc0 (src_topCheck _ _ hn)
      fuel 0 0 Dec.init (RStream_init _) (by omega)]
  | jsonArray =>
    simp only [Bool.false_eq_true, if_false]
    rw [head_fullScan_never_ends _ (RArr file.length) file chosen limit cancelAt hn hf hc0 (src_arr _ _ hn)
      fuel 0 0 ArrDec.init (RArr_init _ hn) (by omega)]

end Pandora.Proofs.C14
