/-
C12 — token times of the REGENERATED `schedule.NewInstanceStep` (`Pandora.Gen.Schedule`, rewritten from /repo on every
check): the denotation of a `Sched` value (leaf: token k at start + f k, finish at start + D; composite: every nested
schedule starts at the finish time of the previous one — `compositeSchedule.startNext`) and the closed form of
`NewInstanceStep`.  Mathlib is imported here only through the regenerated schedule area.
-/
import Pandora.Bridge.Schedule
import Pandora.Model.C12

namespace Pandora.Proofs.C12Shape
open Pandora Pandora.Gen.Schedule Pandora.Bridge.Schedule

mutual
/-- tokens of a schedule started at instant `s` (in order) and its finish time -/
def toks : Sched → ℤ → List ℤ × ℤ
  | .doAt D n f, s => ((List.range n.toNat).map (fun (k : ℕ) => s + f k), s + D)
  | .composite l, s => toksList l s
/-- nested schedules one after another -/
def toksList : List Sched → ℤ → List ℤ × ℤ
  | [], s => ([], s)
  | x :: xs, s => ((toks x s).1 ++ (toksList xs (toks x s).2).1, (toksList xs (toks x s).2).2)
end

theorem toks_once (n s0 : ℤ) : toks (NewOnce n) s0 = (List.replicate n.toNat s0, s0) := by
  simp [NewOnce, toks]

theorem toks_const0 (d s0 : ℤ) : toks (NewConst 0 d) s0 = ([], s0 + d) := by
  rw [NewConst_eq 0 d (le_refl 0)]
  simp [toks, Go.f2i]

theorem toksList_steps (L : List ℤ) (s d s0 : ℤ) :
    toksList (L.flatMap (fun _ => [NewConst 0 d, NewOnce s])) s0 =
      ((List.range L.length).flatMap (fun (m : ℕ) => List.replicate s.toNat (s0 + ((m : ℤ) + 1) * d)),
        s0 + (L.length : ℤ) * d) := by
  induction L generalizing s0 with
  | nil => simp [toksList]
  | cons x xs ih =>
    simp only [List.flatMap_cons, List.cons_append, List.nil_append, toksList, toks_const0, toks_once, ih,
      List.length_cons, List.range_succ_eq_map, List.flatMap_map]
    refine Prod.ext ?_ ?_
    · show _ ++ _ = _ ++ _
      congr 1
      · simp
      · apply List.flatMap_congr
        intro m _
        congr 1
        push_cast
        ring
    · show _ + _ = _ + _
      push_cast
      ring

theorem loop_length (a b s : ℤ) : (Go.loopLEInt a b s).length = if a ≤ b then ((b - a) / s).toNat + 1 else 0 := by
  unfold Go.loopLEInt
  split <;> simp

/-- `NewInstanceStep(from, to, step, d)` started at 0: `from` tokens at 0, then `step` tokens at `m·d` for every
m ≥ 1 with `from + m·step ≤ to`; it finishes at (number of steps)·d. -/
theorem instanceStep_toks (f t s d : ℤ) :
    toks (NewInstanceStep f t s d) 0 = (Model.C12.instanceStepToks f t s d, Model.C12.instanceStepDur f t s d) := by
  rw [NewInstanceStep_eq]
  simp only [toks, toksList, toks_once, toksList_steps, loop_length]
  unfold Model.C12.instanceStepToks Model.C12.instanceStepDur Model.C12.stepCount
  refine Prod.ext ?_ ?_
  · simp only
    congr 1
    split <;> simp
  · simp only
    split <;> simp

end Pandora.Proofs.C12Shape
