/-
C12 — token times of the REGENERATED `schedule.NewInstanceStep` (`Pandora.Gen.Schedule`, rewritten from /repo on every
check): the denotation of a `Sched` value (leaf: token k at start + f k, finish at start + D; composite: every nested
schedule starts at the finish time of the previous one — `compositeSchedule.startNext`) and the closed form of
`NewInstanceStep`.  Mathlib is imported here only through the regenerated schedule area.
-/
import Pandora.Bridge.Schedule
import Pandora.Model.C12
import Pandora.Spec.C12

namespace Pandora.Proofs.C12Shape
open Pandora Pandora.Gen.Schedule Pandora.Bridge.Schedule

mutual
/-- tokens of a schedule started at instant `s` (in order) and its finish time -/
def toks : Sched → ℤ → List ℤ × ℤ
  | .doAt D n f, s => ((List.range n.toNat).map (fun (k : ℕ) => s + f k), s + D)
  | .composite l, s => toksList l s
/-- nested schedules one after another -/
def toksList : List Sched → ℤ → List ℤ × ℤ
  | [], s => ([], s)
  | x :: xs, s => ((toks x s).1 ++ (toksList xs (toks x s).2).1, (toksList xs (toks x s).2).2)
end

theorem toks_once (n s0 : ℤ) : toks (NewOnce n) s0 = (List.replicate n.toNat s0, s0) := by
  simp [NewOnce, toks]

theorem toks_const0 (d s0 : ℤ) : toks (NewConst 0 d) s0 = ([], s0 + d) := by
  rw [NewConst_eq 0 d (le_refl 0)]
  simp [toks, Go.f2i]

theorem toksList_steps (L : List ℤ) (s d s0 : ℤ) :
    toksList (L.flatMap (fun _ => [NewConst 0 d, NewOnce s])) s0 =
      ((List.range L.length).flatMap (fun (m : ℕ) => List.replicate s.toNat (s0 + ((m : ℤ) + 1) * d)),
        s0 + (L.length : ℤ) * d) := by
  induction L generalizing s0 with
  | nil => simp [toksList]
  | cons x xs ih =>
    simp only [List.flatMap_cons, List.cons_append, List.nil_append, toksList, toks_const0, toks_once, ih,
      List.length_cons, List.range_succ_eq_map, List.flatMap_map]
    refine Prod.ext ?_ ?_
    · show _ ++ _ = _ ++ _
      congr 1
      · simp
      · apply List.flatMap_congr
        intro m _
        congr 1
        push_cast
        ring
    · show _ + _ = _ + _
      push_cast
      ring

theorem loop_length (a b s : ℤ) : (Go.loopLEInt a b s).length = if a ≤ b then ((b - a) / s).toNat + 1 else 0 := by
  unfold Go.loopLEInt
  split <;> simp

/-- `NewInstanceStep(from, to, step, d)` started at 0: `from` tokens at 0, then `step` tokens at `m·d` for every
m ≥ 1 with `from + m·step ≤ to`; it finishes at (number of steps)·d. -/
theorem instanceStep_toks (f t s d : ℤ) :
    toks (NewInstanceStep f t s d) 0 = (Model.C12.instanceStepToks f t s d, Model.C12.instanceStepDur f t s d) := by
  rw [NewInstanceStep_eq]
  simp only [toks, toksList, toks_once, toksList_steps, loop_length]
  unfold Model.C12.instanceStepToks Model.C12.instanceStepDur Model.C12.stepCount
  refine Prod.ext ?_ ?_
  · simp only
    congr 1
    split <;> simp
  · simp only
    split <;> simp

/-- the same, started at any instant -/
theorem instanceStep_toks_at (f t s d s0 : ℤ) :
    toks (NewInstanceStep f t s d) s0 =
      ((Model.C12.instanceStepToks f t s d).map (· + s0), s0 + Model.C12.instanceStepDur f t s d) := by
  rw [NewInstanceStep_eq]
  simp only [toks, toksList, toks_once, toksList_steps, loop_length]
  unfold Model.C12.instanceStepToks Model.C12.instanceStepDur Model.C12.stepCount
  refine Prod.ext ?_ ?_
  · simp only [List.map_append, List.map_replicate, List.map_flatMap]
    congr 1
    · simp
    · split
      · apply List.flatMap_congr
        intro m _
        congr 1
        ring
      · simp
  · split <;> simp

theorem f2i_intCast (z : ℤ) : Go.f2i (z : ℝ) = z := by
  unfold Go.f2i
  split <;> simp

/-- `const` with a whole number of operations per second that divides 10⁹, for a whole number of seconds: every float64
operation of `NewConst` is exact, it emits ops·seconds tokens, token i at i·(10⁹/ops), and finishes after the duration -/
theorem toks_const_exact (k q S s0 : ℤ) (hk : 0 < k) (hq : k * q = 1000000000) :
    toks (NewConst (k : ℝ) (S * 1000000000)) s0 =
      ((List.range (k * S).toNat).map (fun (i : ℕ) => s0 + (i : ℤ) * q), s0 + S * 1000000000) := by
  have hk0 : (0 : ℝ) ≤ (k : ℝ) := by exact_mod_cast hk.le
  have hkne : (k : ℝ) ≠ 0 := by exact_mod_cast hk.ne'
  rw [NewConst_eq (k : ℝ) _ hk0]
  have hn : (k : ℝ) * secs (S * 1000000000) = ((k * S : ℤ) : ℝ) := by
    unfold secs; push_cast; field_simp
  have hq' : (1000000000 : ℝ) / (k : ℝ) = (q : ℝ) := by
    rw [div_eq_iff hkne]
    have : ((k * q : ℤ) : ℝ) = 1000000000 := by exact_mod_cast congrArg (fun z : ℤ => (z : ℝ)) hq
    push_cast at this
    linarith
  simp only [toks, hn, f2i_intCast, hq']
  refine Prod.ext ?_ rfl
  simp only
  apply List.map_congr_left
  intro i _
  have : ((i : ℤ) : ℝ) * (q : ℝ) = (((i : ℤ) * q : ℤ) : ℝ) := by push_cast; ring
  rw [this, f2i_intCast]

/-- `Go.f2i` of a non-negative ratio of integers is integer division -/
theorem f2i_div (a b : ℤ) (ha : 0 ≤ a) (hb : 0 < b) : Go.f2i ((a : ℝ) / (b : ℝ)) = a / b := by
  have hb' : (0 : ℝ) < (b : ℝ) := by exact_mod_cast hb
  have ha' : (0 : ℝ) ≤ (a : ℝ) := by exact_mod_cast ha
  unfold Go.f2i
  rw [if_pos (div_nonneg ha' hb'.le)]
  rw [Int.floor_eq_iff]
  have hm := Int.emod_add_mul_ediv a b
  have hr0 := Int.emod_nonneg a hb.ne'
  have hr1 := Int.emod_lt_of_pos a hb
  constructor
  · rw [le_div_iff₀ hb']
    have : (a / b) * b ≤ a := by nlinarith
    exact_mod_cast this
  · rw [div_lt_iff₀ hb']
    have : a < (a / b + 1) * b := by nlinarith
    exact_mod_cast this

/-- `const` with a FRACTIONAL rate m/1000 operations per second (m > 0) for `ms` milliseconds, float64 read as exact reals:
⌊m·ms/10⁶⌋ tokens, token i at ⌊i·10¹²/m⌋ ns, finish after the duration -/
theorem toks_const_frac (m ms s0 : ℤ) (hm : 0 < m) (hms : 0 ≤ ms) :
    toks (NewConst ((m : ℝ) / 1000) (ms * 1000000)) s0 =
      ((List.range ((m * ms) / 1000000).toNat).map (fun (i : ℕ) => s0 + ((i : ℤ) * 1000000000000) / m),
        s0 + ms * 1000000) := by
  have hm' : (0 : ℝ) < (m : ℝ) := by exact_mod_cast hm
  have hops : (0 : ℝ) ≤ (m : ℝ) / 1000 := by positivity
  rw [NewConst_eq _ _ hops]
  have hn : (m : ℝ) / 1000 * secs (ms * 1000000) = ((m * ms : ℤ) : ℝ) / ((1000000 : ℤ) : ℝ) := by
    unfold secs; push_cast; field_simp; ring
  have hq : ∀ i : ℕ, ((i : ℤ) : ℝ) * (1000000000 / ((m : ℝ) / 1000)) = (((i : ℤ) * 1000000000000 : ℤ) : ℝ) / (m : ℝ) := by
    intro i; push_cast; field_simp; ring
  simp only [toks, hn]
  rw [f2i_div _ _ (Int.mul_nonneg hm.le hms) (by norm_num)]
  refine Prod.ext ?_ rfl
  simp only
  apply List.map_congr_left
  intro i _
  rw [hq i, f2i_div _ _ (by positivity) hm]

mutual
/-- the regenerated schedule a part of a startup profile of the harness denotes; a nested composite is
`schedule.NewComposite` of the schedules of its parts (for no part `NewComposite` returns `NewOnce(0)` and for one part
that part itself — the same tokens and finish time as the `composite` of the list) -/
noncomputable def schedOf : Spec.C12.Part → Sched
  | .once n => NewOnce n
  | .const ops ms => NewConst (ops : ℝ) (ms * 1000000)
  | .constm mops ms => NewConst ((mops : ℝ) / 1000) (ms * 1000000)
  | .step f t st ms => NewInstanceStep f t st (ms * 1000000)
  | .comp ps => .composite (schedsOf ps)
noncomputable def schedsOf : List Spec.C12.Part → List Sched
  | [] => []
  | p :: ps => schedOf p :: schedsOf ps
end

theorem const_nonpos (ops : ℤ) (d : ℤ) (h0 : ops ≤ 0) : NewConst (ops : ℝ) d = NewConst 0 d := by
  unfold NewConst
  have hle : (ops : ℝ) ≤ 0 := by exact_mod_cast h0
  rcases lt_or_eq_of_le hle with hlt | heq
  · simp [hlt]
  · simp [heq]

mutual
/-- tokens and finish time the Spec computes for a part = those of the regenerated constructor, nested composites
included: a composite inside a composite starts where the previous part finished and hands its own finish time on -/
theorem partToks_eq : ∀ (p : Spec.C12.Part) (s0 : ℤ) (r : List ℤ × ℤ),
    Spec.C12.partToks p s0 = some r → r = toks (schedOf p) s0
  | .once n, s0, r, h => by
    simp only [Spec.C12.partToks, Option.some.injEq] at h
    subst h
    rw [schedOf, toks_once]
  | .const ops ms, s0, r, h => by
    simp only [Spec.C12.partToks] at h
    rw [schedOf]
    by_cases h0 : ops ≤ 0
    · simp only [h0, if_true, Option.some.injEq] at h
      subst h
      rw [const_nonpos ops _ h0, toks_const0]
    · simp only [h0, if_false] at h
      by_cases hex : (1000000000 % ops == 0 && ms % 1000 == 0) = true
      · simp only [hex, if_true, Option.some.injEq] at h
        subst h
        simp only [Bool.and_eq_true, beq_iff_eq] at hex
        have hk : 0 < ops := by omega
        have hq : ops * (1000000000 / ops) = 1000000000 := Int.mul_ediv_cancel' (Int.dvd_of_emod_eq_zero hex.1)
        have hS : ms * 1000000 = (ms / 1000) * 1000000000 := by
          have := Int.mul_ediv_cancel' (Int.dvd_of_emod_eq_zero hex.2)
          omega
        rw [hS, toks_const_exact ops _ (ms / 1000) s0 hk hq]
      · simp [hex] at h
  | .constm m ms, s0, r, h => by
    simp only [Spec.C12.partToks] at h
    rw [schedOf]
    by_cases h0 : m ≤ 0
    · simp [h0] at h
    · simp only [h0, if_false] at h
      by_cases hex : (m % 125 == 0 && ms % 125 == 0 && decide (0 ≤ ms) && 8000000000 % (m / 125) == 0) = true
      · simp only [hex, if_true, Option.some.injEq] at h
        subst h
        simp only [Bool.and_eq_true, beq_iff_eq, decide_eq_true_eq] at hex
        rw [toks_const_frac m ms s0 (by omega) hex.1.2]
      · simp [hex] at h
  | .step f t st ms, s0, r, h => by
    simp only [Spec.C12.partToks, Option.some.injEq] at h
    subst h
    rw [schedOf, instanceStep_toks_at]
  | .comp ps, s0, r, h => by
    simp only [Spec.C12.partToks] at h
    rw [schedOf, toks]
    exact partsToksF_eq ps s0 r h
theorem partsToksF_eq : ∀ (ps : List Spec.C12.Part) (s0 : ℤ) (r : List ℤ × ℤ),
    Spec.C12.partsToksF ps s0 = some r → r = toksList (schedsOf ps) s0
  | [], s0, r, h => by
    simp only [Spec.C12.partsToksF, Option.some.injEq] at h
    subst h
    rw [schedsOf, toksList]
  | p :: ps, s0, r, h => by
    simp only [Spec.C12.partsToksF] at h
    cases hp : Spec.C12.partToks p s0 with
    | none => simp [hp] at h
    | some r1 =>
      simp only [hp] at h
      cases hq : Spec.C12.partsToksF ps r1.2 with
      | none => simp [hq] at h
      | some r2 =>
        simp only [hq, Option.some.injEq] at h
        subst h
        have h1 := partToks_eq p s0 r1 hp
        have h2 := partsToksF_eq ps r1.2 r2 hq
        rw [schedsOf, toksList, ← h1, ← h2]
end

/-- The token times the Spec computes for a startup profile (and compares with the real schedule on every case) are
those of the composite of the REGENERATED constructors, wherever the Spec computes them at all — for flat and for
nested composites. -/
theorem partsToks_eq (ps : List Spec.C12.Part) (s0 : ℤ) (l : List ℤ) (h : Spec.C12.partsToks ps s0 = some l) :
    l = (toksList (schedsOf ps) s0).1 := by
  simp only [Spec.C12.partsToks, Option.map_eq_some_iff] at h
  obtain ⟨r, hr, rfl⟩ := h
  rw [partsToksF_eq ps s0 r hr]

/-- nesting changes nothing: a composite of composites has the tokens and the finish time of the flat sequence -/
theorem toksList_append (a b : List Sched) (s0 : ℤ) :
    toksList (a ++ b) s0 = ((toksList a s0).1 ++ (toksList b (toksList a s0).2).1, (toksList b (toksList a s0).2).2) := by
  induction a generalizing s0 with
  | nil => simp [toksList]
  | cons x xs ih => simp [toksList, ih, List.append_assoc]

theorem toks_nested (a b : List Sched) (s0 : ℤ) :
    toksList (Sched.composite a :: b) s0 = toksList (a ++ b) s0 := by
  rw [toksList_append]
  simp [toksList, toks]

end Pandora.Proofs.C12Shape
