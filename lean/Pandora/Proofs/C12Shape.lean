/-
C12 — token times of the REGENERATED `schedule.NewInstanceStep` (`Pandora.Gen.Schedule`, rewritten from /repo on every
check): the denotation of a `Sched` value (leaf: token k at start + f k, finish at start + D; composite: every nested
schedule starts at the finish time of the previous one — `compositeSchedule.startNext`) and the closed form of
`NewInstanceStep`.  Mathlib is imported here only through the regenerated schedule area.
-/
import Pandora.Bridge.Schedule
import Pandora.Model.C12
import Pandora.Spec.C12

namespace Pandora.Proofs.C12Shape
open Pandora Pandora.Gen.Schedule Pandora.Bridge.Schedule

mutual
/-- tokens of a schedule started at instant `s` (in order) and its finish time -/
def toks : Sched → ℤ → List ℤ × ℤ
  | .doAt D n f, s => ((List.range n.toNat).map (fun (k : ℕ) => s + f k), s + D)
  | .composite l, s => toksList l s
/-- nested schedules one after another -/
def toksList : List Sched → ℤ → List ℤ × ℤ
  | [], s => ([], s)
  | x :: xs, s => ((toks x s).1 ++ (toksList xs (toks x s).2).1, (toksList xs (toks x s).2).2)
end

theorem toks_once (n s0 : ℤ) : toks (NewOnce n) s0 = (List.replicate n.toNat s0, s0) := by
  simp [NewOnce, toks]

theorem toks_const0 (d s0 : ℤ) : toks (NewConst 0 d) s0 = ([], s0 + d) := by
  rw [NewConst_eq 0 d (le_refl 0)]
  simp [toks, Go.f2i]

theorem toksList_steps (L : List ℤ) (s d s0 : ℤ) :
    toksList (L.flatMap (fun _ => [NewConst 0 d, NewOnce s])) s0 =
      ((List.range L.length).flatMap (fun (m : ℕ) => List.replicate s.toNat (s0 + ((m : ℤ) + 1) * d)),
        s0 + (L.length : ℤ) * d) := by
  induction L generalizing s0 with
  | nil => simp [toksList]
  | cons x xs ih =>
    simp only [List.flatMap_cons, List.cons_append, List.nil_append, toksList, toks_const0, toks_once, ih,
      List.length_cons, List.range_succ_eq_map, List.flatMap_map]
    refine Prod.ext ?_ ?_
    · show _ ++ _ = _ ++ _
      congr 1
      · simp
      · apply List.flatMap_congr
        intro m _
        congr 1
        push_cast
        ring
    · show _ + _ = _ + _
      push_cast
      ring

theorem loop_length (a b s : ℤ) : (Go.loopLEInt a b s).length = if a ≤ b then ((b - a) / s).toNat + 1 else 0 := by
  unfold Go.loopLEInt
  split <;> simp

/-- `NewInstanceStep(from, to, step, d)` started at 0: `from` tokens at 0, then `step` tokens at `m·d` for every
m ≥ 1 with `from + m·step ≤ to`; it finishes at (number of steps)·d. -/
theorem instanceStep_toks (f t s d : ℤ) :
    toks (NewInstanceStep f t s d) 0 = (Model.C12.instanceStepToks f t s d, Model.C12.instanceStepDur f t s d) := by
  rw [NewInstanceStep_eq]
  simp only [toks, toksList, toks_once, toksList_steps, loop_length]
  unfold Model.C12.instanceStepToks Model.C12.instanceStepDur Model.C12.stepCount
  refine Prod.ext ?_ ?_
  · simp only
    congr 1
    split <;> simp
  · simp only
    split <;> simp

/-- the same, started at any instant -/
theorem instanceStep_toks_at (f t s d s0 : ℤ) :
    toks (NewInstanceStep f t s d) s0 =
      ((Model.C12.instanceStepToks f t s d).map (· + s0), s0 + Model.C12.instanceStepDur f t s d) := by
  rw [NewInstanceStep_eq]
  simp only [toks, toksList, toks_once, toksList_steps, loop_length]
  unfold Model.C12.instanceStepToks Model.C12.instanceStepDur Model.C12.stepCount
  refine Prod.ext ?_ ?_
  · simp only [List.map_append, List.map_replicate, List.map_flatMap]
    congr 1
    · simp
    · split
      · apply List.flatMap_congr
        intro m _
        congr 1
        ring
      · simp
  · split <;> simp

theorem f2i_intCast (z : ℤ) : Go.f2i (z : ℝ) = z := by
  unfold Go.f2i
  split <;> simp

/-- `const` with a whole number of operations per second that divides 10⁹, for a whole number of seconds: every float64
operation of `NewConst` is exact, it emits ops·seconds tokens, token i at i·(10⁹/ops), and finishes after the duration -/
theorem toks_const_exact (k q S s0 : ℤ) (hk : 0 < k) (hq : k * q = 1000000000) :
    toks (NewConst (k : ℝ) (S * 1000000000)) s0 =
      ((List.range (k * S).toNat).map (fun (i : ℕ) => s0 + (i : ℤ) * q), s0 + S * 1000000000) := by
  have hk0 : (0 : ℝ) ≤ (k : ℝ) := by exact_mod_cast hk.le
  have hkne : (k : ℝ) ≠ 0 := by exact_mod_cast hk.ne'
  rw [NewConst_eq (k : ℝ) _ hk0]
  have hn : (k : ℝ) * secs (S * 1000000000) = ((k * S : ℤ) : ℝ) := by
    unfold secs; push_cast; field_simp
  have hq' : (1000000000 : ℝ) / (k : ℝ) = (q : ℝ) := by
    rw [div_eq_iff hkne]
    have : ((k * q : ℤ) : ℝ) = 1000000000 := by exact_mod_cast congrArg (fun z : ℤ => (z : ℝ)) hq
    push_cast at this
    linarith
  simp only [toks, hn, f2i_intCast, hq']
  refine Prod.ext ?_ rfl
  simp only
  apply List.map_congr_left
  intro i _
  have : ((i : ℤ) : ℝ) * (q : ℝ) = (((i : ℤ) * q : ℤ) : ℝ) := by push_cast; ring
  rw [this, f2i_intCast]

/-- the regenerated schedule a part of a startup profile of the harness denotes -/
noncomputable def schedOf : Spec.C12.Part → Sched
  | .once n => NewOnce n
  | .const ops ms => NewConst (ops : ℝ) (ms * 1000000)
  | .step f t st ms => NewInstanceStep f t st (ms * 1000000)

/-- The token times the Spec computes for a startup profile (and compares with the real schedule on every case) are
those of the composite of the REGENERATED constructors, wherever the Spec computes them at all. -/
theorem partsToks_eq (ps : List Spec.C12.Part) (s0 : ℤ) (l : List ℤ) (h : Spec.C12.partsToks ps s0 = some l) :
    l = (toksList (ps.map schedOf) s0).1 := by
  induction ps generalizing s0 l with
  | nil =>
    simp only [Spec.C12.partsToks, Option.some.injEq] at h
    simp [toksList, ← h]
  | cons p ps ih =>
    cases p with
    | once n =>
      simp only [Spec.C12.partsToks, Option.map_eq_some_iff] at h
      obtain ⟨l', hl', rfl⟩ := h
      simp only [List.map_cons, toksList, schedOf, toks_once]
      rw [ih _ _ hl']
    | const ops ms =>
      simp only [Spec.C12.partsToks] at h
      by_cases h0 : ops ≤ 0
      · simp only [h0, if_true] at h
        have hz : NewConst (ops : ℝ) (ms * 1000000) = NewConst 0 (ms * 1000000) := by
          unfold NewConst
          have hle : (ops : ℝ) ≤ 0 := by exact_mod_cast h0
          rcases lt_or_eq_of_le hle with hlt | heq
          · simp [hlt]
          · simp [heq]
        simp only [List.map_cons, toksList, schedOf, hz, toks_const0, List.nil_append]
        exact ih _ _ h
      · simp only [h0, if_false] at h
        by_cases hex : (1000000000 % ops == 0 && ms % 1000 == 0) = true
        · simp only [hex, if_true, Option.map_eq_some_iff] at h
          obtain ⟨l', hl', rfl⟩ := h
          simp only [Bool.and_eq_true, beq_iff_eq] at hex
          have hk : 0 < ops := by omega
          have hq : ops * (1000000000 / ops) = 1000000000 := Int.mul_ediv_cancel' (Int.dvd_of_emod_eq_zero hex.1)
          have hS : ms * 1000000 = (ms / 1000) * 1000000000 := by
            have := Int.mul_ediv_cancel' (Int.dvd_of_emod_eq_zero hex.2)
            omega
          have hih := ih _ _ hl'
          rw [hS] at hih
          simp only [List.map_cons, toksList, schedOf, hS, toks_const_exact ops _ (ms / 1000) s0 hk hq]
          rw [hih]
        · simp [hex] at h
    | step f t st ms =>
      simp only [Spec.C12.partsToks, Option.map_eq_some_iff] at h
      obtain ⟨l', hl', rfl⟩ := h
      have hih := ih _ _ hl'
      simp only [List.map_cons, toksList, schedOf, instanceStep_toks_at]
      rw [hih]

end Pandora.Proofs.C12Shape
