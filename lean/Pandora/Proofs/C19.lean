/-
C19 — helper lemmas (core Lean only).
-/
import Pandora.Model.C19
import Pandora.Proofs.C10

namespace Pandora.Proofs.C19
open Pandora.Model.C10 Pandora.Model.C19

/-! ### slice bounds of the repaired `substr` -/

/-- After the two index adjustments (`start < 0 ⇒ l + start`, `end ≤ 0 ⇒ l + end`) both indices are clamped into
`[0, l]` and then ordered; hence `0 ≤ lo ≤ hi ≤ l` for EVERY pair of integer arguments and every length.
Case analysis over the seven comparisons of the closure, each case closed by linear arithmetic. -/
theorem clamp_range (x l : Int) (hl : 0 ≤ l) : 0 ≤ clamp x l ∧ clamp x l ≤ l := by
  simp only [clamp]
  repeat' split
  all_goals omega

theorem order_valid (st en l : Int) (hs : 0 ≤ st ∧ st ≤ l) (he : 0 ≤ en ∧ en ≤ l) :
    0 ≤ (order st en).1 ∧ (order st en).1 ≤ (order st en).2 ∧ (order st en).2 ≤ l := by
  simp only [order]
  repeat' split
  all_goals omega

theorem substrBounds_valid (a b l : Int) (hl : 0 ≤ l) :
    0 ≤ (substrBounds a b l).1 ∧ (substrBounds a b l).1 ≤ (substrBounds a b l).2 ∧ (substrBounds a b l).2 ≤ l :=
  order_valid _ _ l (clamp_range _ l hl) (clamp_range _ l hl)

theorem substr_ok {α : Type} (a b : Int) (s : List α) : ∃ r, substr a b s = .ok r := by
  have h := substrBounds_valid a b s.length (by omega)
  unfold substr goSlice
  simp only [h, and_self, if_true]
  exact ⟨_, rfl⟩

/-- the code as found slices with the same indices whenever it does not panic: the fix changes no defined result -/
theorem substrBounds_agree (a b l : Int)
    (h : 0 ≤ (substrBoundsUnclamped a b l).1 ∧ (substrBoundsUnclamped a b l).1 ≤ (substrBoundsUnclamped a b l).2 ∧
      (substrBoundsUnclamped a b l).2 ≤ l) :
    substrBounds a b l = substrBoundsUnclamped a b l := by
  unfold substrBounds substrBoundsUnclamped at *
  generalize adjStart a l = st at *
  generalize adjEnd b l = en at *
  simp only [order, clamp] at h ⊢
  apply Prod.ext
  · simp only []
    repeat' split at h
    all_goals (repeat' split) <;> omega
  · simp only []
    repeat' split at h
    all_goals (repeat' split) <;> omega

theorem substr_fix_conservative {α : Type} (a b : Int) (s : List α) (r : List α)
    (h : substrUnclamped a b s = .ok r) : substr a b s = .ok r := by
  unfold substrUnclamped goSlice at h
  by_cases hv : 0 ≤ (substrBoundsUnclamped a b s.length).1 ∧
      (substrBoundsUnclamped a b s.length).1 ≤ (substrBoundsUnclamped a b s.length).2 ∧
      (substrBoundsUnclamped a b s.length).2 ≤ (s.length : Int)
  · have heq := substrBounds_agree a b s.length hv
    unfold substr goSlice
    rw [heq]
    exact h
  · simp [hv] at h

theorem applyMod_ok (m : Modifier) (s : List Char) : ∃ r, applyMod m s = .ok r := by
  cases m with
  | lower => exact ⟨_, rfl⟩
  | upper => exact ⟨_, rfl⟩
  | replace o n => exact ⟨_, rfl⟩
  | substr a b => exact substr_ok a b s

theorem applyChain_ok (ms : List Modifier) (s : List Char) : ∃ r, applyChain ms s = .ok r := by
  induction ms generalizing s with
  | nil => exact ⟨s, rfl⟩
  | cons m ms ih =>
    obtain ⟨r, hr⟩ := applyMod_ok m s
    obtain ⟨r', hr'⟩ := ih r
    exact ⟨r', by simp [applyChain, hr, Checked.bind, hr']⟩

/-! ### postprocessors never panic -/

theorem varHeader_no_panic (r : Resp) (ms : List HeaderMapping) : varHeaderWith applyChain r ms ≠ .panic := by
  induction ms with
  | nil => simp [varHeaderWith]
  | cons m ms ih =>
    unfold varHeaderWith
    cases hm : m.mods with
    | none => simp
    | some mods =>
      simp only
      by_cases hv : r.header m.header = []
      · simpa [hv] using ih
      · obtain ⟨x, hx⟩ := applyChain_ok mods (r.header m.header)
        simpa [hv, hx] using ih

theorem ite_ne_panic (c : Prop) [Decidable c] (a b : PostRes) (ha : a ≠ .panic) (hb : b ≠ .panic) :
    (if c then a else b) ≠ .panic := by
  by_cases h : c <;> simp [h, ha, hb]

theorem assertHttp_no_panic (a : AssertCfg) (r : Resp) : assertHttp a r ≠ .panic := by
  unfold assertHttp
  simp only []
  refine ite_ne_panic _ _ _ (by simp) (ite_ne_panic _ _ _ (by simp) (ite_ne_panic _ _ _ (by simp) ?_))
  cases a.size with
  | none => simp
  | some p =>
    obtain ⟨val, op⟩ := p
    simp only []
    split <;> simp

theorem varJsonpath_no_panic (ps : List String) (r : Resp) : varJsonpath ps r ≠ .panic := by
  unfold varJsonpath
  repeat' split
  all_goals simp

theorem varXpath_no_panic (ks : List XKind) : varXpath ks ≠ .panic := by
  induction ks with
  | nil => simp [varXpath]
  | cons k ks ih => cases k <;> simp [varXpath, ih]

theorem runPP_no_panic (r : Resp) (p : PP) : runPP r p ≠ .panic := by
  cases p with
  | varHeader ms => exact varHeader_no_panic r ms
  | assertResponse a => exact assertHttp_no_panic a r
  | varJsonpath ps => exact varJsonpath_no_panic ps r
  | varXpath ks => exact varXpath_no_panic ks

theorem runPPs_no_panic (r : Resp) (ps : List PP) : runPPs r ps ≠ .panic := by
  induction ps with
  | nil => simp [runPPs]
  | cons p ps ih =>
    unfold runPPs
    have hp := runPP_no_panic r p
    cases h : runPP r p with
    | ok => simpa using ih
    | err => simp
    | panic => exact absurd h hp

theorem assertGrpc_no_panic (a : GrpcAssert) (code : Nat) (outNil : Bool) (f : String → Bool) :
    assertGrpc a code outNil f ≠ .panic := by
  unfold assertGrpc
  repeat' split
  all_goals simp

theorem runGrpcAsserts_no_panic (code : Nat) (outNil : Bool) (f : String → Bool) (as : List GrpcAssert) :
    runGrpcAsserts code outNil f as ≠ .panic := by
  induction as with
  | nil => simp [runGrpcAsserts]
  | cons a as ih =>
    unfold runGrpcAsserts
    have hp := assertGrpc_no_panic a code outNil f
    cases h : assertGrpc a code outNil f with
    | ok => simpa using ih
    | err => simp
    | panic => exact absurd h hp

/-! ### the decision trees do not panic unless a step does -/

theorem shootScenario_panicked (scn : String) (steps : List Step)
    (hp : ∀ s ∈ steps, ∀ st, s.outcome ≠ .received st .panic) :
    (shootScenario scn steps).panicked = false := by
  induction steps with
  | nil => simp [shootScenario]
  | cons s rest ih =>
    have ih' := ih (fun t ht => hp t (List.mem_cons_of_mem _ ht))
    have hs := hp s (List.mem_cons_self ..)
    unfold shootScenario
    cases ho : s.outcome with
    | prepErr => simp [stepHttp, ho]
    | doErr e => simp [stepHttp, ho]
    | bodyErr st e => simp [stepHttp, ho]
    | received st post =>
      cases post with
      | ok => simp [stepHttp, ho, ih']
      | err => simp [stepHttp, ho]
      | panic => exact absurd ho (hs st)

theorem shootGrpcScenario_panicked (scn : String) (steps : List GrpcStep)
    (hp : ∀ s ∈ steps, ∀ c, s.outcome ≠ .invoked c .panic) :
    (shootGrpcScenario scn steps).panicked = false := by
  induction steps with
  | nil => simp [shootGrpcScenario]
  | cons s rest ih =>
    have ih' := ih (fun t ht => hp t (List.mem_cons_of_mem _ ht))
    have hs := hp s (List.mem_cons_self ..)
    unfold shootGrpcScenario
    cases ho : s.outcome with
    | prepErr => simp [stepGrpc, ho]
    | unknownMethod => simp [stepGrpc, ho]
    | badPayload => simp [stepGrpc, ho]
    | invoked c post =>
      cases post with
      | ok => simp [stepGrpc, ho, ih']
      | err => simp [stepGrpc, ho]
      | panic => exact absurd ho (hs c)

theorem stepOutcome_no_panic (c : StepCfg) (r : Reply) (st : Nat) : stepOutcome c r ≠ .received st .panic := by
  unfold stepOutcome
  by_cases h : c.prepFails = true
  · simp [h]
  · simp only [h]
    cases r with
    | noResponse e => simp
    | brokenBody s e => simp
    | full resp =>
      intro heq
      simp at heq
      exact runPPs_no_panic resp c.pps heq.2

theorem grpcStepOutcome_no_panic (c : GrpcCallCfg) (r : GrpcReply) (code : Nat) :
    grpcStepOutcome c r ≠ .invoked code .panic := by
  unfold grpcStepOutcome
  cases c.kind with
  | prepFails => simp
  | unknownMethod => simp
  | badPayload => simp
  | callable =>
    intro heq
    simp at heq
    exact runGrpcAsserts_no_panic _ _ _ _ heq.2

theorem stepOutcomeH2_false (f : H2Facts) (c : StepCfg) (r : Reply) : stepOutcomeH2 false f c r = stepOutcome c r := by
  simp [stepOutcomeH2]

/-- the scenario loop panics exactly when it sends a request the http2 client panics on -/
theorem shootScenarioH2_panicked (h2 : Bool) (scn : String) (steps : List (StepCfg × H2Facts × Reply)) :
    (shootScenario scn (steps.map fun (c, f, r) => { name := c.name, outcome := stepOutcomeH2 h2 f c r })).panicked
      = scenarioFatal h2 steps := by
  induction steps with
  | nil => simp [shootScenario, scenarioFatal]
  | cons p rest ih =>
    obtain ⟨c, f, r⟩ := p
    by_cases hp : (!c.prepFails && (h2 && h2Panics f r)) = true
    · have hs : stepOutcomeH2 h2 f c r = .received 0 .panic := by simp only [stepOutcomeH2, hp, if_true]
      simp only [List.map_cons, shootScenario, scenarioFatal, stepHttp, hs, hp, if_true]
    · have hs : stepOutcomeH2 h2 f c r = stepOutcome c r := by simp only [stepOutcomeH2, hp, Bool.false_eq_true, if_false]
      simp only [List.map_cons, shootScenario, scenarioFatal, stepHttp, hs, hp, Bool.false_eq_true, if_false]
      cases ho : stepOutcome c r with
      | prepErr => rfl
      | doErr e => rfl
      | bodyErr st e => rfl
      | received st post =>
        cases post with
        | ok => exact ih
        | err => rfl
        | panic => exact absurd ho (stepOutcome_no_panic c r st)

/-- outside the fatal condition the http2/scenario gun behaves like the http/scenario gun -/
theorem scenario_map_eq_of_not_fatal (h2 : Bool) (steps : List (StepCfg × H2Facts × Reply))
    (h : scenarioFatal h2 steps = false) (scn : String) :
    shootScenario scn (steps.map fun (c, f, r) => { name := c.name, outcome := stepOutcomeH2 h2 f c r })
      = shootScenario scn (steps.map fun (c, _, r) => { name := c.name, outcome := stepOutcome c r }) := by
  induction steps with
  | nil => rfl
  | cons p rest ih =>
    obtain ⟨c, f, r⟩ := p
    by_cases hp : (!c.prepFails && (h2 && h2Panics f r)) = true
    · simp only [scenarioFatal, hp, if_true] at h
      exact absurd h (by decide)
    · have hs : stepOutcomeH2 h2 f c r = stepOutcome c r := by simp only [stepOutcomeH2, hp, Bool.false_eq_true, if_false]
      simp only [scenarioFatal, hp, Bool.false_eq_true, if_false] at h
      simp only [List.map_cons, shootScenario, stepHttp, hs]
      cases ho : stepOutcome c r with
      | prepErr => rfl
      | doErr e => rfl
      | bodyErr st e => rfl
      | received st post =>
        cases post with
        | ok =>
          simp only [ho] at h
          simp only []
          rw [ih h]
        | err => rfl
        | panic => rfl

theorem scenarioFatal_false (steps : List (StepCfg × H2Facts × Reply)) : scenarioFatal false steps = false := by
  induction steps with
  | nil => rfl
  | cons p rest ih =>
    obtain ⟨c, f, r⟩ := p
    simp only [scenarioFatal, Bool.false_and, Bool.and_false, Bool.false_eq_true, if_false]
    split
    · exact ih
    · rfl

theorem stepCompleted_iff (c : StepCfg) (r : Reply) :
    stepCompleted c r = true ↔ ∃ st, stepOutcome c r = .received st .ok := by
  unfold stepOutcome
  by_cases hp : c.prepFails = true
  · cases r <;> simp [stepCompleted, hp]
  · cases r with
    | noResponse e => simp [stepCompleted, hp]
    | brokenBody st e => simp [stepCompleted, hp]
    | full resp =>
      simp only [stepCompleted, hp, Bool.not_false, Bool.true_and, beq_iff_eq, Bool.false_eq_true, if_false,
        StepOutcome.received.injEq]
      constructor
      · intro h
        exact ⟨resp.status, rfl, h⟩
      · rintro ⟨_, _, h⟩
        exact h

theorem stepCompleted_prep (c : StepCfg) (r : Reply) (h : stepCompleted c r = true) : c.prepFails = false := by
  cases r <;> simp_all [stepCompleted]

/-- the http2/scenario gun is in the fatal condition iff the first request it sends to a peer without HTTP/2 is
reached: all steps before it completed (and, being completed, were not themselves such requests) -/
theorem scenarioFatal_true_iff (steps : List (StepCfg × H2Facts × Reply)) :
    scenarioFatal true steps = true ↔
      ∃ (i : Nat) (p : StepCfg × H2Facts × Reply), steps[i]? = some p ∧ p.1.prepFails = false ∧ h2Panics p.2.1 p.2.2 = true ∧
        ∀ j, j < i → ∃ q, steps[j]? = some q ∧ stepCompleted q.1 q.2.2 = true ∧ h2Panics q.2.1 q.2.2 = false := by
  induction steps with
  | nil => simp [scenarioFatal]
  | cons p rest ih =>
    obtain ⟨c, f, r⟩ := p
    by_cases hp : (!c.prepFails && (true && h2Panics f r)) = true
    · simp only [scenarioFatal, hp, if_true, true_iff]
      simp only [Bool.true_and, Bool.and_eq_true, Bool.not_eq_true'] at hp
      exact ⟨0, (c, f, r), rfl, hp.1, hp.2, fun j hj => absurd hj (Nat.not_lt_zero j)⟩
    · simp only [scenarioFatal, hp, Bool.false_eq_true, if_false]
      have hp' : ¬ (c.prepFails = false ∧ h2Panics f r = true) := by
        simpa [Bool.and_eq_true] using hp
      constructor
      · intro h
        cases ho : stepOutcome c r with
        | prepErr => simp [ho] at h
        | doErr e => simp [ho] at h
        | bodyErr st e => simp [ho] at h
        | received st post =>
          cases post with
          | err => simp [ho] at h
          | panic => simp [ho] at h
          | ok =>
            simp only [ho] at h
            obtain ⟨i, q, hq, hq1, hq2, hall⟩ := ih.mp h
            have hc : stepCompleted c r = true := (stepCompleted_iff c r).mpr ⟨st, ho⟩
            refine ⟨i + 1, q, by simpa using hq, hq1, hq2, ?_⟩
            intro j hj
            cases j with
            | zero =>
              refine ⟨(c, f, r), rfl, hc, ?_⟩
              cases hh : h2Panics f r with
              | false => rfl
              | true => exact absurd ⟨stepCompleted_prep c r hc, hh⟩ hp'
            | succ k =>
              obtain ⟨q', hq', h1, h2⟩ := hall k (by omega)
              exact ⟨q', by simpa using hq', h1, h2⟩
      · rintro ⟨i, q, hq, hq1, hq2, hall⟩
        cases i with
        | zero =>
          simp only [List.getElem?_cons_zero, Option.some.injEq] at hq
          subst hq
          exact absurd ⟨hq1, hq2⟩ hp'
        | succ k =>
          obtain ⟨q0, hq0, hc0, _⟩ := hall 0 (by omega)
          simp only [List.getElem?_cons_zero, Option.some.injEq] at hq0
          subst hq0
          obtain ⟨st, ho⟩ := (stepCompleted_iff c r).mp hc0
          simp only [ho]
          apply ih.mpr
          refine ⟨k, q, by simpa using hq, hq1, hq2, ?_⟩
          intro j hj
          obtain ⟨q', hq', h1, h2⟩ := hall (j + 1) (by omega)
          exact ⟨q', by simpa using hq', h1, h2⟩

theorem run_panicked_iff (g : GunShot) : g.run.panicked = g.documentedFatal := by
  cases g with
  | http h2 facts cfg tag id path reply =>
    by_cases hf : (h2 && h2Panics facts reply) = true
    · simp [GunShot.run, GunShot.documentedFatal, hf, shootHttp]
    · have hf' : (h2 && h2Panics facts reply) = false := by simpa using hf
      simp only [GunShot.run, GunShot.documentedFatal, hf']
      cases reply with
      | noResponse e => simp [Reply.httpOutcome, shootHttp]
      | brokenBody st e => simp [Reply.httpOutcome, shootHttp]
      | full r => simp [Reply.httpOutcome, shootHttp]
  | scenario h2 scn steps =>
    simp only [GunShot.run, GunShot.documentedFatal]
    exact shootScenarioH2_panicked h2 scn steps
  | grpc tag o => simp [GunShot.run, GunShot.documentedFatal, shootGrpc]
  | grpcScenario scn calls =>
    simp only [GunShot.run, GunShot.documentedFatal]
    apply shootGrpcScenario_panicked
    intro s hs c
    simp only [List.mem_map] at hs
    obtain ⟨⟨cc, r⟩, _, rfl⟩ := hs
    exact grpcStepOutcome_no_panic cc r c

/-! ### instance.Run -/

theorem instanceRun_all (shots : List ShotResult) (h : ∀ s ∈ shots, s.panicked = false) :
    (instanceRun shots).result = .finished ∧ (instanceRun shots).shotsTaken = shots.length ∧
      (instanceRun shots).samples = (shots.map (·.reports)).flatten := by
  induction shots with
  | nil => simp [instanceRun]
  | cons s rest ih =>
    have hs := h s (List.mem_cons_self ..)
    obtain ⟨h1, h2, h3⟩ := ih (fun t ht => h t (List.mem_cons_of_mem _ ht))
    simp [instanceRun, hs, h1, h2, h3]

theorem instanceRun_failed_iff (shots : List ShotResult) :
    (instanceRun shots).result = .poolFailed ↔ ∃ s ∈ shots, s.panicked = true := by
  induction shots with
  | nil => simp [instanceRun]
  | cons s rest ih =>
    by_cases hs : s.panicked = true
    · simp [instanceRun, hs]
    · have hs' : s.panicked = false := by simpa using hs
      simp [instanceRun, hs', ih]

/-! ### the pool -/

theorem poolResult_failed_iff (insts : List (List ShotResult)) :
    poolResult insts = .poolFailed ↔ ∃ shots ∈ insts, ∃ s ∈ shots, s.panicked = true := by
  unfold poolResult
  constructor
  · intro h
    by_cases hany : insts.any (fun shots => (instanceRun shots).result == .poolFailed) = true
    · rw [List.any_eq_true] at hany
      obtain ⟨shots, hs, hr⟩ := hany
      exact ⟨shots, hs, (instanceRun_failed_iff shots).mp (by simpa using hr)⟩
    · simp [hany] at h
  · rintro ⟨shots, hs, hp⟩
    have : insts.any (fun shots => (instanceRun shots).result == .poolFailed) = true := by
      rw [List.any_eq_true]
      exact ⟨shots, hs, by simpa using (instanceRun_failed_iff shots).mpr hp⟩
    simp [this]

theorem poolResult_finished (insts : List (List ShotResult)) (h : ∀ shots ∈ insts, ∀ s ∈ shots, s.panicked = false) :
    poolResult insts = .finished := by
  cases hr : poolResult insts with
  | finished => rfl
  | poolFailed =>
    obtain ⟨shots, hs, s, hss, hp⟩ := (poolResult_failed_iff insts).mp hr
    rw [h shots hs s hss] at hp
    exact absurd hp (by decide)

theorem poolSamples_all (insts : List (List ShotResult)) (h : ∀ shots ∈ insts, ∀ s ∈ shots, s.panicked = false) :
    poolSamples insts = (insts.map fun shots => (shots.map (·.reports)).flatten).flatten ∧
    poolShots insts = (insts.map List.length).sum := by
  unfold poolSamples poolShots
  induction insts with
  | nil => simp
  | cons shots rest ih =>
    obtain ⟨_, h2, h3⟩ := instanceRun_all shots (h shots (List.mem_cons_self ..))
    obtain ⟨i1, i2⟩ := ih (fun sh hsh => h sh (List.mem_cons_of_mem _ hsh))
    simp only [List.map_cons, List.flatten_cons, List.sum_cons, h2, h3, i1, i2, and_self]

/-! ### what the samples of a scenario carry -/

/-- with steps that cannot panic, the scenario gun reports exactly the samples of the steps its loop enters -/
theorem shootScenario_reports (scn : String) (steps : List (StepCfg × H2Facts × Reply)) :
    (shootScenario scn (steps.map fun (c, _, r) => { name := c.name, outcome := stepOutcome c r })).reports
      = ((steps.take (executedSteps (steps.map fun (c, _, r) => { name := c.name, outcome := stepOutcome c r }))).map
          fun (c, _, r) => sampleOfStep scn c r) := by
  induction steps with
  | nil => simp [shootScenario, executedSteps]
  | cons p rest ih =>
    obtain ⟨c, f, r⟩ := p
    simp only [List.map_cons, shootScenario, executedSteps, stepHttp, sampleOfStep]
    cases ho : stepOutcome c r with
    | prepErr => simp [ho]
    | doErr e => simp [ho]
    | bodyErr st e => simp [ho]
    | received st post =>
      cases post with
      | ok =>
        simp only []
        rw [ih]
        simp [Nat.add_comm 1, List.take_succ_cons, sampleOfStep, ho]
      | err => simp [ho]
      | panic => exact absurd ho (stepOutcome_no_panic c r st)

theorem sampleOfStep_completed (scn : String) (c : StepCfg) (resp : Resp) (h : stepCompleted c (.full resp) = true) :
    sampleOfStep scn c (.full resp) = { tags := stepTag scn c.name, id := 0, proto := resp.status, net := 0 } := by
  simp only [stepCompleted, Bool.and_eq_true, Bool.not_eq_true', beq_iff_eq] at h
  simp [sampleOfStep, stepOutcome, h.1, h.2, okSample]

theorem sampleOfStep_failed (scn : String) (c : StepCfg) (r : Reply) (h : stepCompleted c r = false) :
    sampleOfStep scn c r = { tags := stepTag scn c.name ++ "|" ++ emptyTag, id := 0, proto := 0, net := protoCodeError } := by
  have herr : errSample scn c.name
      = { tags := stepTag scn c.name ++ "|" ++ emptyTag, id := 0, proto := 0, net := protoCodeError } := by
    have hne : stepTag scn c.name ≠ "" := by
      unfold stepTag
      intro h0
      have := congrArg String.length h0
      simp [String.length_append] at this
    simp [errSample, addTag, hne, getErrno, isNetError, stripUnderlying, cause, unwrapLoop]
  rw [← herr]
  unfold sampleOfStep stepOutcome
  by_cases hp : c.prepFails = true
  · simp [hp]
  · simp only [hp]
    cases r with
    | noResponse e => simp
    | brokenBody st e => simp
    | full resp =>
      simp only [stepCompleted, hp, Bool.not_false, Bool.true_and, beq_eq_false_iff_ne, ne_eq] at h
      simp only [Bool.false_eq_true, if_false]
      cases hr : runPPs resp c.pps with
      | ok => exact absurd hr h
      | err => rfl
      | panic => exact absurd hr (runPPs_no_panic resp c.pps)

theorem shootGrpcScenario_reports (scn : String) (calls : List (GrpcCallCfg × GrpcReply)) :
    (shootGrpcScenario scn (calls.map fun (c, r) => { tag := c.tag, outcome := grpcStepOutcome c r })).reports
      = ((calls.take (executedGrpcSteps (calls.map fun (c, r) => { tag := c.tag, outcome := grpcStepOutcome c r }))).map
          fun (c, r) => sampleOfCall scn c r) := by
  induction calls with
  | nil => simp [shootGrpcScenario, executedGrpcSteps]
  | cons p rest ih =>
    obtain ⟨c, r⟩ := p
    simp only [List.map_cons, shootGrpcScenario, executedGrpcSteps, stepGrpc, sampleOfCall]
    cases ho : grpcStepOutcome c r with
    | prepErr => simp [ho]
    | unknownMethod => simp [ho]
    | badPayload => simp [ho]
    | invoked code post =>
      cases post with
      | ok =>
        simp only []
        rw [ih]
        simp [Nat.add_comm 1, List.take_succ_cons, sampleOfCall, ho]
      | err => simp [ho]
      | panic => exact absurd ho (grpcStepOutcome_no_panic c r code)

/-! ### the connections an http2 client meets -/

theorem h2Panics_default (r : Reply) : h2Panics {} r = false := by
  cases r <;> simp [h2Panics, H2Facts.alpnAlert, DoErrFacts.panics, checkHTTP2, nextProtoTLS]

theorem connNext_not_fatal (dka : Bool) (dflt : ConnFate) (hd : dflt.fatal = false) (isOpen : Bool)
    (plan : List ConnFate) (hp : ∀ c ∈ plan, c.fatal = false) (r : Reply) :
    h2Panics (connNext dka dflt isOpen plan r).1.1 (connNext dka dflt isOpen plan r).1.2 = false ∧
      ∀ c ∈ (connNext dka dflt isOpen plan r).2.2, c.fatal = false := by
  have htail : ∀ c ∈ plan.tail, c.fatal = false := fun c hc => hp c (List.mem_of_mem_tail hc)
  unfold connNext
  cases isOpen with
  | true => exact ⟨by simpa using h2Panics_default r, by simpa using hp⟩
  | false =>
    have hhead : (plan.headD dflt).fatal = false := by
      cases plan with
      | nil => simpa using hd
      | cons c cs => simpa using hp c (List.mem_cons_self ..)
    simp only [Bool.false_eq_true, if_false]
    cases hc : plan.headD dflt with
    | h2 => exact ⟨h2Panics_default r, htail⟩
    | noH2 t =>
      rw [hc] at hhead
      have ht : checkHTTP2 t = true := by simpa [ConnFate.fatal] using hhead
      refine ⟨?_, htail⟩
      cases r <;> simp [h2Panics, H2Facts.alpnAlert, DoErrFacts.panics, ht]
    | fails e =>
      rw [hc] at hhead
      exact ⟨by simpa [h2Panics, H2Facts.alpnAlert, ConnFate.fatal] using hhead, htail⟩

/-- over connections none of which is of the fatal kind, no request meets the documented fatal condition; and every
request gets its turn -/
theorem connShots_not_fatal (dka : Bool) (dflt : ConnFate) (hd : dflt.fatal = false) (replies : List Reply) :
    ∀ (isOpen : Bool) (plan : List ConnFate), (∀ c ∈ plan, c.fatal = false) →
      (connShots dka dflt isOpen plan replies).length = replies.length ∧
      ∀ p ∈ connShots dka dflt isOpen plan replies, h2Panics p.1 p.2 = false := by
  induction replies with
  | nil => intro o plan _; simp [connShots]
  | cons r rs ih =>
    intro o plan hp
    obtain ⟨h1, h2⟩ := connNext_not_fatal dka dflt hd o plan hp r
    obtain ⟨hl, hm⟩ := ih (connNext dka dflt o plan r).2.1 (connNext dka dflt o plan r).2.2 h2
    refine ⟨by simp [connShots, hl], ?_⟩
    intro p hpm
    simp only [connShots, List.mem_cons] at hpm
    rcases hpm with rfl | hpm
    · exact h1
    · exact hm p hpm

/-- a scenario shot over connections none of which is of the fatal kind does not meet the documented fatal condition,
and leaves only such connections to the next shot -/
theorem scenarioOverConns_not_fatal (dka : Bool) (dflt : ConnFate) (hd : dflt.fatal = false) (h2 : Bool)
    (steps : List (StepCfg × Reply)) :
    ∀ (isOpen : Bool) (plan : List ConnFate), (∀ c ∈ plan, c.fatal = false) →
      scenarioFatal h2 (scenarioOverConns dka dflt h2 isOpen plan steps).1 = false ∧
      ∀ c ∈ (scenarioOverConns dka dflt h2 isOpen plan steps).2.2, c.fatal = false := by
  induction steps with
  | nil => intro o plan hp; exact ⟨rfl, hp⟩
  | cons p rest ih =>
    obtain ⟨c, r⟩ := p
    intro o plan hp
    by_cases hpf : c.prepFails = true
    · simp only [scenarioOverConns, hpf, if_true]
      refine ⟨?_, hp⟩
      simp [scenarioFatal, hpf, stepOutcome]
    · have hpf' : c.prepFails = false := by simpa using hpf
      obtain ⟨h1, h2'⟩ := connNext_not_fatal dka dflt hd o plan hp r
      have hso : stepOutcomeH2 h2 (connNext dka dflt o plan r).1.1 c (connNext dka dflt o plan r).1.2
          = stepOutcome c (connNext dka dflt o plan r).1.2 := by
        simp [stepOutcomeH2, h1]
      simp only [scenarioOverConns, hpf', Bool.false_eq_true, if_false, hso]
      cases ho : stepOutcome c (connNext dka dflt o plan r).1.2 with
      | prepErr => exact ⟨by simp [scenarioFatal, h1, ho], h2'⟩
      | doErr e => exact ⟨by simp [scenarioFatal, h1, ho], h2'⟩
      | bodyErr st e => exact ⟨by simp [scenarioFatal, h1, ho], h2'⟩
      | received st post =>
        cases post with
        | err => exact ⟨by simp [scenarioFatal, h1, ho], h2'⟩
        | panic => exact ⟨by simp [scenarioFatal, h1, ho], h2'⟩
        | ok =>
          obtain ⟨i1, i2⟩ := ih (connNext dka dflt o plan r).2.1 (connNext dka dflt o plan r).2.2 h2'
          exact ⟨by simp [scenarioFatal, h1, ho, i1], i2⟩

theorem scenarioShotsOverConns_not_fatal (dka : Bool) (dflt : ConnFate) (hd : dflt.fatal = false) (h2 : Bool) (scn : String)
    (steps : List (StepCfg × Reply)) (n : Nat) :
    ∀ (isOpen : Bool) (plan : List ConnFate), (∀ c ∈ plan, c.fatal = false) →
      (scenarioShotsOverConns dka dflt h2 scn steps n isOpen plan).length = n ∧
      ∀ g ∈ scenarioShotsOverConns dka dflt h2 scn steps n isOpen plan, g.documentedFatal = false := by
  induction n with
  | zero => intro o plan _; simp [scenarioShotsOverConns]
  | succ k ih =>
    intro o plan hp
    obtain ⟨h1, h2'⟩ := scenarioOverConns_not_fatal dka dflt hd h2 steps o plan hp
    obtain ⟨hl, hm⟩ := ih (scenarioOverConns dka dflt h2 o plan steps).2.1 (scenarioOverConns dka dflt h2 o plan steps).2.2 h2'
    refine ⟨by simp [scenarioShotsOverConns, hl], ?_⟩
    intro g hg
    simp only [scenarioShotsOverConns, List.mem_cons] at hg
    rcases hg with rfl | hg
    · simpa [GunShot.documentedFatal] using h1
    · exact hm g hg

end Pandora.Proofs.C19
