/-
C05 — structural invariants of the pool model (`Pandora.Model.C05Pool`), for every code variant `cfg`.
-/
import Pandora.Model.C05Pool

namespace Pandora.Proofs.C05
open Pandora.Model.C05

/-- number of results the await loop has not consumed yet: what `toWait` must equal -/
def cnt (s : State) : Nat :=
  (if s.prov = .taken then 0 else 1) + (if s.agg = .taken then 0 else 1) +
  (if s.startTaken then 0 else 1) + (if s.runResOpen then 1 else 0)

def AwBusy (s : State) : Prop := s.aw = .loop ∨ ∃ w r c, s.aw = .onErr w r c

structure InvW (s : State) : Prop where
  ctx1 : s.poolC = true → s.runC = true
  ctx2 : s.runC = true → s.startC = true
  retCancel : ∀ r, s.main = .returned r → s.poolC = true
  pre : s.aw = .off → s.prov = .idle ∧ s.agg = .idle ∧ s.startPc = .idle ∧ s.live = [] ∧ s.buf = [] ∧
          s.startRes = none ∧ s.startTaken = false ∧ s.runResOpen = false ∧ s.closedErr = false ∧
          s.spawned = 0 ∧ s.awaited = 0 ∧ s.toWait = 0 ∧ s.retired = []
  pre2 : (s.main = .init ∨ s.main = .warmed) → s.aw = .off ∧ s.waitDone = 0
  on : s.aw ≠ .off → s.prov ≠ .idle ∧ s.agg ≠ .idle ∧ s.startPc ≠ .idle ∧ s.main ≠ .init ∧ s.main ≠ .warmed
  wd0 : AwBusy s → s.waitDone = 0
  wd1 : s.aw = .finished → s.waitDone = 1
  wd2 : s.waitDone ≤ 1
  toWait : s.aw ≠ .off → s.toWait = cnt s
  fin : s.aw = .finished → s.toWait = 0
  closed : s.closedErr = true ↔ s.aw = .finished
  startDone : s.startPc = .done ↔ s.startRes.isSome = true
  startRes : ∀ n r, s.startRes = some (n, r) → n = s.spawned
  taken : s.startTaken = true → s.startRes.isSome = true ∧ s.startedInstances = s.spawned
  first0 : s.startPc = .waiting true → s.spawned = 0
  count : s.spawned = s.awaited + s.buf.length + s.live.length
  closedRun : s.aw ≠ .off → s.runResOpen = false → s.startTaken = true ∧ s.live = [] ∧ s.buf = []
  onErrChk : ∀ w r, s.aw = .onErr w r true → s.runResOpen = true
  nopanic : s.panicked = false

/-- `checkAllInstancesAreFinished` has nothing left to do -/
def ChkDone (s : State) : Prop := s.startTaken = true → s.runResOpen = true → s.awaited < s.spawned

/-- the await goroutine is at a point where no call of `checkAllInstancesAreFinished` is pending -/
def AwNoChk (s : State) : Prop := s.aw = .loop ∨ ∃ w r, s.aw = .onErr w r false

/-- the invariant between two steps: `InvW`, "the await loop is only entered with `toWait > 0`", and no pending check -/
abbrev InvA (s : State) : Prop := InvW s ∧ (s.aw = .loop → 0 < s.toWait) ∧ (AwNoChk s → ChkDone s)

theorem invA_init : InvA init := by
  refine ⟨?_, ?_, ?_⟩
  · constructor <;> simp [init, AwBusy, cnt]
  · simp [init]
  · simp [init, ChkDone]


theorem getElem?_facts {α} (l : List α) (i : Nat) (x : α) (h : l[i]? = some x) :
    (l.eraseIdx i).length + 1 = l.length ∧ l ≠ [] := by
  have hi : i < l.length := by
    rcases Nat.lt_or_ge i l.length with h' | h'
    · exact h'
    · rw [List.getElem?_eq_none h'] at h; cases h
  constructor
  · rw [List.length_eraseIdx]; simp [hi]; omega
  · intro e; subst e; simp at hi

macro "inv_destruct" h:ident : tactic => `(tactic|
  obtain ⟨⟨h1,h2,h3,h4,h5,h6,h7,h8,h9,h10,h12,h13,h14,h15,h16,h17,h18,h19,h20,h21⟩, h11, h22⟩ := $h)


theorem nil_iff_length {α} (l : List α) : l = [] ↔ l.length = 0 := by cases l <;> simp

/-- goals of the form `InvW s'` -/
macro "w_tac" : tactic => `(tactic|
  (constructor <;>
   simp only [cancelAll, mainReturn, finish, checkAll, afterErr, handleRes, addErr, sendRes, nextWait, AwBusy, cnt,
     ChkDone, AwNoChk,
     Ret.isCtxError, retAllowed, List.length_append, List.length_cons, List.length_nil, List.length_set] at * <;> grind))

macro "g_tac" : tactic => `(tactic|
  (simp only [cancelAll, mainReturn, finish, checkAll, afterErr, handleRes, addErr, sendRes, nextWait, AwBusy, cnt,
        ChkDone, AwNoChk,
        Ret.isCtxError, retAllowed, List.length_append, List.length_cons, List.length_nil, List.length_set] at *
   grind))

macro "inv_tac" : tactic => `(tactic|
  (refine ⟨?_, ?_, ?_⟩
   · w_tac
   · g_tac
   · (simp only [cancelAll, mainReturn, finish, checkAll, afterErr, handleRes, addErr, sendRes, nextWait, AwBusy, cnt,
     ChkDone, AwNoChk,
        Ret.isCtxError, retAllowed, List.length_append, List.length_cons, List.length_nil, List.length_set] at *
      grind)))

macro "w_destruct" h:ident : tactic => `(tactic|
  obtain ⟨h1,h2,h3,h4,h5,h6,h7,h8,h9,h10,h12,h13,h14,h15,h16,h17,h18,h19,h20,h21⟩ := $h)

theorem w_finish (s : State) (h : InvW s) (hc : AwNoChk s → ChkDone s) : InvA (finish s) := by
  w_destruct h
  unfold finish
  split
  · refine ⟨?_, ?_, ?_⟩
    · w_tac
    · simp
    · simp [AwNoChk]
  · refine ⟨?_, ?_, ?_⟩
    · w_tac
    · grind
    · exact hc

theorem w_checkAll (s : State) (h : InvW s) (hl : s.aw = .loop) (ho : s.runResOpen = true) :
    InvW (checkAll s) ∧ ChkDone (checkAll s) := by
  w_destruct h
  have hb := nil_iff_length s.buf
  have hv := nil_iff_length s.live
  unfold checkAll
  split
  · split
    · simp_all
    · split
      · grind
      · exact ⟨by w_tac, by simp [ChkDone]⟩
  · exact ⟨by w_tac, by g_tac⟩

theorem w_afterErr (s : State) (chk : Bool) (h : InvW { s with aw := .loop })
    (ho : chk = true → s.runResOpen = true) (hc : chk = false → ChkDone s) : InvA (afterErr s chk) := by
  unfold afterErr
  split
  · rename_i hk
    have := w_checkAll _ h rfl (ho hk)
    exact w_finish _ this.1 (fun _ => this.2)
  · rename_i hk
    exact w_finish _ h (fun _ => hc (by simpa using hk))

theorem w_handleRes (s : State) (w : Wrap) (r : Ret) (done chk : Bool) (h : InvW s) (hl : s.aw = .loop)
    (ho : chk = true → s.runResOpen = true) (hc : chk = false → ChkDone s) : InvA (handleRes s w r done chk) := by
  unfold handleRes
  split
  · apply w_afterErr _ _ _ ho hc
    have e : { s with aw := AwPc.loop } = s := by cases s; simp_all
    rw [e]; exact h
  · refine ⟨?_, ?_, ?_⟩
    · w_destruct h; w_tac
    · simp
    · intro hn
      cases chk
      · exact hc rfl
      · simp [AwNoChk] at hn

section
variable (cfg : Cfg) (s : State)

theorem a_ext (h : InvA s) : InvA (step cfg s .extCancel) := by
  simp only [step]; inv_destruct h; inv_tac

theorem a_warm (o) (h : InvA s) : InvA (step cfg s (.warm o)) := by
  simp only [step]
  split
  · inv_destruct h; cases o <;> inv_tac
  · exact h

theorem a_sched (o) (h : InvA s) : InvA (step cfg s (.sched o)) := by
  simp only [step]
  split
  · inv_destruct h; cases o <;> inv_tac
  · exact h

theorem a_provRet (r) (h : InvA s) : InvA (step cfg s (.provRet r)) := by
  simp only [step]
  split
  · inv_destruct h; cases r <;> inv_tac
  · exact h

theorem a_aggRet (r) (h : InvA s) : InvA (step cfg s (.aggRet r)) := by
  simp only [step]
  split
  · inv_destruct h; cases r <;> inv_tac
  · exact h

theorem a_rps (h : InvA s) : InvA (step cfg s .rpsFinished) := by
  simp only [step]
  split
  · inv_destruct h; inv_tac
  · exact h

theorem a_startFirst (o) (h : InvA s) : InvA (step cfg s (.startFirst o)) := by
  simp only [step]
  split
  · inv_destruct h; cases o <;> inv_tac
  · exact h

theorem a_startTick (h : InvA s) : InvA (step cfg s .startTick) := by
  simp only [step]
  split
  · inv_destruct h; inv_tac
  · exact h

theorem a_startEnd (h : InvA s) : InvA (step cfg s .startEnd) := by
  simp only [step]
  split
  · inv_destruct h; inv_tac
  · exact h

theorem a_instCreate (i o) (h : InvA s) : InvA (step cfg s (.instCreate i o)) := by
  simp only [step]
  split
  · rename_i id hl
    have hf := getElem?_facts _ _ _ hl
    inv_destruct h; cases o <;> inv_tac
  · exact h

theorem a_instRet (i r) (h : InvA s) : InvA (step cfg s (.instRet i r)) := by
  simp only [step]
  split
  · rename_i id g hl
    have hf := getElem?_facts _ _ _ hl
    split
    · exact h
    · inv_destruct h; cases r <;> inv_tac
  · exact h

theorem a_awaitProv (h : InvA s) : InvA (step cfg s .awaitProv) := by
  simp only [step]
  split
  · rename_i r _ _
    apply w_handleRes
    · inv_destruct h; w_tac
    · assumption
    · simp
    · intro _; inv_destruct h; g_tac
  · exact h

theorem a_awaitAgg (h : InvA s) : InvA (step cfg s .awaitAgg) := by
  simp only [step]
  split
  · rename_i r _ _
    apply w_handleRes
    · inv_destruct h; w_tac
    · assumption
    · simp
    · intro _; inv_destruct h; g_tac
  · exact h

theorem a_awaitStart (h : InvA s) : InvA (step cfg s .awaitStart) := by
  simp only [step]
  split
  · rename_i n r _ _ _
    apply w_handleRes
    · inv_destruct h; w_tac
    · assumption
    · inv_destruct h; simp only [cnt] at *; grind
    · simp
  · exact h

theorem a_awaitRun (h : InvA s) : InvA (step cfg s .awaitRun) := by
  simp only [step]
  split
  · rename_i id r rest _ _ _
    split
    · apply w_afterErr
      · inv_destruct h; split <;> w_tac
      · intro _; split <;> assumption
      · simp
    · apply w_handleRes
      · inv_destruct h; w_tac
      · assumption
      · intro _; assumption
      · simp
  · exact h

theorem a_errDeliver (h : InvA s) : InvA (step cfg s .errDeliver) := by
  simp only [step]
  split
  · rename_i w r chk _ _
    apply w_afterErr
    · inv_destruct h; w_tac
    · intro hc; subst hc; inv_destruct h; simp only [mainReturn, cancelAll]; grind
    · intro hc; subst hc; inv_destruct h; g_tac
  · exact h

theorem a_errSuppress (h : InvA s) : InvA (step cfg s .errSuppress) := by
  simp only [step]
  split
  · rename_i w r chk _
    have key : InvA (afterErr s chk) := by
      apply w_afterErr
      · inv_destruct h; w_tac
      · intro hc; subst hc; inv_destruct h; grind
      · intro hc; subst hc; inv_destruct h; g_tac
    repeat' split
    all_goals first | exact h | exact key
  · exact h

theorem a_mainCancel (h : InvA s) : InvA (step cfg s .mainCancel) := by
  simp only [step]
  split
  · inv_destruct h; inv_tac
  · exact h

theorem a_mainClosed (h : InvA s) : InvA (step cfg s .mainClosed) := by
  simp only [step]
  split
  · inv_destruct h; inv_tac
  · exact h

end

theorem step_invA (cfg : Cfg) (s : State) (c : Choice) (h : InvA s) : InvA (step cfg s c) := by
  cases c
  · exact a_ext cfg s h
  · exact a_warm cfg s _ h
  · exact a_sched cfg s _ h
  · exact a_provRet cfg s _ h
  · exact a_aggRet cfg s _ h
  · exact a_rps cfg s h
  · exact a_startFirst cfg s _ h
  · exact a_startTick cfg s h
  · exact a_startEnd cfg s h
  · exact a_instCreate cfg s _ _ h
  · exact a_instRet cfg s _ _ h
  · exact a_awaitProv cfg s h
  · exact a_awaitAgg cfg s h
  · exact a_awaitStart cfg s h
  · exact a_awaitRun cfg s h
  · exact a_errDeliver cfg s h
  · exact a_errSuppress cfg s h
  · exact a_mainCancel cfg s h
  · exact a_mainClosed cfg s h

theorem foldl_invA (cfg : Cfg) (cs : List Choice) (s : State) (h : InvA s) : InvA (cs.foldl (step cfg) s) := by
  induction cs generalizing s with
  | nil => exact h
  | cons c cs ih => exact ih _ (step_invA cfg s c h)

theorem run_invA (cfg : Cfg) (cs : List Choice) : InvA (run cfg cs) := foldl_invA cfg cs _ invA_init

end Pandora.Proofs.C05
