/-
C05 — structural invariants of the pool model (`Pandora.Model.C05Pool`), for every code variant `cfg`.
-/
import Pandora.Model.C05Pool

namespace Pandora.Proofs.C05
open Pandora.Model.C05

/-- number of results the await loop has not consumed yet: what `toWait` must equal -/
def cnt (s : State) : Nat :=
  (if s.prov = .taken then 0 else 1) + (if s.agg = .taken then 0 else 1) +
  (if s.startTaken then 0 else 1) + (if s.runResOpen then 1 else 0)

def AwBusy (s : State) : Prop := s.aw = .loop ∨ ∃ w r c, s.aw = .onErr w r c

structure InvA (s : State) : Prop where
  ctx1 : s.poolC = true → s.runC = true
  ctx2 : s.runC = true → s.startC = true
  retCancel : ∀ r, s.main = .returned r → s.poolC = true
  pre : s.aw = .off → s.prov = .idle ∧ s.agg = .idle ∧ s.startPc = .idle ∧ s.live = [] ∧ s.buf = [] ∧
          s.startRes = none ∧ s.startTaken = false ∧ s.runResOpen = false ∧ s.closedErr = false ∧
          s.spawned = 0 ∧ s.awaited = 0 ∧ s.toWait = 0 ∧ s.retired = []
  pre2 : (s.main = .init ∨ s.main = .warmed) → s.aw = .off ∧ s.waitDone = 0
  on : s.aw ≠ .off → s.prov ≠ .idle ∧ s.agg ≠ .idle ∧ s.startPc ≠ .idle ∧ s.main ≠ .init ∧ s.main ≠ .warmed
  wd0 : AwBusy s → s.waitDone = 0
  wd1 : s.aw = .finished → s.waitDone = 1
  wd2 : s.waitDone ≤ 1
  toWait : s.aw ≠ .off → s.toWait = cnt s
  loopPos : s.aw = .loop → 0 < s.toWait
  fin : s.aw = .finished → s.toWait = 0
  closed : s.closedErr = true ↔ s.aw = .finished
  startDone : s.startPc = .done ↔ s.startRes.isSome = true
  startRes : ∀ n r, s.startRes = some (n, r) → n = s.spawned
  taken : s.startTaken = true → s.startRes.isSome = true ∧ s.startedInstances = s.spawned
  first0 : s.startPc = .waiting true → s.spawned = 0
  count : s.spawned = s.awaited + s.buf.length + s.live.length
  closedRun : s.aw ≠ .off → s.runResOpen = false → s.startTaken = true ∧ s.live = [] ∧ s.buf = []
  onErrChk : ∀ w r, s.aw = .onErr w r true → s.runResOpen = true
  nopanic : s.panicked = false

theorem invA_init : InvA init := by
  constructor <;> simp [init, AwBusy, cnt]

end Pandora.Proofs.C05
