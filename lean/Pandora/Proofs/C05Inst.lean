/-
C05 — lemmas about the instance loop (`Model.C05.Inst`): how an instance can end, ammo accounting, token accounting,
termination.  All by induction over the pass list with the state generalised.
-/
import Pandora.Model.C05Inst

namespace Pandora.Proofs.C05Inst
open Pandora.Model.C05 Pandora.Model.C05.Inst

/-- bookkeeping invariant of the loop, relative to the tokens `n` the schedule had at the start -/
structure Inv (n : Nat) (s : St) : Prop where
  balanced : s.rel = s.acq
  tokens : s.taken + s.left ≤ n
  fired : s.shots + s.disc ≤ s.taken
  /-- an ammo is acquired beyond the tokens taken only in the pass that finds the schedule finished or the context done -/
  ammo : s.acq ≤ s.taken ∨ (s.acq = s.taken + 1 ∧ (s.ctx = true ∨ s.left = 0))

theorem pass_mono (d : Bool) (s : St) (p : Pass) : s.ctx = true → (pass d s p).1.ctx = true := by
  intro h
  simp [pass, isFinished, h]

/-- one pass: what each way out means -/
theorem pass_spec (d : Bool) (s : St) (p : Pass) :
    (∀ s', pass d s p = (s', some .ok) → s'.left = 0 ∧ s'.ctx = false ∧ s'.acq = s.acq) ∧
    (∀ s', pass d s p = (s', some .ooa) → p.ammoOk = false ∧ s'.ctx = false ∧ s'.left ≠ 0 ∧ s'.acq = s.acq) ∧
    (∀ s', pass d s p = (s', some .ctx) → s'.ctx = true) ∧
    (∀ s' e, pass d s p = (s', some (.err e)) → p.panics = some e ∧ s'.shots = s.shots + 1) := by
  unfold pass isFinished isSlowDown
  refine ⟨?_, ?_, ?_, ?_⟩ <;> intros <;> (repeat' split at *) <;> simp_all <;> grind

theorem pass_inv (d : Bool) (n : Nat) (s : St) (p : Pass) (h : Inv n s) : Inv n (pass d s p).1 := by
  obtain ⟨h1, h2, h3, h4⟩ := h
  unfold pass isFinished isSlowDown
  (repeat' split) <;> constructor <;> simp_all <;> omega

/-- a pass that gets as far as `Wait` is governed by `waitOut`: it takes a token exactly when `Wait` took one, and
fires / discards (or panics) exactly when `Wait` said yes; otherwise the iteration ends with nil and nothing is shot -/
theorem pass_wait (d : Bool) (s : St) (p : Pass)
    (h1 : isFinished (s.ctx || p.cancel1) (s.left - p.stolen) = false) (h2 : p.ammoOk = true) :
    let w := waitOut (s.ctx || p.cancel1 || p.cancel2) (s.left - p.stolen - p.stolen2) p.due p.timerWins
    (pass d s p).1.taken = s.taken + (if w.takes then 1 else 0) ∧
    (pass d s p).1.shots + (pass d s p).1.disc = s.shots + s.disc + (if w.ok then 1 else 0) ∧
    (w.ok = false → (pass d s p).2 = none) ∧
    (pass d s p).1.acq = s.acq + 1 := by
  unfold pass waitOut isSlowDown
  simp only [h1, h2]
  (repeat' split) <;> simp_all [WaitOut.ok, WaitOut.takes] <;> omega

theorem run_inv (d : Bool) (n : Nat) (ps : List Pass) : ∀ s, Inv n s → Inv n (loop d s ps).1 := by
  induction ps with
  | nil => intro s h; simpa [loop] using h
  | cons p ps ih =>
    intro s h
    have hp := pass_inv d n s p h
    unfold loop
    split
    · next s' r heq => rw [heq] at hp; exact hp
    · next s' heq => rw [heq] at hp; exact ih s' hp

/-- how `Run` can end, over the whole loop -/
theorem run_spec (d : Bool) (ps : List Pass) : ∀ s s',
    (loop d s ps = (s', some .ok) → s'.left = 0 ∧ s'.ctx = false) ∧
    (loop d s ps = (s', some .ooa) → (∃ p ∈ ps, p.ammoOk = false) ∧ s'.ctx = false ∧ s'.left ≠ 0) ∧
    (loop d s ps = (s', some .ctx) → s'.ctx = true) ∧
    (∀ e, loop d s ps = (s', some (.err e)) → ∃ p ∈ ps, p.panics = some e) := by
  induction ps with
  | nil => intro s s'; simp [loop]
  | cons p ps ih =>
    intro s s'
    obtain ⟨h1, h2, h3, h4⟩ := pass_spec d s p
    unfold loop
    split
    · next s1 r heq =>
      refine ⟨?_, ?_, ?_, ?_⟩
      · intro h; simp at h; obtain ⟨rfl, rfl⟩ := h; exact ⟨(h1 _ heq).1, (h1 _ heq).2.1⟩
      · intro h; simp at h; obtain ⟨rfl, rfl⟩ := h
        exact ⟨⟨p, by simp, (h2 _ heq).1⟩, (h2 _ heq).2.1, (h2 _ heq).2.2.1⟩
      · intro h; simp at h; obtain ⟨rfl, rfl⟩ := h; exact h3 _ heq
      · intro e h; simp at h; obtain ⟨rfl, rfl⟩ := h; exact ⟨p, by simp, (h4 _ _ heq).1⟩
    · next s1 heq =>
      obtain ⟨i1, i2, i3, i4⟩ := ih s1 s'
      refine ⟨i1, ?_, i3, ?_⟩
      · intro h; obtain ⟨⟨q, hq, hq'⟩, r⟩ := i2 h; exact ⟨⟨q, by simp [hq], hq'⟩, r⟩
      · intro e h; obtain ⟨q, hq, hq'⟩ := i4 e h; exact ⟨q, by simp [hq], hq'⟩

/-- ranking function of the loop: a pass that does not return takes a token, or leaves nothing to come back for -/
def rank (s : St) : Nat := if s.ctx = true ∨ s.left = 0 then 0 else s.left

theorem pass_rank (d : Bool) (s : St) (p : Pass) : (pass d s p).2 = none → rank (pass d s p).1 < rank s := by
  unfold pass isFinished isSlowDown rank
  (repeat' split) <;> simp_all <;> omega

theorem run_terminates (d : Bool) (ps : List Pass) : ∀ s, rank s < ps.length → (loop d s ps).2.isSome = true := by
  induction ps with
  | nil => intro s h; simp at h
  | cons p ps ih =>
    intro s h
    have hr := pass_rank d s p
    unfold loop
    split
    · rfl
    · next s1 heq =>
      rw [heq] at hr
      have h2 : rank s1 < rank s := hr rfl
      exact ih s1 (by simp at h; omega)

theorem pass_quiet (d : Bool) (s : St) (p : Pass) (hq : p.quiet) (h : s.acq = s.taken ∧ s.ctx = false) :
    (pass d s p).1.acq = (pass d s p).1.taken ∧ ((pass d s p).2 = none → (pass d s p).1.ctx = false) := by
  obtain ⟨q1, q2, q3, q4, q5, q6⟩ := hq
  unfold pass isFinished isSlowDown
  (repeat' split) <;> simp_all <;> omega

theorem run_quiet (d : Bool) (ps : List Pass) : ∀ s, (∀ p ∈ ps, p.quiet) → s.acq = s.taken ∧ s.ctx = false →
    (loop d s ps).1.acq = (loop d s ps).1.taken := by
  induction ps with
  | nil => intro s _ h; simpa [loop] using h.1
  | cons p ps ih =>
    intro s hq h
    have hp := pass_quiet d s p (hq p (by simp)) h
    unfold loop
    split
    · next s' r heq => rw [heq] at hp; exact hp.1
    · next s' heq =>
      rw [heq] at hp
      exact ih s' (fun q hq' => hq q (by simp [hq'])) ⟨hp.1, hp.2 rfl⟩

end Pandora.Proofs.C05Inst
