/-
C19, round 6 — composition with C04's model of the waiter (`Pandora.Model.C04`, tied to the CURRENT source by
`Pandora.Bridge.Waiter`: `Gen.Waiter.Wait`, `IsSlowDown`, `iteration` are regenerated as FUNCTIONS from
core/coreutil/waiter.go and core/engine/instance.go): what a slow answer costs.  Imported read-only; the definitions here
join C04's loop of `instance.Run` (events against the clock) with C19's shots (samples).
-/
import Pandora.Proofs.C19Run
import Pandora.Proofs.C04
import Pandora.Bridge.Waiter

namespace Pandora.Proofs.C19
open Pandora.Model.C10 Pandora.Model.C19
open Pandora.Go.C04

namespace R6
open Pandora.Model.C04 (Waiter Env Iter Ev Variant runLoop waitV wait fires drawn)
open Pandora.Proofs.C04 (ClockOK EnvOK waitV_ok)

/-- what the aggregator receives for the actions of C04's loop of `instance.Run`, with C19's model of a shot: the
samples of the shot, or the one `discarded` sample -/
def samplesOfEvents (shotOf : Iter → ShotResult) : List Ev → List Sample
  | [] => []
  | .shoot it :: r => (shotOf it).reports ++ samplesOfEvents shotOf r
  | .discard _ _ :: r => discardedSample :: samplesOfEvents shotOf r

/-- the tokens (C19: `Token`) of a history of passes of the loop (C04: `Iter`), the waiter's state threaded through:
one per pass in which `Wait` returned true -/
def drawnTokens (shotOf : Iter → ShotResult) : Waiter → List Iter → List Token
  | _, [] => []
  | w, it :: rest =>
    if it.finished then [] else
    if !it.ammoOk then [] else
    let r := waitV .fresh w it.env
    if !r.ok then drawnTokens shotOf r.w rest
    else { slowDown := Model.C04.isSlowDown r.w it.ctxDoneSlow, shot := shotOf it } :: drawnTokens shotOf r.w rest

/-- the `overdue` a call of `Wait` leaves behind, as a function of the token, the cached reading and the clock — the
overdue of EARLIER tokens is not an argument -/
def overdueAfter (lastNow : Int) (e : Env) : Int :=
  if e.ctxDone then 0 else
  match e.tok with
  | none => 0
  | some next =>
    if next - lastNow ≤ 0 then e.now - next
    else if next - e.now ≤ 0 then e.now - next
    else 0

theorem wait_overdue (w : Waiter) (e : Env) : (wait w e).w.overdue = overdueAfter w.lastNow e := by
  unfold wait waitV overdueAfter
  by_cases hc : e.ctxDone = true
  · simp [hc]
  · cases ht : e.tok with
    | none => simp [hc]
    | some next =>
      simp only [hc, timeSub]
      by_cases a1 : next - w.lastNow ≤ 0 <;> by_cases a3 : next - e.now ≤ 0 <;>
        by_cases a4 : e.timerWins = true <;> simp [a1, a3, a4] <;> omega

/-- with a clock that does not run backwards this is C19's `waiterOverdue` -/
theorem overdueAfter_eq (lastNow : Int) (e : Env) (next : Int) (hc : e.ctxDone = false) (ht : e.tok = some next) :
    overdueAfter lastNow e = waiterOverdue next lastNow e.now := by
  unfold overdueAfter waiterOverdue
  simp only [hc, ht]
  by_cases a1 : next - lastNow ≤ 0 <;> by_cases a3 : next - e.now ≤ 0 <;> simp [a1, a3] <;> omega

/-- a `discarded` report happens only with `discard_overflow` on and `MaxOverdueDuration` or more after the token's
time -/
theorem discard_only_late (d : Bool) (w : Waiter) (h : List Iter) (hc : ClockOK w h) :
    ∀ it s, Ev.discard it s ∈ (runLoop .fresh d w h).1 →
      d = true ∧ ∃ next, it.env.tok = some next ∧ Model.C04.maxOverdue ≤ it.env.ret - next := by
  induction h generalizing w with
  | nil => simp [runLoop]
  | cons it rest ih =>
    intro jt s hev
    unfold runLoop at hev
    by_cases hf : it.finished = true
    · simp [hf] at hev
    · by_cases ha : it.ammoOk = true
      · simp only [hf, ha] at hev
        by_cases hk : (waitV .fresh w it.env).ok = true
        · simp only [hk] at hev
          simp at hev
          rcases hev with hev | hev
          · obtain ⟨next, h1, _, h3⟩ := waitV_ok .fresh w it.env hc.head.1 hc.head.2 hk
            split at hev
            · cases hev
            · rename_i hfire
              injection hev with hit _
              subst hit
              simp [fires, Model.C04.isSlowDown, Model.C04.slowCond] at hfire
              refine ⟨hfire.1, next, h1, ?_⟩
              omega
          · exact ih _ (hc.tail .fresh) jt s hev
        · simp [hk] at hev
          exact ih _ (hc.tail .fresh) jt s hev
      · simp [hf, ha] at hev

/-- the samples of C04's loop are the samples C19's `tokenSamples` assigns to the drawn tokens, in order -/
theorem samples_eq (shotOf : Iter → ShotResult) (d : Bool) (w : Waiter) (h : List Iter) :
    samplesOfEvents shotOf (runLoop .fresh d w h).1 = ((drawnTokens shotOf w h).map (tokenSamples d)).flatten := by
  induction h generalizing w with
  | nil => simp [runLoop, drawnTokens, samplesOfEvents]
  | cons it rest ih =>
    unfold runLoop drawnTokens
    by_cases hf : it.finished = true
    · simp [hf, samplesOfEvents]
    · by_cases ha : it.ammoOk = true
      · by_cases hk : (waitV .fresh w it.env).ok = true
        · simp only [hf, ha, hk]
          by_cases hs : fires d (Model.C04.isSlowDown (waitV .fresh w it.env).w it.ctxDoneSlow) = true
          · have : shootCond d (Model.C04.isSlowDown (waitV .fresh w it.env).w it.ctxDoneSlow) = true := hs
            simp [hs, samplesOfEvents, tokenSamples, this, ih]
          · have : shootCond d (Model.C04.isSlowDown (waitV .fresh w it.env).w it.ctxDoneSlow) = false := by
              simpa [shootCond, fires] using hs
            simp [hs, samplesOfEvents, tokenSamples, this, ih]
        · simp [hf, ha, hk, ih]
      · simp [hf, ha, samplesOfEvents]

theorem drawnTokens_waitOk (shotOf : Iter → ShotResult) (w : Waiter) (h : List Iter) :
    ∀ t ∈ drawnTokens shotOf w h, t.waitOk = true := by
  induction h generalizing w with
  | nil => simp [drawnTokens]
  | cons it rest ih =>
    unfold drawnTokens
    by_cases hf : it.finished = true
    · simp [hf]
    · by_cases ha : it.ammoOk = true
      · by_cases hk : (waitV .fresh w it.env).ok = true
        · simp only [hf, ha, hk]
          simp
          exact ih _
        · simp [hf, ha, hk]
          exact ih _
      · simp [hf, ha]

end R6
end Pandora.Proofs.C19
