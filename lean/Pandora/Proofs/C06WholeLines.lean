/-
C06 round 6 — every `Write` the repaired `handle` hands to the destination is a concatenation of whole lines.
-/
import Pandora.Model.C06WholeLines

namespace Pandora.Proofs.C06WholeLines
open Pandora.Model.C06WholeLines Pandora.Model.Phout

/-- the writer's state is made of whole lines: the writes are concatenations of groups of handled lines, the buffer
is the concatenation of the lines handled since, all in order -/
def Good (handled : List Bytes) (w : W) : Prop :=
  ∃ (groups : List (List Bytes)) (pending : List Bytes),
    w.writes = groups.map List.flatten ∧ w.buf = pending.flatten ∧ groups.flatten ++ pending = handled

theorem flush_buf (w : W) : w.flush.buf = [] := by
  unfold W.flush
  split
  · rename_i h; simpa using h
  · rfl

theorem good_flush {h : List Bytes} {w : W} (g : Good h w) : Good h w.flush := by
  unfold W.flush
  split
  · exact g
  · obtain ⟨groups, pending, hw, hb, hh⟩ := g
    exact ⟨groups ++ [pending], [], by simp [hw, hb], rfl, by simp [hh]⟩

theorem handle_flush {N : Nat} {w : W} {line : Bytes} (h : N - w.buf.length < line.length) :
    handle true N w line = bufWrite N w.flush line := by simp [handle, h]

theorem handle_noflush {N : Nat} {w : W} {line : Bytes} (h : ¬ N - w.buf.length < line.length) :
    handle true N w line = bufWrite N w line := by simp [handle, h]

theorem good_handle {h : List Bytes} {w : W} (N : Nat) (line : Bytes) (g : Good h w) :
    Good (h ++ [line]) (handle true N w line) := by
  by_cases hfit : N - w.buf.length < line.length
  · -- flushed first: the buffer is empty, the line fits or goes out directly
    rw [handle_flush hfit]
    obtain ⟨groups, pending, hw, hb, hh⟩ := good_flush g
    have hbuf := flush_buf w
    unfold bufWrite
    split
    · exact ⟨groups, pending ++ [line], hw, by simp [hb], by simp [← hh]⟩
    · rw [if_pos (by simp [hbuf])]
      exact ⟨groups ++ [pending ++ [line]], [], by simp [hw, ← hb, hbuf], hbuf, by simp [← hh]⟩
  · rw [handle_noflush hfit]
    obtain ⟨groups, pending, hw, hb, hh⟩ := g
    unfold bufWrite
    rw [if_pos (Nat.le_of_not_lt hfit)]
    exact ⟨groups, pending ++ [line], hw, by simp [hb], by simp [← hh]⟩

theorem good_run (N : Nat) : ∀ (lines h : List Bytes) (w : W), Good h w →
    Good (h ++ lines) (runLines true N w lines)
  | [], h, w, g => by simpa [runLines] using g
  | l :: ls, h, w, g => by
      have := good_run N ls (h ++ [l]) _ (good_handle N l g)
      simpa [runLines] using this

end Pandora.Proofs.C06WholeLines
