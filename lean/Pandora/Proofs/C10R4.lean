/-
C10, fourth round — helper lemmas: the pooled ammo objects of the grpc/json provider, id counters far into a run and
counters of any width, failed dials through the dialers of the http guns.
-/
import Pandora.Proofs.C10R2

namespace Pandora.Proofs.C10
open Pandora.Model.C10 Pandora.Spec.C10

/-! ### pooled ammo objects -/

/-- `decodeAmmo` overwrites the whole object: what the pooled object carried does not matter -/
theorem deliver_ignores_pooled (p q : AmmoObj) (e : Entry) : deliver p e = deliver q e := by
  unfold deliver AmmoObj.reset
  split <;> rfl

/-- whatever the pool holds and whichever object it hands out, every line is delivered as if decoded into a new object -/
theorem runAmmoPool_deliver (choose : List AmmoObj → Option Nat) (pool : List AmmoObj) (ents : List Entry) :
    runAmmoPool deliver choose pool ents = ents.map (deliver {}) := by
  induction ents generalizing pool with
  | nil => simp [runAmmoPool]
  | cons e rest ih =>
    simp only [runAmmoPool, List.map_cons]
    rw [ih]
    congr 1

/-- the tag an entry's sample must carry: the line's own `tag`, nothing when it has none or cannot be decoded -/
def entryTag (e : Entry) : String := if e.decodable then e.tag.getD "" else ""

theorem deliver_tag (p : AmmoObj) (e : Entry) : (deliver p e).tag = entryTag e := by
  unfold deliver entryTag AmmoObj.reset decodeFresh
  split <;> rfl

theorem deliver_invalid (p : AmmoObj) (e : Entry) : (deliver p e).invalid = !e.decodable := by
  unfold deliver AmmoObj.reset
  split <;> simp_all

theorem shootAmmo_tags (l : List AmmoObj) : (shootAmmo l).map (·.tags) = l.map (·.tag) := by
  induction l with
  | nil => simp [shootAmmo]
  | cons a rest ih =>
    simp only [shootAmmo, List.flatMap_cons, List.map_append, List.map_cons] at ih ⊢
    rw [ih]
    simp [shootGrpc]

theorem shootAmmo_length (l : List AmmoObj) : (shootAmmo l).length = l.length := by
  have := congrArg List.length (shootAmmo_tags l)
  simpa using this

/-- the Spec's judge accepts the samples of any list of delivered ammo against the truth read off each ammo -/
theorem judgeGrpc_accepts_ammo (htab : ∀ c, grpcToHttp c = docTable c) (l : List AmmoObj) :
    judgeGrpc (l.map fun a => (a.tag, grpcTruth (scriptedOutcome a))) ((shootAmmo l).map toObs) = "ok" := by
  have h := judgeGrpc_accepts htab (l.map fun a => (a.tag, scriptedOutcome a))
  simpa [shootAmmo, List.map_map, List.flatMap_map, Function.comp_def] using h

/-! ### id counters -/

theorem pow64 : (2 : Nat) ^ 64 = idModulus := by decide

theorem runIdsW_64 {ι : Type} (c : Nat) (sched : List ι) : runIdsW 64 c sched = runIds c sched := by
  induction sched generalizing c with
  | nil => simp [runIdsW, runIds]
  | cons i rest ih => simp only [runIdsW, runIds, nextIDw, nextID, pow64, ih]

/-- far into a run: as long as the counter does not wrap, the stretch's ids are `start+1 … start+n` -/
theorem ids_after_start {ι : Type} (start : Nat) (sched : List ι) (h : start + sched.length < idModulus) :
    ∀ id ∈ (runIds start sched).map Prod.snd, start < id ∧ id ≤ start + sched.length := by
  intro id hid
  rw [runIds_snd, ids_small start _ h] at hid
  simp only [List.mem_range'_1] at hid
  omega

/-! ### failed dials -/

theorem judgeDialerIndependent_refl (l : List Nat) : judgeDialerIndependent l l = "ok" := by
  induction l with
  | nil => rfl
  | cons a rest ih => simp [judgeDialerIndependent, ih]

end Pandora.Proofs.C10
