/-
C03, round 6 — the loop iteration REGENERATED from `instance.Run`, executed by ANY instance from ANY reachable state.

`Bridge.InstLoop.iterBody_accepted` checks the regenerated body from one canonical state (one instance, one token, one item) for
every answer of the environment.  Here: for every configuration, every reachable state `s` of the pool (any number of
instances anywhere in their loops), every instance `i` standing at `Acquire`, and the answers the state dictates (an item is
there iff the provider is not exhausted, a token iff instance i's profile has one left, fire-or-discard free unless
discard_overflow is off), the operations the regenerated body performs — with instance `i` and the item number `s.acquired` —
are enabled one after the other, and lead back to the `IsFinished` check with the item released (or out of the loop when the
ammo is finished).  So the per-instance program order of the LTS is the source's from every state, not only the canonical one.
-/
import Pandora.Proofs.C03Leaf
import Pandora.Bridge.InstLoop

namespace Pandora.Proofs.C03Iter
open Pandora.Model.C03 Pandora.Proofs.C03 Pandora.Model.C03Loop

theorem set_get {α : Type} (l : List α) (i : Nat) (a x : α) (h : l[i]? = some a) : (l.set i x)[i]? = some x :=
  getElem?_set_self' l x (lt_of_get h)

theorem prog_acq {c : Cfg} {s : St} {i : Nat} (hI : InvI c s) (hpc : s.pcs[i]? = some .acquire) (ha : s.ammoLeft ≠ some 0) :
    ∃ s', step c s (.acq i) = some s' ∧ s'.pcs[i]? = some .wait ∧ s'.cur[i]? = some (some s.acquired) := by
  have hi : i < s.cur.length := by rw [hI.curLen, ← hI.pcsLen]; exact lt_of_get hpc
  simp only [step, hpc, if_true]
  cases h : s.ammoLeft with
  | none => exact ⟨_, rfl, set_get _ _ _ _ hpc, getElem?_set_self' _ _ hi⟩
  | some a =>
    cases a with
    | zero => exact absurd h ha
    | succ a => exact ⟨_, rfl, set_get _ _ _ _ hpc, getElem?_set_self' _ _ hi⟩

theorem prog_empty {c : Cfg} {s : St} {i : Nat} (hpc : s.pcs[i]? = some .acquire) (ha : s.ammoLeft = some 0) :
    ∃ s', step c s (.empty i) = some s' ∧ s'.pcs[i]? = some .done := by
  simp only [step, hpc, ha, and_self, if_true]
  exact ⟨_, rfl, set_get _ _ _ _ hpc⟩

theorem prog_tokOk {c : Cfg} {s : St} {i : Nat} {k : Nat} (hpc : s.pcs[i]? = some .wait) (hl : 0 < s.left c i)
    (hcur : s.cur[i]? = some (some k)) :
    ∃ s', step c s (.tokOk i) = some s' ∧ s'.pcs[i]? = some .decide ∧ s'.cur[i]? = some (some k) := by
  simp only [step, hpc, hl, and_self, if_true]
  refine ⟨_, rfl, set_get _ _ _ _ hpc, ?_⟩
  unfold St.draw
  split <;> exact hcur

theorem prog_tokEnd {c : Cfg} {s : St} {i : Nat} {k : Nat} (hpc : s.pcs[i]? = some .wait) (hl : s.left c i = 0)
    (hcur : s.cur[i]? = some (some k)) :
    ∃ s', step c s (.tokEnd i) = some s' ∧ s'.pcs[i]? = some .release ∧ s'.cur[i]? = some (some k) := by
  simp only [step, hpc, hl, and_self, if_true]
  exact ⟨_, rfl, set_get _ _ _ _ hpc, hcur⟩

theorem prog_reqAdd {c : Cfg} {s : St} {i : Nat} {k : Nat} (hpc : s.pcs[i]? = some .decide) (hcur : s.cur[i]? = some (some k)) :
    ∃ s', step c s (.reqAdd i) = some s' ∧ s'.pcs[i]? = some .firing ∧ s'.cur[i]? = some (some k) := by
  simp only [step, hpc, if_true]
  exact ⟨_, rfl, set_get _ _ _ _ hpc, hcur⟩

theorem prog_shoot {c : Cfg} {s : St} {i : Nat} {k : Nat} (hpc : s.pcs[i]? = some .firing) (hcur : s.cur[i]? = some (some k)) :
    ∃ s', step c s (.shoot i k) = some s' ∧ s'.pcs[i]? = some .shot ∧ s'.cur[i]? = some (some k) := by
  simp only [step, hpc, hcur, and_self, if_true]
  exact ⟨_, rfl, set_get _ _ _ _ hpc, hcur⟩

theorem prog_respAdd {c : Cfg} {s : St} {i : Nat} {k : Nat} (hpc : s.pcs[i]? = some .shot) (hcur : s.cur[i]? = some (some k)) :
    ∃ s', step c s (.respAdd i) = some s' ∧ s'.pcs[i]? = some .release ∧ s'.cur[i]? = some (some k) := by
  simp only [step, hpc, if_true]
  exact ⟨_, rfl, set_get _ _ _ _ hpc, hcur⟩

theorem prog_discard {c : Cfg} {s : St} {i : Nat} {k : Nat} (hpc : s.pcs[i]? = some .decide) (hd : c.discardOn = true)
    (hcur : s.cur[i]? = some (some k)) :
    ∃ s', step c s (.discard i) = some s' ∧ s'.pcs[i]? = some .release ∧ s'.cur[i]? = some (some k) := by
  simp only [step, hpc, hd, and_self, if_true]
  exact ⟨_, rfl, set_get _ _ _ _ hpc, hcur⟩

theorem prog_rel {c : Cfg} {s : St} {i : Nat} {k : Nat} (hpc : s.pcs[i]? = some .release) (hcur : s.cur[i]? = some (some k)) :
    ∃ s', step c s (.rel i k) = some s' ∧ s'.pcs[i]? = some .check ∧ s'.released = s.released + 1 := by
  simp only [step, hpc, hcur, and_self, if_true]
  exact ⟨_, rfl, set_get _ _ _ _ hpc, rfl⟩

/-- the model event of instance `i` for an act of the iteration, the item in hand being number `k` -/
def toEvAt (i k : Nat) : Act → Option Ev
  | .acq => some (.acq i)
  | .empty => some (.empty i)
  | .tokOk => some (.tokOk i)
  | .tokEnd => some (.tokEnd i)
  | .reqAdd => some (.reqAdd i)
  | .shoot => some (.shoot i k)
  | .respAdd => some (.respAdd i)
  | .discard => some (.discard i)
  | .rel => some (.rel i k)
  | .bad _ => none

/-- what the regenerated body does, answer by answer (the same for an item whose value is nil) -/
theorem exec_gen (o : Oracle) :
    exec Gen.InstLoop.iterBody o .run none [] =
      (if o.acqOk then
        if o.waitOk then
          if o.fire then ([.acq, .tokOk, .reqAdd, .shoot, .respAdd, .rel], .retNil)
          else ([.acq, .tokOk, .discard, .rel], .retNil)
        else ([.acq, .tokEnd, .rel], .retNil)
      else ([.empty], .retErr)) ∧
    exec (onNilItem Gen.InstLoop.iterBody) o .run none [] = exec Gen.InstLoop.iterBody o .run none [] := by
  obtain ⟨a, w, f⟩ := o
  cases a <;> cases w <;> cases f <;> decide

/-- a token stays where it is while instance `i` acquires -/
theorem acq_left {c : Cfg} {s s' : St} {i : Nat} (h : step c s (.acq i) = some s') : s'.left c i = s.left c i := by
  have hk := (Pandora.Proofs.C03Leaf.step_tokens h).2.2.2.2 (by intro j hj; cases hj) (by intro j hj; cases hj)
  simp [St.left, hk.1, hk.2]

/-- **the regenerated iteration from any reachable state** -/
theorem iteration_from_any_state (c : Cfg) (pre : List Ev) (s : St) (hrun : run c (init c) pre = some s) (i : Nat)
    (hpc : s.pcs[i]? = some .acquire) (o : Oracle)
    (hacq : o.acqOk = decide (s.ammoLeft ≠ some 0)) (hwait : o.waitOk = decide (0 < s.left c i))
    (hfire : o.fire = false → c.discardOn = true) :
    ∃ evs s', (exec Gen.InstLoop.iterBody o .run none []).1.mapM (toEvAt i s.acquired) = some evs ∧
      run c s evs = some s' ∧
      s'.pcs[i]? = some (if o.acqOk then .check else .done) ∧
      (exec Gen.InstLoop.iterBody o .run none []).2 = (if o.acqOk then .retNil else .retErr) ∧
      (o.acqOk = true → evs.getLast? = some (.rel i s.acquired)) := by
  have hI := reach_invI hrun
  rw [(exec_gen o).1]
  obtain ⟨a, w, f⟩ := o
  simp only at hacq hwait hfire
  cases a
  · -- out of ammo
    have ha : s.ammoLeft = some 0 := by
      by_contra hne
      simp [hne] at hacq
    obtain ⟨s1, h1, p1⟩ := prog_empty (c := c) hpc ha
    exact ⟨[.empty i], s1, rfl, by simp [run, h1], by simpa using p1, rfl, by intro h; cases h⟩
  · have ha : s.ammoLeft ≠ some 0 := by
      intro he
      simp [he] at hacq
    obtain ⟨s1, h1, p1, c1⟩ := prog_acq hI hpc ha
    have hl1 := acq_left h1
    cases w
    · -- the schedule is finished: the item goes back unfired
      have hl : s1.left c i = 0 := by
        rw [hl1]
        have : ¬ 0 < s.left c i := by intro hp; simp [hp] at hwait
        omega
      obtain ⟨s2, h2, p2, c2⟩ := prog_tokEnd p1 hl c1
      obtain ⟨s3, h3, p3, _⟩ := prog_rel (c := c) p2 c2
      exact ⟨[.acq i, .tokEnd i, .rel i s.acquired], s3, rfl, by simp [run, h1, h2, h3], by simpa using p3, rfl, by intro _; rfl⟩
    · have hl : 0 < s1.left c i := by
        rw [hl1]
        simpa using hwait.symm
      obtain ⟨s2, h2, p2, c2⟩ := prog_tokOk p1 hl c1
      cases f
      · -- discarded
        obtain ⟨s3, h3, p3, c3⟩ := prog_discard p2 (hfire rfl) c2
        obtain ⟨s4, h4, p4, _⟩ := prog_rel (c := c) p3 c3
        exact ⟨[.acq i, .tokOk i, .discard i, .rel i s.acquired], s4, rfl, by simp [run, h1, h2, h3, h4], by simpa using p4, rfl,
          by intro _; rfl⟩
      · -- fired
        obtain ⟨s3, h3, p3, c3⟩ := prog_reqAdd (c := c) p2 c2
        obtain ⟨s4, h4, p4, c4⟩ := prog_shoot (c := c) p3 c3
        obtain ⟨s5, h5, p5, c5⟩ := prog_respAdd (c := c) p4 c4
        obtain ⟨s6, h6, p6, _⟩ := prog_rel (c := c) p5 c5
        exact ⟨[.acq i, .tokOk i, .reqAdd i, .shoot i s.acquired, .respAdd i, .rel i s.acquired], s6, rfl,
          by simp [run, h1, h2, h3, h4, h5, h6], by simpa using p6, rfl, by intro _; rfl⟩

end Pandora.Proofs.C03Iter
