/-
C08 (round 3): the transition system with I/O faults (`Model.C08Fault.FSys`) — what survives a fault at any point.
Core Lean only.
-/
import Pandora.Proofs.C08Conc
import Pandora.Model.C08Fault

namespace Pandora.Proofs.C08
open Pandora.Model.C08

/-- the deferred cleanup of every kind closes the sink on every path -/
theorem finishOf_closes (k : Kind) (r : RunRes) (cl : CloseOut) : (finishOf k r cl).closesSink = true := by
  unfold finishOf finishHttp finishPlain
  cases k <;> cases cl <;> simp [Kind.isHttp]

/-- Close is called exactly when there is one -/
theorem finishOf_calls (k : Kind) (r : RunRes) (cl : CloseOut) : (finishOf k r cl).callsClose = decide (cl ≠ .absent) := by
  unfold finishOf finishHttp finishPlain
  cases k <;> cases cl <;> simp [Kind.isHttp]

/-- what `Run` hands to its caller is the loop's own result unless Close failed (http family) -/
theorem finalClass_keep (k : Kind) (r : RunRes) (cl : CloseOut) (h : cl ≠ .fails ∨ k.isHttp = false) :
    finalClass k r cl = if r = .errOther then none else some r := by
  unfold finalClass finishOf finishHttp finishPlain
  cases k <;> cases cl <;> simp_all [Kind.isHttp]

/-- … and a Close that fails is always reported by the http family, whatever the loop's result -/
theorem finalClass_fails (k : Kind) (r : RunRes) (h : k.isHttp = true) : finalClass k r .fails = none := by
  unfold finalClass finishOf finishHttp
  simp only [h, if_true]
  by_cases hr : r = .nil <;> simp [hr]

/-- after a fault: the loop has ended with an error, the sink is closed, nothing is on offer; what was sent is
still a prefix of the cyclic file within the bounds -/
structure FaultInv (inp : Input) (n cap : Nat) (s : Sys) : Prop where
  seq : s.acquired ++ s.buf = cycl n s.sent
  below : Below inp.b n s.sent
  bufcap : s.buf.length ≤ cap
  res : s.result = some .errOther
  closed : s.closed = true
  noOffer : s.offering = none
  ended : s.ended ≠ [] → s.closed = true ∧ s.buf = []

def FInv (inp : Input) (n cap : Nat) (f : FSys) : Prop :=
  if f.faulted then FaultInv inp n cap f.s else SysInv inp n cap f.s

theorem fInv_init (inp : Input) (n cap : Nat) (hn : 0 < n) : FInv inp n cap (FSys.init inp n) := by
  simp only [FInv, FSys.init]
  exact sysInv_init inp n cap hn

/-- transitions of the underlying system from a faulted state: only consumers and the context move -/
theorem faultInv_next (inp : Input) (n cap cons : Nat) (s s' : Sys) (l : Label)
    (hi : FaultInv inp n cap s) (h : s.next inp n cap cons l = some s') : FaultInv inp n cap s' := by
  have hres := hi.res
  have hoff := hi.noOffer
  cases l with
  | prod => simp [Sys.next, hres] at h
  | push => simp [Sys.next, hoff] at h
  | hand c => simp [Sys.next, hoff] at h
  | done => simp [Sys.next, hres] at h
  | recv c =>
    simp only [Sys.next] at h
    split at h
    · rename_i i rest hb
      split at h
      · cases h
        have hsent : (Sys.sent { s with buf := rest, log := s.log ++ [(c, i)] }) = s.sent := by
          simp [Sys.sent, hb]; omega
        refine ⟨?_, ?_, ?_, hi.res, hi.closed, hi.noOffer, ?_⟩
        · rw [hsent, ← hi.seq]; simp [Sys.acquired, hb]
        · rw [hsent]; exact hi.below
        · have := hi.bufcap; simp [hb] at this; simp; omega
        · intro he
          have := (hi.ended he).2
          simp [hb] at this
      · cases h
    · cases h
  | eoa c =>
    simp only [Sys.next] at h
    split at h
    · rename_i hc
      cases h
      exact ⟨hi.seq, hi.below, hi.bufcap, hi.res, hi.closed, hi.noOffer, fun _ => ⟨hc.1, hc.2.1⟩⟩
    · cases h
  | cancel =>
    simp only [Sys.next] at h
    cases h
    exact ⟨hi.seq, hi.below, hi.bufcap, hi.res, hi.closed, hi.noOffer, hi.ended⟩

theorem fInv_next (inp : Input) (n cap cons : Nat) (hn : 0 < n) (f f' : FSys) (l : FLabel)
    (hi : FInv inp n cap f) (h : f.next inp n cap cons l = some f') : FInv inp n cap f' := by
  cases l with
  | sys l =>
    simp only [FSys.next, Option.map_eq_some_iff] at h
    obtain ⟨s', hs', rfl⟩ := h
    unfold FInv at hi ⊢
    by_cases hf : f.faulted = true
    · simp only [hf, if_true] at hi ⊢
      exact faultInv_next inp n cap cons f.s s' l hi hs'
    · simp only [hf] at hi ⊢
      exact sysInv_next inp n cap cons hn f.s s' l hi hs'
  | ioerr =>
    simp only [FSys.next] at h
    split at h
    · rename_i hc
      cases h
      unfold FInv at hi ⊢
      by_cases hf : f.faulted = true
      · -- a faulted system has returned: the label is not enabled
        simp only [hf, if_true] at hi
        have := hi.res
        simp [this] at hc
      · simp only [hf] at hi
        simp only [if_true]
        have hres : f.s.result = none := by simpa using hc.1
        obtain ⟨hcl, _, _⟩ := hi.running hres
        refine ⟨hi.seq, hi.below, hi.bufcap, rfl, finishOf_closes _ _ _, by simpa using hc.2.1, ?_⟩
        intro he
        have := hi.ended he
        simp [hcl] at this
    · cases h

theorem frun_append (inp : Input) (n cap cons : Nat) (f : FSys) (a b : List FLabel) :
    f.run inp n cap cons (a ++ b) = (f.run inp n cap cons a).run inp n cap cons b := by
  simp [FSys.run, List.foldl_append]

theorem fInv_run (inp : Input) (n cap cons : Nat) (hn : 0 < n) (ls : List FLabel) (f : FSys)
    (hi : FInv inp n cap f) : FInv inp n cap (f.run inp n cap cons ls) := by
  induction ls generalizing f with
  | nil => exact hi
  | cons l ls ih =>
    simp only [FSys.run, List.foldl_cons]
    cases hs : f.next inp n cap cons l with
    | none => simpa [FSys.run] using ih f hi
    | some f' => simpa [FSys.run] using ih f' (fInv_next inp n cap cons hn f f' l hi hs)

theorem fInv_reach (inp : Input) (n cons : Nat) (hn : 0 < n) (ls : List FLabel) :
    FInv inp n inp.kind.chanCap (freach inp n cons ls) :=
  fInv_run inp n _ cons hn ls _ (fInv_init inp n _ hn)

/-- a schedule without fault labels is a schedule of the fault-free system -/
theorem frun_sys (inp : Input) (n cap cons : Nat) (ls : List Label) (f : FSys) :
    f.run inp n cap cons (ls.map FLabel.sys) = { f with s := f.s.run inp n cap cons ls } := by
  induction ls generalizing f with
  | nil => rfl
  | cons l ls ih =>
    simp only [List.map_cons, FSys.run, List.foldl_cons, Sys.run]
    cases hs : f.s.next inp n cap cons l with
    | none =>
      have : f.next inp n cap cons (.sys l) = none := by simp [FSys.next, hs]
      simp only [this, Option.getD_none]
      simpa [FSys.run, Sys.run] using ih f
    | some s' =>
      have : f.next inp n cap cons (.sys l) = some { f with s := s' } := by simp [FSys.next, hs]
      simp only [this, Option.getD_some]
      simpa [FSys.run, Sys.run] using ih { f with s := s' }

/-- the `faulted` flag tells exactly whether the loop ended with an I/O error -/
theorem faulted_iff (inp : Input) (n cons : Nat) (hn : 0 < n) (ls : List FLabel) :
    (freach inp n cons ls).faulted = true ↔ (freach inp n cons ls).s.result = some .errOther := by
  have hi := fInv_reach inp n cons hn ls
  unfold FInv at hi
  constructor
  · intro hf
    simp only [hf, if_true] at hi
    exact hi.res
  · intro hr
    by_cases hf : (freach inp n cons ls).faulted = true
    · exact hf
    · simp only [hf] at hi
      obtain ⟨_, _, h3⟩ := hi.returned _ hr
      rcases h3 with ⟨h3, _⟩ | ⟨_, h3 | h3⟩
      · cases h3
      · cases h3
      · unfold doneResOf at h3; split at h3 <;> cases h3

end Pandora.Proofs.C08
