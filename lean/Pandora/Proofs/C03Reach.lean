/-
C03 — the invariants hold in every state reached by ANY accepted trace from the initial state, plus the small
counting lemmas the property theorems use.
-/
import Pandora.Proofs.C03
import Pandora.Proofs.C03Items

namespace Pandora.Proofs.C03
open Pandora.Model.C03

theorem reach_invA {c : Cfg} {evs : List Ev} {s : St} (h : run c (init c) evs = some s) : InvA c s :=
  run_inv (P := InvA c) (fun _ _ _ hp hs => step_invA hp hs) evs _ _ (init_invA c) h

theorem reach_invS {c : Cfg} (hc : c.perInstance = false) {evs : List Ev} {s : St}
    (h : run c (init c) evs = some s) : InvS c s :=
  run_inv (P := InvS c) (fun _ _ _ hp hs => step_invS hc hp hs) evs _ _ (init_invS c) h

theorem reach_invP {c : Cfg} (hc : c.perInstance = true) {evs : List Ev} {s : St}
    (h : run c (init c) evs = some s) : InvP c s :=
  run_inv (P := InvP c) (fun _ _ _ hp hs => step_invP hc hp hs) evs _ _ (init_invP c) h

theorem reach_invI {c : Cfg} {evs : List Ev} {s : St} (h : run c (init c) evs = some s) : InvI c s :=
  run_inv (P := InvI c) (fun _ _ _ hp hs => step_invI hp hs) evs _ _ (init_invI c) h

/-- at the end every STARTED instance is `done` -/
theorem started_done {c : Cfg} {s : St} (hA : InvA c s) (ht : s.terminal = true) (i : Nat) (hi : i < s.started) :
    s.pcs[i]? = some Pc.done := by
  have hlt : i < s.pcs.length := by have := hA.len; have := hA.startedLe; omega
  unfold St.terminal at ht
  rw [List.all_eq_true] at ht
  rw [List.getElem?_eq_getElem hlt]
  have := ht s.pcs[i] (List.getElem_mem hlt)
  simp at this
  rcases this with h | h
  · rw [h]
  · exact absurd (by rw [List.getElem?_eq_getElem hlt, h]) (hA.idleLo i hi)

/-- run splits at any point of the trace -/
theorem run_append {c : Cfg} : ∀ (pre post : List Ev) (s : St),
    run c s (pre ++ post) = (run c s pre).bind (fun s1 => run c s1 post)
  | [], _, _ => rfl
  | e :: pre, post, s => by
    simp only [List.cons_append, run]
    cases step c s e with
    | none => rfl
    | some s1 => exact run_append pre post s1

theorem count_true_le_beyond : ∀ (l : List Bool) (n : Nat), (∀ i : Nat, n ≤ i → l[i]? ≠ some true) →
    l.count true ≤ n
  | [], _, _ => by simp
  | a :: l, 0, h => by
    have ha : a = false := by
      cases a with
      | false => rfl
      | true => exact absurd rfl (h 0 (Nat.le_refl 0))
    have := count_true_le_beyond l 0 (fun i _ => by simpa using h (i + 1) (Nat.zero_le _))
    subst ha
    simp at this ⊢
    exact this
  | a :: l, n + 1, h => by
    have := count_true_le_beyond l n (fun i hi => by simpa using h (i + 1) (by omega))
    cases a <;> simp <;> omega

theorem count_true_lt_beyond : ∀ (l : List Bool) (n j : Nat), j < n → l[j]? = some false →
    (∀ i : Nat, n ≤ i → l[i]? ≠ some true) → l.count true + 1 ≤ n
  | [], _, _, _, h, _ => by simp at h
  | _ :: _, 0, _, hj, _, _ => by omega
  | a :: l, n + 1, 0, _, h, hb => by
    have ha : a = false := by simpa using h
    subst ha
    have := count_true_le_beyond l n (fun i hi => by simpa using hb (i + 1) (by omega))
    simp; omega
  | a :: l, n + 1, j + 1, hj, h, hb => by
    have := count_true_lt_beyond l n j (by omega) (by simpa using h)
      (fun i hi => by simpa using hb (i + 1) (by omega))
    cases a <;> simp <;> omega

end Pandora.Proofs.C03
