/-
C17 — placeholders: the scanner on `${type:name}`, resolution, and the cast by target kind.
-/
import Pandora.Proofs.C17
import Pandora.Proofs.C17Repl
import Pandora.Spec.C17

namespace Pandora.Proofs.C17
open Pandora.Model.C17 Pandora.Spec.C17

/-- a variable name / `file#key` argument the scanner passes through unchanged: non-empty, no braces, no white space -/
def PlainName (n : Str) : Prop := n ≠ [] ∧ ∀ c ∈ n, c ≠ '{' ∧ c ≠ '}' ∧ isSpaceC c = false

/-- a tag type: like a name, and without a colon -/
def PlainType (t : Str) : Prop := PlainName t ∧ ∀ c ∈ t, c ≠ ':'

theorem scan_body (xs : Str) : ∀ (body lit : Str) (acc : List Seg) (rest : Str),
    (∀ c ∈ xs, c ≠ '{' ∧ c ≠ '}') →
    scanLoop (xs ++ '}' :: rest) lit (some body) acc =
      match splitBody (xs.reverse ++ body).reverse with
      | some (ty, name) => scanLoop rest [] none (acc ++ [Seg.tag ("${".toList ++ (xs.reverse ++ body).reverse ++ ['}']) ty name])
      | none => none := by
  induction xs with
  | nil =>
    intro body lit acc rest _
    simp [scanLoop]
    rfl
  | cons c cs ih =>
    intro body lit acc rest h
    have hc := h c (by simp)
    have hcs : ∀ c ∈ cs, c ≠ '{' ∧ c ≠ '}' := fun c hm => h c (by simp [hm])
    have h1 : (c == '}') = false := by simp [hc.2]
    have h2 : (c == '{') = false := by simp [hc.1]
    simp only [List.cons_append, scanLoop, h1, h2, Bool.false_eq_true, if_false]
    rw [ih (c :: body) lit acc rest hcs]
    simp

theorem trimLeft_eq_self : ∀ (s : Str), (∀ c ∈ s, isSpaceC c = false) → trimLeft s = s
  | [], _ => rfl
  | c :: cs, h => by
    have := h c (by simp)
    simp [trimLeft, List.dropWhile, this]

theorem trim_eq_self (s : Str) (h : ∀ c ∈ s, isSpaceC c = false) : trim s = s := by
  unfold trim
  rw [trimLeft_eq_self s h, trimLeft_eq_self s.reverse (by intro c hc; exact h c (List.mem_reverse.mp hc))]
  simp

theorem cutColon_type (ty : Str) (h : ∀ c ∈ ty, c ≠ ':') : ∀ (name acc : Str),
    cutColon (ty ++ ':' :: name) acc = some (acc.reverse ++ ty, name) := by
  induction ty with
  | nil => intro name acc; simp [cutColon]
  | cons c cs ih =>
    intro name acc
    have hc : (c == ':') = false := by simp [h c (by simp)]
    simp only [List.cons_append, cutColon, hc, Bool.false_eq_true, if_false]
    rw [ih (fun c hm => h c (by simp [hm]))]
    simp

theorem splitBody_tag (ty name : Str) (ht : PlainType ty) (hn : PlainName name) :
    splitBody (ty ++ ':' :: name) = some (ty, name) := by
  unfold splitBody
  rw [cutColon_type ty ht.2 name []]
  have h1 : ty.isEmpty = false := by
    cases ty with
    | nil => exact absurd rfl ht.1.1
    | cons => rfl
  have h2 : name.isEmpty = false := by
    cases name with
    | nil => exact absurd rfl hn.1
    | cons => rfl
  simp [h1, h2, trim_eq_self ty (fun c hc => (ht.1.2 c hc).2.2), trim_eq_self name (fun c hc => (hn.2 c hc).2.2)]

/-- the text of a placeholder -/
def placeholder (ty name : Str) : Str := '$' :: '{' :: (ty ++ ':' :: name ++ ['}'])

theorem scan_placeholder (ty name : Str) (ht : PlainType ty) (hn : PlainName name) :
    scan (placeholder ty name) = some [Seg.tag (placeholder ty name) ty name] := by
  have hb : ∀ c ∈ ty ++ ':' :: name, c ≠ '{' ∧ c ≠ '}' := by
    intro c hc
    rcases List.mem_append.mp hc with h | h
    · exact ⟨(ht.1.2 c h).1, (ht.1.2 c h).2.1⟩
    · rcases List.mem_cons.mp h with h | h
      · subst h; decide
      · exact ⟨(hn.2 c h).1, (hn.2 c h).2.1⟩
  unfold scan placeholder
  rw [scanLoop]
  have := scan_body (ty ++ ':' :: name) [] [] ([] ++ (if ([] : Str).isEmpty then [] else [Seg.lit ([] : Str).reverse])) [] hb
  simp only [List.append_assoc, List.cons_append] at this ⊢
  rw [this]
  simp [splitBody_tag ty name ht hn, scanLoop]

theorem resolve_placeholder (env : Env) (ty name : Str) (ht : PlainType ty) (hn : PlainName name) :
    resolve env (placeholder ty name) =
      match resolveTag env (placeholder ty name) ty name with
      | none => .failed
      | some t => .text t true := by
  unfold resolve
  rw [scan_placeholder ty name ht hn]
  simp only [hasTag, renderSeq, loneTag, List.filter]
  cases resolveTag env (placeholder ty name) ty name with
  | none => simp
  | some v =>
    have : replaceAll (placeholder ty name) (placeholder ty name) v = v :=
      replaceAll_self _ _ (by simp [placeholder])
    simp [this]

theorem plainType_env : PlainType "env".toList := by
  refine ⟨⟨by decide, ?_⟩, ?_⟩ <;> decide

theorem plainType_property : PlainType "property".toList := by
  refine ⟨⟨by decide, ?_⟩, ?_⟩ <;> decide

theorem resolveTag_env (env : Env) (text name : Str) : resolveTag env text "env".toList name = lookupEnv env name := by
  simp (config := {decide := true}) [resolveTag]

theorem resolveTag_property (env : Env) (text name : Str) : resolveTag env text "property".toList name = lookupProp env name := by
  simp (config := {decide := true}) [resolveTag]

theorem decodeScalar_lone (cast : Kind → Str → Option Val) (fl : Flags) (hfl : fl.resolveFirst = true) (env : Env)
    (k : Kind) (d : DVal) (s t : Str) (hres : resolve env s = .text t true) :
    decodeScalarWith cast fl env k d (.str s) =
      match cast k t with
      | some (.str u) =>
        if k == .dur then
          match parseDuration u with
          | some ns => { val := .int ns }
          | none => R.fail d .parse
        else decodeKind k d (.str u)
      | some w => decodeKind k d w
      | none =>
        if k == .dur then
          match parseDuration t with
          | some ns => { val := .int ns }
          | none => R.fail d .parse
        else decodeKind k d (.str t) := by
  simp only [decodeScalarWith, hfl, hres, Bool.not_true, Bool.false_and, Bool.false_eq_true, if_false, if_true]
  cases hc : cast k t with
  | none => simp; rfl
  | some w => cases w <;> simp <;> rfl

/-- what the cast stores in a float32 is within its range -/
theorem castFloat_fits (bits : Nat) (d g : Dec) (h : castFloat bits d = some g) :
    (bits != 32 || g.absLeNat maxFloat32) = true := by
  unfold castFloat at h
  by_cases h1 : d.absLtNat (floatLimit bits) = true
  · simp only [h1, Bool.not_true, Bool.false_eq_true, if_false] at h
    by_cases hb : bits = 32
    · subst hb
      by_cases h2 : d.absLeNat maxFloat32 = true
      · simp [h2] at h; subst h; simp [h2]
      · simp [h2] at h; subst h; simp [Dec.absLeNat]
    · simp [hb]
  · simp [h1] at h

theorem cast_agrees (env : Env) (k : Kind) (d : DVal) (s raw : Str) (hres : resolve env s = .text raw true) :
    (∀ w, castExpect k raw = some w → decodeScalarWith castTo repoFlags env k d (.str s) = { val := w }) ∧
    (castExpect k raw = none →
      (decodeScalarWith castTo repoFlags env k d (.str s)).errs ≠ [] ∧ (decodeScalarWith castTo repoFlags env k d (.str s)).val = d) := by
  rw [decodeScalar_lone castTo repoFlags rfl env k d s raw hres]
  cases k with
  | bool =>
    simp only [castTo, castExpect]
    cases parseBoolLit raw with
    | none => simp [decodeKind, R.fail]
    | some b => simp [decodeKind]
  | str => simp [castTo, castExpect, decodeKind]
  | int bits =>
    simp only [castTo, castExpect]
    cases parseIntLit raw with
    | none => simp [decodeKind, R.fail]
    | some i =>
      by_cases hf : intFits bits i = true <;> simp [hf, decodeKind, R.fail]
  | uint bits =>
    simp only [castTo, castExpect]
    cases parseUintLit raw with
    | none => simp [decodeKind, R.fail]
    | some n =>
      by_cases hf : uintFits bits n = true
      · have : ¬ ((n : Int) < 0) := by omega
        simp [hf, decodeKind, this]
      · simp [hf, decodeKind, R.fail]
  | float bits =>
    simp only [castTo, castExpect]
    cases parseDecLit raw with
    | none => simp [decodeKind, R.fail]
    | some f =>
      cases hc : castFloat bits f with
      | none => simp [hc, decodeKind, R.fail]
      | some g =>
        have := castFloat_fits bits f g hc
        simp [hc, decodeKind, this]
  | dur =>
    simp only [castTo, castExpect]
    cases parseIntLit raw with
    | none =>
      cases parseDuration raw with
      | none => simp [R.fail]
      | some ns => simp
    | some i =>
      by_cases hf : intFits 64 i = true
      · simp [hf, decodeKind]
      · cases parseDuration raw with
        | none => simp [hf, R.fail]
        | some ns => simp [hf]

/-! ## a resolver error -/

theorem resolve_placeholder_failed (env : Env) (ty name : Str) (ht : PlainType ty) (hn : PlainName name)
    (h : resolveTag env (placeholder ty name) ty name = none) : resolve env (placeholder ty name) = .failed := by
  rw [resolve_placeholder env ty name ht hn, h]

theorem decodeScalar_failed (cast : Kind → Str → Option Val) (fl : Flags) (env : Env) (k : Kind) (d : DVal) (s : Str)
    (hfl : fl.resolveFirst = true ∨ k ≠ .dur) (h : resolve env s = .failed) :
    decodeScalarWith cast fl env k d (.str s) = R.fail d .resolve := by
  have hcond : (!fl.resolveFirst && k == .dur) = false := by
    rcases hfl with h | h
    · simp [h]
    · have : (k == Kind.dur) = false := by simp [h]
      simp [this]
  simp only [decodeScalarWith, hcond, h, Bool.false_eq_true, if_false]

theorem injectOther_failed (env : Env) (s : Str) (h : resolve env s = .failed) : injectOther env s = .error .resolve := by
  simp [injectOther, h]

/-! ## the kind switch -/

/-- the inputs mapstructure's kind switch converts (WeaklyTypedInput = false) -/
def accepts : Kind → Val → Bool
  | .bool, .bool _ => true
  | .str, .str _ => true
  | .int _, .int _ => true
  | .int _, .float _ => true
  | .dur, .int _ => true
  | .dur, .float _ => true
  | .uint _, .int i => decide (0 ≤ i)
  | .uint _, .float d => !(d.neg && !d.isZero)
  | .float _, .int _ => true
  | .float _, .float _ => true
  | _, _ => false

theorem decodeKind_rejects (k : Kind) (d : DVal) (v : Val) (h : accepts k v = false) : decodeKind k d v = R.fail d .type := by
  cases k <;> cases v <;> simp_all [accepts, decodeKind]

theorem decodeScalar_nonstring (cast : Kind → Str → Option Val) (fl : Flags) (env : Env) (k : Kind) (d : DVal) (v : Val)
    (hs : ∀ s, v ≠ .str s) :
    decodeScalarWith cast fl env k d v =
      if fl.wholeNumbers && intKind k && fractional v then R.fail d .type
      else if fl.numberRange && !fitsKind k v then R.fail d .type else decodeKind k d v := by
  cases v <;> simp_all [decodeScalarWith]

theorem decodeScalar_plain (cast : Kind → Str → Option Val) (fl : Flags) (env : Env) (k : Kind) (d : DVal) (s : Str)
    (hk : k ≠ .dur) (h : resolve env s = .plain) : decodeScalarWith cast fl env k d (.str s) = decodeKind k d (.str s) := by
  have : (k == Kind.dur) = false := by simp [hk]
  simp [decodeScalarWith, this, h]

/-! ## truncation of a decimal -/

theorem Dec.trunc_eq (x : Dec) :
    x.trunc = if x.neg then - ((x.mant / 10 ^ x.exp : Nat) : Int) else ((x.mant / 10 ^ x.exp : Nat) : Int) := rfl

theorem Dec.trunc_nonneg_of_not_neg (x : Dec) (h : ¬ (x.neg = true ∧ x.isZero = false)) : 0 ≤ x.trunc := by
  rw [Dec.trunc_eq]
  by_cases hn : x.neg = true
  · have hz : x.isZero = true := by
      cases hz : x.isZero with
      | true => rfl
      | false => exact absurd ⟨hn, hz⟩ h
    have hm : x.mant = 0 := by simpa [Dec.isZero] using hz
    rw [if_pos hn, hm]
    simp
  · rw [if_neg hn]
    exact Int.natCast_nonneg _

theorem Dec.trunc_nonneg_not_neg (x : Dec) (hw : x.isWhole = true) (h0 : 0 ≤ x.trunc) : (x.neg && !x.isZero) = false := by
  by_cases hn : x.neg = true
  · have hq : x.mant / 10 ^ x.exp = 0 := by
      rw [Dec.trunc_eq, if_pos hn] at h0
      have := Int.natCast_nonneg (x.mant / 10 ^ x.exp)
      omega
    have hm : x.mant % 10 ^ x.exp = 0 := by simpa [Dec.isWhole] using hw
    have : x.mant = 0 := by
      have := Nat.div_add_mod x.mant (10 ^ x.exp)
      rw [hq, hm] at this
      simpa using this.symm
    simp [Dec.isZero, this]
  · simp [hn]

end Pandora.Proofs.C17
