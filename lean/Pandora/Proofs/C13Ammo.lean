/-
C13 — lemmas about the ammo framing models (bounds-check reasoning for every slice / index / make).
-/
import Pandora.Model.C13Ammo
import Pandora.Proofs.C13Base

namespace Pandora.Proofs.C13
open Pandora.Model.C13

/-- an `End` that is a plain return of the decoder: data exhausted or an error value -/
def End.clean : End → Prop
  | .ok => True
  | .err _ => True
  | _ => False

def End.isErr : End → Prop
  | .err _ => True
  | _ => False

/-! ### `util.DecodeHeader`: `h[0]`, `h[len(h)-1]`, `h[1:len(h)-1]` are guarded by `len(h) < 3` -/

theorem decodeHeader_returns (h : Bytes) : (decodeHeader h).returns = true := by
  unfold decodeHeader
  by_cases hl : h.length < 3
  · simp [hl, Res.returns, Res.isPanic, Res.isFatal]
  · simp only [hl, if_false]
    have h3 : 3 ≤ h.length := by omega
    obtain ⟨a, ha⟩ := indexC_ok h 0 (by omega) (by omega)
    obtain ⟨b, hb⟩ := indexC_ok h ((h.length : Int) - 1) (by omega) (by omega)
    obtain ⟨inner, hi⟩ := sliceC_returns h 1 ((h.length : Int) - 1) (by omega)
    rw [ha]; simp only
    split
    · simp [Res.returns, Res.isPanic, Res.isFatal]
    · rw [hb]; simp only
      split
      · simp [Res.returns, Res.isPanic, Res.isFatal]
      · rw [hi]; simp only
        split
        · simp [Res.returns, Res.isPanic, Res.isFatal]
        · split <;> simp [Res.returns, Res.isPanic, Res.isFatal]

theorem returns_cases {α} {r : Res α} (h : r.returns = true) : (∃ a, r = .ok a) ∨ (∃ c, r = .err c) := by
  cases r with
  | ok a => exact .inl ⟨a, rfl⟩
  | err c => exact .inr ⟨c, rfl⟩
  | panic w => simp [Res.returns, Res.isPanic] at h
  | fatal w => simp [Res.returns, Res.isPanic, Res.isFatal] at h

theorem headerClass_clean (h : Bytes) : End.clean (headerClass (decodeHeader h)) := by
  rcases returns_cases (decodeHeader_returns h) with ⟨a, ha⟩ | ⟨c, hc⟩
  · rw [ha]; simp [headerClass, endOfRes, End.clean]
  · rw [hc]; simp [headerClass, End.clean]

/-! ### `uripost.DecodeURI`: `parts[0]`, `parts[1]` are guarded by `len(parts) < 2` -/

theorem decodeURI_returns (data : Bytes) : (decodeURI data).returns = true := by
  unfold decodeURI
  simp only
  by_cases hl : (split data 32).length < 2
  · simp [hl, Res.returns, Res.isPanic, Res.isFatal]
  · simp only [hl, if_false]
    obtain ⟨a, ha⟩ := indexC_ok (split data 32) 0 (by omega) (by omega)
    obtain ⟨b, hb⟩ := indexC_ok (split data 32) 1 (by omega) (by omega)
    rw [ha]; simp only
    split
    · simp [Res.returns, Res.isPanic, Res.isFatal]
    · rw [hb]; simp [Res.returns, Res.isPanic, Res.isFatal]

theorem decodeRawHeader_returns (data : Bytes) : (decodeRawHeader data).returns = true := by
  unfold decodeRawHeader
  simp only
  split <;> simp [Res.returns, Res.isPanic, Res.isFatal]

/-! ### reading the announced number of bytes -/

/-- the repaired reader never allocates from the announced size: error or exactly `size` bytes -/
theorem readBody_fixed (size : Int) (rest : Bytes) :
    (size < 0 ∧ readBody true size rest = .err "size") ∨
    (0 ≤ size ∧ size > rest.length ∧ readBody true size rest = .err "trunc") ∨
    (0 ≤ size ∧ size ≤ rest.length ∧ readBody true size rest = .ok (rest.take size.toNat, rest.drop size.toNat)) := by
  unfold readBody
  by_cases h1 : size < 0
  · left; simp [h1]
  · by_cases h2 : size > rest.length
    · right; left; simp [h1, h2]; omega
    · right; right; simp [h1, h2]; omega

theorem readBody_fixed_returns (size : Int) (rest : Bytes) : (readBody true size rest).returns = true := by
  rcases readBody_fixed size rest with ⟨_, h⟩ | ⟨_, _, h⟩ | ⟨_, _, h⟩ <;> rw [h] <;>
    simp [Res.returns, Res.isPanic, Res.isFatal]

/-- whatever the reader delivers is a prefix of the remaining file, and the rest is what follows it -/
theorem readBody_ok_split {fixed : Bool} {size : Int} {rest body rest' : Bytes}
    (h : readBody fixed size rest = .ok (body, rest')) :
    rest = body ++ rest' ∧ 0 ≤ size ∧ size ≤ rest.length ∧ body = rest.take size.toNat ∧ rest' = rest.drop size.toNat := by
  unfold readBody at h
  cases fixed with
  | true =>
    simp only [if_true] at h
    split at h
    · simp at h
    · split at h
      · simp at h
      · simp at h
        obtain ⟨rfl, rfl⟩ := h
        refine ⟨by simp, by omega, by omega, rfl, rfl⟩
  | false =>
    simp only [Bool.false_eq_true, if_false] at h
    cases hm : makeC size with
    | ok u =>
      simp only [hm] at h
      have hnn : 0 ≤ size := by
        unfold makeC at hm
        by_cases h0 : size < 0
        · simp [h0] at hm
        · omega
      split at h
      · simp at h
      · simp at h
        obtain ⟨rfl, rfl⟩ := h
        refine ⟨by simp, hnn, by omega, rfl, rfl⟩
    | err c => simp [hm] at h
    | panic w => simp [hm] at h
    | fatal w => simp [hm] at h

/-- more data after the file does not change what a successful read delivers -/
theorem readBody_append {fixed : Bool} {size : Int} {rest body rest' : Bytes}
    (h : readBody fixed size rest = .ok (body, rest')) (t : Bytes) :
    readBody fixed size (rest ++ t) = .ok (body, rest' ++ t) := by
  obtain ⟨_, h0, h1, hb, hr⟩ := readBody_ok_split h
  have hn : size.toNat ≤ rest.length := by omega
  have e1 : (rest ++ t).take size.toNat = rest.take size.toNat := List.take_append_of_le_length hn
  have e2 : (rest ++ t).drop size.toNat = rest.drop size.toNat ++ t := List.drop_append_of_le_length hn
  have hlen : ¬ (size > ((rest ++ t).length : Int)) := by simp; omega
  unfold readBody at h ⊢
  cases fixed with
  | true =>
    simp only [if_true] at h ⊢
    have : ¬ size < 0 := by omega
    simp only [this, if_false, hlen]
    rw [e1, e2, hb, hr]
  | false =>
    simp only [Bool.false_eq_true, if_false] at h ⊢
    cases hm : makeC size with
    | ok u =>
      simp only [hm] at h ⊢
      simp only [hlen, if_false]
      rw [e1, e2, hb, hr]
    | err c => simp [hm] at h
    | panic w => simp [hm] at h
    | fatal w => simp [hm] at h

/-! ### steps -/

/-- a step either stops (eof / fail) or consumes at least one byte -/
def Step.decreases (s : Bytes) : Step → Prop
  | .skip rest => rest.length < s.length
  | .entry _ rest => rest.length < s.length
  | _ => True

def Step.clean : Step → Prop
  | .fail e => End.isErr e
  | _ => True

theorem readLine_lt {s line rest : Bytes} (h : readLine s = some (line, rest)) : rest.length < s.length :=
  cut_rest_lt h

theorem readLineU_lt {s line rest : Bytes} (h : readLineU s = some (line, rest)) : rest.length < s.length := by
  unfold readLineU at h
  cases hc : cut s 10 with
  | some p =>
    simp only [hc] at h
    cases h
    exact cut_rest_lt hc
  | none =>
    simp only [hc] at h
    split at h
    · simp at h
    · rename_i hne
      simp at h
      obtain ⟨_, rfl⟩ := h
      cases s with
      | nil => simp at hne
      | cons _ _ => simp

/-- `readLineU` says end of data only on the empty string -/
theorem readLineU_none {s : Bytes} (h : readLineU s = none) : s = [] := by
  unfold readLineU at h
  cases hc : cut s 10 with
  | some p => simp [hc] at h
  | none =>
    simp only [hc] at h
    split at h
    · rename_i he; simpa using he
    · simp at h

/-- on a terminated string the line is a terminated one, and what follows is terminated again -/
theorem readLineU_terminated {s : Bytes} (ht : Terminated s) (hne : s ≠ []) :
    ∃ line rest, readLineU s = some (line, rest) ∧ cut s 10 = some (line, rest) ∧ Terminated rest := by
  obtain ⟨line, rest, hc, hr⟩ := ht.cut hne
  exact ⟨line, rest, by simp [readLineU, hc], hc, hr⟩

theorem uripostStep_decreases (fixed : Bool) (urlOk : Bytes → Bool) (s : Bytes) :
    Step.decreases s (uripostStep fixed urlOk s) := by
  unfold uripostStep
  cases hr : readLineU s with
  | none => simp [Step.decreases]
  | some p =>
    obtain ⟨line, rest⟩ := p
    have hlt := readLineU_lt hr
    simp only
    unfold uripostLine
    simp only
    split
    · exact hlt
    · split
      · split <;> simp [Step.decreases, hlt]
      · split
        · split
          · simp [Step.decreases]
          · split
            · rename_i hb
              have := (readBody_ok_split hb).2.2.2.2
              simp only [Step.decreases]
              rw [this]; simp; omega
            · simp [Step.decreases]
        · simp [Step.decreases]
      · simp [Step.decreases]

theorem rawStep_decreases (fixed : Bool) (s : Bytes) : Step.decreases s (rawStep fixed s) := by
  unfold rawStep
  cases hr : readLineU s with
  | none => simp [Step.decreases]
  | some p =>
    obtain ⟨line, rest⟩ := p
    have hlt := readLineU_lt hr
    simp only
    unfold rawLine
    simp only
    split
    · exact hlt
    · split
      · split
        · exact hlt
        · split
          · rename_i hb
            have := (readBody_ok_split hb).2.2.2.2
            simp only [Step.decreases]
            rw [this]; simp; omega
          · simp [Step.decreases]
      · simp [Step.decreases]

theorem endOfRes_isErr {α} {r : Res α} (hret : r.returns = true) (hnok : ∀ a, r ≠ .ok a) : End.isErr (endOfRes r) := by
  rcases returns_cases hret with ⟨a, ha⟩ | ⟨c, hc⟩
  · exact absurd ha (hnok a)
  · rw [hc]; simp [endOfRes, End.isErr]

theorem headerClass_isErr (h : Bytes) (hnok : ∀ a, decodeHeader h ≠ .ok a) : End.isErr (headerClass (decodeHeader h)) := by
  rcases returns_cases (decodeHeader_returns h) with ⟨a, ha⟩ | ⟨c, hc⟩
  · exact absurd ha (hnok a)
  · rw [hc]; simp [headerClass, End.isErr]

/-- repaired uripost: a failing step fails with an error value (never panic / fatal) -/
theorem uripostStep_clean (urlOk : Bytes → Bool) (s : Bytes) : Step.clean (uripostStep true urlOk s) := by
  unfold uripostStep
  cases hr : readLineU s with
  | none => simp [Step.clean]
  | some p =>
    obtain ⟨line, rest⟩ := p
    simp only
    unfold uripostLine
    simp only
    split
    · simp [Step.clean]
    · rename_i hne
      -- `data[0]` is guarded by `len(data) == 0`
      have hpos : 0 < (trimSpace line).length := by
        cases h : trimSpace line with
        | nil => simp [h] at hne
        | cons _ _ => simp
      obtain ⟨a, ha⟩ := indexC_ok (trimSpace line) 0 (by omega) (by omega)
      split
      · split
        · simp [Step.clean]
        · rename_i r hnok
          simp only [Step.clean]
          exact headerClass_isErr _ (by intro a h; exact hnok a h)
      · split
        · split
          · simp [Step.clean, End.isErr]
          · split
            · simp [Step.clean]
            · rename_i r hnok
              simp only [Step.clean]
              exact endOfRes_isErr (readBody_fixed_returns _ _) (by intro a h; obtain ⟨b, r'⟩ := a; exact hnok b r' h)
        · rename_i r hnok
          simp only [Step.clean]
          exact endOfRes_isErr (decodeURI_returns _) (by intro a h; obtain ⟨n, u, t⟩ := a; exact hnok n u t h)
      · rename_i r h1 h2
        rw [ha] at h1 h2
        exact absurd rfl (h2 a)

theorem rawStep_clean (s : Bytes) : Step.clean (rawStep true s) := by
  unfold rawStep
  cases hr : readLineU s with
  | none => simp [Step.clean]
  | some p =>
    obtain ⟨line, rest⟩ := p
    simp only
    unfold rawLine
    simp only
    split
    · simp [Step.clean]
    · split
      · split
        · simp [Step.clean]
        · split
          · simp [Step.clean]
          · rename_i r hnok
            simp only [Step.clean]
            exact endOfRes_isErr (readBody_fixed_returns _ _) (by intro a h; obtain ⟨b, r'⟩ := a; exact hnok b r' h)
      · rename_i r hnok
        simp only [Step.clean]
        exact endOfRes_isErr (decodeRawHeader_returns _) (by intro a h; obtain ⟨n, t⟩ := a; exact hnok n t h)

/-! ### runs -/

theorem runSteps_end_clean (step : Bytes → Step) (hclean : ∀ s, Step.clean (step s))
    (fuel : Nat) (s : Bytes) (hf : s.length < fuel) (hdec : ∀ s, Step.decreases s (step s)) :
    End.clean (runSteps step fuel s).end_ := by
  induction fuel generalizing s with
  | zero => omega
  | succ f ih =>
    unfold runSteps
    have hc := hclean s
    have hd := hdec s
    cases hs : step s with
    | eof => simp [End.clean]
    | skip rest =>
      rw [hs] at hd; simp only [Step.decreases] at hd
      simp only
      exact ih rest (by omega)
    | entry e rest =>
      rw [hs] at hd; simp only [Step.decreases] at hd
      simp only [Run.cons]
      exact ih rest (by omega)
    | fail e =>
      rw [hs] at hc; simp only [Step.clean] at hc
      simp only
      cases e <;> simp [End.isErr] at hc <;> simp [End.clean]

/-- an `End` reported by a failing step: neither "ran out of fuel" nor "fine" -/
def End.bad (e : End) : Prop := e ≠ .fuel ∧ e ≠ .ok

theorem endOfRes_bad {α} (r : Res α) (h : ∀ a, r ≠ .ok a) : End.bad (endOfRes r) := by
  cases r with
  | ok a => exact absurd rfl (h a)
  | err c => simp [endOfRes, End.bad]
  | panic w => simp [endOfRes, End.bad]
  | fatal w => simp [endOfRes, End.bad]

theorem headerClass_bad {α} (r : Res α) (h : ∀ a, r ≠ .ok a) : End.bad (headerClass r) := by
  cases r with
  | ok a => exact absurd rfl (h a)
  | err c => simp [headerClass, End.bad]
  | panic w => simp [headerClass, endOfRes, End.bad]
  | fatal w => simp [headerClass, endOfRes, End.bad]

theorem uripostStep_fail_bad (fixed : Bool) (urlOk : Bytes → Bool) (s : Bytes) (e : End)
    (h : uripostStep fixed urlOk s = .fail e) : End.bad e := by
  unfold uripostStep at h
  cases hr : readLineU s with
  | none => simp [hr] at h
  | some p =>
    obtain ⟨line, rest⟩ := p
    simp only [hr] at h
    unfold uripostLine at h
    simp only at h
    split at h
    · simp at h
    · split at h
      · split at h
        · simp at h
        · rename_i r hnok
          simp at h; subst h; exact headerClass_bad _ (by intro a ha; exact hnok a ha)
      · split at h
        · split at h
          · simp at h; subst h; simp [End.bad]
          · split at h
            · simp at h
            · rename_i r hnok
              simp at h; subst h
              exact endOfRes_bad _ (by intro a ha; obtain ⟨b, r'⟩ := a; exact hnok b r' ha)
        · rename_i r hnok
          simp at h; subst h
          exact endOfRes_bad _ (by intro a ha; obtain ⟨n, u, t⟩ := a; exact hnok n u t ha)
      · rename_i r h1 h2
        simp at h; subst h
        exact endOfRes_bad _ (by intro a ha; exact h2 a ha)

theorem rawStep_fail_bad (fixed : Bool) (s : Bytes) (e : End)
    (h : rawStep fixed s = .fail e) : End.bad e := by
  unfold rawStep at h
  cases hr : readLineU s with
  | none => simp [hr] at h
  | some p =>
    obtain ⟨line, rest⟩ := p
    simp only [hr] at h
    unfold rawLine at h
    simp only at h
    split at h
    · simp at h
    · split at h
      · split at h
        · simp at h
        · split at h
          · simp at h
          · rename_i r hnok
            simp at h; subst h
            exact endOfRes_bad _ (by intro a ha; obtain ⟨b, r'⟩ := a; exact hnok b r' ha)
      · rename_i r hnok
        simp at h; subst h
        exact endOfRes_bad _ (by intro a ha; obtain ⟨n, t⟩ := a; exact hnok n t ha)

/-- the measure: with more fuel than unread bytes the run never stops for lack of fuel -/
theorem runSteps_no_fuel (step : Bytes → Step) (hdec : ∀ s, Step.decreases s (step s))
    (hnf : ∀ s e, step s = .fail e → End.bad e)
    (fuel : Nat) (s : Bytes) (hf : s.length < fuel) : (runSteps step fuel s).end_ ≠ .fuel := by
  induction fuel generalizing s with
  | zero => omega
  | succ f ih =>
    unfold runSteps
    have hd := hdec s
    cases hs : step s with
    | eof => simp
    | skip rest =>
      rw [hs] at hd; simp only [Step.decreases] at hd
      exact ih rest (by omega)
    | entry e rest =>
      rw [hs] at hd; simp only [Step.decreases] at hd
      simp only [Run.cons]
      exact ih rest (by omega)
    | fail e =>
      simp only
      exact (hnf s e hs).1

/-- fuel independence: once the run ended for a reason other than fuel, more fuel changes nothing -/
theorem runSteps_succ (step : Bytes → Step) (fuel : Nat) (s : Bytes)
    (h : (runSteps step fuel s).end_ ≠ .fuel) : runSteps step (fuel + 1) s = runSteps step fuel s := by
  induction fuel generalizing s with
  | zero => simp [runSteps] at h
  | succ f ih =>
    rw [runSteps]
    conv => rhs; rw [runSteps]
    rw [runSteps] at h
    cases hs : step s with
    | eof => rfl
    | skip rest =>
      simp only [hs] at h ⊢
      exact ih rest h
    | entry e rest =>
      simp only [hs, Run.cons] at h ⊢
      rw [ih rest h]
    | fail e => rfl

theorem runSteps_mono (step : Bytes → Step) (fuel k : Nat) (s : Bytes)
    (h : (runSteps step fuel s).end_ ≠ .fuel) : runSteps step (fuel + k) s = runSteps step fuel s := by
  induction k with
  | zero => rfl
  | succ k ih =>
    have : (runSteps step (fuel + k) s).end_ ≠ .fuel := by rw [ih]; exact h
    rw [← Nat.add_assoc, runSteps_succ step (fuel + k) s this, ih]

/-- a step on `good ++ junk` when the same step on `good` alone was not the end of data -/
def Step.appendOk (junk : Bytes) (a b : Step) : Prop :=
  match a with
  | .skip rest => b = .skip (rest ++ junk)
  | .entry e rest => b = .entry e (rest ++ junk)
  | _ => True

theorem Run.prepend_nil (r : Run) : r.prepend [] = r := by
  cases r; simp [Run.prepend]

theorem Run.cons_prepend (e : Entry) (es : List Entry) (r : Run) : (r.prepend es).cons e = r.prepend (e :: es) := by
  cases r; simp [Run.prepend, Run.cons]

/-- what a step leaves unread satisfies `P` again -/
def Step.keeps (P : Bytes → Prop) : Step → Prop
  | .skip rest => P rest
  | .entry _ rest => P rest
  | _ => True

/-- compositionality of runs: if the run over `good` ends cleanly having consumed everything, then the run over
`good ++ junk` delivers good's entries and continues exactly like the run over `junk`.
`P` is an invariant of the unread part under which a non-final step does not look beyond `good`
(`Terminated` for uripost and raw, whose last line may lack its newline). -/
theorem runSteps_append (step : Bytes → Step) (hdec : ∀ s, Step.decreases s (step s))
    (hnf : ∀ s e, step s = .fail e → End.bad e)
    (P : Bytes → Prop) (hP : ∀ s, P s → Step.keeps P (step s))
    (happ : ∀ good junk, P good → Step.appendOk junk (step good) (step (good ++ junk)))
    (junk : Bytes) (fuel : Nat) (good : Bytes) (hf : good.length < fuel) (hgood : P good)
    (hend : (runSteps step fuel good).end_ = .ok) (hrest : (runSteps step fuel good).rest = []) :
    runSteps step (fuel + junk.length) (good ++ junk) =
      (runSteps step (junk.length + 1) junk).prepend (runSteps step fuel good).entries := by
  have h1 : (runSteps step (junk.length + 1) junk).end_ ≠ .fuel :=
    runSteps_no_fuel step hdec hnf _ junk (by omega)
  generalize hJ : runSteps step (junk.length + 1) junk = J at h1
  induction fuel generalizing good with
  | zero => omega
  | succ f ih =>
    have hd := hdec good
    have ha := happ good junk hgood
    have hk := hP good hgood
    rw [runSteps] at hend hrest ⊢
    cases hs : step good with
    | eof =>
      simp only [hs] at hend hrest
      subst hrest
      simp only [List.nil_append, Run.prepend_nil]
      have := runSteps_mono step (junk.length + 1) f junk (by rw [hJ]; exact h1)
      have e : f + 1 + junk.length = junk.length + 1 + f := by omega
      rw [e, this, hJ]
    | skip rest =>
      rw [hs] at hd ha hk; simp only [Step.decreases] at hd; simp only [Step.appendOk] at ha
      simp only [Step.keeps] at hk
      simp only [hs] at hend hrest ⊢
      have e : f + 1 + junk.length = (f + junk.length) + 1 := by omega
      rw [e, runSteps, ha]
      simp only
      exact ih rest (by omega) hk hend hrest
    | entry en rest =>
      rw [hs] at hd ha hk; simp only [Step.decreases] at hd; simp only [Step.appendOk] at ha
      simp only [Step.keeps] at hk
      simp only [hs, Run.cons] at hend hrest ⊢
      have e : f + 1 + junk.length = (f + junk.length) + 1 := by omega
      rw [e, runSteps, ha]
      simp only
      rw [ih rest (by omega) hk hend hrest, Run.cons_prepend]
    | fail e' =>
      simp only [hs] at hend
      subst hend
      -- the run over `good` ended ok, so no step of it failed
      exact absurd rfl (hnf good .ok hs).2

/-- a run that says "end of data" only on the empty string leaves nothing unread when it ends well -/
theorem runSteps_rest_nil (step : Bytes → Step) (heof : ∀ s, step s = .eof → s = [])
    (hnf : ∀ s e, step s = .fail e → End.bad e) (fuel : Nat) (s : Bytes)
    (hend : (runSteps step fuel s).end_ = .ok) : (runSteps step fuel s).rest = [] := by
  induction fuel generalizing s with
  | zero => simp [runSteps] at hend
  | succ f ih =>
    rw [runSteps] at hend ⊢
    cases hs : step s with
    | eof => simp only; exact heof s hs
    | skip rest => simp only [hs] at hend ⊢; exact ih rest hend
    | entry e rest => simp only [hs, Run.cons] at hend ⊢; exact ih rest hend
    | fail e =>
      simp only [hs] at hend
      subst hend
      exact absurd rfl (hnf s .ok hs).2

/-! ### more bytes after the file: what a non-final step does is unchanged -/

theorem uripostLine_appendOk (fixed : Bool) (urlOk : Bytes → Bool) (line rest junk : Bytes) :
    Step.appendOk junk (uripostLine fixed urlOk line rest) (uripostLine fixed urlOk line (rest ++ junk)) := by
  unfold uripostLine
  simp only
  split
  · simp [Step.appendOk]
  · split
    · split <;> simp [Step.appendOk]
    · split
      · split
        · simp [Step.appendOk]
        · split
          · rename_i hb
            simp [Step.appendOk, readBody_append hb junk]
          · simp [Step.appendOk]
      · simp [Step.appendOk]
    · simp [Step.appendOk]

/-- the remainder of a line step is a suffix of what followed the line -/
theorem uripostLine_keeps (fixed : Bool) (urlOk : Bytes → Bool) (line rest : Bytes) (h : Terminated rest) :
    Step.keeps Terminated (uripostLine fixed urlOk line rest) := by
  unfold uripostLine
  simp only
  split
  · exact h
  · split
    · split <;> simp [Step.keeps, h]
    · split
      · split
        · simp [Step.keeps]
        · split
          · rename_i hb
            have := (readBody_ok_split hb).2.2.2.2
            simp only [Step.keeps]
            rw [this]; exact h.drop _
          · simp [Step.keeps]
      · simp [Step.keeps]
    · simp [Step.keeps]

theorem uripostStep_keeps (fixed : Bool) (urlOk : Bytes → Bool) (s : Bytes) (h : Terminated s) :
    Step.keeps Terminated (uripostStep fixed urlOk s) := by
  unfold uripostStep
  by_cases hne : s = []
  · subst hne; simp [readLineU, cut, Step.keeps]
  · obtain ⟨line, rest, hr, _, ht⟩ := readLineU_terminated h hne
    simp only [hr]
    exact uripostLine_keeps fixed urlOk line rest ht

theorem uripostStep_appendOk (fixed : Bool) (urlOk : Bytes → Bool) (good junk : Bytes) (h : Terminated good) :
    Step.appendOk junk (uripostStep fixed urlOk good) (uripostStep fixed urlOk (good ++ junk)) := by
  unfold uripostStep
  by_cases hne : good = []
  · subst hne; simp [readLineU, cut, Step.appendOk]
  · obtain ⟨line, rest, hr, hc, _⟩ := readLineU_terminated h hne
    have : readLineU (good ++ junk) = some (line, rest ++ junk) := by
      simp [readLineU, cut_append hc junk]
    simp only [hr, this]
    exact uripostLine_appendOk fixed urlOk line rest junk

theorem uripostStep_eof (fixed : Bool) (urlOk : Bytes → Bool) (s : Bytes) (h : uripostStep fixed urlOk s = .eof) : s = [] := by
  unfold uripostStep at h
  cases hr : readLineU s with
  | none => exact readLineU_none hr
  | some p =>
    obtain ⟨line, rest⟩ := p
    simp only [hr] at h
    unfold uripostLine at h
    simp only at h
    split at h
    · simp at h
    · split at h
      · split at h <;> simp at h
      · split at h
        · split at h
          · simp at h
          · split at h <;> simp at h
        · simp at h
      · simp at h

theorem rawLine_appendOk (fixed : Bool) (line rest junk : Bytes) :
    Step.appendOk junk (rawLine fixed line rest) (rawLine fixed line (rest ++ junk)) := by
  unfold rawLine
  simp only
  split
  · simp [Step.appendOk]
  · split
    · split
      · simp [Step.appendOk]
      · split
        · rename_i hb
          simp [Step.appendOk, readBody_append hb junk]
        · simp [Step.appendOk]
    · simp [Step.appendOk]

theorem rawLine_keeps (fixed : Bool) (line rest : Bytes) (h : Terminated rest) :
    Step.keeps Terminated (rawLine fixed line rest) := by
  unfold rawLine
  simp only
  split
  · exact h
  · split
    · split
      · exact h
      · split
        · rename_i hb
          have := (readBody_ok_split hb).2.2.2.2
          simp only [Step.keeps]
          rw [this]; exact h.drop _
        · simp [Step.keeps]
    · simp [Step.keeps]

theorem rawStep_keeps (fixed : Bool) (s : Bytes) (h : Terminated s) :
    Step.keeps Terminated (rawStep fixed s) := by
  unfold rawStep
  by_cases hne : s = []
  · subst hne; simp [readLineU, cut, Step.keeps]
  · obtain ⟨line, rest, hr, _, ht⟩ := readLineU_terminated h hne
    simp only [hr]
    exact rawLine_keeps fixed line rest ht

theorem rawStep_appendOk (fixed : Bool) (good junk : Bytes) (h : Terminated good) :
    Step.appendOk junk (rawStep fixed good) (rawStep fixed (good ++ junk)) := by
  unfold rawStep
  by_cases hne : good = []
  · subst hne; simp [readLineU, cut, Step.appendOk]
  · obtain ⟨line, rest, hr, hc, _⟩ := readLineU_terminated h hne
    have : readLineU (good ++ junk) = some (line, rest ++ junk) := by
      simp [readLineU, cut_append hc junk]
    simp only [hr, this]
    exact rawLine_appendOk fixed line rest junk

theorem rawStep_eof (fixed : Bool) (s : Bytes) (h : rawStep fixed s = .eof) : s = [] := by
  unfold rawStep at h
  cases hr : readLineU s with
  | none => exact readLineU_none hr
  | some p =>
    obtain ⟨line, rest⟩ := p
    simp only [hr] at h
    unfold rawLine at h
    simp only at h
    split at h
    · simp at h
    · split at h
      · split at h
        · simp at h
        · split at h <;> simp at h
      · simp at h

/-! ### uri format -/

def LineRes.clean : LineRes → Prop
  | .fail e => End.isErr e
  | _ => True

theorem uriLine_clean (urlOk : Bytes → Bool) (line : Bytes) : LineRes.clean (uriLine urlOk line) := by
  unfold uriLine
  simp only
  split
  · simp [LineRes.clean]
  · rename_i hne
    have hpos : 0 < (trimSpace line).length := by
      cases h : trimSpace line with
      | nil => simp [h] at hne
      | cons _ _ => simp
    obtain ⟨a, ha⟩ := indexC_ok (trimSpace line) 0 (by omega) (by omega)
    split
    · split
      · simp [LineRes.clean]
      · rename_i r hnok
        simp only [LineRes.clean]
        exact headerClass_isErr _ (by intro a h; exact hnok a h)
    · split <;> (split <;> simp [LineRes.clean, End.isErr])
    · rename_i r h1 h2
      rw [ha] at h1 h2
      exact absurd rfl (h2 a)

theorem uriLines_end_clean (urlOk : Bytes → Bool) (ls : List Bytes) : End.clean (uriLines urlOk ls).end_ := by
  induction ls with
  | nil => simp [uriLines, End.clean]
  | cons l rest ih =>
    unfold uriLines
    have hc := uriLine_clean urlOk l
    cases h : uriLine urlOk l with
    | skip => simpa using ih
    | entry e => simpa [Run.cons] using ih
    | fail e =>
      rw [h] at hc; simp only [LineRes.clean] at hc
      simp only
      cases e <;> simp [End.isErr] at hc <;> simp [End.clean]

/-- lines after a cleanly decoded block of lines: the block's entries, then whatever the later lines give -/
theorem uriLines_append (urlOk : Bytes → Bool) (l1 l2 : List Bytes) (h : (uriLines urlOk l1).end_ = .ok) :
    uriLines urlOk (l1 ++ l2) = (uriLines urlOk l2).prepend (uriLines urlOk l1).entries := by
  induction l1 with
  | nil => simp [uriLines, Run.prepend_nil]
  | cons l rest ih =>
    simp only [List.cons_append]
    rw [uriLines] at h ⊢
    conv => rhs; rw [uriLines]
    have hc := uriLine_clean urlOk l
    cases hl : uriLine urlOk l with
    | skip =>
      simp only [hl] at h ⊢
      exact ih h
    | entry e =>
      simp only [hl] at h ⊢
      have h' : (uriLines urlOk rest).end_ = .ok := by simpa [Run.cons] using h
      rw [ih h', Run.cons_prepend]
      simp [Run.cons]
    | fail e =>
      simp only [hl] at h
      rw [hl] at hc; simp only [LineRes.clean] at hc
      subst h
      simp [End.isErr] at hc

/-! ### whole runs of the size-prefixed decoders -/

theorem clean_returned {r : Run} (h : End.clean r.end_) : r.end_ = .ok ∨ ∃ c, r.end_ = .err c := by
  cases he : r.end_ with
  | ok => left; rfl
  | err c => right; exact ⟨c, rfl⟩
  | panic => rw [he] at h; exact absurd h (by simp [End.clean])
  | fatal => rw [he] at h; exact absurd h (by simp [End.clean])
  | fuel => rw [he] at h; exact absurd h (by simp [End.clean])

theorem uripostRun_append (fixed : Bool) (urlOk : Bytes → Bool) (good junk : Bytes)
    (hend : (uripostRun fixed urlOk good).end_ = .ok) (hterm : Terminated good) :
    uripostRun fixed urlOk (good ++ junk) =
      (uripostRun fixed urlOk junk).prepend (uripostRun fixed urlOk good).entries := by
  have hrest : (uripostRun fixed urlOk good).rest = [] :=
    runSteps_rest_nil _ (uripostStep_eof fixed urlOk) (uripostStep_fail_bad fixed urlOk) _ good hend
  have := runSteps_append (uripostStep fixed urlOk) (uripostStep_decreases fixed urlOk) (uripostStep_fail_bad fixed urlOk)
    Terminated (uripostStep_keeps fixed urlOk) (uripostStep_appendOk fixed urlOk) junk (good.length + 1) good (by omega)
    hterm hend hrest
  unfold uripostRun
  have e : (good ++ junk).length + 1 = good.length + 1 + junk.length := by simp; omega
  rw [e]; exact this

theorem rawRun_rest_nil (fixed : Bool) (s : Bytes) (hend : (rawRun fixed s).end_ = .ok) : (rawRun fixed s).rest = [] :=
  runSteps_rest_nil _ (rawStep_eof fixed) (rawStep_fail_bad fixed) _ s hend

theorem rawRun_append (fixed : Bool) (good junk : Bytes)
    (hend : (rawRun fixed good).end_ = .ok) (hterm : Terminated good) :
    rawRun fixed (good ++ junk) = (rawRun fixed junk).prepend (rawRun fixed good).entries := by
  have hrest : (rawRun fixed good).rest = [] := rawRun_rest_nil fixed good hend
  have := runSteps_append (rawStep fixed) (rawStep_decreases fixed) (rawStep_fail_bad fixed)
    Terminated (rawStep_keeps fixed) (rawStep_appendOk fixed) junk (good.length + 1) good (by omega) hterm hend hrest
  unfold rawRun
  have e : (good ++ junk).length + 1 = good.length + 1 + junk.length := by simp; omega
  rw [e]; exact this

/-- a block of uri lines that decodes cleanly, then a refused line: the block's entries, then that refusal -/
theorem uriLines_reject (urlOk : Bytes → Bool) (pre : List Bytes) (bad : Bytes) (post : List Bytes) (e : End)
    (hpre : (uriLines urlOk pre).end_ = .ok) (hbad : uriLine urlOk bad = .fail e) :
    uriLines urlOk (pre ++ bad :: post) = ⟨(uriLines urlOk pre).entries, e, []⟩ ∧ End.isErr e := by
  constructor
  · rw [uriLines_append urlOk pre _ hpre]
    rw [uriLines]; simp [hbad, Run.prepend]
  · have := uriLine_clean urlOk bad
    rw [hbad] at this; exact this

/-! ### grpc/json -/


theorem grpcLines_end_clean (coe : Bool) (json : Bytes → Option Bytes) (ls : List Bytes) :
    End.clean (grpcLines coe json ls).end_ := by
  induction ls with
  | nil => simp [grpcLines, End.clean]
  | cons l rest ih =>
    unfold grpcLines
    split
    · simp [End.clean]
    · split
      · simpa [GRun.cons] using ih
      · split
        · simpa [GRun.cons] using ih
        · simp [End.clean]

theorem GRun.prepend_nil (r : GRun) : r.prepend [] = r := by cases r; simp [GRun.prepend]
theorem GRun.cons_prepend (e : GEntry) (es : List GEntry) (r : GRun) : (r.prepend es).cons e = r.prepend (e :: es) := by
  cases r; simp [GRun.prepend, GRun.cons]

/-- lines after a block of lines the loop got through: the block's entries first, then whatever the later lines give -/
theorem grpcLines_append (coe : Bool) (json : Bytes → Option Bytes) (l1 l2 : List Bytes)
    (h : (grpcLines coe json l1).end_ = .ok) :
    grpcLines coe json (l1 ++ l2) = (grpcLines coe json l2).prepend (grpcLines coe json l1).entries := by
  induction l1 with
  | nil => simp [grpcLines, GRun.prepend_nil]
  | cons l rest ih =>
    simp only [List.cons_append]
    rw [grpcLines] at h ⊢
    conv => rhs; rw [grpcLines]
    split
    · rename_i hl; simp [hl] at h
    · rename_i hl
      simp only [hl, if_false] at h
      cases hj : json (dropCR l) with
      | some tag =>
        simp only [hj, GRun.cons] at h ⊢
        rw [ih h]; simp [GRun.prepend]
      | none =>
        simp only [hj] at h ⊢
        cases coe with
        | true =>
          simp only [if_true, GRun.cons] at h ⊢
          rw [ih h]; simp [GRun.prepend]
        | false => simp at h

end Pandora.Proofs.C13
