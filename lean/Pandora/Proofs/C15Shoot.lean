/-
C15 helper lemmas about the step loop of the scenario gun.
-/
import Pandora.Model.C15

namespace Pandora.Proofs.C15
open Pandora.Model.C15

variable {Req Resp : Type}

def stepTag (scName : String) (st : Step ReqDef) : String := scName ++ "." ++ st.req.name

/-- events a successful step appends -/
def okEvents (scName : String) (st : Step ReqDef) (r : Req) (c : Int) : List (Ev Req) :=
  [.request r, .sample (stepTag scName st) c false] ++ (if st.sleep > 0 then [.pause st.sleep] else [])

/-- what one call of `shootStep` does to the log -/
theorem shootStep_log (w : World Req Resp) (source : Val) (scName : String) (st : Step ReqDef)
    (rv : List (String × Val)) (g : GState Req) (b : Bool) (rv' : List (String × Val)) (g' : GState Req)
    (h : shootStep w source scName st rv g = some (b, rv', g')) :
    (b = true → ∃ r c, g'.log = g.log ++ okEvents scName st r c) ∧
    (b = false → ∃ pre : List (Ev Req), (pre = [] ∨ ∃ r, pre = [.request r]) ∧
        g'.log = g.log ++ pre ++ [.sample (failTag (stepTag scName st)) 0 true]) := by
  unfold shootStep at h
  simp only at h
  split at h
  · cases h
  · -- preprocessor error
    cases h
    refine ⟨by simp, fun _ => ⟨[], Or.inl rfl, by simp [stepTag]⟩⟩
  · split at h
    · cases h
      refine ⟨by simp, fun _ => ⟨[], Or.inl rfl, by simp [stepTag]⟩⟩
    · rename_i req _
      split at h
      · cases h
        refine ⟨by simp, fun _ => ⟨[.request req], Or.inr ⟨_, rfl⟩, by simp [stepTag]⟩⟩
      · rename_i resp _
        split at h
        · cases h
          refine ⟨by simp, fun _ => ⟨[.request req], Or.inr ⟨_, rfl⟩, by simp [stepTag]⟩⟩
        · cases h
          refine ⟨fun _ => ⟨req, w.code resp, by simp [okEvents, stepTag, List.append_assoc]⟩, by simp⟩


/-- events of a run of successful steps -/
def okRun (scName : String) : List (Step ReqDef) → List (Req × Int) → List (Ev Req)
  | st :: steps, (r, c) :: rcs => okEvents scName st r c ++ okRun scName steps rcs
  | _, _ => []

theorem shootLoop_log (w : World Req Resp) (source : Val) (scName : String) :
    ∀ (steps : List (Step ReqDef)) (rv : List (String × Val)) (g : GState Req) (b : Bool) (g' : GState Req),
      shootLoop w source scName steps rv g = some (b, g') →
      (b = true → ∃ rcs : List (Req × Int), rcs.length = steps.length ∧ g'.log = g.log ++ okRun scName steps rcs) ∧
      (b = false → ∃ (i : Nat) (hi : i < steps.length) (rcs : List (Req × Int)) (pre : List (Ev Req)),
          rcs.length = i ∧ (pre = [] ∨ ∃ r, pre = [.request r]) ∧
          g'.log = g.log ++ okRun scName (steps.take i) rcs ++ pre ++
            [.sample (failTag (stepTag scName steps[i])) 0 true])
  | [], rv, g, b, g', h => by
    simp only [shootLoop] at h
    cases h
    exact ⟨fun _ => ⟨[], rfl, by simp [okRun]⟩, by simp⟩
  | st :: rest, rv, g, b, g', h => by
    simp only [shootLoop] at h
    split at h
    · cases h
    · -- the step failed
      rename_i rv1 g1 hstep
      cases h
      obtain ⟨_, hf⟩ := shootStep_log w source scName st rv g false rv1 g' hstep
      obtain ⟨pre, hpre, hlog⟩ := hf rfl
      refine ⟨by simp, fun _ => ⟨0, by simp, [], pre, rfl, hpre, ?_⟩⟩
      simp [okRun, hlog]
    · rename_i rv1 g1 hstep
      obtain ⟨hs, _⟩ := shootStep_log w source scName st rv g true rv1 g1 hstep
      obtain ⟨r, c, hlog1⟩ := hs rfl
      obtain ⟨iht, ihf⟩ := shootLoop_log w source scName rest rv1 g1 b g' h
      constructor
      · intro hb
        obtain ⟨rcs, hlen, hlog⟩ := iht hb
        refine ⟨(r, c) :: rcs, by simp [hlen], ?_⟩
        simp [okRun, hlog, hlog1, List.append_assoc]
      · intro hb
        obtain ⟨i, hi, rcs, pre, hlen, hpre, hlog⟩ := ihf hb
        refine ⟨i + 1, by simp; omega, (r, c) :: rcs, pre, by simp [hlen], hpre, ?_⟩
        simp [okRun, hlog, hlog1, List.append_assoc]


/-! ### variable flow -/

theorem setKey_setKey {β} (k : String) (v1 v2 : β) : ∀ (l : List (String × β)),
    setKey k v2 (setKey k v1 l) = setKey k v2 l
  | [] => by simp [setKey]
  | (k', v') :: rest => by
    by_cases h : k' == k
    · simp [setKey, h]
    · simp [setKey, h, setKey_setKey k v1 v2 rest]

theorem getKey_setKey_same {β} (k : String) (v : β) : ∀ (l : List (String × β)), getKey k (setKey k v l) = some v
  | [] => by simp [setKey, getKey]
  | (k', v') :: rest => by
    by_cases h : k' == k
    · simp [setKey, getKey, h]
    · have ih := getKey_setKey_same k v rest
      simp only [getKey] at ih
      simp [setKey, getKey, h, ih]

theorem getKey_setKey_other {β} (k k2 : String) (v : β) (hne : (k == k2) = false) :
    ∀ (l : List (String × β)), getKey k2 (setKey k v l) = getKey k2 l
  | [] => by simp [setKey, getKey, List.find?, hne]
  | (k', v') :: rest => by
    have ih := getKey_setKey_other k k2 v hne rest
    simp only [getKey] at ih
    by_cases h : k' == k
    · have hk : k' = k := by simpa using h
      subst hk
      simp [setKey, getKey, List.find?, hne]
    · by_cases h2 : k' == k2
      · simp [setKey, getKey, h, List.find?, h2]
      · simp [setKey, getKey, h, List.find?, h2, ih]

/-- the value stored under `request.<name>` for an executed step -/
def recVal (r : StepRec) : Val :=
  .map ([("preprocessor", .map r.pre)] ++ match r.post with
    | some p => [("postprocessor", .map p)]
    | none => [])

def preOnly (pv : List (String × Val)) : Val := .map [("preprocessor", .map pv)]

/-- `requestVars` after the given steps -/
def rvOf (recs : List StepRec) : List (String × Val) :=
  recs.foldl (fun rv r => setKey r.name (recVal r) rv) []

theorem rvOf_snoc (recs : List StepRec) (r : StepRec) : rvOf (recs ++ [r]) = setKey r.name (recVal r) (rvOf recs) := by
  simp [rvOf, List.foldl_append]

/-- the trees the templater is given, step by step -/
def expSeen (source : Val) : List StepRec → List StepRec → List (List (String × Val))
  | _, [] => []
  | done, r :: rest => tree source (setKey r.name (preOnly r.pre) (rvOf done)) :: expSeen source (done ++ [r]) rest

theorem expSeen_append (source : Val) : ∀ (rs done : List StepRec) (r : StepRec),
    expSeen source done (rs ++ [r]) =
      expSeen source done rs ++ [tree source (setKey r.name (preOnly r.pre) (rvOf (done ++ rs)))]
  | [], done, r => by simp [expSeen]
  | x :: xs, done, r => by
    simp [expSeen, expSeen_append source xs (done ++ [x]) r, List.append_assoc]

theorem shootStep_ghost (w : World Req Resp) (source : Val) (scName : String) (st : Step ReqDef)
    (rv : List (String × Val)) (g : GState Req) (b : Bool) (rv' : List (String × Val)) (g' : GState Req)
    (h : shootStep w source scName st rv g = some (b, rv', g')) :
    (b = false ∧ g'.seen = g.seen ∧ g'.recs = g.recs) ∨
    (∃ pv, g'.seen = g.seen ++ [tree source (setKey st.req.name (preOnly pv) rv)] ∧
      ((b = false ∧ g'.recs = g.recs ++ [{ name := st.req.name, pre := pv, post := none }]) ∨
       (b = true ∧ ∃ postv, g'.recs = g.recs ++ [{ name := st.req.name, pre := pv, post := some postv }] ∧
          rv' = setKey st.req.name (recVal { name := st.req.name, pre := pv, post := some postv }) rv))) := by
  unfold shootStep at h
  simp only at h
  split at h
  · cases h
  · cases h
    exact Or.inl ⟨rfl, rfl, rfl⟩
  · rename_i pv it' _
    split at h
    · cases h
      exact Or.inr ⟨pv, by simp [preOnly, setKey_setKey], Or.inl ⟨rfl, rfl⟩⟩
    · split at h
      · cases h
        exact Or.inr ⟨pv, by simp [preOnly, setKey_setKey], Or.inl ⟨rfl, rfl⟩⟩
      · split at h
        · cases h
          exact Or.inr ⟨pv, by simp [preOnly, setKey_setKey], Or.inl ⟨rfl, rfl⟩⟩
        · rename_i postv _
          cases h
          refine Or.inr ⟨pv, by simp [preOnly, setKey_setKey], Or.inr ⟨rfl, postv, by simp, ?_⟩⟩
          simp [recVal, setKey_setKey]

theorem shootLoop_ghost (w : World Req Resp) (source : Val) (scName : String) :
    ∀ (steps : List (Step ReqDef)) (rv : List (String × Val)) (g : GState Req) (b : Bool) (g' : GState Req)
      (R : List StepRec),
      shootLoop w source scName steps rv g = some (b, g') → rv = rvOf R →
      ∃ R' : List StepRec, g'.recs = g.recs ++ R' ∧ g'.seen = g.seen ++ expSeen source R R' ∧
        R'.map (·.name) = (steps.take R'.length).map (·.req.name) ∧
        (∀ r ∈ R'.dropLast, r.post.isSome) ∧ (b = true → R'.length = steps.length ∧ ∀ r ∈ R', r.post.isSome)
  | [], rv, g, b, g', R, h, _ => by
    simp only [shootLoop] at h
    cases h
    exact ⟨[], by simp, by simp [expSeen], by simp, by simp, by simp⟩
  | st :: rest, rv, g, b, g', R, h, hrv => by
    simp only [shootLoop] at h
    split at h
    · cases h
    · rename_i rv1 g1 hstep
      cases h
      rcases shootStep_ghost w source scName st rv g false rv1 g' hstep with ⟨_, hs, hr⟩ | ⟨pv, hs, hrest⟩
      · exact ⟨[], by simp [hr], by simp [hs, expSeen], by simp, by simp, by simp⟩
      · rcases hrest with ⟨_, hr⟩ | ⟨hb, _⟩
        · exact ⟨[{ name := st.req.name, pre := pv, post := none }], hr, by simp [hs, expSeen, hrv], by simp, by simp,
            by simp⟩
        · cases hb
    · rename_i rv1 g1 hstep
      rcases shootStep_ghost w source scName st rv g true rv1 g1 hstep with ⟨hb, _, _⟩ | ⟨pv, hs, hrest⟩
      · cases hb
      · rcases hrest with ⟨hb, _⟩ | ⟨_, postv, hr, hrv1⟩
        · cases hb
        · let r : StepRec := { name := st.req.name, pre := pv, post := some postv }
          have hrv1' : rv1 = rvOf (R ++ [r]) := by rw [rvOf_snoc, ← hrv]; exact hrv1
          obtain ⟨R', hR', hS', hN', hP', hB'⟩ := shootLoop_ghost w source scName rest rv1 g1 b g' (R ++ [r]) h hrv1'
          refine ⟨r :: R', by simp [hR', hr, r], ?_, ?_, ?_, ?_⟩
          · simp [hS', hs, expSeen, hrv, r]
          · simp [hN', r]
          · intro x hx
            cases R' with
            | nil => simp at hx
            | cons y ys =>
              rw [List.dropLast_cons_cons] at hx
              rcases List.mem_cons.mp hx with e | e
              · subst e; rfl
              · exact hP' x e
          · intro hb
            obtain ⟨hl, hall⟩ := hB' hb
            refine ⟨by simp [hl], ?_⟩
            intro x hx
            rcases List.mem_cons.mp hx with e | e
            · subst e; rfl
            · exact hall x e

/-- the record that `request.<n>` shows: the LAST executed step of that name -/
def lastRec (n : String) (R : List StepRec) : Option StepRec := R.reverse.find? (·.name == n)

theorem getKey_rvOf_rev (n : String) : ∀ (L : List StepRec),
    getKey n (rvOf L.reverse) = (L.find? (·.name == n)).map recVal
  | [] => by simp [rvOf, getKey]
  | r :: L => by
    rw [List.reverse_cons, rvOf_snoc, List.find?_cons]
    by_cases h : r.name == n
    · have e : r.name = n := by simpa using h
      rw [h]
      subst e
      simp [getKey_setKey_same]
    · have hf : (r.name == n) = false := by simpa using h
      rw [hf, getKey_setKey_other r.name n _ hf, getKey_rvOf_rev n L]

theorem getKey_rvOf (n : String) (R : List StepRec) : getKey n (rvOf R) = (lastRec n R).map recVal := by
  have := getKey_rvOf_rev n R.reverse
  rwa [List.reverse_reverse] at this

/-! ### why a step succeeds or fails -/

/-- the preprocessor stage of a step (a step without preprocessor yields no variables) -/
def preStage (w : World Req Resp) (source : Val) (st : Step ReqDef) (rv : List (String × Val)) (it : Iter) :
    Outcome (List (String × Val) × Iter) :=
  match st.req.pre with
  | none => .ok ([], it)
  | some m => runPre w.fn (tree source (setKey st.req.name (.map []) rv)) st.req.iter m [] it

/-- all four stages of a step succeed: preprocessor, templating, transport, extractors / assertions -/
def StepSucceeds (w : World Req Resp) (source : Val) (st : Step ReqDef) (rv : List (String × Val)) (g : GState Req) : Prop :=
  ∃ pv it' req resp postv,
    preStage w source st rv g.iter = .ok (pv, it') ∧
    w.render st.req (tree source (setKey st.req.name (preOnly pv) rv)) = some req ∧
    w.target (g.hist ++ [req]) = some resp ∧
    runPosts w resp st.req.posts [] = some postv

theorem shootStep_outcome (w : World Req Resp) (source : Val) (scName : String) (st : Step ReqDef)
    (rv : List (String × Val)) (g : GState Req) (b : Bool) (rv' : List (String × Val)) (g' : GState Req)
    (h : shootStep w source scName st rv g = some (b, rv', g')) :
    (b = true ↔ StepSucceeds w source st rv g) := by
  unfold shootStep at h
  simp only at h
  split at h
  · cases h
  · -- preprocessor error
    rename_i e hp
    cases h
    have hp' : preStage w source st rv g.iter = .err e := by
      unfold preStage
      cases hq : st.req.pre with
      | none => rw [hq] at hp; exact hp
      | some m => rw [hq] at hp; exact hp
    refine ⟨by simp, ?_⟩
    rintro ⟨pv, it', _, _, _, h1, _⟩
    rw [hp'] at h1; cases h1
  · rename_i pv it' hp
    have hp' : preStage w source st rv g.iter = .ok (pv, it') := by
      unfold preStage
      cases hq : st.req.pre with
      | none => rw [hq] at hp; exact hp
      | some m => rw [hq] at hp; exact hp
    have hkey : setKey st.req.name (Val.map [("preprocessor", Val.map pv)]) (setKey st.req.name (Val.map []) rv) =
        setKey st.req.name (preOnly pv) rv := by simp [preOnly, setKey_setKey]
    rw [hkey] at h
    have inj : ∀ pv2 it2, preStage w source st rv g.iter = .ok (pv2, it2) → pv2 = pv ∧ it2 = it' := by
      intro pv2 it2 h1
      rw [hp'] at h1
      cases h1; exact ⟨rfl, rfl⟩
    split at h
    · -- template error
      rename_i hr
      cases h
      refine ⟨by simp, ?_⟩
      rintro ⟨pv2, it2, req, _, _, h1, h2, _⟩
      obtain ⟨e1, _⟩ := inj pv2 it2 h1
      subst e1
      rw [hr] at h2; cases h2
    · rename_i req hr
      split at h
      · -- transport error
        rename_i ht
        cases h
        refine ⟨by simp, ?_⟩
        rintro ⟨pv2, it2, req2, resp, _, h1, h2, h3, _⟩
        obtain ⟨e1, _⟩ := inj pv2 it2 h1
        subst e1
        rw [hr] at h2; cases h2
        rw [ht] at h3; cases h3
      · rename_i resp ht
        split at h
        · -- extractor / assertion failure
          rename_i hpo
          cases h
          refine ⟨by simp, ?_⟩
          rintro ⟨pv2, it2, req2, resp2, postv, h1, h2, h3, h4⟩
          obtain ⟨e1, _⟩ := inj pv2 it2 h1
          subst e1
          rw [hr] at h2; cases h2
          rw [ht] at h3; cases h3
          rw [hpo] at h4; cases h4
        · rename_i postv hpo
          cases h
          refine ⟨fun _ => ⟨pv, it', req, resp, postv, hp', hr, ht, hpo⟩, fun _ => rfl⟩

/-- the loop stops at a step exactly when that step does not succeed; otherwise it continues with the next one -/
theorem shootLoop_cons (w : World Req Resp) (source : Val) (scName : String) (st : Step ReqDef)
    (rest : List (Step ReqDef)) (rv : List (String × Val)) (g : GState Req) (b : Bool) (g' : GState Req)
    (h : shootLoop w source scName (st :: rest) rv g = some (b, g')) :
    (StepSucceeds w source st rv g →
      ∃ rv1 g1, shootStep w source scName st rv g = some (true, rv1, g1) ∧
        shootLoop w source scName rest rv1 g1 = some (b, g')) ∧
    (¬ StepSucceeds w source st rv g →
      b = false ∧ ∃ rv1, shootStep w source scName st rv g = some (false, rv1, g')) := by
  simp only [shootLoop] at h
  split at h
  · cases h
  · rename_i rv1 g1 hstep
    cases h
    have := shootStep_outcome w source scName st rv g false rv1 g' hstep
    refine ⟨fun hs => ?_, fun _ => ⟨rfl, rv1, hstep⟩⟩
    exact absurd (this.mpr hs) (by simp)
  · rename_i rv1 g1 hstep
    have := shootStep_outcome w source scName st rv g true rv1 g1 hstep
    refine ⟨fun _ => ⟨rv1, g1, hstep, h⟩, fun hn => absurd (this.mp rfl) hn⟩

end Pandora.Proofs.C15
