/-
C02 — from "the log is a run of the atomic flat spec" (`Reach`) to the clauses of the token contract.
-/
import Pandora.Proofs.C02Par

set_option linter.unusedVariables false

namespace Pandora.Proofs.C02Reach
open Pandora.Model.C02 Pandora.Model.C02.Par Pandora.Spec.C02 Pandora.Proofs.C02Flat Pandora.Proofs.C02Sem
open Pandora.Proofs.C02Par

abbrev Log := List (Nat × Int × Out)

/-- one logged action on a running schedule -/
def RStep (segs : List Seg) (e : Nat × Int × Out) (segs' : List Seg) : Prop :=
  match e.2.2 with
  | .ret (.tok tx ok) => segNext segs e.2.1 = (segs', tx, ok)
  | .ret (.cnt n) => segLeft segs e.2.1 = n ∧ segs' = segs
  | .ret (.panic _) => False
  | .goto _ => segs' = segs

theorem absStep_running {segs : List Seg} {e : Nat × Int × Out} {A' : Abs} (h : AbsStep (.running segs) e.2.1 e.2.2 A') :
    ∃ segs', A' = .running segs' ∧ RStep segs e segs' := by
  obtain ⟨i, now, out⟩ := e
  cases out with
  | ret r =>
    cases r with
    | tok tx ok =>
      simp only [AbsStep, absNext, Abs.segsAt, Prod.mk.injEq] at h
      obtain ⟨h1, h2⟩ := h
      exact ⟨(segNext segs now).1, h1.symm, by simp only [RStep]; exact Prod.ext rfl h2⟩
    | cnt n => exact ⟨segs, h.2, h.1, rfl⟩
    | panic m => exact absurd h (by simp [AbsStep])
  | goto pc =>
    rcases h with h | ⟨parts, h, _⟩
    · exact ⟨segs, h, rfl⟩
    · cases h

/-- induction along a running log -/
theorem reach_induct {segs0 : List Seg} (P : List Seg → Log → Prop) (h0 : P segs0 [])
    (hstep : ∀ segs log e segs', P segs log → RStep segs e segs' → P segs' (e :: log)) :
    ∀ (log : Log) (A : Abs), Reach (.running segs0) log A → ∃ segs, A = .running segs ∧ P segs log
  | [], A, h => ⟨segs0, h, h0⟩
  | e :: older, A, ⟨A1, hr, hs⟩ => by
      obtain ⟨segs1, rfl, hp⟩ := reach_induct P h0 hstep older A1 hr
      obtain ⟨segs', rfl, hrs⟩ := absStep_running hs
      exact ⟨segs', rfl, hstep segs1 older e segs' hp hrs⟩

/-! ### the tokens handed out -/

def okTok (e : Nat × Int × Out) : Option Int :=
  match e.2.2 with
  | .ret (.tok tx true) => some tx
  | _ => none

/-- tokens handed out so far, oldest first -/
def okToks (log : Log) : List Int := log.reverse.filterMap okTok

theorem okToks_cons (e : Nat × Int × Out) (log : Log) : okToks (e :: log) = okToks log ++ (okTok e).toList := by
  unfold okToks
  rw [List.reverse_cons, List.filterMap_append]
  congr 1

theorem pendSegs_next : ∀ (a : List Seg) (l now : Int), 0 ≤ pendSegs a → 0 ≤ pendSegs (segNextAux l a now).1
  | [], _, _, h => h
  | .unl _ _ :: _, _, _, h => by simp [pendSegs] at h
  | .fin (t :: ts) f :: r, _, _, h => by
      have hp := pendSegs_ge r
      simp only [pendSegs, List.length_cons] at h
      simp only [segNextAux, pendSegs]
      split at h
      · omega
      · rename_i hu; simp only [hu, if_false]; omega
  | .fin [] f :: r, l, now, h => by
      have hp := pendSegs_ge r
      simp only [pendSegs] at h
      have hr : 0 ≤ pendSegs r := by
        split at h <;> omega
      have ih := pendSegs_next r f now hr
      simp only [segNextAux, pendSegs]
      have : ¬ pendSegs (segNextAux f r now).1 < 0 := by omega
      simp only [this, if_false, List.length_nil]; omega

theorem unlTok_absurd {a : List Seg} {now tx : Int} (h : UnlTok a now tx) (hp : 0 ≤ pendSegs a) : False := by
  obtain ⟨pre, s, f, post, rfl, _, _, _⟩ := h
  rw [pendSegs_append] at hp
  have : pendSegs (Seg.unl s f :: post) < 0 := by simp [pendSegs]
  simp [this] at hp

/-- exactly once, general form -/
theorem exactly_once {segs0 : List Seg} (log : Log) (A : Abs) (h : Reach (.running segs0) log A) :
    ∃ segs, A = .running segs ∧ ∃ drawn, drawn ++ finToks segs = finToks segs0 ∧ drawn.Sublist (okToks log) ∧
      (0 ≤ pendSegs segs0 → 0 ≤ pendSegs segs ∧ drawn = okToks log) := by
  refine reach_induct (fun segs log => ∃ drawn, drawn ++ finToks segs = finToks segs0 ∧ drawn.Sublist (okToks log) ∧
      (0 ≤ pendSegs segs0 → 0 ≤ pendSegs segs ∧ drawn = okToks log)) ⟨[], rfl, by simp [okToks], fun h => ⟨h, by simp [okToks]⟩⟩ ?_ log A h
  rintro segs log ⟨i, now, out⟩ segs' ⟨drawn, hd, hsub, hfin⟩ hs
  rw [okToks_cons]
  cases out with
  | goto pc =>
    simp only [RStep] at hs; subst hs
    exact ⟨drawn, hd, by simpa [okTok] using hsub, fun h => by simpa [okTok] using hfin h⟩
  | ret r =>
    cases r with
    | panic m => exact absurd hs (by simp [RStep])
    | cnt n =>
      simp only [RStep] at hs; obtain ⟨_, rfl⟩ := hs
      exact ⟨drawn, hd, by simpa [okTok] using hsub, fun h => by simpa [okTok] using hfin h⟩
    | tok tx ok =>
      simp only [RStep] at hs
      have h1 : (segNextAux 0 segs now).1 = segs' := congrArg Prod.fst hs
      have h2 : (segNextAux 0 segs now).2.1 = tx := congrArg (fun x => x.2.1) hs
      have h3 : (segNextAux 0 segs now).2.2 = ok := congrArg (fun x => x.2.2) hs
      rcases segNextAux_finToks segs 0 now with ⟨hok, hpop⟩ | ⟨hsame, hunl⟩
      · rw [h1, h2] at hpop
        rw [h3] at hok; subst hok
        refine ⟨drawn ++ [tx], by rw [List.append_assoc, ← hd, hpop]; rfl, ?_, fun h => ?_⟩
        · simpa [okTok] using List.Sublist.append hsub (List.Sublist.refl [tx])
        · obtain ⟨hp, he⟩ := hfin h
          exact ⟨by rw [← h1]; exact pendSegs_next segs 0 now hp, by simp [okTok, he]⟩
      · rw [h1] at hsame
        refine ⟨drawn, by rw [hsame]; exact hd, ?_, fun h => ?_⟩
        · exact hsub.trans (List.sublist_append_left _ _)
        · obtain ⟨hp, he⟩ := hfin h
          refine ⟨by rw [← h1]; exact pendSegs_next segs 0 now hp, ?_⟩
          cases ok with
          | false => simp [okTok, he]
          | true =>
            rw [h3] at hunl
            exact absurd (hunl rfl) (fun hu => unlTok_absurd hu hp)

/-! ### finish time -/

theorem finish_stable {segs0 : List Seg} (hne : segs0 ≠ []) (log : Log) (A : Abs) (h : Reach (.running segs0) log A) :
    ∃ segs, A = .running segs ∧ (segs ≠ [] ∧ finOf segs 0 = finOf segs0 0) ∧
      ∀ e ∈ log, ∀ tx, e.2.2 = .ret (.tok tx false) → tx = finOf segs0 0 := by
  refine reach_induct (fun segs log => (segs ≠ [] ∧ finOf segs 0 = finOf segs0 0) ∧
      ∀ e ∈ log, ∀ tx, e.2.2 = .ret (.tok tx false) → tx = finOf segs0 0) ⟨⟨hne, rfl⟩, by simp⟩ ?_ log A h
  rintro segs log ⟨i, now, out⟩ segs' ⟨⟨hn, hf⟩, hall⟩ hs
  cases out with
  | goto pc =>
    simp only [RStep] at hs; subst hs
    refine ⟨⟨hn, hf⟩, fun e he tx hx => ?_⟩
    rcases List.mem_cons.mp he with rfl | he
    · cases hx
    · exact hall e he tx hx
  | ret r =>
    cases r with
    | panic m => exact absurd hs (by simp [RStep])
    | cnt n =>
      simp only [RStep] at hs; obtain ⟨_, rfl⟩ := hs
      refine ⟨⟨hn, hf⟩, fun e he tx hx => ?_⟩
      rcases List.mem_cons.mp he with rfl | he
      · cases hx
      · exact hall e he tx hx
    | tok tx ok =>
      simp only [RStep] at hs
      have h1 : (segNextAux 0 segs now).1 = segs' := congrArg Prod.fst hs
      have h2 : (segNextAux 0 segs now).2.1 = tx := congrArg (fun x => x.2.1) hs
      have h3 : (segNextAux 0 segs now).2.2 = ok := congrArg (fun x => x.2.2) hs
      refine ⟨⟨by rw [← h1]; exact segNextAux_ne segs 0 now hn, by rw [← h1, finOf_segNextAux]; exact hf⟩,
        fun e he tx' hx => ?_⟩
      rcases List.mem_cons.mp he with rfl | he
      · simp only [Out.ret.injEq, Ret.tok.injEq] at hx
        obtain ⟨rfl, rfl⟩ := hx
        obtain ⟨_, _, hfin⟩ := segNextAux_notok segs 0 now h3
        rw [← h2, hfin, hf]
      · exact hall e he tx' hx

/-! ### times never decrease -/

def tokTime (e : Nat × Int × Out) : Option Int :=
  match e.2.2 with
  | .ret (.tok tx _) => some tx
  | _ => none

/-- every time returned by a `Next`, ok or not, oldest first -/
def times (log : Log) : List Int := log.reverse.filterMap tokTime

/-- clock readings of the log never go back (newest first) and are at most `hi` -/
def LogMono : Int → Log → Prop
  | _, [] => True
  | hi, e :: older => e.2.1 ≤ hi ∧ LogMono e.2.1 older

theorem times_cons (e : Nat × Int × Out) (log : Log) : times (e :: log) = times log ++ (tokTime e).toList := by
  unfold times
  rw [List.reverse_cons, List.filterMap_append]
  congr 1

theorem pairwise_snoc {l : List Int} {x : Int} (h : l.Pairwise (· ≤ ·)) (hx : ∀ t ∈ l, t ≤ x) :
    (l ++ [x]).Pairwise (· ≤ ·) := by
  rw [List.pairwise_append]
  exact ⟨h, by simp, fun a ha b hb => by simp at hb; subst hb; exact hx a ha⟩

theorem times_mono {segs0 : List Seg} {b : Int} (hc : Chain b segs0) (hb : b ≤ 0 ∨ segs0 ≠ []) :
    ∀ (log : Log) (A : Abs) (hi : Int), Reach (.running segs0) log A → LogMono hi log →
    ∃ segs, A = .running segs ∧ Chain b segs ∧ (times log).Pairwise (· ≤ ·) ∧
      (∀ t ∈ times log, ∀ now, hi ≤ now → t ≤ (segNextAux (max b 0) segs now).2.1)
  | [], A, hi, h, _ => ⟨segs0, h, hc, by simp [times], by simp [times]⟩
  | e :: older, A, hi, ⟨A1, hr, hs⟩, hm => by
      obtain ⟨i, now, out⟩ := e
      obtain ⟨segs1, rfl, hc1, hpw, hfut⟩ := times_mono hc hb older A1 now hr hm.2
      obtain ⟨segs', rfl, hrs⟩ := absStep_running hs
      have hle : now ≤ hi := hm.1
      rw [times_cons]
      cases out with
      | goto pc =>
        simp only [RStep] at hrs
        refine ⟨segs', rfl, by rw [hrs]; exact hc1, by simpa [tokTime] using hpw, fun t ht nw hnw => ?_⟩
        rw [hrs]
        exact hfut t (by simpa [tokTime] using ht) nw (by omega)
      | ret r =>
        cases r with
        | panic m => exact absurd hrs (by simp [RStep])
        | cnt n =>
          simp only [RStep] at hrs
          obtain ⟨_, hrs⟩ := hrs
          refine ⟨segs', rfl, by rw [hrs]; exact hc1, by simpa [tokTime] using hpw, fun t ht nw hnw => ?_⟩
          rw [hrs]
          exact hfut t (by simpa [tokTime] using ht) nw (by omega)
        | tok tx ok =>
          simp only [RStep] at hrs
          have hd : segNext segs1 now = segNextAux (max b 0) segs1 now := by
            unfold segNext
            by_cases hne : segs1 = []
            · subst hne
              rcases hb with hb | hb
              · have : max b 0 = 0 := by omega
                rw [this]
              · -- the list never becomes empty
                exfalso
                obtain ⟨s, hs', ⟨hn, _⟩, _⟩ := finish_stable hb older (.running []) hr
                cases hs'
                exact hn rfl
            · exact segNextAux_default 0 (max b 0) now hne
          rw [hd] at hrs
          have h1 : (segNextAux (max b 0) segs1 now).1 = segs' := congrArg Prod.fst hrs
          have h2 : (segNextAux (max b 0) segs1 now).2.1 = tx := congrArg (fun x => x.2.1) hrs
          have hcn := chain_next segs1 b (max b 0) now hc1 (by omega)
          refine ⟨segs', rfl, by rw [← h1]; exact hcn.2, ?_, ?_⟩
          · simp only [tokTime, Option.toList]
            exact pairwise_snoc hpw (fun t ht => by rw [← h2]; exact hfut t ht now (Int.le_refl _))
          · intro t ht nw hnw
            simp only [tokTime, Option.toList, List.mem_append, List.mem_singleton] at ht
            have hm2 := chain_mono segs1 b (max b 0) now nw hc1 (by omega) (by omega)
            rw [h1, h2] at hm2
            rcases ht with ht | rfl
            · have := hfut t ht now (Int.le_refl _)
              rw [h2] at this
              omega
            · exact hm2

/-! ### an unstarted schedule: it is started at one clock reading, then it is a running schedule -/

def noTok (e : Nat × Int × Out) : Prop := ∀ tx ok, e.2.2 ≠ .ret (.tok tx ok)

theorem reach_unstarted {parts : List Part} : ∀ (log : Log) (A : Abs), Reach (.unstarted parts) log A →
    (A = .unstarted parts ∧ ∀ e ∈ log, noTok e) ∨
    ∃ t l2 l1, log = l2 ++ l1 ∧ Reach (.running (inst parts t)) l2 A ∧ (∀ e ∈ l1, noTok e)
  | [], A, h => Or.inl ⟨h, by simp⟩
  | e :: older, A, ⟨A1, hr, hs⟩ => by
      obtain ⟨i, now, out⟩ := e
      rcases reach_unstarted older A1 hr with ⟨rfl, hno⟩ | ⟨t, l2, l1, rfl, hr2, hno⟩
      · cases out with
        | goto pc =>
          rcases hs with rfl | ⟨p, hp, rfl⟩
          · refine Or.inl ⟨rfl, fun e he => ?_⟩
            rcases List.mem_cons.mp he with rfl | he
            · intro tx ok h; cases h
            · exact hno e he
          · cases hp
            refine Or.inr ⟨now, [], (i, now, .goto pc) :: older, rfl, rfl, fun e he => ?_⟩
            rcases List.mem_cons.mp he with rfl | he
            · intro tx ok h; cases h
            · exact hno e he
        | ret r =>
          cases r with
          | panic m => exact absurd hs (by simp [AbsStep])
          | cnt n =>
            obtain ⟨_, rfl⟩ := hs
            refine Or.inl ⟨rfl, fun e he => ?_⟩
            rcases List.mem_cons.mp he with rfl | he
            · intro tx ok h; cases h
            · exact hno e he
          | tok tx ok =>
            refine Or.inr ⟨now, [(i, now, .ret (.tok tx ok))], older, rfl, ⟨.running (inst parts now), rfl, ?_⟩, hno⟩
            exact hs
      · exact Or.inr ⟨t, (i, now, out) :: l2, l1, rfl, ⟨A1, hr2, hs⟩, hno⟩

/-! ### no caller panics -/

theorem no_panic {A0 : Abs} : ∀ (log : Log) (A : Abs), Reach A0 log A → ∀ e ∈ log, ∀ m, e.2.2 ≠ .ret (.panic m)
  | [], _, _ => by simp
  | e :: older, A, ⟨A1, hr, hs⟩ => by
      intro e' he' m hm
      rcases List.mem_cons.mp he' with rfl | he'
      · rw [hm] at hs; exact hs
      · exact no_panic older A1 hr e' he' m hm

/-- a composite node as `NewComposite` builds it stands for the unstarted flat succession of its parts -/
theorem built_shRel (now0 : Int) (t : Tree) (d : Nat) (hd : t.depth ≤ d + 1) (c : Comp (Lvl d))
    (hb : build now0 (d + 1) t = .ok (.inr c)) (clk : Int) :
    ShRel (lvlSem d) ⟨c.cs, c.la, c.started⟩ (.unstarted (flat t)) clk := by
  have hU := build_U now0 (d + 1) t (.inr c) hd hb
  obtain ⟨c0, rest, p, ps, rfl, hc, hU', hfl⟩ := (show compU (lvlSem d) c (flat t) from hU)
  exact ⟨c0, rest, p, ps, rfl, rfl, hc, hU', hfl⟩



/-- `NewComposite` leaves the `started` flag unset -/
theorem built_unstarted (now0 : Int) (t : Tree) (d : Nat) (hd : t.depth ≤ d + 1) (c : Comp (Lvl d))
    (hb : build now0 (d + 1) t = .ok (.inr c)) : c.started = false := by
  have hU := build_U now0 (d + 1) t (.inr c) hd hb
  obtain ⟨c0, rest, p, ps, rfl, _, _, _⟩ := (show compU (lvlSem d) c (flat t) from hU)
  rfl

theorem reach_split {A0 : Abs} : ∀ (newer older : Log) (A : Abs), Reach A0 (newer ++ older) A →
    ∃ A1, Reach A0 older A1 ∧ Reach A1 newer A
  | [], older, A, h => ⟨A, h, rfl⟩
  | e :: newer, older, A, ⟨A2, hr, hs⟩ => by
      obtain ⟨A1, h1, h2⟩ := reach_split newer older A2 hr
      exact ⟨A1, h1, A2, h2, hs⟩


theorem flatList_isLoop (to step : Nat) (dur : Int) : ∀ (fuel i : Nat),
    ∃ k, flatList (instanceStepLoop to step dur fuel i) =
      (List.replicate k [Part.fin [] dur, Part.fin (List.replicate step 0) 0]).flatten
  | 0, _ => ⟨0, rfl⟩
  | fuel + 1, i => by
      simp only [instanceStepLoop]
      split
      · obtain ⟨k, hk⟩ := flatList_isLoop to step dur fuel (i + step)
        exact ⟨k + 1, by simp [flatList, flat, hk, List.replicate_succ]⟩
      · exact ⟨0, rfl⟩


end Pandora.Proofs.C02Reach
