/-
C05 — `Engine.Run` over several pools: helper lemmas for the composition of the engine loop (`engRun`) with the
pool model, and the engine's `sync.WaitGroup`.
-/
import Pandora.Proofs.C05Fin

namespace Pandora.Proofs.C05
open Pandora.Model.C05

/-! ### pigeonhole: `n` distinct pool ids below `n` are all of them -/

theorem nodup_bounded_length (n : Nat) : ∀ l : List Nat, l.Nodup → (∀ x ∈ l, x < n) → l.length ≤ n := by
  induction n with
  | zero =>
    intro l _ hb
    cases l with
    | nil => simp
    | cons a l => exact absurd (hb a List.mem_cons_self) (Nat.not_lt_zero a)
  | succ n ih =>
    intro l hn hb
    have h1 : (l.erase n).Nodup := hn.erase n
    have h2 : ∀ x ∈ l.erase n, x < n := by
      intro x hx
      have := (hn.mem_erase_iff).1 hx
      have := hb x this.2
      omega
    have h3 := ih (l.erase n) h1 h2
    rw [List.length_erase] at h3
    split at h3 <;> omega

theorem nodup_covers (n : Nat) (l : List Nat) (hn : l.Nodup) (hb : ∀ x ∈ l, x < n) (hl : l.length = n) :
    ∀ i, i < n → i ∈ l := by
  intro i hi
  refine Classical.byContradiction fun hni => ?_
  have h1 : (i :: l).Nodup := List.nodup_cons.2 ⟨hni, hn⟩
  have h2 : ∀ x ∈ i :: l, x < n := by
    intro x hx
    rcases List.mem_cons.1 hx with h | h
    · omega
    · exact hb x h
  have := nodup_bounded_length n (i :: l) h1 h2
  simp at this
  omega

/-! ### the results `Engine.Run` consumes -/

/-- the pool a result event comes from -/
def EEv.poolId : EEv → Option Nat
  | .pool id _ _ => some id
  | .ctxDone => none

/-- if `Engine.Run` over `n` pools returns nil it has consumed `n` nil results -/
theorem engRun_ok_take (n : Nat) (evs : List EEv) (h : engRun n evs = some .ok) :
    n ≤ evs.length ∧ ∀ e ∈ evs.take n, ∃ id d, e = .pool id .ok d := by
  induction n generalizing evs with
  | zero => simp
  | succ n ih =>
    cases evs with
    | nil => simp [engRun] at h
    | cons e rest =>
      cases e with
      | ctxDone => simp [engRun] at h
      | pool id r d =>
        simp only [engRun] at h
        split at h
        · rename_i hr
          obtain ⟨h1, h2⟩ := ih rest h
          refine ⟨by simp; omega, ?_⟩
          intro e he
          simp only [List.take_succ_cons, List.mem_cons] at he
          rcases he with he | he
          · exact ⟨id, d, by rw [he, hr]⟩
          · exact h2 e he
        · split at h <;> cases h

theorem filterMap_poolId_length (l : List EEv) (h : ∀ e ∈ l, ∃ id d, e = .pool id .ok d) :
    (l.filterMap EEv.poolId).length = l.length := by
  induction l with
  | nil => rfl
  | cons e l ih =>
    obtain ⟨id, d, he⟩ := h e List.mem_cons_self
    subst he
    simp only [List.filterMap_cons, EEv.poolId, List.length_cons]
    rw [ih (fun e he => h e (List.mem_cons_of_mem _ he))]

/-- a nil result of `Engine.Run` over `n` pools that each send at most one result: EVERY pool's result was consumed,
and it was nil -/
theorem engRun_ok_all (n : Nat) (evs : List EEv) (hlt : ∀ id r d, EEv.pool id r d ∈ evs → id < n)
    (hnd : (evs.filterMap EEv.poolId).Nodup) (h : engRun n evs = some .ok) :
    ∀ i, i < n → ∃ d, EEv.pool i .ok d ∈ evs := by
  obtain ⟨hlen, htake⟩ := engRun_ok_take n evs h
  let ids := (evs.take n).filterMap EEv.poolId
  have hsub : ids.Sublist (evs.filterMap EEv.poolId) := (List.take_sublist n evs).filterMap _
  have hnd' : ids.Nodup := hsub.nodup hnd
  have hlen' : ids.length = n := by
    rw [filterMap_poolId_length _ htake, List.length_take]
    omega
  have hb : ∀ x ∈ ids, x < n := by
    intro x hx
    obtain ⟨e, he, hxe⟩ := List.mem_filterMap.1 hx
    obtain ⟨id, d, hed⟩ := htake e he
    subst hed
    simp only [EEv.poolId, Option.some.injEq] at hxe
    subst hxe
    exact hlt id .ok d (List.mem_of_mem_take he)
  intro i hi
  have hmem := nodup_covers n ids hnd' hb hlen' i hi
  obtain ⟨e, he, hie⟩ := List.mem_filterMap.1 hmem
  obtain ⟨id, d, hed⟩ := htake e he
  subst hed
  simp only [EEv.poolId, Option.some.injEq] at hie
  subst hie
  exact ⟨d, List.mem_of_mem_take he⟩

/-- whenever `Engine.Run` looks at its context after a pool failed, the context is done -/
def EngCancelled (evs : List EEv) : Prop := ∀ id r d, EEv.pool id r d ∈ evs → r ≠ .ok → d = true

theorem engRun_cancelled (n : Nat) (evs : List EEv) (hc : EngCancelled evs) (res : ERes)
    (h : engRun n evs = some res) : res = .ctx ∨ res = .ok := by
  induction n generalizing evs with
  | zero => simp [engRun] at h; exact Or.inr h.symm
  | succ n ih =>
    cases evs with
    | nil => simp [engRun] at h
    | cons e rest =>
      cases e with
      | ctxDone => simp [engRun] at h; exact Or.inl h.symm
      | pool id r d =>
        simp only [engRun] at h
        split at h
        · exact ih rest (fun id' r' d' hm => hc id' r' d' (List.mem_cons_of_mem _ hm)) h
        · rename_i hr
          have hd : d = true := hc id r d List.mem_cons_self hr
          subst hd
          simp at h
          exact Or.inl h.symm

/-! ### the engine's `sync.WaitGroup`: `Add(1)` per pool, `Done` = the pool's `onWaitDone` -/

/-- `Done` calls so far over all pools -/
def waitDoneSum : List State → Nat
  | [] => 0
  | s :: r => s.waitDone + waitDoneSum r

/-- the counter `Engine.Wait` blocks on; `none`: more `Done` than `Add` — "sync: negative WaitGroup counter" panic -/
def wgCounter (ss : List State) : Option Nat :=
  if waitDoneSum ss ≤ ss.length then some (ss.length - waitDoneSum ss) else none

theorem waitDoneSum_le (ss : List State) (h : ∀ s ∈ ss, s.waitDone ≤ 1) : waitDoneSum ss ≤ ss.length := by
  induction ss with
  | nil => simp [waitDoneSum]
  | cons s r ih =>
    have h1 := h s List.mem_cons_self
    have h2 := ih (fun t ht => h t (List.mem_cons_of_mem _ ht))
    simp [waitDoneSum]; omega

theorem waitDoneSum_eq (ss : List State) (h : ∀ s ∈ ss, s.waitDone = 1) : waitDoneSum ss = ss.length := by
  induction ss with
  | nil => simp [waitDoneSum]
  | cons s r ih =>
    have h1 := h s List.mem_cons_self
    have h2 := ih (fun t ht => h t (List.mem_cons_of_mem _ ht))
    simp [waitDoneSum]; omega

end Pandora.Proofs.C05
