/-
C02 round 6 — publication safety of a starting unlimited leaf (see `Model/C02Pub.lean`).
-/
import Pandora.Model.C02Pub

namespace Pandora.Proofs.C02R6
open Pandora.Model.C02.Pub

/-- the invariant of the source's orders: writer = [finish, flag], reader = [flag, finish] -/
def PubInv (v : Int) (st : USt) : Prop :=
  ((st.w = [.storeFinish, .storeStarted] ∧ st.sh.started = false) ∨
   (st.w = [.storeStarted] ∧ st.sh.finish = v ∧ st.sh.started = false) ∨
   (st.w = [] ∧ st.sh.finish = v)) ∧
  ((st.r = [.loadStarted, .loadFinish] ∧ st.seenStarted = none ∧ st.seenFinish = none) ∨
   (st.r = [.loadFinish] ∧ st.seenFinish = none ∧ ∃ b, st.seenStarted = some b ∧ (b = true → st.sh.finish = v)) ∨
   (st.r = [] ∧ ∃ b x, st.seenStarted = some b ∧ st.seenFinish = some x ∧ (b = true → x = v)))

theorem pub_step (v : Int) (st : USt) (b : Bool) (h : PubInv v st) : PubInv v (ustep v st b) := by
  obtain ⟨sh, w, r, ss, sf⟩ := st
  obtain ⟨st0, fin⟩ := sh
  obtain ⟨hw, hr⟩ := h
  simp only at hw hr
  cases b with
  | true =>
    rcases hw with ⟨rfl, rfl⟩ | ⟨rfl, rfl, rfl⟩ | ⟨rfl, rfl⟩
    · refine ⟨Or.inr (Or.inl ⟨rfl, rfl, rfl⟩), ?_⟩
      rcases hr with ⟨rfl, rfl, rfl⟩ | ⟨rfl, rfl, b, rfl, hb⟩ | ⟨rfl, b, x, rfl, rfl, hb⟩
      · exact Or.inl ⟨rfl, rfl, rfl⟩
      · exact Or.inr (Or.inl ⟨rfl, rfl, b, rfl, fun _ => rfl⟩)
      · exact Or.inr (Or.inr ⟨rfl, b, x, rfl, rfl, hb⟩)
    · refine ⟨Or.inr (Or.inr ⟨rfl, rfl⟩), ?_⟩
      rcases hr with ⟨rfl, rfl, rfl⟩ | ⟨rfl, rfl, b, rfl, hb⟩ | ⟨rfl, b, x, rfl, rfl, hb⟩
      · exact Or.inl ⟨rfl, rfl, rfl⟩
      · exact Or.inr (Or.inl ⟨rfl, rfl, b, rfl, fun _ => rfl⟩)
      · exact Or.inr (Or.inr ⟨rfl, b, x, rfl, rfl, hb⟩)
    · exact ⟨Or.inr (Or.inr ⟨rfl, rfl⟩), hr⟩
  | false =>
    rcases hr with ⟨rfl, rfl, rfl⟩ | ⟨rfl, rfl, b, rfl, hb⟩ | ⟨rfl, b, x, rfl, rfl, hb⟩
    · refine ⟨hw, Or.inr (Or.inl ⟨rfl, rfl, st0, rfl, ?_⟩)⟩
      intro hst
      rcases hw with ⟨_, h2⟩ | ⟨_, _, h2⟩ | ⟨_, h2⟩
      · rw [h2] at hst; cases hst
      · rw [h2] at hst; cases hst
      · exact h2
    · exact ⟨hw, Or.inr (Or.inr ⟨rfl, b, fin, rfl, rfl, hb⟩)⟩
    · exact ⟨hw, Or.inr (Or.inr ⟨rfl, b, x, rfl, rfl, hb⟩)⟩

theorem pub_run (v : Int) : ∀ (sched : List Bool) (st : USt), PubInv v st → PubInv v (urun v st sched)
  | [], _, h => h
  | b :: rest, st, h => pub_run v rest (ustep v st b) (pub_step v st b h)

/-- **with the orders of the source every interleaving of a starting caller and a `Left` shows `Left` a pair it could
have read atomically**: a raised flag comes with the finish time stored by the starting caller -/
theorem publish_safe (f0 v : Int) (sched : List Bool) (s : Bool) (f : Int)
    (hs : (urun v (uinit f0 [.storeFinish, .storeStarted] [.loadStarted, .loadFinish]) sched).seenStarted = some s)
    (hf : (urun v (uinit f0 [.storeFinish, .storeStarted] [.loadStarted, .loadFinish]) sched).seenFinish = some f) :
    s = true → f = v := by
  have h := pub_run v sched (uinit f0 [.storeFinish, .storeStarted] [.loadStarted, .loadFinish])
    ⟨Or.inl ⟨rfl, rfl⟩, Or.inl ⟨rfl, rfl, rfl⟩⟩
  rcases h.2 with ⟨_, h1, _⟩ | ⟨_, h1, _⟩ | ⟨_, b, x, hb, hx, hbx⟩
  · rw [h1] at hs; cases hs
  · rw [h1] at hf; cases hf
  · rw [hb] at hs; rw [hx] at hf
    cases hs; cases hf
    exact hbx

/-- … so what `Left` answers is what an ATOMIC `Left` answers before the start (-1) or after it -/
theorem left_atomic (f0 v : Int) (sched : List Bool) (s : Bool) (f now : Int)
    (hs : (urun v (uinit f0 [.storeFinish, .storeStarted] [.loadStarted, .loadFinish]) sched).seenStarted = some s)
    (hf : (urun v (uinit f0 [.storeFinish, .storeStarted] [.loadStarted, .loadFinish]) sched).seenFinish = some f) :
    leftOfView s f now = leftOfView false f0 now ∨ leftOfView s f now = leftOfView true v now := by
  cases s with
  | false => left; simp [leftOfView]
  | true => right; rw [publish_safe f0 v sched true f hs hf rfl]

end Pandora.Proofs.C02R6
