/-
C06 round 6 — helper lemmas for the shared standard output (Model/C06Shared), the cancel of the healthy pools after
a failure (Model/C06FailCancel) and the buffered writer's non-atomic Flush (Model/C06BufRace).
-/
import Pandora.Model.C06Shared
import Pandora.Model.C06FailCancel
import Pandora.Model.C06BufRace

namespace Pandora.Proofs.C06R6

/-! ### the shared standard output -/
section Shared
open Pandora.Model.C06Shared

/-- the code: an aggregator without destination never closes the standard output, and always flushes at the end -/
def codeCfg : Cfg := { closesShared := false, finalFlush := true }

theorem ofAgg_append (j : Nat) (a b : List Line) : ofAgg j (a ++ b) = ofAgg j a ++ ofAgg j b := by
  simp [ofAgg]

theorem ofAgg_own {j : Nat} {l : List Line} (h : ∀ e ∈ l, e.1 = j) : ofAgg j l = l := by
  unfold ofAgg
  apply List.filter_eq_self.mpr
  intro e he
  simp [h e he]

theorem ofAgg_other {j k : Nat} {l : List Line} (h : ∀ e ∈ l, e.1 = j) (hk : k ≠ j) : ofAgg k l = [] := by
  unfold ofAgg
  apply List.filter_eq_nil_iff.mpr
  intro e he
  have := h e he
  simp [this]
  exact fun h' => hk h'.symm

structure Inv (st : St) : Prop where
  isOpen : st.isOpen = true
  lost : st.lost = []
  acct : ∀ j, ofAgg j st.handled = ofAgg j st.out ++ st.buf j
  own : ∀ j, ∀ e ∈ st.buf j, e.1 = j
  doneEmpty : ∀ j, st.done j = true → st.buf j = []

theorem inv_init : Inv init := ⟨rfl, rfl, fun _ => rfl, fun _ _ h => by simp [init] at h, fun _ _ => rfl⟩

theorem inv_write {st : St} (h : Inv st) (j : Nat) : Inv (st.write j) := by
  unfold St.write
  rw [if_pos h.isOpen]
  refine ⟨h.isOpen, h.lost, ?_, ?_, ?_⟩
  · intro k
    by_cases hk : k = j
    · subst hk
      simp only [setAt, if_true, List.append_nil, ofAgg_append, ofAgg_own (h.own k)]
      exact h.acct k
    · simp only [setAt, if_neg hk, ofAgg_append, ofAgg_other (h.own j) hk, List.append_nil]
      exact h.acct k
  · intro k e he
    by_cases hk : k = j
    · simp [setAt, hk] at he
    · simp only [setAt, if_neg hk] at he
      exact h.own k e he
  · intro k hd
    by_cases hk : k = j
    · simp [setAt, hk]
    · simp only [setAt, if_neg hk]
      exact h.doneEmpty k hd

theorem inv_step {st : St} (h : Inv st) (e : Ev) : Inv (step codeCfg st e) := by
  cases e with
  | handle j x =>
    simp only [step]
    by_cases hd : st.done j = true
    · rw [if_pos hd]; exact h
    · rw [if_neg hd]
      refine ⟨h.isOpen, h.lost, ?_, ?_, ?_⟩
      · intro k
        by_cases hk : k = j
        · subst hk
          have : ofAgg k [(k, x)] = [(k, x)] := ofAgg_own (by simp)
          simp only [setAt, if_true, ofAgg_append, this, h.acct k, List.append_assoc]
        · have : ofAgg k [(j, x)] = [] := ofAgg_other (j := j) (by simp) hk
          simp only [setAt, if_neg hk, ofAgg_append, this, List.append_nil]
          exact h.acct k
      · intro k e he
        by_cases hk : k = j
        · subst hk
          simp only [setAt, if_true, List.mem_append, List.mem_singleton] at he
          rcases he with he | he
          · exact h.own k e he
          · simp [he]
        · simp only [setAt, if_neg hk] at he
          exact h.own k e he
      · intro k hdk
        by_cases hk : k = j
        · subst hk; exact absurd hdk hd
        · simp only [setAt, if_neg hk]
          exact h.doneEmpty k hdk
  | flush j =>
    simp only [step]
    by_cases hd : st.done j = true
    · rw [if_pos hd]; exact h
    · rw [if_neg hd]
      exact inv_write h j
  | finish j =>
    simp only [step]
    by_cases hd : st.done j = true
    · rw [if_pos hd]; exact h
    · have hw := inv_write h j
      rw [if_neg hd]
      simp only [codeCfg, if_true]
      refine ⟨by simp [hw.isOpen], hw.lost, hw.acct, hw.own, ?_⟩
      intro k hdk
      by_cases hk : k = j
      · subst hk
        simp [St.write, h.isOpen, setAt]
      · simp only [setAt, if_neg hk] at hdk
        exact hw.doneEmpty k hdk

theorem inv_run (trace : List Ev) : ∀ {st : St}, Inv st → Inv (run codeCfg st trace) := by
  induction trace with
  | nil => intro st h; exact h
  | cons e es ih => intro st h; exact ih (inv_step h e)

end Shared

/-! ### who cancels the healthy pools -/
section FailCancel
open Pandora.Model.C06FailCancel

structure FInv (cfg : Cfg) (st : St) : Prop where
  i1 : st.errsTaken = true → st.engineReturned = true
  i2 : st.engineReturned = true → cfg.engineCancels = true → st.cancelled = true
  i3 : st.errsTaken = true → cfg.cliCancels = true → st.cancelled = true
  i4 : st.runEngineDone = true → cfg.runEngineCancels = true → st.cancelled = true
  i5 : st.runEngineDone = true → st.errsTaken = true

theorem finv_init (cfg : Cfg) (n : Nat) (se : Nat → Bool) : FInv cfg (init n se) :=
  ⟨by simp [init], by simp [init], by simp [init], by simp [init], by simp [init]⟩

theorem finv_step {cfg : Cfg} {st : St} (h : FInv cfg st) (e : Ev) : FInv cfg (step cfg st e) := by
  obtain ⟨h1, h2, h3, h4, h5⟩ := h
  cases e <;> simp only [step] <;> split <;> (try exact ⟨h1, h2, h3, h4, h5⟩) <;>
    refine ⟨?_, ?_, ?_, ?_, ?_⟩ <;> simp_all <;> grind

theorem finv_run {cfg : Cfg} (trace : List Ev) : ∀ {st : St}, FInv cfg st → FInv cfg (run cfg st trace) := by
  induction trace with
  | nil => intro st h; exact h
  | cons e es ih => intro st h; exact ih (finv_step h e)

/-- nobody cancels, pool 1 is healthy and its schedule goes on: it never ends, every exit is without its flush -/
structure NInv (st : St) : Prop where
  n2 : st.n = 2
  se : st.selfEnding 1 = false
  canc : st.cancelled = false
  nf : st.failed 1 = false
  ne : st.ended 1 = false
  ex : ∀ x, st.exit = some x → x = false

def noCancel : Cfg := { engineCancels := false, cliCancels := false, runEngineCancels := false }

theorem allEnded_false {st : St} (hn : st.n = 2) (he : st.ended 1 = false) : st.allEnded = false := by
  simp [St.allEnded, hn, List.range, List.range.loop, he]

theorem ninv_step {st : St} (h : NInv st) (e : Ev) (he : e ≠ .poolFails 1) : NInv (step noCancel st e) := by
  obtain ⟨hn, hse, hc, hf, hen, hex⟩ := h
  have hall := allEnded_false hn hen
  cases e with
  | poolFails j =>
    have hj : j ≠ 1 := fun h => he (by rw [h])
    simp only [step]
    split
    · exact ⟨hn, hse, hc, by simp [setAt, hf]; intro h; exact absurd h.symm hj, hen, hex⟩
    · exact ⟨hn, hse, hc, hf, hen, hex⟩
  | poolEnds j =>
    simp only [step]
    split
    · rename_i hcond
      refine ⟨hn, hse, hc, hf, ?_, hex⟩
      by_cases hj : j = 1
      · subst hj; simp [hc, hf, hse] at hcond
      · simp [setAt, hen]; exact fun h => hj h.symm
    · exact ⟨hn, hse, hc, hf, hen, hex⟩
  | engineReturns =>
    simp only [step]; split
    · exact ⟨hn, hse, by simp [hc, noCancel], hf, hen, hex⟩
    · exact ⟨hn, hse, hc, hf, hen, hex⟩
  | takeErrs =>
    simp only [step]; split
    · exact ⟨hn, hse, by simp [hc, noCancel], hf, hen, hex⟩
    · exact ⟨hn, hse, hc, hf, hen, hex⟩
  | runEngineReturns =>
    simp only [step]; split
    · exact ⟨hn, hse, by simp [hc, noCancel], hf, hen, hex⟩
    · exact ⟨hn, hse, hc, hf, hen, hex⟩
  | timerFires =>
    simp only [step]; split
    · exact ⟨hn, hse, hc, hf, hen, by intro x hx; simp [hall] at hx; first | exact hx | exact hx.symm⟩
    · exact ⟨hn, hse, hc, hf, hen, hex⟩
  | waitReturns =>
    simp only [step]; split
    · rename_i hcond; simp [hall] at hcond
    · exact ⟨hn, hse, hc, hf, hen, hex⟩

theorem ninv_run (trace : List Ev) : ∀ {st : St}, NInv st → (∀ e ∈ trace, e ≠ .poolFails 1) →
    NInv (run noCancel st trace) := by
  induction trace with
  | nil => intro st h _; exact h
  | cons e es ih =>
    intro st h hne
    exact ih (ninv_step h e (hne e (by simp))) (fun e' he' => hne e' (by simp [he']))

end FailCancel

/-! ### the buffered writer -/
section BufRace
open Pandora.Model.C06BufRace

theorem seq_ok : ∀ (tr : List Ev) (st : St), Sequential tr → st.flushing = none → st.err = false →
    st.out ++ st.buf = st.written →
    (run st tr).flushing = none ∧ (run st tr).err = false ∧ (run st tr).out ++ (run st tr).buf = (run st tr).written ∧
    (run st tr).refused = st.refused
  | [], st, _, hf, he, hw => ⟨hf, he, hw, rfl⟩
  | .write x :: rest, st, hs, hf, he, hw => by
      have hs' : Sequential rest := by simpa [Sequential] using hs
      have := seq_ok rest (step st (.write x)) hs' (by simp [step, he, hf]) (by simp [step, he])
        (by simp [step, he, ← hw])
      simpa [run, step, he] using this
  | .flushEnd :: rest, st, hs, hf, he, hw => by
      have hs' : Sequential rest := by simpa [Sequential] using hs
      have hst : step st .flushEnd = st := by simp [step, hf]
      simpa [run, hst] using seq_ok rest st hs' hf he hw
  | [.flushBegin], st, hs, _, _, _ => by simp [Sequential] at hs
  | .flushBegin :: .write x :: rest, st, hs, _, _, _ => by simp [Sequential] at hs
  | .flushBegin :: .flushBegin :: rest, st, hs, _, _, _ => by simp [Sequential] at hs
  | .flushBegin :: .flushEnd :: rest, st, hs, hf, he, hw => by
      have hs' : Sequential rest := by simpa [Sequential] using hs
      by_cases hb : st.buf.isEmpty = true
      · have h1 : step st .flushBegin = st := by simp [step, he, hf, hb]
        have h2 : step st .flushEnd = st := by simp [step, hf]
        simpa [run, h1, h2] using seq_ok rest st hs' hf he hw
      · have h1 : step (step st .flushBegin) .flushEnd =
            { st with flushing := none, buf := [], out := st.out ++ st.buf } := by
          simp [step, he, hf, hb]
        have := seq_ok rest { st with flushing := none, buf := [], out := st.out ++ st.buf } hs' (by simp)
          (by simpa using he) (by simpa using hw)
        simpa [run, h1] using this

end BufRace

end Pandora.Proofs.C06R6
