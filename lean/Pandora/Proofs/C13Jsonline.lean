/-
C13 — helper lemmas about the jsonline decoder model (Model/C13Jsonline.lean): the object stream of one pass,
`scanAmmos` (array mode) under `runFullScan`.
-/
import Pandora.Model.C13Jsonline
import Pandora.Proofs.C13Ammo
import Pandora.Proofs.C13Base
import Pandora.Proofs.C13Multi

namespace Pandora.Proofs.C13
open Pandora.Model.C13

/-! ### the object stream -/

theorem jlItems_end_clean (items : List JItem) : End.clean (jlItems items).end_ := by
  induction items with
  | nil => simp [jlItems, End.clean]
  | cons i rest ih =>
    cases i with
    | good t => simpa [jlItems, Run.cons] using ih
    | bad => simp [jlItems, End.clean]

theorem jlItems_append (l1 l2 : List JItem) (h : (jlItems l1).end_ = .ok) :
    jlItems (l1 ++ l2) = (jlItems l2).prepend (jlItems l1).entries := by
  induction l1 with
  | nil => simp [jlItems, Run.prepend]
  | cons i rest ih =>
    cases i with
    | good t =>
      have h' : (jlItems rest).end_ = .ok := by simpa [jlItems, Run.cons] using h
      simp only [List.cons_append, jlItems]
      rw [ih h']
      simp [Run.cons, Run.prepend]
    | bad => simp [jlItems] at h

/-- objects the loop got through, then a value that is refused: the entries of the objects, then the error -/
theorem jlItems_reject (pre : List JItem) (post : List JItem) (h : (jlItems pre).end_ = .ok) :
    jlItems (pre ++ .bad :: post) = ⟨(jlItems pre).entries, .err "other", []⟩ := by
  rw [jlItems_append pre _ h]
  simp [jlItems, Run.prepend]

/-- a stream of well-formed objects only -/
theorem jlItems_goods (tags : List Bytes) :
    jlItems (tags.map .good) = ⟨tags.map fun t => ⟨t, [], []⟩, .ok, []⟩ := by
  induction tags with
  | nil => rfl
  | cons t rest ih => simp [jlItems, ih, Run.cons]

/-! ### `scanAmmos` -/

theorem natCast_tmod (a b : Nat) : Int.tmod (a : Int) (b : Int) = ((a % b : Nat) : Int) := by
  rw [Int.tmod_eq_emod_of_nonneg (by omega)]
  exact (Int.natCast_emod a b).symm

/-- `int(d.ammoNum) % length` is not a division by zero and `d.ammos[i]` is inside the slice: whatever the array, the
pass limit and the counters -/
theorem scanAmmos_no_panic (elems : List Bytes) (passes : Nat) (s : JlArr) :
    (scanAmmos elems passes s).1 ≠ .panic := by
  unfold scanAmmos
  simp only
  split
  · simp
  · rename_i hlen
    split
    · simp
    · have hpos : (0 : Int) < (elems.length : Int) := by omega
      rw [tmodC_ok _ _ hlen]
      simp only
      have h0 : 0 ≤ Int.tmod (s.ammoNum : Int) (elems.length : Int) := Int.tmod_nonneg _ (by omega)
      have h1 : Int.tmod (s.ammoNum : Int) (elems.length : Int) < (elems.length : Int) := Int.tmod_lt_of_pos _ hpos
      obtain ⟨a, ha⟩ := indexC_ok elems _ h0 h1
      rw [ha]
      simp

/-- the counters of `scanAmmos` say where in the array the decoder stands: `ammoNum = passNum × length + r`, `r < length` -/
def JlArr.Inv (len : Nat) (s : JlArr) : Prop := ∃ r, r < len ∧ s.ammoNum = s.passNum * len + r

theorem JlArr.init_Inv (len : Nat) (h : 0 < len) : JlArr.Inv len ⟨0, 0⟩ := ⟨0, h, by simp⟩

/-- an ammo is handed out only below the pass limit, and the counters keep describing the position -/
theorem scanAmmos_ammo (elems : List Bytes) (passes : Nat) (s s' : JlArr) (t : Bytes)
    (hinv : JlArr.Inv elems.length s) (h : scanAmmos elems passes s = (.ammo t, s')) :
    JlArr.Inv elems.length s' ∧ s'.ammoNum = s.ammoNum + 1 ∧ (passes = 0 ∨ s.passNum < passes) ∧ t ∈ elems := by
  obtain ⟨r, hr, heq⟩ := hinv
  unfold scanAmmos at h
  simp only at h
  split at h
  · simp at h
  · rename_i hlen
    split at h
    · simp at h
    · rename_i hpass
      rw [tmodC_ok _ _ hlen] at h
      simp only at h
      have hmod : s.ammoNum % elems.length = r := by
        rw [heq, Nat.mul_add_mod_self_right, Nat.mod_eq_of_lt hr]
      rw [natCast_tmod, hmod] at h
      split at h
      · rename_i a ha
        simp only [Prod.mk.injEq, ScanRes.ammo.injEq] at h
        obtain ⟨hat, hs'⟩ := h
        subst hs'
        refine ⟨?_, rfl, ?_, ?_⟩
        · by_cases hlast : (r : Int) = (elems.length : Int) - 1
          · refine ⟨0, by omega, ?_⟩
            simp only [hlast, if_true]
            have : r + 1 = elems.length := by omega
            rw [Nat.succ_mul, heq]
            omega
          · refine ⟨r + 1, by omega, ?_⟩
            simp only [hlast, if_false]
            omega
        · by_cases hp : passes = 0
          · exact .inl hp
          · right
            have : ¬ s.passNum ≥ passes := fun hge => hpass ⟨hp, hge⟩
            omega
        · subst hat
          unfold indexC at ha
          split at ha
          · split at ha
            · rename_i a' hget
              simp only [Res.ok.injEq] at ha
              subst ha
              exact List.mem_of_getElem? hget
            · simp at ha
          · simp at ha
      · simp at h

/-! ### `runFullScan` over `scanAmmos` -/

theorem jlArrayLoop_no_panic (elems : List Bytes) (passes limit : Nat) :
    ∀ (fuel : Nat) (s : JlArr) (n : Nat) (acc : List Entry),
      (jlArrayLoop elems passes limit fuel s n acc).end_ ≠ .panic ∧
      (jlArrayLoop elems passes limit fuel s n acc).end_ ≠ .fatal := by
  intro fuel
  induction fuel with
  | zero => intro s n acc; simp [jlArrayLoop]
  | succ fuel ih =>
    intro s n acc
    unfold jlArrayLoop
    split
    · simp
    · split
      · simp
      · have hnp := scanAmmos_no_panic elems passes s
        cases hr : scanAmmos elems passes s with
        | mk r s' =>
          rw [hr] at hnp
          cases r with
          | ammo t => exact ih s' (n + 1) _
          | passLimit => simp only; split <;> simp
          | noAmmo => simp
          | panic => simp at hnp

/-- with a limit: every `Scan` that does not end the run delivers an ammo -/
theorem jlArrayLoop_no_fuel_limit (elems : List Bytes) (passes limit : Nat) (hl : limit ≠ 0) :
    ∀ (fuel : Nat) (s : JlArr) (n : Nat) (acc : List Entry), limit - n + 1 ≤ fuel →
      (jlArrayLoop elems passes limit fuel s n acc).end_ ≠ .fuel := by
  intro fuel
  induction fuel with
  | zero => intro s n acc h; omega
  | succ fuel ih =>
    intro s n acc hf
    unfold jlArrayLoop
    split
    · simp
    · rename_i hlim
      split
      · simp
      · cases hr : scanAmmos elems passes s with
        | mk r s' =>
          cases r with
          | ammo t =>
            refine ih s' (n + 1) _ ?_
            have : n < limit := by
              rcases Nat.lt_or_ge n limit with h | h
              · exact h
              · exact absurd ⟨hl, h⟩ hlim
            omega
          | passLimit => simp only; split <;> simp
          | noAmmo => simp
          | panic => simp

/-- with a pass limit: at most `passes × length` ammo are handed out -/
theorem jlArrayLoop_no_fuel_passes (elems : List Bytes) (passes limit : Nat) (hp : passes ≠ 0) :
    ∀ (fuel : Nat) (s : JlArr) (n : Nat) (acc : List Entry), JlArr.Inv elems.length s →
      passes * elems.length - s.ammoNum + 1 ≤ fuel →
      (jlArrayLoop elems passes limit fuel s n acc).end_ ≠ .fuel := by
  intro fuel
  induction fuel with
  | zero => intro s n acc _ h; omega
  | succ fuel ih =>
    intro s n acc hinv hf
    unfold jlArrayLoop
    split
    · simp
    · split
      · simp
      · cases hr : scanAmmos elems passes s with
        | mk r s' =>
          cases r with
          | ammo t =>
            obtain ⟨hinv', hnum, hlt, _⟩ := scanAmmos_ammo elems passes s s' t hinv hr
            refine ih s' (n + 1) _ hinv' ?_
            obtain ⟨r, hr', heq⟩ := hinv
            have hlt' : s.passNum < passes := by
              rcases hlt with h | h
              · exact absurd h hp
              · exact h
            have h1 : (s.passNum + 1) * elems.length ≤ passes * elems.length := Nat.mul_le_mul_right _ hlt'
            rw [Nat.succ_mul] at h1
            omega
          | passLimit => simp only; split <;> simp
          | noAmmo => simp
          | panic => simp

/-- everything `runFullScan` delivers in array mode is an element of the array -/
theorem jlArrayLoop_entries (elems : List Bytes) (passes limit : Nat) :
    ∀ (fuel : Nat) (s : JlArr) (n : Nat) (acc : List Entry), JlArr.Inv elems.length s →
      (∀ e ∈ acc, e.tag ∈ elems) →
      ∀ e ∈ (jlArrayLoop elems passes limit fuel s n acc).entries, e.tag ∈ elems := by
  intro fuel
  induction fuel with
  | zero => intro s n acc _ hacc e he; simp [jlArrayLoop] at he; exact hacc e he
  | succ fuel ih =>
    intro s n acc hinv hacc
    unfold jlArrayLoop
    split
    · intro e he; simp at he; exact hacc e he
    · split
      · intro e he; simp at he; exact hacc e he
      · cases hr : scanAmmos elems passes s with
        | mk r s' =>
          cases r with
          | ammo t =>
            obtain ⟨hinv', _, _, hmem⟩ := scanAmmos_ammo elems passes s s' t hinv hr
            refine ih s' (n + 1) _ hinv' ?_
            intro e he
            simp at he
            rcases he with rfl | he
            · exact hmem
            · exact hacc e he
          | passLimit => intro e he; simp at he; exact hacc e he
          | noAmmo => intro e he; simp at he; exact hacc e he
          | panic => intro e he; simp at he; exact hacc e he

/-! ### the whole provider -/

theorem jlArrayRun_nil (passes limit : Nat) : jlArrayRun [] passes limit = ⟨[], .err "noammo", []⟩ := by
  unfold jlArrayRun jlArrayLoop
  by_cases hl : limit ≠ 0
  · simp [hl, scanAmmos]
  · simp [hl, scanAmmos]

/-- how a run over repeated passes can end: well, as the single pass ends, with "no ammo" - or out of fuel -/
theorem multiRun_end_cases (one : Run) (passes limit : Nat) : ∀ (fuel passNum done : Nat),
    (multiRun one passes limit fuel passNum done).end_ = .ok ∨ (multiRun one passes limit fuel passNum done).end_ = one.end_ ∨
    (multiRun one passes limit fuel passNum done).end_ = .fuel ∨ (multiRun one passes limit fuel passNum done).end_ = .err "noammo" := by
  intro fuel
  induction fuel with
  | zero => intro passNum done; simp [multiRun]
  | succ fuel ih =>
    intro passNum done
    unfold multiRun
    split
    · simp
    · split
      · simp
      · split
        · rename_i e he
          unfold httpPassEnd at he
          split at he
          · cases he; simp
          · split at he
            · cases he; simp
            · cases he
        · rw [prepend_end]
          exact ih _ _

theorem jsonlineRun_stream_one_clean (items : List JItem) (pre : Bool) :
    End.clean (if pre = true ∧ (jlItems items).end_ ≠ .ok then { jlItems items with entries := [] } else jlItems items).end_ := by
  split
  · exact jlItems_end_clean items
  · exact jlItems_end_clean items

end Pandora.Proofs.C13
