/-
C01 round 6 — composition schedule → Waiter → instance loop (read-only imports of C04's model).

C04 proves "no request is fired before its scheduled time" for ANY token sequence the environment hands to the Waiter
(`Model.C04.runLoop` over a history of passes whose `env.tok` is free; `Bridge.Waiter` ties `Wait`, `IsFinished`, the pass
of `instance.Run` to the current source).  C01 proves which instants the REGENERATED schedule hands out.  Here the two
are put together into one closed system: the token of every pass is what the regenerated `doAtSchedule` methods answer
when they are called where `instance.Run` / `Waiter` call them — `Left()` at the loop head (`IsFinished`), `Next()` inside
`Wait` unless the context is already done at its entry `select` — and the theorems say which operations of the profile
are acted on, in which order, and not before which instant.
-/
import Pandora.Bridge.C01
import Pandora.Bridge.Waiter
import Pandora.Proofs.C04

set_option linter.unusedVariables false
set_option linter.unusedSimpArgs false

namespace Pandora.Proofs.C01R6Wait
open Pandora Pandora.Gen.Schedule Pandora.Bridge.C01 Pandora.Model.C04 Pandora.Proofs.C04 Pandora.Go.C04

/-- The passes of the loop of `instance.Run` as the Waiter sees them when its schedule is the regenerated leaf in state
`s`: from each record of the history only what the WORLD decides is kept (context done at the loop head — read from
`it.finished` —, ammo available, context done at `Wait`'s entry, clock readings, timer outcome, instants); `finished` is
the regenerated `IsFinished` of the regenerated `Left()`, `env.tok` is the regenerated `Next()` (called with the clock
reading `env.pick`), which is NOT called when the context is done at `Wait`'s entry.  `Except.error` = a panic. -/
def feed : DoAtSt → List Iter → Except String (List Iter)
  | _, [] => .ok []
  | s, it :: rest =>
    match doAtSchedule_Left s with
    | .error e => .error e
    | .ok (left, s) =>
      if Gen.Waiter.IsFinished it.finished left then .ok [{ it with finished := true }]
      else if !it.ammoOk then .ok [{ it with finished := false }]
      else if it.env.ctxDone then
        match feed s rest with
        | .error e => .error e
        | .ok rs => .ok ({ it with finished := false, env := { it.env with tok := none } } :: rs)
      else
        match doAtSchedule_Next it.env.pick s with
        | .error e => .error e
        | .ok (r, s) =>
          match feed s rest with
          | .error e => .error e
          | .ok rs =>
            .ok ({ it with finished := false, env := { it.env with tok := if r.2 then some r.1 else none } } :: rs)

/-- scheduled instants of the actions (Shoot or Report of a discarded sample) of a run, in the order they happen -/
def evToks (evs : List Ev) : List ℤ := evs.filterMap (fun ev => ev.iter.env.tok)

/-- the instants of operations m, m+1, …, n−1 of a leaf started at `t0` -/
def profToks (n : ℤ) (f : ℤ → ℤ) (t0 : ℤ) (m : ℕ) : List ℤ :=
  (List.range' m (n.toNat - m)).map (fun (k : ℕ) => t0 + f (k : ℤ))

theorem profToks_cons (n : ℤ) (f : ℤ → ℤ) (t0 : ℤ) (m : ℕ) (h : (m : ℤ) < n) :
    profToks n f t0 m = (t0 + f (m : ℤ)) :: profToks n f t0 (m + 1) := by
  unfold profToks
  have e : n.toNat - m = (n.toNat - (m + 1)) + 1 := by omega
  rw [e, List.range'_succ]
  simp

/-- every action happens at an instant ≥ the scheduled time of its token (C04's `C04_no_early`, for the repaired `Wait`;
re-proved from `Proofs.C04.waitV_ok` so that Props/C04 is not a dependency of C01's build) -/
theorem no_early (d : Bool) : ∀ (h : List Iter) (w : Waiter), ClockOK w h →
    ∀ ev ∈ (runLoop .fresh d w h).1, ∃ next, ev.iter.env.tok = some next ∧ next ≤ ev.iter.env.ret := by
  intro h
  induction h with
  | nil => intro w _ ev hev; simp [runLoop] at hev
  | cons it rest ih =>
    intro w hc ev hev
    unfold runLoop at hev
    by_cases hf : it.finished = true
    · simp [hf] at hev
    · by_cases ha : it.ammoOk = true
      · simp only [hf, ha] at hev
        by_cases hk : (waitV .fresh w it.env).ok = true
        · simp only [hk] at hev
          simp at hev
          rcases hev with rfl | hev
          · obtain ⟨next, h1, h2, _⟩ := waitV_ok .fresh w it.env hc.head.1 hc.head.2 hk
            refine ⟨next, ?_, ?_⟩ <;> (split <;> simpa [Ev.iter])
          · exact ih _ (hc.tail .fresh) ev hev
        · simp [hk] at hev
          exact ih _ (hc.tail .fresh) ev hev
      · simp [hf, ha] at hev

theorem evToks_cons_some (ev : Ev) (evs : List Ev) (t : ℤ) (h : ev.iter.env.tok = some t) :
    evToks (ev :: evs) = t :: evToks evs := by
  simp [evToks, List.filterMap_cons, h]

/-- **which operations are acted on**: a leaf `doAt D n f` started at `t0` that has handed out `m` operations, under one
instance loop with ANY world history `h`: the regenerated methods never panic, and the scheduled instants of the
actions, in the order the actions happen, are a SUBSEQUENCE of `t0 + f m, t0 + f (m+1), …, t0 + f (n−1)` — operations
are acted on in profile order, each at most once, none beyond the count `n`; the `(start + D, false)` answer is never even
requested (the loop asks `Left()` first). -/
theorem feed_started (d : Bool) (D n : ℤ) (f : ℤ → ℤ) (t0 : ℤ) : ∀ (h : List Iter) (m : ℕ),
    ∃ h', feed (startedSt D n f t0 m) h = .ok h' ∧ h'.length ≤ h.length ∧
      ∀ w : Waiter, (evToks (runLoop .fresh d w h').1).Sublist (profToks n f t0 m) := by
  intro h
  induction h with
  | nil => intro m; exact ⟨[], rfl, le_refl _, fun w => by simp [runLoop, evToks]⟩
  | cons it rest ih =>
    intro m
    simp only [feed, left_started, Bridge.Waiter.IsFinished_eq]
    generalize hL : (if n - (m : ℤ) < 0 then (0 : ℤ) else n - (m : ℤ)) = L
    by_cases hfin : isFinished it.finished L = true
    · refine ⟨[{ it with finished := true }], by simp [hfin], by simp, fun w => ?_⟩
      simp [runLoop, evToks]
    · have hfin' : isFinished it.finished L = false := by simpa using hfin
      -- not finished: the context is not done at the head and something is left: m < n
      have hmn : (m : ℤ) < n := by
        unfold isFinished at hfin'
        by_cases hc : it.finished = true
        · simp [hc] at hfin'
        · simp only [hc] at hfin'
          have hne : L ≠ 0 := by simpa using hfin'
          by_cases hl : n - (m : ℤ) < 0
          · simp [hl] at hL; omega
          · simp only [hl, if_false] at hL
            omega
      by_cases ha : it.ammoOk = true
      · by_cases hcd : it.env.ctxDone = true
        · obtain ⟨rs, hrs, hlen, hsub⟩ := ih m
          refine ⟨{ it with finished := false, env := { it.env with tok := none } } :: rs,
            by simp [hfin', ha, hcd, hrs], by simp; omega, fun w => ?_⟩
          have hw : (waitV .fresh w { it.env with tok := none }).ok = false := by
            simp [waitV, hcd]
          rw [runLoop]
          simp only [ha, hw]
          simpa using hsub _
        · obtain ⟨rs, hrs, hlen, hsub⟩ := ih (m + 1)
          have hnm : ¬ n ≤ (m : ℤ) := by omega
          refine ⟨{ it with finished := false, env := { it.env with tok := some (t0 + f (m : ℤ)) } } :: rs,
            by simp [hfin', ha, hcd, next_started, hnm, hrs], by simp; omega, fun w => ?_⟩
          rw [profToks_cons n f t0 m hmn, runLoop]
          simp only [ha]
          by_cases hk : (waitV .fresh w { it.env with tok := some (t0 + f (m : ℤ)) }).ok = true
          · simp only [hk]
            simp only [Bool.not_true, Bool.false_eq_true, if_false]
            rw [evToks_cons_some _ _ (t0 + f (m : ℤ)) (by split <;> simp [Ev.iter])]
            exact List.Sublist.cons_cons _ (hsub _)
          · simp only [hk]
            simp only [Bool.not_false, if_true]
            exact List.Sublist.cons _ (hsub _)
      · refine ⟨[{ it with finished := false }], by simp [hfin', ha], by simp, fun w => ?_⟩
        simp [runLoop, ha, evToks]

/-- a world in which nothing interferes: the context is never done, ammo is always there, every timer fires -/
def CalmIter (it : Iter) : Prop :=
  it.finished = false ∧ it.ammoOk = true ∧ it.env.ctxDone = false ∧ it.env.timerWins = true

/-- in a calm world a successful… every `Wait` that draws a token returns true -/
theorem waitV_calm (w : Waiter) (e : Env) (t : ℤ) (h1 : e.ctxDone = false) (h2 : e.timerWins = true) :
    (waitV .fresh w { e with tok := some t }).ok = true := by
  unfold waitV
  simp only [h1, Bool.false_eq_true, if_false]
  by_cases ha : timeSub t w.lastNow ≤ 0
  · simp [ha]
  · simp only [ha, if_false]
    by_cases hb : timeSub t e.now ≤ 0
    · simp [hb]
    · simp [hb, h2]

/-- **all of them, when nothing interferes**: in a calm world with at least `n − m` passes, EVERY remaining operation is
acted on, in order: the scheduled instants of the actions are exactly `t0 + f m, …, t0 + f (n−1)`; with one pass more the
loop ends by itself (`Left() == 0`). -/
theorem feed_started_calm (d : Bool) (D n : ℤ) (f : ℤ → ℤ) (t0 : ℤ) : ∀ (h : List Iter) (m : ℕ),
    (∀ it ∈ h, CalmIter it) → n.toNat - m ≤ h.length →
    ∃ h', feed (startedSt D n f t0 m) h = .ok h' ∧
      ∀ w : Waiter, evToks (runLoop .fresh d w h').1 = profToks n f t0 m ∧
        (n.toNat - m < h.length → (runLoop .fresh d w h').2 = Exit.loopEnd) := by
  intro h
  induction h with
  | nil =>
      intro m _ hlen
      refine ⟨[], rfl, fun w => ⟨?_, fun hl => by simp at hl⟩⟩
      have : n.toNat - m = 0 := by simpa using hlen
      simp [runLoop, evToks, profToks, this]
  | cons it rest ih =>
    intro m hcalm hlen
    obtain ⟨c1, c2, c3, c4⟩ := hcalm it (by simp)
    simp only [feed, left_started, Bridge.Waiter.IsFinished_eq]
    generalize hL : (if n - (m : ℤ) < 0 then (0 : ℤ) else n - (m : ℤ)) = L
    by_cases hmn : (m : ℤ) < n
    · have hfin' : isFinished it.finished L = false := by
        have h1 : ¬ (n - (m : ℤ) < 0) := by omega
        simp only [h1, if_false] at hL
        have h2 : ¬ (L = 0) := by omega
        simp [isFinished, c1, h2]
      have hnm : ¬ n ≤ (m : ℤ) := by omega
      have hlen' : n.toNat - (m + 1) ≤ rest.length := by simp at hlen; omega
      obtain ⟨rs, hrs, hall⟩ := ih (m + 1) (fun x hx => hcalm x (by simp [hx])) hlen'
      refine ⟨{ it with finished := false, env := { it.env with tok := some (t0 + f (m : ℤ)) } } :: rs,
        by simp [hfin', c2, c3, next_started, hnm, hrs], fun w => ?_⟩
      have hk := waitV_calm w it.env (t0 + f (m : ℤ)) c3 c4
      rw [profToks_cons n f t0 m hmn, runLoop]
      simp only [c2, hk]
      simp only [Bool.not_true, Bool.false_eq_true, if_false]
      obtain ⟨hall1, hall2⟩ := hall (waitV .fresh w { it.env with tok := some (t0 + f (m : ℤ)) }).w
      refine ⟨?_, ?_⟩
      · rw [evToks_cons_some _ _ (t0 + f (m : ℤ)) (by split <;> simp [Ev.iter]), hall1]
      · intro hl
        have : n.toNat - (m + 1) < rest.length := by simp at hl; omega
        exact hall2 this
    · have hfin : isFinished it.finished L = true := by
        by_cases h1 : n - (m : ℤ) < 0
        · simp only [h1, if_true] at hL
          simp [isFinished, c1, ← hL]
        · simp only [h1, if_false] at hL
          have : L = 0 := by omega
          simp [isFinished, c1, this]
      refine ⟨[{ it with finished := true }], by simp [hfin], fun w => ?_⟩
      have h0 : n.toNat - m = 0 := by omega
      simp [runLoop, evToks, profToks, h0]

end Pandora.Proofs.C01R6Wait
