/-
C17 — lemmas about the decoder model: unfolding equations, key lookup, error propagation.
-/
import Pandora.Model.C17

namespace Pandora.Proofs.C17
open Pandora.Model.C17

/-! ## results -/

/-- a decoding error now, or at the first call of a factory created here -/
def R.failed (r : R) : Prop := r.errs ≠ [] ∨ r.later ≠ []

def FR.failed (r : FR) : Prop := r.errs ≠ [] ∨ r.later ≠ []

theorem append_ne_nil_left {α} {a b : List α} (h : a ≠ []) : a ++ b ≠ [] := by
  cases a with
  | nil => exact absurd rfl h
  | cons x xs => simp

theorem append_ne_nil_right {α} {a b : List α} (h : b ≠ []) : a ++ b ≠ [] := by
  cases b with
  | nil => exact absurd rfl h
  | cons x xs => simp

/-! ## unfolding -/

theorem decode_struct_map (fl : Flags) (env : Env) (fs : Fields) (kvs : List (Str × Val)) :
    decode fl env (.struct fs) (.map kvs) =
      { val := .struct (decodeFlat fl env fs kvs).vals
        errs := (decodeFlat fl env fs kvs).errs ++
          (if fl.errorUnused && !(kvs.filter fun kv => !(decodeFlat fl env fs kvs).used.contains kv.1).isEmpty
            then [.unused] else [])
        later := (decodeFlat fl env fs kvs).later
        vfail := (decodeFlat fl env fs kvs).vfail } := by
  simp [decode]

theorem decode_ptr (fl : Flags) (env : Env) (n : Bool) (s : Schema) (v : Val) (h : v ≠ .null)
    (hs : ∀ str, v ≠ .str str) :
    decode fl env (.ptr n s) v = { decode fl env s v with val := .ptr (decode fl env s v).val } := by
  cases v <;> simp_all [decode]

/-- a text at a pointer position: the hooks see the pointer target first (round 6) -/
theorem decode_ptr_str (fl : Flags) (env : Env) (n : Bool) (s : Schema) (str : Str) :
    decode fl env (.ptr n s) (.str str) =
      match injectOther env str with
      | .error e => R.fail (keep false (.ptr n s)).val e
      | .ok _ => { decode fl env s (.str str) with val := .ptr (decode fl env s (.str str)).val } := by
  simp only [decode]
  cases injectOther env str <;> rfl

/-- whatever fails / is rejected below a pointer fails / is rejected at the pointer -/
theorem ptr_errs_later (fl : Flags) (env : Env) (n : Bool) (s : Schema) (v : Val) (h : v ≠ .null) :
    ((decode fl env s v).errs ≠ [] → (decode fl env (.ptr n s) v).errs ≠ []) ∧
    ((decode fl env s v).later ≠ [] → (decode fl env (.ptr n s) v).errs ≠ [] ∨ (decode fl env (.ptr n s) v).later ≠ []) ∧
    ((decode fl env s v).vfail = true → (decode fl env (.ptr n s) v).errs ≠ [] ∨ (decode fl env (.ptr n s) v).vfail = true) := by
  by_cases hs : ∀ str, v ≠ .str str
  · rw [decode_ptr fl env n s v h hs]
    exact ⟨id, Or.inr, Or.inr⟩
  · have : ∃ str, v = .str str := by
      apply Classical.byContradiction
      intro hc
      exact hs (fun str he => hc ⟨str, he⟩)
    rcases this with ⟨str, rfl⟩
    rw [decode_ptr_str]
    cases injectOther env str with
    | error e => simp [R.fail]
    | ok t => exact ⟨id, Or.inr, Or.inr⟩

theorem decode_slice_list (fl : Flags) (env : Env) (e : Schema) (d : DVal) (xs : List Val) :
    decode fl env (.slice e d) (.list xs) =
      { val := .slice ((xs.map fun x => decode fl env e x).map (·.val))
        errs := ((xs.map fun x => decode fl env e x).map (·.errs)).flatten
        later := ((xs.map fun x => decode fl env e x).map (·.later)).flatten
        vfail := (xs.map fun x => decode fl env e x).any (·.vfail) } := by
  simp [decode]

theorem decode_map_map (fl : Flags) (env : Env) (e : Schema) (d : Option (List (Str × DVal))) (kvs : List (Str × Val)) :
    (decode fl env (.map e d) (.map kvs)).errs = ((kvs.map fun kv => (kv.1, decode fl env e kv.2)).map (·.2.errs)).flatten ∧
    (decode fl env (.map e d) (.map kvs)).later = ((kvs.map fun kv => (kv.1, decode fl env e kv.2)).map (·.2.later)).flatten := by
  simp [decode]

theorem decodeFlat_cons (fl : Flags) (env : Env) (f : FInfo) (s : Schema) (rest : Fields) (kvs : List (Str × Val)) :
    decodeFlat fl env (.cons f s rest) kvs =
      match (if f.settable then findKey kvs f.key else none) with
      | none =>
        { decodeFlat fl env rest kvs with
          vals := (f.name, (keep false s).val) :: (decodeFlat fl env rest kvs).vals
          vfail := tagsFail f.tags (keep false s).val || childVfail f s (keep false s) || (decodeFlat fl env rest kvs).vfail }
      | some (k, v) =>
        { vals := (f.name, (decode fl env s v).val) :: (decodeFlat fl env rest kvs).vals
          errs := (decode fl env s v).errs ++ (decodeFlat fl env rest kvs).errs
          later := (decode fl env s v).later ++ (decodeFlat fl env rest kvs).later
          vfail := tagsFail f.tags (decode fl env s v).val || childVfail f s (decode fl env s v) || (decodeFlat fl env rest kvs).vfail
          used := k :: (decodeFlat fl env rest kvs).used } := by
  rw [decodeFlat]
  rfl

/-! ## fields -/

inductive FieldIn : FInfo → Schema → Fields → Prop
  | head (f s rest) : FieldIn f s (.cons f s rest)
  | tail (f s g t rest) : FieldIn f s rest → FieldIn f s (.cons g t rest)

/-- `k` matches the key of no field, not even case-insensitively -/
def noField : Fields → Str → Bool
  | .nil, _ => true
  | .cons f _ rest, k => !(eqFold k f.key) && noField rest k

theorem eqFold_refl (a : Str) : eqFold a a = true := by simp [eqFold]

/-! ## key lookup -/

theorem find?_some_pred {α} {p : α → Bool} {l : List α} {a : α} (h : l.find? p = some a) : p a = true ∧ a ∈ l := by
  induction l with
  | nil => simp at h
  | cons x xs ih =>
    simp only [List.find?] at h
    split at h
    · rename_i hx; cases h; exact ⟨hx, by simp⟩
    · have := ih h; exact ⟨this.1, by simp [this.2]⟩

/-- the key `findKey` returns matches the field key exactly or case-insensitively -/
theorem findKey_matches {kvs : List (Str × Val)} {key k : Str} {v : Val} (h : findKey kvs key = some (k, v)) :
    eqFold k key = true := by
  unfold findKey at h
  split at h
  · rename_i kv hkv
    cases h
    have := (find?_some_pred hkv).1
    simp at this
    subst this
    exact eqFold_refl _
  · have := (find?_some_pred h).1
    simpa using this

/-- data keys consumed by the fields all match some field key -/
theorem used_matches (fl : Flags) (env : Env) : ∀ (fs : Fields) (kvs : List (Str × Val)) (k : Str),
    k ∈ (decodeFlat fl env fs kvs).used → noField fs k = false
  | .nil, kvs, k, h => by simp [decodeFlat] at h
  | .cons f s rest, kvs, k, h => by
    rw [decodeFlat_cons] at h
    split at h
    · have := used_matches fl env rest kvs k h
      simp [noField, this]
    · rename_i k' v hk
      simp only [List.mem_cons] at h
      rcases h with h | h
      · subst h
        have hm : findKey kvs f.key = some (k, v) := by
          split at hk
          · exact hk
          · cases hk
        simp [noField, findKey_matches hm]
      · have := used_matches fl env rest kvs k h
        simp [noField, this]

/-- base case: a key matching no field is reported when `ErrorUnused` is set -/
theorem unknown_key_here (fl : Flags) (env : Env) (hfl : fl.errorUnused = true) (fs : Fields) (kvs : List (Str × Val))
    (k : Str) (v : Val) (hno : noField fs k = true) :
    ErrC.unused ∈ (decode fl env (.struct fs) (.map ((k, v) :: kvs))).errs := by
  rw [decode_struct_map]
  have hnot : k ∉ (decodeFlat fl env fs ((k, v) :: kvs)).used := by
    intro hmem
    have := used_matches fl env fs _ k hmem
    rw [hno] at this
    cases this
  have hmem : (k, v) ∈ ((k, v) :: kvs).filter fun kv => !(decodeFlat fl env fs ((k, v) :: kvs)).used.contains kv.1 := by
    simp [List.mem_filter, hnot]
  have hfilter : (((k, v) :: kvs).filter fun kv => !(decodeFlat fl env fs ((k, v) :: kvs)).used.contains kv.1).isEmpty = false := by
    cases hf : ((k, v) :: kvs).filter fun kv => !(decodeFlat fl env fs ((k, v) :: kvs)).used.contains kv.1 with
    | nil => rw [hf] at hmem; cases hmem
    | cons => rfl
  rw [hfl, hfilter]
  simp

/-- the same for a key standing anywhere in the mapping -/
theorem unknown_key_mem (fl : Flags) (env : Env) (hfl : fl.errorUnused = true) (fs : Fields) (kvs : List (Str × Val))
    (k : Str) (v : Val) (hmem0 : (k, v) ∈ kvs) (hno : noField fs k = true) :
    ErrC.unused ∈ (decode fl env (.struct fs) (.map kvs)).errs := by
  rw [decode_struct_map]
  have hnot : k ∉ (decodeFlat fl env fs kvs).used := by
    intro hmem
    have := used_matches fl env fs _ k hmem
    rw [hno] at this
    cases this
  have hmem : (k, v) ∈ kvs.filter fun kv => !(decodeFlat fl env fs kvs).used.contains kv.1 := by
    simp [List.mem_filter, hnot, hmem0]
  have hfilter : (kvs.filter fun kv => !(decodeFlat fl env fs kvs).used.contains kv.1).isEmpty = false := by
    cases hf : kvs.filter fun kv => !(decodeFlat fl env fs kvs).used.contains kv.1 with
    | nil => rw [hf] at hmem; cases hmem
    | cons => rfl
  rw [hfl, hfilter]
  simp

/-! ## propagation through a struct -/

theorem failed_of_field (fl : Flags) (env : Env) : ∀ (fs : Fields) (kvs : List (Str × Val)) (f : FInfo) (s : Schema)
    (k : Str) (c : Val), FieldIn f s fs → f.settable = true → findKey kvs f.key = some (k, c) →
    R.failed (decode fl env s c) → FR.failed (decodeFlat fl env fs kvs)
  | .nil, _, _, _, _, _, hin, _, _, _ => by cases hin
  | .cons g t rest, kvs, f, s, k, c, hin, hset, hfind, hfail => by
    rw [decodeFlat_cons]
    cases hin with
    | head =>
      simp only [hset, if_true, hfind]
      rcases hfail with h | h
      · exact Or.inl (append_ne_nil_left h)
      · exact Or.inr (append_ne_nil_left h)
    | tail g t rest hin' =>
      have ih := failed_of_field fl env rest kvs f s k c hin' hset hfind hfail
      split
      · exact ih
      · rcases ih with h | h
        · exact Or.inl (append_ne_nil_right h)
        · exact Or.inr (append_ne_nil_right h)

theorem struct_failed_of_flat (fl : Flags) (env : Env) (fs : Fields) (kvs : List (Str × Val))
    (h : FR.failed (decodeFlat fl env fs kvs)) : R.failed (decode fl env (.struct fs) (.map kvs)) := by
  rw [decode_struct_map]
  rcases h with h | h
  · exact Or.inl (append_ne_nil_left h)
  · exact Or.inr h

/-! ## replacing the value under a key -/

/-- the configuration mapping with the value under `key` replaced -/
def setKey (kvs : List (Str × Val)) (key : Str) (c : Val) : List (Str × Val) :=
  kvs.map fun kv => if kv.1 == key then (kv.1, c) else kv

theorem find?_setKey (p : Str → Bool) (key : Str) (c : Val) : ∀ (kvs : List (Str × Val)),
    (setKey kvs key c).find? (fun kv => p kv.1) =
      (kvs.find? (fun kv => p kv.1)).map (fun kv => if kv.1 == key then (kv.1, c) else kv)
  | [] => rfl
  | kv :: rest => by
    have ih := find?_setKey p key c rest
    have h1 : (if kv.1 == key then (kv.1, c) else kv).1 = kv.1 := by split <;> rfl
    simp only [setKey, List.map_cons, List.find?_cons, h1] at ih ⊢
    cases hp : p kv.1
    · simpa using ih
    · simp

theorem findKey_setKey (kvs : List (Str × Val)) (fkey key : Str) (c c' : Val)
    (h : findKey kvs fkey = some (key, c)) : findKey (setKey kvs key c') fkey = some (key, c') := by
  unfold findKey at h ⊢
  have e1 := find?_setKey (fun k => k == fkey) key c' kvs
  have e2 := find?_setKey (fun k => eqFold k fkey) key c' kvs
  rw [e1, e2]
  split at h
  · rename_i kv hkv
    cases h
    simp [hkv]
  · rename_i hnone
    simp [hnone, h]

theorem setKey_keys (kvs : List (Str × Val)) (key : Str) (c : Val) :
    (setKey kvs key c).map (·.1) = kvs.map (·.1) := by
  unfold setKey
  induction kvs with
  | nil => rfl
  | cons kv rest ih =>
    simp only [List.map]
    split <;> simp_all

/-! ## slices, maps -/

theorem flatten_ne_nil_of_mem {α} {ls : List (List α)} {l : List α} (hm : l ∈ ls) (hl : l ≠ []) : ls.flatten ≠ [] := by
  induction ls with
  | nil => cases hm
  | cons x xs ih =>
    simp only [List.flatten_cons]
    rcases List.mem_cons.mp hm with h | h
    · subst h; exact append_ne_nil_left hl
    · exact append_ne_nil_right (ih h)

theorem slice_failed (fl : Flags) (env : Env) (e : Schema) (d : DVal) (xs : List Val) (x : Val) (hx : x ∈ xs)
    (h : R.failed (decode fl env e x)) : R.failed (decode fl env (.slice e d) (.list xs)) := by
  rw [decode_slice_list]
  rcases h with h | h
  · left
    apply flatten_ne_nil_of_mem (l := (decode fl env e x).errs) _ h
    simp only [List.map_map, List.mem_map]
    exact ⟨x, hx, rfl⟩
  · right
    apply flatten_ne_nil_of_mem (l := (decode fl env e x).later) _ h
    simp only [List.map_map, List.mem_map]
    exact ⟨x, hx, rfl⟩

theorem map_failed (fl : Flags) (env : Env) (e : Schema) (d : Option (List (Str × DVal))) (kvs : List (Str × Val))
    (k : Str) (x : Val) (hx : (k, x) ∈ kvs) (h : R.failed (decode fl env e x)) :
    R.failed (decode fl env (.map e d) (.map kvs)) := by
  have hm := decode_map_map fl env e d kvs
  rcases h with h | h
  · left
    rw [hm.1]
    apply flatten_ne_nil_of_mem (l := (decode fl env e x).errs) _ h
    simp only [List.map_map, List.mem_map]
    exact ⟨(k, x), hx, rfl⟩
  · right
    rw [hm.2]
    apply flatten_ne_nil_of_mem (l := (decode fl env e x).later) _ h
    simp only [List.map_map, List.mem_map]
    exact ⟨(k, x), hx, rfl⟩

/-! ## plugin positions -/

/-- the registered alternative of that name in the schema -/
def altOf : Alts → Str → Option (Bool × Schema)
  | .nil, _ => none
  | .cons n l s rest, name => if n == name then some (l, s) else altOf rest name

theorem decodeAlt_eq (fl : Flags) (env : Env) : ∀ (alts : Alts) (name : Str) (v : Val),
    decodeAlt fl env alts name v = (altOf alts name).map fun ls => (ls.1, decode fl env ls.2 v)
  | .nil, _, _ => by simp [decodeAlt, altOf]
  | .cons n l s rest, name, v => by
    rw [decodeAlt, altOf]
    split
    · simp
    · exact decodeAlt_eq fl env rest name v

theorem typeEntries_cons_type (tk : Str) (name : Str) (kvs : List (Str × Val)) (htk : isTypeKey tk = true)
    (hno : typeEntries kvs = []) : typeEntries ((tk, .str name) :: kvs) = [.str name] := by
  unfold typeEntries at hno ⊢
  simp only [List.filter, htk, List.map_cons]
  rw [hno]

theorem filter_eq_nil_of_map {α β} {p : α → Bool} {f : α → β} {l : List α} (h : (l.filter p).map f = []) : l.filter p = [] := by
  cases hl : l.filter p with
  | nil => rfl
  | cons x xs => rw [hl] at h; simp at h

theorem dropType_cons_type (tk : Str) (w : Val) (kvs : List (Str × Val)) (htk : isTypeKey tk = true)
    (hno : typeEntries kvs = []) : dropType ((tk, w) :: kvs) = kvs := by
  unfold typeEntries at hno
  have hf := filter_eq_nil_of_map hno
  unfold dropType
  simp only [List.filter, htk, Bool.not_true]
  rw [List.filter_eq_self]
  intro kv hkv
  have : ¬ (isTypeKey kv.1 = true) := by
    intro ht
    have : kv ∈ kvs.filter fun kv => isTypeKey kv.1 := List.mem_filter.mpr ⟨hkv, ht⟩
    rw [hf] at this
    cases this
  simp [this]

theorem plugin_rejects (fl : Flags) (env : Env) (pi : PInfo) (alts : Alts) (tk name : Str) (kvs : List (Str × Val))
    (lzy : Bool) (s : Schema)
    (htk : isTypeKey tk = true) (hno : typeEntries kvs = []) (hname : pi.names.contains name = true)
    (halt : altOf alts name = some (lzy, s))
    (hfail : settle (decode fl env s (.map kvs)) ≠ [] ∨ (decode fl env s (.map kvs)).later ≠ []) :
    R.failed (decode fl env (.plugin pi alts) (.map ((tk, .str name) :: kvs))) := by
  have hte := typeEntries_cons_type tk name kvs htk hno
  have hdt := dropType_cons_type tk (.str name) kvs htk hno
  have hda : decodeAlt fl env alts name (.map kvs) = some (lzy, decode fl env s (.map kvs)) := by
    rw [decodeAlt_eq, halt]; rfl
  simp only [decode, hte, hdt, hname, hda, Bool.not_true, Bool.false_eq_true, if_false]
  generalize decode fl env s (.map kvs) = r at hfail
  cases lzy
  · simp only [Bool.false_eq_true, if_false]
    by_cases hs : (settle r).isEmpty = true
    · simp only [hs, if_true]
      right
      rcases hfail with h | h
      · exact absurd (List.isEmpty_iff.mp hs) h
      · exact h
    · simp only [hs]
      left
      intro h; apply hs; simp at h; simp [h]
  · simp only [if_true]
    right
    by_cases hs : (settle r).isEmpty = true
    · simp only [hs, if_true]
      rcases hfail with h | h
      · exact absurd (List.isEmpty_iff.mp hs) h
      · exact h
    · simp only [hs]
      intro h; apply hs; simp at h; simp [h]

theorem settle_ne_nil_of_errs {r : R} (h : r.errs ≠ []) : settle r ≠ [] := by
  unfold settle
  cases he : r.errs with
  | nil => exact absurd he h
  | cons x xs => simp

theorem plugin_failed (fl : Flags) (env : Env) (pi : PInfo) (alts : Alts) (tk name : Str) (kvs : List (Str × Val))
    (lzy : Bool) (s : Schema)
    (htk : isTypeKey tk = true) (hno : typeEntries kvs = []) (hname : pi.names.contains name = true)
    (halt : altOf alts name = some (lzy, s)) (hfail : R.failed (decode fl env s (.map kvs))) :
    R.failed (decode fl env (.plugin pi alts) (.map ((tk, .str name) :: kvs))) := by
  apply plugin_rejects fl env pi alts tk name kvs lzy s htk hno hname halt
  rcases hfail with h | h
  · exact Or.inl (settle_ne_nil_of_errs h)
  · exact Or.inr h

/-! ## top level -/

theorem rejected_of_failed (fl : Flags) (env : Env) (s : Schema) (cfg : Val) (h : R.failed (decode fl env s cfg)) :
    (decodeAndValidate fl env s cfg).rejected = true := by
  unfold decodeAndValidate
  generalize decode fl env s cfg = r at h
  simp only
  split
  · rfl
  · split
    · rfl
    · rename_i h1 h2
      rcases h with h | h
      · have := settle_ne_nil_of_errs h
        cases hs : settle r with
        | nil => exact absurd hs this
        | cons x xs => simp [hs] at h1
      · cases hl : r.later with
        | nil => exact absurd hl h
        | cons x xs => simp [hl] at h2

end Pandora.Proofs.C17
