/-
C07 — `BuildRequest` is a pure function of the decoded entry (reference level, Pandora.Model.C07Build).
-/
import Pandora.Model.C07Build

namespace Pandora.Proofs.C07
open Pandora.Model.C07

/-- `h` extends `h0`: the cells of `h0` (the entry's) are still there, unchanged -/
def Ext (h0 h : BHeap) : Prop := ∃ t, h = h0 ++ t

theorem Ext.refl (h0 : BHeap) : Ext h0 h0 := ⟨[], by simp⟩

theorem Ext.push {h0 h : BHeap} (hx : Ext h0 h) (c : BCell) : Ext h0 (h ++ [c]) := by
  obtain ⟨t, rfl⟩ := hx; exact ⟨t ++ [c], by simp⟩

theorem set_append_ge (h0 t : BHeap) (a : Nat) (c : BCell) (ha : h0.length ≤ a) :
    (h0 ++ t).set a c = h0 ++ t.set (a - h0.length) c := by
  induction h0 generalizing a with
  | nil => simp
  | cons x xs ih =>
    cases a with
    | zero => simp at ha
    | succ a' =>
      simp only [List.length_cons, Nat.add_le_add_iff_right] at ha
      simp only [List.cons_append, List.set_cons_succ, List.length_cons, Nat.add_sub_add_right]
      rw [ih a' ha]

theorem Ext.set {h0 h : BHeap} (hx : Ext h0 h) (a : Nat) (c : BCell) (ha : h0.length ≤ a) : Ext h0 (h.set a c) := by
  obtain ⟨t, rfl⟩ := hx; exact ⟨_, set_append_ge h0 t a c ha⟩

theorem Ext.len {h0 h : BHeap} (hx : Ext h0 h) : h0.length ≤ h.length := by
  obtain ⟨t, rfl⟩ := hx; simp

theorem Ext.get {h0 h : BHeap} (hx : Ext h0 h) {a : Nat} {c : BCell} (hc : h0[a]? = some c) : h[a]? = some c := by
  obtain ⟨t, rfl⟩ := hx
  have hlt : a < h0.length := by
    rcases Nat.lt_or_ge a h0.length with h | h
    · exact h
    · rw [List.getElem?_eq_none h] at hc; cases hc
  rw [List.getElem?_append_left hlt]; exact hc

/-- the value lists of a map of `h0` are the same in every extension -/
theorem bSlices_ext {h0 h : BHeap} (hx : Ext h0 h) :
    ∀ (m : List (Bytes × Nat)) (r : List (Bytes × List Bytes)), bSlices h0 m = some r → bSlices h m = some r
  | [], r, hr => by simpa [bSlices] using hr
  | (k, a) :: m, r, hr => by
    simp only [bSlices] at hr ⊢
    cases hc : h0[a]? with
    | none => simp [hc] at hr
    | some c =>
      cases c with
      | url s ho p => simp [hc] at hr
      | hmap mm => simp [hc] at hr
      | slice vs =>
        rw [hc] at hr
        rw [hx.get hc]
        cases hm : bSlices h0 m with
        | none => simp [hm] at hr
        | some r' =>
          rw [hm] at hr
          rw [bSlices_ext hx m r' hm]
          exact hr

theorem bSlices_filter (h : BHeap) (p : Bytes × Nat → Bool) :
    ∀ (m : List (Bytes × Nat)), (bSlices h m).isSome = true → (bSlices h (m.filter p)).isSome = true
  | [], _ => by simp [bSlices]
  | (k, a) :: m, hs => by
    simp only [bSlices] at hs
    cases hc : h[a]? with
    | none => simp [hc] at hs
    | some c =>
      cases c with
      | url s ho pp => simp [hc] at hs
      | hmap mm => simp [hc] at hs
      | slice vs =>
        rw [hc] at hs
        have hm : (bSlices h m).isSome = true := by
          cases hm : bSlices h m with
          | none => simp [hm] at hs
          | some _ => rfl
        have ih := bSlices_filter h p m hm
        simp only [List.filter_cons]
        split
        · simp only [bSlices, hc]
          cases hf : bSlices h (List.filter p m) with
          | none => simp [hf] at ih
          | some _ => rfl
        · exact ih

/-- the `Host` value of the entry's map is the same in every extension -/
theorem bHostHdr_ext {h0 h : BHeap} (hx : Ext h0 h) (m : List (Bytes × Nat)) (hs : (bSlices h0 m).isSome = true) :
    bHostHdr h m = bHostHdr h0 m := by
  unfold bHostHdr
  cases hf : m.find? (fun kv => kv.1 == hostKey) with
  | none => rfl
  | some ka =>
    obtain ⟨k, a⟩ := ka
    have hmem : (k, a) ∈ m := List.mem_of_find?_eq_some hf
    -- the address holds a slice in h0
    have hsl : ∀ (m : List (Bytes × Nat)), (bSlices h0 m).isSome = true → (k, a) ∈ m → ∃ vs, h0[a]? = some (.slice vs) := by
      intro m
      induction m with
      | nil => intro _ hm; cases hm
      | cons x xs ih =>
        intro hs hm
        obtain ⟨k', a'⟩ := x
        simp only [bSlices] at hs
        cases hc : h0[a']? with
        | none => simp [hc] at hs
        | some c =>
          cases c with
          | url s ho pp => simp [hc] at hs
          | hmap mm => simp [hc] at hs
          | slice vs =>
            rw [hc] at hs
            rcases List.mem_cons.mp hm with he | hm'
            · cases he; exact ⟨vs, hc⟩
            · apply ih _ hm'
              cases hq : bSlices h0 xs with
              | none => simp [hq] at hs
              | some _ => rfl
    obtain ⟨vs, hv⟩ := hsl m hs hmem
    simp only [hx.get hv, hv]

/-- the request built on ANY extension of the entry's heap looks as the entry says -/
theorem bObs_build_fresh (e : BEntry) (h0 h : BHeap) (hok : entryOK .fresh e h0) (hx : Ext h0 h) :
    bObs (bBuild .fresh e h).1 (bBuild .fresh e h).2 = bExpect e h0 ∧ (bExpect e h0).isSome = true := by
  obtain ⟨m, hm, hs, _⟩ := hok
  have hmh := hx.get hm
  have hfs := bSlices_filter h0 (fun kv => kv.1 != hostKey) m hs
  obtain ⟨hsv, hsv'⟩ : ∃ r, bSlices h0 (m.filter fun kv => kv.1 != hostKey) = some r := by
    cases hq : bSlices h0 (m.filter fun kv => kv.1 != hostKey) with
    | none => simp [hq] at hfs
    | some r => exact ⟨r, rfl⟩
  have hx2 : Ext h0 (h ++ [BCell.url e.urlVal.1 e.urlVal.2.1 e.urlVal.2.2] ++ [BCell.hmap (m.filter fun kv => kv.1 != hostKey)]) :=
    (hx.push _).push _
  have hsl := bSlices_ext hx2 _ _ hsv'
  have hhost := bHostHdr_ext hx m hs
  constructor
  · simp only [bBuild, hmh, bExpect, hm, hsv', Option.map_some]
    simp only [bObs]
    have g1 : (h ++ [BCell.url e.urlVal.1 e.urlVal.2.1 e.urlVal.2.2])[h.length]? = some (BCell.url e.urlVal.1 e.urlVal.2.1 e.urlVal.2.2) := by
      simp
    have g2 : (h ++ [BCell.url e.urlVal.1 e.urlVal.2.1 e.urlVal.2.2] ++ [BCell.hmap (m.filter fun kv => kv.1 != hostKey)])[h.length]? =
        some (BCell.url e.urlVal.1 e.urlVal.2.1 e.urlVal.2.2) := by
      rw [List.getElem?_append_left (by simp)]; exact g1
    have g3 : (h ++ [BCell.url e.urlVal.1 e.urlVal.2.1 e.urlVal.2.2] ++ [BCell.hmap (m.filter fun kv => kv.1 != hostKey)])[(h ++ [BCell.url e.urlVal.1 e.urlVal.2.1 e.urlVal.2.2]).length]? =
        some (BCell.hmap (m.filter fun kv => kv.1 != hostKey)) := by
      simp
    simp only [g1, g2, g3, hsl, Option.map_some, hhost]
  · simp [bExpect, hm, hsv']

/-- field- and map-level operations on a request whose URL and header map were allocated by the build never touch a cell
of the entry -/
theorem bMut_ext {h0 h : BHeap} (r : BReq) (mu : BMut) (hx : Ext h0 h) (hu : h0.length ≤ r.url) (hh : h0.length ≤ r.hdr)
    (hg : gunClass mu = true) :
    Ext h0 (bMut r h mu).2 ∧ (bMut r h mu).1.url = r.url ∧ (bMut r h mu).1.hdr = r.hdr := by
  cases mu with
  | setScheme v => simp only [bMut]; split <;> simp_all [Ext.set]
  | setUrlHost v => simp only [bMut]; split <;> simp_all [Ext.set]
  | setPath v => simp only [bMut]; split <;> simp_all [Ext.set]
  | setHost v => simp_all [bMut]
  | setMethod v => simp_all [bMut]
  | setBody v => simp_all [bMut]
  | hdrSet k v => simp only [bMut]; split <;> simp_all [Ext.set, Ext.push]
  | hdrAdd k v => simp only [bMut]; split <;> simp_all [Ext.set, Ext.push]
  | hdrDel k => simp only [bMut]; split <;> simp_all [Ext.set]
  | elemWrite k i v => simp [gunClass] at hg

theorem bMuts_ext {h0 : BHeap} : ∀ (ms : List BMut) (r : BReq) (h : BHeap), Ext h0 h → h0.length ≤ r.url → h0.length ≤ r.hdr →
    (∀ m ∈ ms, gunClass m = true) → Ext h0 (bMuts r h ms).2
  | [], _, _, hx, _, _, _ => hx
  | m :: ms, r, h, hx, hu, hh, hg => by
    obtain ⟨h1, h2, h3⟩ := bMut_ext r m hx hu hh (hg m (by simp))
    simp only [bMuts]
    exact bMuts_ext ms _ _ h1 (h2 ▸ hu) (h3 ▸ hh) (fun m' hm' => hg m' (by simp [hm']))

theorem bBuild_fresh_addrs (e : BEntry) (h : BHeap) :
    (bBuild .fresh e h).1.url = h.length ∧ (bBuild .fresh e h).1.hdr = h.length + 1 ∧
    ∃ c1 c2, (bBuild .fresh e h).2 = h ++ [c1] ++ [c2] := by
  refine ⟨rfl, ?_, BCell.url e.urlVal.1 e.urlVal.2.1 e.urlVal.2.2,
    BCell.hmap ((match h[e.hdr]? with | some (.hmap m) => m | _ => []).filter fun kv => kv.1 != hostKey), rfl⟩
  simp [bBuild]

/-- however often the entry is built from and whatever the owners of the requests do to them at field / map level, every
request looks as the entry says -/
theorem bRounds_fresh (e : BEntry) (h0 : BHeap) (hok : entryOK .fresh e h0) :
    ∀ (rounds : List (List BMut)) (h : BHeap), Ext h0 h → (∀ ms ∈ rounds, ∀ m ∈ ms, gunClass m = true) →
      ∀ ob ∈ bRounds .fresh e h rounds, ob = bExpect e h0
  | [], _, _, _, ob, hob => by simp [bRounds] at hob
  | ms :: rest, h, hx, hg, ob, hob => by
    simp only [bRounds, List.mem_cons] at hob
    rcases hob with rfl | hob
    · exact (bObs_build_fresh e h0 h hok hx).1
    · obtain ⟨hu, hh, c1, c2, hb⟩ := bBuild_fresh_addrs e h
      have hx2 : Ext h0 (bBuild .fresh e h).2 := by rw [hb]; exact (hx.push _).push _
      have hl := hx.len
      have hx3 := bMuts_ext ms (bBuild .fresh e h).1 (bBuild .fresh e h).2 hx2 (by rw [hu]; exact hl) (by rw [hh]; omega)
        (hg ms (by simp))
      exact bRounds_fresh e h0 hok rest _ hx3 (fun ms' hm' => hg ms' (by simp [hm'])) ob hob

end Pandora.Proofs.C07
