/-
C15 round 4 — `var/jsonpath`: the statement list of `Process` computes the direct reading `varJsonpath`
(Model/C15Jpath.lean), for every decoder, every path resolver, every mapping and body.
-/
import Pandora.Model.C15Jpath

namespace Pandora.Proofs.C15
open Pandora.Model.C15

section
variable {β J V : Type}

/-- the entries that resolve -/
def jResolved (get : String → J → Option V) (d : J) : List (String × String) → List (String × V)
  | [] => []
  | (k, path) :: r =>
    match get path d with
    | some v => (k, v) :: jResolved get d r
    | none => jResolved get d r

def jAnyFail (get : String → J → Option V) (d : J) : List (String × String) → Bool
  | [] => false
  | (_, path) :: r => (get path d).isNone || jAnyFail get d r

theorem runJLoop_eq (get : String → J → Option V) (d : J) (m : List (String × String)) (e : Bool) (res : List (String × V)) :
    runJLoop get jsonpathCode.loop m { data := some d, err := e, result := res } =
      { data := some d, err := e || jAnyFail get d m, result := res ++ jResolved get d m } := by
  induction m generalizing e res with
  | nil => simp [runJLoop, jAnyFail, jResolved]
  | cons kp r ih =>
    obtain ⟨k, path⟩ := kp
    simp only [runJLoop, jsonpathCode, runJLoopOps, jAnyFail, jResolved]
    cases hg : get path d with
    | some v =>
      simp only [Bool.false_eq_true, ↓reduceIte, Option.isNone_some, Bool.false_or]
      have := ih e (res ++ [(k, v)])
      simp only [jsonpathCode] at this
      rw [this]; simp
    | none =>
      simp only [↓reduceIte, Option.isNone_none, Bool.true_or, Bool.or_true]
      have := ih true res
      simp only [jsonpathCode] at this
      rw [this]; simp

theorem resolveAll_eq (get : String → J → Option V) (d : J) (m : List (String × String)) :
    resolveAll get d m = bif jAnyFail get d m then none else some (jResolved get d m) := by
  induction m with
  | nil => simp [resolveAll, jAnyFail, jResolved]
  | cons kp r ih =>
    obtain ⟨k, path⟩ := kp
    simp only [resolveAll, jAnyFail, jResolved]
    cases get path d with
    | none => simp
    | some v =>
      rw [ih]
      cases jAnyFail get d r <;> simp

/-- **`Process` as regenerated is the direct reading** -/
theorem runJsonpath_eq (decode : β → Option J) (get : String → J → Option V) (mapping : List (String × String)) (body : β) :
    runJsonpath decode get jsonpathCode mapping body = varJsonpath decode get mapping body := by
  unfold runJsonpath varJsonpath
  simp only [jsonpathCode, runJOps]
  cases hm : mapping.isEmpty with
  | true => simp
  | false =>
    simp only [Bool.false_eq_true, ↓reduceIte]
    cases hd : decode body with
    | none => simp
    | some d =>
      simp only []
      have := runJLoop_eq get d mapping false ([] : List (String × V))
      simp only [jsonpathCode] at this
      rw [this, resolveAll_eq]
      cases jAnyFail get d mapping <;> simp

/-- the extractor succeeds exactly when the mapping is empty, or the body decodes and every path resolves -/
theorem varJsonpath_ok_iff (decode : β → Option J) (get : String → J → Option V) (mapping : List (String × String)) (body : β) :
    (varJsonpath decode get mapping body).isSome = true ↔
      (mapping = [] ∨ ∃ d, decode body = some d ∧ ∀ kp ∈ mapping, (get kp.2 d).isSome = true) := by
  unfold varJsonpath
  cases mapping with
  | nil => simp
  | cons kp r =>
    simp only [List.isEmpty_cons, Bool.false_eq_true, ↓reduceIte, reduceCtorEq, false_or]
    cases hd : decode body with
    | none => simp
    | some d =>
      simp only [Option.some.injEq, exists_eq_left']
      rw [resolveAll_eq]
      have key : ∀ m : List (String × String), jAnyFail get d m = false ↔ ∀ kp ∈ m, (get kp.2 d).isSome = true := by
        intro m
        induction m with
        | nil => simp [jAnyFail]
        | cons a t ih =>
          obtain ⟨k, p⟩ := a
          simp only [jAnyFail, Bool.or_eq_false_iff, ih, List.mem_cons, forall_eq_or_imp]
          cases get p d <;> simp
      cases hf : jAnyFail get d (kp :: r) with
      | true =>
        simp only [cond_true, Option.isSome_none, Bool.false_eq_true, false_iff]
        intro h
        have := (key (kp :: r)).2 h
        rw [hf] at this; cases this
      | false =>
        simp only [cond_false, Option.isSome_some, true_iff]
        exact (key (kp :: r)).1 hf

end

end Pandora.Proofs.C15
