/-
C13, round 6 — lemmas about the end of a provider's `Run` (Model/C13Run.lean) and the bound of a scenario's request list.
-/
import Pandora.Model.C13Run
import Pandora.Model.C13Funcs
import Pandora.Proofs.C13Funcs

namespace Pandora.Proofs.C13
open Pandora.Model.C13

/-- once the closing defer is registered it stays registered: every later return closes the sink -/
theorem closedAtReturn_registered (l : List RunStmt) (k : Nat) (b : Bool) (h : closedAtReturn l k true = some b) : b = true := by
  induction l generalizing k with
  | nil => cases k <;> simp [closedAtReturn] at h; exact h
  | cons s rest ih =>
    cases s with
    | deferClose => exact ih k (by simpa [closedAtReturn] using h)
    | mayReturn =>
      cases k with
      | zero => simp [closedAtReturn] at h; exact h
      | succ k => exact ih k (by simpa [closedAtReturn] using h)
    | other => exact ih k (by simpa [closedAtReturn] using h)

/-- a `Run` whose closing defer stands in front of every statement that may return closes the sink at EVERY return -/
theorem closesOnEveryReturn_sound (l : List RunStmt) (h : closesOnEveryReturn l = true) (k : Nat) (reg b : Bool)
    (hk : closedAtReturn l k reg = some b) : b = true := by
  induction l generalizing k reg with
  | nil => simp [closesOnEveryReturn] at h
  | cons s rest ih =>
    cases s with
    | deferClose => exact closedAtReturn_registered rest k b (by simpa [closedAtReturn] using hk)
    | mayReturn => simp [closesOnEveryReturn] at h
    | other => exact ih (by simpa [closesOnEveryReturn] using h) k reg (by simpa [closedAtReturn] using hk)

/-- … and otherwise there is a return that leaves it open: the first one -/
theorem closesOnEveryReturn_complete (l : List RunStmt) (h : closesOnEveryReturn l = false) :
    closedAtReturn l 0 false = some false := by
  induction l with
  | nil => rfl
  | cons s rest ih =>
    cases s with
    | deferClose => simp [closesOnEveryReturn] at h
    | mayReturn => rfl
    | other => simpa [closedAtReturn] using ih (by simpa [closesOnEveryReturn] using h)

/-- a closed sink is drained in `buffered + 1` calls -/
theorem drain_closed (n fuel : Nat) (hf : n < fuel) : drainAfterRun fuel ⟨n, true⟩ = some n := by
  induction n generalizing fuel with
  | zero =>
    cases fuel with
    | zero => omega
    | succ f => simp [drainAfterRun, acquireAfterRun]
  | succ n ih =>
    cases fuel with
    | zero => omega
    | succ f =>
      simp [drainAfterRun, acquireAfterRun, ih f (by omega)]

/-- an open sink blocks the instance for ever, however much is buffered -/
theorem drain_open (n fuel : Nat) : drainAfterRun fuel ⟨n, false⟩ = none := by
  induction n generalizing fuel with
  | zero =>
    cases fuel with
    | zero => rfl
    | succ f => simp [drainAfterRun, acquireAfterRun]
  | succ n ih =>
    cases fuel with
    | zero => rfl
    | succ f => simp [drainAfterRun, acquireAfterRun, ih f]

/-! ### `convertScenarioToAmmo` never builds more than `MaxScenarioRequests` requests -/

theorem addSleep_length {fixed : Bool} {acc acc' : List ScnStep} {cnt : Int} (h : addSleep fixed acc cnt = .ok acc') :
    acc'.length = acc.length := by
  unfold addSleep at h
  cases acc with
  | nil => cases fixed <;> simp at h
  | cons hd tl => obtain ⟨n, s⟩ := hd; simp at h; subst h; rfl

theorem expandGo_bounded (known : Bytes → Bool) (reqs : List Bytes) (acc out : List ScnStep)
    (hacc : (acc.length : Int) ≤ maxScenarioRequests) (h : expandGo true known reqs acc = .ok out) :
    (out.length : Int) ≤ maxScenarioRequests := by
  induction reqs generalizing acc with
  | nil =>
    simp only [expandGo, Res.ok.injEq] at h
    subst h; simpa using hacc
  | cons sh rest ih =>
    unfold expandGo at h
    cases hp : parseShootName sh with
    | ok a =>
      obtain ⟨name, cnt, sleep⟩ := a
      rw [hp] at h
      simp only at h
      split at h
      · cases ha : addSleep true acc cnt with
        | ok acc' =>
          rw [ha] at h; simp only at h
          exact ih acc' (by rw [addSleep_length ha]; exact hacc) h
        | err c => rw [ha] at h; cases h
        | panic w => rw [ha] at h; cases h
        | fatal w => rw [ha] at h; cases h
      · split at h
        · cases h
        · split at h
          · cases h
          · rename_i hm
            have hm' : ¬ cnt > maxScenarioRequests - (acc.length : Int) := by simpa using hm
            refine ih _ ?_ h
            simp only [List.length_append, List.length_replicate]
            have : ((cnt.toNat + acc.length : Nat) : Int) = (cnt.toNat : Int) + acc.length := by simp
            rw [this]
            omega
    | err c => rw [hp] at h; cases h
    | panic w => rw [hp] at h; cases h
    | fatal w => rw [hp] at h; cases h

end Pandora.Proofs.C13
