/-
C05 — termination of the background work once the pool context is cancelled: a ranking function that every
effective step decreases, and deadlock freedom using only steps that MUST happen (engine steps, and returns of
goroutines whose context is cancelled).
-/
import Pandora.Proofs.C05Guns

namespace Pandora.Proofs.C05
open Pandora.Model.C05

def compRank : Comp → Nat
  | .idle => 0 | .running => 4 | .ready _ => 2 | .taken => 0

def startRank (s : State) : Nat :=
  match s.startPc with
  | .idle => 0 | .waiting _ => 12 | .exiting => 5 | .done => if s.startTaken then 0 else 2

def instRank (i : Inst) : Nat :=
  match i.gun with
  | none => 5
  | some _ => 4

def liveRank : List Inst → Nat
  | [] => 0
  | i :: r => instRank i + liveRank r

def awRank : AwPc → Nat
  | .off => 0 | .loop => 1 | .onErr _ _ _ => 2 | .finished => 0

def mainRank : MainPc → Nat
  | .init => 40 | .warmed => 30 | .selecting => 1 | .returned _ => 0

/-- ranking function: outstanding work of all goroutines of the pool -/
def mu (s : State) : Nat :=
  mainRank s.main + compRank s.prov + compRank s.agg + startRank s + liveRank s.live + 2 * s.buf.length +
  awRank s.aw + (if s.runResOpen then 1 else 0) + (if s.extC then 0 else 1)

theorem liveRank_append (l : List Inst) (x : Inst) : liveRank (l ++ [x]) = liveRank l + instRank x := by
  induction l with
  | nil => simp [liveRank]
  | cons a l ih => simp [liveRank, ih]; omega

theorem liveRank_eraseIdx (l : List Inst) (i : Nat) (x : Inst) (h : l[i]? = some x) :
    liveRank (l.eraseIdx i) + instRank x = liveRank l := by
  induction l generalizing i with
  | nil => simp at h
  | cons a l ih =>
    cases i with
    | zero => simp at h; subst h; simp [liveRank]; omega
    | succ i => simp at h; simp [liveRank]; have := ih i h; omega

theorem liveRank_set (l : List Inst) (i : Nat) (x y : Inst) (h : l[i]? = some x) :
    liveRank (l.set i y) + instRank x = liveRank l + instRank y := by
  induction l generalizing i with
  | nil => simp at h
  | cons a l ih =>
    cases i with
    | zero => simp at h; subst h; simp [liveRank]; omega
    | succ i => simp at h; simp [liveRank]; have := ih i h; omega

macro "m_simp" : tactic => `(tactic|
  simp only [mu, compRank, startRank, awRank, mainRank, cancelAll, mainReturn, addErr, sendRes, nextWait,
    liveRank_append, instRank, List.length_append, List.length_cons, List.length_nil] at *)

theorem mu_finish (s : State) : mu (finish s) ≤ mu s := by
  unfold finish
  split
  · m_simp; grind
  · exact Nat.le_refl _

theorem mu_checkAll (s : State) : mu (checkAll s) ≤ mu s := by
  unfold checkAll
  repeat' split
  all_goals (m_simp; grind)

theorem mu_afterErr (s : State) (chk : Bool) : mu (afterErr s chk) ≤ mu { s with aw := .loop } := by
  unfold afterErr
  refine Nat.le_trans (mu_finish _) ?_
  split
  · exact mu_checkAll _
  · exact Nat.le_refl _

theorem mu_handleRes (s : State) (w : Wrap) (r : Ret) (done chk : Bool) (hl : s.aw = .loop) :
    mu (handleRes s w r done chk) ≤ mu s + 1 := by
  unfold handleRes
  split
  · refine Nat.le_trans (mu_afterErr _ _) ?_
    m_simp; grind
  · m_simp; grind


theorem cancelAll_eta (s : State) (h1 : s.poolC = true) (h2 : s.runC = true) (h3 : s.startC = true)
    (h4 : s.extC = true) : cancelAll { s with extC := true } = s := by
  cases s; simp only [cancelAll] at *; subst h1 h2 h3 h4; rfl

theorem startC_eta (s : State) (h3 : s.startC = true) : { s with startC := true } = s := by
  cases s; simp only at *; subst h3; rfl

/-- `step` either leaves the state alone or decreases `mu` -/
def Dec (cfg : Cfg) (s : State) (c : Choice) : Prop := step cfg s c = s ∨ mu (step cfg s c) < mu s

section
variable (cfg : Cfg) (s : State)

theorem d_ext (ha : InvA s) (hp : s.runC = true) (hx : s.extC = true → s.poolC = true) : Dec cfg s .extCancel := by
  unfold Dec
  simp only [step]
  a_destruct ha
  cases he : s.extC
  · right; m_simp; grind
  · left; exact cancelAll_eta s (hx he) hp (by grind) he

theorem d_warm (o) (ha : InvA s) (hp : s.runC = true) : Dec cfg s (.warm o) := by
  unfold Dec
  simp only [step]
  split
  · right; a_destruct ha; cases o <;> (m_simp; grind)
  · left; rfl

theorem d_sched (o) (ha : InvA s) (hp : s.runC = true) : Dec cfg s (.sched o) := by
  unfold Dec
  simp only [step]
  split
  · right; a_destruct ha; cases o <;> (m_simp; (try simp only [liveRank] at *); grind)
  · left; rfl

theorem d_provRet (r) (ha : InvA s) (hp : s.runC = true) : Dec cfg s (.provRet r) := by
  unfold Dec
  simp only [step]
  split
  · right; cases r <;> (m_simp; grind)
  · left; rfl

theorem d_aggRet (r) (ha : InvA s) (hp : s.runC = true) : Dec cfg s (.aggRet r) := by
  unfold Dec
  simp only [step]
  split
  · right; cases r <;> (m_simp; grind)
  · left; rfl

theorem d_rps (ha : InvA s) (hp : s.runC = true) : Dec cfg s .rpsFinished := by
  unfold Dec
  simp only [step]
  a_destruct ha
  split
  · left; exact startC_eta s (by grind)
  · left; rfl

theorem d_startFirst (o) (ha : InvA s) (hp : s.runC = true) : Dec cfg s (.startFirst o) := by
  unfold Dec
  simp only [step]
  split
  · right; a_destruct ha; cases o <;> (m_simp; grind)
  · left; rfl

theorem d_startTick (ha : InvA s) (hp : s.runC = true) : Dec cfg s .startTick := by
  unfold Dec
  simp only [step]
  split
  · right; a_destruct ha; m_simp; grind
  · left; rfl

theorem d_startEnd (ha : InvA s) (hp : s.runC = true) : Dec cfg s .startEnd := by
  unfold Dec
  simp only [step]
  split
  · right; a_destruct ha; m_simp; grind
  · left; rfl

theorem d_instCreate (i o) (ha : InvA s) (hp : s.runC = true) : Dec cfg s (.instCreate i o) := by
  unfold Dec
  simp only [step]
  split
  · rename_i id hl
    have h1 := liveRank_eraseIdx _ _ _ hl
    have h2 := fun y => liveRank_set _ _ _ y hl
    have hf := getElem?_facts _ _ _ hl
    have e5 : instRank ⟨id, none⟩ = 5 := rfl
    rw [e5] at h1
    right; a_destruct ha
    have ho : s.runResOpen = true := by
      cases hr : s.runResOpen
      · exfalso; by_cases hw : s.aw = .off <;> grind
      · rfl
    cases o
    · simp only [sendRes, ho]; m_simp; grind
    · simp only [sendRes, ho]; m_simp; grind
    · simp only [sendRes, ho]; m_simp; grind
    · rename_i c; have h3 := h2 ⟨id, some ⟨c, 0⟩⟩; rw [e5] at h3; have e4 : instRank ⟨id, some ⟨c, 0⟩⟩ = 4 := rfl; rw [e4] at h3; m_simp; grind
  · left; rfl

theorem d_instRet (i r) (ha : InvA s) (hp : s.runC = true) : Dec cfg s (.instRet i r) := by
  unfold Dec
  simp only [step]
  split
  · rename_i id g hl
    have h1 := liveRank_eraseIdx _ _ _ hl
    have hf := getElem?_facts _ _ _ hl
    have e4 : instRank ⟨id, some g⟩ = 4 := rfl
    rw [e4] at h1
    split
    · left; rfl
    · right; a_destruct ha
      have ho : s.runResOpen = true := by
        cases hr : s.runResOpen
        · exfalso; by_cases hw : s.aw = .off <;> grind
        · rfl
      cases r <;> (simp only [sendRes, addErr, ho]; m_simp; grind)
  · left; rfl

theorem d_awaitProv (ha : InvA s) (hp : s.runC = true) : Dec cfg s .awaitProv := by
  unfold Dec
  simp only [step]
  split
  · rename_i r hl hr
    right
    refine Nat.lt_of_le_of_lt (mu_handleRes _ _ _ _ _ (by exact hl)) ?_
    m_simp; grind
  · left; rfl

theorem d_awaitAgg (ha : InvA s) (hp : s.runC = true) : Dec cfg s .awaitAgg := by
  unfold Dec
  simp only [step]
  split
  · rename_i r hl hr
    right
    refine Nat.lt_of_le_of_lt (mu_handleRes _ _ _ _ _ (by exact hl)) ?_
    m_simp; grind
  · left; rfl

theorem d_awaitStart (ha : InvA s) (hp : s.runC = true) : Dec cfg s .awaitStart := by
  unfold Dec
  simp only [step]
  split
  · rename_i n r hl ht hr
    right
    refine Nat.lt_of_le_of_lt (mu_handleRes _ _ _ _ _ (by exact hl)) ?_
    a_destruct ha
    m_simp; grind
  · left; rfl

theorem d_awaitRun (ha : InvA s) (hp : s.runC = true) : Dec cfg s .awaitRun := by
  unfold Dec
  simp only [step]
  split
  · rename_i id r rest hl ho hb
    right
    split
    · refine Nat.lt_of_le_of_lt (mu_afterErr _ _) ?_
      split <;> (m_simp; grind)
    · refine Nat.lt_of_le_of_lt (mu_handleRes _ _ _ _ _ (by exact hl)) ?_
      m_simp; grind
  · left; rfl

theorem d_errDeliver (ha : InvA s) (hp : s.runC = true) : Dec cfg s .errDeliver := by
  unfold Dec
  simp only [step]
  split
  · rename_i w r chk hl hm
    right
    refine Nat.lt_of_le_of_lt (mu_afterErr _ _) ?_
    m_simp; grind
  · left; rfl

theorem d_errSuppress (ha : InvA s) (hp : s.runC = true) : Dec cfg s .errSuppress := by
  unfold Dec
  simp only [step]
  split
  · rename_i w r chk hl
    have key : mu (afterErr s chk) < mu s := by
      refine Nat.lt_of_le_of_lt (mu_afterErr _ _) ?_
      m_simp; grind
    repeat' split
    all_goals first | (left; rfl) | (right; exact key)
  · left; rfl

theorem d_mainCancel (ha : InvA s) (hp : s.runC = true) : Dec cfg s .mainCancel := by
  unfold Dec
  simp only [step]
  split
  · right; m_simp; grind
  · left; rfl

theorem d_mainClosed (ha : InvA s) (hp : s.runC = true) : Dec cfg s .mainClosed := by
  unfold Dec
  simp only [step]
  split
  · right; m_simp; grind
  · left; rfl

end

/-- once the run context is cancelled (all instances finished, `Pool.Run` returned, or the caller cancelled),
EVERY effective step decreases the ranking function -/
theorem mu_step (cfg : Cfg) (s : State) (c : Choice) (ha : InvA s) (hp : s.runC = true)
    (hx : s.extC = true → s.poolC = true) : Dec cfg s c := by
  cases c
  · exact d_ext cfg s ha hp hx
  · exact d_warm cfg s _ ha hp
  · exact d_sched cfg s _ ha hp
  · exact d_provRet cfg s _ ha hp
  · exact d_aggRet cfg s _ ha hp
  · exact d_rps cfg s ha hp
  · exact d_startFirst cfg s _ ha hp
  · exact d_startTick cfg s ha hp
  · exact d_startEnd cfg s ha hp
  · exact d_instCreate cfg s _ _ ha hp
  · exact d_instRet cfg s _ _ ha hp
  · exact d_awaitProv cfg s ha hp
  · exact d_awaitAgg cfg s ha hp
  · exact d_awaitStart cfg s ha hp
  · exact d_awaitRun cfg s ha hp
  · exact d_errDeliver cfg s ha hp
  · exact d_errSuppress cfg s ha hp
  · exact d_mainCancel cfg s ha hp
  · exact d_mainClosed cfg s ha hp

end Pandora.Proofs.C05
