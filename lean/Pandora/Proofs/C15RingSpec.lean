/-
C15 helper lemmas: the executable judge `Spec.C15.ringOK` (what the correspondence run applies to the deliveries of the
REAL provider) holds of the deliveries of the model's ring — cyclic delivery of a ring in which scenario i stands
`w_i / gcd(w)` times is periodic, has the right counts in every period and cross-multiplied proportional counts over
every whole number of periods.
-/
import Pandora.Proofs.C15Ring

namespace Pandora.Proofs.C15
open Pandora.Model.C15 Pandora.Spec.C15

/-- the first `n` deliveries of a ring -/
def cycle {α} (R : List α) (n : Nat) : List α := (List.range n).filterMap (deliver R)

theorem deliver_pos {α} (R : List α) (hP : 0 < R.length) (k : Nat) :
    deliver R k = some (R[k % R.length]'(Nat.mod_lt _ hP)) := by
  unfold deliver
  have : (R.length == 0) = false := by simpa using Nat.ne_of_gt hP
  simp [this]

theorem deliver_map {α β} (f : α → β) (R : List α) (k : Nat) : deliver (R.map f) k = (deliver R k).map f := by
  unfold deliver
  by_cases h : R.length = 0
  · simp [h]
  · simp [h]

theorem cycle_map {α β} (f : α → β) (R : List α) (n : Nat) : (cycle R n).map f = cycle (R.map f) n := by
  unfold cycle
  rw [List.map_filterMap]
  congr 1
  funext k
  rw [deliver_map]

theorem cycle_succ {α} (R : List α) (n : Nat) : cycle R (n + 1) = cycle R n ++ (deliver R n).toList := by
  unfold cycle
  rw [List.range_succ, List.filterMap_append]
  cases h : deliver R n <;> simp [h]

theorem cycle_length {α} (R : List α) (hP : 0 < R.length) : ∀ n, (cycle R n).length = n
  | 0 => by simp [cycle]
  | n + 1 => by
    rw [cycle_succ, List.length_append, cycle_length R hP n, deliver_pos R hP]
    simp

theorem cycle_getElem? {α} (R : List α) (hP : 0 < R.length) : ∀ (n i : Nat),
    (cycle R n)[i]? = if i < n then deliver R i else none
  | 0, i => by simp [cycle]
  | n + 1, i => by
    rw [cycle_succ]
    by_cases h : i < n
    · rw [List.getElem?_append_left (by rw [cycle_length R hP]; exact h), cycle_getElem? R hP n i]
      simp [h, Nat.lt_succ_of_lt h]
    · rw [List.getElem?_append_right (by rw [cycle_length R hP]; omega), cycle_length R hP]
      by_cases e : i = n
      · subst e
        simp [deliver_pos R hP]
      · have h1 : ¬ i < n + 1 := by omega
        have h2 : i - n ≠ 0 := by omega
        rw [deliver_pos R hP]
        simp [h1]
        omega

theorem cycle_take {α} (R : List α) (hP : 0 < R.length) (n j : Nat) (hj : j ≤ n) : (cycle R n).take j = cycle R j := by
  apply List.ext_getElem?
  intro i
  rw [List.getElem?_take, cycle_getElem? R hP, cycle_getElem? R hP]
  by_cases h : i < j
  · have : i < n := by omega
    simp [h, this]
  · simp [h]

theorem cycle_period {α} (R : List α) (hP : 0 < R.length) : cycle R R.length = R := by
  apply List.ext_getElem?
  intro i
  rw [cycle_getElem? R hP]
  by_cases h : i < R.length
  · rw [if_pos h, deliver_pos R hP, List.getElem?_eq_getElem h]
    simp [Nat.mod_eq_of_lt h]
  · rw [if_neg h]
    exact (List.getElem?_eq_none (by omega)).symm

theorem cycle_add_period {α} (R : List α) (hP : 0 < R.length) (m : Nat) :
    cycle R ((m + 1) * R.length) = cycle R (m * R.length) ++ R := by
  apply List.ext_getElem?
  intro i
  rw [cycle_getElem? R hP]
  have hlen : (cycle R (m * R.length)).length = m * R.length := cycle_length R hP _
  by_cases h : i < m * R.length
  · rw [List.getElem?_append_left (by rw [hlen]; exact h), cycle_getElem? R hP]
    have : i < (m + 1) * R.length := by rw [Nat.succ_mul]; omega
    simp [h, this]
  · rw [List.getElem?_append_right (by rw [hlen]; omega), hlen]
    by_cases h2 : i < (m + 1) * R.length
    · rw [if_pos h2, deliver_pos R hP]
      have hlt : i - m * R.length < R.length := by rw [Nat.succ_mul] at h2; omega
      rw [List.getElem?_eq_getElem hlt]
      congr 1
      have e : i = (i - m * R.length) + R.length * m := by rw [Nat.mul_comm R.length m]; omega
      have : i % R.length = i - m * R.length := by
        conv => lhs; rw [e]
        rw [Nat.add_mul_mod_self_left, Nat.mod_eq_of_lt hlt]
      simp [this]
    · rw [if_neg h2]
      rw [Nat.succ_mul] at h2
      exact (List.getElem?_eq_none (by omega)).symm

theorem cycle_pass {α} (R : List α) (hP : 0 < R.length) (n j : Nat) (hj : (j + 1) * R.length ≤ n) :
    ((cycle R n).drop (j * R.length)).take R.length = R := by
  apply List.ext_getElem?
  intro i
  rw [List.getElem?_take]
  by_cases h : i < R.length
  · rw [if_pos h, List.getElem?_drop, cycle_getElem? R hP]
    have hlt : j * R.length + i < n := by rw [Nat.succ_mul] at hj; omega
    rw [if_pos hlt, deliver_pos R hP, List.getElem?_eq_getElem h]
    have : (j * R.length + i) % R.length = i := by
      rw [Nat.add_comm, Nat.mul_comm, Nat.add_mul_mod_self_left, Nat.mod_eq_of_lt h]
    simp [this]
  · rw [if_neg h]
    exact (List.getElem?_eq_none (by omega)).symm

theorem count_append {α} [BEq α] (a : α) (l1 l2 : List α) : count a (l1 ++ l2) = count a l1 + count a l2 := by
  simp [count, List.filter_append]

theorem count_cycle_whole {α} [BEq α] (a : α) (R : List α) (hP : 0 < R.length) : ∀ m,
    count a (cycle R (m * R.length)) = m * count a R
  | 0 => by simp [cycle, count]
  | m + 1 => by
    rw [cycle_add_period R hP, count_append, count_cycle_whole a R hP m, Nat.succ_mul]

/-! ### the ring of names -/

/-- the names of the ring: scenario i stands `c i` times in a row -/
def ringNames (c : ScenarioCfg → Nat) (scs : List ScenarioCfg) : List (List Char) :=
  scs.flatMap fun sc => List.replicate (c sc) sc.name

theorem ringNames_length (c : ScenarioCfg → Nat) : ∀ scs, (ringNames c scs).length = (scs.map c).foldl (· + ·) 0
  | [] => rfl
  | sc :: rest => by
    have gen : ∀ (l : List Nat) (a : Nat), l.foldl (· + ·) a = a + l.foldl (· + ·) 0 := by
      intro l
      induction l with
      | nil => intro a; simp
      | cons x xs ih => intro a; simp only [List.foldl_cons]; rw [ih (a + x), ih (0 + x)]; omega
    simp only [ringNames, List.flatMap_cons, List.length_append, List.length_replicate, List.map_cons, List.foldl_cons]
    rw [gen _ (0 + c sc)]
    have := ringNames_length c rest
    simp only [ringNames] at this
    omega

theorem count_ringNames_zero (c : ScenarioCfg → Nat) (n : List Char) : ∀ (scs : List ScenarioCfg),
    n ∉ scs.map (·.name) → count n (ringNames c scs) = 0
  | [], _ => rfl
  | x :: xs, h => by
    have hx : ¬ x.name = n := fun e => h (by simp [e])
    have ih := count_ringNames_zero c n xs (fun hm => h (by simp at hm ⊢; exact Or.inr hm))
    have : ringNames c (x :: xs) = List.replicate (c x) x.name ++ ringNames c xs := by simp [ringNames]
    rw [this, count_append, ih]
    have hb : (x.name == n) = false := by simpa using hx
    simp [count, hb]

theorem count_ringNames (c : ScenarioCfg → Nat) : ∀ (scs : List ScenarioCfg), (scs.map (·.name)).Nodup →
    ∀ sc ∈ scs, count sc.name (ringNames c scs) = c sc
  | [], _, sc, hm => by simp at hm
  | x :: xs, hnd, sc, hm => by
    rw [List.map_cons, List.nodup_cons] at hnd
    have : ringNames c (x :: xs) = List.replicate (c x) x.name ++ ringNames c xs := by simp [ringNames]
    rw [this, count_append]
    rcases List.mem_cons.mp hm with e | e
    · subst e
      rw [count_ringNames_zero c sc.name xs hnd.1]
      simp [count]
    · have hne : ¬ x.name = sc.name := by
        intro heq
        exact hnd.1 (heq ▸ List.mem_map.mpr ⟨sc, e, rfl⟩)
      have hb : (x.name == sc.name) = false := by simpa using hne
      rw [count_ringNames c xs hnd.2 sc e]
      simp [count, hb]

theorem ring_names_eq {ρ} (F : ScenarioCfg → Scenario ρ) (hF : ∀ x, (F x).name = x.name) (c : ScenarioCfg → Nat) :
    ∀ scs : List ScenarioCfg, (scs.flatMap fun sc => List.replicate (c sc) (F sc)).map (·.name) = ringNames c scs
  | [] => rfl
  | x :: xs => by
    have ih := ring_names_eq F hF c xs
    simp only [ringNames] at ih ⊢
    simp [List.flatMap_cons, List.map_append, ih, hF]

theorem zip_map_pair {α β γ} (f : α → β) (h : α → γ) : ∀ l : List α, (l.map f).zip (l.map h) = l.map fun x => (f x, h x)
  | [] => rfl
  | a :: as => by simp only [List.map_cons, List.zip_cons_cons, zip_map_pair f h as]

theorem sub_mod_period (k P : Nat) (h : P ≤ k) : (k - P) % P = k % P := by
  have e : k = (k - P) + P := by omega
  conv => rhs; rw [e]
  exact (Nat.add_mod_right _ _).symm

/-- `ringOK` holds of the cyclic delivery of a ring of names with per-period counts `w / g` -/
theorem ringOK_cycle (scs : List ScenarioCfg) (hnd : (scs.map (·.name)).Nodup) (hw : ∀ sc ∈ scs, 0 ≤ sc.weight) (n : Nat) :
    let w := effW scs.length
    let g := gcdList (scs.map w)
    ringOK (scs.map (·.name)) (scs.map (·.weight)) (cycle (ringNames (fun sc => w sc / g) scs) n) = true := by
  intro w g
  unfold ringOK
  rw [effWeights_eq scs]
  simp only []
  have hper : ((scs.map w).map (· / g)).foldl (· + ·) 0 = (ringNames (fun sc => w sc / g) scs).length := by
    rw [ringNames_length, List.map_map]; rfl
  rw [hper]
  by_cases hne : scs = []
  · subst hne
    simp [gcdList, cycle, ringNames, deliver]
  · obtain ⟨s0, hs0⟩ := List.exists_mem_of_ne_nil scs hne
    have hdvd : ∀ sc ∈ scs, g ∣ w sc := fun sc hsc => gcdList_dvd _ _ (List.mem_map.mpr ⟨sc, hsc, rfl⟩)
    have hwpos : ∀ sc ∈ scs, 0 < w sc := fun sc hsc => effW_pos _ sc (hw sc hsc)
    have hgpos : 0 < g := Nat.pos_of_dvd_of_pos (hdvd s0 hs0) (hwpos s0 hs0)
    have hcpos : ∀ sc ∈ scs, 0 < w sc / g := fun sc hsc =>
      Nat.div_pos (Nat.le_of_dvd (hwpos sc hsc) (hdvd sc hsc)) hgpos
    have hcount : ∀ sc ∈ scs, count sc.name (ringNames (fun sc => w sc / g) scs) = w sc / g :=
      count_ringNames (fun sc => w sc / g) scs hnd
    have hzip : (scs.map (·.name)).zip (scs.map w) = scs.map fun sc => (sc.name, w sc) :=
      zip_map_pair _ _ scs
    obtain ⟨R, hR⟩ : ∃ R, R = ringNames (fun sc => w sc / g) scs := ⟨_, rfl⟩
    rw [← hR] at hcount ⊢
    have hP : 0 < R.length := by
      have hc := hcount s0 hs0
      have hpos := hcpos s0 hs0
      cases R with
      | nil => simp [count] at hc; omega
      | cons _ _ => simp
    have hg0 : (g == 0) = false := by simpa using Nat.ne_of_gt hgpos
    have hP0 : (R.length == 0) = false := by simpa using Nat.ne_of_gt hP
    have hlen : (cycle R n).length = n := cycle_length R hP n
    rw [hg0, hP0, hlen, hzip]
    simp only [Bool.or_false, Bool.false_eq_true, if_false, Bool.and_eq_true]
    refine ⟨?_, ?_⟩
    · -- counts in every complete pass
      rw [List.all_eq_true]
      intro j hj
      rw [List.mem_range] at hj
      have hpass : (j + 1) * R.length ≤ n := (Nat.le_div_iff_mul_le hP).mp hj
      rw [cycle_pass R hP n j hpass]
      rw [List.all_eq_true]
      intro p hp
      obtain ⟨sc, hsc, rfl⟩ := List.mem_map.mp hp
      simp only []
      rw [hcount sc hsc]
      exact beq_self_eq_true _
    · -- cross-multiplied proportionality over whole periods
      rw [cycle_take R hP n _ (Nat.div_mul_le_self n R.length)]
      rw [List.all_eq_true]
      intro pi hpi
      obtain ⟨si, hsi, rfl⟩ := List.mem_map.mp hpi
      rw [List.all_eq_true]
      intro pj hpj
      obtain ⟨sj, hsj, rfl⟩ := List.mem_map.mp hpj
      simp only []
      rw [count_cycle_whole si.name R hP, count_cycle_whole sj.name R hP, hcount si hsi, hcount sj hsj]
      have := cross_mul g (w si) (w sj) (hdvd si hsi) (hdvd sj hsj)
      simp only [beq_iff_eq]
      rw [Nat.mul_assoc, Nat.mul_assoc, this]

end Pandora.Proofs.C15
