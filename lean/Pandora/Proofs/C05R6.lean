/-
C05, round 6 — lemmas about the provider model (`Model/C05Prov.lean`) and its composition with the pool model.
-/
import Pandora.Model.C05Prov
import Pandora.Proofs.C05Swallow

namespace Pandora.Proofs.C05
open Pandora.Model.C05 Pandora.Model.C05.Prov

/-! ### `JSONAmmoDecoder.Decode` -/

theorem jsonDecode_eof (d : DecIn) (h : jsonDecode d = .eof) : d.noValue = true ∧ d.readErr0 = some true := by
  obtain ⟨nv, r0, pf, r1⟩ := d
  cases nv <;> cases pf <;> rcases r0 with _ | (_ | _) <;> rcases r1 with _ | (_ | _) <;>
    simp_all [jsonDecode, errOfPtr]

theorem jsonDecode_ok (d : DecIn) (h : jsonDecode d = .ok) : d.parseFails = false := by
  obtain ⟨nv, r0, pf, r1⟩ := d
  cases nv <;> cases pf <;> rcases r0 with _ | (_ | _) <;> rcases r1 with _ | (_ | _) <;>
    simp_all [jsonDecode, errOfPtr]

/-- an ammo that the end of the source cuts short is never the regular end -/
theorem jsonDecode_truncated (d : DecIn) (h0 : d.noValue = false) (hp : d.parseFails = true) (h1 : d.readErr1 = some true) :
    jsonDecode d = .unexpectedEof := by
  simp [jsonDecode, h0, hp, h1]

/-! ### the loop of `DecodeProvider.Run` -/

theorem runLoop_nil (limit : Nat) (ctxAt : Option Nat) (ds : List DecRes) : ∀ (n m : Nat),
    runLoop limit ctxAt n ds = some (.nil, m) →
    n ≤ m ∧ (∀ j, j < m - n → ds[j]? = some .ok) ∧
    ((limit ≠ 0 ∧ limit ≤ m) ∨ ds[m - n]? = some .eof ∨ (ctxAt = some m ∧ ds[m - n]? = some .ok)) := by
  induction ds with
  | nil =>
    intro n m h
    simp only [runLoop] at h
    split at h
    · rename_i hl
      cases h
      exact ⟨Nat.le_refl _, by intro j hj; omega, Or.inl hl⟩
    · cases h
  | cons d rest ih =>
    intro n m h
    simp only [runLoop] at h
    split at h
    · rename_i hl
      cases h
      exact ⟨Nat.le_refl _, by intro j hj; omega, Or.inl hl⟩
    · cases d with
      | eof =>
        simp only at h
        cases h
        refine ⟨Nat.le_refl _, by intro j hj; omega, Or.inr (Or.inl ?_)⟩
        simp
      | ok =>
        simp only at h
        split at h
        · rename_i hc
          cases h
          refine ⟨Nat.le_refl _, by intro j hj; omega, Or.inr (Or.inr ⟨hc, ?_⟩)⟩
          simp
        · obtain ⟨h1, h2, h3⟩ := ih (n + 1) m h
          refine ⟨by omega, ?_, ?_⟩
          · intro j hj
            cases j with
            | zero => simp
            | succ j => simp only [List.getElem?_cons_succ]; exact h2 j (by omega)
          · have e : m - n = (m - (n + 1)) + 1 := by omega
            rw [e]
            simpa only [List.getElem?_cons_succ] using h3
      | unexpectedEof => simp at h
      | readErr => simp at h
      | parseErr => simp at h

theorem runLoop_err (limit : Nat) (ctxAt : Option Nat) (ds : List DecRes) : ∀ (n m i : Nat) (e : DecRes),
    runLoop limit ctxAt n ds = some (.decodeFailed i e, m) →
    m = i ∧ n ≤ i ∧ ds[i - n]? = some e ∧ e ≠ .ok ∧ e ≠ .eof := by
  induction ds with
  | nil =>
    intro n m i e h
    simp only [runLoop] at h
    split at h <;> cases h
  | cons d rest ih =>
    intro n m i e h
    simp only [runLoop] at h
    split at h
    · cases h
    · cases d with
      | eof => simp at h
      | ok =>
        simp only at h
        split at h
        · cases h
        · obtain ⟨h1, h2, h3, h4⟩ := ih (n + 1) m i e h
          refine ⟨h1, by omega, ?_, h4⟩
          have e' : i - n = (i - (n + 1)) + 1 := by omega
          rw [e']
          simpa only [List.getElem?_cons_succ] using h3
      | unexpectedEof =>
        simp only [Option.some.injEq, Prod.mk.injEq, RunRes.decodeFailed.injEq] at h
        obtain ⟨⟨rfl, rfl⟩, rfl⟩ := h
        simp
      | readErr =>
        simp only [Option.some.injEq, Prod.mk.injEq, RunRes.decodeFailed.injEq] at h
        obtain ⟨⟨rfl, rfl⟩, rfl⟩ := h
        simp
      | parseErr =>
        simp only [Option.some.injEq, Prod.mk.injEq, RunRes.decodeFailed.injEq] at h
        obtain ⟨⟨rfl, rfl⟩, rfl⟩ := h
        simp

/-- `j` ammo and then an answer that is neither an ammo nor `io.EOF`, within the limit and before any cancel: the run
fails with exactly that answer, at exactly that ammo -/
theorem runLoop_first_bad (limit : Nat) (ctxAt : Option Nat) (e : DecRes) (rest : List DecRes)
    (he1 : e ≠ .ok) (he2 : e ≠ .eof) : ∀ (j n : Nat),
    (limit = 0 ∨ n + j < limit) → (∀ c, ctxAt = some c → c < n ∨ n + j ≤ c) →
    runLoop limit ctxAt n (List.replicate j .ok ++ e :: rest) = some (.decodeFailed (n + j) e, n + j) := by
  intro j
  induction j with
  | zero =>
    intro n hl _
    have hn : ¬(limit ≠ 0 ∧ limit ≤ n) := by omega
    simp only [List.replicate_zero, List.nil_append, Nat.add_zero]
    unfold runLoop
    rw [if_neg hn]
    cases e <;> first | exact absurd rfl he1 | exact absurd rfl he2 | rfl
  | succ j ih =>
    intro n hl hc
    have hn : ¬(limit ≠ 0 ∧ limit ≤ n) := by omega
    have hcn : ¬(ctxAt = some n) := by intro h; have := hc n h; omega
    simp only [List.replicate_succ, List.cons_append]
    unfold runLoop
    rw [if_neg hn]
    show (if ctxAt = some n then _ else _) = _
    rw [if_neg hcn]
    have := ih (n + 1) (by omega) (by intro c h; have := hc c h; omega)
    rw [this]
    have e1 : n + 1 + j = n + (j + 1) := by omega
    rw [e1]

/-! ### composition with the pool model: a component error, once returned, stays on record -/

@[simp] theorem ce_cancelAll (s : State) : (cancelAll s).compErrs = s.compErrs := rfl
@[simp] theorem ce_mainReturn (s : State) (r : PRes) : (mainReturn s r).compErrs = s.compErrs := rfl
@[simp] theorem ce_finish (s : State) : (finish s).compErrs = s.compErrs := by
  unfold finish; split <;> rfl
@[simp] theorem ce_checkAll (s : State) : (checkAll s).compErrs = s.compErrs := by
  unfold checkAll; repeat' split
  all_goals rfl
@[simp] theorem ce_afterErr (s : State) (c : Bool) : (afterErr s c).compErrs = s.compErrs := by
  unfold afterErr; cases c <;> simp
@[simp] theorem ce_handleRes (s : State) (w : Wrap) (r : Ret) (d c : Bool) :
    (handleRes s w r d c).compErrs = s.compErrs := by
  unfold handleRes; split <;> simp
@[simp] theorem ce_sendRes (s : State) (id : Nat) (r : Ret) : (sendRes s id r).compErrs = s.compErrs := by
  unfold sendRes; split <;> rfl

theorem ce_addErr (s : State) (r : Ret) : ∃ l, (addErr s r).compErrs = s.compErrs ++ l := by
  cases r with
  | err e => exact ⟨[e], rfl⟩
  | ok => exact ⟨[], by simp [addErr]⟩
  | ctx => exact ⟨[], by simp [addErr]⟩
  | ooa => exact ⟨[], by simp [addErr]⟩

/-- a step never removes a recorded component error -/
theorem compErrs_step_append (cfg : Cfg) (s : State) (c : Choice) : ∃ l, (step cfg s c).compErrs = s.compErrs ++ l := by
  cases c with
  | provRet r =>
    simp only [step]; split
    · obtain ⟨l, hl⟩ := ce_addErr { s with prov := .ready r } r; exact ⟨l, hl⟩
    · exact ⟨[], by simp⟩
  | aggRet r =>
    simp only [step]; split
    · obtain ⟨l, hl⟩ := ce_addErr { s with agg := .ready r } r; exact ⟨l, hl⟩
    · exact ⟨[], by simp⟩
  | instRet i r =>
    simp only [step]; split
    · split
      · exact ⟨[], by simp⟩
      · rename_i id g _ _
        obtain ⟨l, hl⟩ := ce_addErr { s with live := s.live.eraseIdx i, retired := s.retired ++ [closeGun g] } r
        exact ⟨l, by rw [ce_sendRes]; exact hl⟩
    · exact ⟨[], by simp⟩
  | _ =>
    simp only [step]
    repeat' split
    all_goals first
      | (refine ⟨[], ?_⟩; simp; done)
      | exact ⟨_, rfl⟩
      | (refine ⟨?_, ?_⟩; rotate_left; rw [ce_sendRes])

theorem compErrs_step (cfg : Cfg) (s : State) (c : Choice) (h : s.compErrs ≠ []) : (step cfg s c).compErrs ≠ [] := by
  obtain ⟨l, hl⟩ := compErrs_step_append cfg s c
  rw [hl]
  intro hh
  exact h (List.append_eq_nil_iff.1 hh).1

theorem compErrs_run (cfg : Cfg) (post : List Choice) : ∀ (s : State), s.compErrs ≠ [] → (post.foldl (step cfg) s).compErrs ≠ [] := by
  induction post with
  | nil => intro s h; exact h
  | cons c rest ih => intro s h; exact ih _ (compErrs_step cfg s c h)

end Pandora.Proofs.C05
