/-
C12 — the statement layer (`Model/C12Fine`) and the pool layer reach the same pool states: every statement-level run is a
run of pool-layer events (`fineRun_refines`), and a pass whose three statements run back to back is the atomic pass
(`pass_back_to_back`).  Core Lean only.
-/
import Pandora.Model.C12Fine
import Pandora.Proofs.C12Pool

namespace Pandora.Proofs.C12
open Pandora.Model.C04 Pandora.Model.C12 Pandora.Proofs.C04 Pandora.Go.C12

/-- a statement-level step is at most one event of the pool layer -/
theorem fineStep_refines (c : Cfg) (f : FSt) (ev : FEvent) :
    ∃ pevs, pevs.length ≤ 1 ∧ (fineStep c f ev).p = poolRun c f.p pevs := by
  cases ev with
  | pool pev =>
    simp only [fineStep]
    split
    · exact ⟨[], by simp, rfl⟩
    · exact ⟨[pev], by simp, rfl⟩
  | head id cd left e =>
    simp only [fineStep]
    split
    · exact ⟨[], by simp, rfl⟩
    · split
      · exact ⟨[.iter id (headPass cd left) e false], by simp, rfl⟩
      · exact ⟨[], by simp, rfl⟩
  | acquire id ok =>
    simp only [fineStep]
    split
    · exact ⟨[], by simp, rfl⟩
    · split
      · exact ⟨[], by simp, rfl⟩
      · exact ⟨[.iter id acquirePass false false], by simp, rfl⟩
  | waitNext id cd ne =>
    simp only [fineStep]
    split
    · exact ⟨[], by simp, rfl⟩
    · by_cases h : (!cd && ne) = true
      · exact ⟨[.iter id waitPass false true], by simp, by simp only [h, if_true]; rfl⟩
      · exact ⟨[], by simp, by simp only [h]; rfl⟩

theorem poolRun_append (c : Cfg) (p : PSt) (a b : List PEvent) : poolRun c p (a ++ b) = poolRun c (poolRun c p a) b := by
  simp [poolRun, List.foldl_append]

/-- statement-level interleaving adds nothing: the pool state of every run of the statement layer is reached by a run of
the pool layer (with at most as many events) -/
theorem fineRun_refines (c : Cfg) (f : FSt) (evs : List FEvent) :
    ∃ pevs, pevs.length ≤ evs.length ∧ (fineRun c f evs).p = poolRun c f.p pevs := by
  induction evs generalizing f with
  | nil => exact ⟨[], by simp, rfl⟩
  | cons ev rest ih =>
    obtain ⟨p1, hl1, h1⟩ := fineStep_refines c f ev
    obtain ⟨p2, hl2, h2⟩ := ih (fineStep c f ev)
    refine ⟨p1 ++ p2, by simp only [List.length_append, List.length_cons]; omega, ?_⟩
    show (fineRun c (fineStep c f ev) rest).p = _
    rw [h2, h1, poolRun_append]

/-- what a pool-layer pass does, by what it saw -/
theorem poolStep_iter_eq (c : Cfg) (p : PSt) (id : Nat) (it : RunIter) (e ne : Bool)
    (hid : p.base.running.contains id = true) (hm : iterMatches p.base it e ne = true) :
    poolStep c p (.iter id it e ne) =
      match iterOutcome it e with
      | none => { p with base := if firesCallback c.perInstance it ne then step c p.base .rpsFinished else p.base }
      | some r => leave p (if firesCallback c.perInstance it ne then step c p.base .rpsFinished else p.base) id r := by
  simp only [poolStep, hid, hm, Bool.not_true, Bool.or_self, Bool.false_eq_true, if_false]
  cases iterOutcome it e <;> rfl

/-- Conversely the statement layer contains the pool layer: the three statements of a pass of a running instance that is at
its loop head, executed back to back with the readings of a pool-layer pass the state allows, do to the pool state
exactly what that atomic pass does. -/
theorem pass_back_to_back (c : Cfg) (f : FSt) (id : Nat) (it : RunIter) (e ne : Bool)
    (hid : f.p.base.running.contains id = true) (hpc : f.pc id = .head)
    (hm : iterMatches f.p.base it e ne = true) :
    (fineRun c f (passEvents id it e ne)).p = poolStep c f.p (.iter id it e ne) := by
  have hid' : id ∈ f.p.base.running := by simpa using hid
  rw [poolStep_iter_eq c f.p id it e ne hid hm]
  simp only [passEvents, fineRun, List.foldl_cons, List.foldl_nil]
  by_cases hfin : instFinished it.ctxDone it.left = true
  · -- the loop head says "finished": `return ctx.Err()`; the two later statements are not reached
    have hmh : iterMatches f.p.base (headPass it.ctxDone it.left) e false = true := by
      revert hm
      simp only [iterMatches, headPass]
      cases it.ctxDone <;> cases e <;> cases f.p.base.runCtxDone <;> cases ne <;> cases it.waitOk <;> simp
    have hout : iterOutcome (headPass it.ctxDone it.left) e = iterOutcome it e := by
      simp [iterOutcome, instRun, headPass, hfin]
    have hcb : firesCallback c.perInstance (headPass it.ctxDone it.left) false = firesCallback c.perInstance it ne := by
      simp [firesCallback, reachesWait, headPass, hfin]
    have h1 : fineStep c f (.head id it.ctxDone it.left e) =
        { f with p := poolStep c f.p (.iter id (headPass it.ctxDone it.left) e false) } := by
      simp [fineStep, hid', hpc, hfin]
    rw [h1]
    have h2 : ∀ g : FSt, g.pc id = .head → fineStep c g (.acquire id it.ammoOk) = g := by
      intro g hg
      simp [fineStep, hg]
    have h3 : ∀ g : FSt, g.pc id = .head → fineStep c g (.waitNext id false ne) = g := by
      intro g hg
      simp [fineStep, hg]
    have hg1 : ({ f with p := poolStep c f.p (.iter id (headPass it.ctxDone it.left) e false) } : FSt).pc id = .head := hpc
    rw [h2 _ hg1, h3 _ hg1]
    show poolStep c f.p (.iter id (headPass it.ctxDone it.left) e false) = _
    rw [poolStep_iter_eq c f.p id _ e false hid hmh, hout, hcb]
  · have hfin' : instFinished it.ctxDone it.left = false := by simpa using hfin
    have h1 : fineStep c f (.head id it.ctxDone it.left e) = { f with pc := setPc f.pc id .body } := by
      simp [fineStep, hid', hpc, hfin']
    rw [h1]
    have hcd : it.ctxDone = false := by
      cases hc : it.ctxDone with
      | false => rfl
      | true => simp [instFinished, hc] at hfin'
    have hl0 : (it.left == 0) = false := by
      simpa [instFinished, hcd] using hfin'
    have hfin2 : instFinished false it.left = false := by
      have h0 := hfin'
      rw [hcd] at h0
      exact h0
    by_cases ha : it.ammoOk = true
    · -- ammo granted: `Wait`; the pass does not end the instance
      have h2 : fineStep c { f with pc := setPc f.pc id .body } (.acquire id it.ammoOk) =
          { f with pc := setPc (setPc f.pc id .body) id .wait } := by
        simp [fineStep, hid', setPc, ha]
      rw [h2]
      have hout : iterOutcome it e = none := by
        simp [iterOutcome, instRun, hfin', instBody, ha, exitReasonOf]
      have hcb : firesCallback c.perInstance it ne = (!c.perInstance && ne) := by
        simp [firesCallback, reachesWait, hfin2, ha, hcd, hl0]
      rw [hout, hcb]
      by_cases hne : ne = true
      · subst hne
        have hmw : iterMatches f.p.base waitPass false true = true := by
          simp [iterMatches, waitPass]
        have h3 : (fineStep c { f with pc := setPc (setPc f.pc id .body) id .wait } (.waitNext id false true)).p =
            poolStep c f.p (.iter id waitPass false true) := by
          simp [fineStep, hid', setPc]
        rw [h3, poolStep_iter_eq c f.p id _ false true hid hmw]
        have ho2 : iterOutcome waitPass false = none := by decide
        have hc2 : firesCallback c.perInstance waitPass true = (!c.perInstance && true) := by
          simp [firesCallback, reachesWait, waitPass, instFinished]
        rw [ho2, hc2]
      · have hne' : ne = false := by simpa using hne
        subst hne'
        have h3 : (fineStep c { f with pc := setPc (setPc f.pc id .body) id .wait } (.waitNext id false false)).p = f.p := by
          simp [fineStep, hid', setPc]
        rw [h3]
        simp
    · -- refused: `return outOfAmmoErr`
      have ha' : it.ammoOk = false := by simpa using ha
      have hma : iterMatches f.p.base acquirePass false false = true := by
        simp [iterMatches, acquirePass]
      have h2 : fineStep c { f with pc := setPc f.pc id .body } (.acquire id it.ammoOk) =
          { p := poolStep c f.p (.iter id acquirePass false false), pc := setPc (setPc f.pc id .body) id .head } := by
        simp [fineStep, hid', setPc, ha']
      rw [h2]
      have h3 : ∀ g : FSt, g.pc id = .head → fineStep c g (.waitNext id false ne) = g := by
        intro g hg
        simp [fineStep, hg]
      rw [h3 _ (by simp [setPc])]
      show poolStep c f.p (.iter id acquirePass false false) = _
      rw [poolStep_iter_eq c f.p id _ false false hid hma]
      have ho1 : iterOutcome acquirePass false = some .ammoEnd := by decide
      have ho2 : iterOutcome it e = some .ammoEnd := by
        simp [iterOutcome, instRun, hfin', instBody, ha', exitReasonOf]
      have hc1 : firesCallback c.perInstance acquirePass false = false := by
        simp [firesCallback, reachesWait, acquirePass]
      have hc2 : firesCallback c.perInstance it ne = false := by
        simp [firesCallback, reachesWait, hfin2, ha', hcd, hl0]
      rw [ho1, ho2, hc1, hc2]

end Pandora.Proofs.C12
