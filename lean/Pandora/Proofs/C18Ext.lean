/-
C18 — further statements about a whole run: the invocation structure of every operation for EVERY shape
(`structOk`) and the per-call structure without the exclusion of a shared default configuration (`percallOk`).
-/
import Pandora.Proofs.C18Run

set_option linter.unusedSimpArgs false

namespace Pandora.Proofs.C18
open Pandora.Model.C18 Pandora.Spec.C18

/-! ### kinds of the invocations of one operation -/

theorem dfltEvs_kinds (sh : Shape) :
    (dfltEvs sh).map kindOf = (if sh.cfg = .none ∨ sh.dflt = .absent then [] else [K.d]) := by
  unfold dfltEvs; split <;> simp [kindOf]

theorem fillEvs_kinds (sh : Shape) (w : World) (a b : Nat) :
    (fillEvs sh w a b).map kindOf = (if w.hasFill then [K.f] else []) := by
  unfold fillEvs; split <;> simp [kindOf]

/-- one `callSpec` step: `Get`'s invocations (if it runs `Get`), then the constructor unless fillConf failed, then —
for a factory constructor whose constructor call succeeded — the factory it returned -/
theorem callSpec_kinds (sh : Shape) (w : World) (doGet vf pan : Bool) (st : St) :
    (callSpec sh w doGet vf pan st).2.2.evs.map kindOf =
      (if doGet then getKinds sh w else []) ++
        (if fillFailed (callSpec sh w doGet vf pan st).2.2 then []
         else K.c :: (if vf && !ctorFailed (callSpec sh w doGet vf pan st).2.2 then [K.r] else [])) := by
  unfold callSpec
  by_cases h1 : w.hasFill = true <;> by_cases h2 : w.fillFault st.fills = true <;>
  by_cases hcf : ctorFails sh w st.ctors = true <;> by_cases hff : factFails sh w st.facts = true <;>
  by_cases hd : (sh.cfg = .none ∨ sh.dflt = .absent) <;>
  cases doGet <;> cases vf <;>
  simp [getKinds, fillFails, fillEvs, dfltEvs, h1, h2, hcf, hff, hd, kindOf, fillFailed, ctorFailed]

theorem facSpec_kinds (sh : Shape) (w : World) (rf : RegFac) (pan : Bool) (st : St) :
    (facSpec sh w rf pan st).2.2.evs.map kindOf = [K.r] := by
  unfold facSpec
  by_cases hff : factFails sh w st.facts = true <;> simp [hff, kindOf]

/-- the creation step (`r`: whatever result it is given) -/
theorem createSpec_kinds (sh : Shape) (w : World) (n : Nat) (st : St) (r : Res) :
    (createSpec sh w n st).2.2.1.map kindOf =
      (if sh.factory then
        getKinds sh w ++ (if fillFailed ⟨(createSpec sh w n st).2.2.1, r⟩ then [] else [K.c])
       else if sh.cfg = .none && w.hasFill then [K.f] else []) := by
  unfold createSpec
  by_cases h1 : w.hasFill = true <;> by_cases h2 : w.fillFault st.fills = true <;>
  by_cases hcf : ctorFails sh w st.ctors = true <;>
  by_cases hd : sh.dflt = .absent <;>
  by_cases hc : sh.cfg = .none <;>
  cases hfa : sh.factory <;>
  simp [getKinds, fillFails, fillEvs, dfltEvs, h1, h2, hcf, hd, hc, hfa, kindOf, fillFailed]

/-! ### a constructor without a config never sees one -/

theorem callSpec_noAddr (sh : Shape) (w : World) (doGet vf pan : Bool) (st : St) (hc : sh.cfg = .none) :
    noAddr (callSpec sh w doGet vf pan st).2.2 = true := by
  unfold callSpec
  by_cases h1 : w.hasFill = true <;> by_cases h2 : w.fillFault st.fills = true <;>
  by_cases hcf : ctorFails sh w st.ctors = true <;> by_cases hff : factFails sh w st.facts = true <;>
  cases doGet <;> cases vf <;>
  simp [noAddr, fillFails, fillEvs, dfltEvs, cellOf, shownConf, h1, h2, hcf, hff, hc, fillAddrEv, ctorConfEv]

theorem facSpec_noAddr (sh : Shape) (w : World) (rf : RegFac) (pan : Bool) (st : St) :
    noAddr (facSpec sh w rf pan st).2.2 = true := by
  unfold facSpec
  by_cases hff : factFails sh w st.facts = true <;> simp [hff, noAddr, fillAddrEv, ctorConfEv]

theorem createSpec_noAddr (sh : Shape) (w : World) (n : Nat) (st : St) (r : Res) (hc : sh.cfg = .none) :
    noAddr ⟨(createSpec sh w n st).2.2.1, r⟩ = true := by
  unfold createSpec
  by_cases h1 : w.hasFill = true <;> by_cases h2 : w.fillFault st.fills = true <;>
  by_cases hcf : ctorFails sh w st.ctors = true <;>
  cases hfa : sh.factory <;>
  simp [noAddr, fillFails, fillEvs, dfltEvs, cellOf, shownConf, h1, h2, hcf, hc, hfa, fillAddrEv, ctorConfEv]

/-! ### `structOk` of a run -/

theorem fillFailed_congr (evs : List Ev) (r r' : Res) : fillFailed ⟨evs, r⟩ = fillFailed ⟨evs, r'⟩ := rfl

theorem struct_phase (inp : Input) (st : St) : structOk inp (phaseObs inp st) = true := by
  have hcase := phase_cases inp st
  generalize phaseObs inp st = obs at hcase ⊢
  have hfin : ∀ (P : Prop), (inp.sh.cfg = .none → ∀ s ∈ obs.steps, noAddr s = true) →
      (inp.sh.cfg != .none || obs.steps.all noAddr) = true := by
    intro _ hh
    by_cases hc : inp.sh.cfg = .none
    · simp only [Bool.or_eq_true, List.all_eq_true]; exact .inr (hh hc)
    · simp [hc]
  rcases hcase with ⟨hf, hsteps, _⟩ | ⟨hf, hn, _, hcr⟩
  · -- k calls of `New`
    have hrec : reconfigures inp = true := by simp [reconfigures, hf]
    have := iter_inv (step (regNew inp.sh inp.w)) (fun _ => True)
      (fun s => s.evs.map kindOf = callKindsBy fillFailed inp s ∧ (inp.sh.cfg = .none → noAddr s = true))
      (fun st _ => ⟨trivial, by
        rw [(tri_step (step_regNew inp.sh inp.w st)).2.2]
        refine ⟨?_, fun hc => callSpec_noAddr inp.sh inp.w true inp.sh.factory false st hc⟩
        rw [callSpec_kinds]
        simp [callKindsBy, hrec]⟩) inp.k (st0 st) trivial
    have hcalls : callsOf inp obs = (newCalls inp st).2 := by simp [callsOf, hf, hsteps]
    simp only [structOk, structOkBy, hcalls, hf, beq_self_eq_true, Bool.true_or, Bool.true_and, Bool.and_eq_true,
      List.all_eq_true, beq_iff_eq]
    refine ⟨fun s hs => (this.2 s hs).1, hfin True fun hc s hs => ?_⟩
    rw [hsteps] at hs
    exact (this.2 s hs).2 hc
  · -- `NewFactory` (+ calls)
    obtain ⟨q1, q2, q3, q4⟩ := quad_proj (create_eq inp.sh inp.w inp.form.numOut (st0 st) rfl)
    have hcreate : ∀ r : Res, (⟨(created inp st).1.log.reverse, r⟩ : Step).evs.map kindOf =
        createKindsBy fillFailed inp ⟨(created inp st).1.log.reverse, r⟩ ∧
        (inp.sh.cfg = .none → noAddr ⟨(created inp st).1.log.reverse, r⟩ = true) := by
      intro r
      rw [q3]
      refine ⟨?_, fun hc => createSpec_noAddr inp.sh inp.w _ _ r hc⟩
      simp only [createKindsBy]
      rw [createSpec_kinds inp.sh inp.w inp.form.numOut (st0 st) r]
    have hshape : ∀ c calls, obs.steps = c :: calls →
        (c.evs.map kindOf = createKindsBy fillFailed inp c ∧ (inp.sh.cfg = .none → noAddr c = true)) →
        (∀ s ∈ calls, s.evs.map kindOf = callKindsBy fillFailed inp s ∧ (inp.sh.cfg = .none → noAddr s = true)) →
        structOk inp obs = true := by
      intro c calls hst a1 a2
      have hcalls : callsOf inp obs = calls := by
        cases hform : inp.form with
        | component => exact absurd hform hf
        | facNoErr | facErr => simp [callsOf, hst]
      simp only [structOk, structOkBy, hcalls, hst, List.head?_cons, a1.1, beq_self_eq_true, Bool.or_true,
        Bool.true_and, Bool.and_eq_true, List.all_eq_true, beq_iff_eq]
      refine ⟨fun s hs => (a2 s hs).1, ?_⟩
      have := hfin True fun hc s hs => by
        rw [hst] at hs
        simp only [List.mem_cons] at hs
        rcases hs with rfl | hs
        · exact a1.2 hc
        · exact (a2 s hs).2 hc
      rw [hst] at this
      exact this
    rcases hcr with ⟨e, _, hsteps⟩ | ⟨fac, hfac, hsteps, _⟩
    · exact hshape _ _ hsteps (hcreate _) (by simp)
    · refine hshape _ _ hsteps (hcreate _) ?_
      have hfac' := hfac
      rw [q4] at hfac'
      have hok := createSpec_facOk inp.sh inp.w inp.form.numOut (st0 st) fac hfac'
      have := iter_inv (step (callFac inp.sh inp.w fac)) (fun _ => True)
        (fun s => s.evs.map kindOf = callKindsBy fillFailed inp s ∧ (inp.sh.cfg = .none → noAddr s = true))
        (fun st _ => ⟨trivial, by
          rcases callFac_cases inp.sh inp.w inp.form.numOut hn fac hok st with ⟨hfa, doGet, hdg, hh⟩ | ⟨hfa, rf, _, hh⟩
          · rw [(tri_step hh).2.2]
            refine ⟨?_, fun hc => callSpec_noAddr inp.sh inp.w doGet false _ st hc⟩
            rw [callSpec_kinds]
            by_cases hc : inp.sh.cfg = .none
            · have hdg' : doGet = false := by
                cases doGet
                · rfl
                · exact absurd hc (hdg.mp rfl)
              have hnf : fillFailed (callSpec inp.sh inp.w false false (inp.form.numOut == 1) st).2.2 = false := by
                unfold callSpec
                by_cases hcf : ctorFails inp.sh inp.w st.ctors = true <;> simp [hcf, fillFailed]
              simp [callKindsBy, reconfigures, hf, hfa, hc, hdg', hnf]
            · have hdg' : doGet = true := hdg.mpr hc
              simp [callKindsBy, reconfigures, hf, hfa, hc, hdg']
          · rw [(tri_step hh).2.2]
            refine ⟨?_, fun _ => facSpec_noAddr inp.sh inp.w rf _ st⟩
            rw [facSpec_kinds]
            simp [callKindsBy, reconfigures, hf, hfa]⟩) inp.k (created inp st).1 trivial
      exact this.2

theorem struct_run {inp : Input} {obs : Obs} (h : run inp = some obs) : structOk inp obs = true := by
  rw [(run_eq_phase h).2]; exact struct_phase inp _

/-! ### config and errors of a phase started in any state -/

theorem config_phase (inp : Input) (st : St) (hB : SharedOk inp.sh inp.w st.heap) :
    ∀ p ∈ products (phaseObs inp st).steps, SeenOk inp.sh inp.w p.seen := by
  have hcase := phase_cases inp st
  generalize phaseObs inp st = obs at hcase ⊢
  intro p hp
  simp only [products, List.mem_filterMap] at hp
  obtain ⟨s, hs, hsp⟩ := hp
  have hres : s.res = .ok p := by
    unfold product? at hsp
    split at hsp
    · simp only [Option.some.injEq] at hsp; subst hsp; assumption
    · simp at hsp
  rcases hcase with ⟨_, hsteps, _⟩ | ⟨_, hn, _, hcr⟩
  · rw [hsteps] at hs
    have := iter_inv (step (regNew inp.sh inp.w)) (fun st => SharedOk inp.sh inp.w st.heap)
      (fun s => ∀ p, s.res = .ok p → SeenOk inp.sh inp.w p.seen)
      (fun st hI => by
        obtain ⟨t1, _, t3⟩ := tri_step (step_regNew inp.sh inp.w st)
        rw [t1, t3]
        exact callSpec_config inp.sh inp.w true inp.sh.factory false st (.inl rfl) hI) inp.k (st0 st) hB
    exact this.2 s hs p hres
  · rcases hcr with ⟨e, _, hsteps⟩ | ⟨fac, hfac, hsteps, _⟩
    · rw [hsteps] at hs
      simp only [List.mem_singleton] at hs
      subst hs
      simp at hres
    · rw [hsteps] at hs
      simp only [List.mem_cons] at hs
      rcases hs with rfl | hs
      · simp at hres
      · exact config_factory inp.sh inp.w inp.form.numOut inp.k hn (st0 st) rfl hB fac hfac s hs p hres

theorem errors_phase (inp : Input) (st : St) : errorsOk inp (phaseObs inp st) = true := by
  have hcase := phase_cases inp st
  generalize phaseObs inp st = obs at hcase ⊢
  rcases hcase with ⟨hf, hsteps, _⟩ | ⟨hf, hn, hpan, hcr⟩
  · obtain ⟨h1, h2⟩ := errors_component inp.sh inp.w inp.k (st0 st)
    simp only [errorsOk, hf, hsteps, h1, beq_self_eq_true, Bool.true_and, List.all_eq_true, Bool.and_eq_true,
      Bool.not_eq_true']
    exact h2
  · have he := errors_factory inp.sh inp.w inp.form.numOut inp.k hn (st0 st) rfl
    have hshape : ∀ c calls, obs.steps = c :: calls →
        stepErrOk false c = true → (isMade c || isErr c) = true →
        (if isMade c = true then (calls.length == inp.k) = true else calls.isEmpty = true) →
        (∀ s ∈ calls, stepErrOk (inp.form == .facNoErr) s = true ∧ isMade s = false) →
        errorsOk inp obs = true := by
      intro c calls hst a1 a2 a3 a4
      cases hform : inp.form with
      | component => exact absurd hform hf
      | facNoErr | facErr =>
        rw [hform] at a4
        simp only [errorsOk, hform, hst, a1, a2, Bool.true_and, Bool.and_eq_true, List.all_eq_true,
          Bool.not_eq_true']
        refine ⟨?_, a4⟩
        split <;> simp_all
    rcases hcr with ⟨e, hce, hsteps⟩ | ⟨fac, hfac, hsteps, _⟩
    · rw [hce] at he
      refine hshape _ _ hsteps he (by simp [isMade, isErr]) (by simp [isMade]) (by simp)
    · rw [hfac] at he
      obtain ⟨e1, e2, e3⟩ := he
      refine hshape _ _ hsteps e1 (by simp [isMade]) (by simp [isMade, e2]) ?_
      rw [hpan]
      exact e3

/-- the calls of a phase: k of them when it is `New`, or a factory made from a component constructor with a config -/
theorem calls_length_phase (inp : Input) (st : St) (h : inp.form = .component ∨ (inp.sh.factory = false ∧ inp.sh.cfg ≠ .none)) :
    (callsOf inp (phaseObs inp st)).length = inp.k := by
  have hcase := phase_cases inp st
  generalize phaseObs inp st = obs at hcase ⊢
  rcases hcase with ⟨hf, hsteps, _⟩ | ⟨hf, hn, _, hcr⟩
  · simp [callsOf, hf, hsteps, iter_length]
  · rcases h with h | ⟨hfa, hc⟩
    · exact absurd h hf
    · obtain ⟨_, _, _, q4⟩ := quad_proj (create_eq inp.sh inp.w inp.form.numOut (st0 st) rfl)
      have : (createSpec inp.sh inp.w inp.form.numOut (st0 st)).2.2.2 = .ok (.wrapPlugin inp.form.numOut) := by
        simp [createSpec, hfa, hc]
      rw [this] at q4
      rcases hcr with ⟨e, he, _⟩ | ⟨fac, _, hsteps, _⟩
      · rw [q4] at he; simp at he
      · cases hform : inp.form with
        | component => exact absurd hform hf
        | facNoErr | facErr => simp [callsOf, hform, hsteps, iter_length]

/-! ### the per-call structure, shared default configuration included -/

set_option maxHeartbeats 2000000 in
theorem callSpec_freshCall_any (sh : Shape) (w : World) (vf pan : Bool) (st : St)
    (hc : sh.cfg ≠ .none) (hvf : vf = sh.factory) :
    freshCallOk sh w (callSpec sh w true vf pan st).2.2 = true := by
  subst hvf
  unfold callSpec
  simp only [if_true, Bool.true_and]
  obtain ⟨factory, cfg, ctorErr, factErr, iface, dflt⟩ := sh
  simp only at hc
  by_cases h1 : w.hasFill = true <;> by_cases h2 : w.fillFault st.fills = true <;>
  by_cases hcf : (ctorErr && w.ctorFault st.ctors) = true <;>
  by_cases hff : (factErr && w.factFault st.facts) = true <;>
  cases factory <;> cases cfg <;> cases dflt <;>
  simp [freshCallOk, fillFails, ctorFails, factFails, fillEvs, dfltEvs, h1, h2, hcf, hff, isDflt, isFill, isCtor, isFact,
    fillFailed, ctorFailed, fillAddr?, ctorConf?, fillAddrEv, ctorConfEv, prodCell?, shownConf, capture, cellOf,
    List.countP_cons, List.countP_nil, List.findSome?_cons] at hc ⊢

theorem percall_phase (inp : Input) (st : St) (ha : percallApplies inp = true) :
    percallOk inp (phaseObs inp st) = true := by
  have hcase := phase_cases inp st
  generalize phaseObs inp st = obs at hcase ⊢
  simp only [percallApplies, Bool.and_eq_true, bne_iff_ne, ne_eq, Bool.or_eq_true, beq_iff_eq,
    Bool.not_eq_true'] at ha
  obtain ⟨hc, hform⟩ := ha
  rcases hcase with ⟨hf, hsteps, _⟩ | ⟨hf, hn, _, hcr⟩
  · have := iter_inv (step (regNew inp.sh inp.w)) (fun _ => True) (fun s => freshCallOk inp.sh inp.w s = true)
      (fun st _ => ⟨trivial, by
        rw [(tri_step (step_regNew inp.sh inp.w st)).2.2]
        exact callSpec_freshCall_any inp.sh inp.w _ false st hc rfl⟩) inp.k (st0 st) trivial
    have hcalls : callsOf inp obs = (newCalls inp st).2 := by simp [callsOf, hf, hsteps]
    simp only [percallOk, hcalls, hf, beq_self_eq_true, Bool.true_or, Bool.true_and, List.all_eq_true]
    exact this.2
  · have hfa : inp.sh.factory = false := by
      rcases hform with hform | hform
      · exact absurd hform hf
      · exact hform
    obtain ⟨q1, q2, q3, q4⟩ := quad_proj (create_eq inp.sh inp.w inp.form.numOut (st0 st) rfl)
    have hcs : createSpec inp.sh inp.w inp.form.numOut (st0 st) =
        ((st0 st).heap, (st0 st).next, [], .ok (.wrapPlugin inp.form.numOut)) := by
      simp [createSpec, hfa, hc]
    rw [hcs] at q3 q4
    rcases hcr with ⟨e, he, _⟩ | ⟨fac, hfac, hsteps, _⟩
    · rw [q4] at he; simp at he
    · have hfac' : fac = .wrapPlugin inp.form.numOut := by
        rw [q4] at hfac; simp at hfac; exact hfac.symm
      subst hfac'
      have := iter_inv (step (callFac inp.sh inp.w (.wrapPlugin inp.form.numOut))) (fun _ => True)
        (fun s => freshCallOk inp.sh inp.w s = true)
        (fun st _ => ⟨trivial, by
          rw [(tri_step (step_wrapPlugin inp.sh inp.w inp.form.numOut hn st hc)).2.2]
          exact callSpec_freshCall_any inp.sh inp.w false _ st hc hfa.symm⟩) inp.k (created inp st).1 trivial
      have hcalls : callsOf inp obs = (facCalls inp st (.wrapPlugin inp.form.numOut)).2 := by
        cases hform' : inp.form with
        | component => exact absurd hform' hf
        | facNoErr => simp [callsOf, hsteps, hform']
        | facErr => simp [callsOf, hsteps, hform']
      have hhead : (obs.steps.head?.map (·.evs)) = some [] := by
        rw [hsteps]; simp [q3]
      simp only [percallOk, hcalls, hhead, beq_self_eq_true, Bool.or_true, Bool.true_and, List.all_eq_true]
      exact this.2

theorem percall_run {inp : Input} {obs : Obs} (h : run inp = some obs) (ha : percallApplies inp = true) :
    percallOk inp obs = true := by
  rw [(run_eq_phase h).2]; exact percall_phase inp _ ha

end Pandora.Proofs.C18
