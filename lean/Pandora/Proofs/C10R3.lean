/-
C10, third round — helper lemmas: scenario shots with pauses and a cancellation arriving during one; chains of redirects.
-/
import Pandora.Proofs.C10R2
import Pandora.Model.C10Paths

namespace Pandora.Proofs.C10
open Pandora.Model.C10 Pandora.Spec.C10

/-! ### pauses and cancellation -/

/-- does the step let the scenario go on -/
def stepPasses (s : Step) : Bool :=
  match s.outcome with
  | .received _ .ok => true
  | _ => false

/-- a step that does not panic reports exactly its `stepSample` -/
theorem stepHttp_eq (scn : String) (s : Step) (h : ∀ st, s.outcome ≠ .received st .panic) :
    stepHttp scn s = ([stepSample scn s], stepPasses s, false) := by
  cases ho : s.outcome with
  | prepErr => simp [stepHttp, stepSample, stepPasses, ho]
  | doErr e => simp [stepHttp, stepSample, stepPasses, ho]
  | bodyErr st e => simp [stepHttp, stepSample, stepPasses, ho]
  | received st post =>
    cases post with
    | ok => simp [stepHttp, stepSample, stepPasses, ho]
    | err => simp [stepHttp, stepSample, stepPasses, ho]
    | panic => exact absurd ho (h st)

/-- the code's pause (`time.Sleep`): a cancellation changes nothing -/
theorem paused_sleeps (scn : String) : ∀ (steps : List Step) (c : Option Nat),
    shootScenarioPaused .sleeps scn c steps = shootScenario scn steps
  | [], c => by simp [shootScenarioPaused, shootScenario]
  | s :: rest, c => by
    unfold shootScenarioPaused shootScenario
    rcases h : stepHttp scn s with ⟨rs, go, p⟩
    cases go with
    | false => simp
    | true =>
      by_cases hc : c = some 0
      · simp [hc, paused_sleeps scn rest none]
      · simp [hc, paused_sleeps scn rest (c.map (· - 1))]

/-- "one sample per executed step, in order": the reports are the per-step samples of a prefix of the steps -/
def OnePerExecutedStep (scn : String) (steps : List Step) (r : ShotResult) : Prop :=
  ∃ k, k ≤ steps.length ∧ r.reports = (steps.take k).map (stepSample scn)

theorem paused_stopsQuietly (scn : String) : ∀ (steps : List Step) (c : Option Nat), NoPanic steps →
    OnePerExecutedStep scn steps (shootScenarioPaused .stopsQuietly scn c steps)
  | [], c, _ => ⟨0, by simp, by simp [shootScenarioPaused]⟩
  | s :: rest, c, hp => by
    have hs := stepHttp_eq scn s (hp s (List.mem_cons_self ..))
    have hrest : NoPanic rest := fun t ht => hp t (List.mem_cons_of_mem _ ht)
    unfold shootScenarioPaused
    rw [hs]
    cases hgo : stepPasses s with
    | false => exact ⟨1, by simp, by simp⟩
    | true =>
      by_cases hc : c = some 0
      · exact ⟨1, by simp, by simp [hc]⟩
      · obtain ⟨k, hk, hr⟩ := paused_stopsQuietly scn rest (c.map (· - 1)) hrest
        exact ⟨k + 1, by simp; omega, by simp [hc, hr]⟩

/-! ### redirect chains -/

theorem isRedirectStatus_eq (st : Nat) : Model.C10.isRedirectStatus st = Spec.C10.isRedirectStatus st := rfl

/-- ten requests: `k` redirects that lead on and then an exchange `o` give `o` while the request for `o` is still within
the limit, and the client's own error from then on -/
theorem followDo_replicate (o : HttpOutcome) : ∀ (k n : Nat), 1 ≤ n →
    followDo n (List.replicate k (.answer 302 .leadsOn) ++ [.last o]) = if k < n then o else clientGaveUp
  | 0, n, hn => by
    have : 0 < n := hn
    simp [followDo, this]
  | k + 1, n, hn => by
    have hr : Model.C10.isRedirectStatus 302 = true := by decide
    rw [List.replicate_succ, List.cons_append]
    unfold followDo
    simp only [hr, if_true]
    by_cases h1 : n ≤ 1
    · have : ¬ (k + 1 < n) := by omega
      simp [h1, this]
    · have ih := followDo_replicate o k (n - 1) (by omega)
      simp only [h1, if_false, ih]
      by_cases h2 : k < n - 1
      · have : k + 1 < n := by omega
        simp [h2, this]
      · have : ¬ (k + 1 < n) := by omega
        simp [h2, this]

/-! ### path sets -/

theorem sameSet_spec {a b : List Path} (h : sameSet a b = true) : (∀ p ∈ a, p ∈ b) ∧ (∀ p ∈ b, p ∈ a) := by
  simp only [sameSet, Bool.and_eq_true, List.all_eq_true] at h
  exact ⟨fun p hp => by simpa using h.1 p hp, fun p hp => by simpa using h.2 p hp⟩

/-- the auto-tag / `__EMPTY__` block adds a tag or it does not: nothing else about it shows in a path -/
theorem tagged_cases (cfg : AutoTagCfg) (t p : String) :
    canonRun (opTrace (fresh t) (tagOps cfg t p)) = [] ∨ canonRun (opTrace (fresh t) (tagOps cfg t p)) = ["AddTag"] := by
  unfold tagOps
  by_cases hc : (cfg.enabled && (!cfg.noTagOnly || t = "")) = true
  · rw [if_pos hc]
    right
    simp only [List.cons_append, List.nil_append, opTrace]
    split <;> decide
  · rw [if_neg hc]
    simp only [List.nil_append, opTrace]
    split
    · right; decide
    · left; decide

/-- every shot of the http gun (any setting, tag, path, outcome but the fatal panic) takes one of the paths of the
representative kinds -/
theorem httpPath_mem (cfg : AutoTagCfg) (s : HttpShot) (hp : s.outcome ≠ .doPanic) : httpPath cfg s ∈ httpPaths := by
  unfold httpPath
  by_cases hi : s.invalid = true
  · simp only [hi, if_true, opTrace]
    decide
  · simp only [hi]
    rcases tagged_cases cfg s.ammoTag s.path with h | h <;> rw [h] <;>
      (cases ho : s.outcome with
       | doErr e => simp only [outcomeOps, opTrace]; decide
       | response st b =>
         cases b with
         | none => simp only [outcomeOps, opTrace]; decide
         | some e => simp only [opTrace]; decide
       | doPanic => exact absurd ho hp)

end Pandora.Proofs.C10
