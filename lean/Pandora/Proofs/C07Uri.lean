/-
C07 — the uri scanner reads back every rendered file (`uriPassLim lim (renderItems …) = expAmmo …`).
-/
import Pandora.Proofs.C07Lib
import Pandora.Spec.C07

namespace Pandora.Proofs.C07
open Pandora.Model.C07 Pandora.Spec.C07

-- the token limit of the decoder's Scanner: every lemma of this file holds for any limit (`none`: the decoder of /repo
-- since 66b1841; `some maxTok`: the default Scanner it had before)
variable {lim : Option Nat}

/-- ` tag` or nothing -/
def tagPart (t : Bytes) : Bytes := if t.isEmpty then [] else SP :: t

theorem cut_tagPart (u t : Bytes) (hu : SP ∉ u) :
    (cut SP (u ++ tagPart t)).1 = u ∧ (cut SP (u ++ tagPart t)).2.1 = t := by
  unfold tagPart
  cases t with
  | nil => simp [cut_no_sep SP u hu]
  | cons a r => simp [cut_append_sep SP u (a :: r) hu]

theorem last_ne_cr_of_rev (s : Bytes) (h : spWidthRev s.reverse = 0) : s.getLast? ≠ some 13 := by
  rw [List.getLast?_eq_head?_reverse]
  cases hr : s.reverse with
  | nil => simp
  | cons x r =>
    rw [hr] at h
    have := notWs_of_spWidthRev x r h
    intro e
    simp at e
    subst e
    simp [isAsciiWs] at this

/-- the right edge of `u ++ tagPart t` is the right edge of `t` (or of `u` when there is no tag) -/
theorem rev_edge_tagPart (u t : Bytes) (hu : spWidthRev u.reverse = 0) (ht : spWidthRev t.reverse = 0) :
    spWidthRev (u ++ tagPart t).reverse = 0 := by
  unfold tagPart
  cases t with
  | nil => simpa using hu
  | cons a r =>
    have : (u ++ SP :: (a :: r)).reverse = (a :: r).reverse ++ SP :: u.reverse := by simp
    simp only [List.isEmpty_cons, Bool.false_eq_true, if_false]
    rw [this]
    apply spWidthRev_append _ _ (by simp) ht
    intro x hx
    simp at hx; subst hx; decide

theorem mem_dropCR {b : UInt8} {s : Bytes} (h : b ∈ dropCR s) : b ∈ s := by
  unfold dropCR at h
  split at h
  · exact List.dropLast_subset _ h
  · exact h

/-- dropping the CR of a CRLF ending only changes the trailing blanks of a line -/
theorem dropCR_line (pre core post : Bytes) (hc : core ≠ []) (hl : core.getLast? ≠ some 13) (hpost : allWs post) :
    ∃ post', allWs post' ∧ dropCR (pre ++ core ++ post) = pre ++ core ++ post' := by
  rcases List.eq_nil_or_concat post with hp | ⟨q, b, hp⟩
  · subst hp
    refine ⟨[], allWs.nil, ?_⟩
    apply dropCR_of_last_ne
    simp only [List.append_nil]
    rw [List.getLast?_append]
    cases hcl : core.getLast? with
    | none => exact absurd (List.getLast?_eq_none_iff.mp hcl) hc
    | some x => rw [hcl] at hl; simpa using hl
  · rw [List.concat_eq_append] at hp
    subst hp
    by_cases hb : b = 13
    · subst hb
      refine ⟨q, allWs_of_concat_cr hpost, ?_⟩
      rw [← List.append_assoc]
      exact dropCR_concat_cr _
    · refine ⟨q ++ [b], hpost, ?_⟩
      apply dropCR_of_last_ne
      rw [← List.append_assoc, List.getLast?_concat]
      simpa using hb

/-- dropping a final CR from padding leaves padding -/
theorem allWs_dropCR {p : Bytes} (hp : allWs p) : allWs (dropCR p) := by
  rcases List.eq_nil_or_concat p with h | ⟨q, b, h⟩
  · subst h; exact allWs.nil
  · rw [List.concat_eq_append] at h
    subst h
    by_cases hb : b = 13
    · subst hb
      rw [dropCR_concat_cr]; exact allWs_of_concat_cr hp
    · rw [dropCR_of_last_ne _ (by rw [List.getLast?_concat]; simpa using hb)]; exact hp

/-! ### one line -/

theorem uriPass_nil (h : Hdrs) : uriPassLim lim [] h = ([], .eof) := by
  rw [uriPassLim]

/-- a complete line `line ⏎ R`, or the unterminated last line `line` (then `R = []`) -/
theorem uriPass_line (line R bs : Bytes) (h : Hdrs) (hline : LF ∉ line) (hfit : tooLong lim line.length = false)
    (hbs : bs = line ++ LF :: R ∨ (bs = line ∧ line ≠ [] ∧ R = [])) :
    uriPassLim lim bs h =
      match uriLine (dropCR line) h with
      | .skip h' => uriPassLim lim R h'
      | .ammo a => (a :: (uriPassLim lim R h).1, (uriPassLim lim R h).2)
      | .err e => ([], .err e) := by
  have hcut : cut LF bs = (line, R, !R.isEmpty || bs != line) ∨ True := Or.inr trivial
  clear hcut
  have hc : (cut LF bs).1 = line ∧ (cut LF bs).2.1 = R := by
    rcases hbs with hbs | ⟨hbs, _, hR⟩
    · rw [hbs, cut_append_sep LF line R hline]; exact ⟨rfl, rfl⟩
    · rw [hbs, hR, cut_no_sep LF line hline]; exact ⟨rfl, rfl⟩
  have hne : bs ≠ [] := by
    rcases hbs with hbs | ⟨hbs, hl, _⟩
    · rw [hbs]; simp
    · rw [hbs]; exact hl
  cases hb : bs with
  | nil => exact absurd hb hne
  | cons b r =>
    rw [uriPassLim]
    rw [hb] at hc
    simp only [hc.1, hc.2]
    simp only [hfit, Bool.false_eq_true, if_false]
    cases uriLine (dropCR line) h <;> rfl

/-- a blank line -/
theorem uriLine_blank (p : Bytes) (h : Hdrs) (hp : allWs p) : uriLine (dropCR p) h = .skip h := by
  have : trimSpace (dropCR p) = [] := trimSpace_allWs _ (allWs_dropCR hp)
  simp [uriLine, this]

theorem headerContent_props (k v i1 i2 i3 i4 : Bytes) :
    let c := LBR :: (i1 ++ k ++ i2 ++ COLON :: (i3 ++ v ++ i4 ++ [RBR]))
    c ≠ [] ∧ spWidth c = 0 ∧ spWidthRev c.reverse = 0 ∧ c.getLast? ≠ some 13 := by
  intro c
  have hrev : c.reverse = RBR :: (LBR :: (i1 ++ k ++ i2 ++ COLON :: (i3 ++ v ++ i4))).reverse := by
    simp [c]
  have h3 : spWidthRev c.reverse = 0 := by
    rw [hrev]; exact spWidthRev_ascii RBR _ (by decide) (by decide)
  exact ⟨by simp [c], spWidth_ascii LBR _ (by decide) (by decide), h3, last_ne_cr_of_rev c h3⟩

/-- a header line with any permitted blanks -/
theorem uriLine_header (k v : Bytes) (l : ItemLay) (h : Hdrs) (hk : hdrKeyOK k = true) (hv : hdrValOK v = true)
    (hl : itemLayOK l = true) :
    uriLine (dropCR (l.pre ++ content .uri (.hdr k v) l ++ l.post)) h = .skip (hset h k v) := by
  simp only [itemLayOK, Bool.and_eq_true] at hl
  obtain ⟨⟨⟨⟨⟨⟨hpre, hpost⟩, h1⟩, h2⟩, h3⟩, h4⟩, _⟩ := hl
  have hp := headerContent_props k v l.i1 l.i2 l.i3 l.i4
  simp only at hp
  obtain ⟨post', hpost', hd⟩ := dropCR_line l.pre _ l.post hp.1 hp.2.2.2 (padOK_allWs hpost)
  have ht := trimSpace_pad l.pre _ post' (padOK_allWs hpre) hpost' hp.2.1 hp.2.2.1
  simp only [content]
  rw [hd]
  unfold uriLine
  rw [ht]
  simp only [if_true]
  rw [decodeHeader_render k v _ _ _ _ hk hv h1 h2 h3 h4]

theorem targetOK_props {u : Bytes} (hu : targetOK u = true) :
    ∃ b r, u = b :: r ∧ b < 128 ∧ isAsciiWs b = false ∧ b ≠ LBR ∧ LF ∉ u ∧ SP ∉ u ∧ spWidthRev u.reverse = 0 := by
  cases u with
  | nil => simp [targetOK] at hu
  | cons b r =>
    simp only [targetOK, Bool.and_eq_true, decide_eq_true_eq, Bool.not_eq_true', bne_iff_ne, ne_eq, beq_iff_eq] at hu
    obtain ⟨⟨⟨⟨⟨h1, h2⟩, h3⟩, h4⟩, h5⟩, h6⟩ := hu
    refine ⟨b, r, rfl, h1, h2, h3, ?_, ?_, h6⟩
    · exact (noLF_iff _).mp h4
    · simpa using h5

theorem tagOK_props {t : Bytes} (ht : tagOK t = true) : LF ∉ t ∧ spWidthRev t.reverse = 0 := by
  simp only [tagOK, Bool.and_eq_true, beq_iff_eq] at ht
  exact ⟨(noLF_iff _).mp ht.1, ht.2⟩

theorem tagPart_noLF {t : Bytes} (ht : LF ∉ t) : LF ∉ tagPart t := by
  unfold tagPart
  split
  · simp
  · intro hm
    simp at hm
    rcases hm with hm | hm
    · exact absurd hm (by decide)
    · exact ht hm

/-- a request line with any permitted blanks -/
theorem uriLine_req (u t b : Bytes) (l : ItemLay) (h : Hdrs) (hu : targetOK u = true) (ht : tagOK t = true)
    (hl : itemLayOK l = true) :
    uriLine (dropCR (l.pre ++ content .uri (.req u t b) l ++ l.post)) h
      = .ammo { method := getBytes, url := u, body := [], tag := t, hdrs := h } := by
  simp only [itemLayOK, Bool.and_eq_true] at hl
  obtain ⟨⟨⟨⟨⟨⟨hpre, hpost⟩, _⟩, _⟩, _⟩, _⟩, _⟩ := hl
  obtain ⟨c, r, hcr, hc1, hc2, hc3, huLF, huSP, hurev⟩ := targetOK_props hu
  obtain ⟨htLF, htrev⟩ := tagOK_props ht
  have hcont : content .uri (.req u t b) l = u ++ tagPart t := by
    simp [content, tagPart]
  have hne : u ++ tagPart t ≠ [] := by rw [hcr]; simp
  have hrev := rev_edge_tagPart u t hurev htrev
  have hfw : spWidth (u ++ tagPart t) = 0 := by
    rw [hcr, List.cons_append]; exact spWidth_ascii c _ hc1 hc2
  obtain ⟨post', hpost', hd⟩ := dropCR_line l.pre _ l.post hne (last_ne_cr_of_rev _ hrev) (padOK_allWs hpost)
  have htrim := trimSpace_pad l.pre _ post' (padOK_allWs hpre) hpost' hfw hrev
  rw [hcont, hd]
  unfold uriLine
  rw [htrim]
  have hcut := cut_tagPart u t huSP
  have hshape : u ++ tagPart t = c :: (r ++ tagPart t) := by rw [hcr]; rfl
  rw [hshape] at hcut ⊢
  simp only [hc3, if_false]
  rw [hcut.1, hcut.2]

/-! ### token limit bookkeeping -/

/-- every line of `bs` fits a `bufio.Scanner` token of limit `lim` -/
def fits (lim : Option Nat) (bs : Bytes) : Prop := ∀ l ∈ splitOn LF bs, tooLong lim l.length = false

theorem fits_line {line R : Bytes} (hl : LF ∉ line) (h : fits lim (line ++ LF :: R)) : tooLong lim line.length = false ∧ fits lim R := by
  unfold fits at h
  rw [splitOn_append_sep LF line R hl] at h
  exact ⟨h line (by simp), fun l hm => h l (by simp [hm])⟩

theorem fits_last {line : Bytes} (hl : LF ∉ line) (h : fits lim line) : tooLong lim line.length = false := by
  unfold fits at h
  rw [splitOn_no_sep LF line hl] at h
  exact h line (by simp)

/-! ### blank lines, trailing blanks -/

theorem uriPass_blanks (blanks : List Bytes) (X : Bytes) (h : Hdrs) (hb : blanks.all padOK = true)
    (hf : fits lim (renderBlanks blanks ++ X)) :
    uriPassLim lim (renderBlanks blanks ++ X) h = uriPassLim lim X h ∧ fits lim X := by
  induction blanks with
  | nil => exact ⟨rfl, hf⟩
  | cons p r ih =>
    simp only [List.all_cons, Bool.and_eq_true] at hb
    have hshape : renderBlanks (p :: r) ++ X = p ++ LF :: (renderBlanks r ++ X) := by simp [renderBlanks]
    rw [hshape] at hf ⊢
    have hp := padOK_noLF hb.1
    obtain ⟨hlen, hf'⟩ := fits_line hp hf
    rw [uriPass_line p (renderBlanks r ++ X) _ h hp hlen (Or.inl rfl), uriLine_blank p h (padOK_allWs hb.1)]
    exact ih hb.2 hf'

theorem uriPass_trail (trail : Bytes) (h : Hdrs) (ht : padOK trail = true) (hf : fits lim trail) :
    uriPassLim lim trail h = ([], .eof) := by
  by_cases hn : trail = []
  · subst hn; exact uriPass_nil h
  · have hp := padOK_noLF ht
    rw [uriPass_line trail [] trail h hp (fits_last hp hf) (Or.inr ⟨rfl, hn, rfl⟩), uriLine_blank trail h (padOK_allWs ht)]
    exact uriPass_nil _

/-! ### one entry -/

theorem content_noLF_uri (it : Item) (l : ItemLay) (hit : itemOK .uri it = true) (hl : itemLayOK l = true) :
    LF ∉ l.pre ++ content .uri it l ++ l.post := by
  simp only [itemLayOK, Bool.and_eq_true] at hl
  obtain ⟨⟨⟨⟨⟨⟨hpre, hpost⟩, h1⟩, h2⟩, h3⟩, h4⟩, _⟩ := hl
  have np := padOK_noLF hpre
  have nq := padOK_noLF hpost
  cases it with
  | hdr k v =>
    simp only [itemOK, Bool.and_eq_true, hdrKeyOK, hdrValOK] at hit
    have hk : LF ∉ k := (noLF_iff k).mp hit.1.2.1.1.2
    have hv : LF ∉ v := (noLF_iff v).mp hit.2.1
    have n1 := padOK_noLF h1
    have n2 := padOK_noLF h2
    have n3 := padOK_noLF h3
    have n4 := padOK_noLF h4
    simp only [content, List.mem_append, List.mem_cons, List.mem_nil_iff, not_or, or_false]
    refine ⟨⟨np, by decide, ⟨⟨n1, hk⟩, n2⟩, by decide, ⟨⟨n3, hv⟩, n4⟩, by decide⟩, nq⟩
  | req u t b =>
    simp only [itemOK, Bool.and_eq_true] at hit
    obtain ⟨c, r, hcr, _, _, _, huLF, _, _⟩ := targetOK_props hit.1.1.2
    obtain ⟨htLF, _⟩ := tagOK_props hit.1.2
    have hcont : content .uri (.req u t b) l = u ++ tagPart t := by simp [content, tagPart]
    rw [hcont]
    simp only [List.mem_append, not_or]
    exact ⟨⟨np, huLF, tagPart_noLF htLF⟩, nq⟩
  | frame t fr => simp [itemOK] at hit

/-- what one entry does to the rest of the pass -/
def uriStep (lim : Option Nat) (it : Item) (h : Hdrs) (R : Bytes) : List Ammo × Stop :=
  match it with
  | .hdr k v => uriPassLim lim R (hset h k v)
  | .req u t _ => ({ method := getBytes, url := u, body := [], tag := t, hdrs := h } :: (uriPassLim lim R h).1, (uriPassLim lim R h).2)
  | .frame _ _ => uriPassLim lim R h

theorem uriPass_item (it : Item) (l : ItemLay) (h : Hdrs) (R bs : Bytes)
    (hit : itemOK .uri it = true) (hl : itemLayOK l = true)
    (hfit : tooLong lim (l.pre ++ content .uri it l ++ l.post).length = false)
    (hbs : bs = (l.pre ++ content .uri it l ++ l.post) ++ LF :: R ∨ (bs = l.pre ++ content .uri it l ++ l.post ∧ R = [])) :
    uriPassLim lim bs h = uriStep lim it h R := by
  have hLF := content_noLF_uri it l hit hl
  have hne : l.pre ++ content .uri it l ++ l.post ≠ [] := by
    cases it with
    | hdr k v => simp [content]
    | req u t b =>
      simp only [itemOK, Bool.and_eq_true] at hit
      obtain ⟨c, r, hcr, _⟩ := targetOK_props hit.1.1.2
      simp [content, hcr]
    | frame t fr => simp [itemOK] at hit
  have hbs' : bs = (l.pre ++ content .uri it l ++ l.post) ++ LF :: R ∨
      (bs = l.pre ++ content .uri it l ++ l.post ∧ l.pre ++ content .uri it l ++ l.post ≠ [] ∧ R = []) := by
    rcases hbs with hbs | ⟨hbs, hR⟩
    · exact Or.inl hbs
    · exact Or.inr ⟨hbs, hne, hR⟩
  rw [uriPass_line _ R bs h hLF hfit hbs']
  cases it with
  | hdr k v =>
    simp only [itemOK, Bool.and_eq_true] at hit
    rw [uriLine_header k v l h hit.1.2 hit.2 hl]; rfl
  | req u t b =>
    simp only [itemOK, Bool.and_eq_true] at hit
    rw [uriLine_req u t b l h hit.1.1.2 hit.1.2 hl]; rfl
  | frame t fr => simp [itemOK] at hit

theorem expAmmo_uri_cons (it : Item) (r : List Item) (h : Hdrs) (X : Bytes)
    (ih : ∀ h', uriPassLim lim X h' = (expAmmo .uri h' r, .eof)) (hit : itemOK .uri it = true) :
    uriStep lim it h X = (expAmmo .uri h (it :: r), .eof) := by
  cases it with
  | hdr k v => simp [uriStep, expAmmo, ih]
  | req u t b => simp [uriStep, expAmmo, ih]
  | frame t fr => simp [itemOK] at hit

/-! ### the whole file -/

theorem uriPass_renderItems (fnl : Bool) (trail : Bytes) (htrail : padOK trail = true) :
    ∀ (items : List Item) (per : List ItemLay) (h : Hdrs),
      itemsOK .uri items = true → per.all itemLayOK = true →
      fits lim (renderItems .uri fnl trail items per) →
      uriPassLim lim (renderItems .uri fnl trail items per) h = (expAmmo .uri h items, .eof)
  | [], per, h, _, _, hf => by
    simp only [renderItems] at hf ⊢
    exact uriPass_trail trail h htrail hf
  | [it], per, h, hi, hp, hf => by
    have hit : itemOK .uri it = true := by simpa [itemsOK] using hi
    have hl : itemLayOK (per.headD ({} : ItemLay)) = true := by
      cases per with
      | nil => rfl
      | cons a r => simp only [List.all_cons, Bool.and_eq_true] at hp; exact hp.1
    have hLF := content_noLF_uri it _ hit hl
    have hpay : payload .uri it = [] := by cases it <;> simp [payload, itemOK] at hit ⊢
    simp only [renderItems, hpay] at hf ⊢
    cases fnl with
    | true =>
      simp only [if_true, List.nil_append] at hf ⊢
      obtain ⟨hlen, hf'⟩ := fits_line hLF hf
      have hlb : (per.headD ({} : ItemLay)).blanks.all padOK = true := by
        simp only [itemLayOK, Bool.and_eq_true] at hl; exact hl.2
      obtain ⟨hb, hf''⟩ := uriPass_blanks _ trail h hlb hf'
      rw [uriPass_item it _ h _ _ hit hl hlen (Or.inl rfl)]
      apply expAmmo_uri_cons it [] h _ _ hit
      intro h'
      rw [(uriPass_blanks _ trail h' hlb hf').1, uriPass_trail trail h' htrail hf'']
      rfl
    | false =>
      simp only [Bool.false_eq_true, if_false, List.isEmpty_nil, if_true] at hf ⊢
      rw [uriPass_item it _ h [] _ hit hl (fits_last hLF hf) (Or.inr ⟨rfl, rfl⟩)]
      apply expAmmo_uri_cons it [] h _ _ hit
      intro h'
      rw [uriPass_nil]; rfl
  | it :: it2 :: rest, per, h, hi, hp, hf => by
    have hit : itemOK .uri it = true := by
      simp only [itemsOK, List.all_cons, Bool.and_eq_true] at hi; exact hi.1
    have hi' : itemsOK .uri (it2 :: rest) = true := by
      simp only [itemsOK, List.all_cons, Bool.and_eq_true] at hi ⊢; exact hi.2
    have hl : itemLayOK (per.headD ({} : ItemLay)) = true := by
      cases per with
      | nil => rfl
      | cons a r => simp only [List.all_cons, Bool.and_eq_true] at hp; exact hp.1
    have hp' : per.tail.all itemLayOK = true := by
      cases per with
      | nil => rfl
      | cons a r => simp only [List.all_cons, Bool.and_eq_true] at hp; exact hp.2
    have hLF := content_noLF_uri it _ hit hl
    have hpay : payload .uri it = [] := by cases it <;> simp [payload, itemOK] at hit ⊢
    simp only [renderItems, hpay, List.nil_append] at hf ⊢
    obtain ⟨hlen, hf'⟩ := fits_line hLF hf
    have hlb : (per.headD ({} : ItemLay)).blanks.all padOK = true := by
      simp only [itemLayOK, Bool.and_eq_true] at hl; exact hl.2
    obtain ⟨_, hf''⟩ := uriPass_blanks _ _ h hlb hf'
    rw [uriPass_item it _ h _ _ hit hl hlen (Or.inl rfl)]
    apply expAmmo_uri_cons it (it2 :: rest) h _ _ hit
    intro h'
    rw [(uriPass_blanks _ _ h' hlb hf').1]
    exact uriPass_renderItems fnl trail htrail (it2 :: rest) per.tail h' hi' hp' hf''

end Pandora.Proofs.C07
