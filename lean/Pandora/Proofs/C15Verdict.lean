/-
C15 — the executable judge `Spec.C15.shotVerdict` (applied by `./check` to what the REAL gun did) holds of every shot
of the model.

`obsLog nm` is how a shot of the model is seen from outside: the target logs the name of each request it receives
(`nm`: in the harness the first path segment, which every rendered request carries — hypothesis `Named`), the
aggregator logs each sample; pauses are not events of the log.
`Shape` is the grammar of such a log for a step-name list: `req n, sample ok` per step, optionally ended by the failing
step (`[req n,] sample failed`).
-/
import Pandora.Proofs.C15Shoot
import Pandora.Spec.C15

namespace Pandora.Proofs.C15
open Pandora.Model.C15 Pandora.Spec.C15

variable {Req Resp : Type}

/-- every request rendered from the definition `d` is recognisably a request `d.name` -/
def Named (w : World Req Resp) (nm : Req → String) : Prop :=
  ∀ d t r, w.render d t = some r → nm r = d.name

def obsEv (nm : Req → String) : Ev Req → Option OEv
  | .request r => some (.req (nm r))
  | .sample tag _ failed => some (.sample tag failed)
  | .pause _ => none

def obsLog (nm : Req → String) (l : List (Ev Req)) : List OEv := l.filterMap (obsEv nm)

theorem obsLog_append (nm : Req → String) (a b : List (Ev Req)) : obsLog nm (a ++ b) = obsLog nm a ++ obsLog nm b := by
  simp [obsLog]

inductive Shape (scName : String) : List String → Bool → List OEv → Prop
  | nil : Shape scName [] true []
  | ok {n ns b evs} : Shape scName ns b evs →
      Shape scName (n :: ns) b (.req n :: .sample (wantTag scName n false) false :: evs)
  | failNoReq {n ns} : Shape scName (n :: ns) false [.sample (wantTag scName n true) true]
  | failReq {n ns} : Shape scName (n :: ns) false [.req n, .sample (wantTag scName n true) true]

theorem Shape.facts {scName : String} {ns : List String} {b : Bool} {evs : List OEv} (h : Shape scName ns b evs) :
    evs.find? isViol = none ∧
    (samplesOf evs).length ≤ ns.length ∧
    ((samplesOf evs).zip ns).all (fun x => x.1.1 == wantTag scName x.2 x.1.2) = true ∧
    ((reqsOf evs).zip ns).all (fun x => x.1 == x.2) = true ∧
    (reqsOf evs).length ≤ (samplesOf evs).length ∧
    afterFail evs = true ∧
    ((samplesOf evs).all (fun s => !s.2) = true → (samplesOf evs).length = ns.length) ∧
    (samplesOf evs).length ≤ (reqsOf evs).length + 1 := by
  induction h with
  | nil => simp [samplesOf, reqsOf, afterFail]
  | @ok n0 ns0 b0 evs0 _ ih =>
    obtain ⟨h1, h2, h3, h4, h5, h6, h7, h8⟩ := ih
    refine ⟨?_, ?_, ?_, ?_, ?_, ?_, ?_, ?_⟩
    · simpa [isViol] using h1
    · simpa [samplesOf] using h2
    · simpa [samplesOf] using h3
    · simpa [reqsOf] using h4
    · simpa [samplesOf, reqsOf] using h5
    · simpa [afterFail] using h6
    · intro ha
      have : (samplesOf evs0).all (fun s => !s.2) = true := by simpa [samplesOf] using ha
      have := h7 this
      simpa [samplesOf] using this
    · simpa [samplesOf, reqsOf] using h8
  | failNoReq => simp [samplesOf, reqsOf, afterFail, isViol]
  | failReq => simp [samplesOf, reqsOf, afterFail, isViol]

/-- the judge accepts every log of the grammar -/
theorem verdict_of_shape {scName : String} {ns : List String} {b : Bool} {evs : List OEv} (h : Shape scName ns b evs) :
    shotVerdict scName ns evs = "ok" := by
  obtain ⟨h1, h2, h3, h4, h5, h6, h7, h8⟩ := h.facts
  have e3 : ((samplesOf evs).zip ns).all (fun x => match x with | ((t, f), n) => t == wantTag scName n f) = true := h3
  have e4 : ((reqsOf evs).zip ns).all (fun x => match x with | (r, n) => r == n) = true := h4
  unfold shotVerdict
  simp only [h1]
  rw [if_neg (by omega)]
  simp only [e3, e4, h6, Bool.not_true, Bool.false_eq_true, if_false, Bool.false_or]
  rw [if_neg (by simpa using h5)]
  by_cases ha : (samplesOf evs).all (fun s => !s.2) = true
  · have := h7 ha
    simp [this]
    omega
  · simp only [ha, Bool.false_and, Bool.false_eq_true, if_false]
    rw [if_neg (by omega)]

theorem wantTag_ok (scName : String) (st : Step ReqDef) : wantTag scName st.req.name false = stepTag scName st := rfl

theorem wantTag_fail (scName : String) (st : Step ReqDef) :
    wantTag scName st.req.name true = failTag (stepTag scName st) := by
  simp [wantTag, failTag, stepTag, emptyTag, String.append_assoc]

/-- what one call of `shootStep` adds to the outside view of the log -/
theorem shootStep_obs (w : World Req Resp) (nm : Req → String) (hnm : Named w nm) (source : Val) (scName : String)
    (st : Step ReqDef) (rv : List (String × Val)) (g : GState Req) (b : Bool) (rv' : List (String × Val))
    (g' : GState Req) (h : shootStep w source scName st rv g = some (b, rv', g')) :
    (b = true → obsLog nm g'.log = obsLog nm g.log ++
        [.req st.req.name, .sample (wantTag scName st.req.name false) false]) ∧
    (b = false → obsLog nm g'.log = obsLog nm g.log ++ [.sample (wantTag scName st.req.name true) true] ∨
        obsLog nm g'.log = obsLog nm g.log ++ [.req st.req.name, .sample (wantTag scName st.req.name true) true]) := by
  rw [wantTag_ok, wantTag_fail]
  unfold shootStep at h
  simp only at h
  split at h
  · cases h
  · cases h
    refine ⟨by simp, fun _ => Or.inl ?_⟩
    simp [obsLog, obsEv, stepTag]
  · split at h
    · cases h
      refine ⟨by simp, fun _ => Or.inl ?_⟩
      simp [obsLog, obsEv, stepTag]
    · rename_i req hr
      have hn : nm req = st.req.name := hnm _ _ _ hr
      split at h
      · cases h
        refine ⟨by simp, fun _ => Or.inr ?_⟩
        simp [obsLog, obsEv, stepTag, hn]
      · split at h
        · cases h
          refine ⟨by simp, fun _ => Or.inr ?_⟩
          simp [obsLog, obsEv, stepTag, hn]
        · cases h
          refine ⟨fun _ => ?_, by simp⟩
          by_cases hs : st.sleep > 0 <;> simp [obsLog, obsEv, stepTag, hn, hs]

theorem shootLoop_shape (w : World Req Resp) (nm : Req → String) (hnm : Named w nm) (source : Val) (scName : String) :
    ∀ (steps : List (Step ReqDef)) (rv : List (String × Val)) (g : GState Req) (b : Bool) (g' : GState Req),
      shootLoop w source scName steps rv g = some (b, g') →
      ∃ evs, obsLog nm g'.log = obsLog nm g.log ++ evs ∧ Shape scName (steps.map (·.req.name)) b evs
  | [], rv, g, b, g', h => by
    simp only [shootLoop] at h
    cases h
    exact ⟨[], by simp, Shape.nil⟩
  | st :: rest, rv, g, b, g', h => by
    simp only [shootLoop] at h
    split at h
    · cases h
    · rename_i rv1 g1 hstep
      cases h
      obtain ⟨_, hf⟩ := shootStep_obs w nm hnm source scName st rv g false rv1 g' hstep
      rcases hf rfl with e | e
      · exact ⟨_, e, Shape.failNoReq⟩
      · exact ⟨_, e, Shape.failReq⟩
    · rename_i rv1 g1 hstep
      obtain ⟨hs, _⟩ := shootStep_obs w nm hnm source scName st rv g true rv1 g1 hstep
      obtain ⟨evs, he, hsh⟩ := shootLoop_shape w nm hnm source scName rest rv1 g1 b g' h
      refine ⟨_, ?_, Shape.ok hsh⟩
      rw [he, hs rfl]
      simp

end Pandora.Proofs.C15
