/-
C04 — helper lemmas about the Waiter model (`Pandora.Model.C04`): what one `Wait` call establishes, and the
clock hypotheses under which the property theorems are stated.  Core Lean only.
-/
import Pandora.Model.C04

namespace Pandora.Proofs.C04
open Pandora.Go.C04 Pandora.Model.C04

/-- The clock hypotheses for ONE `Wait` call:
* a reading is not later than the instants at which it is used (arming the timer, returning);
* a timer does not fire early: armed at instant `arm` for `next - now`, it is delivered at `ret ≥ arm + (next - now)`
  (only calls that get as far as the timer: context not done at entry, token in the future of the reading). -/
def EnvOK (e : Env) : Prop :=
  e.now ≤ e.arm ∧ e.now ≤ e.ret ∧
    ∀ next ∈ e.tok, e.ctxDone = false → e.now < next → e.timerWins = true → e.arm + (next - e.now) ≤ e.ret

instance (e : Env) : Decidable (EnvOK e) := by unfold EnvOK; exact inferInstance

/-- The clock hypotheses for a history of loop iterations started with waiter state `w`:
every call satisfies `EnvOK`, and readings are non-decreasing (the cached one included). -/
def ClockOK (w : Waiter) (h : List Iter) : Prop :=
  (∀ it ∈ h, EnvOK it.env) ∧ (∀ it ∈ h, w.lastNow ≤ it.env.now) ∧ h.Pairwise (fun a b => a.env.now ≤ b.env.now)

instance (w : Waiter) (h : List Iter) : Decidable (ClockOK w h) := by unfold ClockOK; exact inferInstance

/-- the clock is read after the token has been picked up (needed only for "late ⇒ discarded") -/
def ReadAfterPick (h : List Iter) : Prop := ∀ it ∈ h, it.env.pick ≤ it.env.now

instance (h : List Iter) : Decidable (ReadAfterPick h) := by unfold ReadAfterPick; exact inferInstance

theorem ClockOK.nil (w : Waiter) : ClockOK w [] := by simp [ClockOK]

/-- the cached reading after a call is the old one or the one taken in this call -/
theorem waitV_lastNow (v : Variant) (w : Waiter) (e : Env) :
    (waitV v w e).w.lastNow = w.lastNow ∨ (waitV v w e).w.lastNow = e.now := by
  unfold waitV
  split
  · simp
  · split
    · simp
    · cases v <;> simp only [] <;> (repeat' split) <;> simp

theorem ClockOK.head {w : Waiter} {it : Iter} {rest : List Iter} (h : ClockOK w (it :: rest)) :
    EnvOK it.env ∧ w.lastNow ≤ it.env.now :=
  ⟨h.1 it (by simp), h.2.1 it (by simp)⟩

theorem ClockOK.tail {w : Waiter} {it : Iter} {rest : List Iter} (v : Variant) (h : ClockOK w (it :: rest)) :
    ClockOK (waitV v w it.env).w rest := by
  obtain ⟨h1, h2, h3⟩ := h
  rw [List.pairwise_cons] at h3
  refine ⟨fun x hx => h1 x (by simp [hx]), fun x hx => ?_, h3.2⟩
  rcases waitV_lastNow v w it.env with hl | hl
  · rw [hl]; exact h2 x (by simp [hx])
  · rw [hl]; exact h3.1 x hx

theorem ReadAfterPick.tail {it : Iter} {rest : List Iter} (h : ReadAfterPick (it :: rest)) : ReadAfterPick rest :=
  fun x hx => h x (by simp [hx])

/-- What a successful `Wait` establishes (both variants): a token was drawn, the call does not return before the
token's time, and the recorded overdue never exceeds the real lateness at return. -/
theorem waitV_ok (v : Variant) (w : Waiter) (e : Env) (hok : EnvOK e) (hinv : w.lastNow ≤ e.now)
    (h : (waitV v w e).ok = true) :
    ∃ next, e.tok = some next ∧ next ≤ e.ret ∧ (waitV v w e).w.overdue ≤ e.ret - next := by
  obtain ⟨harm, hret, htimer⟩ := hok
  unfold waitV at h ⊢
  by_cases hc : e.ctxDone = true
  · simp [hc] at h
  · cases htok : e.tok with
    | none => simp [hc, htok] at h
    | some next =>
      have htimer' := htimer next (by simp [htok]) (by simpa using hc)
      refine ⟨next, rfl, ?_⟩
      simp only [hc, htok, timeSub] at h ⊢
      by_cases h1 : next - w.lastNow ≤ 0
      · cases v <;> simp [h1] <;> omega
      · by_cases h2 : next - e.now ≤ 0
        · simp [h1, h2]; omega
        · by_cases h3 : e.timerWins = true
          · have := htimer' (by omega) h3
            simp [h1, h2, h3]; omega
          · simp [h1, h2, h3] at h

/-- The repaired `Wait`: the recorded overdue is exactly the lateness against the reading taken in this call
(0 when the token is still in the future of that reading). -/
theorem wait_overdue (w : Waiter) (e : Env) (hinv : w.lastNow ≤ e.now) (next : Int) (htok : e.tok = some next)
    (h : (waitV .fresh w e).ok = true) :
    (waitV .fresh w e).w.overdue = if next ≤ e.now then e.now - next else 0 := by
  unfold waitV at h ⊢
  by_cases hc : e.ctxDone = true
  · simp [hc] at h
  · simp only [hc, htok, timeSub] at h ⊢
    by_cases h1 : next - w.lastNow ≤ 0
    · have : next ≤ e.now := by omega
      simp [h1, this]
    · by_cases h2 : next - e.now ≤ 0
      · have : next ≤ e.now := by omega
        simp [h1, h2, this]; omega
      · have : ¬ next ≤ e.now := by omega
        by_cases h3 : e.timerWins = true <;> simp [h1, h2, h3, this]

/-- every action of the loop belongs to a pass of the history -/
theorem runLoop_iter_mem (v : Variant) (d : Bool) (w : Waiter) (h : List Iter) :
    ∀ ev ∈ (runLoop v d w h).1, ev.iter ∈ h := by
  induction h generalizing w with
  | nil => simp [runLoop]
  | cons jt rest ih =>
    intro ev hev
    unfold runLoop at hev
    by_cases hf : jt.finished = true
    · simp [hf] at hev
    · by_cases ha : jt.ammoOk = true
      · simp only [hf, ha] at hev
        by_cases hk : (waitV v w jt.env).ok = true
        · simp only [hk] at hev
          simp at hev
          rcases hev with rfl | hev
          · split <;> simp [Ev.iter]
          · exact List.mem_cons_of_mem _ (ih _ ev hev)
        · simp [hk] at hev
          exact List.mem_cons_of_mem _ (ih _ ev hev)
      · simp [hf, ha] at hev

/-! ### the events of the loop, pass by pass -/

theorem runLoop_events_ok (v : Variant) (d : Bool) (w : Waiter) (it : Iter) (rest : List Iter) (hf : it.finished = false)
    (ha : it.ammoOk = true) (hk : (waitV v w it.env).ok = true) :
    (runLoop v d w (it :: rest)).1 =
      (if fires d (isSlowDown (waitV v w it.env).w it.ctxDoneSlow) then Ev.shoot it else Ev.discard it discardedShootSample) ::
        (runLoop v d (waitV v w it.env).w rest).1 := by
  rw [runLoop]; simp [hf, ha, hk]

theorem runLoop_events_skip (v : Variant) (d : Bool) (w : Waiter) (it : Iter) (rest : List Iter) (hf : it.finished = false)
    (ha : it.ammoOk = true) (hk : (waitV v w it.env).ok = false) :
    (runLoop v d w (it :: rest)).1 = (runLoop v d (waitV v w it.env).w rest).1 := by
  rw [runLoop]; simp [hf, ha, hk]

theorem runLoop_events_stop (v : Variant) (d : Bool) (w : Waiter) (it : Iter) (rest : List Iter)
    (h : it.finished = true ∨ it.ammoOk = false) : (runLoop v d w (it :: rest)).1 = [] := by
  rw [runLoop]
  rcases h with h | h
  · simp [h]
  · by_cases hf : it.finished = true <;> simp [h, hf]

/-! ### cancellation is permanent -/

/-- A done context stays done: once `IsSlowDown` has seen the run context done in some pass, `IsFinished` sees it done at the
head of every later pass (`it.finished` is the answer of `IsFinished`, which is true on a done context). -/
def CtxMono (h : List Iter) : Prop := h.Pairwise (fun a b => a.ctxDoneSlow = true → b.finished = true)

instance (h : List Iter) : Decidable (CtxMono h) := by unfold CtxMono; exact inferInstance

theorem getLast?_cons_of_getLast? {α : Type} (a : α) (l : List α) (e : α) (h : l.getLast? = some e) :
    (a :: l).getLast? = some e := by
  cases l with
  | nil => simp at h
  | cons b t => simpa [List.getLast?_cons_cons] using h

/-- an action taken in a pass in which `IsSlowDown` saw the context done is the LAST action of that instance: the loop ends at
the next `IsFinished` -/
theorem runLoop_ctxDoneSlow_last (v : Variant) (d : Bool) (w : Waiter) (h : List Iter) (hm : CtxMono h) :
    ∀ ev ∈ (runLoop v d w h).1, ev.iter.ctxDoneSlow = true → (runLoop v d w h).1.getLast? = some ev := by
  induction h generalizing w with
  | nil => simp [runLoop]
  | cons jt rest ih =>
    intro ev hev hctx
    have hm' : CtxMono rest := (List.pairwise_cons.mp hm).2
    by_cases hf : jt.finished = true
    · rw [runLoop_events_stop v d w jt rest (Or.inl hf)] at hev; simp at hev
    · by_cases ha : jt.ammoOk = true
      · by_cases hk : (waitV v w jt.env).ok = true
        · rw [runLoop_events_ok v d w jt rest (by simpa using hf) ha hk] at hev ⊢
          simp only [List.mem_cons] at hev
          rcases hev with rfl | hev
          · -- this pass: every later pass has `finished = true`, so there are no further actions
            have hj : jt.ctxDoneSlow = true := by
              split at hctx <;> simpa [Ev.iter] using hctx
            have hnil : (runLoop v d (waitV v w jt.env).w rest).1 = [] := by
              cases rest with
              | nil => simp [runLoop]
              | cons r rs =>
                exact runLoop_events_stop v d _ r rs (Or.inl ((List.pairwise_cons.mp hm).1 r (by simp) hj))
            rw [hnil]; simp
          · exact getLast?_cons_of_getLast? _ _ _ (ih _ hm' ev hev hctx)
        · rw [runLoop_events_skip v d w jt rest (by simpa using hf) ha (by simpa using hk)] at hev ⊢
          exact ih _ hm' ev hev hctx
      · rw [runLoop_events_stop v d w jt rest (Or.inr (by simpa using ha))] at hev; simp at hev

end Pandora.Proofs.C04
