/-
C02 — the counts a composite stores and reports fit a 64-bit machine integer whenever the schedule holds fewer than
2^63 tokens in its finite parts: every entry of `leftAfter` is a `partsLeft` of a suffix of the parts
(`sufsP`, `Proofs/C02Sem.lean`), which lies between -1 and the number of finite tokens.  Together with the step lemmas
of `Bridge/C02Src.lean` (the regenerated loop body and `Left` decision in machine integers equal the ones over the
integers while the sums stay below 2^63) this is why the model may count in `Int`.
-/
import Pandora.Proofs.C02Sem
import Pandora.Bridge.C02Src

namespace Pandora.Proofs.C02Width
open Pandora.Go Pandora.Model.C02 Pandora.Spec.C02 Pandora.Proofs.C02Flat Pandora.Proofs.C02Sem

/-- number of tokens of the finite parts -/
def finTotal : List Part → Nat
  | [] => 0
  | .fin offs _ :: r => offs.length + finTotal r
  | .unl _ :: r => finTotal r

theorem finTotal_append : ∀ a b : List Part, finTotal (a ++ b) = finTotal a + finTotal b
  | [], b => by simp [finTotal]
  | .fin offs _ :: r, b => by simp [finTotal, finTotal_append r b]; omega
  | .unl _ :: r, b => by simp [finTotal, finTotal_append r b]

theorem partsLeft_le_total : ∀ ps : List Part, partsLeft ps ≤ (finTotal ps : Int)
  | [] => by simp [partsLeft, finTotal]
  | .unl _ :: r => by simp only [partsLeft, finTotal]; omega
  | .fin offs _ :: r => by
    have := partsLeft_le_total r
    simp only [partsLeft, finTotal]
    split <;> omega

/-- every entry of `leftAfter` is between -1 and the number of finite tokens of the parts behind the head -/
theorem sufsP_bounds : ∀ (pss : List (List Part)), ∀ x ∈ sufsP pss, -1 ≤ x ∧ x ≤ (finTotal pss.flatten : Int)
  | [], x, hx => by simp [sufsP] at hx; subst hx; simp [finTotal]
  | p :: ps, x, hx => by
    simp only [sufsP, List.mem_cons] at hx
    rcases hx with rfl | hx
    · exact ⟨partsLeft_ge _, by simpa using partsLeft_le_total (p ++ ps.flatten)⟩
    · obtain ⟨h1, h2⟩ := sufsP_bounds ps x hx
      refine ⟨h1, ?_⟩
      simp only [List.flatten_cons, finTotal_append]
      omega

/-- … so a 64-bit element holds it unchanged when there are fewer than 2^63 finite tokens -/
theorem sufsP_fits (pss : List (List Part)) (h : (finTotal pss.flatten : Int) < 9223372036854775808) :
    ∀ x ∈ sufsP pss, wrapInt 64 x = x := by
  intro x hx
  obtain ⟨h1, h2⟩ := sufsP_bounds pss x hx
  exact Pandora.Bridge.C02Src.wrap64_id x (by omega) (by omega)

end Pandora.Proofs.C02Width
