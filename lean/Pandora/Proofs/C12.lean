/-
C12 — invariants of the startup transition system (`Pandora.Model.C12`), its refinement to the sequential program
`startSeq` (= the regenerated `startInstances`, Bridge/C12Startup), and the exits of `instRun`.  Core Lean only.
-/
import Pandora.Model.C12
import Pandora.Proofs.C04

namespace Pandora.Proofs.C12
open Pandora.Model.C04 Pandora.Model.C12 Pandora.Proofs.C04 Pandora.Go.C12

/-! ### what one `Wait` call can answer -/

/-- every path of `Wait`, with what it needs of the environment -/
theorem waitV_spec (v : Variant) (w : Waiter) (e : Env) :
    (e.ctxDone = true ∧ (waitV v w e).path = .ctxDone ∧ (waitV v w e).ok = false) ∨
    (e.ctxDone = false ∧ e.tok = none ∧ (waitV v w e).path = .finished ∧ (waitV v w e).ok = false) ∨
    (e.ctxDone = false ∧ ∃ next, e.tok = some next ∧
      ((((waitV v w e).path = .cachedNow ∨ (waitV v w e).path = .freshNow) ∧ (waitV v w e).ok = true) ∨
       ((waitV v w e).path = .timer ∧ (waitV v w e).ok = true ∧ e.timerWins = true) ∨
       ((waitV v w e).path = .timerCancel ∧ (waitV v w e).ok = false ∧ e.timerWins = false))) := by
  unfold waitV
  by_cases hc : e.ctxDone = true
  · left; simp [hc]
  · right
    have hc' : e.ctxDone = false := by simpa using hc
    cases htok : e.tok with
    | none => left; simp [hc']
    | some next =>
      right
      refine ⟨hc', next, rfl, ?_⟩
      simp only [hc', Bool.false_eq_true, if_false]
      by_cases h1 : Pandora.Go.C04.timeSub next w.lastNow ≤ 0
      · left; cases v <;> simp [h1]
      · by_cases h2 : Pandora.Go.C04.timeSub next e.now ≤ 0
        · left; simp [h1, h2]
        · right
          by_cases h3 : e.timerWins = true
          · left; simp [h1, h2, h3]
          · right; simp [h1, h2, h3]

/-- a call that sleeps and is woken by `ctx.Done()` instead of the timer: same waiter state, answer false -/
theorem waitV_timer_cancel (v : Variant) (w : Waiter) (e : Env) (h : (waitV v w e).path = .timer) :
    (waitV v w { e with timerWins := false }).path = .timerCancel ∧
    (waitV v w { e with timerWins := false }).ok = false := by
  unfold waitV at h ⊢
  by_cases hc : e.ctxDone = true
  · simp [hc] at h
  · cases htok : e.tok with
    | none => simp [hc, htok] at h
    | some next =>
      simp only [hc, htok] at h ⊢
      by_cases h1 : Pandora.Go.C04.timeSub next w.lastNow ≤ 0
      · cases v <;> simp [h1] at h
      · by_cases h2 : Pandora.Go.C04.timeSub next e.now ≤ 0
        · simp [h1, h2] at h
        · simp [h1, h2]

theorem waitV_timer_ok (v : Variant) (w : Waiter) (e : Env) (h : (waitV v w e).path = .timer) :
    (waitV v w e).ok = true ∧ ∃ next, e.tok = some next := by
  rcases waitV_spec v w e with ⟨_, hp, _⟩ | ⟨_, _, hp, _⟩ | ⟨_, next, htok, hp⟩
  · rw [hp] at h; cases h
  · rw [hp] at h; cases h
  · rcases hp with ⟨hp | hp, _⟩ | ⟨_, hok, _⟩ | ⟨hp, _, _⟩
    · rw [hp] at h; cases h
    · rw [hp] at h; cases h
    · exact ⟨hok, next, htok⟩
    · rw [hp] at h; cases h

/-! ### state invariant -/

/-- one of the three events that cancel the start context has happened -/
def cancelSeen (s : St) : Prop := s.sawOutOfAmmo = true ∨ s.sawRpsFinished = true ∨ s.sawRunCancelled = true

/-- the four causes of the property statement -/
def causeSeen (s : St) : Prop :=
  s.sawOutOfAmmo = true ∨ s.sawRpsFinished = true ∨ s.sawCreateFailed = true ∨ s.sawRunCancelled = true

theorem cancelSeen.cause {s : St} (h : cancelSeen s) : causeSeen s := by
  rcases h with a | a | a
  · exact Or.inl a
  · exact Or.inr (Or.inl a)
  · exact Or.inr (Or.inr (Or.inr a))

/-- constant answer of a `Wait` call, whatever context it is given -/
def K (b : Bool) : Ctx → Bool := fun _ => b

/-- state invariant of the startup loop for a profile whose tokens are `all` -/
structure Inv (c : Cfg) (all : List Int) (s : St) : Prop where
  toks : s.toks = all.drop s.consumed
  bound : s.consumed ≤ all.length
  started : s.started = s.created.length
  ids : s.created.map (·.id) = List.range s.created.length
  cons : s.consumed = s.started ∨ (s.phase = .done ∧ s.consumed = s.started + 1)
  consStarting : s.phase = .starting → s.consumed = s.started
  ctx : s.startCtxDone = true → cancelSeen s
  done : s.phase = .done → (s.toks = [] ∧ s.consumed = s.started) ∨ causeSeen s
  pend : ∀ p, s.pending = some p →
    s.phase = .starting ∧ p.env.tok = s.toks.head? ∧ (waitV c.v s.waiter p.env).path = .timer
  runCtx : s.runCtxDone = true ↔ s.sawRunCancelled = true
  ammo : s.sawOutOfAmmo = true → s.ammoOut = true
  rps : s.sawRpsFinished = true ↔ s.sharedRpsDone = true
  rpsShared : s.sharedRpsDone = true → c.perInstance = false ∧ anyInstance s = true
  running : ∀ id ∈ s.running, ∃ cr ∈ s.created, cr.id = id ∧ cr.ok = true
  failed : s.sawCreateFailed = false → ∀ cr ∈ s.created, cr.ok = true
  firstOkS : s.phase = .starting → s.firstOk = true
  retS : s.phase = .starting → s.ret = .none
  log0 : s.phase = .starting → (s.waitLog = [] ↔ s.started = 0)
  seq : startSeq s.firstOk (s.waitLog.map K) = ⟨s.acts, (s.started : Int), s.ret, s.phase == .done⟩

theorem Inv.init (c : Cfg) (all : List Int) : Inv c all (St.init all) := by
  refine ⟨by simp [St.init], by simp [St.init], rfl, rfl, Or.inl rfl, fun _ => rfl, ?_, ?_, ?_, ?_, ?_, ?_, ?_, ?_,
    ?_, ?_, ?_, ?_, ?_⟩ <;> simp [St.init, startSeq]

/-- what the invariant needs to know about the answer `r` of the `Wait` call that is being completed in state `s` -/
structure ResOK (s : St) (r : Res) : Prop where
  drewTok : drew r.path = true → s.toks ≠ []
  okDrew : r.ok = true → drew r.path = true
  notOk : r.ok = false → (drew r.path = false ∧ s.toks = []) ∨ s.startCtxDone = true

theorem resOK_of_matches (v : Variant) (s : St) (env : Env) (hm : envMatches s env = true) :
    ResOK s (waitV v s.waiter env) := by
  simp only [envMatches, Bool.and_eq_true, beq_iff_eq] at hm
  obtain ⟨⟨hctx, htok⟩, htw⟩ := hm
  rcases waitV_spec v s.waiter env with ⟨hc, hp, hok⟩ | ⟨_, hn, hp, hok⟩ | ⟨_, next, hnext, hp⟩
  · refine ⟨by simp [hp, drew], by simp [hok], fun _ => Or.inr (by rw [← hctx, hc])⟩
  · have hnil : s.toks = [] := by
      rw [htok] at hn
      cases hs : s.toks with
      | nil => rfl
      | cons a b => simp [hs] at hn
    refine ⟨by simp [hp, drew], by simp [hok], fun _ => Or.inl ⟨by simp [hp, drew], hnil⟩⟩
  · have hne : s.toks ≠ [] := by
      intro hnil
      rw [htok, hnil] at hnext
      simp at hnext
    rcases hp with ⟨hp | hp, hok⟩ | ⟨hp, hok, _⟩ | ⟨_, _, hf⟩
    · exact ⟨fun _ => hne, by simp [hp, drew], by simp [hok]⟩
    · exact ⟨fun _ => hne, by simp [hp, drew], by simp [hok]⟩
    · exact ⟨fun _ => hne, by simp [hp, drew], by simp [hok]⟩
    · rw [htw] at hf; cases hf

/-! ### `startSeq` one answer further -/

theorem startSeqLoop_snoc (acts : List Act) (st : Int) (l : List (Ctx → Bool)) (x : Ctx → Bool) :
    startSeqLoop acts st (l ++ [x]) =
      if (startSeqLoop acts st l).returned then startSeqLoop acts st l
      else if x .start then
        ⟨(startSeqLoop acts st l).acts ++ [.goRunNew .run (startSeqLoop acts st l).started],
          (startSeqLoop acts st l).started + 1, .none, false⟩
      else ⟨(startSeqLoop acts st l).acts, (startSeqLoop acts st l).started, .ofCtx .start, true⟩ := by
  induction l generalizing acts st with
  | nil =>
    simp only [List.nil_append, startSeqLoop]
    by_cases hx : x .start = true <;> simp [hx]
  | cons w ws ih =>
    simp only [List.cons_append, startSeqLoop]
    by_cases hw : w .start = true
    · simp only [hw, if_true]; exact ih _ _
    · simp [hw]

theorem startSeq_snoc (f : Bool) (l : List (Ctx → Bool)) (x : Ctx → Bool) (hl : l ≠ []) :
    startSeq f (l ++ [x]) =
      if (startSeq f l).returned then startSeq f l
      else if x .start then
        ⟨(startSeq f l).acts ++ [.goRunNew .run (startSeq f l).started], (startSeq f l).started + 1, .none, false⟩
      else ⟨(startSeq f l).acts, (startSeq f l).started, .ofCtx .start, true⟩ := by
  cases l with
  | nil => exact absurd rfl hl
  | cons w ws =>
    simp only [List.cons_append, startSeq]
    by_cases hw : w .start = true
    · by_cases hf : f = true
      · simp only [hw, hf, Bool.not_true, Bool.false_eq_true, if_false]
        exact startSeqLoop_snoc _ _ ws x
      · simp [hw, hf]
    · simp [hw]

/-! ### completing a `Wait` call preserves the invariant -/

theorem seq_nil {c : Cfg} {all : List Int} {s : St} (h : Inv c all s) (hl0 : s.waitLog = []) : s.acts = [] := by
  have := h.seq
  rw [hl0] at this
  simp only [List.map_nil, startSeq] at this
  exact (congrArg StartRes.acts this).symm

theorem complete_inv (c : Cfg) (all : List Int) (s : St) (r : Res) (p : Pending) (h : Inv c all s)
    (hph : s.phase = .starting) (hr : ResOK s r) : Inv c all (complete s r p) := by
  have hcons : s.consumed = s.started := h.consStarting hph
  have hfo : s.firstOk = true := h.firstOkS hph
  have hrt : s.ret = .none := h.retS hph
  have hseq0 := h.seq
  -- the tokens after this call
  have htoks' : drew r.path = true → s.toks.tail = all.drop (s.consumed + 1) ∧ s.consumed + 1 ≤ all.length := by
    intro hd
    have hne := hr.drewTok hd
    refine ⟨by rw [h.toks, List.tail_drop], ?_⟩
    have : all.drop s.consumed ≠ [] := by rw [← h.toks]; exact hne
    rw [Ne, List.drop_eq_nil_iff] at this
    omega
  -- the sequential program one answer further, when the call answers false
  have hseqFalse :
      startSeq s.firstOk ((s.waitLog ++ [false]).map K) = ⟨s.acts, (s.started : Int), .ofCtx .start, true⟩ := by
    by_cases hl0 : s.waitLog = []
    · have hs0 : s.started = 0 := (h.log0 hph).mp hl0
      simp [hl0, seq_nil h hl0, hs0, startSeq, K]
    · rw [List.map_append, List.map_cons, List.map_nil, startSeq_snoc _ _ _ (by simpa using hl0), hseq0]
      simp [hph, K]
  unfold complete
  by_cases hok : r.ok = true
  · -- the call answered true: a token was drawn
    have hd : drew r.path = true := hr.okDrew hok
    obtain ⟨htl, hb⟩ := htoks' hd
    simp only [hd, if_true, hok, Bool.not_true, Bool.false_eq_true, if_false]
    by_cases h0 : (s.started == 0) = true
    · have hs0 : s.started = 0 := by simpa using h0
      have hcl : s.created = [] := by
        have := h.started; rw [hs0] at this
        exact List.length_eq_zero_iff.mp this.symm
      have hl0 : s.waitLog = [] := (h.log0 hph).mpr hs0
      have hacts : s.acts = [] := seq_nil h hl0
      by_cases hco : p.createOk = true
      · simp only [h0, if_true, hco]
        exact {
          toks := by simpa using htl
          bound := hb
          started := by simp [hcl]
          ids := by simp [hcl]
          cons := Or.inl (by simp [hcons, hs0])
          consStarting := fun _ => by simp [hcons, hs0]
          ctx := h.ctx
          done := by intro hdn; simp [hph] at hdn
          pend := by intro q hq; simp at hq
          runCtx := h.runCtx
          ammo := h.ammo
          rps := h.rps
          rpsShared := by
            intro hsh
            exact ⟨(h.rpsShared hsh).1, by simp [anyInstance]⟩
          running := by
            intro id hid
            simp only [List.mem_append, List.mem_singleton] at hid
            rcases hid with hid | hid
            · obtain ⟨cr, hcr, hi⟩ := h.running id hid
              exact ⟨cr, by simp [hcr], hi⟩
            · exact ⟨⟨0, p.env.ret + p.delay, true⟩, by simp, by simp [hid]⟩
          failed := by
            intro hf cr hcr
            simp only [List.mem_append, List.mem_singleton] at hcr
            rcases hcr with hcr | hcr
            · exact h.failed hf cr hcr
            · rw [hcr]
          firstOkS := fun _ => hfo
          retS := fun _ => hrt
          log0 := by intro _; simp
          seq := by
            simp [hl0, hacts, startSeq, K, hfo, startSeqLoop, hph, hrt] }
      · have hco' : p.createOk = false := by simpa using hco
        simp only [h0, if_true, hco', Bool.false_eq_true, if_false]
        exact {
          toks := by simpa using htl
          bound := hb
          started := h.started
          ids := h.ids
          cons := Or.inr ⟨rfl, by simp [hcons]⟩
          consStarting := by intro hx; cases hx
          ctx := h.ctx
          done := fun _ => Or.inr (Or.inr (Or.inr (Or.inl rfl)))
          pend := by intro q hq; simp at hq
          runCtx := h.runCtx
          ammo := h.ammo
          rps := h.rps
          rpsShared := h.rpsShared
          running := h.running
          failed := by intro hx; cases hx
          firstOkS := by intro hx; cases hx
          retS := by intro hx; cases hx
          log0 := by intro hx; cases hx
          seq := by
            simp [hl0, hacts, hs0, startSeq, K] }
    · -- a later instance
      have hsn : s.started ≠ 0 := by simpa using h0
      have hlne : s.waitLog ≠ [] := fun hx => hsn ((h.log0 hph).mp hx)
      simp only [h0, Bool.false_eq_true, if_false]
      exact {
        toks := by simpa using htl
        bound := hb
        started := by simpa using h.started
        ids := by simp [List.range_succ, h.ids]; exact h.started
        cons := Or.inl (by simp [hcons])
        consStarting := fun _ => by simp [hcons]
        ctx := h.ctx
        done := by intro hdn; simp [hph] at hdn
        pend := by intro q hq; simp at hq
        runCtx := h.runCtx
        ammo := h.ammo
        rps := h.rps
        rpsShared := by
          intro hsh
          obtain ⟨a, b⟩ := h.rpsShared hsh
          refine ⟨a, ?_⟩
          simp only [anyInstance, List.any_append, Bool.or_eq_true] at b ⊢
          exact Or.inl b
        running := by
          intro id hid
          by_cases hco : p.createOk = true
          · simp only [hco, if_true, List.mem_append, List.mem_singleton] at hid
            rcases hid with hid | hid
            · obtain ⟨cr, hcr, hi⟩ := h.running id hid
              exact ⟨cr, by simp [hcr], hi⟩
            · exact ⟨⟨s.started, p.env.ret + p.delay, p.createOk⟩, by simp, by simp [hid, hco]⟩
          · simp only [hco, Bool.false_eq_true, if_false] at hid
            obtain ⟨cr, hcr, hi⟩ := h.running id hid
            exact ⟨cr, by simp [hcr], hi⟩
        failed := by
          intro hf cr hcr
          simp only [Bool.or_eq_false_iff, Bool.not_eq_false'] at hf
          simp only [List.mem_append, List.mem_singleton] at hcr
          rcases hcr with hcr | hcr
          · exact h.failed hf.1 cr hcr
          · rw [hcr]; exact hf.2
        firstOkS := fun _ => hfo
        log0 := by
          intro _
          constructor
          · intro hx; simp at hx
          · intro hx; simp at hx
        retS := fun _ => hrt
        seq := by
          dsimp only
          rw [List.map_append, List.map_cons, List.map_nil, startSeq_snoc _ _ _ (by simpa using hlne), hseq0]
          simp [hph, K, hrt] }
  · -- the call answered false: the loop is over
    have hok' : r.ok = false := by simpa using hok
    simp only [hok', Bool.not_false, if_true]
    by_cases hd : drew r.path = true
    · -- woken by the cancelled context after the token was drawn
      obtain ⟨htl, hb⟩ := htoks' hd
      have hcx : s.startCtxDone = true := by
        rcases hr.notOk hok' with ⟨hnd, _⟩ | hx
        · rw [hd] at hnd; cases hnd
        · exact hx
      simp only [hd, if_true]
      exact {
        toks := by simpa using htl
        bound := hb
        started := h.started
        ids := h.ids
        cons := Or.inr ⟨rfl, by simp [hcons]⟩
        consStarting := by intro hx; cases hx
        ctx := h.ctx
        done := fun _ => Or.inr (h.ctx hcx).cause
        pend := by intro q hq; simp at hq
        runCtx := h.runCtx
        ammo := h.ammo
        rps := h.rps
        rpsShared := h.rpsShared
        running := h.running
        failed := h.failed
        firstOkS := by intro hx; cases hx
        retS := by intro hx; cases hx
        log0 := by intro hx; cases hx
        seq := by simpa using hseqFalse }
    · have hd' : drew r.path = false := by simpa using hd
      simp only [hd', Bool.false_eq_true, if_false]
      exact {
        toks := h.toks
        bound := h.bound
        started := h.started
        ids := h.ids
        cons := Or.inl hcons
        consStarting := fun _ => hcons
        ctx := h.ctx
        done := by
          intro _
          rcases hr.notOk hok' with ⟨_, hnil⟩ | hx
          · exact Or.inl ⟨hnil, hcons⟩
          · exact Or.inr (h.ctx hx).cause
        pend := by intro q hq; simp at hq
        runCtx := h.runCtx
        ammo := h.ammo
        rps := h.rps
        rpsShared := h.rpsShared
        running := h.running
        failed := h.failed
        firstOkS := by intro hx; cases hx
        retS := by intro hx; cases hx
        log0 := by intro hx; cases hx
        seq := by simpa using hseqFalse }

/-! ### every event preserves the invariant -/

/-- fields untouched by an event that changes only flags -/
theorem Inv.pendOf {c : Cfg} {all : List Int} {s : St} (h : Inv c all s) (p : Pending) (hp : s.pending = some p) :
    ResOK s (waitV c.v s.waiter p.env) := by
  obtain ⟨_, htok, hpath⟩ := h.pend p hp
  obtain ⟨hok, next, hnext⟩ := waitV_timer_ok _ _ _ hpath
  have hne : s.toks ≠ [] := by
    intro hnil
    rw [htok, hnil] at hnext
    simp at hnext
  exact ⟨fun _ => hne, fun _ => by simp [hpath, drew], by simp [hok]⟩

theorem step_inv (c : Cfg) (all : List Int) (s : St) (ev : Event) (h : Inv c all s) : Inv c all (step c s ev) := by
  cases ev with
  | wait env createOk delay =>
    show Inv c all (stepWait c s env createOk delay)
    unfold stepWait
    by_cases hg : (s.phase != .starting || s.pending.isSome || !envMatches s env) = true
    · rw [if_pos hg]; exact h
    · rw [if_neg hg]
      have hph : s.phase = .starting := by
        cases hp : s.phase <;> simp_all
      have hm : envMatches s env = true := by
        cases hm : envMatches s env <;> simp_all
      by_cases ht : ((waitV c.v s.waiter env).path == .timer) = true
      · simp only [ht, if_true]
        have ht' : (waitV c.v s.waiter env).path = .timer := by simpa using ht
        simp only [envMatches, Bool.and_eq_true, beq_iff_eq] at hm
        exact {
          toks := h.toks, bound := h.bound, started := h.started, ids := h.ids, cons := h.cons
          consStarting := h.consStarting, ctx := h.ctx, done := h.done
          pend := by
            intro q hq
            simp only [Option.some.injEq] at hq
            subst hq
            exact ⟨hph, hm.1.2, ht'⟩
          runCtx := h.runCtx, ammo := h.ammo, rps := h.rps, rpsShared := h.rpsShared, running := h.running
          failed := h.failed, firstOkS := h.firstOkS, retS := h.retS, log0 := h.log0, seq := h.seq }
      · simp only [ht, Bool.false_eq_true, if_false]
        exact complete_inv c all s _ _ h hph (resOK_of_matches c.v s env hm)
  | timerFire =>
    show Inv c all (stepFire c s)
    unfold stepFire
    cases hp : s.pending with
    | none => exact h
    | some p => exact complete_inv c all s _ p h (h.pend p hp).1 (h.pendOf p hp)
  | wakeCancelled =>
    show Inv c all (stepWake c s)
    unfold stepWake
    cases hp : s.pending with
    | none => exact h
    | some p =>
      by_cases hcx : s.startCtxDone = true
      · simp only [hcx, Bool.not_true, Bool.false_eq_true, if_false]
        obtain ⟨hph, htok, hpath⟩ := h.pend p hp
        obtain ⟨hpc, hokc⟩ := waitV_timer_cancel _ _ _ hpath
        obtain ⟨_, next, hnext⟩ := waitV_timer_ok _ _ _ hpath
        have hne : s.toks ≠ [] := by
          intro hnil
          rw [htok, hnil] at hnext
          simp at hnext
        exact complete_inv c all s _ p h hph ⟨fun _ => hne, by simp [hokc], fun _ => Or.inr hcx⟩
      · simpa [hcx] using h
  | outOfAmmoResult =>
    show Inv c all (if !s.ammoOut then s else _)
    by_cases ha : s.ammoOut = true
    · simp only [ha, Bool.not_true, Bool.false_eq_true, if_false]
      exact {
        toks := h.toks, bound := h.bound, started := h.started, ids := h.ids, cons := h.cons
        consStarting := h.consStarting, ctx := fun _ => Or.inl rfl
        done := by
          intro hd
          rcases h.done hd with a | a
          · exact Or.inl a
          · exact Or.inr (Or.inl rfl)
        pend := h.pend, runCtx := h.runCtx, ammo := fun _ => rfl, rps := h.rps, rpsShared := h.rpsShared
        running := h.running, failed := h.failed, firstOkS := h.firstOkS, retS := h.retS, log0 := h.log0, seq := h.seq }
    · simpa [ha] using h
  | rpsFinished =>
    show Inv c all (if c.perInstance || !anyInstance s then s else _)
    by_cases hg : (c.perInstance || !anyInstance s) = true
    · simpa [hg] using h
    · simp only [hg, Bool.false_eq_true, if_false]
      simp only [Bool.or_eq_true, Bool.not_eq_true', not_or, Bool.not_eq_true, Bool.not_eq_false] at hg
      exact {
        toks := h.toks, bound := h.bound, started := h.started, ids := h.ids, cons := h.cons
        consStarting := h.consStarting, ctx := fun _ => Or.inr (Or.inl rfl)
        done := by
          intro hd
          rcases h.done hd with a | a
          · exact Or.inl a
          · exact Or.inr (Or.inr (Or.inl rfl))
        pend := h.pend, runCtx := h.runCtx, ammo := h.ammo, rps := by simp
        rpsShared := fun _ => ⟨hg.1, hg.2⟩
        running := h.running, failed := h.failed, firstOkS := h.firstOkS, retS := h.retS, log0 := h.log0, seq := h.seq }
  | runCancel =>
    exact {
      toks := h.toks, bound := h.bound, started := h.started, ids := h.ids, cons := h.cons
      consStarting := h.consStarting, ctx := fun _ => Or.inr (Or.inr rfl)
      done := by
        intro hd
        rcases h.done hd with a | a
        · exact Or.inl a
        · exact Or.inr (Or.inr (Or.inr (Or.inr rfl)))
      pend := h.pend, runCtx := by simp [step], ammo := h.ammo, rps := h.rps, rpsShared := h.rpsShared
      running := h.running, failed := h.failed, firstOkS := h.firstOkS, retS := h.retS, log0 := h.log0, seq := h.seq }
  | instanceExit id reason =>
    show Inv c all (stepExit c s id reason)
    unfold stepExit
    split
    · exact h
    · exact {
        toks := h.toks, bound := h.bound, started := h.started, ids := h.ids, cons := h.cons
        consStarting := h.consStarting, ctx := h.ctx, done := h.done, pend := h.pend, runCtx := h.runCtx
        ammo := fun hx => by simp [h.ammo hx]
        rps := h.rps, rpsShared := h.rpsShared
        running := fun i hi => h.running i (List.mem_of_mem_erase hi)
        failed := h.failed, firstOkS := h.firstOkS, retS := h.retS, log0 := h.log0, seq := h.seq }

theorem run_inv (c : Cfg) (all : List Int) (s : St) (evs : List Event) (h : Inv c all s) : Inv c all (run c s evs) := by
  induction evs generalizing s with
  | nil => exact h
  | cons ev rest ih => exact ih _ (step_inv c all s ev h)

/-! ### timing -/

/-- the `Wait` calls of the start loop among the events -/
def waitEnvs : List Event → List Env
  | [] => []
  | .wait env _ _ :: rest => env :: waitEnvs rest
  | _ :: rest => waitEnvs rest

/-- clock hypotheses (as in C04) for the `Wait` calls of the startup waiter among the events -/
def EventsClockOK (w : Waiter) (evs : List Event) : Prop :=
  (∀ e ∈ waitEnvs evs, EnvOK e) ∧ (∀ e ∈ waitEnvs evs, w.lastNow ≤ e.now) ∧
    (waitEnvs evs).Pairwise (fun a b => a.now ≤ b.now)

instance (w : Waiter) (evs : List Event) : Decidable (EventsClockOK w evs) := by
  unfold EventsClockOK; exact inferInstance

/-- the clock hypotheses for the events still to come, in a state that may hold a sleeping `Wait` call -/
structure ClockInv (s : St) (rest : List Event) : Prop where
  ok : ∀ e ∈ waitEnvs rest, EnvOK e
  last : ∀ e ∈ waitEnvs rest, s.waiter.lastNow ≤ e.now
  pw : (waitEnvs rest).Pairwise (fun a b => a.now ≤ b.now)
  pend : ∀ p, s.pending = some p →
    EnvOK p.env ∧ s.waiter.lastNow ≤ p.env.now ∧ ∀ e ∈ waitEnvs rest, p.env.now ≤ e.now

theorem complete_waiter (s : St) (r : Res) (p : Pending) :
    (complete s r p).waiter = r.w ∧ (complete s r p).pending = none := by
  unfold complete
  dsimp only
  (repeat' split) <;> exact ⟨rfl, rfl⟩

/-- every created instance was created at or after the release time of the token with its number -/
def NotAhead (all : List Int) (s : St) : Prop :=
  ∀ c ∈ s.created, ∃ t, all[c.id]? = some t ∧ t ≤ c.instant

theorem complete_notAhead (c : Cfg) (all : List Int) (s : St) (r : Res) (p : Pending) (hi : Inv c all s)
    (hn : NotAhead all s) (hph : s.phase = .starting)
    (hr : r.ok = true → ∃ next, s.toks.head? = some next ∧ next ≤ p.env.ret) : NotAhead all (complete s r p) := by
  have hcons : s.consumed = s.started := hi.consStarting hph
  unfold complete
  by_cases hok : r.ok = true
  · obtain ⟨next, hnext, hle⟩ := hr hok
    have hall : all[s.started]? = some next := by
      rw [hi.toks, hcons] at hnext
      simpa [List.head?_drop] using hnext
    simp only [hok, Bool.not_true, Bool.false_eq_true, if_false]
    by_cases hd : drew r.path = true <;> simp only [hd, if_true, Bool.false_eq_true, if_false]
    all_goals
      by_cases h0 : (s.started == 0) = true
      · have hs0 : s.started = 0 := by simpa using h0
        by_cases hco : p.createOk = true
        · simp only [h0, if_true, hco]
          intro cr hcr
          simp only [List.mem_append, List.mem_singleton] at hcr
          rcases hcr with hcr | hcr
          · exact hn cr hcr
          · subst hcr
            exact ⟨next, by simpa [hs0] using hall, by simp; omega⟩
        · simp only [h0, if_true, hco, Bool.false_eq_true, if_false]
          exact hn
      · simp only [h0, Bool.false_eq_true, if_false]
        intro cr hcr
        simp only [List.mem_append, List.mem_singleton] at hcr
        rcases hcr with hcr | hcr
        · exact hn cr hcr
        · subst hcr
          exact ⟨next, hall, by simp; omega⟩
  · have hok' : r.ok = false := by simpa using hok
    simp only [hok', Bool.not_false, if_true]
    by_cases hd : drew r.path = true <;> simp only [hd, if_true, Bool.false_eq_true, if_false] <;> exact hn

theorem step_clock (c : Cfg) (s : St) (ev : Event) (rest : List Event) (h : ClockInv s (ev :: rest)) :
    ClockInv (step c s ev) rest := by
  cases ev with
  | wait env createOk delay =>
    have hok : ∀ e ∈ waitEnvs rest, EnvOK e := fun e he => h.ok e (by simp [waitEnvs, he])
    have hlast : ∀ e ∈ waitEnvs rest, s.waiter.lastNow ≤ e.now := fun e he => h.last e (by simp [waitEnvs, he])
    have hpw := h.pw
    simp only [waitEnvs, List.pairwise_cons] at hpw
    show ClockInv (stepWait c s env createOk delay) rest
    unfold stepWait
    by_cases hg : (s.phase != .starting || s.pending.isSome || !envMatches s env) = true
    · rw [if_pos hg]
      exact ⟨hok, hlast, hpw.2, fun p hp => by
        obtain ⟨a, b, d⟩ := h.pend p hp
        exact ⟨a, b, fun e he => d e (by simp [waitEnvs, he])⟩⟩
    · rw [if_neg hg]
      by_cases ht : ((waitV c.v s.waiter env).path == .timer) = true
      · simp only [ht, if_true]
        refine ⟨hok, hlast, hpw.2, ?_⟩
        intro p hp
        simp only [Option.some.injEq] at hp
        subst hp
        exact ⟨h.ok env (by simp [waitEnvs]), h.last env (by simp [waitEnvs]), hpw.1⟩
      · simp only [ht, Bool.false_eq_true, if_false]
        obtain ⟨hw, hpn⟩ := complete_waiter s (waitV c.v s.waiter env) ⟨env, createOk, delay⟩
        refine ⟨hok, ?_, hpw.2, ?_⟩
        · intro e he
          rw [hw]
          rcases waitV_lastNow c.v s.waiter env with hl | hl
          · rw [hl]; exact hlast e he
          · rw [hl]; exact hpw.1 e he
        · intro p hp; rw [hpn] at hp; cases hp
  | timerFire =>
    show ClockInv (stepFire c s) rest
    unfold stepFire
    cases hp : s.pending with
    | none => exact ⟨h.ok, h.last, h.pw, fun p hp' => by rw [hp] at hp'; cases hp'⟩
    | some p =>
      obtain ⟨hw, hpn⟩ := complete_waiter s (waitV c.v s.waiter p.env) p
      obtain ⟨_, hb, hd⟩ := h.pend p hp
      refine ⟨h.ok, ?_, h.pw, ?_⟩
      · intro e he
        show (complete s (waitV c.v s.waiter p.env) p).waiter.lastNow ≤ e.now
        rw [hw]
        rcases waitV_lastNow c.v s.waiter p.env with hl | hl
        · rw [hl]; exact h.last e he
        · rw [hl]; exact hd e he
      · intro q hq
        have : (complete s (waitV c.v s.waiter p.env) p).pending = some q := hq
        rw [hpn] at this; cases this
  | wakeCancelled =>
    show ClockInv (stepWake c s) rest
    unfold stepWake
    cases hp : s.pending with
    | none => exact ⟨h.ok, h.last, h.pw, fun p hp' => by rw [hp] at hp'; cases hp'⟩
    | some p =>
      by_cases hcx : s.startCtxDone = true
      · simp only [hcx, Bool.not_true, Bool.false_eq_true, if_false]
        obtain ⟨hw, hpn⟩ := complete_waiter s (waitV c.v s.waiter { p.env with timerWins := false }) p
        obtain ⟨_, hb, hd⟩ := h.pend p hp
        refine ⟨h.ok, ?_, h.pw, ?_⟩
        · intro e he
          rw [hw]
          rcases waitV_lastNow c.v s.waiter { p.env with timerWins := false } with hl | hl
          · rw [hl]; exact h.last e he
          · rw [hl]; exact hd e he
        · intro q hq; rw [hpn] at hq; cases hq
      · have : (!s.startCtxDone) = true := by simpa using hcx
        simp only [this, if_true]
        exact ⟨h.ok, h.last, h.pw, fun q hq => h.pend q hq⟩
  | outOfAmmoResult =>
    show ClockInv (if !s.ammoOut then s else _) rest
    split
    · exact ⟨h.ok, h.last, h.pw, h.pend⟩
    · exact ⟨h.ok, h.last, h.pw, h.pend⟩
  | rpsFinished =>
    show ClockInv (if c.perInstance || !anyInstance s then s else _) rest
    split
    · exact ⟨h.ok, h.last, h.pw, h.pend⟩
    · exact ⟨h.ok, h.last, h.pw, h.pend⟩
  | runCancel => exact ⟨h.ok, h.last, h.pw, h.pend⟩
  | instanceExit id reason =>
    show ClockInv (stepExit c s id reason) rest
    unfold stepExit
    split
    · exact ⟨h.ok, h.last, h.pw, h.pend⟩
    · exact ⟨h.ok, h.last, h.pw, h.pend⟩

theorem step_notAhead (c : Cfg) (all : List Int) (s : St) (ev : Event) (rest : List Event) (hi : Inv c all s)
    (hn : NotAhead all s) (hclk : ClockInv s (ev :: rest)) : NotAhead all (step c s ev) := by
  cases ev with
  | wait env createOk delay =>
    show NotAhead all (stepWait c s env createOk delay)
    unfold stepWait
    by_cases hg : (s.phase != .starting || s.pending.isSome || !envMatches s env) = true
    · rw [if_pos hg]; exact hn
    · rw [if_neg hg]
      have hph : s.phase = .starting := by
        cases hp : s.phase <;> simp_all
      have hm : envMatches s env = true := by
        cases hm : envMatches s env <;> simp_all
      by_cases ht : ((waitV c.v s.waiter env).path == .timer) = true
      · simp only [ht, if_true]; exact hn
      · simp only [ht, Bool.false_eq_true, if_false]
        refine complete_notAhead c all s _ _ hi hn hph ?_
        intro hok
        obtain ⟨next, hnext, hle, _⟩ := waitV_ok c.v s.waiter env (hclk.ok env (by simp [waitEnvs]))
          (hclk.last env (by simp [waitEnvs])) hok
        simp only [envMatches, Bool.and_eq_true, beq_iff_eq] at hm
        exact ⟨next, by rw [← hm.1.2, hnext], hle⟩
  | timerFire =>
    show NotAhead all (stepFire c s)
    unfold stepFire
    cases hp : s.pending with
    | none => exact hn
    | some p =>
      obtain ⟨hph, htok, _⟩ := hi.pend p hp
      obtain ⟨hek, hlast, _⟩ := hclk.pend p hp
      refine complete_notAhead c all s _ p hi hn hph ?_
      intro hok
      obtain ⟨next, hnext, hle, _⟩ := waitV_ok c.v s.waiter p.env hek hlast hok
      exact ⟨next, by rw [← htok, hnext], hle⟩
  | wakeCancelled =>
    show NotAhead all (stepWake c s)
    unfold stepWake
    cases hp : s.pending with
    | none => exact hn
    | some p =>
      by_cases hcx : s.startCtxDone = true
      · simp only [hcx, Bool.not_true, Bool.false_eq_true, if_false]
        obtain ⟨hph, _, hpath⟩ := hi.pend p hp
        refine complete_notAhead c all s _ p hi hn hph ?_
        intro hok
        rw [(waitV_timer_cancel _ _ _ hpath).2] at hok
        cases hok
      · have : (!s.startCtxDone) = true := by simpa using hcx
        simp only [this, if_true]
        exact hn
  | outOfAmmoResult =>
    show NotAhead all (if !s.ammoOut then s else _)
    split <;> exact hn
  | rpsFinished =>
    show NotAhead all (if c.perInstance || !anyInstance s then s else _)
    split <;> exact hn
  | runCancel => exact hn
  | instanceExit id reason =>
    show NotAhead all (stepExit c s id reason)
    unfold stepExit; split <;> exact hn

theorem run_notAhead (c : Cfg) (all : List Int) (s : St) (evs : List Event) (hi : Inv c all s) (hn : NotAhead all s)
    (hclk : ClockInv s evs) : NotAhead all (run c s evs) := by
  induction evs generalizing s with
  | nil => exact hn
  | cons ev rest ih =>
    exact ih _ (step_inv c all s ev hi) (step_notAhead c all s ev rest hi hn hclk) (step_clock c s ev rest hclk)

theorem ClockInv.init (all : List Int) (evs : List Event) (h : EventsClockOK (St.init all).waiter evs) :
    ClockInv (St.init all) evs :=
  ⟨h.1, h.2.1, h.2.2, fun p hp => by simp [St.init] at hp⟩

/-- counting form of `NotAhead`: at any instant `T` at most as many instances have been created as the profile has
released tokens (ids are distinct token indices, each not later than its instance) -/
theorem count_le_of_notAhead (all : List Int) (created : List Created)
    (hids : created.map (·.id) = List.range created.length)
    (hn : ∀ c ∈ created, ∃ t, all[c.id]? = some t ∧ t ≤ c.instant) (T : Int) :
    (created.filter (fun c => decide (c.instant ≤ T))).length ≤ (all.filter (fun t => decide (t ≤ T))).length := by
  -- created ids are 0..n-1 in order, so created[j].id = j and all[j] ≤ created[j].instant
  have hlen : created.length ≤ all.length := by
    by_cases h0 : created.length = 0
    · omega
    · have hlast : created.length - 1 < created.length := by omega
      have hmem : created[created.length - 1] ∈ created := List.getElem_mem hlast
      have hid : created[created.length - 1].id = created.length - 1 := by
        have := congrArg (fun l => l[created.length - 1]?) hids
        simp only [List.getElem?_map, List.getElem?_range hlast] at this
        rw [List.getElem?_eq_getElem hlast] at this
        simpa using this
      obtain ⟨t, ht, _⟩ := hn _ hmem
      rw [hid] at ht
      have := (List.getElem?_eq_some_iff.mp ht).1
      omega
  -- induction over a common prefix length
  have key : ∀ n, n ≤ created.length →
      ((created.take n).filter (fun c => decide (c.instant ≤ T))).length ≤
        ((all.take n).filter (fun t => decide (t ≤ T))).length := by
    intro n
    induction n with
    | zero => intro _; simp
    | succ n ih =>
      intro hn1
      have hn' : n < created.length := by omega
      have hna : n < all.length := by omega
      rw [List.take_succ_eq_append_getElem hn', List.take_succ_eq_append_getElem hna]
      simp only [List.filter_append, List.length_append]
      have hid : created[n].id = n := by
        have := congrArg (fun l => l[n]?) hids
        simp only [List.getElem?_map, List.getElem?_range hn'] at this
        rw [List.getElem?_eq_getElem hn'] at this
        simpa using this
      obtain ⟨t, ht, hle⟩ := hn _ (List.getElem_mem hn')
      rw [hid, List.getElem?_eq_getElem hna] at ht
      have hte : all[n] = t := by simpa using ht
      have := ih (by omega)
      by_cases hc : created[n].instant ≤ T
      · have : all[n] ≤ T := by omega
        simp [hc, this]
        omega
      · by_cases ha : all[n] ≤ T <;> simp [hc, ha] <;> omega
  have h1 := key created.length (Nat.le_refl _)
  rw [List.take_length] at h1
  refine Nat.le_trans h1 ?_
  have hsub : List.Sublist (all.take created.length) all := List.take_sublist _ _
  exact (hsub.filter _).length_le

/-! ### the exits of `instance.Run` -/

/-- `Run` returns the error of its loop body only as "out of ammo", after a pass in which the provider had no ammo -/
theorem instRun_body (its : List RunIter) (e : BodyErr) (h : instRun its = .body e) :
    e = .outOfAmmo ∧ ∃ it ∈ its, it.ammoOk = false := by
  induction its with
  | nil => simp [instRun] at h
  | cons it rest ih =>
    simp only [instRun] at h
    by_cases hf : instFinished it.ctxDone it.left = true
    · simp [hf] at h
    · simp only [hf, Bool.not_false, if_true] at h
      by_cases ha : it.ammoOk = true
      · have hb : instBody it.ammoOk it.waitOk = .nil := by simp [instBody, ha]
        simp only [hb, bne_self_eq_false, Bool.false_eq_true, if_false] at h
        obtain ⟨h1, it', hm, h2⟩ := ih h
        exact ⟨h1, it', List.mem_cons_of_mem _ hm, h2⟩
      · have ha' : it.ammoOk = false := by simpa using ha
        have hb : instBody it.ammoOk it.waitOk = .outOfAmmo := by simp [instBody, ha']
        rw [hb] at h
        simp only [show (BodyErr.outOfAmmo != BodyErr.nil) = true by decide, if_true] at h
        injection h with h
        exact ⟨h.symm, it, List.mem_cons_self, ha'⟩

/-- `Run` returns `ctx.Err()` only after a loop head at which its context was done or its schedule had no tokens left -/
theorem instRun_ctxErr (its : List RunIter) (h : instRun its = .ctxErr) :
    ∃ it ∈ its, it.ctxDone = true ∨ it.left = 0 := by
  induction its with
  | nil => simp [instRun] at h
  | cons it rest ih =>
    simp only [instRun] at h
    by_cases hf : instFinished it.ctxDone it.left = true
    · refine ⟨it, List.mem_cons_self, ?_⟩
      unfold instFinished at hf
      by_cases hc : it.ctxDone = true
      · exact Or.inl hc
      · right; simpa [hc] using hf
    · simp only [hf, Bool.not_false, if_true] at h
      by_cases hb : (instBody it.ammoOk it.waitOk != .nil) = true
      · simp [hb] at h
      · simp only [hb, Bool.false_eq_true, if_false] at h
        obtain ⟨it', hm, h2⟩ := ih h
        exact ⟨it', List.mem_cons_of_mem _ hm, h2⟩

/-- as long as the context is not done, tokens are left and the provider has ammo, `Run` keeps looping -/
theorem instRun_running (its : List RunIter)
    (h : ∀ it ∈ its, it.ctxDone = false ∧ it.left ≠ 0 ∧ it.ammoOk = true) : instRun its = .running := by
  induction its with
  | nil => rfl
  | cons it rest ih =>
    obtain ⟨hc, hl, ha⟩ := h it List.mem_cons_self
    have hf : instFinished it.ctxDone it.left = false := by simp [instFinished, hc, hl]
    have hb : instBody it.ammoOk it.waitOk = .nil := by simp [instBody, ha]
    simp only [instRun, hf, Bool.not_false, if_true, hb, bne_self_eq_false, Bool.false_eq_true, if_false]
    exact ih (fun it' hm => h it' (List.mem_cons_of_mem _ hm))

end Pandora.Proofs.C12
