/-
C12 — invariants of the startup transition system (`Pandora.Model.C12`).  Core Lean only.
-/
import Pandora.Model.C12
import Pandora.Proofs.C04

namespace Pandora.Proofs.C12
open Pandora.Model.C04 Pandora.Model.C12 Pandora.Proofs.C04

/-- one of the three events that cancel the start context has happened -/
def cancelSeen (s : St) : Prop := s.sawOutOfAmmo = true ∨ s.sawRpsFinished = true ∨ s.sawRunCancelled = true

/-- the four causes of the property statement -/
def causeSeen (s : St) : Prop :=
  s.sawOutOfAmmo = true ∨ s.sawRpsFinished = true ∨ s.sawCreateFailed = true ∨ s.sawRunCancelled = true

/-- state invariant of the startup loop for a profile whose tokens are `all` -/
structure Inv (all : List Int) (s : St) : Prop where
  toks : s.toks = all.drop s.consumed
  started : s.started = s.created.length
  ids : s.created.map (·.id) = List.range s.created.length
  consumed : s.consumed = s.started ∨ (s.phase = .done ∧ s.sawCreateFailed = true)
  ctx : s.startCtxDone = true → cancelSeen s
  done : s.phase = .done → s.toks = [] ∨ causeSeen s

theorem Inv.init (all : List Int) : Inv all (St.init all) := by
  refine ⟨by simp [St.init], rfl, rfl, Or.inl rfl, ?_, ?_⟩ <;> simp [St.init]

/-- `Wait` returns false only because the context is done, the schedule is finished, or the timer lost the select -/
theorem waitV_not_ok (v : Variant) (w : Waiter) (e : Env) (h : (waitV v w e).ok = false) :
    e.ctxDone = true ∨ e.tok = none ∨ e.timerWins = false := by
  unfold waitV at h
  by_cases hc : e.ctxDone = true
  · exact Or.inl hc
  · cases htok : e.tok with
    | none => exact Or.inr (Or.inl rfl)
    | some next =>
      right; right
      simp only [hc, htok] at h
      cases v <;> (simp only [] at h; repeat' split at h) <;> simp_all

theorem step_inv (v : Variant) (all : List Int) (s : St) (ev : Event) (h : Inv all s) : Inv all (step v s ev) := by
  cases ev with
  | wait env createOk delay =>
    show Inv all (stepWait v s env createOk delay)
    unfold stepWait
    by_cases hg : (s.phase != .starting || !envMatches s env) = true
    · simpa [hg] using h
    · simp only [hg]
      have hph : s.phase = .starting := by
        cases hp : s.phase <;> simp_all
      have hm : envMatches s env = true := by
        cases hm : envMatches s env <;> simp_all
      have hcons : s.consumed = s.started := by
        rcases h.consumed with hc | ⟨hd, _⟩
        · exact hc
        · rw [hph] at hd; cases hd
      simp only [envMatches, Bool.and_eq_true, beq_iff_eq] at hm
      obtain ⟨⟨hctx, htok⟩, htw⟩ := hm
      by_cases hk : (waitV v s.waiter env).ok = true
      · simp only [hk]
        have hne : s.toks ≠ [] := by
          intro hnil
          cases v <;> simp [waitV, htok, hnil] at hk <;> (split at hk <;> simp at hk)
        have htl : s.toks.tail = all.drop (s.consumed + 1) := by
          rw [h.toks, List.tail_drop]
        by_cases h0 : (s.started == 0) = true
        · by_cases hco : createOk = true
          · simp only [Bool.not_true, Bool.false_eq_true, if_false, h0, if_true, hco]
            have hs0 : s.started = 0 := by simpa using h0
            have hcl : s.created = [] := by
              have := h.started; rw [hs0] at this
              exact List.length_eq_zero_iff.mp this.symm
            refine ⟨by simpa using htl, by simp [hcl], by simp [hcl], Or.inl (by simp [hcons, hs0]), ?_, ?_⟩
            · intro hc; exact h.ctx hc
            · intro hd; simp [hph] at hd
          · simp only [Bool.not_true, Bool.false_eq_true, if_false, h0, if_true, hco]
            refine ⟨by simpa using htl, h.started, h.ids, Or.inr ⟨rfl, rfl⟩, ?_, ?_⟩
            · intro hc; exact h.ctx hc
            · intro _; exact Or.inr (Or.inr (Or.inr (Or.inl rfl)))
        · simp only [Bool.not_true, Bool.false_eq_true, if_false, h0]
          refine ⟨by simpa using htl, by simpa using h.started, ?_, Or.inl (by simp [hcons]), ?_, ?_⟩
          · simp [List.range_succ, h.ids]; exact h.started
          · intro hc
            rcases h.ctx hc with a | a | a
            · exact Or.inl a
            · exact Or.inr (Or.inl a)
            · exact Or.inr (Or.inr a)
          · intro hd; simp [hph] at hd
      · have hk' : (waitV v s.waiter env).ok = false := by simpa using hk
        simp only [hk', Bool.not_false, if_true]
        refine ⟨h.toks, h.started, h.ids, Or.inl hcons, h.ctx, ?_⟩
        intro _
        rcases waitV_not_ok v s.waiter env hk' with hc | hn | ht
        · rw [hctx] at hc
          rcases h.ctx hc with a | a | a
          · exact Or.inr (Or.inl a)
          · exact Or.inr (Or.inr (Or.inl a))
          · exact Or.inr (Or.inr (Or.inr (Or.inr a)))
        · left
          rw [htok] at hn
          cases hs : s.toks with
          | nil => rfl
          | cons a b => simp [hs] at hn
        · rw [htw] at ht; cases ht
  | outOfAmmoResult =>
    refine ⟨h.toks, h.started, h.ids, h.consumed, fun _ => Or.inl rfl, fun hd => ?_⟩
    exact Or.inr (Or.inl rfl)
  | rpsFinished =>
    refine ⟨h.toks, h.started, h.ids, h.consumed, fun _ => Or.inr (Or.inl rfl), fun hd => ?_⟩
    exact Or.inr (Or.inr (Or.inl rfl))
  | runCancel =>
    refine ⟨h.toks, h.started, h.ids, h.consumed, fun _ => Or.inr (Or.inr rfl), fun hd => ?_⟩
    exact Or.inr (Or.inr (Or.inr (Or.inr rfl)))
  | instanceExit id reason =>
    show Inv all (stepExit s id reason)
    unfold stepExit
    split
    · exact h
    · exact ⟨h.toks, h.started, h.ids, h.consumed, h.ctx, h.done⟩

theorem run_inv (v : Variant) (all : List Int) (s : St) (evs : List Event) (h : Inv all s) : Inv all (run v s evs) := by
  induction evs generalizing s with
  | nil => exact h
  | cons ev rest ih => exact ih _ (step_inv v all s ev h)

/-! ### timing -/

/-- the `Wait` calls of the start loop among the events -/
def waitEnvs : List Event → List Env
  | [] => []
  | .wait env _ _ :: rest => env :: waitEnvs rest
  | _ :: rest => waitEnvs rest

/-- clock hypotheses (as in C04) for the `Wait` calls of the startup waiter among the events -/
def EventsClockOK (w : Waiter) (evs : List Event) : Prop :=
  (∀ e ∈ waitEnvs evs, EnvOK e) ∧ (∀ e ∈ waitEnvs evs, w.lastNow ≤ e.now) ∧
    (waitEnvs evs).Pairwise (fun a b => a.now ≤ b.now)

instance (w : Waiter) (evs : List Event) : Decidable (EventsClockOK w evs) := by
  unfold EventsClockOK; exact inferInstance

/-- every created instance was created at or after the release time of the token with its number -/
def NotAhead (all : List Int) (s : St) : Prop :=
  ∀ c ∈ s.created, ∃ t, all[c.id]? = some t ∧ t ≤ c.instant

theorem step_waiter (v : Variant) (s : St) (ev : Event) :
    (step v s ev).waiter = s.waiter ∨ ∃ env ok d, ev = .wait env ok d ∧ (step v s ev).waiter = (waitV v s.waiter env).w := by
  cases ev with
  | wait env createOk delay =>
    by_cases hg : (s.phase != .starting || !envMatches s env) = true
    · left
      show (stepWait v s env createOk delay).waiter = s.waiter
      unfold stepWait; rw [if_pos hg]
    · right
      refine ⟨env, createOk, delay, rfl, ?_⟩
      show (stepWait v s env createOk delay).waiter = _
      unfold stepWait; rw [if_neg hg]
      dsimp only
      (repeat' split) <;> rfl
  | outOfAmmoResult => exact Or.inl rfl
  | rpsFinished => exact Or.inl rfl
  | runCancel => exact Or.inl rfl
  | instanceExit id reason =>
    left; show (stepExit s id reason).waiter = s.waiter
    unfold stepExit; split <;> rfl

theorem EventsClockOK.tail {v : Variant} {s : St} {ev : Event} {rest : List Event}
    (h : EventsClockOK s.waiter (ev :: rest)) : EventsClockOK (step v s ev).waiter rest := by
  obtain ⟨h1, h2, h3⟩ := h
  cases ev with
  | wait env createOk delay =>
    simp only [waitEnvs, List.pairwise_cons] at h1 h2 h3
    refine ⟨fun e he => h1 e (by simp [he]), fun e he => ?_, h3.2⟩
    rcases step_waiter v s (.wait env createOk delay) with hw | ⟨env', _, _, heq, hw⟩
    · rw [hw]; exact h2 e (by simp [he])
    · injection heq with heq
      subst heq
      rw [hw]
      rcases waitV_lastNow v s.waiter env with hl | hl
      · rw [hl]; exact h2 e (by simp [he])
      · rw [hl]; exact h3.1 e he
  | outOfAmmoResult => exact ⟨h1, h2, h3⟩
  | rpsFinished => exact ⟨h1, h2, h3⟩
  | runCancel => exact ⟨h1, h2, h3⟩
  | instanceExit id reason =>
    have : (step v s (.instanceExit id reason)).waiter = s.waiter := by
      show (stepExit s id reason).waiter = s.waiter
      unfold stepExit; split <;> rfl
    rw [this]; exact ⟨h1, h2, h3⟩

theorem step_notAhead (v : Variant) (all : List Int) (s : St) (ev : Event) (hi : Inv all s) (hn : NotAhead all s)
    (hclk : ∀ env ok d, ev = .wait env ok d → EnvOK env ∧ s.waiter.lastNow ≤ env.now) :
    NotAhead all (step v s ev) := by
  cases ev with
  | wait env createOk delay =>
    obtain ⟨hok, hinv⟩ := hclk env createOk delay rfl
    show NotAhead all (stepWait v s env createOk delay)
    unfold stepWait
    by_cases hg : (s.phase != .starting || !envMatches s env) = true
    · simpa [hg] using hn
    · simp only [hg]
      have hph : s.phase = .starting := by
        cases hp : s.phase <;> simp_all
      have hm : envMatches s env = true := by
        cases hm : envMatches s env <;> simp_all
      have hcons : s.consumed = s.started := by
        rcases hi.consumed with hc | ⟨hd, _⟩
        · exact hc
        · rw [hph] at hd; cases hd
      simp only [envMatches, Bool.and_eq_true, beq_iff_eq] at hm
      obtain ⟨⟨_, htok⟩, _⟩ := hm
      by_cases hk : (waitV v s.waiter env).ok = true
      · simp only [hk]
        obtain ⟨next, hnext, hle, _⟩ := waitV_ok v s.waiter env hok hinv hk
        have hall : all[s.started]? = some next := by
          have : s.toks.head? = some next := by rw [← htok, hnext]
          rw [hi.toks, hcons] at this
          simpa [List.head?_drop] using this
        by_cases h0 : (s.started == 0) = true
        · by_cases hco : createOk = true
          · simp only [Bool.not_true, Bool.false_eq_true, if_false, h0, if_true, hco]
            have hs0 : s.started = 0 := by simpa using h0
            intro c hc
            simp only [List.mem_append, List.mem_singleton] at hc
            rcases hc with hc | hc
            · exact hn c hc
            · subst hc
              refine ⟨next, by simpa [hs0] using hall, ?_⟩
              simp; omega
          · simp only [Bool.not_true, Bool.false_eq_true, if_false, h0, if_true, hco]
            exact hn
        · simp only [Bool.not_true, Bool.false_eq_true, if_false, h0]
          intro c hc
          simp only [List.mem_append, List.mem_singleton] at hc
          rcases hc with hc | hc
          · exact hn c hc
          · subst hc
            refine ⟨next, hall, ?_⟩
            simp; omega
      · have hk' : (waitV v s.waiter env).ok = false := by simpa using hk
        simp only [hk', Bool.not_false, if_true]
        exact hn
  | outOfAmmoResult => exact hn
  | rpsFinished => exact hn
  | runCancel => exact hn
  | instanceExit id reason =>
    show NotAhead all (stepExit s id reason)
    unfold stepExit; split <;> exact hn

theorem run_notAhead (v : Variant) (all : List Int) (s : St) (evs : List Event) (hi : Inv all s) (hn : NotAhead all s)
    (hclk : EventsClockOK s.waiter evs) : NotAhead all (run v s evs) := by
  induction evs generalizing s with
  | nil => exact hn
  | cons ev rest ih =>
    refine ih _ (step_inv v all s ev hi) (step_notAhead v all s ev hi hn ?_) hclk.tail
    intro env ok d heq
    subst heq
    exact ⟨hclk.1 env (by simp [waitEnvs]), hclk.2.1 env (by simp [waitEnvs])⟩

end Pandora.Proofs.C12
