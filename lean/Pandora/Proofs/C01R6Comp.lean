/-
C01 round 6 — composition with C02's model of the composite schedule.

`Pandora.Model.C02` (read-only import) models `compositeSchedule` GENERICALLY over the interface `Ops σ` of its nested
schedules (`compNext`, `compStart`, `compLeft`, `newComposite` with the backwards `leftAfter` loop); C02 ties that model
to core/schedule/composite.go for every `ops` (regenerated `Gen.C02Src`, `Bridge.C02Src`: `C02_next_is_source`,
`C02_newComposite_is_source`, `C02_left_is_source`, `C02_seq_refines`).

Here the interface is instantiated with C01's REGENERATED leaf methods (`doAtOps`: `doAtSchedule_Start/Next/Left` of
`Gen.Schedule`), and the hand-written sequential composite of `Proofs/C01Chain` (`compNext`/`chainRun`, on which
`C01_chain` / `C01_step_chain` were proved) is shown to BE C02's composite at that instance: `c02Run = chainRun`.
So the succession theorems are theorems about C02's (source-tied) composite model over C01's (regenerated) leaves, not
about a private copy.
-/
import Pandora.Proofs.C01Chain
import Pandora.Model.C02Sched

set_option linter.unusedVariables false
set_option linter.unusedSimpArgs false

namespace Pandora.Proofs.C01R6Comp
open Pandora Pandora.Gen.Schedule Pandora.Bridge.C01 Pandora.Proofs.C01Chain

/-- the REGENERATED leaf methods as an instance of C02's schedule interface -/
def doAtOps : Model.C02.Ops DoAtSt where
  start s t := match doAtSchedule_Start s t with
    | .error e => .error e
    | .ok (_, s') => .ok s'
  next s now := match doAtSchedule_Next now s with
    | .error e => .error e
    | .ok (r, s') => .ok (s', r.1, r.2)
  left s _ := match doAtSchedule_Left s with
    | .error e => .error e
    | .ok (l, s') => .ok (s', l)
  once0 := NewDoAtSchedule 0 0 (fun _ => 0)

/-- C02's `compNextAux` at `doAtOps` is `C01Chain.compNext`: same answer, same current schedule, same rest (the
`leftAfter` list, which only `Left` reads, is carried along). -/
theorem compNextAux_eq (now : ℤ) : ∀ (rest : List DoAtSt) (c : DoAtSt) (la : List Int),
    ∃ la' : List Int, Model.C02.compNextAux doAtOps c rest la now =
      (match compNext now c rest with
       | .error e => .error e
       | .ok (r, c', rest') => .ok (⟨c' :: rest', la', true⟩, r.1, r.2)) := by
  intro rest
  induction rest with
  | nil =>
      intro c la
      refine ⟨la, ?_⟩
      unfold Model.C02.compNextAux compNext
      simp only [doAtOps, bind, Except.bind, pure, Except.pure]
      cases h : doAtSchedule_Next now c with
      | error e => simp
      | ok v =>
          obtain ⟨⟨t, ok⟩, s'⟩ := v
          cases ok <;> simp
  | cons s2 rest ih =>
      intro c la
      unfold Model.C02.compNextAux compNext
      simp only [doAtOps, bind, Except.bind, pure, Except.pure]
      cases h : doAtSchedule_Next now c with
      | error e => exact ⟨la, by simp⟩
      | ok v =>
          obtain ⟨⟨t, ok⟩, s'⟩ := v
          cases ok with
          | true => exact ⟨la, by simp⟩
          | false =>
              cases h2 : doAtSchedule_Start s2 t with
              | error e => exact ⟨la, by simp [h2]⟩
              | ok w =>
                  obtain ⟨u, s2'⟩ := w
                  cases h3 : doAtSchedule_Next now s2' with
                  | error e => exact ⟨la, by simp [h2, h3]⟩
                  | ok v3 =>
                      obtain ⟨⟨t3, ok3⟩, s3⟩ := v3
                      cases ok3 with
                      | true => exact ⟨la.tail, by simp [h2, h3]⟩
                      | false =>
                          obtain ⟨la', hla⟩ := ih s3 la.tail
                          refine ⟨la', ?_⟩
                          simp only [h2, h3]
                          simpa [doAtOps] using hla

/-- one consumer drains C02's composite `⟨cur :: rest, la, _⟩` over the regenerated leaves -/
def c02Drain : Model.C02.Comp DoAtSt → List ℤ → Except String (List (ℤ × Bool))
  | _, [] => .ok []
  | s, now :: nows =>
      match Model.C02.compNext doAtOps s now with
      | .error e => .error e
      | .ok (s', t, ok) =>
          match c02Drain s' nows with
          | .error e => .error e
          | .ok rs => .ok ((t, ok) :: rs)

theorem c02Drain_eq : ∀ (nows : List ℤ) (cur : DoAtSt) (rest : List DoAtSt) (la : List Int) (b : Bool),
    c02Drain ⟨cur :: rest, la, b⟩ nows = compDrain cur rest nows := by
  intro nows
  induction nows with
  | nil => intro cur rest la b; simp [c02Drain, compDrain]
  | cons now nows ih =>
      intro cur rest la b
      obtain ⟨la', h⟩ := compNextAux_eq now rest cur la
      simp only [c02Drain, compDrain, Model.C02.compNext, h]
      cases hc : compNext now cur rest with
      | error e => simp
      | ok v =>
          obtain ⟨r, c', rest'⟩ := v
          simp only [ih c' rest' la' true]
          cases compDrain c' rest' nows <;> simp

/-- a leaf schedule (what `NewComposite` returns for 0 or 1 nested schedules) drained by one consumer -/
def leafDrain : DoAtSt → List ℤ → Except String (List (ℤ × Bool))
  | _, [] => .ok []
  | s, now :: nows =>
      match doAtOps.next s now with
      | .error e => .error e
      | .ok (s', t, ok) =>
          match leafDrain s' nows with
          | .error e => .error e
          | .ok rs => .ok ((t, ok) :: rs)

theorem leafDrain_eq : ∀ (nows : List ℤ) (s : DoAtSt), leafDrain s nows = compDrain s [] nows := by
  intro nows
  induction nows with
  | nil => intro s; simp [leafDrain, compDrain]
  | cons now nows ih =>
      intro s
      simp only [leafDrain, compDrain, compNext, doAtOps]
      cases h : doAtSchedule_Next now s with
      | error e => simp
      | ok v =>
          obtain ⟨r, s'⟩ := v
          simp only [ih s']
          cases compDrain s' [] nows <;> simp

/-- `mkLeftAfter` over fresh leaves: `Left()` of a leaf nobody has touched changes nothing, the children come back as
they were; `leftAfter[i]` = the operations of the levels after level i (a negative count counts as 0, as in `Left`). -/
def opsAfter : List Level → Int
  | [] => 0
  | l :: rest => (if l.2.1 < 0 then 0 else l.2.1) + opsAfter rest

theorem opsAfter_nonneg : ∀ ls : List Level, 0 ≤ opsAfter ls
  | [] => le_refl _
  | l :: rest => by
      have := opsAfter_nonneg rest
      unfold opsAfter
      split_ifs <;> omega

def leftAfterOf : List Level → List Int
  | [] => []
  | _ :: rest => opsAfter rest :: leftAfterOf rest

theorem doAtOps_left_fresh (l : Level) (now : Int) :
    doAtOps.left (fresh l) now = .ok (fresh l, if l.2.1 < 0 then 0 else l.2.1) := by
  simp [doAtOps, fresh, left_fresh]

theorem mkLeftAfter_fresh (now : Int) : ∀ ls : List Level,
    Model.C02.mkLeftAfter doAtOps now (ls.map fresh) = .ok (ls.map fresh, leftAfterOf ls, opsAfter ls, false)
  | [] => rfl
  | l :: rest => by
      have ih := mkLeftAfter_fresh now rest
      have h0 := opsAfter_nonneg rest
      simp only [List.map_cons, Model.C02.mkLeftAfter, ih, doAtOps_left_fresh, bind, Except.bind, pure, Except.pure,
        leftAfterOf, opsAfter]
      by_cases hn : l.2.1 < 0
      · simp [hn]
      · simp [hn]
        omega

/-- the profile built by C02's `newComposite` from fresh regenerated leaves, told its start and drained by one consumer -/
def c02Run (levels : List Level) (t0 : ℤ) (nows : List ℤ) : Except String (List (ℤ × Bool)) :=
  match Model.C02.newComposite doAtOps t0 (levels.map fresh) with
  | .error e => .error e
  | .ok (.inl leaf) =>
      (match doAtOps.start leaf t0 with
       | .error e => .error e
       | .ok leaf' => leafDrain leaf' nows)
  | .ok (.inr c) =>
      (match Model.C02.compStart doAtOps c t0 with
       | .error e => .error e
       | .ok c' => c02Drain c' nows)

/-- **the sequential composite of `C01Chain` IS C02's composite over the regenerated leaf methods** -/
theorem c02Run_eq_chainRun (levels : List Level) (t0 : ℤ) (nows : List ℤ) :
    c02Run levels t0 nows = chainRun levels t0 nows := by
  match levels with
  | [] =>
      simp only [c02Run, chainRun, Model.C02.newComposite, List.map_nil, pure, Except.pure, compInit, compStart, doAtOps]
      cases h : doAtSchedule_Start (NewDoAtSchedule 0 0 fun _ => 0) t0 with
      | error e => simp
      | ok v => obtain ⟨u, s⟩ := v; simp [leafDrain_eq, doAtOps]
  | [l] =>
      simp only [c02Run, chainRun, Model.C02.newComposite, List.map_cons, List.map_nil, pure, Except.pure, compInit,
        compStart, doAtOps]
      cases h : doAtSchedule_Start (fresh l) t0 with
      | error e => simp
      | ok v => obtain ⟨u, s⟩ := v; simp [leafDrain_eq, doAtOps]
  | l :: l2 :: rest =>
      have hm := mkLeftAfter_fresh t0 (l :: l2 :: rest)
      simp only [List.map_cons] at hm
      simp only [c02Run, chainRun, Model.C02.newComposite, List.map_cons, hm, bind, Except.bind, pure, Except.pure,
        compInit, compStart, Model.C02.compStart]
      simp only [doAtOps]
      cases h : doAtSchedule_Start (fresh l) t0 with
      | error e => simp
      | ok v =>
          obtain ⟨u, s⟩ := v
          simp only []
          exact c02Drain_eq nows s _ _ true

/-- `Left()` of the composite C02's `newComposite` builds from two or more fresh regenerated leaves, asked before the
start: the operations of all levels. -/
theorem c02Left_before_start (l l2 : Level) (rest : List Level) (now0 now : ℤ)
    (hpos : ∀ x ∈ l :: l2 :: rest, 0 ≤ x.2.1) :
    ∃ c, Model.C02.newComposite doAtOps now0 ((l :: l2 :: rest).map fresh) = .ok (.inr c) ∧
      ∃ c', Model.C02.compLeft doAtOps c now = .ok (c', opsAfter (l :: l2 :: rest)) := by
  have hm := mkLeftAfter_fresh now0 (l :: l2 :: rest)
  simp only [List.map_cons] at hm
  refine ⟨⟨(l :: l2 :: rest).map fresh, leftAfterOf (l :: l2 :: rest), false⟩, ?_, ?_⟩
  · simp only [Model.C02.newComposite, List.map_cons, hm, bind, Except.bind, pure, Except.pure]
  · have hl : 0 ≤ l.2.1 := hpos l (by simp)
    have h0 := opsAfter_nonneg (l2 :: rest)
    unfold Model.C02.compLeft
    simp only [List.map_cons]
    unfold Model.C02.compLeftAux
    simp only [doAtOps_left_fresh, bind, Except.bind, pure, Except.pure, leftAfterOf, List.headD,
      Model.C02.combineLeft]
    have hnl : ¬ (l.2.1 < 0) := by omega
    simp only [hnl, if_false]
    by_cases hz : l.2.1 = 0
    · simp only [opsAfter] at h0
      simp [hz, opsAfter, h0]
    · have hne : (l.2.1 == 0) = false := by simpa using hz
      have hnl2 : ¬ (opsAfter (l2 :: rest) < 0) := by omega
      simp only [opsAfter] at hnl2
      simp [hne, hnl, hnl2, opsAfter]

end Pandora.Proofs.C01R6Comp
