/-
C13 — helper lemmas about repeated passes: `multiRun`, `MultiPassReader` (`mprReadByte`, `loadByte`) and the
generic JSON provider over a source without ammo.
-/
import Pandora.Model.C13Multi
import Pandora.Model.C13Funcs

namespace Pandora.Proofs.C13
open Pandora.Model.C13

/-! ### `multiRun` -/

theorem httpPassEnd_again (passes passNum ammoNum : Nat) (h : httpPassEnd passes passNum ammoNum = .again) :
    0 < ammoNum ∧ (passes = 0 ∨ passNum < passes) := by
  unfold httpPassEnd at h
  split at h
  · simp at h
  · rename_i h1
    split at h
    · simp at h
    · rename_i h2
      refine ⟨by omega, ?_⟩
      by_cases hp : passes = 0
      · exact .inl hp
      · right
        have : ¬ passNum ≥ passes := fun hge => h1 ⟨hp, hge⟩
        omega

theorem prepend_end (r : Run) (es : List Entry) : (r.prepend es).end_ = r.end_ := rfl

/-- with a limit: every repeated pass delivers at least one entry, so `limit - done + 1` passes are enough -/
theorem multiRun_no_fuel_limit (one : Run) (passes limit : Nat) (hone : one.end_ ≠ .fuel) (hl : limit ≠ 0) :
    ∀ (fuel passNum done : Nat), done = passNum * one.entries.length → limit - done + 1 ≤ fuel →
      (multiRun one passes limit fuel passNum done).end_ ≠ .fuel := by
  intro fuel
  induction fuel with
  | zero => intro passNum done _ h; omega
  | succ fuel ih =>
    intro passNum done hd hf
    unfold multiRun
    split
    · simp
    · rename_i hlim
      split
      · exact hone
      · split
        · rename_i e he
          unfold httpPassEnd at he
          split at he
          · cases he; simp
          · split at he
            · cases he; simp
            · cases he
        · rename_i hag
          obtain ⟨hpos, _⟩ := httpPassEnd_again _ _ _ hag
          rw [prepend_end]
          have hlen : 0 < one.entries.length := by
            rcases Nat.eq_zero_or_pos one.entries.length with h0 | h0
            · rw [h0] at hd hpos; simp at hd; omega
            · exact h0
          refine ih (passNum + 1) (done + one.entries.length) ?_ ?_
          · rw [hd, Nat.succ_mul]
          · have : ¬ (limit ≠ 0 ∧ done + one.entries.length ≥ limit) := hlim
            have hlt : done + one.entries.length < limit := by
              rcases Nat.lt_or_ge (done + one.entries.length) limit with h | h
              · exact h
              · exact absurd ⟨hl, h⟩ this
            omega

/-- with a pass limit: at most `passes` passes -/
theorem multiRun_no_fuel_passes (one : Run) (passes limit : Nat) (hone : one.end_ ≠ .fuel) (hp : passes ≠ 0) :
    ∀ (fuel passNum done : Nat), passes - passNum + 1 ≤ fuel →
      (multiRun one passes limit fuel passNum done).end_ ≠ .fuel := by
  intro fuel
  induction fuel with
  | zero => intro passNum done h; omega
  | succ fuel ih =>
    intro passNum done hf
    unfold multiRun
    split
    · simp
    · split
      · exact hone
      · split
        · rename_i e he
          unfold httpPassEnd at he
          split at he
          · cases he; simp
          · split at he
            · cases he; simp
            · cases he
        · rename_i hag
          obtain ⟨_, hlt⟩ := httpPassEnd_again _ _ _ hag
          rw [prepend_end]
          refine ih (passNum + 1) _ ?_
          rcases hlt with h0 | hlt
          · exact absurd h0 hp
          · omega

/-! ### `MultiPassReader` -/

/-- the reader has counted bytes only if the source has some, and never stands beyond the end of the source -/
def MPR.WF (data : Bytes) (s : MPR) : Prop := (s.passBytes ≠ 0 → 0 < data.length) ∧ s.pos ≤ data.length

theorem MPR.init_WF (data : Bytes) : MPR.WF data MPR.init := by simp [MPR.WF, MPR.init]

theorem getElem?_none_len (data : Bytes) (i : Nat) (h : data[i]? = none) : data.length ≤ i := by
  simpa using h

theorem mprReadByte_WF (fixed : Bool) (data : Bytes) (passes : Nat) (s : MPR) (h : MPR.WF data s) :
    MPR.WF data (mprReadByte fixed data passes s).2 := by
  obtain ⟨h1, h2⟩ := h
  unfold mprReadByte
  cases hd : data[s.pos]? with
  | some b =>
    have : s.pos < data.length := by
      rcases Nat.lt_or_ge s.pos data.length with h | h
      · exact h
      · have : data[s.pos]? = none := by simp [h]
        rw [this] at hd; cases hd
    simp only [MPR.WF]
    omega
  | none =>
    simp only
    cases fixed
    · simp only [Bool.false_eq_true, if_false]
      split <;> simp [MPR.WF] <;> omega
    · simp only [if_true]
      split
      · simp [MPR.WF]; omega
      · split <;> simp [MPR.WF] <;> omega

/-- the repaired reader answers `(0, nil)` only when it has sought a source that is not empty to its start -/
theorem mprReadByte_fixed_again (data : Bytes) (passes : Nat) (s s' : MPR) (h : MPR.WF data s)
    (hr : mprReadByte true data passes s = (.again, s')) : s'.pos = 0 ∧ 0 < data.length ∧ MPR.WF data s' := by
  have hwf := mprReadByte_WF true data passes s h
  rw [hr] at hwf
  obtain ⟨h1, h2⟩ := h
  unfold mprReadByte at hr
  cases hd : data[s.pos]? with
  | some b => rw [hd] at hr; simp at hr
  | none =>
    have hlen := getElem?_none_len data s.pos hd
    rw [hd] at hr
    simp only [if_true] at hr
    split at hr
    · simp at hr
    · rename_i hnf
      split at hr
      · simp only [Prod.mk.injEq, true_and] at hr
        subst hr
        refine ⟨rfl, ?_, hwf⟩
        have : s.passBytes ≠ 0 := fun h0 => hnf (.inl h0)
        omega
      · simp at hr

/-- after a `(0, nil)` answer the next `Read` of the repaired reader delivers a byte -/
theorem mprReadByte_fixed_after_again (data : Bytes) (passes : Nat) (s' : MPR) (hp : s'.pos = 0) (hl : 0 < data.length) :
    ∃ b s'', mprReadByte true data passes s' = (.byte b, s'') := by
  unfold mprReadByte
  rw [hp]
  cases hd : data[0]? with
  | some b => exact ⟨b, _, rfl⟩
  | none => have := getElem?_none_len data 0 hd; omega

/-- jsoniter's `loadMore` over the repaired reader needs at most two `Read` calls -/
theorem loadByte_fixed (data : Bytes) (passes : Nat) (s : MPR) (h : MPR.WF data s) (k : Nat) :
    (loadByte true data passes (k + 2) s).1 ≠ .again := by
  unfold loadByte
  cases hr : mprReadByte true data passes s with
  | mk r s' =>
    cases r with
    | byte b => simp
    | eof => simp
    | again =>
      simp only
      obtain ⟨hp, hl, _⟩ := mprReadByte_fixed_again data passes s s' h hr
      obtain ⟨b, s'', hb⟩ := mprReadByte_fixed_after_again data passes s' hp hl
      unfold loadByte
      rw [hb]
      simp

/-- the reader as found, over an empty source without a pass limit: every `Read` answers `(0, nil)` -/
theorem loadByte_unfixed_empty (fuel : Nat) (s : MPR) (hp : s.pos = 0) :
    (loadByte false [] 0 fuel s).1 = .again := by
  induction fuel generalizing s with
  | zero => rfl
  | succ fuel ih =>
    unfold loadByte
    have : mprReadByte false [] 0 s = (.again, { s with passesCount := s.passesCount + 1, pos := 0, passBytes := 0 }) := by
      unfold mprReadByte
      simp
    rw [this]
    exact ih _ rfl

/-! ### the generic JSON provider over a source without ammo -/

theorem loadByte_byte (fixed : Bool) (data : Bytes) (passes : Nat) (s : MPR) (b : UInt8) (k : Nat)
    (h : data[s.pos]? = some b) :
    loadByte fixed data passes (k + 1) s = (.byte b, { s with pos := s.pos + 1, passBytes := s.passBytes + 1 }) := by
  unfold loadByte mprReadByte
  rw [h]

theorem loadByte_fixed_fruitless (data : Bytes) (passes : Nat) (s : MPR) (k : Nat)
    (hend : data[s.pos]? = none) (hno : s.passBytes = 0 ∨ ¬ (s.ammoNum > s.passStart)) :
    (loadByte true data passes (k + 1) s).1 = .eof := by
  unfold loadByte mprReadByte
  rw [hend]
  simp only [if_true]
  rw [if_pos hno]

/-- white space up to the end of the source, and no ammo since the pass began: the decoder is told `io.EOF` -/
theorem skipWs_fixed_ws (data : Bytes) (passes : Nat) (hws : ∀ b ∈ data, isJsonWs b = true) :
    ∀ (n : Nat) (s : MPR), data.length - s.pos ≤ n → ¬ (s.ammoNum > s.passStart) → ∀ k,
      (skipWs true data passes (n + 1 + k) s).1 = some .eof := by
  intro n
  induction n with
  | zero =>
    intro s hn hno k
    have hend : data[s.pos]? = none := by simp; omega
    rw [show 0 + 1 + k = k + 1 by omega]
    unfold skipWs
    have h := loadByte_fixed_fruitless data passes s 2 hend (.inr hno)
    cases hr : loadByte true data passes 3 s with
    | mk r s' =>
      rw [hr] at h
      simp only at h
      subst h
      rfl
  | succ n ih =>
    intro s hn hno k
    cases hd : data[s.pos]? with
    | none =>
      rw [show n + 1 + 1 + k = (n + 1 + k) + 1 by omega]
      unfold skipWs
      have h := loadByte_fixed_fruitless data passes s 2 hd (.inr hno)
      cases hr : loadByte true data passes 3 s with
      | mk r s' =>
        rw [hr] at h
        simp only at h
        subst h
        rfl
    | some b =>
      have hb : isJsonWs b = true := hws b (List.mem_of_getElem? hd)
      rw [show n + 1 + 1 + k = (n + 1 + k) + 1 by omega]
      unfold skipWs
      rw [loadByte_byte true data passes s b 2 hd]
      simp only [hb, if_true]
      have hlt : s.pos < data.length := by
        rcases Nat.lt_or_ge s.pos data.length with h | h
        · exact h
        · have : data[s.pos]? = none := by simp [h]
          rw [this] at hd; cases hd
      exact ih _ (by simp only; omega) (by simpa using hno) k

/-! ### request lists: what was expanded so far carries over -/

theorem expandGo_append (fixed : Bool) (known : Bytes → Bool) (pre rest : List Bytes) (acc : List ScnStep) (out : List ScnStep)
    (h : expandGo fixed known pre acc = .ok out) :
    expandGo fixed known (pre ++ rest) acc = expandGo fixed known rest out.reverse := by
  induction pre generalizing acc with
  | nil =>
    simp only [expandGo, Res.ok.injEq] at h
    subst h
    simp
  | cons p ps ih =>
    simp only [List.cons_append]
    unfold expandGo at h
    conv => lhs; unfold expandGo
    cases hp : parseShootName p with
    | ok a =>
      obtain ⟨name, cnt, sleep⟩ := a
      rw [hp] at h
      simp only at h ⊢
      split
      · rename_i hs
        rw [if_pos hs] at h
        cases ha : addSleep fixed acc cnt with
        | ok acc' => rw [ha] at h; simp only at h ⊢; exact ih acc' h
        | err c => rw [ha] at h; cases h
        | panic w => rw [ha] at h; cases h
        | fatal w => rw [ha] at h; cases h
      · rename_i hs
        rw [if_neg hs] at h
        split
        · rename_i hk
          rw [if_pos hk] at h; cases h
        · rename_i hk
          rw [if_neg hk] at h
          split
          · rename_i hm
            rw [if_pos hm] at h; cases h
          · rename_i hm
            rw [if_neg hm] at h
            exact ih _ h
    | err c => rw [hp] at h; cases h
    | panic w => rw [hp] at h; cases h
    | fatal w => rw [hp] at h; cases h

end Pandora.Proofs.C13
