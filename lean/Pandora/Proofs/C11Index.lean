/-
C11 (round 4) — lemmas about Go's fixed-width conversions (`goWrap`) and truncated remainder (`Int.tmod`) used by the
theorems on the index arithmetic behind the shared counters.
-/
import Pandora.Model.C11Index

namespace Pandora.Proofs.C11
open Pandora.Go Pandora.Model.C11

/-- a counter below 2^63 read back as an `int` is itself -/
theorem ctrAsInt_small (c : Int) (h0 : 0 ≤ c) (h : c < 9223372036854775808) : ctrAsInt c = c := by
  simp only [ctrAsInt, goWrap, goPow]
  have h1 : c % 18446744073709551616 = c := Int.emod_eq_of_lt h0 (by omega)
  simp only [h1, Bool.false_and, Bool.true_and, decide_eq_true_eq]
  split <;> omega

/-- from 2^63 on it is negative -/
theorem ctrAsInt_big (c : Int) (h0 : 9223372036854775808 ≤ c) (h : c < 18446744073709551616) :
    ctrAsInt c = c - 18446744073709551616 := by
  simp only [ctrAsInt, goWrap, goPow]
  have h1 : c % 18446744073709551616 = c := Int.emod_eq_of_lt (by omega) h
  simp only [h1, Bool.false_and, Bool.true_and, decide_eq_true_eq]
  split <;> omega

/-- Go's `%` with a positive divisor and a non-negative dividend is the mathematical remainder -/
theorem tmod_of_nonneg (a b : Int) (ha : 0 ≤ a) : Int.tmod a b = a % b := Int.tmod_eq_emod_of_nonneg ha

/-- bounds of Go's `%` with a positive divisor -/
theorem tmod_bounds (a b : Int) (hb : 0 < b) : -b < Int.tmod a b ∧ Int.tmod a b < b ∧ (0 ≤ a → 0 ≤ Int.tmod a b) ∧ (a < 0 → Int.tmod a b ≤ 0) := by
  refine ⟨?_, Int.tmod_lt_of_pos a hb, fun ha => Int.tmod_nonneg b ha, ?_⟩
  · by_cases ha : 0 ≤ a
    · have := Int.tmod_nonneg b ha; omega
    · have hn : Int.tmod a b = -Int.tmod (-a) b := by rw [Int.neg_tmod]; omega
      have := Int.tmod_lt_of_pos (-a) hb
      omega
  · intro ha
    have hn : Int.tmod a b = -Int.tmod (-a) b := by rw [Int.neg_tmod]; omega
    have := Int.tmod_nonneg (a := -a) b (by omega)
    omega

end Pandora.Proofs.C11
