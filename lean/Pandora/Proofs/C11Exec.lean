/-
Programs of accesses expanded according to the classification produce, under every schedule, traces that are
well-formed (`WF`) — hence data-race free by `drf_of_wf`. Core Lean only.
-/
import Pandora.Proofs.C11
import Pandora.Model.C11Table

namespace Pandora.Proofs.C11
open Pandora.Model.C11

def OpsOk (cls : Nat → Class) (t : Nat) (ops : List Op) : Prop := ∀ op ∈ ops, opOk cls t op

/-- where thread `t` stands: between two accesses, after taking the lock, or after the guarded access -/
inductive Shape (cls : Nat → Class) (held : Locks) (t : Nat) : List Ev → Prop
  | boundary (ops : List Op) (hok : OpsOk cls t ops) : Shape cls held t (ops.flatMap (expand cls t))
  | inAcc (o : Nat) (w : Bool) (v l : Nat) (ops : List Op) (hcls : cls o = .sharedSync l) (hheld : held l = some t)
      (hok : OpsOk cls t ops) : Shape cls held t (.acc t o w v :: .rel t l :: ops.flatMap (expand cls t))
  | inRel (l : Nat) (ops : List Op) (hheld : held l = some t) (hok : OpsOk cls t ops) :
      Shape cls held t (.rel t l :: ops.flatMap (expand cls t))

def CfgOk (cls : Nat → Class) (c : Cfg) : Prop :=
  ∀ (t : Nat) (evs : List Ev), c.todo[t]? = some evs → Shape cls c.held t evs

/-- a lock operation on `l` by another party keeps the shape of a thread that does not hold `l` -/
theorem shape_set (cls : Nat → Class) (held : Locks) (t : Nat) (evs : List Ev) (l : Nat) (v : Option Nat)
    (hl : held l ≠ some t) (h : Shape cls held t evs) : Shape cls (held.set l v) t evs := by
  cases h with
  | boundary ops hok => exact Shape.boundary ops hok
  | inAcc o w v' l0 ops hcls hheld hok =>
    refine Shape.inAcc o w v' l0 ops hcls ?_ hok
    have : l0 ≠ l := by intro h; subst h; exact hl hheld
    rw [set_other _ _ _ _ this]; exact hheld
  | inRel l0 ops hheld hok =>
    refine Shape.inRel l0 ops ?_ hok
    have : l0 ≠ l := by intro h; subst h; exact hl hheld
    rw [set_other _ _ _ _ this]; exact hheld

theorem stepT_ok (cls : Nat → Class) (c c' : Cfg) (t : Nat) (e : Ev) (hc : CfgOk cls c)
    (hs : stepT c t = some (e, c')) : stepOk cls c.held e ∧ c'.held = next c.held e ∧ CfgOk cls c' := by
  unfold stepT at hs
  cases htodo : c.todo[t]? with
  | none => simp [htodo] at hs
  | some evs =>
    cases evs with
    | nil => simp [htodo] at hs
    | cons e0 rest =>
      simp only [htodo] at hs
      by_cases hen : enabled c.held e0 = true
      · simp only [hen, if_true, Option.some.injEq, Prod.mk.injEq] at hs
        obtain ⟨he, hc'⟩ := hs
        subst he
        subst hc'
        have hsh := hc t (e0 :: rest) htodo
        have hlt : t < c.todo.length := by
          have := (List.getElem?_eq_some_iff.mp htodo).1
          exact this
        -- the other threads
        have others : ∀ (held' : Locks), (∀ t' evs, t' ≠ t → c.todo[t']? = some evs → Shape cls held' t' evs) →
            Shape cls held' t rest → CfgOk cls { held := held', todo := c.todo.set t rest } := by
          intro held' hoth hme t' evs hget
          simp only [List.getElem?_set] at hget
          by_cases htt : t = t'
          · subst htt
            simp only [if_true, hlt] at hget
            rw [← Option.some.inj hget]; exact hme
          · simp only [htt, if_false] at hget
            exact hoth t' evs (Ne.symm htt) hget
        -- case analysis on the shape of t
        generalize hev : e0 :: rest = evs at hsh
        cases hsh with
        | boundary ops hok =>
          cases ops with
          | nil => simp at hev
          | cons op ops' =>
            have hok' : OpsOk cls t ops' := fun x hx => hok x (List.mem_cons_of_mem _ hx)
            have hop : opOk cls t op := hok op (List.mem_cons_self)
            simp only [List.flatMap_cons, expand] at hev
            cases hcls : cls op.obj with
            | sharedSync l =>
              rw [hcls] at hev
              simp only [List.cons_append, List.nil_append, List.cons.injEq] at hev
              obtain ⟨he0, hrest⟩ := hev
              subst he0; subst hrest
              have hfree : c.held l = none := by
                simp only [enabled] at hen
                exact Option.isNone_iff_eq_none.mp hen
              refine ⟨hfree, rfl, ?_⟩
              apply others
              · intro t' evs hne hget
                apply shape_set
                · rw [hfree]; simp
                · exact hc t' evs hget
              · exact Shape.inAcc op.obj op.write op.val l ops' hcls (by simp [next, set_same]) hok'
            | loc i =>
              rw [hcls] at hev
              simp only [List.cons_append, List.nil_append, List.cons.injEq] at hev
              obtain ⟨he0, hrest⟩ := hev
              subst he0; subst hrest
              refine ⟨?_, rfl, ?_⟩
              · simp only [stepOk, hcls]
                simp only [opOk, hcls] at hop
                exact hop
              · apply others
                · intro t' evs _ hget; exact hc t' evs hget
                · exact Shape.boundary ops' hok'
            | sharedRO =>
              rw [hcls] at hev
              simp only [List.cons_append, List.nil_append, List.cons.injEq] at hev
              obtain ⟨he0, hrest⟩ := hev
              subst he0; subst hrest
              refine ⟨?_, rfl, ?_⟩
              · simp only [stepOk, hcls]
                simp only [opOk, hcls] at hop
                exact hop
              · apply others
                · intro t' evs _ hget; exact hc t' evs hget
                · exact Shape.boundary ops' hok'
        | inAcc o w v l ops hcls hheld hok =>
          simp only [List.cons.injEq] at hev
          obtain ⟨he0, hrest⟩ := hev
          subst he0; subst hrest
          refine ⟨?_, rfl, ?_⟩
          · simp only [stepOk, hcls]; exact hheld
          · apply others
            · intro t' evs _ hget; exact hc t' evs hget
            · exact Shape.inRel l ops hheld hok
        | inRel l ops hheld hok =>
          simp only [List.cons.injEq] at hev
          obtain ⟨he0, hrest⟩ := hev
          subst he0; subst hrest
          refine ⟨hheld, rfl, ?_⟩
          apply others
          · intro t' evs hne hget
            apply shape_set
            · rw [hheld]; intro h; exact hne (Option.some.inj h).symm
            · exact hc t' evs hget
          · exact Shape.boundary ops hok
      · simp [hen] at hs

theorem exec_wf (cls : Nat → Class) : ∀ (sched : List Nat) (c : Cfg), CfgOk cls c → WF cls c.held (exec c sched) := by
  intro sched
  induction sched with
  | nil => intro c _; simp [exec, WF]
  | cons t rest ih =>
    intro c hc
    simp only [exec]
    cases hs : stepT c t with
    | none => exact ih c hc
    | some p =>
      obtain ⟨e, c'⟩ := p
      obtain ⟨hok, hheld, hc'⟩ := stepT_ok cls c c' t e hc hs
      simp only [WF]
      refine ⟨hok, ?_⟩
      rw [← hheld]
      exact ih c' hc'

theorem initCfg_ok (cls : Nat → Class) (progs : List (List Op))
    (h : ∀ (t : Nat) (ops : List Op), progs[t]? = some ops → OpsOk cls t ops) : CfgOk cls (initCfg cls progs) := by
  intro t evs hget
  simp only [initCfg, List.getElem?_map, List.getElem?_zipIdx] at hget
  cases hp : progs[t]? with
  | none => simp [hp] at hget
  | some ops =>
    simp [hp] at hget
    subst hget
    exact Shape.boundary ops (h t ops hp)

/-! ### lock-facts tables -/

open Pandora.Go in
theorem rowOp_ok (tbl : List C11LockRow) (h : c11TableOk tbl = true) (r : C11LockRow) (hr : r ∈ tbl) (t : Nat) :
    opOk (clsT tbl) t (rowOp r) := by
  have hrow : c11RowOk tbl r = true := (List.all_eq_true.mp h) r hr
  by_cases hf : c11ObjFrozen tbl r.oid = true
  · simp only [c11RowOk, hf, if_true, Bool.and_eq_true, Bool.not_eq_true'] at hrow
    simp [opOk, clsT, rowOp, hf, hrow.2]
  · simp [opOk, clsT, rowOp, hf]

open Pandora.Go in
theorem siteEvents_eq (tbl : List C11LockRow) (h : c11TableOk tbl = true) (r : C11LockRow) (hr : r ∈ tbl) (t : Nat) :
    siteEvents tbl t r = expand (clsT tbl) t (rowOp r) := by
  have hrow : c11RowOk tbl r = true := (List.all_eq_true.mp h) r hr
  simp only [c11RowOk, Bool.and_eq_true] at hrow
  simp [siteEvents, hrow.1.1]

theorem flatMap_congr' {α β} (f g : α → List β) : ∀ (l : List α), (∀ a ∈ l, f a = g a) → l.flatMap f = l.flatMap g := by
  intro l
  induction l with
  | nil => intro _; rfl
  | cons x xs ih =>
    intro h
    simp only [List.flatMap_cons]
    rw [h x (List.mem_cons_self), ih (fun a ha => h a (List.mem_cons_of_mem _ ha))]

/-- two bare writes of different threads to one object, nothing else: not ordered by happens-before -/
theorem not_hb_two (t1 t2 o : Nat) (w1 w2 : Bool) (v1 v2 : Nat) (hne : t1 ≠ t2) :
    ∀ i j, ¬ HB [Ev.acc t1 o w1 v1, Ev.acc t2 o w2 v2] i j := by
  intro i j h
  induction h with
  | po hij hi hj hth =>
    rename_i i j a b
    have hj1 : j = 1 := by
      match j, hj with
      | 0, _ => omega
      | 1, _ => rfl
      | n + 2, hj => simp at hj
    have hi0 : i = 0 := by omega
    subst hj1; subst hi0
    simp at hi hj
    subst hi; subst hj
    exact hne hth
  | sw hij hi hj =>
    rename_i i j t t' l
    match i, hi with
    | 0, hi => simp at hi
    | 1, hi => simp at hi
    | n + 2, hi => simp at hi
  | trans _ _ ih1 _ => exact ih1

end Pandora.Proofs.C11
