/-
C15 helper lemmas: the small-step system of `NextIterator.Next` (Model.C15 §7). Under every schedule the mutex
admits one thread between `Lock` and `Unlock`, and every counter hands out 0, 1, 2, … in the order its calls return.
-/
import Pandora.Model.C15
import Pandora.Spec.C15

namespace Pandora.Proofs.C15
open Pandora.Model.C15

/-! ### the counter map -/

theorem gsRead_nil (key : CKey) : gsRead [] key = none := rfl

theorem gsRead_cons (k : CKey) (c : Nat) (rest : List (CKey × Nat)) (key : CKey) :
    gsRead ((k, c) :: rest) key = if k = key then some c else gsRead rest key := by
  unfold gsRead
  by_cases h : k = key
  · simp [h]
  · have : (k == key) = false := by simpa using h
    simp [h, this]

theorem gsRead_append_new (gs : List (CKey × Nat)) (key key' : CKey) (h : gsRead gs key = none) :
    gsRead (gs ++ [(key, 0)]) key' = if key' = key then some 0 else gsRead gs key' := by
  induction gs with
  | nil =>
    rw [List.nil_append, gsRead_cons, gsRead_nil]
    by_cases hk : key = key'
    · simp [hk]
    · have : ¬ key' = key := fun e => hk e.symm
      simp [hk, this]
  | cons e rest ih =>
    obtain ⟨k, c⟩ := e
    rw [gsRead_cons] at h
    rw [List.cons_append, gsRead_cons, gsRead_cons]
    by_cases hk : k = key
    · simp [hk] at h
    · rw [if_neg hk] at h
      rw [ih h]
      by_cases hk' : k = key'
      · have : ¬ key' = key := fun e => hk (hk'.trans e)
        simp [hk', this]
      · simp [hk']

theorem gsRead_map_bump (gs : List (CKey × Nat)) (key key' : CKey) (c' : Nat) :
    gsRead (gs.map fun e => if e.1 == key then (e.1, c') else e) key' =
      if key' = key then (gsRead gs key).map (fun _ => c') else gsRead gs key' := by
  induction gs with
  | nil => simp [gsRead_nil]
  | cons e rest ih =>
    obtain ⟨k, c⟩ := e
    rw [List.map_cons]
    by_cases hk : k = key
    · have hb : (k == key) = true := by simpa using hk
      simp only [hb, if_true]
      rw [gsRead_cons, gsRead_cons, gsRead_cons, ih]
      by_cases hk' : key' = key
      · have : k = key' := hk.trans hk'.symm
        simp [hk', hk]
      · have : ¬ k = key' := fun e => hk' (e.symm.trans hk)
        simp [hk', this]
    · have hb : (k == key) = false := by simpa using hk
      simp only [hb, Bool.false_eq_true, if_false]
      rw [gsRead_cons, gsRead_cons, gsRead_cons, ih]
      by_cases hk' : key' = key
      · have : ¬ k = key' := fun e => hk (e.trans hk')
        simp [hk', hk]
      · by_cases hkk : k = key'
        · simp [hk', hkk]
        · simp [hk', hkk]

/-- the atomic counter step of the sequential model is read-then-write -/
theorem bump_eq (gs : List (CKey × Nat)) (key : CKey) : Iter.bump gs key = gsWrite gs key (gsRead gs key) := by
  unfold Iter.bump gsRead gsWrite
  cases h : gs.find? (·.1 == key) with
  | none => rfl
  | some e => obtain ⟨k, c⟩ := e; rfl

/-- what a read-then-write does to the map, seen through reads -/
theorem gsWrite_read (gs : List (CKey × Nat)) (key key' : CKey) :
    gsRead (gsWrite gs key (gsRead gs key)).2 key' =
      if key' = key then some (gsWrite gs key (gsRead gs key)).1 else gsRead gs key' := by
  cases h : gsRead gs key with
  | none => simp only [gsWrite]; rw [gsRead_append_new gs key key' h]
  | some c =>
    simp only [gsWrite]
    rw [gsRead_map_bump, h]
    rfl

theorem gsWrite_val (gs : List (CKey × Nat)) (key : CKey) (cur : Option Nat) :
    (gsWrite gs key cur).1 = match cur with | none => 0 | some c => c + 1 := by
  cases cur <;> rfl

/-! ### the invariant -/

theorem upd_same {α} (f : Nat → α) (t : Nat) (a : α) : upd f t a t = a := by simp [upd]
theorem upd_other {α} (f : Nat → α) (t t' : Nat) (a : α) (h : t' ≠ t) : upd f t a t' = f t' := by simp [upd, h]

theorem vals_snoc (log : List (CKey × Nat × Nat)) (key key' : CKey) (t v : Nat) :
    logVals (log ++ [(key, t, v)]) key' = if key = key' then logVals log key' ++ [v] else logVals log key' := by
  unfold logVals
  by_cases h : key = key'
  · simp [List.filter_append, h]
  · have : (key == key') = false := by simpa using h
    simp [List.filter_append, h, this]

theorem valsOf_snoc (log : List (CKey × Nat × Nat)) (key : CKey) (t t' v : Nat) :
    logValsOf (log ++ [(key, t, v)]) t' = if t = t' then logValsOf log t' ++ [v] else logValsOf log t' := by
  unfold logValsOf
  by_cases h : t = t'
  · simp [List.filter_append, h]
  · have : (t == t') = false := by simpa using h
    simp [List.filter_append, h, this]

structure NInv (s : NSys) : Prop where
  /-- mutual exclusion: whoever is between `Lock` and `Unlock` holds the mutex -/
  excl : ∀ t, s.pcs t ≠ .idle → s.holder = some t
  readOK : ∀ t key c, s.pcs t = .read key c → c = gsRead s.gs key
  /-- with no write pending on it, a counter stores (number of values handed out) − 1, and is absent before its first call -/
  quiet : ∀ key, (∀ t v, s.pcs t ≠ .wrote key v) →
      gsRead s.gs key = if (logVals s.log key).length = 0 then none else some ((logVals s.log key).length - 1)
  /-- a pending return value is the next number of its counter -/
  pending : ∀ t key v, s.pcs t = .wrote key v → v = (logVals s.log key).length ∧ gsRead s.gs key = some v
  /-- every counter has handed out 0, 1, 2, … in order -/
  seq : ∀ key, logVals s.log key = List.range (logVals s.log key).length
  /-- a thread has received exactly the values the log attributes to it -/
  gotOK : ∀ t, s.got t = logValsOf s.log t

theorem NInv_init : NInv NSys.init where
  excl := by intro t h; exact absurd rfl h
  readOK := by intro t key c h; cases h
  quiet := by intro key _; rfl
  pending := by intro t key v h; cases h
  seq := by intro key; rfl
  gotOK := by intro t; rfl

/-- under the invariant at most one thread is not idle -/
theorem NInv.other_idle {s : NSys} (h : NInv s) {t t' : Nat} (ht : s.pcs t ≠ .idle) (hne : t' ≠ t) : s.pcs t' = .idle := by
  by_cases hi : s.pcs t' = .idle
  · exact hi
  · have h1 := h.excl t ht
    have h2 := h.excl t' hi
    rw [h1] at h2
    exact absurd (Option.some.inj h2).symm hne

theorem NInv_step (prog : NProg) (s : NSys) (t : Nat) (h : NInv s) : NInv (s.step prog t) := by
  unfold NSys.step
  split
  · -- idle
    rename_i hpc
    split
    · rename_i key hprog hhold
      -- Lock succeeds: everybody else is idle
      have allIdle : ∀ t', s.pcs t' = .idle := by
        intro t'
        by_cases hi : s.pcs t' = .idle
        · exact hi
        · have := h.excl t' hi; rw [hhold] at this; cases this
      refine ⟨?_, ?_, ?_, ?_, h.seq, h.gotOK⟩
      · intro t' hne
        by_cases e : t' = t
        · subst e; rfl
        · simp only [upd_other _ _ _ _ e] at hne; exact absurd (allIdle t') hne
      · intro t' key' c hr
        by_cases e : t' = t
        · subst e; simp only [upd_same] at hr; cases hr
        · simp only [upd_other _ _ _ _ e] at hr; rw [allIdle t'] at hr; cases hr
      · intro key' _
        exact h.quiet key' (by intro t' v hw; rw [allIdle t'] at hw; cases hw)
      · intro t' key' v hw
        by_cases e : t' = t
        · subst e; simp only [upd_same] at hw; cases hw
        · simp only [upd_other _ _ _ _ e] at hw; rw [allIdle t'] at hw; cases hw
    · exact h
  · -- locked → read
    rename_i key hpc
    have hne : s.pcs t ≠ .idle := by rw [hpc]; intro e; cases e
    refine ⟨?_, ?_, ?_, ?_, h.seq, h.gotOK⟩
    · intro t' hn
      by_cases e : t' = t
      · subst e; exact h.excl _ hne
      · simp only [upd_other _ _ _ _ e] at hn; exact absurd (h.other_idle hne e) hn
    · intro t' key' c hr
      by_cases e : t' = t
      · subst e; simp only [upd_same] at hr; cases hr; rfl
      · simp only [upd_other _ _ _ _ e] at hr; rw [h.other_idle hne e] at hr; cases hr
    · intro key' _
      refine h.quiet key' ?_
      intro t' v hw
      by_cases e : t' = t
      · subst e; rw [hpc] at hw; cases hw
      · rw [h.other_idle hne e] at hw; cases hw
    · intro t' key' v hw
      by_cases e : t' = t
      · subst e; simp only [upd_same] at hw; cases hw
      · simp only [upd_other _ _ _ _ e] at hw; rw [h.other_idle hne e] at hw; cases hw
  · -- read → wrote
    rename_i key cur hpc
    have hne : s.pcs t ≠ .idle := by rw [hpc]; intro e; cases e
    have hcur : cur = gsRead s.gs key := h.readOK t key cur hpc
    have noWrite : ∀ key' t' v, s.pcs t' ≠ .wrote key' v := by
      intro key' t' v hw
      by_cases e : t' = t
      · subst e; rw [hpc] at hw; cases hw
      · rw [h.other_idle hne e] at hw; cases hw
    have hq := h.quiet key (noWrite key)
    subst hcur
    have hread := gsWrite_read s.gs key
    have hval := gsWrite_val s.gs key (gsRead s.gs key)
    refine ⟨?_, ?_, ?_, ?_, h.seq, h.gotOK⟩
    · intro t' hn
      by_cases e : t' = t
      · subst e; exact h.excl _ hne
      · simp only [upd_other _ _ _ _ e] at hn; exact absurd (h.other_idle hne e) hn
    · intro t' key' c hr
      by_cases e : t' = t
      · subst e; simp only [upd_same] at hr; cases hr
      · simp only [upd_other _ _ _ _ e] at hr; rw [h.other_idle hne e] at hr; cases hr
    · intro key' hnw
      have hk : key' ≠ key := by
        intro e; subst e
        exact hnw t _ (upd_same _ _ _)
      show gsRead (gsWrite s.gs key (gsRead s.gs key)).2 key' = _
      rw [hread key', if_neg hk]
      exact h.quiet key' (noWrite key')
    · intro t' key' v hw
      by_cases e : t' = t
      · subst e
        simp only [upd_same] at hw
        cases hw
        show (gsWrite s.gs key (gsRead s.gs key)).1 = _ ∧ gsRead (gsWrite s.gs key (gsRead s.gs key)).2 key = _
        refine ⟨?_, by rw [hread key, if_pos rfl]⟩
        show _ = (logVals s.log key).length
        rw [hval, hq]
        by_cases h0 : (logVals s.log key).length = 0
        · simp [h0]
        · simp only [h0, if_false]; omega
      · simp only [upd_other _ _ _ _ e] at hw; rw [h.other_idle hne e] at hw; cases hw
  · -- wrote → idle (Unlock, return)
    rename_i key v hpc
    have hne : s.pcs t ≠ .idle := by rw [hpc]; intro e; cases e
    obtain ⟨hv, hg⟩ := h.pending t key v hpc
    have allIdle : ∀ t', upd s.pcs t NPc.idle t' = .idle := by
      intro t'
      by_cases e : t' = t
      · subst e; exact upd_same _ _ _
      · rw [upd_other _ _ _ _ e]; exact h.other_idle hne e
    refine ⟨?_, ?_, ?_, ?_, ?_, ?_⟩
    · intro t' hn; exact absurd (allIdle t') hn
    · intro t' key' c hr
      have hr' : upd s.pcs t NPc.idle t' = NPc.read key' c := hr
      rw [allIdle t'] at hr'; cases hr'
    · intro key' _
      show gsRead s.gs key' = if (logVals (s.log ++ [(key, t, v)]) key').length = 0 then none
        else some ((logVals (s.log ++ [(key, t, v)]) key').length - 1)
      rw [vals_snoc]
      by_cases hk : key = key'
      · subst hk
        rw [if_pos rfl, hg, hv]
        simp
      · rw [if_neg hk]
        refine h.quiet key' ?_
        intro t' v' hw
        by_cases e : t' = t
        · subst e; rw [hpc] at hw; cases hw; exact hk rfl
        · rw [h.other_idle hne e] at hw; cases hw
    · intro t' key' v' hw
      have hw' : upd s.pcs t NPc.idle t' = NPc.wrote key' v' := hw
      rw [allIdle t'] at hw'; cases hw'
    · intro key'
      show logVals (s.log ++ [(key, t, v)]) key' = List.range (logVals (s.log ++ [(key, t, v)]) key').length
      rw [vals_snoc]
      by_cases hk : key = key'
      · subst hk
        rw [if_pos rfl, List.length_append, List.length_singleton, List.range_succ, ← h.seq key, hv]
      · rw [if_neg hk]; exact h.seq key'
    · intro t'
      show upd s.got t (s.got t ++ [v]) t' = logValsOf (s.log ++ [(key, t, v)]) t'
      rw [valsOf_snoc]
      by_cases e : t = t'
      · subst e; rw [if_pos rfl, upd_same, h.gotOK t]
      · rw [if_neg e, upd_other _ _ _ _ (fun x => e x.symm), h.gotOK t']

theorem NInv_run (prog : NProg) (sched : List Nat) : ∀ (s : NSys), NInv s → NInv (s.run prog sched) := by
  induction sched with
  | nil => intro s h; exact h
  | cons t rest ih => intro s h; exact ih _ (NInv_step prog s t h)

/-! ### the executable round-robin predicate of the Spec holds of `k ↦ k mod L` -/

theorem succ_div_mod (n L : Nat) (hL : 0 < L) :
    (n % L + 1 < L ∧ (n + 1) / L = n / L ∧ (n + 1) % L = n % L + 1) ∨
    (n % L + 1 = L ∧ (n + 1) / L = n / L + 1 ∧ (n + 1) % L = 0) := by
  have hq := Nat.div_add_mod n L
  have hm := Nat.mod_lt n hL
  by_cases h : n % L + 1 < L
  · left
    have e : n + 1 = L * (n / L) + (n % L + 1) := by omega
    refine ⟨h, ?_, ?_⟩
    · rw [e, Nat.mul_add_div hL, Nat.div_eq_of_lt h]; rfl
    · rw [e, Nat.mul_add_mod, Nat.mod_eq_of_lt h]
  · right
    have h' : n % L + 1 = L := by omega
    have e : n + 1 = L * (n / L + 1) := by rw [Nat.mul_add, Nat.mul_one]; omega
    refine ⟨h', ?_, ?_⟩
    · rw [e, Nat.mul_div_cancel_left _ hL]
    · rw [e, Nat.mul_mod_right]

theorem count_mod_range (L r : Nat) (hL : 0 < L) (hr : r < L) : ∀ n,
    Spec.C15.count r ((List.range n).map (· % L)) = n / L + (if r < n % L then 1 else 0)
  | 0 => by simp [Spec.C15.count, Nat.zero_mod]
  | n + 1 => by
    have ih := count_mod_range L r hL hr n
    unfold Spec.C15.count at ih ⊢
    rw [List.range_succ, List.map_append, List.filter_append, List.length_append, ih]
    have hm := Nat.mod_lt n hL
    rcases succ_div_mod n L hL with ⟨h1, h2, h3⟩ | ⟨h1, h2, h3⟩
    · rw [h2, h3]
      by_cases e : n % L = r
      · have : (n % L == r) = true := by simpa using e
        simp [this]; split <;> split <;> omega
      · have : (n % L == r) = false := by simpa using e
        simp [this]; split <;> split <;> omega
    · rw [h2, h3]
      by_cases e : n % L = r
      · have : (n % L == r) = true := by simpa using e
        simp [this]; omega
      · have : (n % L == r) = false := by simpa using e
        simp [this]; omega

theorem roundRobinOK_range (L n : Nat) (hL : 0 < L) :
    Spec.C15.roundRobinOK L ((List.range n).map (· % L)) = true := by
  unfold Spec.C15.roundRobinOK
  have h0 : (L == 0) = false := by simpa using Nat.ne_of_gt hL
  simp only [h0, Bool.false_eq_true, if_false, List.length_map, List.length_range, List.all_eq_true, List.mem_range]
  intro r hr
  rw [count_mod_range L r hL hr n]
  simp

end Pandora.Proofs.C15
