/-
Invariant proof for the repaired (copying) metadata rendering under arbitrary interleavings (helper lemmas for
Props/C20.lean). Core Lean only.
-/
import Pandora.Model.C20Conc

namespace Pandora.Proofs.C20Conc
open Pandora.Model.C20Conc

variable {κ : Type}

/-- every cached template is the ORIGINAL template of its key -/
def CacheOk (tmpls : List (Tmpl κ)) (c : Cache κ) : Prop :=
  ∀ j t, cacheGet c j = some t → tmpls[j]? = some t

def PhaseOk (tmpls : List (Tmpl κ)) (vs : Vars κ) : Phase κ → Prop
  | Phase.idle => True
  | Phase.copying acc => acc = tmpls.take acc.length
  | Phase.applyLoc done rest => ∃ t1, tmpls = t1 ++ rest ∧ done = t1.map (rendered vs)
  | Phase.readLoc out rest => ∃ t1 t2, tmpls = t1 ++ t2 ∧ out = t1.map (render vs) ∧ rest = t2.map (rendered vs)
  | Phase.applySh _ => False
  | Phase.readSh _ _ => False

def ShotsOk (tmpls : List (Tmpl κ)) (orig : List (Vars κ)) (th : Thread κ) : Prop :=
  ∃ doneShots, orig = doneShots ++ th.shots ∧ th.sent = doneShots.map (expected tmpls)

def ThreadOk (tmpls : List (Tmpl κ)) (orig : List (Vars κ)) (th : Thread κ) : Prop :=
  CacheOk tmpls th.cache ∧ ShotsOk tmpls orig th ∧
    (match th.shots with
     | [] => True
     | vs :: _ => PhaseOk tmpls vs th.phase)

theorem shotsOk_congr {tmpls : List (Tmpl κ)} {orig : List (Vars κ)} {th th' : Thread κ}
    (h1 : th'.shots = th.shots) (h2 : th'.sent = th.sent) (h : ShotsOk tmpls orig th) : ShotsOk tmpls orig th' := by
  obtain ⟨d, ha, hb⟩ := h
  exact ⟨d, by rw [h1]; exact ha, by rw [h2]; exact hb⟩

theorem cacheOk_nil (tmpls : List (Tmpl κ)) : CacheOk tmpls [] := by
  intro j t h; simp [cacheGet] at h

theorem getTemplate_ok {tmpls : List (Tmpl κ)} {c : Cache κ} {j : Nat} {cell : Tmpl κ}
    (hc : CacheOk tmpls c) (hcell : tmpls[j]? = some cell) :
    (getTemplate c j cell).1 = cell ∧ CacheOk tmpls (getTemplate c j cell).2 := by
  unfold getTemplate
  cases hg : cacheGet c j with
  | some t =>
    have := hc j t hg
    rw [hcell] at this
    simp only
    exact ⟨(Option.some.inj this).symm, hc⟩
  | none =>
    refine ⟨rfl, ?_⟩
    simp only
    intro j' t' h'
    simp only [cacheGet] at h'
    by_cases hj : j = j'
    · subst hj; simp at h'; subst h'; exact hcell
    · simp [hj] at h'; exact hc j' t' h'

theorem getElem?_append_length {α} (l1 : List α) (a : α) (l2 : List α) : (l1 ++ a :: l2)[l1.length]? = some a := by
  simp

/-- one atomic action of a thread of the repaired code preserves its invariant (the shared map is the original) -/
theorem threadStepCopy_ok (tmpls : List (Tmpl κ)) (orig : List (Vars κ)) (th : Thread κ)
    (h : ThreadOk tmpls orig th) : ThreadOk tmpls orig (threadStepCopy tmpls th) := by
  obtain ⟨hc, hs, hp⟩ := h
  unfold threadStepCopy
  cases hshots : th.shots with
  | nil => simp only; exact ⟨hc, hs, by simp [hshots]⟩
  | cons vs more =>
    rw [hshots] at hp
    simp only at hp ⊢
    have hs' : ∀ th' : Thread κ, th'.shots = vs :: more → th'.sent = th.sent → ShotsOk tmpls orig th' :=
      fun th' h1 h2 => shotsOk_congr (h1.trans hshots.symm) h2 hs
    cases hph : th.phase with
    | idle =>
      simp only
      exact ⟨hc, hs' _ rfl rfl, by simp [PhaseOk]⟩
    | copying acc =>
      rw [hph] at hp
      simp only [PhaseOk] at hp
      simp only
      cases hget : tmpls[acc.length]? with
      | some c =>
        simp only
        refine ⟨hc, hs' _ rfl rfl, ?_⟩
        simp only [PhaseOk]
        rw [List.length_append, List.length_singleton, List.take_add_one, hget]
        simp [← hp]
      | none =>
        simp only
        refine ⟨hc, hs' _ rfl rfl, ?_⟩
        simp only [PhaseOk]
        refine ⟨[], ?_, rfl⟩
        have hlen : tmpls.length ≤ acc.length := List.getElem?_eq_none_iff.mp hget
        rw [hp, List.take_of_length_le hlen]; rfl
    | applyLoc done rest =>
      rw [hph] at hp
      obtain ⟨t1, ht, hd⟩ := hp
      simp only
      cases rest with
      | nil =>
        simp only
        refine ⟨hc, hs' _ rfl rfl, ?_⟩
        simp only [PhaseOk]
        refine ⟨[], tmpls, rfl, rfl, ?_⟩
        simp at ht; rw [hd, ht]
      | cons c rest' =>
        have hlen : done.length = t1.length := by rw [hd]; simp
        have hcell : tmpls[done.length]? = some c := by
          rw [ht, hlen]; exact getElem?_append_length t1 c rest'
        obtain ⟨hfst, hcache⟩ := getTemplate_ok (c := th.cache) hc hcell
        simp only
        refine ⟨hcache, hs' _ rfl rfl, ?_⟩
        simp only [PhaseOk]
        refine ⟨t1 ++ [c], ?_, ?_⟩
        · rw [ht]; simp
        · rw [hfst, hd]; simp
    | readLoc out rest =>
      rw [hph] at hp
      obtain ⟨t1, t2, ht, ho, hr⟩ := hp
      simp only
      cases rest with
      | nil =>
        simp only
        have ht2 : t2 = [] := by
          cases t2 with
          | nil => rfl
          | cons a b => simp at hr
        subst ht2
        simp at ht
        refine ⟨hc, ?_, ?_⟩
        · obtain ⟨doneShots, ho1, hs1⟩ := hs
          refine ⟨doneShots ++ [vs], ?_, ?_⟩
          · simp [ho1, hshots]
          · simp [hs1, expected, ho, ht]
        · cases more <;> simp [PhaseOk]
      | cons c rest' =>
        simp only
        cases t2 with
        | nil => simp at hr
        | cons a t2' =>
          simp at hr
          obtain ⟨hca, hr'⟩ := hr
          refine ⟨hc, hs' _ rfl rfl, ?_⟩
          simp only [PhaseOk]
          refine ⟨t1 ++ [a], t2', ?_, ?_, hr'⟩
          · rw [ht]; simp
          · rw [ho, hca, cellText_rendered]; simp
    | applySh j => rw [hph] at hp; exact absurd hp (by simp [PhaseOk])
    | readSh out j => rw [hph] at hp; exact absurd hp (by simp [PhaseOk])

/-- state invariant: the shared map is the original definition and every thread satisfies its invariant -/
def StateOk (tmpls : List (Tmpl κ)) (shots : List (List (Vars κ))) (st : State κ) : Prop :=
  st.shared = tmpls ∧
  ∀ (i : Nat) (th : Thread κ), st.threads[i]? = some th → ∃ orig, shots[i]? = some orig ∧ ThreadOk tmpls orig th

theorem init_ok (tmpls : List (Tmpl κ)) (shots : List (List (Vars κ))) : StateOk tmpls shots (init tmpls shots) := by
  refine ⟨rfl, ?_⟩
  intro i th h
  simp only [init, List.getElem?_map] at h
  cases hs : shots[i]? with
  | none => simp [hs] at h
  | some orig =>
    simp [hs] at h
    subst h
    refine ⟨orig, rfl, cacheOk_nil tmpls, ⟨[], by simp, by simp⟩, ?_⟩
    cases orig <;> simp [PhaseOk]

theorem stepCopy_ok (tmpls : List (Tmpl κ)) (shots : List (List (Vars κ))) (st : State κ) (i : Nat)
    (h : StateOk tmpls shots st) : StateOk tmpls shots (stepCopy st i) := by
  obtain ⟨hsh, hth⟩ := h
  unfold stepCopy
  cases hi : st.threads[i]? with
  | none => exact ⟨hsh, hth⟩
  | some th =>
    refine ⟨hsh, ?_⟩
    intro j th' hj
    simp only [List.getElem?_set] at hj
    by_cases hij : i = j
    · subst hij
      simp only [if_true] at hj
      split at hj
      · obtain ⟨orig, ho, hok⟩ := hth i th hi
        refine ⟨orig, ho, ?_⟩
        have : th' = threadStepCopy st.shared th := (Option.some.inj hj).symm
        rw [this, hsh]
        exact threadStepCopy_ok tmpls orig th hok
      · cases hj
    · simp only [hij, if_false] at hj
      exact hth j th' hj

theorem runCopy_ok (tmpls : List (Tmpl κ)) (shots : List (List (Vars κ))) (sched : List Nat) (st : State κ)
    (h : StateOk tmpls shots st) : StateOk tmpls shots (runCopy st sched) := by
  induction sched generalizing st with
  | nil => exact h
  | cons i rest ih =>
    simp only [runCopy, List.foldl_cons]
    exact ih (stepCopy st i) (stepCopy_ok tmpls shots st i h)

end Pandora.Proofs.C20Conc
