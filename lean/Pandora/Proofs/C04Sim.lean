/-
C04 — helper lemmas about the closed world of `Pandora.Model.C04` (`simIter`, `simHist`: time advances, timers fire, `Shoot`
returns) and about fair scheduling of a pool (`phi`: a potential that every step of an instance decreases).  Core Lean only.
-/
import Pandora.Proofs.C04Pool

namespace Pandora.Proofs.C04
open Pandora.Go.C04 Pandora.Model.C04

/-! ### one pass of the closed world -/

/-- the clock hypotheses hold of a generated pass -/
theorem simIter_envOK (t tok : Int) (p : Delays) : EnvOK (simIter t tok p).env := by
  unfold EnvOK simIter
  refine ⟨by simp only; omega, ?_, ?_⟩
  · simp only; split <;> omega
  · intro next hn _ hlt _
    simp only [Option.mem_def, Option.some.injEq] at hn
    subst hn
    simp only at hlt ⊢
    split <;> omega

theorem simIter_pick_le_now (t tok : Int) (p : Delays) : (simIter t tok p).env.pick ≤ (simIter t tok p).env.now := by
  simp only [simIter]; omega

theorem simIter_now_ge (t tok : Int) (p : Delays) : t ≤ (simIter t tok p).env.now := by
  simp only [simIter]; omega

theorem simIter_now_le_ret (t tok : Int) (p : Delays) : (simIter t tok p).env.now ≤ (simIter t tok p).env.ret := by
  simp only [simIter]; split <;> omega

/-- in the closed world `Wait` always succeeds: nothing is cancelled, the timer fires -/
theorem simIter_ok (v : Variant) (w : Waiter) (t tok : Int) (p : Delays) : (waitV v w (simIter t tok p).env).ok = true :=
  waitV_ok_of_token v w _ tok rfl rfl rfl

theorem simNext_ge_ret (d : Bool) (w' : Waiter) (it : Iter) (h : 0 ≤ it.dur) : it.env.ret ≤ simNext d w' it := by
  unfold simNext; split <;> omega

theorem simIter_dur (t tok : Int) (p : Delays) : (0 : Int) ≤ (simIter t tok p).dur := by
  simp only [simIter]; omega

/-- the next pass does not start before the reading of this one -/
theorem simNext_ge_now (d : Bool) (w' : Waiter) (t tok : Int) (p : Delays) :
    (simIter t tok p).env.now ≤ simNext d w' (simIter t tok p) :=
  Int.le_trans (simIter_now_le_ret t tok p) (simNext_ge_ret d w' _ (simIter_dur t tok p))

/-! ### the generated history meets the clock hypotheses -/

theorem simHist_now_ge (v : Variant) (d : Bool) (w : Waiter) (t : Int) (toks : List Int) (ps : List Delays) :
    ∀ it ∈ simHist v d w t toks ps, t ≤ it.env.now := by
  induction toks generalizing w t ps with
  | nil => intro it hit; simp [simHist, simLast] at hit; subst hit; simp
  | cons tok toks ih =>
    cases ps with
    | nil => intro it hit; simp [simHist] at hit
    | cons p ps =>
      intro it hit
      simp only [simHist, List.mem_cons] at hit
      rcases hit with rfl | hit
      · exact simIter_now_ge t tok p
      · have h1 := ih _ _ ps it hit
        have h2 := simNext_ge_now d (waitV v w (simIter t tok p).env).w t tok p
        have h3 := simIter_now_ge t tok p
        omega

theorem simHist_envOK (v : Variant) (d : Bool) (w : Waiter) (t : Int) (toks : List Int) (ps : List Delays) :
    ∀ it ∈ simHist v d w t toks ps, EnvOK it.env ∧ it.env.pick ≤ it.env.now := by
  induction toks generalizing w t ps with
  | nil =>
    intro it hit
    simp [simHist] at hit
    subst hit
    refine ⟨⟨by simp [simLast], by simp [simLast], ?_⟩, by simp [simLast]⟩
    intro next hn
    simp [simLast] at hn
  | cons tok toks ih =>
    cases ps with
    | nil => intro it hit; simp [simHist] at hit
    | cons p ps =>
      intro it hit
      simp only [simHist, List.mem_cons] at hit
      rcases hit with rfl | hit
      · exact ⟨simIter_envOK t tok p, simIter_pick_le_now t tok p⟩
      · exact ih _ _ ps it hit

theorem simHist_pairwise (v : Variant) (d : Bool) (w : Waiter) (t : Int) (toks : List Int) (ps : List Delays) :
    (simHist v d w t toks ps).Pairwise (fun a b => a.env.now ≤ b.env.now) := by
  induction toks generalizing w t ps with
  | nil => simp [simHist]
  | cons tok toks ih =>
    cases ps with
    | nil => simp [simHist]
    | cons p ps =>
      simp only [simHist, List.pairwise_cons]
      refine ⟨fun it hit => ?_, ih _ _ ps⟩
      have h1 := simHist_now_ge v d _ _ toks ps it hit
      have h2 := simNext_ge_now d (waitV v w (simIter t tok p).env).w t tok p
      omega

/-- every history the closed world generates satisfies the clock hypotheses of the property theorems -/
theorem simHist_clockOK (v : Variant) (d : Bool) (w : Waiter) (t : Int) (toks : List Int) (ps : List Delays)
    (hw : w.lastNow ≤ t) : ClockOK w (simHist v d w t toks ps) ∧ ReadAfterPick (simHist v d w t toks ps) := by
  refine ⟨⟨fun it hit => (simHist_envOK v d w t toks ps it hit).1, fun it hit => ?_, simHist_pairwise v d w t toks ps⟩,
    fun it hit => (simHist_envOK v d w t toks ps it hit).2⟩
  have := simHist_now_ge v d w t toks ps it hit
  omega

/-! ### the loop over a generated history: it terminates, one action per token -/

theorem runLoop_simHist (v : Variant) (d : Bool) (w : Waiter) (t : Int) (toks : List Int) (ps : List Delays)
    (hlen : toks.length ≤ ps.length) :
    (runLoop v d w (simHist v d w t toks ps)).2 = .loopEnd ∧
    (runLoop v d w (simHist v d w t toks ps)).1.map (fun ev => ev.iter.tok) = toks := by
  induction toks generalizing w t ps with
  | nil => simp [simHist, runLoop, simLast]
  | cons tok toks ih =>
    cases ps with
    | nil => simp at hlen
    | cons p ps =>
      have hl : toks.length ≤ ps.length := by simpa using hlen
      obtain ⟨h1, h2⟩ := ih (waitV v w (simIter t tok p).env).w
        (simNext d (waitV v w (simIter t tok p).env).w (simIter t tok p)) ps hl
      have hf : (simIter t tok p).finished = false := rfl
      have ha : (simIter t tok p).ammoOk = true := rfl
      simp only [simHist]
      rw [runLoop]
      simp only [hf, ha, simIter_ok v w t tok p]
      simp only [Bool.false_eq_true, ↓reduceIte, Bool.not_true, List.map_cons, h1, h2]
      refine ⟨trivial, ?_⟩
      congr 1
      split <;> simp [Ev.iter, Iter.tok, simIter]

/-- the first event of the loop over a generated history, and the rest -/
theorem runLoop_simHist_cons (v : Variant) (d : Bool) (w : Waiter) (t tok : Int) (toks : List Int) (p : Delays) (ps : List Delays) :
    (runLoop v d w (simHist v d w t (tok :: toks) (p :: ps))).1 =
      (if fires d (isSlowDown (waitV v w (simIter t tok p).env).w false) then Ev.shoot (simIter t tok p)
        else Ev.discard (simIter t tok p) discardedShootSample) ::
      (runLoop v d (waitV v w (simIter t tok p).env).w
        (simHist v d (waitV v w (simIter t tok p).env).w
          (simNext d (waitV v w (simIter t tok p).env).w (simIter t tok p)) toks ps)).1 := by
  have hf : (simIter t tok p).finished = false := rfl
  have ha : (simIter t tok p).ammoOk = true := rfl
  have hc : (simIter t tok p).ctxDoneSlow = false := rfl
  simp only [simHist]
  rw [runLoop]
  simp only [hf, ha, hc, simIter_ok v w t tok p]
  simp

/-- the cached reading after a pass is not ahead of the instant at which the next pass starts -/
theorem sim_lastNow_le (v : Variant) (d : Bool) (w : Waiter) (t tok : Int) (p : Delays) (hw : w.lastNow ≤ t) :
    (waitV v w (simIter t tok p).env).w.lastNow ≤ simNext d (waitV v w (simIter t tok p).env).w (simIter t tok p) := by
  have h2 := simNext_ge_now d (waitV v w (simIter t tok p).env).w t tok p
  have h3 := simIter_now_ge t tok p
  rcases waitV_lastNow v w (simIter t tok p).env with hl | hl <;> rw [hl] <;> omega

/-- repaired `Wait`, generated pass: a token that is fired was less than 2 s late at the reading -/
theorem sim_fired_lt (w : Waiter) (t tok : Int) (p : Delays) (hw : w.lastNow ≤ t)
    (h : fires true (isSlowDown (waitV .fresh w (simIter t tok p).env).w false) = true) :
    (simIter t tok p).env.now - tok < maxOverdue := by
  have hn := simIter_now_ge t tok p
  have hov := wait_overdue w (simIter t tok p).env (by omega) tok rfl (simIter_ok .fresh w t tok p)
  simp [fires, isSlowDown, slowCond] at h
  have hm : (0 : Int) < maxOverdue := by decide
  split at hov <;> omega

/-! ### fair scheduling of a pool: a potential that every step of an instance decreases -/

/-- upper bound of the number of steps instance `i` can still make: with `s` tokens left, an instance at the loop head needs at
most `2s + 2` steps to leave the loop, one that is about to call `Wait` at most `2s + 1` (`1` and `2` once the schedule is empty) -/
def phi (st : PState) (i : Nat) : Nat :=
  match st.phase i with
  | .exited => 0
  | .head => if st.sched.length = 0 then 1 else 2 * st.sched.length + 2
  | .waiting => if st.sched.length = 0 then 2 else 2 * st.sched.length + 1

/-- how often instance `i` moves in a list of steps -/
def stepsOf (steps : List PStep) (i : Nat) : Nat := (steps.filter (fun s => s.inst == i)).length

theorem phi_eq_zero {st : PState} {i : Nat} (h : phi st i = 0) : st.phase i = .exited := by
  unfold phi at h
  cases hp : st.phase i with
  | exited => rfl
  | head => simp only [hp] at h; split at h <;> omega
  | waiting => simp only [hp] at h; split at h <;> omega

/-- a calm step of instance `i` itself decreases its potential (unless it has left the loop); a step of another instance does
not increase it -/
theorem phi_pstep (st : PState) (s : PStep) (i : Nat) (hs : Calm s) :
    phi (pstep st s) i + (if s.inst = i then 1 else 0) ≤ phi st i ∨ phi (pstep st s) i = 0 := by
  obtain ⟨hch, hammo, hctx, htw⟩ := hs
  by_cases hi : s.inst = i
  · subst hi
    simp only [↓reduceIte]
    unfold pstep
    cases hph : st.phase s.inst with
    | exited => right; simp [phi, hph]
    | head =>
      simp only []
      by_cases hfin : isFinished s.ctxDoneHead st.sched.length = true
      · right
        simp only [hfin, ↓reduceIte]
        simp [phi, record_phase_same]
      · left
        have hlen : st.sched.length ≠ 0 := by
          intro h0
          apply hfin
          simp [isFinished, hch, h0]
        simp only [hfin, hammo, Bool.false_eq_true, ↓reduceIte, Bool.not_true]
        simp only [phi, upd, ↓reduceIte, hph, hlen]
        omega
    | waiting =>
      left
      simp only [hctx, Bool.false_eq_true, ↓reduceIte]
      cases hsched : st.sched with
      | nil =>
        simp only [phi, record_phase_same, record_sched, hph, hsched, List.length_nil, ↓reduceIte]
        omega
      | cons tk rest =>
        simp only [phi, record_phase_same, record_sched, hph]
        rw [hsched]
        by_cases h0 : rest.length = 0 <;> simp [h0] <;> omega
  · simp only [hi, ↓reduceIte, Nat.add_zero]
    left
    -- another instance moves: the phase of `i` is unchanged and the schedule does not grow
    have hi' : i ≠ s.inst := fun h => hi h.symm
    unfold pstep
    cases hph : st.phase s.inst with
    | exited => exact Nat.le_refl _
    | head =>
      simp only []
      split
      · simp only [phi, record_phase_other _ _ _ _ _ hi', record_sched]; exact Nat.le_refl _
      · split
        · simp only [phi, record_phase_other _ _ _ _ _ hi', record_sched]; exact Nat.le_refl _
        · simp only [phi, upd, hi', ↓reduceIte]; exact Nat.le_refl _
    | waiting =>
      simp only [hctx, Bool.false_eq_true, ↓reduceIte]
      cases hsched : st.sched with
      | nil => simp only [phi, record_phase_other _ _ _ _ _ hi', record_sched, hsched]; exact Nat.le_refl _
      | cons tk rest =>
        simp only [phi, record_phase_other _ _ _ _ _ hi', record_sched]
        rw [hsched]
        cases st.phase i with
        | exited => exact Nat.le_refl _
        | head => by_cases h0 : rest.length = 0 <;> simp [h0] <;> omega
        | waiting => by_cases h0 : rest.length = 0 <;> simp [h0] <;> omega

theorem phi_prun (st : PState) (steps : List PStep) (i : Nat) (hs : ∀ s ∈ steps, Calm s) :
    phi (prun st steps) i + stepsOf steps i ≤ phi st i ∨ phi (prun st steps) i = 0 := by
  induction steps generalizing st with
  | nil => left; simp [prun, stepsOf]
  | cons s rest ih =>
    have hrest : ∀ x ∈ rest, Calm x := fun x hx => hs x (by simp [hx])
    have h1 := phi_pstep st s i (hs s (by simp))
    have h2 := ih (pstep st s) hrest
    simp only [prun, List.foldl_cons] at h2 ⊢
    have hcount : stepsOf (s :: rest) i = (if s.inst = i then 1 else 0) + stepsOf rest i := by
      unfold stepsOf
      by_cases hi : s.inst = i
      · simp [hi]; omega
      · simp [hi]
    rcases h2 with h2 | h2
    · rcases h1 with h1 | h1
      · left; rw [hcount]; omega
      · right; omega
    · right; exact h2

theorem phi_init (toks : List Int) (i : Nat) : phi (PState.init toks) i ≤ 2 * toks.length + 2 := by
  simp only [phi, PState.init]
  by_cases h0 : toks.length = 0 <;> simp [h0]

/-! ### Go's saturating `Time.Sub` -/

theorem satSub_exact (a b : Int) (h1 : a - b ≤ maxDuration) (h2 : minDuration ≤ a - b) : satSub a b = timeSub a b := by
  unfold satSub timeSub
  split
  · omega
  · split
    · omega
    · rfl

/-- saturation keeps the sign -/
theorem satSub_pos (a b : Int) (h : 0 < a - b) : ¬ satSub a b ≤ 0 := by
  have hmax : maxDuration = 9223372036854775807 := rfl
  have hmin : minDuration = -9223372036854775808 := rfl
  unfold satSub
  split
  · omega
  · split <;> omega

/-! ### end instants of actions and the bounds of the closed-world runs (helpers of `C04_run_end_bounded`, `C04_sim_*`) -/

/-- instant at which an action is over: a shot when the response has arrived, a discard when it is reported -/
def endT : Ev → Int
  | .shoot it => it.env.ret + it.dur
  | .discard it _ => it.env.ret

/-- `B + (k+1)·step` without a product -/
def chainBound (B step : Int) : Nat → Int
  | 0 => B + step
  | k + 1 => chainBound B step k + step

/-- time one pass costs: overheads plus the response -/
def passCost (p : Delays) : Int := p.dPick + p.dNow + p.dArm + p.dLag + p.dur

def sumCost : List Delays → Int
  | [] => 0
  | p :: ps => passCost p + sumCost ps

/-- the end of the action of a generated pass is the instant `simNext` at which the next pass starts -/
theorem endT_sim_head (d : Bool) (w' : Waiter) (it : Iter) (s : DiscardSample) :
    endT (if fires d (isSlowDown w' false) = true then Ev.shoot it else Ev.discard it s) = simNext d w' it := by
  unfold simNext
  split <;> simp [endT]

theorem sim_end_by_aux (v : Variant) (d : Bool) (M : Int) (toks : List Int) :
    ∀ (w : Waiter) (t c : Int) (ps : List Delays), (∀ tok ∈ toks, tok ≤ M) → 0 ≤ c → t ≤ M + c →
      ∀ k ev, (runLoop v d w (simHist v d w t toks ps)).1[k]? = some ev → endT ev ≤ M + c + sumCost (ps.take (k + 1)) := by
  induction toks with
  | nil => intro w t c ps _ _ _ k ev hk; simp [simHist, runLoop, simLast] at hk
  | cons tok toks ih =>
    intro w t c ps htoks hc ht k ev hk
    cases ps with
    | nil => simp [simHist, runLoop] at hk
    | cons p ps =>
      rw [runLoop_simHist_cons] at hk
      have htok : tok ≤ M := htoks tok (by simp)
      have hcost : 0 ≤ passCost p := by unfold passCost; omega
      -- the end of this pass's action
      have hend : simNext d (waitV v w (simIter t tok p).env).w (simIter t tok p) ≤ M + c + passCost p := by
        unfold simNext passCost
        simp only [simIter]
        split <;> split <;> omega
      cases k with
      | zero =>
        simp only [List.getElem?_cons_zero, Option.some.injEq] at hk
        subst hk
        rw [endT_sim_head]
        simp only [List.take_succ_cons, List.take_zero, sumCost]
        omega
      | succ k =>
        simp only [List.getElem?_cons_succ] at hk
        have := ih _ _ (c + passCost p) ps (fun x hx => htoks x (by simp [hx])) (by omega) (by omega) k ev hk
        simp only [List.take_succ_cons, sumCost]
        omega

theorem chainBound_shift (B step : Int) (k : Nat) : chainBound (B + step) step k = chainBound B step (k + 1) := by
  induction k with
  | zero => simp [chainBound]
  | succ k ih => simp only [chainBound, ih]

theorem sim_on_aux (start D R ε δ : Int) (hε : 0 ≤ ε) (hδ : 0 ≤ δ) (hR : 0 ≤ R) (toks : List Int) :
    ∀ (w : Waiter) (t B' : Int) (ps : List Delays), w.lastNow ≤ t → (∀ tok ∈ toks, tok ≤ start + D) →
      (∀ p ∈ ps, (p.dur : Int) ≤ R ∧ (p.dPick : Int) ≤ δ ∧ (p.dNow : Int) + p.dArm + p.dLag ≤ ε) →
      start + D + maxOverdue + ε + R ≤ B' → t ≤ B' →
      ∀ k ev, (runLoop .fresh true w (simHist .fresh true w t toks ps)).1[k]? = some ev → endT ev ≤ chainBound B' (δ + ε) k := by
  have hm : (0 : Int) ≤ maxOverdue := by decide
  induction toks with
  | nil => intro w t B' ps _ _ _ _ _ k ev hk; simp [simHist, runLoop, simLast] at hk
  | cons tok toks ih =>
    intro w t B' ps hw htoks hps hB ht k ev hk
    cases ps with
    | nil => simp [simHist, runLoop] at hk
    | cons p ps =>
      rw [runLoop_simHist_cons] at hk
      have htok : tok ≤ start + D := htoks tok (by simp)
      obtain ⟨hp1, hp2, hp3⟩ := hps p (by simp)
      -- the action of this pass is over by B' + δ + ε
      have hend : simNext true (waitV .fresh w (simIter t tok p).env).w (simIter t tok p) ≤ B' + (δ + ε) := by
        unfold simNext
        by_cases hfire : fires true (isSlowDown (waitV .fresh w (simIter t tok p).env).w false) = true
        · have hlt := sim_fired_lt w t tok p hw hfire
          simp only [hfire, ↓reduceIte]
          simp only [simIter] at hlt ⊢
          split <;> omega
        · simp only [hfire, Bool.false_eq_true, ↓reduceIte]
          simp only [simIter]
          split <;> omega
      cases k with
      | zero =>
        simp only [List.getElem?_cons_zero, Option.some.injEq] at hk
        subst hk
        rw [endT_sim_head]
        simp only [chainBound]
        exact hend
      | succ k =>
        simp only [List.getElem?_cons_succ] at hk
        have hw' := sim_lastNow_le .fresh true w t tok p hw
        have := ih _ _ (B' + (δ + ε)) ps hw' (fun x hx => htoks x (by simp [hx])) (fun x hx => hps x (by simp [hx]))
          (by omega) hend k ev hk
        rw [chainBound_shift] at this
        exact this

end Pandora.Proofs.C04
