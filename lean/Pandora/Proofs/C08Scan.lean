/-
C08 (round 2): the reading loops of the `Scan` methods over a file given line by line (`Model.C08Scan.scanLines`,
round functions regenerated from the Go source) are the abstract cyclic source `Src` of the provider theorems:
non-entry lines (headers, blank lines) anywhere in the file do not matter.  Core Lean only.
-/
import Pandora.Model.C08Scan
import Pandora.Proofs.C08Loops

namespace Pandora.Proofs.C08
open Pandora.Model.C08

/-! ## entries before a line -/

theorem eb_zero (f : Lines) : entriesBefore f 0 = 0 := by simp [entriesBefore]

theorem eb_succ (f : Lines) (p : Nat) (x : Bool) (h : f[p]? = some x) :
    entriesBefore f (p + 1) = entriesBefore f p + (if x = true then 1 else 0) := by
  unfold entriesBefore
  rw [take_succ_getElem f p x h, List.count_append]
  cases x <;> simp

theorem eb_le (f : Lines) (p : Nat) : entriesBefore f p ≤ f.count true := by
  unfold entriesBefore
  exact (List.take_sublist p f).count_le true

theorem eb_full (f : Lines) (p : Nat) (h : f.length ≤ p) : entriesBefore f p = f.count true := by
  unfold entriesBefore
  rw [List.take_of_length_le h]

theorem rdAt_eof (f : Lines) (p : Nat) (h : f.length ≤ p) : rdAt f p = .eof := by
  unfold rdAt
  rw [List.getElem?_eq_none h]

theorem lt_of_eb_lt (f : Lines) (p : Nat) (h : entriesBefore f p < f.count true) : p < f.length := by
  by_cases hp : p < f.length
  · exact hp
  · rw [eb_full f p (by omega)] at h; omega

/-- at a line that exists: it is an entry (and then the count grows) or it is not -/
theorem rdAt_cases (f : Lines) (p : Nat) (h : p < f.length) :
    (rdAt f p = .entry ∧ entriesBefore f (p + 1) = entriesBefore f p + 1) ∨
    (rdAt f p = .skip ∧ entriesBefore f (p + 1) = entriesBefore f p) := by
  have hx : f[p]? = some f[p] := List.getElem?_eq_getElem h
  cases hv : f[p] with
  | true =>
    left
    rw [hv] at hx
    exact ⟨by simp [rdAt, hx], by rw [eb_succ f p true hx]; simp⟩
  | false =>
    right
    rw [hv] at hx
    exact ⟨by simp [rdAt, hx], by rw [eb_succ f p false hx]; simp⟩

/-! ## one round of the reading loop -/

section step
variable (round : Nat → Bool → Rd → Nat → Nat → ScanAct) (passes : Nat) (c : Bool) (f : Lines)

def posAfter (f : Lines) (pos : Nat) : Nat := if rdAt f pos = .eof then pos else pos + 1

theorem scanLines_ammo (fuel w : Nat) (d : LDec) (a p : Nat)
    (h : round passes c (rdAt f d.pos) d.ammoNum d.passNum = .ret .ammo a p) :
    scanLines round passes c f (fuel + 1) w d = (.ammo, some (entriesBefore f d.pos), ⟨posAfter f d.pos, a, p⟩) := by
  simp only [scanLines, h, posAfter]

theorem scanLines_ret (fuel w : Nat) (d : LDec) (r : SRes) (a p : Nat) (hr : r ≠ .ammo)
    (h : round passes c (rdAt f d.pos) d.ammoNum d.passNum = .ret r a p) :
    scanLines round passes c f (fuel + 1) w d = (r, none, ⟨posAfter f d.pos, a, p⟩) := by
  cases r <;> simp_all [scanLines, posAfter]

theorem scanLines_next (fuel w : Nat) (d : LDec) (a p : Nat)
    (h : round passes c (rdAt f d.pos) d.ammoNum d.passNum = .next a p) :
    scanLines round passes c f (fuel + 1) w d = scanLines round passes c f fuel w ⟨posAfter f d.pos, a, p⟩ := by
  simp only [scanLines, h, posAfter]

theorem scanLines_rewind (fuel w : Nat) (d : LDec) (a p : Nat) (hw : w + 1 < scanWraps)
    (h : round passes c (rdAt f d.pos) d.ammoNum d.passNum = .rewind a p) :
    scanLines round passes c f (fuel + 1) w d = scanLines round passes c f fuel (w + 1) ⟨0, a, p⟩ := by
  have : ¬ scanWraps ≤ w + 1 := by omega
  simp only [scanLines, h, this, if_false]
end step

/-! ## the rounds -/

/-- the check that opens a round of the json-lines decoder lets the round read -/
def topOk (style : Style) (passes passNum : Nat) : Prop :=
  style = .topCheck → ¬ (passes ≠ 0 ∧ passes ≤ passNum)

theorem round_entry (style : Style) (passes a p : Nat) (h : topOk style passes p) :
    roundOf style passes false .entry a p = .ret .ammo (a + 1) p := by
  cases style
  · simp [roundOf, roundEof]
  · have := h rfl
    simp [roundOf, roundTop, this]

theorem round_skip (style : Style) (passes a p : Nat) (h : topOk style passes p) :
    roundOf style passes false .skip a p = .next a p := by
  cases style
  · simp [roundOf, roundEof]
  · have := h rfl
    simp [roundOf, roundTop, this]

theorem posAfter_lt (f : Lines) (p : Nat) (h : p < f.length) : posAfter f p = p + 1 := by
  unfold posAfter
  rcases rdAt_cases f p h with ⟨h1, _⟩ | ⟨h1, _⟩ <;> simp [h1]

theorem posAfter_eof (f : Lines) : posAfter f f.length = f.length := by
  simp [posAfter, rdAt_eof f f.length (Nat.le_refl _)]

/-- reading on from line `d.pos` with `r < n` entries behind: the lines that are not entries are skipped, the next
entry is returned (`k` = lines left) -/
theorem scanLines_to_entry (style : Style) (passes : Nat) (f : Lines) (w : Nat) :
    ∀ (k fuel : Nat) (d : LDec), d.pos + k = f.length → k ≤ fuel →
      entriesBefore f d.pos < f.count true → topOk style passes d.passNum →
      ∃ p', scanLines (roundOf style) passes false f fuel w d =
          (.ammo, some (entriesBefore f d.pos), ⟨p', d.ammoNum + 1, d.passNum⟩) ∧
        entriesBefore f p' = entriesBefore f d.pos + 1 ∧ p' ≤ f.length := by
  intro k
  induction k with
  | zero =>
    intro fuel d hk _ hlt _
    have := lt_of_eb_lt f d.pos hlt
    omega
  | succ k ih =>
    intro fuel d hk hfuel hlt htop
    obtain ⟨fuel, rfl⟩ : ∃ m, fuel = m + 1 := ⟨fuel - 1, by omega⟩
    have hp : d.pos < f.length := by omega
    rcases rdAt_cases f d.pos hp with ⟨hrd, heb⟩ | ⟨hrd, heb⟩
    · refine ⟨d.pos + 1, ?_, heb, by omega⟩
      rw [scanLines_ammo _ _ _ _ _ _ _ _ _ (by rw [hrd]; exact round_entry style passes _ _ htop), posAfter_lt f _ hp]
    · rw [scanLines_next _ _ _ _ _ _ _ _ _ (by rw [hrd]; exact round_skip style passes _ _ htop), posAfter_lt f _ hp]
      obtain ⟨p', h1, h2, h3⟩ := ih fuel ⟨d.pos + 1, d.ammoNum, d.passNum⟩ (by simp; omega) (by omega)
        (by simpa [heb] using hlt) htop
      refine ⟨p', ?_, ?_, h3⟩
      · rw [h1]; simp [heb]
      · simpa [heb] using h2

/-- reading on from line `d.pos` with every entry behind: the remaining lines are skipped, the next round reads
the end of the file -/
theorem scanLines_to_eof (style : Style) (passes : Nat) (f : Lines) (w : Nat) :
    ∀ (k m : Nat) (d : LDec), d.pos + k = f.length →
      entriesBefore f d.pos = f.count true → topOk style passes d.passNum →
      scanLines (roundOf style) passes false f (k + m) w d =
        scanLines (roundOf style) passes false f m w ⟨f.length, d.ammoNum, d.passNum⟩ := by
  intro k
  induction k with
  | zero =>
    intro m d hk _ _
    have : d = ⟨f.length, d.ammoNum, d.passNum⟩ := by
      cases d; simp at hk ⊢; exact hk
    rw [Nat.zero_add]; rw [← this]
  | succ k ih =>
    intro m d hk heb htop
    have hp : d.pos < f.length := by omega
    rcases rdAt_cases f d.pos hp with ⟨_, heb'⟩ | ⟨hrd, heb'⟩
    · have := eb_le f (d.pos + 1); omega
    · have : k + 1 + m = k + m + 1 := by omega
      rw [this, scanLines_next _ _ _ _ _ _ _ _ _ (by rw [hrd]; exact round_skip style passes _ _ htop), posAfter_lt f _ hp]
      exact ih m ⟨d.pos + 1, d.ammoNum, d.passNum⟩ (by simp; omega) (by simpa [heb'] using heb) htop

/-! ## the line-level decoder is a `Src` -/

/-- line-level decoder state after `q` complete passes and `r` entries of the current pass -/
def RLines (f : Lines) (q r : Nat) (d : LDec) : Prop :=
  entriesBefore f d.pos = r ∧ d.pos ≤ f.length ∧ d.passNum = q ∧ d.ammoNum = q * f.count true + r

theorem RLines_init (f : Lines) : RLines f 0 0 LDec.init := by
  simp [RLines, LDec.init, eb_zero]

theorem RLines_le {f : Lines} {q r : Nat} {d : LDec} (h : RLines f q r d) : r ≤ f.count true := by
  rw [← h.1]; exact eb_le f d.pos

theorem scanFile_nolimit (style : Style) (passes : Nat) (c : Bool) (f : Lines) (d : LDec) :
    scanFile style ⟨0, passes⟩ c f d = scanLines (roundOf style) passes c f (2 * (f.length + 1)) 0 d := by
  simp [scanFile]

/-- SRes-level: the next entry of the current pass -/
theorem scanFile_next (style : Style) (passes : Nat) (f : Lines) (q r : Nat) (d : LDec) (hR : RLines f q r d)
    (hr : r < f.count true) (hq : passes = 0 ∨ q < passes) :
    ∃ d', scanFile style ⟨0, passes⟩ false f d = (.ammo, some r, d') ∧ RLines f q (r + 1) d' := by
  obtain ⟨h1, h2, h3, h4⟩ := hR
  have htop : topOk style passes d.passNum := by intro _; omega
  obtain ⟨p', e1, e2, e3⟩ := scanLines_to_entry style passes f 0 (f.length - d.pos) (2 * (f.length + 1)) d
    (by omega) (by omega) (by omega) htop
  refine ⟨⟨p', d.ammoNum + 1, d.passNum⟩, ?_, ?_⟩
  · rw [scanFile_nolimit, e1, h1]
  · exact ⟨by rw [e2, h1], e3, h3, by simp [h4]; omega⟩

/-- what the round at the end of the file does when a further pass is allowed -/
theorem round_eof_rewind (style : Style) (passes a p : Nat) (ha : a ≠ 0) (hp : passes = 0 ∨ p + 1 < passes) :
    roundOf style passes false .eof a p = .rewind a (p + 1) := by
  cases style
  · have : ¬ (passes ≠ 0 ∧ passes ≤ p + 1) := by omega
    simp [roundOf, roundEof, this, ha]
  · have : ¬ (passes ≠ 0 ∧ passes ≤ p) := by omega
    simp [roundOf, roundTop, this, ha]

theorem scanFile_wrap (style : Style) (passes : Nat) (f : Lines) (hn : 0 < f.count true) (q : Nat) (d : LDec)
    (hR : RLines f q (f.count true) d) (hp : passes = 0 ∨ q + 1 < passes) :
    ∃ d', scanFile style ⟨0, passes⟩ false f d = (.ammo, some 0, d') ∧ RLines f (q + 1) 1 d' := by
  obtain ⟨h1, h2, h3, h4⟩ := hR
  have htop : topOk style passes d.passNum := by intro _; omega
  have ha : d.ammoNum ≠ 0 := by rw [h4]; omega
  -- skip what is left of the file, read the end of the file, rewind, read up to the first entry
  have hfuel : 2 * (f.length + 1) = (f.length - d.pos) + ((f.length + d.pos + 1) + 1) := by omega
  have e1 := scanLines_to_eof style passes f 0 (f.length - d.pos) ((f.length + d.pos + 1) + 1) d (by omega) h1 htop
  have hrd : rdAt f f.length = .eof := rdAt_eof f f.length (Nat.le_refl _)
  have e2 : scanLines (roundOf style) passes false f ((f.length + d.pos + 1) + 1) 0 ⟨f.length, d.ammoNum, d.passNum⟩ =
      scanLines (roundOf style) passes false f (f.length + d.pos + 1) 1 ⟨0, d.ammoNum, d.passNum + 1⟩ :=
    scanLines_rewind _ _ _ _ _ _ _ _ _ (by simp [scanWraps])
      (by simp only [hrd]; exact round_eof_rewind style passes _ _ ha (by omega))
  have htop' : topOk style passes (d.passNum + 1) := by intro _; omega
  obtain ⟨p', e3, e4, e5⟩ := scanLines_to_entry style passes f 1 f.length (f.length + d.pos + 1)
    ⟨0, d.ammoNum, d.passNum + 1⟩ (by simp) (by omega) (by simpa [eb_zero] using hn) htop'
  refine ⟨⟨p', d.ammoNum + 1, d.passNum + 1⟩, ?_, ?_⟩
  · rw [scanFile_nolimit, hfuel, e1, e2, e3]
    simp [eb_zero]
  · refine ⟨by simpa [eb_zero] using e4, e5, by simp [h3], ?_⟩
    simp [h4, Nat.succ_mul]

theorem scanFile_stop (style : Style) (passes : Nat) (f : Lines) (hn : 0 < f.count true) (q : Nat) (d : LDec)
    (hR : RLines f q (f.count true) d) (hp0 : passes ≠ 0) (hp : passes ≤ q + 1) :
    ∃ d', scanFile style ⟨0, passes⟩ false f d = (.errPass, none, d') := by
  obtain ⟨h1, h2, h3, h4⟩ := hR
  have ha : d.ammoNum ≠ 0 := by rw [h4]; omega
  have hrd : rdAt f f.length = .eof := rdAt_eof f f.length (Nat.le_refl _)
  have hfuel : 2 * (f.length + 1) = (f.length - d.pos) + ((f.length + d.pos + 1) + 1) := by omega
  cases style with
  | eofCheck =>
    have htop : topOk .eofCheck passes d.passNum := by intro h; cases h
    have e1 := scanLines_to_eof .eofCheck passes f 0 (f.length - d.pos) ((f.length + d.pos + 1) + 1) d (by omega) h1 htop
    refine ⟨⟨posAfter f f.length, d.ammoNum, d.passNum + 1⟩, ?_⟩
    rw [scanFile_nolimit, hfuel, e1]
    have : passes ≠ 0 ∧ passes ≤ d.passNum + 1 := ⟨hp0, by omega⟩
    exact scanLines_ret _ _ _ _ _ _ _ _ _ _ (by simp) (by simp [hrd, roundOf, roundEof, this])
  | topCheck =>
    by_cases hq : passes ≤ q
    · -- the check that opens the round
      refine ⟨⟨posAfter f d.pos, d.ammoNum, d.passNum⟩, ?_⟩
      have : passes ≠ 0 ∧ passes ≤ d.passNum := ⟨hp0, by omega⟩
      have h2f : 2 * (f.length + 1) = (2 * f.length + 1) + 1 := by omega
      rw [scanFile_nolimit, h2f]
      exact scanLines_ret _ _ _ _ _ _ _ _ _ _ (by simp) (by simp [roundOf, roundTop, this])
    · have htop : topOk .topCheck passes d.passNum := by intro _; omega
      have e1 := scanLines_to_eof .topCheck passes f 0 (f.length - d.pos) ((f.length + d.pos + 1) + 1) d (by omega) h1 htop
      have e2 : scanLines (roundOf .topCheck) passes false f ((f.length + d.pos + 1) + 1) 0 ⟨f.length, d.ammoNum, d.passNum⟩ =
          scanLines (roundOf .topCheck) passes false f (f.length + d.pos + 1) 1 ⟨0, d.ammoNum, d.passNum + 1⟩ := by
        have : ¬ (passes ≠ 0 ∧ passes ≤ d.passNum) := by omega
        exact scanLines_rewind _ _ _ _ _ _ _ _ _ (by simp [scanWraps]) (by simp [hrd, roundOf, roundTop, this, ha])
      refine ⟨⟨posAfter f 0, d.ammoNum, d.passNum + 1⟩, ?_⟩
      rw [scanFile_nolimit, hfuel, e1, e2]
      have : passes ≠ 0 ∧ passes ≤ d.passNum + 1 := ⟨hp0, by omega⟩
      have hf : f.length + d.pos + 1 = (f.length + d.pos) + 1 := rfl
      rw [hf]
      exact scanLines_ret _ _ _ _ _ _ _ _ _ _ (by simp) (by simp [roundOf, roundTop, this])

/-- **refinement**: `Scan` of the decoder of `style` (round function regenerated from the source) over ANY file with
at least one entry line is the abstract cyclic source of the provider theorems -/
theorem src_lines (style : Style) (passes : Nat) (f : Lines) (hn : 0 < f.count true) :
    Src (scanFileRes style ⟨0, passes⟩ f) (f.count true) passes (RLines f) where
  next := by
    intro q r d hR hr hq
    obtain ⟨d', h1, h2⟩ := scanFile_next style passes f q r d hR hr hq
    exact ⟨d', by simp [scanFileRes, h1, toScanRes], h2⟩
  wrap := by
    intro q d hR hp
    obtain ⟨d', h1, h2⟩ := scanFile_wrap style passes f hn q d hR hp
    exact ⟨d', by simp [scanFileRes, h1, toScanRes], h2⟩
  stop := by
    intro q d hR hp0 hp
    obtain ⟨d', h1⟩ := scanFile_stop style passes f hn q d hR hp0 hp
    exact ⟨d', by simp [scanFileRes, h1, toScanRes]⟩

/-! ## LoadAmmo over lines -/

/-- `LoadAmmo` of a live context returns every entry of the file, in order, once -/
theorem loadLines_ok (style : Style) (f : Lines) (hn : 0 < f.count true) :
    ∀ (fuel r : Nat) (d : LDec), RLines f 0 r d → f.count true + 1 ≤ fuel + r →
      loadLines style false f fuel d (List.range r) = some (.ok (List.range (f.count true))) := by
  intro fuel
  induction fuel with
  | zero => intro r d hR hfuel; have := RLines_le hR; omega
  | succ fuel ih =>
    intro r d hR hfuel
    have hle := RLines_le hR
    by_cases hr : r < f.count true
    · obtain ⟨d', h1, h2⟩ := scanFile_next style 1 f 0 r d hR hr (by omega)
      simp only [loadLines, h1, loadStepOf, if_true]
      rw [← List.range_succ]
      exact ih (r + 1) d' h2 (by omega)
    · have hrn : r = f.count true := by omega
      subst hrn
      obtain ⟨d', h1⟩ := scanFile_stop style 1 f hn 0 d hR (by omega) (by omega)
      simp [loadLines, h1, loadStepOf, loadResOf]

/-- a cancelled context ends the `LoadAmmo` of the decoders that read `ctx.Err()` (uri, uripost, raw) at once, with
the context's error -/
theorem loadLines_cancelled (f : Lines) (fuel : Nat) (d : LDec) (acc : List Nat) :
    loadLines .eofCheck true f (fuel + 1) d acc = some (.error .canceled) := by
  have h2f : 2 * (f.length + 1) = (2 * f.length + 1) + 1 := by omega
  have : scanFile .eofCheck ⟨0, 1⟩ true f d = (.canceled, none, ⟨posAfter f d.pos, d.ammoNum, d.passNum⟩) := by
    rw [scanFile_nolimit, h2f]
    exact scanLines_ret _ _ _ _ _ _ _ _ _ _ (by simp) (by simp [roundOf, roundEof])
  simp [loadLines, this, loadStepOf, loadResOf]

/-- the json-lines decoder does not look at the context -/
theorem scanFile_top_ctx (b : Bounds) (f : Lines) (d : LDec) (c : Bool) :
    scanFile .topCheck b c f d = scanFile .topCheck b false f d := by
  have hr : ∀ rd a q, roundOf .topCheck b.passes c rd a q = roundOf .topCheck b.passes false rd a q := by
    intro rd a q; simp [roundOf, roundTop]
  have : ∀ fuel w d, scanLines (roundOf .topCheck) b.passes c f fuel w d =
      scanLines (roundOf .topCheck) b.passes false f fuel w d := by
    intro fuel
    induction fuel with
    | zero => intro w d; rfl
    | succ fuel ih => intro w d; simp only [scanLines, hr, ih]
  simp [scanFile, this]

end Pandora.Proofs.C08
