/-
Scenario gun (helper lemmas for Props/C20.lean), core Lean only.

(A) progress: a thread of the repaired code running alone completes its shot within the fuel of `runShot`, so
    `applyMetadata .copy` returns the definition's templates rendered with the shot's variables, leaves the
    definition's map as it was and keeps the gun's template cache equal to the definition;
(B) the world invariant of `runSched .copy` and the step-by-step refinement of the stateless specification
    `Spec.C20.specSteps` / `expectedSched` by the model of the code.
-/
import Pandora.Model.C20
import Pandora.Spec.C20
import Pandora.Proofs.C20Conc

namespace Pandora.Proofs.C20Scen
open Pandora.Model.C20Conc Pandora.Proofs.C20Conc Pandora.Model.C20 Pandora.Spec.C20

/-! ### (A) progress of one thread running alone -/

section progress
variable {κ : Type}

/-- number of atomic actions a thread still needs to complete its current shot (`n` = number of metadata keys) -/
def rank (n : Nat) (th : Thread κ) : Nat :=
  match th.shots with
  | [] => 0
  | _ :: _ =>
    match th.phase with
    | Phase.idle => 3 * n + 4
    | Phase.copying acc => 3 * n + 3 - acc.length
    | Phase.applyLoc _ rest => rest.length + n + 2
    | Phase.readLoc _ rest => rest.length + 1
    | Phase.applySh _ => 0
    | Phase.readSh _ _ => 0

/-- every action either brings the thread one action closer to the end of its shot, or is the last one -/
theorem threadStepCopy_progress (tmpls : List (Tmpl κ)) (orig : List (Vars κ)) (th : Thread κ)
    (vs : Vars κ) (more : List (Vars κ)) (h : ThreadOk tmpls orig th) (hshots : th.shots = vs :: more) :
    ((threadStepCopy tmpls th).sent = th.sent ∧ (threadStepCopy tmpls th).shots = th.shots ∧
        rank tmpls.length (threadStepCopy tmpls th) + 1 = rank tmpls.length th) ∨
    (rank tmpls.length th = 1 ∧ (threadStepCopy tmpls th).sent.length = th.sent.length + 1) := by
  obtain ⟨_, _, hp⟩ := h
  rw [hshots] at hp
  simp only at hp
  unfold threadStepCopy
  simp only [hshots]
  cases hph : th.phase with
  | idle =>
    left
    simp [rank, hshots, hph]
  | copying acc =>
    rw [hph] at hp
    simp only [PhaseOk] at hp
    have hlen : acc.length ≤ tmpls.length := by
      have := congrArg List.length hp
      simp at this
      omega
    cases hget : tmpls[acc.length]? with
    | some c =>
      left
      have hlt : acc.length < tmpls.length := by
        have := (List.getElem?_eq_some_iff.mp hget).1
        exact this
      simp [rank, hshots, hph, hget]
      omega
    | none =>
      left
      have hge : tmpls.length ≤ acc.length := List.getElem?_eq_none_iff.mp hget
      simp [rank, hshots, hph, hget]
      omega
  | applyLoc done rest =>
    rw [hph] at hp
    obtain ⟨t1, ht, hd⟩ := hp
    cases rest with
    | nil =>
      left
      have hl : done.length = tmpls.length := by
        rw [hd, ht]; simp
      simp [rank, hshots, hph]
      omega
    | cons c rest' =>
      left
      simp [rank, hshots, hph]
      omega
  | readLoc out rest =>
    cases rest with
    | nil =>
      right
      simp [rank, hshots, hph]
    | cons c rest' =>
      left
      simp [rank, hshots, hph]
  | applySh j => rw [hph] at hp; exact absurd hp (by simp [PhaseOk])
  | readSh out j => rw [hph] at hp; exact absurd hp (by simp [PhaseOk])

/-- the single-thread state `runShot` works on -/
theorem stepCopy_single (st : State κ) (th : Thread κ) (h : st.threads = [th]) :
    stepCopy st 0 = { st with threads := [threadStepCopy st.shared th] } := by
  unfold stepCopy
  simp [h]

theorem go_done (step : State κ → Nat → State κ) (i target fuel : Nat) (st : State κ)
    (h : (st.threads[i]?.map (·.sent.length)).getD 0 ≥ target) :
    runShot.go step i target fuel st = st := by
  cases fuel with
  | zero => simp [runShot.go]
  | succ f => simp [runShot.go, h]

/-- running alone, the thread completes one more shot within `rank` actions and keeps its invariant -/
theorem go_reaches (tmpls : List (Tmpl κ)) (orig : List (Vars κ)) (target : Nat) :
    ∀ (fuel : Nat) (st : State κ) (th : Thread κ), st.shared = tmpls → st.threads = [th] →
      ThreadOk tmpls orig th → th.sent.length + 1 = target → th.shots ≠ [] → rank tmpls.length th ≤ fuel →
      ∃ th', (runShot.go stepCopy 0 target fuel st).shared = tmpls ∧
        (runShot.go stepCopy 0 target fuel st).threads = [th'] ∧ ThreadOk tmpls orig th' ∧
        th'.sent.length = target := by
  intro fuel
  induction fuel with
  | zero =>
    intro st th hsh hth hok hlen hne hr
    obtain ⟨vs, more, hshots⟩ : ∃ vs more, th.shots = vs :: more := by
      cases hs : th.shots with
      | nil => exact absurd hs hne
      | cons a b => exact ⟨a, b, rfl⟩
    rcases threadStepCopy_progress tmpls orig th vs more hok hshots with ⟨_, _, h3⟩ | ⟨h1, _⟩ <;> omega
  | succ f ih =>
    intro st th hsh hth hok hlen hne hr
    obtain ⟨vs, more, hshots⟩ : ∃ vs more, th.shots = vs :: more := by
      cases hs : th.shots with
      | nil => exact absurd hs hne
      | cons a b => exact ⟨a, b, rfl⟩
    have hcond : ¬ ((st.threads[0]?.map (·.sent.length)).getD 0 ≥ target) := by
      simp [hth]; omega
    have hstep : runShot.go stepCopy 0 target (f + 1) st = runShot.go stepCopy 0 target f (stepCopy st 0) := by
      simp [runShot.go, hcond]
    rw [hstep, stepCopy_single st th hth, hsh]
    have hok' := threadStepCopy_ok tmpls orig th hok
    rcases threadStepCopy_progress tmpls orig th vs more hok hshots with ⟨h1, h2, h3⟩ | ⟨h1, h2⟩
    · exact ih _ (threadStepCopy tmpls th) rfl rfl hok' (by rw [h1]; exact hlen) (by rw [h2]; exact hne) (by omega)
    · refine ⟨threadStepCopy tmpls th, ?_, ?_, hok', by omega⟩
      · rw [go_done]; simp; omega
      · rw [go_done]; simp; omega

end progress

/-- `templ.Apply` + `metadata.New` of the repaired code on a definition whose map and cache are intact: the values
sent are the definition's templates rendered with the shot's variables, the map is left as it was, the cache stays
equal to the definition -/
theorem applyMetadata_copy (tmpls : List T) (cache : Cache Char) (vars : Vars Char) (hc : CacheOk tmpls cache) :
    ∃ cache', applyMetadata .copy tmpls cache vars = (tmpls, cache', tmpls.map (render vars)) ∧ CacheOk tmpls cache' := by
  let th0 : Thread Char := { shots := [vars], phase := Phase.idle, cache := cache, sent := [] }
  let st0 : State Char := { shared := tmpls, threads := [th0] }
  have hok0 : ThreadOk tmpls [vars] th0 := ⟨hc, ⟨[], rfl, rfl⟩, by simp [th0, PhaseOk]⟩
  obtain ⟨th', h1, h2, h3, h4⟩ := go_reaches tmpls [vars] 1 (3 * tmpls.length + 4) st0 th0 rfl rfl hok0 rfl
    (by simp [th0]) (by simp [rank, th0])
  obtain ⟨hc', ⟨d, hd, hs⟩, _⟩ := h3
  have hsent : th'.sent = [tmpls.map (render vars)] := by
    have hl : d.length = 1 := by
      have := congrArg List.length hs
      simp at this
      omega
    match d, hl, hd, hs with
    | [v], _, hd, hs =>
      have : v = vars := by
        have := congrArg List.head? hd
        simp at this
        exact this.symm
      subst this
      simpa [expected] using hs
  refine ⟨th'.cache, ?_, hc'⟩
  have hrun : runShot stepCopy st0 0 = runShot.go stepCopy 0 1 (3 * tmpls.length + 4) st0 := by
    simp [runShot, st0, th0]
  simp only [applyMetadata]
  show (match (runShot stepCopy st0 0).threads with
        | th :: _ => ((runShot stepCopy st0 0).shared, th.cache, th.sent.headD [])
        | [] => ((runShot stepCopy st0 0).shared, cache, [])) = _
  rw [hrun, h2, h1]
  simp [hsent]

/-! ### (B) association lists -/

section assoc
variable {α β : Type} [BEq α] [LawfulBEq α]

omit [LawfulBEq α] in
theorem find_map_upd (l : List (α × β)) (k k' : α) (v : β) :
    (l.map fun (x : α × β) => if x.1 == k then (x.1, v) else x).find? (fun x => x.1 == k') =
      (l.find? (fun x => x.1 == k')).map (fun x => if x.1 == k then (x.1, v) else x) := by
  induction l with
  | nil => rfl
  | cons x xs ih =>
    simp only [List.map_cons, List.find?_cons]
    by_cases h : (x.1 == k) = true <;> by_cases h2 : (x.1 == k') = true <;> simp [h, h2, ih]

theorem assocGet_set_self (l : List (α × β)) (k : α) (v : β) : assocGet (assocSet l k v) k = some v := by
  unfold assocGet assocSet
  by_cases h : l.any (·.1 == k) = true
  · simp only [h, if_true]
    rw [find_map_upd]
    obtain ⟨x, hx, hk⟩ := List.any_eq_true.mp h
    cases hf : l.find? (fun x => x.1 == k) with
    | none =>
      have := List.find?_eq_none.mp hf x hx
      exact absurd hk this
    | some y =>
      have hy : (y.1 == k) = true := by
        have := List.find?_some hf
        simpa using this
      simp [hy]
  · have h' : l.find? (fun x => x.1 == k) = none := by
      simp only [List.find?_eq_none]
      intro x hx hk
      exact h (List.any_eq_true.mpr ⟨x, hx, hk⟩)
    simp [h, List.find?_append, h']

theorem assocGet_set_ne (l : List (α × β)) (k k' : α) (v : β) (hne : (k' == k) = false) :
    assocGet (assocSet l k v) k' = assocGet l k' := by
  have hne' : k' ≠ k := by simpa using hne
  unfold assocGet assocSet
  by_cases h : l.any (·.1 == k) = true
  · simp only [h, if_true]
    rw [find_map_upd]
    cases hf : l.find? (fun x => x.1 == k') with
    | none => rfl
    | some y =>
      have hy : y.1 = k' := by
        have := List.find?_some hf
        simpa using this
      have : (y.1 == k) = false := by
        rw [hy]; exact hne
      simp [this]
  · have hkk : (k == k') = false := by
      simp only [beq_eq_false_iff_ne, ne_eq]
      intro h; exact hne' h.symm
    simp [h, List.find?_append, hkk]

end assoc

/-! ### (B) world invariant of the repaired scenario gun -/

def tmplsOf (cd : CallDef) : List T := cd.md.map (·.2)

/-- every definition's metadata map holds its templates, every gun's cache holds templates of the definition -/
def WOk (c : Cfg) (w : World) : Prop :=
  (∀ cd ∈ c.calls, assocGet w.cells cd.name = some (tmplsOf cd)) ∧
  (∀ (gun : Nat) (scn : String) (cd : CallDef) (cache : Cache Char), cd ∈ c.calls →
      assocGet w.caches (gun, scn, cd.name) = some cache → CacheOk (tmplsOf cd) cache)

theorem namesDistinct_inj : ∀ (l : List CallDef), namesDistinct l = true →
    ∀ cd ∈ l, ∀ cd' ∈ l, cd.name = cd'.name → cd = cd'
  | [], _, cd, h, _, _, _ => by simp at h
  | x :: xs, hd, cd, h, cd', h', hn => by
    simp only [namesDistinct, Bool.and_eq_true, Bool.not_eq_true', List.any_eq_false] at hd
    obtain ⟨hx, hrest⟩ := hd
    rcases List.mem_cons.mp h with rfl | hm <;> rcases List.mem_cons.mp h' with rfl | hm'
    · rfl
    · exact absurd (by simpa using hn.symm) (hx cd' hm')
    · exact absurd (by simpa using hn) (hx cd hm)
    · exact namesDistinct_inj xs hrest cd hm cd' hm' hn

theorem find_name_self : ∀ (l : List CallDef), namesDistinct l = true → ∀ cd ∈ l,
    (l.map fun cd => (cd.name, tmplsOf cd)).find? (fun x => x.1 == cd.name) = some (cd.name, tmplsOf cd)
  | [], _, cd, h => by simp at h
  | x :: xs, hd, cd, h => by
    by_cases hx : (x.name == cd.name) = true
    · have : x = cd := namesDistinct_inj (x :: xs) hd x (List.mem_cons_self) cd h (by simpa using hx)
      subst this
      simp
    · have hm : cd ∈ xs := by
        rcases List.mem_cons.mp h with rfl | hm
        · simp at hx
        · exact hm
      have hrest : namesDistinct xs = true := by
        simp only [namesDistinct, Bool.and_eq_true] at hd
        exact hd.2
      simp only [List.map_cons, List.find?_cons, hx]
      exact find_name_self xs hrest cd hm

theorem initWorld_ok (c : Cfg) (hd : namesDistinct c.calls = true) : WOk c (initWorld c) := by
  refine ⟨?_, ?_⟩
  · intro cd hcd
    simp only [initWorld, assocGet]
    have := find_name_self c.calls hd cd hcd
    simp only [tmplsOf] at this
    rw [this]; rfl
  · intro gun scn cd cache _ h
    simp [initWorld, assocGet] at h

theorem zip_fst_comp2 {α β γ δ : Type} (f : γ → δ) (g : β → γ) : ∀ (l : List (α × β)),
    (l.map fun x => x.1).zip (l.map (f ∘ g ∘ fun x => x.2)) = l.map fun x => (x.1, f (g x.2))
  | [] => rfl
  | x :: xs => by
    simp only [List.map_cons, List.zip_cons_cons, zip_fst_comp2 f g xs, Function.comp_apply]

/-- **one step**: on a world satisfying the invariant the model of the repaired `shootStep` produces exactly what
the specification computes from the definition and the step's variables, and re-establishes the invariant -/
theorem shootStep_copy (c : Cfg) (gun : Nat) (scn : String) (cd : CallDef) (w : World) (sv : ShotVars)
    (hd : namesDistinct c.calls = true) (hw : WOk c w) (hcd : cd ∈ c.calls)
    (hm1 : (cd.pre && c.users.isEmpty) = false) :
    ∃ w', WOk c w' ∧ w'.iters = (stepVars c cd w.iters sv).2 ∧
      shootStep .copy c gun scn cd w sv =
        (if (specStep c scn cd (stepVars c cd w.iters sv).1).2.1
          then .ok w' (svNext cd (specStep c scn cd (stepVars c cd w.iters sv).1).2.2 sv) (specStep c scn cd (stepVars c cd w.iters sv).1).1
          else .failed w' (specStep c scn cd (stepVars c cd w.iters sv).1).1) := by
  have hsv : stepVars c cd w.iters sv =
      (mkVars (drawUser c cd w.iters).1 (svFor cd sv) c.g c.gn, (drawUser c cd w.iters).2) := rfl
  -- a template that cannot be parsed / executed: only the iterator moves
  by_cases hbad : callBad cd = true
  · refine ⟨{ w with iters := (stepVars c cd w.iters sv).2 }, ⟨hw.1, hw.2⟩, rfl, ?_⟩
    unfold shootStep specStep
    simp only [hm1, hbad, Bool.false_eq_true, if_false, if_true]
    simp [hsv]
  have hbad' : callBad cd = false := by simpa using hbad
  have hcells : assocGet w.cells cd.name = some (tmplsOf cd) := hw.1 cd hcd
  have hcache : CacheOk (tmplsOf cd) ((assocGet w.caches (gun, scn, cd.name)).getD []) := by
    cases hg : assocGet w.caches (gun, scn, cd.name) with
    | none => exact cacheOk_nil _
    | some cache => exact hw.2 gun scn cd cache hcd hg
  obtain ⟨cache', happ, hc'⟩ := applyMetadata_copy (tmplsOf cd) _ (stepVars c cd w.iters sv).1 hcache
  let w' : World := { cells := assocSet w.cells cd.name (tmplsOf cd), iters := (stepVars c cd w.iters sv).2,
                      caches := assocSet w.caches (gun, scn, cd.name) cache' }
  have hinj := namesDistinct_inj c.calls hd
  have hw' : WOk c w' := by
    refine ⟨?_, ?_⟩
    · intro cd' hcd'
      by_cases hn : (cd'.name == cd.name) = true
      · have : cd' = cd := hinj cd' hcd' cd hcd (by simpa using hn)
        subst this
        exact assocGet_set_self _ _ _
      · have hn' : (cd'.name == cd.name) = false := by simpa using hn
        show assocGet (assocSet w.cells cd.name (tmplsOf cd)) cd'.name = _
        rw [assocGet_set_ne _ _ _ _ hn']
        exact hw.1 cd' hcd'
    · intro g' s' cd' cache hcd' hget
      by_cases hk : ((g', s', cd'.name) == (gun, scn, cd.name)) = true
      · have heq : (g', s', cd'.name) = (gun, scn, cd.name) := by simpa using hk
        have hname : cd'.name = cd.name := by
          have := congrArg (fun x => x.2.2) heq
          simpa using this
        have : cd' = cd := hinj cd' hcd' cd hcd hname
        subst this
        have hget' : assocGet (assocSet w.caches (gun, scn, cd'.name) cache') (g', s', cd'.name) = some cache := hget
        rw [heq, assocGet_set_self] at hget'
        cases hget'
        exact hc'
      · have hk' : ((g', s', cd'.name) == (gun, scn, cd.name)) = false := by simpa using hk
        have hget' : assocGet (assocSet w.caches (gun, scn, cd.name) cache') (g', s', cd'.name) = some cache := hget
        rw [assocGet_set_ne _ _ _ _ hk'] at hget'
        exact hw.2 g' s' cd' cache hcd' hget'
  refine ⟨w', hw', rfl, ?_⟩
  unfold shootStep specStep
  simp only [hm1, hbad', Bool.false_eq_true, if_false]
  simp only [hcells, Option.getD_some]
  rw [hsv] at happ
  simp only at happ
  rw [happ]
  simp only [hsv]
  cases hl : lookupMethod cd.call with
  | none => simp [w', stepVars, tmplsOf]
  | some mf =>
    obtain ⟨m, fs⟩ := mf
    simp only
    cases hdec : decodeFields fs _ with
    | none => simp [w', stepVars, tmplsOf]
    | some vals =>
      simp [w', stepVars, tmplsOf, svNext, zip_fst_comp2]
      all_goals (try (split <;> simp_all))
      all_goals (try (by_cases hA : cd.name = "auth" <;> simp only [hA, if_true, if_false]))
      all_goals (try (split <;> simp_all))

theorem mapM_find_mem (calls : List CallDef) : ∀ (reqs : List String) (cds : List CallDef),
    reqs.mapM (fun r => calls.find? (·.name == r)) = some cds → ∀ cd ∈ cds, cd ∈ calls
  | [], cds, h, cd, hcd => by
    simp at h
    subst h
    simp at hcd
  | r :: rs, cds, h, cd, hcd => by
    simp only [List.mapM_cons, Option.bind_eq_bind, Option.bind_eq_some_iff, Option.pure_def, Option.some.injEq] at h
    obtain ⟨b, hb, bs, hbs, rfl⟩ := h
    rcases List.mem_cons.mp hcd with rfl | hm
    · exact List.mem_of_find?_eq_some hb
    · exact mapM_find_mem calls rs bs hbs cd hm

/-- **one shot**: whenever the specification defines what the shot must produce, the model of the repaired code
produces exactly that, leaves the iterators where the specification leaves them and re-establishes the invariant -/
theorem shootSteps_copy (c : Cfg) (gun : Nat) (scn : String) (hd : namesDistinct c.calls = true) :
    ∀ (cds : List CallDef) (w : World) (sv : ShotVars) (acc o : Outcome) (iters' : List (String × Nat)),
      (∀ cd ∈ cds, cd ∈ c.calls) → WOk c w → specSteps c scn cds w.iters sv acc = some (o, iters') →
      ∃ w', WOk c w' ∧ w'.iters = iters' ∧ shootSteps .copy c gun scn cds w sv acc = .done w' o
  | [], w, sv, acc, o, iters', _, hw, h => by
    simp only [specSteps, Option.some.injEq, Prod.mk.injEq] at h
    obtain ⟨rfl, rfl⟩ := h
    exact ⟨w, hw, rfl, rfl⟩
  | cd :: rest, w, sv, acc, o, iters', hmem, hw, h => by
    have hcd : cd ∈ c.calls := hmem cd List.mem_cons_self
    have hrest : ∀ cd' ∈ rest, cd' ∈ c.calls := fun cd' h' => hmem cd' (List.mem_cons_of_mem _ h')
    unfold specSteps at h
    by_cases hm : (cd.pre && c.users.isEmpty) = true
    · simp [hm] at h
    · have hm' : (cd.pre && c.users.isEmpty) = false := by simpa using hm
      simp only [hm', Bool.false_eq_true, if_false] at h
      obtain ⟨w', hw', hit, hstep⟩ := shootStep_copy c gun scn cd w sv hd hw hcd hm'
      unfold shootSteps
      rw [hstep]
      by_cases hok : (specStep c scn cd (stepVars c cd w.iters sv).1).2.1 = true
      · simp only [hok, if_true] at h ⊢
        rw [← hit] at h
        exact shootSteps_copy c gun scn hd rest w' _ _ o iters' hrest hw' h
      · have hok' : (specStep c scn cd (stepVars c cd w.iters sv).1).2.1 = false := by simpa using hok
        simp only [hok', Bool.false_eq_true, if_false, Option.some.injEq, Prod.mk.injEq] at h ⊢
        obtain ⟨rfl, rfl⟩ := h
        exact ⟨w', hw', hit, rfl⟩

/-- **any number of shots by any guns in any order**: whenever the specification defines the expected trace, the
model of the repaired code produces exactly that trace -/
theorem runSched_copy (c : Cfg) (hd : namesDistinct c.calls = true) :
    ∀ (sched : List Nat) (k : Nat) (w : World) (acc tr : List (Nat × Outcome)),
      WOk c w → expectedSched c sched k w.iters acc = some tr → runSched .copy c sched k w acc = .inl (some tr)
  | [], k, w, acc, tr, _, h => by
    simp only [expectedSched, Option.some.injEq] at h
    subst h
    rfl
  | gun :: rest, k, w, acc, tr, hw, h => by
    unfold expectedSched at h
    unfold runSched
    cases hs : (ammoList c)[k % (ammoList c).length]? with
    | none => simp [hs] at h
    | some s =>
      have hne : (ammoList c).isEmpty = false := by
        cases ha : ammoList c with
        | nil => simp [ha] at hs
        | cons a b => rfl
      simp only [hs] at h
      simp only [hne, Bool.false_eq_true, if_false, hs]
      cases hr : resolveReqs c s with
      | none => simp [hr] at h
      | some cds =>
        simp only [hr] at h ⊢
        have hmem : ∀ cd ∈ cds, cd ∈ c.calls := mapM_find_mem c.calls s.reqs cds hr
        cases hsp : specSteps c s.name cds w.iters { a := none, i := none } { calls := [], samples := [] } with
        | none => simp [hsp] at h
        | some oi =>
          obtain ⟨o, iters'⟩ := oi
          simp only [hsp] at h
          obtain ⟨w', hw', hit, hrun⟩ := shootSteps_copy c gun s.name hd cds w _ _ o iters' hmem hw hsp
          rw [hrun]
          simp only
          rw [← hit] at h
          exact runSched_copy c hd rest (k + 1) w' _ tr hw' h

/-! ### the specification's step, case by case -/

/-- payload of a step after templating: every value template rendered with the step's variables -/
def renderedPayload (cd : CallDef) (vars : Vars Char) : List (String × PVal) :=
  cd.payload.map fun (fname, kind, t) => (fname, pvalOf kind (String.ofList (render vars t)))

/-- metadata of a step after templating: every value template of the DEFINITION rendered with the step's variables -/
def renderedMd (cd : CallDef) (vars : Vars Char) : List (String × String) :=
  cd.md.map fun (k, t) => (k, String.ofList (render vars t))

theorem specStep_bad (c : Cfg) (scn : String) (cd : CallDef) (vars : Vars Char) (h : callBad cd = true) :
    specStep c scn cd vars = ({ calls := [], samples := [sampleText (scn ++ "." ++ cd.tag) 0] }, false, none) := by
  simp [specStep, h]

theorem specStep_unknown (c : Cfg) (scn : String) (cd : CallDef) (vars : Vars Char) (h : lookupMethod cd.call = none) :
    specStep c scn cd vars = ({ calls := [], samples := [sampleText (scn ++ "." ++ cd.tag) 0] }, false, none) := by
  by_cases hb : callBad cd = true <;> simp [specStep, h, hb]

theorem specStep_illtyped (c : Cfg) (scn : String) (cd : CallDef) (vars : Vars Char) (m : String) (fs : List Field)
    (hb : callBad cd = false)
    (h : lookupMethod cd.call = some (m, fs)) (h2 : decodeFields fs (renderedPayload cd vars) = none) :
    specStep c scn cd vars = ({ calls := [], samples := [sampleText (scn ++ "." ++ cd.tag) 400] }, false, none) := by
  simp only [renderedPayload] at h2
  simp [specStep, h, h2, hb]

theorem specStep_call (c : Cfg) (scn : String) (cd : CallDef) (vars : Vars Char) (m : String) (fs : List Field)
    (vals : List (String × Option String)) (hb : callBad cd = false)
    (h : lookupMethod cd.call = some (m, fs)) (h2 : decodeFields fs (renderedPayload cd vars) = some vals) :
    (specStep c scn cd vars).1 =
        { calls := [callText m (canonMsg fs vals) (mdText (renderedMd cd vars)) c.tmo],
          samples := [sampleText (scn ++ "." ++ cd.tag) (serverCode m (canonMsg fs vals) (renderedMd cd vars))] } ∧
      (specStep c scn cd vars).2.1 = !(assertFails cd (serverCode m (canonMsg fs vals) (renderedMd cd vars))) := by
  simp only [renderedPayload] at h2
  simp [specStep, h, h2, renderedMd, hb]

theorem lookupMethod_some (call m : String) (fs : List Field) (h : lookupMethod call = some (m, fs)) :
    (m, fs) ∈ methodTable ∧ call = svc ++ "." ++ m := by
  refine ⟨List.mem_of_find?_eq_some h, ?_⟩
  have := List.find?_some h
  exact (by simpa using this : svc ++ "." ++ m = call).symm

/-! ### plain gun -/

theorem shootAll_outcomes (tmo : Nat) (g : GunState) (es : List Entry) :
    (shootAll tmo g es).2 = es.map (shootEntry tmo) := by
  induction es generalizing g with
  | nil => rfl
  | cons e es ih => simp [shootAll, ih]

/-- a pool whose schedule names existing instances only fires the entries in order, whoever fires them -/
theorem runPool_outcomes (tmo : Nat) : ∀ (gs : List GunState) (sched : List Nat) (es : List Entry),
    (∀ i ∈ sched, i < gs.length) →
    ((runPool tmo gs sched es).2.map fun (i, _, o) => (i, o)) = (sched.zip es).map fun (i, e) => (i, shootEntry tmo e)
  | gs, [], es, _ => by simp [runPool]
  | gs, i :: sched, [], _ => by simp [runPool]
  | gs, i :: sched, e :: es, h => by
    have hi : i < gs.length := h i List.mem_cons_self
    have hrest : ∀ j ∈ sched, j < (gs.set i { gs[i] with shots := gs[i].shots + 1 }).length := by
      intro j hj
      simp only [List.length_set]
      exact h j (List.mem_cons_of_mem _ hj)
    have hget : gs[i]? = some gs[i] := List.getElem?_eq_getElem hi
    simp only [runPool, hget, List.zip_cons_cons, List.map_cons]
    rw [runPool_outcomes tmo _ sched es hrest]

end Pandora.Proofs.C20Scen
