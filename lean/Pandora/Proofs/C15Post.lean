/-
C15 helper lemmas about the postprocessor models (`Model/C15Post.lean`).
-/
import Pandora.Model.C15Post

namespace Pandora.Proofs.C15
open Pandora.Model.C15

/-- what a size condition `size {val, op}` states about a body of `len` bytes (the comparisons of the code are
inclusive: `lt` fails only when `val < len`) -/
def sizeHolds (op : String) (val len : Int) : Prop :=
  ((op = "eq" ∨ op = "=") ∧ val = len) ∨ ((op = "lt" ∨ op = "<") ∧ len ≤ val) ∨ ((op = "gt" ∨ op = ">") ∧ val ≤ len)

theorem sizeFails_iff (op : String) (val len : Int) : sizeFails op val len = some false ↔ sizeHolds op val len := by
  unfold sizeFails sizeHolds
  by_cases h1 : op = "eq"
  · subst h1; simp
  by_cases h2 : op = "="
  · subst h2; simp
  by_cases h3 : op = "lt"
  · subst h3; simp
  by_cases h4 : op = "<"
  · subst h4; simp
  by_cases h5 : op = "gt"
  · subst h5; simp
  by_cases h6 : op = ">"
  · subst h6; simp
  simp [h1, h2, h3, h4, h5, h6]

theorem assertResponse_iff (a : AssertCfg) (r : RespView) :
    assertResponse a r = true ↔
      (∀ p ∈ a.body, isSub p r.body = true) ∧
      (∀ kv ∈ a.headers, isSub kv.2 (r.header kv.1) = true) ∧
      (a.status = 0 ∨ a.status = r.status) ∧
      (∀ s, a.size = some s → sizeHolds s.op s.val r.body.length) := by
  unfold assertResponse
  by_cases hr : readsBody a = true
  · simp only [hr, if_true, Bool.and_eq_true, List.all_eq_true, Bool.or_eq_true, beq_iff_eq]
    constructor
    · rintro ⟨⟨⟨hb, hh⟩, hs⟩, hz⟩
      refine ⟨hb, fun kv hkv => hh kv hkv, hs, ?_⟩
      intro s hsz
      rw [hsz] at hz
      exact (sizeFails_iff _ _ _).mp (by simpa using hz)
    · rintro ⟨hb, hh, hs, hz⟩
      refine ⟨⟨⟨hb, fun kv hkv => hh kv hkv⟩, hs⟩, ?_⟩
      cases hsz : a.size with
      | none => rfl
      | some s => simpa using (sizeFails_iff _ _ _).mpr (hz s hsz)
  · have hb : a.body = [] := by
      unfold readsBody at hr
      cases hbody : a.body with
      | nil => rfl
      | cons x xs => simp [hbody] at hr
    have hz : a.size = none := by
      unfold readsBody at hr
      cases hsz : a.size with
      | none => rfl
      | some s => simp [hsz] at hr
    simp [hr, hb, hz]

/-- the pair handed to `in[start:end]` by the `substr` modifier is always a valid slice of the value -/
theorem substrBounds_range (start stop l : Int) (hl : 0 ≤ l) :
    0 ≤ (substrBounds start stop l).1 ∧ (substrBounds start stop l).1 ≤ (substrBounds start stop l).2 ∧
      (substrBounds start stop l).2 ≤ l := by
  unfold substrBounds
  simp only
  split <;> (repeat' split) <;> simp only <;> omega

end Pandora.Proofs.C15
