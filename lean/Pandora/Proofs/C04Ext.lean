/-
C04, round 3 — helper lemmas: the timer of a Waiter never holds a stale tick when it is armed (as long as a done context stays
done), so "a timer does not fire early" is needed only of timers armed on an empty channel; drawn passes of a pool instance carry
tokens of the profile.  Core Lean only.
-/
import Pandora.Model.C04Ext
import Pandora.Proofs.C04
import Pandora.Proofs.C04Pool

namespace Pandora.Proofs.C04
open Pandora.Go.C04 Pandora.Model.C04

/-! ### `waitT` is `waitV` plus the timer -/

theorem waitT_eq (v : Variant) (w : Waiter) (tm : TimerSt) (e : Env) :
    waitT v w tm e = ((waitV v w e).w, timerAfter tm (waitV v w e), (waitV v w e).ok) := by
  unfold waitT waitV timerAfter
  by_cases hc : e.ctxDone = true
  · simp [hc]
  · cases htok : e.tok with
    | none => simp [hc]
    | some next =>
      simp only [hc]
      by_cases h1 : timeSub next w.lastNow ≤ 0
      · cases v <;> simp [h1]
      · by_cases h2 : timeSub next e.now ≤ 0
        · simp [h1, h2]
        · by_cases h3 : e.timerWins = true <;> simp [h1, h2, h3]

theorem waitV_path_ctxDone (v : Variant) (w : Waiter) (e : Env) (h : e.ctxDone = true) : (waitV v w e).path = .ctxDone := by
  unfold waitV; simp [h]

/-- the paths that arm the timer are taken only by a call whose context is alive at entry; `timerCancel` means `ctx.Done()` won -/
theorem waitV_path_timer (v : Variant) (w : Waiter) (e : Env) :
    ((waitV v w e).path = .timer → e.ctxDone = false ∧ e.timerWins = true) ∧
    ((waitV v w e).path = .timerCancel → e.ctxDone = false ∧ e.timerWins = false) := by
  unfold waitV
  by_cases hc : e.ctxDone = true
  · simp [hc]
  · cases htok : e.tok with
    | none => simp [hc]
    | some next =>
      simp only [hc]
      by_cases h1 : timeSub next w.lastNow ≤ 0
      · cases v <;> simp [h1]
      · by_cases h2 : timeSub next e.now ≤ 0
        · simp [h1, h2]
        · by_cases h3 : e.timerWins = true <;> simp [h1, h2, h3]

/-! ### clock hypotheses that ask nothing of a timer armed on a possibly non-empty channel -/

/-- `EnvOK` with the timer clause restricted to a timer that is armed on an EMPTY channel (`tm` = the timer before the call): a
timer whose channel may hold the tick of an earlier arming can be "received" at any instant. -/
def EnvOKT (tm : TimerSt) (e : Env) : Prop :=
  e.now ≤ e.arm ∧ e.now ≤ e.ret ∧
    ∀ next ∈ e.tok, e.ctxDone = false → e.now < next → e.timerWins = true → tm.stale = false → e.arm + (next - e.now) ≤ e.ret

instance (tm : TimerSt) (e : Env) : Decidable (EnvOKT tm e) := by unfold EnvOKT; exact inferInstance

/-- `EnvOKT` for every call of a history, the timer state threaded through the calls -/
def TimersOK (v : Variant) : Waiter → TimerSt → List Iter → Prop
  | _, _, [] => True
  | w, tm, it :: rest =>
    EnvOKT tm it.env ∧ TimersOK v (waitV v w it.env).w (timerAfter tm (waitV v w it.env)) rest

instance decTimersOK (v : Variant) : (w : Waiter) → (tm : TimerSt) → (h : List Iter) → Decidable (TimersOK v w tm h)
  | _, _, [] => isTrue trivial
  | w, tm, it :: rest => by
    unfold TimersOK
    exact @instDecidableAnd _ _ _ (decTimersOK v _ _ rest)

/-- the clock hypotheses of a history with the weaker timer clause -/
def ClockOKT (v : Variant) (w : Waiter) (tm : TimerSt) (h : List Iter) : Prop :=
  TimersOK v w tm h ∧ (∀ it ∈ h, w.lastNow ≤ it.env.now) ∧ h.Pairwise (fun a b => a.env.now ≤ b.env.now)

instance (v : Variant) (w : Waiter) (tm : TimerSt) (h : List Iter) : Decidable (ClockOKT v w tm h) := by
  unfold ClockOKT; exact inferInstance

/-- A done context stays done, seen from `Wait`: if `ctx.Done()` won the final `select` of a call (`timerWins = false`), every later
call finds the context done at its entry `select`. (`instance.Run` and `startInstances` pass the same context to every call.) -/
def CtxSticky (h : List Iter) : Prop := h.Pairwise (fun a b => a.env.timerWins = false → b.env.ctxDone = true)

instance (h : List Iter) : Decidable (CtxSticky h) := by unfold CtxSticky; exact inferInstance

/-- the timer states before each call, with the result of the call -/
def timerTrace (v : Variant) : Waiter → TimerSt → List Iter → List (TimerSt × Res)
  | _, _, [] => []
  | w, tm, it :: rest =>
    (tm, waitV v w it.env) :: timerTrace v (waitV v w it.env).w (timerAfter tm (waitV v w it.env)) rest

theorem arm_recv_not_stale (tm : TimerSt) (h : tm.stale = false) : tm.arm.recv.stale = false := by
  unfold TimerSt.stale at h ⊢
  unfold TimerSt.arm TimerSt.recv TimerSt.reset TimerSt.newTimer
  cases hc : tm.created <;> simp_all

/-- the invariant: either the channel is empty, or the context is done for the rest of the run -/
theorem timer_inv_step (v : Variant) (w : Waiter) (tm : TimerSt) (it : Iter) (rest : List Iter) (hs : CtxSticky (it :: rest))
    (hinv : tm.stale = false ∨ ∀ b ∈ it :: rest, b.env.ctxDone = true) :
    (timerAfter tm (waitV v w it.env)).stale = false ∨ ∀ b ∈ rest, b.env.ctxDone = true := by
  rcases hinv with hf | hd
  · cases hp : (waitV v w it.env).path with
    | timer => left; simp only [timerAfter, hp]; exact arm_recv_not_stale tm hf
    | timerCancel =>
      right
      have := ((waitV_path_timer v w it.env).2 hp).2
      exact fun b hb => (List.pairwise_cons.mp hs).1 b hb this
    | ctxDone => left; simpa [timerAfter, hp] using hf
    | finished => left; simpa [timerAfter, hp] using hf
    | cachedNow => left; simpa [timerAfter, hp] using hf
    | freshNow => left; simpa [timerAfter, hp] using hf
  · right; exact fun b hb => hd b (by simp [hb])

/-- Under `CtxSticky`, starting from an empty channel, the weaker timer clause implies the full one: no call of the run arms the
timer on a channel that may hold a tick. -/
theorem timersOK_envOK (v : Variant) (w : Waiter) (tm : TimerSt) (h : List Iter) (hs : CtxSticky h)
    (hinv : tm.stale = false ∨ ∀ b ∈ h, b.env.ctxDone = true) (ht : TimersOK v w tm h) : ∀ it ∈ h, EnvOK it.env := by
  induction h generalizing w tm with
  | nil => simp
  | cons it rest ih =>
    obtain ⟨hE, hrest⟩ := ht
    intro x hx
    simp only [List.mem_cons] at hx
    rcases hx with rfl | hx
    · refine ⟨hE.1, hE.2.1, fun next hn hc hlt htw => ?_⟩
      rcases hinv with hf | hd
      · exact hE.2.2 next hn hc hlt htw hf
      · have := hd x (by simp); simp [hc] at this
    · exact ih _ _ (List.pairwise_cons.mp hs).2 (timer_inv_step v w tm it rest hs hinv) hrest x hx

theorem clockOKT_clockOK (v : Variant) (w : Waiter) (tm : TimerSt) (h : List Iter) (hs : CtxSticky h) (hf : tm.stale = false)
    (hc : ClockOKT v w tm h) : ClockOK w h :=
  ⟨timersOK_envOK v w tm h hs (Or.inl hf) hc.1, hc.2.1, hc.2.2⟩

/-- every call of the run that arms the timer finds its channel empty -/
theorem timerTrace_not_stale (v : Variant) (w : Waiter) (tm : TimerSt) (h : List Iter) (hs : CtxSticky h)
    (hinv : tm.stale = false ∨ ∀ b ∈ h, b.env.ctxDone = true) :
    ∀ p ∈ timerTrace v w tm h, (p.2.path = .timer ∨ p.2.path = .timerCancel) → p.1.stale = false := by
  induction h generalizing w tm with
  | nil => simp [timerTrace]
  | cons it rest ih =>
    intro p hp harm
    simp only [timerTrace, List.mem_cons] at hp
    rcases hp with rfl | hp
    · rcases hinv with hf | hd
      · exact hf
      · have hcd := waitV_path_ctxDone v w it.env (hd it (by simp))
        simp only at harm
        rw [hcd] at harm
        rcases harm with h | h <;> cases h
    · exact ih _ _ (List.pairwise_cons.mp hs).2 (timer_inv_step v w tm it rest hs hinv) p hp harm

/-! ### a pool instance draws tokens of the profile -/

theorem drawn_mem (v : Variant) (w : Waiter) (h : List Iter) : ∀ it ∈ drawn v w h, it ∈ h := by
  induction h generalizing w with
  | nil => simp [drawn]
  | cons jt rest ih =>
    intro it hit
    unfold drawn at hit
    by_cases hf : jt.finished = true
    · simp [hf] at hit
    · by_cases ha : jt.ammoOk = true
      · by_cases hk : (waitV v w jt.env).ok = true
        · simp [hf, ha, hk] at hit
          rcases hit with rfl | hit
          · simp
          · exact List.mem_cons_of_mem _ (ih _ it hit)
        · simp [hf, ha, hk] at hit
          exact List.mem_cons_of_mem _ (ih _ it hit)
      · simp [hf, ha] at hit

/-- the tokens handed to an instance are tokens of the profile -/
theorem ownToks_subset (toks : List Int) (steps : List PStep) (i : Nat) :
    ∀ t ∈ ownToks (prun (PState.init toks) steps) i, t ∈ toks := by
  intro t ht
  have hcons := prun_cons (PState.init toks) steps
  simp only [PState.init, List.map_nil, List.nil_append] at hcons
  rw [← hcons]
  apply List.mem_append_left
  unfold ownToks at ht
  rw [List.mem_map] at ht ⊢
  obtain ⟨p, hp, rfl⟩ := ht
  exact ⟨p, (List.mem_filter.mp hp).1, rfl⟩

end Pandora.Proofs.C04
