/-
C02, sequential part, compositional in the nesting depth: every schedule object REFINES the flat spec.

`Sem ops` says what a schedule object means: unstarted (`U s parts`: it is the flat succession `parts`) or
running (`R s segs clk`: from clock `clk` on it behaves like the started segments `segs`): `Next`/`Left`/`Start`
return exactly what `segNext`/`segLeft`/the double-start panic say.  Leaves (finite `doAt` parts and
time-bounded unlimited parts reading the clock) have a `Sem`; the composite construction preserves `Sem`
(`compSem`), with the meaning "the parts of the children, one after the other"; iterating over `Lvl d` covers
every nesting depth, empty parts and 0/1-child composites included.  The clock argument of `R` is needed
because a composite forgets (shifts out) an unlimited part once it has seen it finished: that is right only
while the clock does not go back.
-/
import Pandora.Proofs.C02Flat

set_option linter.unusedVariables false

namespace Pandora.Proofs.C02Sem
open Pandora.Model.C02 Pandora.Spec.C02 Pandora.Proofs.C02Flat

structure Sem {σ : Type} (ops : Ops σ) where
  R : σ → List Seg → Int → Prop
  U : σ → List Part → Prop
  R_ne : ∀ {s segs clk}, R s segs clk → segs ≠ []
  U_ne : ∀ {s parts}, U s parts → parts ≠ []
  R_mono : ∀ {s segs clk clk'}, R s segs clk → clk ≤ clk' → R s segs clk'
  next_R : ∀ {s segs clk}, R s segs clk → ∀ now, clk ≤ now →
    ∃ s', ops.next s now = .ok (s', (segNext segs now).2.1, (segNext segs now).2.2) ∧ R s' (segNext segs now).1 now
  left_R : ∀ {s segs clk}, R s segs clk → ∀ now, clk ≤ now →
    ∃ s', ops.left s now = .ok (s', segLeft segs now) ∧ R s' segs now
  start_R : ∀ {s segs clk}, R s segs clk → ∀ t, ops.start s t = .error alreadyStarted
  start_U : ∀ {s parts}, U s parts → ∀ t, ∃ s', ops.start s t = .ok s' ∧ ∀ clk, R s' (inst parts t) clk
  next_U : ∀ {s parts}, U s parts → ∀ now, ∃ s1, ops.start s now = .ok s1 ∧ ops.next s now = ops.next s1 now
  left_U : ∀ {s parts}, U s parts → ∀ now, ops.left s now = .ok (s, partsLeft parts)
  once0_U : U ops.once0 [.fin [] 0]

/-! ### leaves -/

def leafR : Leaf → List Seg → Int → Prop
  | .fin offs dur i (some s), segs, _ => segs = [Seg.fin ((offs.drop i).map (s + ·)) (s + dur)]
  | .unl dur (some f), segs, _ => segs = [Seg.unl (f - dur) f]
  | _, _, _ => False

def leafU : Leaf → List Part → Prop
  | .fin offs dur 0 none, parts => parts = [Part.fin offs dur]
  | .unl dur none, parts => parts = [Part.unl dur]
  | _, _ => False

theorem drop_of_get {offs : List Int} {i : Nat} {o : Int} (h : offs[i]? = some o) :
    offs.drop i = o :: offs.drop (i + 1) := by
  have hi : i < offs.length := by
    rcases Nat.lt_or_ge i offs.length with h' | h'
    · exact h'
    · rw [List.getElem?_eq_none h'] at h; cases h
  rw [List.getElem?_eq_getElem hi] at h
  cases h
  exact (List.drop_eq_getElem_cons hi)

def leafSem : Sem leafOps where
  R := leafR
  U := leafU
  R_ne := by
    intro s segs clk h
    match s, h with
    | .fin offs dur i (some st), h => simp [leafR] at h; simp [h]
    | .unl dur (some f), h => simp [leafR] at h; simp [h]
  U_ne := by
    intro s parts h
    match s, h with
    | .fin offs dur 0 none, h => simp [leafU] at h; simp [h]
    | .unl dur none, h => simp [leafU] at h; simp [h]
  R_mono := by
    intro s segs clk clk' h _
    match s, h with
    | .fin offs dur i (some st), h => exact h
    | .unl dur (some f), h => exact h
  next_R := by
    intro s segs clk h now _
    match s, h with
    | .fin offs dur i (some st), h =>
      simp only [leafR] at h; subst h
      cases hget : offs[i]? with
      | some o =>
        refine ⟨.fin offs dur (i + 1) (some st), ?_, ?_⟩
        · simp [leafOps, Leaf.next, hget, segNext, drop_of_get hget, segNextAux]
        · simp [leafR, segNext, drop_of_get hget, segNextAux]
      | none =>
        have hle : offs.length ≤ i := List.getElem?_eq_none_iff.mp hget
        have hd : offs.drop i = [] := List.drop_eq_nil_of_le hle
        have hd1 : offs.drop (i + 1) = [] := List.drop_eq_nil_of_le (by omega)
        refine ⟨.fin offs dur (i + 1) (some st), ?_, ?_⟩
        · simp [leafOps, Leaf.next, hget, segNext, hd, segNextAux]
        · simp [leafR, segNext, hd, hd1, segNextAux]
    | .unl dur (some f), h =>
      simp only [leafR] at h; subst h
      by_cases hlt : now < f
      · exact ⟨.unl dur (some f), by simp [leafOps, Leaf.next, hlt, segNext, segNextAux],
          by simp [leafR, segNext, segNextAux, hlt]⟩
      · exact ⟨.unl dur (some f), by simp [leafOps, Leaf.next, hlt, segNext, segNextAux],
          by simp [leafR, segNext, segNextAux, hlt]⟩
  left_R := by
    intro s segs clk h now _
    match s, h with
    | .fin offs dur i (some st), h =>
      simp only [leafR] at h; subst h
      refine ⟨.fin offs dur i (some st), ?_, rfl⟩
      simp only [leafOps, Leaf.left, segLeft, pendSegs, List.isEmpty_iff, List.map_eq_nil_iff, List.length_map,
        List.length_drop]
      by_cases hd : offs.drop i = []
      · have : offs.length ≤ i := List.drop_eq_nil_iff.mp hd
        simp [hd]
        omega
      · have : ¬ offs.length ≤ i := fun h => hd (List.drop_eq_nil_of_le h)
        simp [hd]
    | .unl dur (some f), h =>
      simp only [leafR] at h; subst h
      exact ⟨.unl dur (some f), by by_cases hlt : now < f <;> simp [leafOps, Leaf.left, segLeft, hlt], rfl⟩
  start_R := by
    intro s segs clk h t
    match s, h with
    | .fin offs dur i (some st), _ => rfl
    | .unl dur (some f), _ => rfl
  start_U := by
    intro s parts h t
    match s, h with
    | .fin offs dur 0 none, h =>
      simp only [leafU] at h; subst h
      exact ⟨.fin offs dur 0 (some t), rfl, fun _ => by simp [leafR, inst]⟩
    | .unl dur none, h =>
      simp only [leafU] at h; subst h
      exact ⟨.unl dur (some (t + dur)), rfl, fun _ => by simp [leafR, inst]⟩
  next_U := by
    intro s parts h now
    match s, h with
    | .fin offs dur 0 none, _ => exact ⟨.fin offs dur 0 (some now), rfl, by simp [leafOps, Leaf.next]⟩
    | .unl dur none, _ => exact ⟨.unl dur (some (now + dur)), rfl, by simp [leafOps, Leaf.next]⟩
  left_U := by
    intro s parts h now
    match s, h with
    | .fin offs dur 0 none, h => simp only [leafU] at h; subst h; simp [leafOps, Leaf.left, partsLeft]
    | .unl dur none, h => simp only [leafU] at h; subst h; simp [leafOps, Leaf.left, partsLeft]
  once0_U := by simp [leafOps, leafU]

/-! ### how `segNext` sees a chain `dead ++ current ++ later` -/

theorem segNext_mid (d a b : List Seg) (clk now : Int) (hd : Dead d clk) (hle : clk ≤ now) (ha : a ≠ [])
    (hok : (segNext a now).2.2 = true) :
    segNext (d ++ a ++ b) now = (d ++ (segNext a now).1 ++ b, (segNext a now).2) := by
  unfold segNext at *
  rw [List.append_assoc, segNextAux_append, segNextAux_dead d 0 clk now hd hle]
  simp only [Bool.false_eq_true, if_false]
  rw [segNextAux_append, segNextAux_default (finOf d 0) 0 now ha]
  simp [hok, List.append_assoc]

theorem segNext_last (d a : List Seg) (clk now : Int) (hd : Dead d clk) (hle : clk ≤ now) (ha : a ≠ []) :
    segNext (d ++ a) now = (d ++ (segNext a now).1, (segNext a now).2) := by
  unfold segNext
  rw [segNextAux_append, segNextAux_dead d 0 clk now hd hle]
  simp only [Bool.false_eq_true, if_false]
  rw [segNextAux_default (finOf d 0) 0 now ha]

theorem finOf_inst0 {p : List Part} (t : Int) (hp : p ≠ []) : finOf (inst p t) 0 = endOf p t := by
  rw [finOf_default 0 t (inst_ne t hp), finOf_inst]

/-! ### the composite construction preserves `Sem` -/

section comp
variable {σ : Type} {ops : Ops σ} (sem : Sem ops)

/-- children are unstarted, with the given parts -/
def AllU : List σ → List (List Part) → Prop
  | [], [] => True
  | r :: rs, p :: ps => sem.U r p ∧ AllU rs ps
  | _, _ => False

/-- `leftAfter` for a head followed by children with parts `ps`: suffix counts (-1 = unknown), last entry 0 -/
def sufsP : List (List Part) → List Int
  | [] => [0]
  | p :: ps => partsLeft (p ++ ps.flatten) :: sufsP ps

theorem sufsP_head (ps : List (List Part)) : (sufsP ps).headD 0 = partsLeft ps.flatten := by
  cases ps <;> simp [sufsP, partsLeft]

theorem sufsP_tail (p : List Part) (ps : List (List Part)) : (sufsP (p :: ps)).tail = sufsP ps := rfl

def compR (s : Comp σ) (segs : List Seg) (clk : Int) : Prop :=
  ∃ c rest dead segsH ps, s = ⟨c :: rest, sufsP ps, true⟩ ∧ sem.R c segsH clk ∧ AllU sem rest ps ∧
    Dead dead clk ∧ segs = dead ++ segsH ++ inst ps.flatten (finOf segsH 0)

def compU (s : Comp σ) (parts : List Part) : Prop :=
  ∃ c rest p ps, s = ⟨c :: rest, sufsP ps, false⟩ ∧ sem.U c p ∧ AllU sem rest ps ∧ parts = p ++ ps.flatten

theorem compNextAux_cons (c h : σ) (t : List σ) (la : List Int) (now : Int) :
    compNextAux ops c (h :: t) la now = (do
      let (c', tx, ok) ← ops.next c now
      if ok then pure (⟨c' :: h :: t, la, true⟩, tx, true) else do
        let h1 ← ops.start h tx
        let (h2, tx2, ok2) ← ops.next h1 now
        if ok2 then pure (⟨h2 :: t, la.tail, true⟩, tx2, true)
        else compNextAux ops h2 t la.tail now) := by
  rw [compNextAux]

/-- the chain seen from a head that is exhausted: the head joins the dead prefix, the next child is the head -/
theorem chain_shift (dead segsH : List Seg) (p : List Part) (ps : List (List Part)) (hp : p ≠ []) :
    dead ++ segsH ++ inst (p :: ps).flatten (finOf segsH 0) =
      (dead ++ segsH) ++ inst p (finOf segsH 0) ++ inst ps.flatten (finOf (inst p (finOf segsH 0)) 0) := by
  simp only [List.flatten_cons, inst_append, finOf_inst0 _ hp, List.append_assoc]

theorem compNextAux_spec (now : Int) : ∀ (rest : List σ) (ps : List (List Part)) (c : σ) (dead segsH : List Seg)
    (clk : Int), sem.R c segsH clk → AllU sem rest ps → Dead dead clk → clk ≤ now →
    ∃ s', compNextAux ops c rest (sufsP ps) now =
        .ok (s', (segNext (dead ++ segsH ++ inst ps.flatten (finOf segsH 0)) now).2.1,
                 (segNext (dead ++ segsH ++ inst ps.flatten (finOf segsH 0)) now).2.2) ∧
      compR sem s' (segNext (dead ++ segsH ++ inst ps.flatten (finOf segsH 0)) now).1 now
  | [], [], c, dead, segsH, clk, hR, _, hD, hle => by
    obtain ⟨c', hn, hR'⟩ := sem.next_R hR now hle
    have hne := sem.R_ne hR
    simp only [List.flatten_nil, inst, List.append_nil]
    rw [segNext_last dead segsH clk now hD hle hne]
    cases hok : (segNext segsH now).2.2 with
    | true =>
      refine ⟨⟨[c'], sufsP [], true⟩, ?_, c', [], dead, _, [], rfl, hR', trivial, dead_mono hD hle, by simp [inst]⟩
      rw [compNextAux]; simp [hn, hok, bind, Except.bind, pure, Except.pure]
    | false =>
      refine ⟨⟨[c'], sufsP [], true⟩, ?_, c', [], dead, _, [], rfl, hR', trivial, dead_mono hD hle, by simp [inst]⟩
      rw [compNextAux]; simp [hn, hok, bind, Except.bind, pure, Except.pure]
  | h :: t, p :: ps, c, dead, segsH, clk, hR, hU, hD, hle => by
    obtain ⟨c', hn, hR'⟩ := sem.next_R hR now hle
    have hne := sem.R_ne hR
    cases hok : (segNext segsH now).2.2 with
    | true =>
      rw [segNext_mid dead segsH _ clk now hD hle hne hok]
      refine ⟨⟨c' :: h :: t, sufsP (p :: ps), true⟩, ?_, c', h :: t, dead, _, p :: ps, rfl, hR', hU, dead_mono hD hle, ?_⟩
      · rw [compNextAux_cons]; simp [hn, hok, bind, Except.bind, pure, Except.pure]
      · unfold segNext; rw [finOf_segNextAux]
    | false =>
      obtain ⟨hdeadH, hsame, htx⟩ := segNextAux_notok segsH 0 now hok
      have hp : p ≠ [] := sem.U_ne hU.1
      obtain ⟨h1, hs, hR1⟩ := sem.start_U hU.1 (finOf segsH 0)
      obtain ⟨h2, hn2, hR2⟩ := sem.next_R (hR1 now) now (Int.le_refl _)
      have hD2 : Dead (dead ++ segsH) now := (dead_append _ _ _).mpr ⟨dead_mono hD hle, hdeadH⟩
      have hne1 : inst p (finOf segsH 0) ≠ [] := inst_ne _ hp
      rw [chain_shift dead segsH p ps hp]
      cases hok2 : (segNext (inst p (finOf segsH 0)) now).2.2 with
      | true =>
        rw [segNext_mid (dead ++ segsH) _ _ now now hD2 (Int.le_refl _) hne1 hok2]
        refine ⟨⟨h2 :: t, sufsP ps, true⟩, ?_, h2, t, dead ++ segsH, _, ps, rfl, hR2, hU.2, hD2, ?_⟩
        · rw [compNextAux_cons]
          have htx' : (segNext segsH now).2.1 = finOf segsH 0 := htx
          simp [hn, hok, htx', hs, hn2, hok2, bind, Except.bind, pure, Except.pure, sufsP_tail]
        · unfold segNext; rw [finOf_segNextAux]
      | false =>
        obtain ⟨_, hsame2, _⟩ := segNextAux_notok (inst p (finOf segsH 0)) 0 now hok2
        have hR2' : sem.R h2 (inst p (finOf segsH 0)) now := by
          have : (segNext (inst p (finOf segsH 0)) now).1 = inst p (finOf segsH 0) := hsame2
          rw [this] at hR2; exact hR2
        obtain ⟨s', hs', hc⟩ := compNextAux_spec now t ps h2 (dead ++ segsH) (inst p (finOf segsH 0)) now hR2'
          hU.2 hD2 (Int.le_refl _)
        refine ⟨s', ?_, hc⟩
        rw [compNextAux_cons]
        have htx' : (segNext segsH now).2.1 = finOf segsH 0 := htx
        simp only [hn, hok, htx', hs, hn2, hok2, bind, Except.bind, Bool.false_eq_true, if_false, sufsP_tail]
        exact hs'
  | [], _ :: _, _, _, _, _, _, hU, _, _ => absurd hU (by simp [AllU])
  | _ :: _, [], _, _, _, _, _, hU, _, _ => absurd hU (by simp [AllU])

theorem compLeftAux_cons (st : Bool) (c h : σ) (t : List σ) (la : List Int) (now : Int) :
    compLeftAux ops st c (h :: t) la now = (do
      let (c', left) ← ops.left c now
      let la0 := la.headD 0
      if left == 0 then
        if la0 ≥ 0 then pure (⟨c' :: h :: t, la, st⟩, la0)
        else if !st then pure (⟨c' :: h :: t, la, st⟩, -1)
        else do
          let (_, tx, ok) ← ops.next c' now
          if ok then throw "current schedule is not finished"
          let h1 ← ops.start h tx
          compLeftAux ops st h1 t la.tail now
      else if left < 0 then pure (⟨c' :: h :: t, la, st⟩, -1)
      else pure (⟨c' :: h :: t, la, st⟩, combineLeft left la0)) := by
  rw [compLeftAux]

theorem compLeftAux_spec (now : Int) : ∀ (rest : List σ) (ps : List (List Part)) (c : σ) (dead segsH : List Seg)
    (clk : Int), sem.R c segsH clk → AllU sem rest ps → Dead dead clk → clk ≤ now →
    ∃ s', compLeftAux ops true c rest (sufsP ps) now =
        .ok (s', segLeft (dead ++ segsH ++ inst ps.flatten (finOf segsH 0)) now) ∧
      compR sem s' (dead ++ segsH ++ inst ps.flatten (finOf segsH 0)) now
  | [], [], c, dead, segsH, clk, hR, _, hD, hle => by
    obtain ⟨c', hl, hR'⟩ := sem.left_R hR now hle
    refine ⟨⟨[c'], sufsP [], true⟩, ?_, c', [], dead, segsH, [], rfl, hR', trivial, dead_mono hD hle, rfl⟩
    rw [compLeftAux]
    simp only [hl, bind, Except.bind, pure, Except.pure, List.flatten_nil, inst, List.append_nil]
    rw [segLeft_dead_append dead segsH clk now hD hle]
  | h :: t, p :: ps, c, dead, segsH, clk, hR, hU, hD, hle => by
    obtain ⟨c', hl, hR'⟩ := sem.left_R hR now hle
    have hp : p ≠ [] := sem.U_ne hU.1
    have hgeH := segLeft_ge segsH now
    have hD' := dead_mono hD hle
    have hla : (sufsP (p :: ps)).headD 0 = pendSegs (inst (p :: ps).flatten (finOf segsH 0)) := by
      rw [sufsP_head, pendSegs_inst]
    have hpg := pendSegs_ge (inst (p :: ps).flatten (finOf segsH 0))
    have hkeep : compR sem ⟨c' :: h :: t, sufsP (p :: ps), true⟩
        (dead ++ segsH ++ inst (p :: ps).flatten (finOf segsH 0)) now :=
      ⟨c', h :: t, dead, segsH, p :: ps, rfl, hR', hU, hD', rfl⟩
    rw [compLeftAux_cons]
    simp only [hl, bind, Except.bind, hla]
    rw [List.append_assoc, segLeft_dead_append dead _ clk now hD hle]
    by_cases hz : segLeft segsH now = 0
    · -- the head is exhausted
      have hdeadH : Dead segsH now := (segLeft_zero_iff segsH now).mp hz
      rw [segLeft_dead_append segsH _ now now hdeadH (Int.le_refl _)]
      simp only [hz, beq_self_eq_true, if_true]
      by_cases hk : pendSegs (inst (p :: ps).flatten (finOf segsH 0)) ≥ 0
      · simp only [hk, if_true, pure, Except.pure]
        rw [segLeft_of_pend _ now hk]
        exact ⟨_, rfl, by rw [← List.append_assoc]; exact hkeep⟩
      · simp only [hk, if_false, Bool.not_true, Bool.false_eq_true]
        obtain ⟨c'', hn, _⟩ := sem.next_R hR' now (Int.le_refl _)
        have hnx : segNext segsH now = (segsH, finOf segsH 0, false) := segNextAux_dead segsH 0 now now hdeadH (Int.le_refl _)
        rw [hnx] at hn
        obtain ⟨h1, hs, hR1⟩ := sem.start_U hU.1 (finOf segsH 0)
        have hD2 : Dead (dead ++ segsH) now := (dead_append _ _ _).mpr ⟨hD', hdeadH⟩
        obtain ⟨s', hs', hc⟩ := compLeftAux_spec now t ps h1 (dead ++ segsH) (inst p (finOf segsH 0)) now (hR1 now)
          hU.2 hD2 (Int.le_refl _)
        rw [← chain_shift dead segsH p ps hp] at hs' hc
        refine ⟨s', ?_, by rw [← List.append_assoc]; exact hc⟩
        simp only [hn, hs, sufsP_tail, Bool.false_eq_true, if_false]
        rw [hs']
        congr 2
        rw [List.append_assoc, segLeft_dead_append dead _ now now hD' (Int.le_refl _),
          segLeft_dead_append segsH _ now now hdeadH (Int.le_refl _)]
    · have hbz : (segLeft segsH now == 0) = false := by simpa using hz
      simp only [hbz, Bool.false_eq_true, if_false]
      by_cases hneg : segLeft segsH now < 0
      · simp only [hneg, if_true, pure, Except.pure]
        rw [segLeft_neg_append segsH _ now hneg]
        exact ⟨_, rfl, by rw [← List.append_assoc]; exact hkeep⟩
      · simp only [hneg, if_false, pure, Except.pure, combineLeft]
        rw [segLeft_pos_append segsH _ now (by omega)]
        exact ⟨_, rfl, by rw [← List.append_assoc]; exact hkeep⟩
  | [], _ :: _, _, _, _, _, _, hU, _, _ => absurd hU (by simp [AllU])
  | _ :: _, [], _, _, _, _, _, hU, _, _ => absurd hU (by simp [AllU])

/-- `Left` of an unstarted composite: the count of all its parts, or -1; nothing is touched -/
theorem compLeftAux_U (st : Bool) (hst : st = false) (now : Int) (c : σ) (p : List Part) (hc : sem.U c p)
    (rest : List σ) (ps : List (List Part)) (hU : AllU sem rest ps) :
    compLeftAux ops st c rest (sufsP ps) now = .ok (⟨c :: rest, sufsP ps, st⟩, partsLeft (p ++ ps.flatten)) := by
  subst hst
  have hl := sem.left_U hc now
  have hpg := partsLeft_ge p
  match rest, ps, hU with
  | [], [], _ =>
    rw [compLeftAux]
    simp [hl, bind, Except.bind, pure, Except.pure]
  | h :: t, q :: qs, _ =>
    have hqg := partsLeft_ge (q ++ qs.flatten)
    rw [compLeftAux_cons]
    simp only [hl, bind, Except.bind, sufsP_head, pure, Except.pure, combineLeft, List.flatten_cons]
    rw [partsLeft_append p (q ++ qs.flatten)]
    generalize partsLeft (q ++ qs.flatten) = L at *
    by_cases hz : partsLeft p = 0
    · simp only [hz, beq_self_eq_true, if_true]
      by_cases hk : L < 0
      · have : ¬ L ≥ 0 := by omega
        simp [hk, this]
      · have : L ≥ 0 := by omega
        simp [hk, this]
    · have hbz : (partsLeft p == 0) = false := by simpa using hz
      simp only [hbz, Bool.false_eq_true, if_false]
      by_cases hneg : partsLeft p < 0
      · simp [hneg]
      · simp only [hneg, if_false, false_or]

def compSem : Sem (compOps ops) where
  R := compR sem
  U := compU sem
  R_ne := by
    rintro s segs clk ⟨c, rest, dead, segsH, ps, rfl, hR, _, _, rfl⟩
    have := sem.R_ne hR
    simp [this]
  U_ne := by
    rintro s parts ⟨c, rest, p, ps, rfl, hc, _, rfl⟩
    have := sem.U_ne hc
    simp [this]
  R_mono := by
    rintro s segs clk clk' ⟨c, rest, dead, segsH, ps, rfl, hR, hU, hD, rfl⟩ hle
    exact ⟨c, rest, dead, segsH, ps, rfl, sem.R_mono hR hle, hU, dead_mono hD hle, rfl⟩
  next_R := by
    rintro s segs clk ⟨c, rest, dead, segsH, ps, rfl, hR, hU, hD, rfl⟩ now hle
    exact compNextAux_spec sem now rest ps c dead segsH clk hR hU hD hle
  left_R := by
    rintro s segs clk ⟨c, rest, dead, segsH, ps, rfl, hR, hU, hD, rfl⟩ now hle
    exact compLeftAux_spec sem now rest ps c dead segsH clk hR hU hD hle
  start_R := by
    rintro s segs clk ⟨c, rest, dead, segsH, ps, rfl, hR, hU, hD, rfl⟩ t
    simp [compOps, compStart, sem.start_R hR t, bind, Except.bind]
  start_U := by
    rintro s parts ⟨c, rest, p, ps, rfl, hc, hU, rfl⟩ t
    obtain ⟨c1, hs, hR⟩ := sem.start_U hc t
    refine ⟨⟨c1 :: rest, sufsP ps, true⟩, ?_, fun clk => ⟨c1, rest, [], inst p t, ps, rfl, hR clk, hU, trivial, ?_⟩⟩
    · simp [compOps, compStart, hs, bind, Except.bind, pure, Except.pure]
    · simp [inst_append, finOf_inst0 t (sem.U_ne hc)]
  next_U := by
    rintro s parts ⟨c, rest, p, ps, rfl, hc, hU, rfl⟩ now
    obtain ⟨c1, hs, hn⟩ := sem.next_U hc now
    refine ⟨⟨c1 :: rest, sufsP ps, true⟩, ?_, ?_⟩
    · simp [compOps, compStart, hs, bind, Except.bind, pure, Except.pure]
    · show compNextAux ops c rest (sufsP ps) now = compNextAux ops c1 rest (sufsP ps) now
      cases rest with
      | nil => rw [compNextAux, compNextAux, hn]
      | cons h t => rw [compNextAux_cons, compNextAux_cons, hn]
  left_U := by
    rintro s parts ⟨c, rest, p, ps, rfl, hc, hU, rfl⟩ now
    exact compLeftAux_U sem false rfl now c p hc rest ps hU
  once0_U := ⟨ops.once0, [], [.fin [] 0], [], rfl, sem.once0_U, trivial, by simp⟩

/-- parts lists → `leftAfter` as `NewComposite` computes it -/
def laOf : List (List Part) → List Int
  | [] => []
  | _ :: ps => sufsP ps

theorem mkLeftAfter_spec (now : Int) : ∀ (cs : List σ) (pss : List (List Part)), AllU sem cs pss →
    mkLeftAfter ops now cs = .ok (cs, laOf pss, partsLeft pss.flatten, decide (partsLeft pss.flatten < 0))
  | [], [], _ => by simp [mkLeftAfter, laOf, partsLeft, pure, Except.pure]
  | c :: rest, p :: ps, h => by
    have ih := mkLeftAfter_spec now rest ps h.2
    have hl := sem.left_U h.1 now
    have hpg := partsLeft_ge p
    have hqg := partsLeft_ge ps.flatten
    simp only [mkLeftAfter, ih, hl, bind, Except.bind, pure, Except.pure, List.flatten_cons, partsLeft_append]
    have hla : partsLeft ps.flatten :: laOf ps = laOf (p :: ps) := by
      cases ps <;> simp [laOf, sufsP, partsLeft]
    rw [hla]
    by_cases hneg : partsLeft p < 0
    · simp [hneg]
    · simp only [hneg, if_false, false_or]
      by_cases hq : partsLeft ps.flatten < 0
      · have : partsLeft ps.flatten = -1 := by omega
        simp [hq, this]
      · have : ¬ partsLeft p + partsLeft ps.flatten < 0 := by omega
        simp [hq, this]; omega
  | [], _ :: _, h => absurd h (by simp [AllU])
  | _ :: _, [], h => absurd h (by simp [AllU])

end comp

/-! ### sums and levels -/

def sumSem {α β : Type} {a : Ops α} {b : Ops β} (fa : Sem a) (fb : Sem b) : Sem (sumOps a b) where
  R s segs clk := match s with | .inl x => fa.R x segs clk | .inr y => fb.R y segs clk
  U s parts := match s with | .inl x => fa.U x parts | .inr y => fb.U y parts
  R_ne := by
    intro s segs clk h
    cases s with
    | inl x => exact fa.R_ne h
    | inr y => exact fb.R_ne h
  U_ne := by
    intro s parts h
    cases s with
    | inl x => exact fa.U_ne h
    | inr y => exact fb.U_ne h
  R_mono := by
    intro s segs clk clk' h hle
    cases s with
    | inl x => exact fa.R_mono h hle
    | inr y => exact fb.R_mono h hle
  next_R := by
    intro s segs clk h now hle
    cases s with
    | inl x => obtain ⟨x', hn, hr⟩ := fa.next_R h now hle; exact ⟨.inl x', by simp [sumOps, hn, Except.map], hr⟩
    | inr y => obtain ⟨y', hn, hr⟩ := fb.next_R h now hle; exact ⟨.inr y', by simp [sumOps, hn, Except.map], hr⟩
  left_R := by
    intro s segs clk h now hle
    cases s with
    | inl x => obtain ⟨x', hn, hr⟩ := fa.left_R h now hle; exact ⟨.inl x', by simp [sumOps, hn, Except.map], hr⟩
    | inr y => obtain ⟨y', hn, hr⟩ := fb.left_R h now hle; exact ⟨.inr y', by simp [sumOps, hn, Except.map], hr⟩
  start_R := by
    intro s segs clk h t
    cases s with
    | inl x => simp [sumOps, fa.start_R h t, Except.map]
    | inr y => simp [sumOps, fb.start_R h t, Except.map]
  start_U := by
    intro s parts h t
    cases s with
    | inl x => obtain ⟨x', hs, hr⟩ := fa.start_U h t; exact ⟨.inl x', by simp [sumOps, hs, Except.map], hr⟩
    | inr y => obtain ⟨y', hs, hr⟩ := fb.start_U h t; exact ⟨.inr y', by simp [sumOps, hs, Except.map], hr⟩
  next_U := by
    intro s parts h now
    cases s with
    | inl x => obtain ⟨x', hs, hn⟩ := fa.next_U h now; exact ⟨.inl x', by simp [sumOps, hs, Except.map], by simp [sumOps, hn]⟩
    | inr y => obtain ⟨y', hs, hn⟩ := fb.next_U h now; exact ⟨.inr y', by simp [sumOps, hs, Except.map], by simp [sumOps, hn]⟩
  left_U := by
    intro s parts h now
    cases s with
    | inl x => simp [sumOps, fa.left_U h now, Except.map]
    | inr y => simp [sumOps, fb.left_U h now, Except.map]
  once0_U := fa.once0_U

/-- every nesting depth -/
def lvlSem : (d : Nat) → Sem (lvlOps d)
  | 0 => leafSem
  | d + 1 => sumSem (lvlSem d) (compSem (lvlSem d))

/-- `NewComposite` of unstarted parts (0, 1 or more of them) is the unstarted chain of those parts -/
theorem newComposite_sem {σ : Type} {ops : Ops σ} (sem : Sem ops) (now : Int) (cs : List σ) (pss : List (List Part))
    (h : AllU sem cs pss) :
    ∃ s, newComposite ops now cs = .ok s ∧
      (sumSem sem (compSem sem)).U s (match pss.flatten with | [] => [.fin [] 0] | ps => ps) := by
  match cs, pss, h with
  | [], [], _ => exact ⟨.inl ops.once0, rfl, sem.once0_U⟩
  | [c], [p], h =>
    refine ⟨.inl c, rfl, ?_⟩
    have hp := sem.U_ne h.1
    show sem.U c _
    simp only [List.flatten_cons, List.flatten_nil, List.append_nil]
    cases p with
    | nil => exact absurd rfl hp
    | cons x xs => exact h.1
  | c1 :: c2 :: rest, p1 :: p2 :: ps, h =>
    have hp := sem.U_ne h.1
    refine ⟨.inr ⟨c1 :: c2 :: rest, sufsP (p2 :: ps), false⟩, ?_, ?_⟩
    · simp [newComposite, mkLeftAfter_spec sem now _ _ h, bind, Except.bind, pure, Except.pure, laOf]
    · show compU sem _ _
      refine ⟨c1, c2 :: rest, p1, p2 :: ps, rfl, h.1, h.2, ?_⟩
      cases p1 with
      | nil => exact absurd rfl hp
      | cons x xs => simp

/-! ### one caller, any sequence of calls -/

/-- the object `s` stands for the abstract object `A` from clock `clk` on -/
def Rel {σ : Type} {ops : Ops σ} (sem : Sem ops) (s : σ) (A : Abs) (clk : Int) : Prop :=
  match A with
  | .unstarted parts => sem.U s parts
  | .running segs => sem.R s segs clk

theorem seq_refines {σ : Type} {ops : Ops σ} (sem : Sem ops) : ∀ (l : List (SOp × Int)) (s : σ) (A : Abs) (clk : Int),
    Rel sem s A clk → ClockSeq clk l → seqRun ops s l = absRun A l
  | [], _, _, _, _, _ => rfl
  | (.start t, now) :: r, s, A, clk, h, hc => by
      cases A with
      | unstarted parts =>
        obtain ⟨s', hs, hR⟩ := sem.start_U h t
        simp only [seqRun, absRun, hs, absStart]
        rw [seq_refines sem r s' (.running (inst parts t)) now (hR now) hc.2]
      | running segs => simp [seqRun, absRun, sem.start_R h t, absStart]
  | (.next, now) :: r, s, A, clk, h, hc => by
      cases A with
      | unstarted parts =>
        obtain ⟨s1, hs1, hn1⟩ := sem.next_U h now
        obtain ⟨s1', hs1', hR1⟩ := sem.start_U h now
        rw [hs1] at hs1'; cases hs1'
        obtain ⟨s', hn, hR'⟩ := sem.next_R (hR1 now) now (Int.le_refl _)
        simp only [seqRun, absRun, hn1, hn, absNext, Abs.segsAt]
        rw [seq_refines sem r s' (.running (segNext (inst parts now) now).1) now hR' hc.2]
      | running segs =>
        obtain ⟨s', hn, hR'⟩ := sem.next_R h now hc.1
        simp only [seqRun, absRun, hn, absNext, Abs.segsAt]
        rw [seq_refines sem r s' (.running (segNext segs now).1) now hR' hc.2]
  | (.left, now) :: r, s, A, clk, h, hc => by
      cases A with
      | unstarted parts =>
        simp only [seqRun, absRun, sem.left_U h now, absLeft]
        rw [seq_refines sem r s (.unstarted parts) now h hc.2]
      | running segs =>
        obtain ⟨s', hl, hR'⟩ := sem.left_R h now hc.1
        simp only [seqRun, absRun, hl, absLeft]
        rw [seq_refines sem r s' (.running segs) now hR' hc.2]

/-! ### every tree -/

theorem flat_ne : ∀ t : Tree, flat t ≠ []
  | .fin _ _ => by simp [flat]
  | .unl _ => by simp [flat]
  | .comp cs => by
      simp only [flat]
      split
      · simp
      · rename_i h; simpa using h

mutual
/-- **every schedule tree refines the flat succession of its leaf parts** — the object `NewComposite` & co. build
for it (at any level that is deep enough) exists and is the unstarted schedule `flat t`. -/
theorem build_ok (now : Int) : ∀ (d : Nat) (t : Tree), t.depth ≤ d →
    ∃ s, build now d t = .ok s ∧ (lvlSem d).U s (flat t)
  | 0, .fin offs dur, _ => ⟨Leaf.fin offs dur 0 none, by simp [build, pure, Except.pure], by simp [lvlSem, leafSem, leafU, flat]⟩
  | 0, .unl dur, _ => ⟨Leaf.unl dur none, by simp [build, pure, Except.pure], by simp [lvlSem, leafSem, leafU, flat]⟩
  | 0, .comp cs, h => by simp [Tree.depth] at h
  | d + 1, .comp cs, h => by
      have hd : depthList cs ≤ d := by simp only [Tree.depth] at h; omega
      obtain ⟨kids, pss, hk, hU, hfl⟩ := buildList_ok now d cs hd
      obtain ⟨s, hs, hU'⟩ := newComposite_sem (lvlSem d) now kids pss hU
      refine ⟨s, by simp only [build, hk, bind, Except.bind]; exact hs, ?_⟩
      simp only [flat, ← hfl]
      exact hU'
  | d + 1, .fin offs dur, _ => by
      obtain ⟨x, hx, hU⟩ := build_ok now d (.fin offs dur) (by simp [Tree.depth])
      exact ⟨.inl x, by simp [build, hx, bind, Except.bind, pure, Except.pure], hU⟩
  | d + 1, .unl dur, _ => by
      obtain ⟨x, hx, hU⟩ := build_ok now d (.unl dur) (by simp [Tree.depth])
      exact ⟨.inl x, by simp [build, hx, bind, Except.bind, pure, Except.pure], hU⟩
theorem buildList_ok (now : Int) : ∀ (d : Nat) (ts : List Tree), depthList ts ≤ d →
    ∃ cs pss, buildList now d ts = .ok cs ∧ AllU (lvlSem d) cs pss ∧ pss.flatten = flatList ts
  | d, [], _ => ⟨[], [], by simp [buildList, pure, Except.pure], trivial, by simp [flatList]⟩
  | d, t :: ts, h => by
      have h1 : t.depth ≤ d := by simp only [depthList] at h; omega
      have h2 : depthList ts ≤ d := by simp only [depthList] at h; omega
      obtain ⟨x, hx, hUx⟩ := build_ok now d t h1
      obtain ⟨xs, pss, hxs, hU, hfl⟩ := buildList_ok now d ts h2
      exact ⟨x :: xs, flat t :: pss, by simp [buildList, hx, hxs, bind, Except.bind, pure, Except.pure],
        ⟨hUx, hU⟩, by simp [flatList, hfl]⟩
end

theorem build_U (now : Int) (d : Nat) (t : Tree) (s : Lvl d) (hd : t.depth ≤ d) (h : build now d t = .ok s) :
    (lvlSem d).U s (flat t) := by
  obtain ⟨s', hs', hU⟩ := build_ok now d t hd
  rw [h] at hs'; cases hs'; exact hU

/-- a composite with two or more children is built as a composite node (not collapsed) -/
theorem build_inr (now : Int) (c1 c2 : Tree) (cs : List Tree) (d : Nat) (hd : (Tree.comp (c1 :: c2 :: cs)).depth ≤ d + 1) :
    ∃ c, build now (d + 1) (.comp (c1 :: c2 :: cs)) = .ok (.inr c) := by
  have h0 : depthList (c1 :: c2 :: cs) ≤ d := by simp only [Tree.depth] at hd; omega
  have h1 : c1.depth ≤ d := by simp only [depthList] at h0; omega
  have h2 : c2.depth ≤ d := by simp only [depthList] at h0; omega
  have h3 : depthList cs ≤ d := by simp only [depthList] at h0; omega
  obtain ⟨x1, hx1, hU1⟩ := build_ok now d c1 h1
  obtain ⟨x2, hx2, hU2⟩ := build_ok now d c2 h2
  obtain ⟨xs, pss, hxs, hU, _⟩ := buildList_ok now d cs h3
  have hall : AllU (lvlSem d) (x1 :: x2 :: xs) (flat c1 :: flat c2 :: pss) := ⟨hU1, hU2, hU⟩
  refine ⟨⟨x1 :: x2 :: xs, laOf (flat c1 :: flat c2 :: pss), false⟩, ?_⟩
  simp only [build, buildList, hx1, hx2, hxs, bind, Except.bind, pure, Except.pure, newComposite,
    mkLeftAfter_spec (lvlSem d) now _ _ hall]
  rfl

end Pandora.Proofs.C02Sem
