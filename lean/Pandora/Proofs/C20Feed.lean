/-
C20 — the grpc/json provider's reading loop delivers exactly the stateless description: helper lemmas.
-/
import Pandora.Model.C20Feed

namespace Pandora.Proofs.C20Feed
open Pandora.Model.C20

/-- what is left of a limit after `n` ammo -/
def takeRem (limit n : Nat) (l : List Entry) : List Entry := if limit == 0 then l else l.take (limit - n)

/-- the ammo of the harmless prefix of a list of lines -/
def items (cfg : ProvCfg) (raws : List Raw) : List Entry := (raws.takeWhile (rawOk cfg)).filterMap (itemOf cfg)

/-! ### the loop body, line by line -/

theorem action_eq (cfg : ProvCfg) (pooled : Entry) (r : Raw) :
    action cfg pooled r =
      (if rawOk cfg r then (match itemOf cfg r with | some e => .deliver e | none => .skip)
       else .stop (match r with | .long => .scan | _ => .decode)) := by
  cases r with
  | long => simp [action, rawOk]
  | bad =>
    by_cases hc : cfg.coe = true
    · by_cases hch : isChosen invalidEntry.tag cfg.chosen = true <;> simp [action, rawOk, itemOf, hc, hch]
    · simp [action, rawOk, hc]
  | line l =>
    have : decodeAmmo pooled l = unmarshalInto zeroEntry l := rfl
    by_cases hch : isChosen (unmarshalInto zeroEntry l).tag cfg.chosen = true <;>
      simp [action, rawOk, itemOf, this, hch]

theorem isLong_not_ok (cfg : ProvCfg) (r : Raw) (h : isLong r = true) : rawOk cfg r = false := by
  cases r <;> simp_all [isLong, rawOk]

/-! ### one pass -/

theorem scanPass_spec (cfg : ProvCfg) : ∀ (raws : List Raw) (pooled : Entry) (n : Nat),
    (scanPass cfg raws pooled n).1 = takeRem cfg.limit n (items cfg raws) ∧
    (scanPass cfg raws pooled n).2.1 = n + (scanPass cfg raws pooled n).1.length ∧
    ((scanPass cfg raws pooled n).2.2 = .none →
      (cfg.limit ≠ 0 ∧ (scanPass cfg raws pooled n).2.1 ≥ cfg.limit) ∨ raws.all (rawOk cfg) = true) ∧
    ((scanPass cfg raws pooled n).2.2 ≠ .none → raws.all (rawOk cfg) = false)
  | [], pooled, n => by
    simp [scanPass, takeRem, items]
  | r :: rs, pooled, n => by
    unfold scanPass
    by_cases hl : isLong r = true
    · have hok := isLong_not_ok cfg r hl
      simp only [hl, if_true]
      refine ⟨?_, by simp, by simp, by simp [hok]⟩
      simp [takeRem, items, List.takeWhile_cons, hok]
    · simp only [hl, Bool.false_eq_true, if_false]
      by_cases hlim : (cfg.limit != 0 && decide (n ≥ cfg.limit)) = true
      · simp only [hlim, if_true]
        have h0 : cfg.limit ≠ 0 ∧ n ≥ cfg.limit := by simpa using hlim
        refine ⟨?_, by simp, ?_, by simp⟩
        · have : cfg.limit - n = 0 := by omega
          simp [takeRem, h0.1, this]
        · intro _; exact Or.inl ⟨h0.1, h0.2⟩
      · simp only [hlim, Bool.false_eq_true, if_false]
        rw [action_eq]
        by_cases hok : rawOk cfg r = true
        · simp only [hok, if_true]
          cases hi : itemOf cfg r with
          | none =>
            simp only
            obtain ⟨h1, h2, h3, h4⟩ := scanPass_spec cfg rs pooled n
            refine ⟨?_, h2, ?_, ?_⟩
            · rw [h1]; simp [items, List.takeWhile_cons, hok, hi]
            · intro hn
              rcases h3 hn with h | h
              · exact Or.inl h
              · exact Or.inr (by simp [hok, h])
            · intro hn; simpa [hok] using h4 hn
          | some e =>
            simp only
            obtain ⟨h1, h2, h3, h4⟩ := scanPass_spec cfg rs e (n + 1)
            refine ⟨?_, ?_, ?_, ?_⟩
            · rw [h1]
              by_cases hz : cfg.limit = 0
              · simp [takeRem, items, List.takeWhile_cons, hok, hi, hz]
              · have hlt : n < cfg.limit := by
                  have : ¬ (cfg.limit ≠ 0 ∧ n ≥ cfg.limit) := by simpa using hlim
                  omega
                have : cfg.limit - n = (cfg.limit - (n + 1)) + 1 := by omega
                simp [takeRem, items, List.takeWhile_cons, hok, hi, hz, this, List.take_succ_cons]
            · rw [h2]; simp; omega
            · intro hn
              rcases h3 hn with h | h
              · exact Or.inl h
              · exact Or.inr (by simp [hok, h])
            · intro hn; simpa [hok] using h4 hn
        · have hok' : rawOk cfg r = false := by simpa using hok
          simp only [hok', Bool.false_eq_true, if_false]
          refine ⟨?_, by simp, ?_, by simp [hok']⟩
          · simp [takeRem, items, List.takeWhile_cons, hok']
          · intro hn
            cases r <;> simp_all [rawOk]

/-! ### lists -/

theorem takeWhile_append_all {α} (p : α → Bool) (l m : List α) (h : l.all p = true) :
    (l ++ m).takeWhile p = l ++ m.takeWhile p := by
  induction l with
  | nil => rfl
  | cons a l ih =>
    simp only [List.all_cons, Bool.and_eq_true] at h
    simp [List.takeWhile_cons, h.1, ih h.2]

theorem takeWhile_append_not_all {α} (p : α → Bool) (l m : List α) (h : l.all p = false) :
    (l ++ m).takeWhile p = l.takeWhile p := by
  induction l with
  | nil => simp at h
  | cons a l ih =>
    by_cases ha : p a = true
    · have : l.all p = false := by simpa [ha] using h
      simp [List.takeWhile_cons, ha, ih this]
    · simp [List.takeWhile_cons, ha]

theorem takeWhile_all {α} (p : α → Bool) (l : List α) (h : l.all p = true) : l.takeWhile p = l := by
  have := takeWhile_append_all p l [] h
  simpa using this

/-- the ammo of the harmless prefix of `raws ++ more` -/
theorem items_append_all (cfg : ProvCfg) (raws more : List Raw) (h : raws.all (rawOk cfg) = true) :
    items cfg (raws ++ more) = items cfg raws ++ items cfg more := by
  simp [items, takeWhile_append_all _ _ _ h, takeWhile_all _ _ h]

theorem items_append_not_all (cfg : ProvCfg) (raws more : List Raw) (h : raws.all (rawOk cfg) = false) :
    items cfg (raws ++ more) = items cfg raws := by
  simp [items, takeWhile_append_not_all _ _ _ h]

/-- `items` of a longer list of lines extends `items` of a prefix -/
theorem items_prefix (cfg : ProvCfg) (raws more : List Raw) : ∃ t, items cfg (raws ++ more) = items cfg raws ++ t := by
  by_cases h : raws.all (rawOk cfg) = true
  · exact ⟨_, items_append_all cfg raws more h⟩
  · exact ⟨[], by simp [items_append_not_all cfg raws more (by simpa using h)]⟩

/-- the lines of `k` passes, one after another -/
def passesRaws (raws : List Raw) (k : Nat) : List Raw := (List.replicate k raws).flatten

theorem passesRaws_succ (raws : List Raw) (k : Nat) : passesRaws raws (k + 1) = raws ++ passesRaws raws k := by
  simp [passesRaws, List.replicate_succ]

theorem takeRem_prefix (limit n : Nat) (a t : List Entry) (hz : limit ≠ 0) (h : n + (takeRem limit n a).length ≥ limit) :
    takeRem limit n (a ++ t) = takeRem limit n a := by
  simp only [takeRem, hz, beq_iff_eq, if_false] at h ⊢
  have hlen : (a.take (limit - n)).length = min (limit - n) a.length := List.length_take
  have : limit - n ≤ a.length := by omega
  rw [List.take_append_of_le_length this]

/-! ### all passes -/

/-- with a configured number of passes, `fuel` = passes still to do: the ammo delivered from here on is the ammo of the
harmless prefix of the remaining passes' lines, cut at the limit -/
theorem runPasses_spec (cfg : ProvCfg) (raws : List Raw) (hp : cfg.passes ≠ 0) :
    ∀ (fuel passNum : Nat) (pooled : Entry) (n : Nat), passNum + fuel = cfg.passes → fuel ≠ 0 →
      (runPasses cfg raws fuel passNum pooled n).1 = takeRem cfg.limit n (items cfg (passesRaws raws fuel))
  | 0, _, _, _, _, h0 => absurd rfl h0
  | fuel + 1, passNum, pooled, n, hsum, _ => by
    obtain ⟨h1, h2, h3, h4⟩ := scanPass_spec cfg raws pooled n
    unfold runPasses
    simp only
    rw [passesRaws_succ]
    by_cases hst : (scanPass cfg raws pooled n).2.2 = .none
    · simp only [hst, bne_self_eq_false, Bool.false_eq_true, if_false]
      by_cases hlim : (cfg.limit != 0 && decide ((scanPass cfg raws pooled n).2.1 ≥ cfg.limit)) = true
      · -- the limit is reached inside this pass
        simp only [hlim, if_true]
        have h0 : cfg.limit ≠ 0 ∧ (scanPass cfg raws pooled n).2.1 ≥ cfg.limit := by simpa using hlim
        obtain ⟨t, ht⟩ := items_prefix cfg raws (passesRaws raws fuel)
        rw [ht, h1]
        rw [h2, h1] at h0
        exact (takeRem_prefix cfg.limit n _ t h0.1 h0.2).symm
      · simp only [hlim, Bool.false_eq_true, if_false]
        have hall : raws.all (rawOk cfg) = true := by
          rcases h3 hst with h | h
          · exact absurd (by simpa using h) (by simpa using hlim)
          · exact h
        by_cases hlast : (cfg.passes != 0 && decide (passNum + 1 ≥ cfg.passes)) = true
        · -- this was the last pass
          simp only [hlast, if_true]
          have hf : fuel = 0 := by
            have : passNum + 1 ≥ cfg.passes := by simpa [hp] using hlast
            omega
          subst hf
          simp [passesRaws, h1]
        · simp only [hlast, Bool.false_eq_true, if_false]
          have hf : fuel ≠ 0 := by
            have : ¬ (passNum + 1 ≥ cfg.passes) := by simpa [hp] using hlast
            omega
          rw [items_append_all cfg raws _ hall]
          -- nothing cut off in this pass
          have hfull : (scanPass cfg raws pooled n).1 = items cfg raws := by
            rw [h1]
            by_cases hz : cfg.limit = 0
            · simp [takeRem, hz]
            · have hlt : ¬ ((scanPass cfg raws pooled n).2.1 ≥ cfg.limit) := by simpa [hz] using hlim
              rw [h2, h1] at hlt
              simp only [takeRem, hz, beq_iff_eq, if_false, List.length_take] at hlt ⊢
              apply List.take_of_length_le
              omega
          by_cases hzero : ((scanPass cfg raws pooled n).2.1 == 0) = true
          · -- a whole pass without ammo: later passes would deliver nothing either
            simp only [hzero, if_true]
            have hn : (scanPass cfg raws pooled n).2.1 = 0 := by simpa using hzero
            rw [h2] at hn
            have hnil : items cfg raws = [] := by
              rw [← hfull]; exact List.eq_nil_of_length_eq_zero (by omega)
            have hrest : ∀ k, items cfg (passesRaws raws k) = [] := by
              intro k
              induction k with
              | zero => simp [passesRaws, items]
              | succ k ih => rw [passesRaws_succ, items_append_all cfg raws _ hall, hnil, ih]; rfl
            rw [hfull, hnil, hrest]
            simp [takeRem]
          · simp only [hzero, Bool.false_eq_true, if_false]
            have ih := runPasses_spec cfg raws hp fuel (passNum + 1) ((scanPass cfg raws pooled n).1.getLast?.getD pooled)
              (scanPass cfg raws pooled n).2.1 (by omega) hf
            rw [ih, hfull, h2, hfull]
            by_cases hz : cfg.limit = 0
            · simp [takeRem, hz]
            · simp only [takeRem, hz, beq_iff_eq, if_false]
              rw [List.take_append]
              have hlt : ¬ ((scanPass cfg raws pooled n).2.1 ≥ cfg.limit) := by simpa [hz] using hlim
              rw [h2, hfull] at hlt
              have : (items cfg raws).take (cfg.limit - n) = items cfg raws := List.take_of_length_le (by omega)
              rw [this]
              congr 2
              omega
    · -- the provider stops inside this pass
      have hst' : ((scanPass cfg raws pooled n).2.2 != Stop.none) = true := by simpa using hst
      simp only [hst', if_true]
      rw [items_append_not_all cfg raws _ (h4 hst), h1]


/-! ### the scenario provider's call registry -/

theorem namesDistinct_filter (p : CallDef → Bool) : ∀ (l : List CallDef), namesDistinct l = true → namesDistinct (l.filter p) = true
  | [], _ => rfl
  | cd :: rest, h => by
    simp only [namesDistinct, Bool.and_eq_true, Bool.not_eq_true', List.any_eq_false] at h
    by_cases hp : p cd = true
    · simp only [List.filter_cons, hp, if_true, namesDistinct, Bool.and_eq_true, Bool.not_eq_true', List.any_eq_false]
      refine ⟨?_, namesDistinct_filter p rest h.2⟩
      intro x hx
      exact h.1 x (List.mem_filter.mp hx).1
    · simp only [List.filter_cons, hp, Bool.false_eq_true, if_false]
      exact namesDistinct_filter p rest h.2

theorem keepFirst_distinct : ∀ (l : List CallDef), namesDistinct (keepFirst l) = true
  | [] => rfl
  | cd :: rest => by
    simp only [keepFirst, namesDistinct, Bool.and_eq_true, Bool.not_eq_true', List.any_eq_false]
    refine ⟨?_, namesDistinct_filter _ _ (keepFirst_distinct rest)⟩
    intro x hx
    have := (List.mem_filter.mp hx).2
    simpa using this

theorem find_filter_ne (l : List CallDef) (a n : String) (h : (a == n) = false) :
    (l.filter (·.name != a)).find? (·.name == n) = l.find? (·.name == n) := by
  induction l with
  | nil => rfl
  | cons x xs ih =>
    by_cases hx : (x.name == n) = true
    · have hxa : (x.name != a) = true := by
        have h1 : x.name = n := by simpa using hx
        have h2 : ¬ a = n := by simpa using h
        simp only [bne_iff_ne, ne_eq]
        intro h3
        exact h2 (h3 ▸ h1)
      simp [List.filter_cons, hxa, List.find?_cons, hx]
    · by_cases hxa : (x.name != a) = true
      · simp [List.filter_cons, hxa, List.find?_cons, hx, ih]
      · simp [List.filter_cons, hxa, List.find?_cons, hx, ih]

/-- looking a name up in `keepFirst l` gives the FIRST definition of that name in `l` -/
theorem keepFirst_find : ∀ (l : List CallDef) (n : String), (keepFirst l).find? (·.name == n) = l.find? (·.name == n)
  | [], _ => rfl
  | cd :: rest, n => by
    by_cases h : (cd.name == n) = true
    · simp [keepFirst, List.find?_cons, h]
    · have h' : (cd.name == n) = false := by simpa using h
      simp only [keepFirst, List.find?_cons, h']
      rw [find_filter_ne _ _ _ h', keepFirst_find rest n]

end Pandora.Proofs.C20Feed
