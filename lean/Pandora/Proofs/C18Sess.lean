/-
C18 — sessions: several registrations in one registry, any interleaving of Register / New / NewFactory / calls of the
factories handed out / Lookup.

Every operation that reaches a registration is one of the three explicit forms of Proofs/C18 (`callSpec`, `facSpec`,
`createSpec`) applied to the CURRENT state of that registration's slot; `SlotOp` collects what the session proofs need
of such an operation, whichever form it is.
-/
import Pandora.Proofs.C18Hist
import Pandora.Spec.C18Sess

set_option linter.unusedSimpArgs false
set_option linter.unusedVariables false

namespace Pandora.Proofs.C18Sess
open Pandora.Model.C18 Pandora.Model.C18Sess Pandora.Spec.C18 Pandora.Spec.C18Sess Pandora.Proofs.C18

/-! ### lookup -/

theorem findSlot_eq (slots : List Slot) (t : Nat) (n : String) :
    findSlot slots t n = resolve (slots.map (·.reg)) t n := by
  induction slots with
  | nil => rfl
  | cons s ss ih => simp only [findSlot, List.map_cons, resolve, ih]

theorem resolve_some {regs : List Reg} {t : Nat} {n : String} {i : Nat} (h : resolve regs t n = some i) :
    ∃ r, regs[i]? = some r ∧ r.ptype = t ∧ r.name = n := by
  induction regs generalizing i with
  | nil => simp [resolve] at h
  | cons r rs ih =>
    simp only [resolve] at h
    split at h
    · rename_i hc
      simp only [Option.some.injEq] at h
      subst h
      exact ⟨r, rfl, hc.1, hc.2⟩
    · cases hr : resolve rs t n with
      | none => simp [hr] at h
      | some j =>
        simp only [hr, Option.map_some, Option.some.injEq] at h
        subst h
        obtain ⟨r', h1, h2⟩ := ih hr
        exact ⟨r', by simpa using h1, h2⟩

theorem resolve_none {regs : List Reg} {t : Nat} {n : String} (h : resolve regs t n = none) :
    ∀ r ∈ regs, ¬ (r.ptype = t ∧ r.name = n) := by
  induction regs with
  | nil => simp
  | cons r rs ih =>
    simp only [resolve] at h
    split at h
    · simp at h
    · rename_i hc
      simp only [Option.map_eq_none_iff] at h
      intro r' hr'
      simp only [List.mem_cons] at hr'
      rcases hr' with rfl | hr'
      · exact hc
      · exact ih h r' hr'

/-- `resolve` finds the FIRST registration for (t, n); when registrations are pairwise different in (type, name) it is
the only one -/
theorem resolve_first {regs : List Reg} {t : Nat} {n : String} {i : Nat} (h : resolve regs t n = some i) :
    ∀ j r, j < i → regs[j]? = some r → ¬ (r.ptype = t ∧ r.name = n) := by
  induction regs generalizing i with
  | nil => simp [resolve] at h
  | cons r rs ih =>
    simp only [resolve] at h
    split at h
    · simp only [Option.some.injEq] at h
      subst h
      intro j _ hj; omega
    · rename_i hc
      cases hr : resolve rs t n with
      | none => simp [hr] at h
      | some k =>
        simp only [hr, Option.map_some, Option.some.injEq] at h
        subst h
        intro j r' hj hr'
        cases j with
        | zero => simp at hr'; subst hr'; exact hc
        | succ j => exact ih hr j r' (by omega) (by simpa using hr')

/-! ### what the session proofs need of one operation on a slot -/

def facRf : Fac → Option RegFac
  | .directFactory rf => some rf
  | .wrapFactory rf _ => some rf
  | _ => none

structure SlotOp (fields : List Nat) (st : St) (inp : Input) (creation : Bool) (touched : Option Nat)
    (st' : St) (s : Step) (newFac : Option Fac) : Prop where
  next_le : st.next ≤ st'.next
  frame : inp.sh.dflt ≠ .shared → ∀ c, c < st.next → touched ≠ some c → st'.heap c = st.heap c
  mark : ∀ c, touched = some c → st'.heap c = st.heap c ∨ ∃ m : Int, st'.heap c = (markField, m) :: st.heap c
  spec : (if creation then createStepOk inp s else callStepOk inp s fields) = ""
  made : isMade s = newFac.isSome
  facOk : ∀ fac, newFac = some fac → FacOk inp.sh inp.form.numOut fac ∧
    (inp.sh.dflt ≠ .shared → ∀ rf, facRf fac = some rf →
      (∀ c, rf.cell = some c → st.next ≤ c ∧ c < st'.next) ∧
      SeenOk inp.sh inp.w (seenOf inp.sh.cfg rf.cell rf.copy st'.heap))
  alloc : gets inp creation = true →
    st'.next = st.next + 1 ∧ (∀ c, fillAddr? s = some c → c = st.next) ∧ (∀ c, ctorConf? s = some c → c = st.next)
  own : creation = false → owns inp = true → ∀ p c, s.res = .ok p → p.cell = some c →
    c = st.next ∧ st'.next = st.next + 1 ∧ (st'.heap c).get markField = p.serial

theorem registerOk_none {sh : Shape} (h : registerOk sh = true) (hc : sh.cfg = .none) : sh.dflt ≠ .shared := by
  obtain ⟨factory, cfg, ctorErr, factErr, iface, dflt⟩ := sh
  simp only at hc; subst hc
  cases dflt <;> simp [registerOk] at h ⊢

theorem callStepOk_intro {inp : Input} {s : Step} {fields : List Nat}
    (h1 : stepErrOk (inp.form == .facNoErr) s = true) (h1' : isMade s = false) (h2 : seenOk inp s fields = true)
    (h3 : percallApplies inp = true → freshCallOk inp.sh inp.w s = true)
    (h4 : onceApplies inp = true → onceCallOk s = true)
    (h5 : s.evs.map kindOf = callKindsBy fillFailed inp s) (h6 : inp.sh.cfg = .none → noAddr s = true) :
    callStepOk inp s fields = "" := by
  unfold callStepOk
  have g3 : (percallApplies inp && !freshCallOk inp.sh inp.w s) = false := by
    cases hp : percallApplies inp
    · rfl
    · simp [h3 hp]
  have g4 : (onceApplies inp && !onceCallOk s) = false := by
    cases hp : onceApplies inp
    · rfl
    · simp [h4 hp]
  have g6 : (inp.sh.cfg != .none || noAddr s) = true := by
    by_cases hc : inp.sh.cfg = .none
    · simp [h6 hc]
    · simp [hc]
  simp [h1, h1', h2, g3, g4, h5, g6]

theorem createStepOk_intro {inp : Input} {c : Step}
    (h1 : stepErrOk false c = true) (h1' : (isMade c || isErr c) = true)
    (h3 : percallApplies inp = true → c.evs = [])
    (h4 : onceApplies inp = true → onceCreateOk inp.sh inp.w c = true)
    (h5 : c.evs.map kindOf = createKindsBy fillFailed inp c) (h6 : inp.sh.cfg = .none → noAddr c = true) :
    createStepOk inp c = "" := by
  unfold createStepOk
  have g3 : (percallApplies inp && !(c.evs == [])) = false := by
    cases hp : percallApplies inp
    · rfl
    · simp [h3 hp]
  have g4 : (onceApplies inp && !onceCreateOk inp.sh inp.w c) = false := by
    cases hp : onceApplies inp
    · rfl
    · simp [h4 hp]
  have g6 : (inp.sh.cfg != .none || noAddr c) = true := by
    by_cases hc : inp.sh.cfg = .none
    · simp [h6 hc]
    · simp [hc]
  simp [h1, h1', g4, h5, g6]
  exact h3

/-- the executable configuration clause, from the statement about configurations -/
theorem seenOk_of {inp : Input} {s : Step} (fields : List Nat) (hreg : registerOk inp.sh = true)
    (h : inp.sh.dflt ≠ .shared → ∀ p, s.res = .ok p → SeenOk inp.sh inp.w p.seen) : seenOk inp s fields = true := by
  unfold seenOk
  cases hp : product? s with
  | none => rfl
  | some p =>
    have hres : s.res = .ok p := by
      unfold product? at hp
      split at hp
      · simp only [Option.some.injEq] at hp; subst hp; assumption
      · simp at hp
    by_cases hc : inp.sh.cfg = .none
    · simp only [hc, if_true, beq_iff_eq]
      exact (h (registerOk_none hreg hc) p hres).1 hc
    · simp only [hc, if_false, Bool.or_eq_true, beq_iff_eq, List.all_eq_true]
      by_cases hs : inp.sh.dflt = .shared
      · exact .inl hs
      · refine .inr fun f _ => ?_
        by_cases hf : f = markField
        · exact .inl hf
        · exact .inr ((h hs p hres).2 hc f hf)

theorem callSpec_next_le (sh : Shape) (w : World) (doGet vf pan : Bool) (st : St) :
    st.next ≤ (callSpec sh w doGet vf pan st).2.1 := by
  have h : st.next ≤ nextG sh doGet st.next := by unfold nextG; split <;> omega
  unfold callSpec
  simp only
  split
  · exact h
  · split
    · exact h
    · split
      · exact h
      · split <;> exact h

theorem createSpec_next_le (sh : Shape) (w : World) (n : Nat) (st : St) :
    st.next ≤ (createSpec sh w n st).2.1 := by
  have h : st.next ≤ nextG sh true st.next := by unfold nextG; split <;> omega
  unfold createSpec
  simp only
  split
  · split <;> exact Nat.le_refl _
  · split
    · exact h
    · split <;> exact h

theorem nonshared_sharedOk {sh : Shape} (w : World) (heap : Nat → Cfg) (hs : sh.dflt ≠ .shared) : SharedOk sh w heap :=
  fun h => absurd h hs

theorem res_of_product {s : Step} {p : Product} (h : s.res = .ok p) : product? s = some p := by
  unfold product?; rw [h]

theorem prodCell_of {s : Step} {p : Product} {c : Nat} (h : s.res = .ok p) (hc : p.cell = some c) : prodCell? s = some c := by
  simp [prodCell?, res_of_product h, hc]

/-- one call in the form `callSpec` (a `New`, or a call of a factory made from a component constructor) -/
theorem slotOp_callSpec (fields : List Nat) (inp : Input) (hreg : registerOk inp.sh = true) (doGet vf : Bool) (st st' : St) (s : Step)
    (h : (st'.heap, st'.next, s) = callSpec inp.sh inp.w doGet vf (inp.form == .facNoErr) st)
    (hd : doGet = true ↔ (inp.form = .component ∨ inp.sh.cfg ≠ .none))
    (hvf : vf = (inp.form == .component && inp.sh.factory))
    (hform : inp.form = .component ∨ inp.sh.factory = false) :
    SlotOp fields st inp false none st' s none := by
  have e1 : st'.heap = (callSpec inp.sh inp.w doGet vf (inp.form == .facNoErr) st).1 := congrArg (·.1) h
  have e2 : st'.next = (callSpec inp.sh inp.w doGet vf (inp.form == .facNoErr) st).2.1 := congrArg (·.2.1) h
  have e3 : s = (callSpec inp.sh inp.w doGet vf (inp.form == .facNoErr) st).2.2 := congrArg (·.2.2) h
  have hdn : doGet = true ∨ inp.sh.cfg = .none := by
    by_cases hc : inp.sh.cfg = .none
    · exact .inr hc
    · exact .inl (hd.mpr (.inr hc))
  have hvf' : doGet = true → inp.sh.cfg ≠ .none → vf = inp.sh.factory := by
    intro _ _
    rcases hform with hf | hf
    · simp [hvf, hf]
    · simp [hvf, hf]
  refine ⟨?_, ?_, ?_, ?_, ?_, ?_, ?_, ?_⟩
  · rw [e2]; exact callSpec_next_le _ _ _ _ _ _
  · intro hs c hc _
    rw [e1]; exact (callSpec_frame inp.sh inp.w doGet vf _ st hs).2 c hc
  · intro c hc; simp at hc
  · simp only [Bool.false_eq_true, if_false]
    obtain ⟨a1, a2⟩ := callSpec_err inp.sh inp.w doGet vf (inp.form == .facNoErr) st
    rw [← e3] at a1 a2
    refine callStepOk_intro a1 a2 ?_ ?_ ?_ ?_ ?_
    · refine seenOk_of fields hreg fun hs p hp => ?_
      rw [e3] at hp
      exact (callSpec_config inp.sh inp.w doGet vf _ st hdn (nonshared_sharedOk _ _ hs)).2 p hp
    · intro hp
      simp only [percallApplies, Bool.and_eq_true, bne_iff_ne, ne_eq, Bool.or_eq_true, beq_iff_eq,
        Bool.not_eq_true'] at hp
      have hdg : doGet = true := hd.mpr (.inr hp.1)
      subst hdg
      rw [e3]
      exact callSpec_freshCall_any inp.sh inp.w vf _ st hp.1 (hvf' rfl hp.1)
    · intro hp
      simp only [onceApplies, Bool.and_eq_true, bne_iff_ne, ne_eq] at hp
      rcases hform with hf | hf
      · exact absurd hf hp.2
      · rw [hf] at hp; simp at hp
    · rw [e3, callSpec_kinds, ← e3]
      by_cases hdg : doGet = true
      · have hrec : reconfigures inp = true := by
          rcases hd.mp hdg with hf | hc
          · simp [reconfigures, hf]
          · rcases hform with hf | hf
            · simp [reconfigures, hf]
            · simp [reconfigures, hf, hc]
        have hvf2 : (vf && !ctorFailed s) = (inp.sh.factory && !ctorFailed s) := by
          rcases hform with hf | hf
          · simp [hvf, hf]
          · simp [hvf, hf]
        simp [callKindsBy, hrec, hdg, hvf2]
      · simp only [Bool.not_eq_true] at hdg
        have hnc : ¬ (inp.form = .component ∨ inp.sh.cfg ≠ .none) := fun hh => by
          have := hd.mpr hh; rw [hdg] at this; exact absurd this (by simp)
        have hf1 : inp.form ≠ .component := fun hh => hnc (.inl hh)
        have hc1 : inp.sh.cfg = .none := by
          by_cases hc : inp.sh.cfg = .none
          · exact hc
          · exact absurd (.inr hc) hnc
        have hfa : inp.sh.factory = false := by
          rcases hform with hf | hf
          · exact absurd hf hf1
          · exact hf
        have hvff : vf = false := by simp [hvf, hfa]
        have hnf : fillFailed s = false := by
          rw [e3, hdg, hvff]
          unfold callSpec
          by_cases hcf : ctorFails inp.sh inp.w st.ctors = true <;> simp [hcf, fillFailed]
        simp [callKindsBy, reconfigures, hf1, hfa, hc1, hdg, hnf, hvff]
    · intro hc; rw [e3]; exact callSpec_noAddr inp.sh inp.w doGet vf _ st hc
  · rw [e3]; simpa using (callSpec_err inp.sh inp.w doGet vf (inp.form == .facNoErr) st).2
  · intro fac hfac; simp at hfac
  · intro hg
    simp only [gets, Bool.and_eq_true, bne_iff_ne, ne_eq, Bool.false_eq_true, if_false, Bool.or_eq_true, beq_iff_eq,
      Bool.not_eq_true'] at hg
    have hdg : doGet = true := hd.mpr (.inr hg.1.1)
    subst hdg
    obtain ⟨b1, b2, b3, _⟩ := callSpec_alloc inp.sh inp.w vf (inp.form == .facNoErr) st hg.1.1 hg.1.2
    rw [e2, e3]
    exact ⟨b1, b2, b3⟩
  · intro _ ho p c hp hcell
    simp only [owns, freshApplies, Bool.and_eq_true, bne_iff_ne, ne_eq, Bool.or_eq_true, beq_iff_eq,
      Bool.not_eq_true'] at ho
    have hdg : doGet = true := hd.mpr (.inr ho.1.1)
    subst hdg
    obtain ⟨b1, _, _, b4, _, b6⟩ := callSpec_alloc inp.sh inp.w vf (inp.form == .facNoErr) st ho.1.1 ho.1.2
    rw [e3] at hp
    refine ⟨b4 c (prodCell_of hp hcell), by rw [e2]; exact b1, ?_⟩
    rw [e1]; exact b6 p hp c hcell

theorem facSpec_mark (sh : Shape) (w : World) (rf : RegFac) (pan : Bool) (st : St) (c : Nat) :
    (facSpec sh w rf pan st).1 c = st.heap c ∨ ∃ m : Int, (facSpec sh w rf pan st).1 c = (markField, m) :: st.heap c := by
  unfold facSpec
  by_cases hff : factFails sh w st.facts = true
  · simp [hff]
  · simp only [hff]
    cases hk : sh.cfg <;> cases hr : rf.cell <;> simp only [markHeap, hk, hr] <;> try exact .inl rfl
    rename_i cr
    by_cases hcc : c = cr
    · subst hcc; exact .inr ⟨_, upd_same _ _ _⟩
    · exact .inl (upd_ne _ _ hcc)

/-- one call of a factory made from a factory constructor -/
theorem slotOp_facSpec (fields : List Nat) (inp : Input) (hreg : registerOk inp.sh = true) (rf : RegFac) (st st' : St) (s : Step)
    (h : (st'.heap, st'.next, s) = facSpec inp.sh inp.w rf (inp.form == .facNoErr) st)
    (hfa : inp.sh.factory = true) (hform : inp.form ≠ .component)
    (hI : inp.sh.dflt ≠ .shared → SeenOk inp.sh inp.w (seenOf inp.sh.cfg rf.cell rf.copy st.heap)) :
    SlotOp fields st inp false rf.cell st' s none := by
  have e1 : st'.heap = (facSpec inp.sh inp.w rf (inp.form == .facNoErr) st).1 := congrArg (·.1) h
  have e2 : st'.next = (facSpec inp.sh inp.w rf (inp.form == .facNoErr) st).2.1 := congrArg (·.2.1) h
  have e3 : s = (facSpec inp.sh inp.w rf (inp.form == .facNoErr) st).2.2 := congrArg (·.2.2) h
  obtain ⟨f1, f2⟩ := facSpec_frame inp.sh inp.w rf (inp.form == .facNoErr) st
  refine ⟨?_, ?_, ?_, ?_, ?_, ?_, ?_, ?_⟩
  · rw [e2, f1]; exact Nat.le_refl _
  · intro _ c _ hne
    rw [e1]; exact f2 c (fun hh => hne hh)
  · intro c _; rw [e1]; exact facSpec_mark _ _ _ _ _ _
  · simp only [Bool.false_eq_true, if_false]
    obtain ⟨a1, a2⟩ := facSpec_err inp.sh inp.w rf (inp.form == .facNoErr) st
    rw [← e3] at a1 a2
    refine callStepOk_intro a1 a2 ?_ ?_ ?_ ?_ ?_
    · refine seenOk_of fields hreg fun hs p hp => ?_
      rw [e3] at hp
      exact (facSpec_config inp.sh inp.w rf _ st (hI hs)).2 p hp
    · intro hp
      simp only [percallApplies, Bool.and_eq_true, bne_iff_ne, ne_eq, Bool.or_eq_true, beq_iff_eq,
        Bool.not_eq_true'] at hp
      rcases hp.2 with hf | hf
      · exact absurd hf hform
      · rw [hfa] at hf; simp at hf
    · intro _; rw [e3]; exact facSpec_once _ _ _ _ _
    · rw [e3, facSpec_kinds]
      simp [callKindsBy, reconfigures, hform, hfa]
    · intro _; rw [e3]; exact facSpec_noAddr _ _ _ _ _
  · rw [e3]; simpa using (facSpec_err inp.sh inp.w rf (inp.form == .facNoErr) st).2
  · intro fac hfac; simp at hfac
  · intro hg
    simp only [gets, Bool.and_eq_true, bne_iff_ne, ne_eq, Bool.false_eq_true, if_false, Bool.or_eq_true, beq_iff_eq,
      Bool.not_eq_true'] at hg
    rcases hg.2 with hf | hf
    · exact absurd hf hform
    · rw [hfa] at hf; simp at hf
  · intro _ ho
    simp only [owns, freshApplies, Bool.and_eq_true, bne_iff_ne, ne_eq, Bool.or_eq_true, beq_iff_eq,
      Bool.not_eq_true'] at ho
    rcases ho.2 with hf | hf
    · exact absurd hf hform
    · rw [hfa] at hf; simp at hf

set_option maxHeartbeats 1000000 in
/-- allocation facts of the creation of a factory from a factory constructor -/
theorem createSpec_alloc (sh : Shape) (w : World) (n : Nat) (st : St) (r : Res)
    (hc : sh.cfg ≠ .none) (hs : sh.dflt ≠ .shared) (hfa : sh.factory = true) :
    (createSpec sh w n st).2.1 = st.next + 1 ∧
    (∀ c, fillAddr? ⟨(createSpec sh w n st).2.2.1, r⟩ = some c → c = st.next) ∧
    (∀ c, ctorConf? ⟨(createSpec sh w n st).2.2.1, r⟩ = some c → c = st.next) := by
  unfold createSpec
  simp only [hfa, Bool.not_true, Bool.false_eq_true, if_false, cellOf_fresh hc hs, nextG_fresh hc hs]
  by_cases h1 : w.hasFill = true <;> by_cases h2 : w.fillFault st.fills = true <;>
  by_cases hcf : ctorFails sh w st.ctors = true <;> cases hk : sh.cfg <;>
  simp (config := { contextual := true }) [fillFails, hcf, h1, h2, hk, fillEvs, fillAddr?, ctorConf?, shownConf,
    cellOf, hs, List.findSome?_append, List.findSome?_cons, fillAddrEv, ctorConfEv] at hc ⊢

def resOf : Except Err Fac → Res
  | .error e => .err e
  | .ok _ => .made

def facOf : Except Err Fac → Option Fac
  | .error _ => none
  | .ok f => some f

/-- the creation of a factory -/
theorem slotOp_createSpec (fields : List Nat) (inp : Input) (hreg : registerOk inp.sh = true) (st st' : St)
    (evs : List Ev) (r : Except Err Fac)
    (h : (st'.heap, st'.next, evs, r) = createSpec inp.sh inp.w inp.form.numOut st)
    (hform : inp.form ≠ .component) :
    SlotOp fields st inp true none st' ⟨evs, resOf r⟩ (facOf r) := by
  have e1 : st'.heap = (createSpec inp.sh inp.w inp.form.numOut st).1 := congrArg (·.1) h
  have e2 : st'.next = (createSpec inp.sh inp.w inp.form.numOut st).2.1 := congrArg (·.2.1) h
  have e3 : evs = (createSpec inp.sh inp.w inp.form.numOut st).2.2.1 := congrArg (·.2.2.1) h
  have e4 : r = (createSpec inp.sh inp.w inp.form.numOut st).2.2.2 := congrArg (·.2.2.2) h
  refine ⟨?_, ?_, ?_, ?_, ?_, ?_, ?_, ?_⟩
  · rw [e2]; exact createSpec_next_le _ _ _ _
  · intro hs c hc _
    rw [e1]; exact (createSpec_frame inp.sh inp.w _ st hs).2.1 c hc
  · intro c hc; simp at hc
  · simp only [if_true]
    refine createStepOk_intro ?_ ?_ ?_ ?_ ?_ ?_
    · have := createSpec_err inp.sh inp.w inp.form.numOut st
      rw [← e4, ← e3] at this
      cases r <;> simpa [resOf] using this
    · cases r <;> simp [resOf, isMade, isErr]
    · intro hp
      simp only [percallApplies, Bool.and_eq_true, bne_iff_ne, ne_eq, Bool.or_eq_true, beq_iff_eq,
        Bool.not_eq_true'] at hp
      rcases hp.2 with hf | hf
      · exact absurd hf hform
      · show evs = []
        rw [e3]; simp [createSpec, hf, hp.1]
    · intro hp
      simp only [onceApplies, Bool.and_eq_true, bne_iff_ne, ne_eq] at hp
      show onceCreateOk inp.sh inp.w ⟨evs, resOf r⟩ = true
      rw [e3]; exact createSpec_once inp.sh inp.w _ st hp.1 _
    · show evs.map kindOf = createKindsBy fillFailed inp ⟨evs, resOf r⟩
      rw [e3, createSpec_kinds inp.sh inp.w inp.form.numOut st (resOf r)]
      rfl
    · intro hc
      show noAddr ⟨evs, resOf r⟩ = true
      rw [e3]; exact createSpec_noAddr inp.sh inp.w _ st _ hc
  · cases r <;> simp [resOf, facOf, isMade]
  · intro fac hfac
    have hr : r = .ok fac := by cases r <;> simp [facOf] at hfac ⊢; exact hfac
    have hq : (createSpec inp.sh inp.w inp.form.numOut st).2.2.2 = .ok fac := by rw [← e4, hr]
    have hok := createSpec_facOk inp.sh inp.w _ st fac hq
    refine ⟨hok, fun hs rf hrf => ?_⟩
    have hcase : (createSpec inp.sh inp.w inp.form.numOut st).2.2.2 = .ok (.directFactory rf) ∨
        (createSpec inp.sh inp.w inp.form.numOut st).2.2.2 = .ok (.wrapFactory rf inp.form.numOut) := by
      cases fac with
      | direct => simp [facRf] at hrf
      | wrapPlugin m => simp [facRf] at hrf
      | directFactory rf' => simp only [facRf, Option.some.injEq] at hrf; subst hrf; exact .inl hq
      | wrapFactory rf' m =>
        simp only [facRf, Option.some.injEq] at hrf; subst hrf
        obtain ⟨_, rfl⟩ := hok
        exact .inr hq
    refine ⟨fun c hc => ?_, ?_⟩
    · rw [e2]; exact (createSpec_frame inp.sh inp.w _ st hs).2.2 rf hcase c hc
    · rw [e1]; exact (createSpec_config inp.sh inp.w _ st (nonshared_sharedOk _ _ hs)).2 rf hcase
  · intro hg
    simp only [gets, Bool.and_eq_true, bne_iff_ne, ne_eq, if_true] at hg
    obtain ⟨b1, b2, b3⟩ := createSpec_alloc inp.sh inp.w inp.form.numOut st (resOf r) hg.1.1 hg.1.2 hg.2
    rw [e2, e3]
    exact ⟨b1, b2, b3⟩
  · intro hh; simp at hh

/-! ### the session state and the Spec's own book-keeping -/

def hInput (h : Handle) : Input := h.reg.input (formOf h.withErr) h.user h.hasFill

structure Rel (sst : SSt) (tr : Track) : Prop where
  regs : tr.regs = sst.slots.map (·.reg)
  handles : tr.handles = sst.handles.map fun h => (h.slot, hInput h)

def capt (f : Fac) : Option Nat := (facRf f).bind (·.cell)

def HandleOk (sst : SSt) (h : Handle) : Prop :=
  ∃ sl, sst.slots[h.slot]? = some sl ∧ sl.reg = h.reg ∧
    FacOk h.reg.sh (formOf h.withErr).numOut h.fac ∧
    (h.reg.sh.dflt ≠ .shared → ∀ rf, facRf h.fac = some rf →
      (∀ c, rf.cell = some c → c < sl.st.next) ∧
      SeenOk h.reg.sh h.world (seenOf h.reg.sh.cfg rf.cell rf.copy sl.st.heap))

structure Inv (sst : SSt) : Prop where
  slots : ∀ sl ∈ sst.slots, registerOk sl.reg.sh = true
  types : ∀ sl ∈ sst.slots, sst.types.contains sl.reg.ptype = true
  handles : ∀ h ∈ sst.handles, HandleOk sst h

theorem rel_empty : Rel SSt.empty Track.empty := ⟨rfl, rfl⟩
theorem inv_empty : Inv SSt.empty := ⟨by simp [SSt.empty], by simp [SSt.empty], by simp [SSt.empty]⟩

/-- the state after an operation on slot `i` -/
def slotExec (sst : SSt) (i : Nat) (sl : Slot) (st' : St) (newH : Option Handle) : SSt :=
  { types := sst.types, slots := sst.slots.set i { sl with st := st' }, handles := sst.handles ++ newH.toList }

theorem numOut_cases (b : Bool) : (formOf b).numOut = 1 ∨ (formOf b).numOut = 2 := by
  cases b <;> simp [formOf, Form.numOut]

theorem formOf_ne (b : Bool) : formOf b ≠ .component := by cases b <;> simp [formOf]

theorem pan_eq (b : Bool) : ((formOf b).numOut == 1) = (formOf b == .facNoErr) := by
  cases b <;> simp [formOf, Form.numOut]

theorem slot_of_rel {sst : SSt} {tr : Track} (hR : Rel sst tr) {i : Nat} {r : Reg} (h : tr.regs[i]? = some r) :
    ∃ sl, sst.slots[i]? = some sl ∧ sl.reg = r := by
  rw [hR.regs, List.getElem?_map] at h
  cases hs : sst.slots[i]? with
  | none => simp [hs] at h
  | some sl => simp only [hs, Option.map_some, Option.some.injEq] at h; exact ⟨sl, rfl, h⟩

/-- every operation that the Spec judges against a registration runs on that registration's slot, as one `SlotOp` -/
theorem exec_slot (fields : List Nat) {sst : SSt} {tr : Track} (hR : Rel sst tr) (hI : Inv sst) (op : Op)
    (i : Nat) (inp : Input) (creation : Bool) (ht : target tr op = some (i, inp, creation)) :
    ∃ sl st' s newH touched,
      sst.slots[i]? = some sl ∧ inp.sh = sl.reg.sh ∧
      exec sst op = (slotExec sst i sl st' newH, .step i s) ∧
      SlotOp fields sl.st inp creation touched st' s (newH.map (·.fac)) ∧
      (∀ h, newH = some h → h.slot = i ∧ h.reg = sl.reg ∧ hInput h = inp) ∧
      (∀ c, touched = some c → ∃ h ∈ sst.handles, h.slot = i ∧ capt h.fac = some c) ∧
      trackStep tr op (.step i s) = { tr with handles := tr.handles ++ (newH.map fun _ => (i, inp)).toList } := by
  cases op with
  | register r => simp [target] at ht
  | lookup t => simp [target] at ht
  | new t n user hasFill =>
    simp only [target] at ht
    cases hres : resolve tr.regs t n with
    | none => simp [hres] at ht
    | some j =>
      simp only [hres, Option.bind_some] at ht
      cases hr : tr.regs[j]? with
      | none => simp [hr] at ht
      | some r =>
        simp only [hr, Option.map_some, Option.some.injEq, Prod.mk.injEq] at ht
        obtain ⟨rfl, rfl, rfl⟩ := ht
        obtain ⟨sl, hsl, hreg⟩ := slot_of_rel hR hr
        have hfind : findSlot sst.slots t n = some j := by rw [findSlot_eq, ← hR.regs]; exact hres
        subst hreg
        have hok := hI.slots sl (List.mem_of_getElem? hsl)
        refine ⟨sl, (step (regNew sl.reg.sh (sl.reg.world user hasFill)) sl.st).1,
          (step (regNew sl.reg.sh (sl.reg.world user hasFill)) sl.st).2, none, none, hsl, rfl, ?_, ?_, by simp, by simp, ?_⟩
        · simp [exec, hfind, hsl, slotExec, setSt]
        · have := step_regNew sl.reg.sh (sl.reg.world user hasFill) sl.st
          exact slotOp_callSpec fields (sl.reg.input .component user hasFill) hok true sl.reg.sh.factory sl.st _ _
            (by have hb : (Form.component == Form.facNoErr) = false := by decide
                simpa [tri, Reg.input, hb] using this) (by simp [Reg.input]) (by simp [Reg.input]) (.inl rfl)
        · simp [trackStep]
  | newFactory t n withErr user hasFill =>
    simp only [target] at ht
    cases hres : resolve tr.regs t n with
    | none => simp [hres] at ht
    | some j =>
      simp only [hres, Option.bind_some] at ht
      cases hr : tr.regs[j]? with
      | none => simp [hr] at ht
      | some r =>
        simp only [hr, Option.map_some, Option.some.injEq, Prod.mk.injEq] at ht
        obtain ⟨rfl, rfl, rfl⟩ := ht
        obtain ⟨sl, hsl, hreg⟩ := slot_of_rel hR hr
        have hfind : findSlot sst.slots t n = some j := by rw [findSlot_eq, ← hR.regs]; exact hres
        subst hreg
        have hok := hI.slots sl (List.mem_of_getElem? hsl)
        have hq := create_eq sl.reg.sh (sl.reg.world user hasFill) (formOf withErr).numOut (st0 sl.st) rfl
        generalize hc : regNewFactory sl.reg.sh (sl.reg.world user hasFill) (formOf withErr).numOut (st0 sl.st) = c at hq
        have hop := slotOp_createSpec fields (sl.reg.input (formOf withErr) user hasFill) hok (st0 sl.st) c.1 c.1.log.reverse c.2
          (by simpa [quad, Reg.input] using hq) (formOf_ne withErr)
        refine ⟨sl, c.1, ⟨c.1.log.reverse, resOf c.2⟩,
          (facOf c.2).map fun fac => ⟨j, sl.reg, fac, withErr, user, hasFill⟩, none, hsl, rfl, ?_, ?_, ?_, by simp, ?_⟩
        · simp only [exec, hfind, hsl]
          have hc' : regNewFactory sl.reg.sh (sl.reg.world user hasFill) (formOf withErr).numOut { sl.st with log := [] } = c := hc
          rw [hc']
          cases hc2 : c.2 with
          | error e => simp [slotExec, setSt, resOf, facOf]
          | ok fac => simp [slotExec, setSt, resOf, facOf]
        · have : (Option.map (fun x => x.fac) ((facOf c.2).map fun fac => (⟨j, sl.reg, fac, withErr, user, hasFill⟩ : Handle))) = facOf c.2 := by
            cases facOf c.2 <;> rfl
          rw [this]
          exact ⟨hop.next_le, hop.frame, hop.mark, hop.spec, hop.made, hop.facOk, hop.alloc, hop.own⟩
        · intro h hh
          cases hf : facOf c.2 with
          | none => simp [hf] at hh
          | some fac =>
            simp only [hf, Option.map_some, Option.some.injEq] at hh
            subst hh
            exact ⟨rfl, rfl, rfl⟩
        · simp only [trackStep, hres, hr]
          cases hc2 : c.2 with
          | error e => simp [resOf, facOf, isMade]
          | ok fac => simp [resOf, facOf, isMade, Reg.input]
  | call h =>
    simp only [target] at ht
    cases hh : tr.handles[h]? with
    | none => simp [hh] at ht
    | some x =>
      simp only [hh, Option.map_some, Option.some.injEq, Prod.mk.injEq] at ht
      obtain ⟨h1, h2, rfl⟩ := ht
      rw [hR.handles, List.getElem?_map] at hh
      cases hhd : sst.handles[h]? with
      | none => simp [hhd] at hh
      | some hd =>
        simp only [hhd, Option.map_some, Option.some.injEq] at hh
        subst hh
        simp only at h1 h2
        subst h1 h2
        obtain ⟨sl, hsl, hreg, hfac, hns⟩ := hI.handles hd (List.mem_of_getElem? hhd)
        have hok := hI.slots sl (List.mem_of_getElem? hsl)
        have hshape : (hInput hd).sh = sl.reg.sh := by rw [hreg]; rfl
        rw [hreg] at hok
        rcases callFac_cases hd.reg.sh hd.world (formOf hd.withErr).numOut (numOut_cases _) hd.fac hfac sl.st with
          ⟨hfa, doGet, hdg, hstep⟩ | ⟨hfa, rf, hrf, hstep⟩
        · refine ⟨sl, (step (callFac hd.reg.sh hd.world hd.fac) sl.st).1, (step (callFac hd.reg.sh hd.world hd.fac) sl.st).2,
            none, none, hsl, hshape, ?_, ?_, by simp, by simp, by simp [trackStep]⟩
          · simp [exec, hhd, hsl, slotExec, setSt]
          · refine slotOp_callSpec fields (hInput hd) hok doGet false sl.st _ _ ?_ ?_ ?_ (.inr hfa)
            · rw [pan_eq] at hstep
              simpa [tri, hInput, Reg.input, Handle.world] using hstep
            · have : (hInput hd).form ≠ .component := formOf_ne _
              simp only [this, false_or]
              exact hdg
            · have : (hInput hd).form ≠ .component := formOf_ne _
              simp [this]
        · refine ⟨sl, (step (callFac hd.reg.sh hd.world hd.fac) sl.st).1, (step (callFac hd.reg.sh hd.world hd.fac) sl.st).2,
            none, rf.cell, hsl, hshape, ?_, ?_, by simp, ?_, by simp [trackStep]⟩
          · simp [exec, hhd, hsl, slotExec, setSt]
          · have hrf' : facRf hd.fac = some rf := by rcases hrf with h | h <;> simp [h, facRf]
            refine slotOp_facSpec fields (hInput hd) hok rf sl.st _ _ ?_ hfa (formOf_ne _) ?_
            · rw [pan_eq] at hstep
              simpa [tri, hInput, Reg.input, Handle.world] using hstep
            · intro hs
              exact ((hns hs) rf hrf').2
          · intro c hc
            have hrf' : facRf hd.fac = some rf := by rcases hrf with h | h <;> simp [h, facRf]
            exact ⟨hd, List.mem_of_getElem? hhd, rfl, by simp [capt, hrf', hc]⟩

/-! ### the state and the book stay related; the invariant is kept -/

theorem set_same {α : Type} (l : List α) (i : Nat) (a : α) (h : l[i]? = some a) : l.set i a = l := by
  apply List.ext_getElem?
  intro j
  rw [List.getElem?_set]
  by_cases hij : i = j
  · subst hij
    have : i < l.length := by
      rcases List.getElem?_eq_some_iff.mp h with ⟨hl, _⟩; exact hl
    rw [if_pos rfl, if_pos this, h]
  · simp [hij]

theorem lt_of_getElem? {α : Type} {l : List α} {i : Nat} {a : α} (h : l[i]? = some a) : i < l.length := by
  rcases List.getElem?_eq_some_iff.mp h with ⟨hl, _⟩; exact hl

theorem rel_slotExec {sst : SSt} {tr : Track} (hR : Rel sst tr) {i : Nat} {sl : Slot} (hsl : sst.slots[i]? = some sl)
    (st' : St) (newH : Option Handle) (inp : Input) (hn : ∀ h, newH = some h → h.slot = i ∧ h.reg = sl.reg ∧ hInput h = inp) :
    Rel (slotExec sst i sl st' newH) { tr with handles := tr.handles ++ (newH.map fun _ => (i, inp)).toList } := by
  refine ⟨?_, ?_⟩
  · simp only [slotExec, List.map_set]
    rw [set_same _ _ _ (by rw [List.getElem?_map, hsl]; rfl)]
    exact hR.regs
  · simp only [slotExec, List.map_append, hR.handles]
    cases newH with
    | none => simp
    | some h =>
      obtain ⟨h1, _, h3⟩ := hn h rfl
      simp [h1, h3]

theorem seenOk_heap (sh : Shape) (w : World) (rf : RegFac) (heap heap' : Nat → Cfg)
    (h : ∀ c, rf.cell = some c → heap' c = heap c ∨ ∃ m : Int, heap' c = (markField, m) :: heap c)
    (hs : SeenOk sh w (seenOf sh.cfg rf.cell rf.copy heap)) : SeenOk sh w (seenOf sh.cfg rf.cell rf.copy heap') := by
  cases hk : sh.cfg with
  | none => simpa [seenOf, hk] using hs
  | struct =>
    cases hc : rf.cell with
    | none => simpa [seenOf, hk, hc] using hs
    | some c =>
      simp only [seenOf, hk, hc] at hs ⊢
      rcases h c hc with he | ⟨m, he⟩
      · rw [he]; exact hs
      · rw [he]
        exact ⟨fun hh => by simp [hk] at hh, fun _ => agree_mark _ (hs.2 (by simp [hk]))⟩
  | ptr =>
    cases hc : rf.cell with
    | none => simpa [seenOf, hk, hc] using hs
    | some c =>
      simp only [seenOf, hk, hc] at hs ⊢
      rcases h c hc with he | ⟨m, he⟩
      · rw [he]; exact hs
      · rw [he]
        exact ⟨fun hh => by simp [hk] at hh, fun _ => agree_mark _ (hs.2 (by simp [hk]))⟩

theorem inv_slotExec (fields : List Nat) {sst : SSt} (hI : Inv sst) {i : Nat} {sl : Slot} (hsl : sst.slots[i]? = some sl)
    {st' : St} {s : Step} {newH : Option Handle} {inp : Input} {creation : Bool} {touched : Option Nat}
    (hsh : inp.sh = sl.reg.sh)
    (hop : SlotOp fields sl.st inp creation touched st' s (newH.map (·.fac)))
    (hn : ∀ h, newH = some h → h.slot = i ∧ h.reg = sl.reg ∧ hInput h = inp) :
    Inv (slotExec sst i sl st' newH) := by
  have hlt := lt_of_getElem? hsl
  have hnew : (slotExec sst i sl st' newH).slots[i]? = some { sl with st := st' } := by
    simp [slotExec, List.getElem?_set_self hlt]
  have hmem : ∀ x ∈ (slotExec sst i sl st' newH).slots, x ∈ sst.slots ∨ x = { sl with st := st' } := by
    intro x hx; exact List.mem_or_eq_of_mem_set hx
  refine ⟨?_, ?_, ?_⟩
  · intro x hx
    rcases hmem x hx with hx | rfl
    · exact hI.slots x hx
    · exact hI.slots sl (List.mem_of_getElem? hsl)
  · intro x hx
    rcases hmem x hx with hx | rfl
    · exact hI.types x hx
    · exact hI.types sl (List.mem_of_getElem? hsl)
  · intro h hh
    simp only [slotExec, List.mem_append, Option.mem_toList] at hh
    rcases hh with hh | hh
    · obtain ⟨slh, h1, h2, h3, h4⟩ := hI.handles h hh
      by_cases hij : h.slot = i
      · rw [hij] at h1
        rw [hsl] at h1
        simp only [Option.some.injEq] at h1
        subst h1
        refine ⟨{ sl with st := st' }, by rw [hij]; exact hnew, h2, h3, fun hs rf hrf => ?_⟩
        obtain ⟨g1, g2⟩ := h4 hs rf hrf
        have hs' : inp.sh.dflt ≠ .shared := by rw [hsh, h2]; exact hs
        refine ⟨fun c hc => Nat.lt_of_lt_of_le (g1 c hc) hop.next_le, ?_⟩
        refine seenOk_heap _ _ rf sl.st.heap st'.heap (fun c hc => ?_) g2
        by_cases ht : touched = some c
        · exact hop.mark c ht
        · exact .inl (hop.frame hs' c (g1 c hc) ht)
      · refine ⟨slh, ?_, h2, h3, h4⟩
        simp only [slotExec]
        rw [List.getElem?_set_ne (fun hh => hij hh.symm)]
        exact h1
    · obtain ⟨h1, h2, h3⟩ := hn h hh
      have hfac : newH.map (·.fac) = some h.fac := by rw [hh]; rfl
      obtain ⟨f1, f2⟩ := hop.facOk h.fac hfac
      subst h3
      refine ⟨{ sl with st := st' }, by rw [h1]; exact hnew, h2.symm, f1, fun hs rf hrf => ?_⟩
      obtain ⟨g1, g2⟩ := f2 hs rf hrf
      exact ⟨fun c hc => (g1 c hc).2, g2⟩

theorem addType_self (types : List Nat) (t : Nat) : (addType types t).contains t = true := by
  unfold addType
  split
  · assumption
  · simp

theorem addType_mono (types : List Nat) (t t' : Nat) (h : types.contains t' = true) : (addType types t).contains t' = true := by
  unfold addType
  split
  · exact h
  · simp only [List.contains_eq_mem, List.mem_append, decide_eq_true_eq] at h ⊢
    exact .inl h

/-- an operation that reaches no registration: a registration, a lookup, a creation for a type and name nobody
registered, a call of a factory that was never handed out -/
theorem exec_other (fields : List Nat) {sst : SSt} {tr : Track} (hR : Rel sst tr) (hI : Inv sst) (op : Op)
    (ht : target tr op = none) :
    ∃ types' extra,
      (exec sst op).1 = { types := types',
                          slots := sst.slots ++ (extra.toList.map fun r => (⟨r, initSt r.sh (r.world [] false)⟩ : Slot)),
                          handles := sst.handles } ∧
      (∀ t, sst.types.contains t = true → types'.contains t = true) ∧
      (∀ r, extra = some r → registerOk r.sh = true ∧ types'.contains r.ptype = true ∧
        resolve tr.regs r.ptype r.name = none) ∧
      trackStep tr op (exec sst op).2 = { tr with regs := tr.regs ++ extra.toList } ∧
      stepOf (exec sst op).2 = none ∧
      opOk tr op (exec sst op).2 fields = "" := by
  cases op with
  | register r =>
    have hfind : findSlot sst.slots r.ptype r.name = resolve tr.regs r.ptype r.name := by rw [findSlot_eq, hR.regs]
    by_cases hn : r.name = ""
    · refine ⟨sst.types, none, ?_, fun _ h => h, by simp, ?_, ?_, ?_⟩
      · simp [exec, hn]
      · simp [exec, hn, trackStep]
      · simp [exec, hn, stepOf]
      · simp [exec, hn, opOk, mustAccept]
    · by_cases hd : (findSlot sst.slots r.ptype r.name).isSome = true
      · refine ⟨addType sst.types r.ptype, none, ?_, fun t h => addType_mono _ _ _ h, by simp, ?_, ?_, ?_⟩
        · simp [exec, hn, hd]
        · simp [exec, hn, hd, trackStep]
        · simp [exec, hn, hd, stepOf]
        · have : (resolve tr.regs r.ptype r.name).isNone = false := by
            rw [← hfind]; cases h : findSlot sst.slots r.ptype r.name <;> simp [h] at hd ⊢
          simp [exec, hn, hd, opOk, mustAccept, this]
      · have hd' : (resolve tr.regs r.ptype r.name).isNone = true := by
          rw [← hfind]; cases h : findSlot sst.slots r.ptype r.name <;> simp [h] at hd ⊢
        by_cases hk : registerOk r.sh = true
        · refine ⟨addType sst.types r.ptype, some r, ?_, fun t h => addType_mono _ _ _ h, ?_, ?_, ?_, ?_⟩
          · simp [exec, hn, hd, hk]
          · intro r' hr'
            simp only [Option.some.injEq] at hr'; subst hr'
            exact ⟨hk, addType_self _ _, by cases h : resolve tr.regs r.ptype r.name <;> simp [h] at hd' ⊢⟩
          · simp [exec, hn, hd, hk, trackStep]
          · simp [exec, hn, hd, hk, stepOf]
          · simp [exec, hn, hd, hk, opOk, mustAccept, hd']
        · refine ⟨addType sst.types r.ptype, none, ?_, fun t h => addType_mono _ _ _ h, by simp, ?_, ?_, ?_⟩
          · simp [exec, hn, hd, hk]
          · simp [exec, hn, hd, hk, trackStep]
          · simp [exec, hn, hd, hk, stepOf]
          · simp [exec, hn, hd, hk, opOk, mustAccept]
  | lookup t =>
    refine ⟨sst.types, none, by simp [exec], fun _ h => h, by simp, by simp [exec, trackStep], by simp [exec, stepOf], ?_⟩
    simp only [exec, opOk]
    by_cases ha : (tr.regs.any fun r => r.ptype == t) = true
    · have : sst.types.contains t = true := by
        rw [hR.regs] at ha
        simp only [List.any_map, List.any_eq_true, Function.comp_apply, beq_iff_eq] at ha
        obtain ⟨sl, hsl, rfl⟩ := ha
        exact hI.types sl hsl
      simp only [List.contains_eq_mem, decide_eq_true_eq] at this
      simp [ha, this]
    · simp [ha]
  | new t n user hasFill =>
    simp only [target] at ht
    cases hres : resolve tr.regs t n with
    | some j =>
      obtain ⟨r, hr, _⟩ := resolve_some hres
      simp [hres, hr] at ht
    | none =>
      have hfind : findSlot sst.slots t n = none := by rw [findSlot_eq, ← hR.regs]; exact hres
      refine ⟨sst.types, none, by simp [exec, hfind], fun _ h => h, by simp, by simp [exec, hfind, trackStep],
        by simp [exec, hfind, stepOf], by simp [exec, hfind, opOk, hres]⟩
  | newFactory t n withErr user hasFill =>
    simp only [target] at ht
    cases hres : resolve tr.regs t n with
    | some j =>
      obtain ⟨r, hr, _⟩ := resolve_some hres
      simp [hres, hr] at ht
    | none =>
      have hfind : findSlot sst.slots t n = none := by rw [findSlot_eq, ← hR.regs]; exact hres
      refine ⟨sst.types, none, by simp [exec, hfind], fun _ h => h, by simp, by simp [exec, hfind, trackStep],
        by simp [exec, hfind, stepOf], by simp [exec, hfind, opOk, hres]⟩
  | call h =>
    simp only [target, Option.map_eq_none_iff] at ht
    have hh : sst.handles[h]? = none := by
      rw [hR.handles, List.getElem?_map] at ht
      cases hx : sst.handles[h]? <;> simp [hx] at ht ⊢
    refine ⟨sst.types, none, by simp [exec, hh], fun _ h => h, by simp, by simp [exec, hh, trackStep],
      by simp [exec, hh, stepOf], by simp [exec, hh, opOk, ht]⟩

theorem step_rel_inv (fields : List Nat) {sst : SSt} {tr : Track} (hR : Rel sst tr) (hI : Inv sst) (op : Op) :
    Rel (exec sst op).1 (trackStep tr op (exec sst op).2) ∧ Inv (exec sst op).1 := by
  cases ht : target tr op with
  | some x =>
    obtain ⟨i, inp, creation⟩ := x
    obtain ⟨sl, st', s, newH, touched, hsl, hsh, hex, hop, hn, _, htr⟩ := exec_slot fields hR hI op i inp creation ht
    rw [hex]
    simp only
    rw [htr]
    exact ⟨rel_slotExec hR hsl st' newH inp hn, inv_slotExec fields hI hsl hsh hop hn⟩
  | none =>
    obtain ⟨types', extra, hex, hty, hext, htr, _, _⟩ := exec_other fields hR hI op ht
    rw [htr, hex]
    refine ⟨⟨?_, ?_⟩, ⟨?_, ?_, ?_⟩⟩
    · simp only [List.map_append, hR.regs, List.map_map]
      congr 1
      cases extra <;> simp
    · exact hR.handles
    · intro sl hsl
      simp only [List.mem_append, List.mem_map, Option.mem_toList] at hsl
      rcases hsl with hsl | ⟨r, hr, rfl⟩
      · exact hI.slots sl hsl
      · exact (hext r hr).1
    · intro sl hsl
      simp only [List.mem_append, List.mem_map, Option.mem_toList] at hsl
      rcases hsl with hsl | ⟨r, hr, rfl⟩
      · exact hty _ (hI.types sl hsl)
      · exact (hext r hr).2.1
    · intro h hh
      obtain ⟨sl, h1, h2⟩ := hI.handles h hh
      exact ⟨sl, by simp only; rw [List.getElem?_append_left (lt_of_getElem? h1)]; exact h1, h2⟩

theorem opOk_slot (fields : List Nat) (tr : Track) (op : Op) (i : Nat) (inp : Input) (creation : Bool)
    (ht : target tr op = some (i, inp, creation)) (s : Step)
    (hspec : (if creation then createStepOk inp s else callStepOk inp s fields) = "") :
    opOk tr op (.step i s) fields = "" := by
  cases op with
  | register r => simp [target] at ht
  | lookup t => simp [target] at ht
  | new t n user hasFill =>
    simp only [target] at ht
    cases hres : resolve tr.regs t n with
    | none => simp [hres] at ht
    | some j =>
      simp only [hres, Option.bind_some] at ht
      cases hr : tr.regs[j]? with
      | none => simp [hr] at ht
      | some r =>
        simp only [hr, Option.map_some, Option.some.injEq, Prod.mk.injEq] at ht
        obtain ⟨rfl, rfl, rfl⟩ := ht
        simp only [Bool.false_eq_true, if_false] at hspec
        simp [opOk, hres, hr, hspec]
  | newFactory t n withErr user hasFill =>
    simp only [target] at ht
    cases hres : resolve tr.regs t n with
    | none => simp [hres] at ht
    | some j =>
      simp only [hres, Option.bind_some] at ht
      cases hr : tr.regs[j]? with
      | none => simp [hr] at ht
      | some r =>
        simp only [hr, Option.map_some, Option.some.injEq, Prod.mk.injEq] at ht
        obtain ⟨rfl, rfl, rfl⟩ := ht
        simp only [if_true] at hspec
        simp [opOk, hres, hr, hspec]
  | call h =>
    simp only [target] at ht
    cases hh : tr.handles[h]? with
    | none => simp [hh] at ht
    | some x =>
      simp only [hh, Option.map_some, Option.some.injEq, Prod.mk.injEq] at ht
      obtain ⟨h1, h2, rfl⟩ := ht
      obtain ⟨xi, xinp⟩ := x
      simp only at h1 h2
      subst h1 h2
      simp only [Bool.false_eq_true, if_false] at hspec
      simp [opOk, hh, hspec]

theorem opOk_exec (fields : List Nat) {sst : SSt} {tr : Track} (hR : Rel sst tr) (hI : Inv sst) (op : Op) :
    opOk tr op (exec sst op).2 fields = "" := by
  cases ht : target tr op with
  | some x =>
    obtain ⟨i, inp, creation⟩ := x
    obtain ⟨sl, st', s, newH, touched, hsl, hsh, hex, hop, hn, _, htr⟩ := exec_slot fields hR hI op i inp creation ht
    rw [hex]
    exact opOk_slot fields tr op i inp creation ht s hop.spec
  | none =>
    obtain ⟨_, _, _, _, _, _, _, h⟩ := exec_other fields hR hI op ht
    exact h

/-- every operation of every session satisfies the clauses of the Spec that speak about one operation -/
theorem opsOk_run (fields : List Nat) : ∀ (ops : List Op) (sst : SSt) (tr : Track), Rel sst tr → Inv sst →
    opsOk fields tr ops (runFrom sst ops).2 = "" := by
  intro ops
  induction ops with
  | nil => intro sst tr _ _; rfl
  | cons op ops ih =>
    intro sst tr hR hI
    obtain ⟨hR', hI'⟩ := step_rel_inv fields hR hI op
    simp only [runFrom, opsOk, opOk_exec fields hR hI op]
    exact ih _ _ hR' hI'

/-! ### frame: what later operations can do to what exists now -/

structure Frame (a b : SSt) : Prop where
  slot : ∀ j sl, a.slots[j]? = some sl → ∃ sl', b.slots[j]? = some sl' ∧ sl'.reg = sl.reg ∧ sl.st.next ≤ sl'.st.next ∧
    (sl.reg.sh.dflt ≠ .shared → ∀ c, c < sl.st.next → (∀ h ∈ a.handles, h.slot = j → capt h.fac ≠ some c) →
      sl'.st.heap c = sl.st.heap c)
  handles : ∀ h ∈ b.handles, h ∈ a.handles ∨
    (∀ sl, a.slots[h.slot]? = some sl → sl.reg.sh.dflt ≠ .shared → ∀ c, capt h.fac = some c → sl.st.next ≤ c)

theorem frame_refl (a : SSt) : Frame a a :=
  ⟨fun j sl h => ⟨sl, h, rfl, Nat.le_refl _, fun _ _ _ _ => rfl⟩, fun h hh => .inl hh⟩

theorem frame_trans {a b c : SSt} (h1 : Frame a b) (h2 : Frame b c) : Frame a c := by
  refine ⟨?_, ?_⟩
  · intro j sl hsl
    obtain ⟨sl', hb, r1, n1, f1⟩ := h1.slot j sl hsl
    obtain ⟨sl'', hc, r2, n2, f2⟩ := h2.slot j sl' hb
    refine ⟨sl'', hc, by rw [r2, r1], Nat.le_trans n1 n2, fun hs x hx hcap => ?_⟩
    rw [← f1 hs x hx hcap]
    refine f2 (by rw [r1]; exact hs) x (Nat.lt_of_lt_of_le hx n1) (fun h hh hj => ?_)
    rcases h1.handles h hh with hh | hnew
    · exact hcap h hh hj
    · intro hcc
      have := hnew sl (by rw [hj]; exact hsl) hs x hcc
      omega
  · intro h hh
    rcases h2.handles h hh with hh | hnew
    · exact h1.handles h hh
    · refine .inr fun sl hsl hs x hx => ?_
      obtain ⟨sl', hb, r1, n1, _⟩ := h1.slot _ sl hsl
      exact Nat.le_trans n1 (hnew sl' hb (by rw [r1]; exact hs) x hx)

theorem capt_some {fac : Fac} {c : Nat} (h : capt fac = some c) : ∃ rf, facRf fac = some rf ∧ rf.cell = some c := by
  unfold capt at h
  cases hf : facRf fac with
  | none => simp [hf] at h
  | some rf => simp only [hf, Option.bind_some] at h; exact ⟨rf, rfl, h⟩

theorem frame_exec (fields : List Nat) {sst : SSt} {tr : Track} (hR : Rel sst tr) (hI : Inv sst) (op : Op) :
    Frame sst (exec sst op).1 := by
  cases ht : target tr op with
  | some x =>
    obtain ⟨i, inp, creation⟩ := x
    obtain ⟨sl, st', s, newH, touched, hsl, hsh, hex, hop, hn, htouch, _⟩ := exec_slot fields hR hI op i inp creation ht
    rw [hex]
    have hlt := lt_of_getElem? hsl
    refine ⟨?_, ?_⟩
    · intro j slj hj
      by_cases hij : j = i
      · subst hij
        rw [hsl] at hj
        simp only [Option.some.injEq] at hj
        subst hj
        refine ⟨{ sl with st := st' }, by simp [slotExec, List.getElem?_set_self hlt], rfl, hop.next_le, fun hs c hc hcap => ?_⟩
        refine hop.frame (by rw [hsh]; exact hs) c hc (fun htc => ?_)
        obtain ⟨h, hh, hslot, hcc⟩ := htouch c htc
        exact hcap h hh hslot hcc
      · refine ⟨slj, ?_, rfl, Nat.le_refl _, fun _ _ _ _ => rfl⟩
        simp only [slotExec]
        rw [List.getElem?_set_ne (fun hh => hij hh.symm)]
        exact hj
    · intro h hh
      simp only [slotExec, List.mem_append, Option.mem_toList] at hh
      rcases hh with hh | hh
      · exact .inl hh
      · obtain ⟨h1, h2, h3⟩ := hn h hh
        refine .inr fun sl2 hsl2 hs c hc => ?_
        rw [h1, hsl] at hsl2
        simp only [Option.some.injEq] at hsl2
        subst hsl2
        obtain ⟨rf, hrf, hcell⟩ := capt_some hc
        have hfac : newH.map (·.fac) = some h.fac := by rw [hh]; rfl
        exact ((hop.facOk h.fac hfac).2 (by rw [hsh]; exact hs) rf hrf).1 c hcell |>.1
  | none =>
    obtain ⟨types', extra, hex, _, _, _, _, _⟩ := exec_other fields hR hI op ht
    rw [hex]
    refine ⟨fun j sl hj => ⟨sl, ?_, rfl, Nat.le_refl _, fun _ _ _ _ => rfl⟩, fun h hh => .inl hh⟩
    simp only
    rw [List.getElem?_append_left (lt_of_getElem? hj)]
    exact hj

theorem frame_run (fields : List Nat) : ∀ (ops : List Op) (sst : SSt) (tr : Track), Rel sst tr → Inv sst →
    Frame sst (runFrom sst ops).1 := by
  intro ops
  induction ops with
  | nil => intro sst _ _ _; exact frame_refl sst
  | cons op ops ih =>
    intro sst tr hR hI
    obtain ⟨hR', hI'⟩ := step_rel_inv fields hR hI op
    exact frame_trans (frame_exec fields hR hI op) (ih _ _ hR' hI')

/-! ### at the very end every product that must own its configuration reads its own serial number -/

theorem viewOk_exec (fields : List Nat) {sst : SSt} {tr : Track} (hR : Rel sst tr) (hI : Inv sst) (op : Op)
    (fin : SSt) (hF : Frame (exec sst op).1 fin) :
    viewOk tr op (exec sst op).2 (viewOf fin (exec sst op).2) = true := by
  cases ht : target tr op with
  | none => simp [viewOk, ht]
  | some x =>
    obtain ⟨i, inp, creation⟩ := x
    obtain ⟨sl, st', s, newH, touched, hsl, hsh, hex, hop, hn, htouch, _⟩ := exec_slot fields hR hI op i inp creation ht
    rw [hex] at hF ⊢
    simp only [viewOk, ht, stepOf]
    cases creation with
    | true => simp
    | false =>
      cases ho : owns inp with
      | false => simp
      | true =>
        obtain ⟨evs, res⟩ := s
        cases res with
        | made => simp [prodCell?, product?]
        | err e => simp [prodCell?, product?]
        | panic e => simp [prodCell?, product?]
        | ok p =>
          obtain ⟨serial, cell, seen⟩ := p
          cases cell with
          | none => simp [prodCell?, product?]
          | some c =>
            obtain ⟨o1, o2, o3⟩ := hop.own rfl ho ⟨serial, some c, seen⟩ c rfl rfl
            have hns : sl.reg.sh.dflt ≠ .shared := by
              rw [← hsh]
              simp only [owns, freshApplies, Bool.and_eq_true, bne_iff_ne, ne_eq] at ho
              exact ho.1.2
            have hnone : newH = none := by
              have := hop.made
              simp only [isMade] at this
              cases newH with
              | none => rfl
              | some h => simp at this
            have hlt := lt_of_getElem? hsl
            obtain ⟨sl'', hfin, _, _, hfr⟩ := hF.slot i { sl with st := st' }
              (by simp [slotExec, List.getElem?_set_self hlt])
            have hheap : sl''.st.heap c = st'.heap c := by
              refine hfr hns c (by simp only; omega) (fun h hh hslot => ?_)
              simp only [slotExec, hnone, Option.toList_none, List.append_nil] at hh
              obtain ⟨slh, g1, g2, _, g4⟩ := hI.handles h hh
              rw [hslot, hsl] at g1
              simp only [Option.some.injEq] at g1
              subst g1
              intro hcc
              obtain ⟨rf, hrf, hcell⟩ := capt_some hcc
              have := (g4 (by rw [← g2]; exact hns) rf hrf).1 c hcell
              omega
            simp only [viewOf, hfin, prodCell?, product?, Option.bind_some, Option.isSome_some, Bool.and_true,
              Bool.not_false, Bool.true_and, Bool.not_true, Bool.false_or, Option.map_some, beq_iff_eq, Option.some.injEq]
            rw [hheap, o3]

theorem viewsOk_run (fields : List Nat) : ∀ (ops : List Op) (sst : SSt) (tr : Track) (fin : SSt), Rel sst tr → Inv sst →
    Frame (runFrom sst ops).1 fin → viewsOk tr ops (runFrom sst ops).2 ((runFrom sst ops).2.map (viewOf fin)) = true := by
  intro ops
  induction ops with
  | nil => intro sst tr fin _ _ _; rfl
  | cons op ops ih =>
    intro sst tr fin hR hI hF
    obtain ⟨hR', hI'⟩ := step_rel_inv fields hR hI op
    simp only [runFrom, List.map_cons, viewsOk, Bool.and_eq_true]
    simp only [runFrom] at hF
    exact ⟨viewOk_exec fields hR hI op fin (frame_trans (frame_run fields ops _ _ hR' hI') hF), ih _ _ fin hR' hI' hF⟩

/-! ### the configurations obtained by different `Get`s of one registration are pairwise distinct -/

def CellsGe (sst : SSt) (l : List (Nat × Nat)) : Prop := ∀ x ∈ l, ∀ sl, sst.slots[x.1]? = some sl → sl.st.next ≤ x.2

/-- one of the three lists of `Cells` -/
structure Proj where
  π : Cells → List (Nat × Nat)
  app : ∀ a b : Cells, π ⟨a.fills ++ b.fills, a.confs ++ b.confs, a.prods ++ b.prods⟩ = π a ++ π b
  nil : π ⟨[], [], []⟩ = []

def projFills : Proj := ⟨(·.fills), fun _ _ => rfl, rfl⟩
def projConfs : Proj := ⟨(·.confs), fun _ _ => rfl, rfl⟩
def projProds : Proj := ⟨(·.prods), fun _ _ => rfl, rfl⟩

/-- a step contributes nothing, or the frontier of its slot — which it then moves on by one -/
def Contributes (sst sst' : SSt) (l : List (Nat × Nat)) : Prop :=
  l = [] ∨ ∃ i sl sl', sst.slots[i]? = some sl ∧ sst'.slots[i]? = some sl' ∧ sl'.st.next = sl.st.next + 1 ∧ l = [(i, sl.st.next)]

theorem prodCell_some {s : Step} {c : Nat} (h : prodCell? s = some c) : ∃ p, s.res = .ok p ∧ p.cell = some c := by
  obtain ⟨evs, res⟩ := s
  cases res with
  | ok p => exact ⟨p, rfl, by simpa [prodCell?, product?] using h⟩
  | made => simp [prodCell?, product?] at h
  | err e => simp [prodCell?, product?] at h
  | panic e => simp [prodCell?, product?] at h

theorem cells_exec (fields : List Nat) {sst : SSt} {tr : Track} (hR : Rel sst tr) (hI : Inv sst) (op : Op) :
    Contributes sst (exec sst op).1 (cellsOf tr op (exec sst op).2).fills ∧
    Contributes sst (exec sst op).1 (cellsOf tr op (exec sst op).2).confs ∧
    Contributes sst (exec sst op).1 (cellsOf tr op (exec sst op).2).prods := by
  cases ht : target tr op with
  | none => simp [cellsOf, ht, Contributes]
  | some x =>
    obtain ⟨i, inp, creation⟩ := x
    obtain ⟨sl, st', s, newH, touched, hsl, hsh, hex, hop, hn, htouch, _⟩ := exec_slot fields hR hI op i inp creation ht
    rw [hex]
    have hlt := lt_of_getElem? hsl
    have hnew : (slotExec sst i sl st' newH).slots[i]? = some { sl with st := st' } := by
      simp [slotExec, List.getElem?_set_self hlt]
    simp only [cellsOf, ht, stepOf]
    refine ⟨?_, ?_, ?_⟩
    · cases hg : gets inp creation with
      | false => exact .inl (by simp)
      | true =>
        obtain ⟨a1, a2, _⟩ := hop.alloc hg
        cases hf : fillAddr? s with
        | none => exact .inl (by simp)
        | some c =>
          have := a2 c hf; subst this
          exact .inr ⟨i, sl, _, hsl, hnew, a1, by simp⟩
    · cases hg : gets inp creation with
      | false => exact .inl (by simp)
      | true =>
        obtain ⟨a1, _, a3⟩ := hop.alloc hg
        cases hf : ctorConf? s with
        | none => exact .inl (by simp)
        | some c =>
          have := a3 c hf; subst this
          exact .inr ⟨i, sl, _, hsl, hnew, a1, by simp⟩
    · cases creation with
      | true => exact .inl (by simp)
      | false =>
        cases ho : owns inp with
        | false => exact .inl (by simp)
        | true =>
          cases hf : prodCell? s with
          | none => exact .inl (by simp)
          | some c =>
            obtain ⟨p, hp, hcell⟩ := prodCell_some hf
            obtain ⟨o1, o2, _⟩ := hop.own rfl ho p c hp hcell
            subst o1
            exact .inr ⟨i, sl, _, hsl, hnew, o2, by simp⟩

theorem cells_run (fields : List Nat) (P : Proj)
    (hstep : ∀ (sst : SSt) (tr : Track) (op : Op), Rel sst tr → Inv sst →
      Contributes sst (exec sst op).1 (P.π (cellsOf tr op (exec sst op).2))) :
    ∀ (ops : List Op) (sst : SSt) (tr : Track), Rel sst tr → Inv sst →
      CellsGe sst (P.π (collect tr ops (runFrom sst ops).2)) ∧ (P.π (collect tr ops (runFrom sst ops).2)).Nodup := by
  intro ops
  induction ops with
  | nil =>
    intro sst tr _ _
    simp only [runFrom, collect, P.nil]
    exact ⟨fun x hx => by simp at hx, List.nodup_nil⟩
  | cons op ops ih =>
    intro sst tr hR hI
    obtain ⟨hR', hI'⟩ := step_rel_inv fields hR hI op
    obtain ⟨ih1, ih2⟩ := ih _ _ hR' hI'
    have hfr := frame_exec fields hR hI op
    simp only [runFrom, collect, P.app]
    have htail : CellsGe sst (P.π (collect (trackStep tr op (exec sst op).2) ops (runFrom (exec sst op).1 ops).2)) := by
      intro x hx sl hsl
      obtain ⟨sl', h1, _, h3, _⟩ := hfr.slot _ sl hsl
      exact Nat.le_trans h3 (ih1 x hx sl' h1)
    rcases hstep sst tr op hR hI with h0 | ⟨i, sl, sl', h1, h2, h3, h4⟩
    · rw [h0]; exact ⟨by simpa using htail, by simpa using ih2⟩
    · rw [h4]
      refine ⟨?_, ?_⟩
      · intro x hx
        simp only [List.cons_append, List.nil_append, List.mem_cons] at hx
        rcases hx with rfl | hx
        · intro sl2 hsl2
          simp only at hsl2
          rw [h1] at hsl2
          simp only [Option.some.injEq] at hsl2
          subst hsl2
          exact Nat.le_refl _
        · exact htail x hx
      · simp only [List.cons_append, List.nil_append, List.nodup_cons]
        refine ⟨fun hmem => ?_, ih2⟩
        have := ih1 _ hmem sl' h2
        simp only at this
        omega

/-! ### whole runs -/

theorem rel_run (fields : List Nat) : ∀ (ops : List Op) (sst : SSt) (tr : Track), Rel sst tr → Inv sst →
    Rel (runFrom sst ops).1 (trackRun tr ops (runFrom sst ops).2) ∧ Inv (runFrom sst ops).1 := by
  intro ops
  induction ops with
  | nil => intro sst tr hR hI; exact ⟨hR, hI⟩
  | cons op ops ih =>
    intro sst tr hR hI
    obtain ⟨hR', hI'⟩ := step_rel_inv fields hR hI op
    simp only [runFrom, trackRun]
    exact ih _ _ hR' hI'

/-- no two accepted registrations for the same plugin type and name -/
def Uniq (regs : List Reg) : Prop :=
  ∀ (i j : Nat) (r r' : Reg), regs[i]? = some r → regs[j]? = some r' → r.ptype = r'.ptype → r.name = r'.name → i = j

theorem uniq_step (fields : List Nat) {sst : SSt} {tr : Track} (hR : Rel sst tr) (hI : Inv sst) (op : Op) (hU : Uniq tr.regs) :
    Uniq (trackStep tr op (exec sst op).2).regs := by
  cases ht : target tr op with
  | some x =>
    obtain ⟨i, inp, creation⟩ := x
    obtain ⟨sl, st', s, newH, touched, hsl, hsh, hex, hop, hn, _, htr⟩ := exec_slot fields hR hI op i inp creation ht
    rw [hex]; simp only; rw [htr]; exact hU
  | none =>
    obtain ⟨types', extra, _, _, hext, htr, _, _⟩ := exec_other fields hR hI op ht
    rw [htr]
    cases extra with
    | none => simpa using hU
    | some r =>
      obtain ⟨_, _, hnone⟩ := hext r rfl
      have hno := resolve_none hnone
      unfold Uniq
      intro i j a b hi hj h1 h2
      simp only [Option.toList_some] at hi hj
      by_cases hil : i < tr.regs.length <;> by_cases hjl : j < tr.regs.length
      · rw [List.getElem?_append_left hil] at hi
        rw [List.getElem?_append_left hjl] at hj
        exact hU i j a b hi hj h1 h2
      · rw [List.getElem?_append_left hil] at hi
        rw [List.getElem?_append_right (by omega)] at hj
        have : b = r := by
          cases hk : j - tr.regs.length with
          | zero => simp [hk] at hj; exact hj.symm
          | succ k => simp [hk] at hj
        subst this
        exact absurd ⟨h1, h2⟩ (hno a (List.mem_of_getElem? hi))
      · rw [List.getElem?_append_left hjl] at hj
        rw [List.getElem?_append_right (by omega)] at hi
        have : a = r := by
          cases hk : i - tr.regs.length with
          | zero => simp [hk] at hi; exact hi.symm
          | succ k => simp [hk] at hi
        subst this
        exact absurd ⟨h1.symm, h2.symm⟩ (hno b (List.mem_of_getElem? hj))
      · rw [List.getElem?_append_right (by omega)] at hi hj
        have hi0 : i - tr.regs.length = 0 := by
          cases hk : i - tr.regs.length with
          | zero => rfl
          | succ k => simp [hk] at hi
        have hj0 : j - tr.regs.length = 0 := by
          cases hk : j - tr.regs.length with
          | zero => rfl
          | succ k => simp [hk] at hj
        omega

theorem uniq_run (fields : List Nat) : ∀ (ops : List Op) (sst : SSt) (tr : Track), Rel sst tr → Inv sst → Uniq tr.regs →
    Uniq (trackRun tr ops (runFrom sst ops).2).regs := by
  intro ops
  induction ops with
  | nil => intro sst tr _ _ hU; exact hU
  | cons op ops ih =>
    intro sst tr hR hI hU
    obtain ⟨hR', hI'⟩ := step_rel_inv fields hR hI op
    simp only [runFrom, trackRun]
    exact ih _ _ hR' hI' (uniq_step fields hR hI op hU)

theorem uniq_empty : Uniq Track.empty.regs := by
  unfold Uniq
  intro i j r r' hi; simp [Track.empty] at hi

/-! ### a session with one registration and one creation IS the single-creation model -/

theorem runFrom_calls (h : Nat) (hd : Handle) : ∀ (k : Nat) (sst : SSt) (sl : Slot),
    sst.handles[h]? = some hd → sst.slots[hd.slot]? = some sl →
    (runFrom sst (List.replicate k (.call h))).2 =
      (iter (step (callFac hd.reg.sh hd.world hd.fac)) k sl.st).2.map (Out.step hd.slot) := by
  intro k
  induction k with
  | zero => intro sst sl _ _; rfl
  | succ k ih =>
    intro sst sl hh hs
    have hlt := lt_of_getElem? hs
    have hex : exec sst (.call h) =
        (setSt sst hd.slot sl (step (callFac hd.reg.sh hd.world hd.fac) sl.st).1,
         .step hd.slot (step (callFac hd.reg.sh hd.world hd.fac) sl.st).2) := by
      simp [exec, hh, hs]
    simp only [List.replicate_succ, runFrom, hex, iter, List.map_cons]
    congr 1
    exact ih _ { sl with st := (step (callFac hd.reg.sh hd.world hd.fac) sl.st).1 }
      (by simpa [setSt] using hh) (by simp [setSt, List.getElem?_set_self hlt])

theorem runFrom_news (t : Nat) (n : String) (user : Cfg) (hasFill : Bool) (i : Nat) : ∀ (k : Nat) (sst : SSt) (sl : Slot),
    findSlot sst.slots t n = some i → sst.slots[i]? = some sl →
    (runFrom sst (List.replicate k (.new t n user hasFill))).2 =
      (iter (step (regNew sl.reg.sh (sl.reg.world user hasFill))) k sl.st).2.map (Out.step i) := by
  intro k
  induction k with
  | zero => intro sst sl _ _; rfl
  | succ k ih =>
    intro sst sl hf hs
    have hlt := lt_of_getElem? hs
    have hex : exec sst (.new t n user hasFill) =
        (setSt sst i sl (step (regNew sl.reg.sh (sl.reg.world user hasFill)) sl.st).1,
         .step i (step (regNew sl.reg.sh (sl.reg.world user hasFill)) sl.st).2) := by
      simp [exec, hf, hs]
    simp only [List.replicate_succ, runFrom, hex, iter, List.map_cons]
    congr 1
    have hf' : findSlot (setSt sst i sl (step (regNew sl.reg.sh (sl.reg.world user hasFill)) sl.st).1).slots t n = some i := by
      rw [findSlot_eq] at hf ⊢
      simp only [setSt, List.map_set]
      rw [set_same _ _ _ (by rw [List.getElem?_map, hs]; rfl)]
      exact hf
    exact ih _ { sl with st := (step (regNew sl.reg.sh (sl.reg.world user hasFill)) sl.st).1 } hf'
      (by simp [setSt, List.getElem?_set_self hlt])

theorem runFrom_nohandle (h : Nat) : ∀ (k : Nat) (sst : SSt), sst.handles[h]? = none →
    (runFrom sst (List.replicate k (.call h))).2.filterMap stepOf = [] := by
  intro k
  induction k with
  | zero => intro sst _; rfl
  | succ k ih =>
    intro sst hh
    have hex : exec sst (.call h) = (sst, .noHandle) := by simp [exec, hh]
    simp only [List.replicate_succ, runFrom, hex, List.filterMap_cons, stepOf]
    exact ih sst hh

theorem initSt_world (sh : Shape) (w w' : World) (h : w.dflt = w'.dflt) : initSt sh w = initSt sh w' := by
  unfold initSt; rw [h]

theorem filterMap_stepOf_map (i : Nat) (l : List Step) : (l.map (Out.step i)).filterMap stepOf = l := by
  induction l with
  | nil => rfl
  | cons a l ih => simp [stepOf, ih]

theorem filterMap_stepOf_comp (i : Nat) (l : List Step) : l.filterMap (stepOf ∘ Out.step i) = l := by
  induction l with
  | nil => rfl
  | cons a l ih => simp [stepOf, ih]

/-- one registration, one `NewFactory`, k calls of the factory: the steps are those of `Model.C18.run` -/
theorem single_factory (r : Reg) (hn : r.name ≠ "") (hreg : registerOk r.sh = true) (e : Bool) (user : Cfg) (hasFill : Bool)
    (k : Nat) :
    some ((Pandora.Model.C18Sess.run
        (.register r :: .newFactory r.ptype r.name e user hasFill :: List.replicate k (.call 0))).outs.filterMap stepOf) =
      (Pandora.Model.C18.run { r.input (formOf e) user hasFill with k := k }).map (·.steps) := by
  have hw : initSt r.sh (r.world [] false) = initSt r.sh (r.world user hasFill) := initSt_world _ _ _ rfl
  have hform : ∀ x : Form, x = formOf e → x ≠ .component := fun x hx => by rw [hx]; exact formOf_ne e
  have hex1 : exec SSt.empty (.register r) =
      (⟨addType [] r.ptype, [⟨r, initSt r.sh (r.world user hasFill)⟩], []⟩, .accepted) := by
    simp [exec, hn, hreg, SSt.empty, findSlot, hw]
  have hfind : findSlot [(⟨r, initSt r.sh (r.world user hasFill)⟩ : Slot)] r.ptype r.name = some 0 := by simp [findSlot]
  simp only [Pandora.Model.C18Sess.run, runFrom, hex1, List.filterMap_cons, stepOf]
  simp only [Pandora.Model.C18.run, runSt, hreg, Bool.not_true, Bool.false_eq_true, if_false, Reg.input]
  have hst0 : ({ initSt r.sh (r.world user hasFill) with log := [] } : St) = initSt r.sh (r.world user hasFill) :=
    st0_initSt _ _
  cases e with
  | false =>
    simp only [formOf, Bool.false_eq_true, if_false]
    cases hc : (regNewFactory r.sh (r.world user hasFill) Form.facNoErr.numOut (initSt r.sh (r.world user hasFill))).2 with
    | error err =>
      have hex2 : exec ⟨addType [] r.ptype, [⟨r, initSt r.sh (r.world user hasFill)⟩], []⟩ (.newFactory r.ptype r.name false user hasFill) =
          (setSt ⟨addType [] r.ptype, [⟨r, initSt r.sh (r.world user hasFill)⟩], []⟩ 0 ⟨r, initSt r.sh (r.world user hasFill)⟩
            (regNewFactory r.sh (r.world user hasFill) Form.facNoErr.numOut (initSt r.sh (r.world user hasFill))).1,
           .step 0 ⟨(regNewFactory r.sh (r.world user hasFill) Form.facNoErr.numOut (initSt r.sh (r.world user hasFill))).1.log.reverse, .err err⟩) := by
        simp [exec, hfind, formOf, hst0, hc]
      simp only [hex2, stepOf, hc, Option.map_some, Option.some.injEq]
      rw [runFrom_nohandle 0 k _ (by simp [setSt])]
    | ok fac =>
      have hex2 : exec ⟨addType [] r.ptype, [⟨r, initSt r.sh (r.world user hasFill)⟩], []⟩ (.newFactory r.ptype r.name false user hasFill) =
          ({ setSt ⟨addType [] r.ptype, [⟨r, initSt r.sh (r.world user hasFill)⟩], []⟩ 0 ⟨r, initSt r.sh (r.world user hasFill)⟩
              (regNewFactory r.sh (r.world user hasFill) Form.facNoErr.numOut (initSt r.sh (r.world user hasFill))).1 with
              handles := [⟨0, r, fac, false, user, hasFill⟩] },
           .step 0 ⟨(regNewFactory r.sh (r.world user hasFill) Form.facNoErr.numOut (initSt r.sh (r.world user hasFill))).1.log.reverse, .made⟩) := by
        simp [exec, hfind, formOf, hst0, hc]
      simp only [hex2, stepOf, hc, Option.map_some, Option.some.injEq]
      rw [runFrom_calls 0 ⟨0, r, fac, false, user, hasFill⟩ k _
        ⟨r, (regNewFactory r.sh (r.world user hasFill) Form.facNoErr.numOut (initSt r.sh (r.world user hasFill))).1⟩
        (by simp) (by simp [setSt])]
      simp [filterMap_stepOf_map, filterMap_stepOf_comp, Handle.world]
  | true =>
    simp only [formOf, if_true]
    cases hc : (regNewFactory r.sh (r.world user hasFill) Form.facErr.numOut (initSt r.sh (r.world user hasFill))).2 with
    | error err =>
      have hex2 : exec ⟨addType [] r.ptype, [⟨r, initSt r.sh (r.world user hasFill)⟩], []⟩ (.newFactory r.ptype r.name true user hasFill) =
          (setSt ⟨addType [] r.ptype, [⟨r, initSt r.sh (r.world user hasFill)⟩], []⟩ 0 ⟨r, initSt r.sh (r.world user hasFill)⟩
            (regNewFactory r.sh (r.world user hasFill) Form.facErr.numOut (initSt r.sh (r.world user hasFill))).1,
           .step 0 ⟨(regNewFactory r.sh (r.world user hasFill) Form.facErr.numOut (initSt r.sh (r.world user hasFill))).1.log.reverse, .err err⟩) := by
        simp [exec, hfind, formOf, hst0, hc]
      simp only [hex2, stepOf, hc, Option.map_some, Option.some.injEq]
      rw [runFrom_nohandle 0 k _ (by simp [setSt])]
    | ok fac =>
      have hex2 : exec ⟨addType [] r.ptype, [⟨r, initSt r.sh (r.world user hasFill)⟩], []⟩ (.newFactory r.ptype r.name true user hasFill) =
          ({ setSt ⟨addType [] r.ptype, [⟨r, initSt r.sh (r.world user hasFill)⟩], []⟩ 0 ⟨r, initSt r.sh (r.world user hasFill)⟩
              (regNewFactory r.sh (r.world user hasFill) Form.facErr.numOut (initSt r.sh (r.world user hasFill))).1 with
              handles := [⟨0, r, fac, true, user, hasFill⟩] },
           .step 0 ⟨(regNewFactory r.sh (r.world user hasFill) Form.facErr.numOut (initSt r.sh (r.world user hasFill))).1.log.reverse, .made⟩) := by
        simp [exec, hfind, formOf, hst0, hc]
      simp only [hex2, stepOf, hc, Option.map_some, Option.some.injEq]
      rw [runFrom_calls 0 ⟨0, r, fac, true, user, hasFill⟩ k _
        ⟨r, (regNewFactory r.sh (r.world user hasFill) Form.facErr.numOut (initSt r.sh (r.world user hasFill))).1⟩
        (by simp) (by simp [setSt])]
      simp [filterMap_stepOf_map, filterMap_stepOf_comp, Handle.world]

/-- one registration, k calls of `New`: the steps are those of `Model.C18.run` -/
theorem single_new (r : Reg) (hn : r.name ≠ "") (hreg : registerOk r.sh = true) (user : Cfg) (hasFill : Bool) (k : Nat) :
    some ((Pandora.Model.C18Sess.run
        (.register r :: List.replicate k (.new r.ptype r.name user hasFill))).outs.filterMap stepOf) =
      (Pandora.Model.C18.run { r.input .component user hasFill with k := k }).map (·.steps) := by
  have hw : initSt r.sh (r.world [] false) = initSt r.sh (r.world user hasFill) := initSt_world _ _ _ rfl
  have hex1 : exec SSt.empty (.register r) =
      (⟨addType [] r.ptype, [⟨r, initSt r.sh (r.world user hasFill)⟩], []⟩, .accepted) := by
    simp [exec, hn, hreg, SSt.empty, findSlot, hw]
  simp only [Pandora.Model.C18Sess.run, runFrom, hex1, List.filterMap_cons, stepOf]
  simp only [Pandora.Model.C18.run, runSt, hreg, Bool.not_true, Bool.false_eq_true, if_false, Reg.input, Option.map_some,
    Option.some.injEq]
  rw [runFrom_news r.ptype r.name user hasFill 0 k _ ⟨r, initSt r.sh (r.world user hasFill)⟩ (by simp [findSlot]) (by simp)]
  simp [filterMap_stepOf_map, filterMap_stepOf_comp]

end Pandora.Proofs.C18Sess
