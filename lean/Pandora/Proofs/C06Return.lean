/-
C06 helper lemmas: the moment `Run` returns, for EVERY schedule (no assumption on where the cancel is or on
late Report calls): what the state is at that moment, and that nothing that happens afterwards changes the
result. Also: the sink as bytes (lines).
-/
import Pandora.Proofs.C06Queue
import Pandora.Proofs.C06Phout

namespace Pandora.Proofs.C06Queue
open Pandora.Model.AggQueue

variable {β : Type}

/-- the phase changes only in two ways: running → draining (seeCancel) and draining → returned (drain on an
empty queue) -/
theorem phase_step (cfg : Cfg) (st : St β) (e : Ev) :
    (step cfg st e).phase = st.phase ∨
    (e = .seeCancel ∧ st.phase = .running ∧ (step cfg st e).phase = .draining) ∨
    (e = .drain ∧ st.phase = .draining ∧ st.q = [] ∧ (step cfg st e).phase = .returned) := by
  cases e with
  | report r =>
    left; simp only [step]; split
    · rfl
    · split
      · rfl
      · split <;> rfl
  | recv tf =>
    left; simp only [step]; split
    · split
      · split <;> rfl
      · rfl
    · rfl
  | tick =>
    left; simp only [step]; split
    · split
      · rfl
      · split <;> rfl
    · rfl
  | spill k => left; simp only [step]; split <;> rfl
  | cancel => left; rfl
  | seeCancel =>
    simp only [step]; split
    · rename_i hph
      split
      · right; left; exact ⟨trivial, hph, rfl⟩
      · left; rfl
    · left; rfl
  | drain =>
    simp only [step]; split
    · left; simp [St.handle]
    · rename_i hph hq
      right; right; exact ⟨trivial, hph, hq, rfl⟩
    · left; rfl

/-- the step that makes `Run` return is the drain loop's `default:` on an empty queue -/
theorem return_step {cfg : Cfg} {st : St β} {e : Ev} (h0 : st.phase ≠ .returned)
    (h1 : (step cfg st e).phase = .returned) : e = .drain ∧ st.phase = .draining ∧ st.q = [] := by
  rcases phase_step cfg st e with h | ⟨_, _, h⟩ | ⟨he, hph, hq, _⟩
  · rw [h] at h1; exact absurd h1 h0
  · rw [h] at h1; cases h1
  · exact ⟨he, hph, hq⟩

/-- the state right after the returning step -/
theorem at_return {cfg : Cfg} {progs : Nat → List β} {st : St β} (inv : Inv cfg progs st)
    (hph : st.phase = .draining) (hq : st.q = []) :
    (step cfg st .drain).out = accepted st.log ∧ (step cfg st .drain).log = st.log ∧
    (step cfg st .drain).buf = [] ∧ (step cfg st .drain).q = [] ∧ (step cfg st .drain).closed = true ∧
    (step cfg st .drain).err = retErr cfg st.dropped.length ∧ (step cfg st .drain).dropped = rejected st.log ∧
    (step cfg st .drain).pending = st.pending := by
  have hflow := inv.flow
  rw [hq, List.append_nil] at hflow
  simp only [step, hph, hq]
  refine ⟨by simpa [St.flush] using hflow, by simp [St.flush], by simp [St.flush], by simp [St.flush, hq], trivial, ?_,
    by simpa [St.flush] using inv.drops, by simp [St.flush]⟩
  rw [← inv.count]
  simp only [retErr]
  cases cfg.kind <;> rfl

/-- after `Run` has returned nothing changes the sink, the error, the closed flag (late Report calls only
fill the queue or the drop counter that nobody reads any more) -/
theorem stable_step (cfg : Cfg) {st : St β} (e : Ev) (h : st.phase = .returned) (hb : st.buf = []) :
    (step cfg st e).phase = .returned ∧ (step cfg st e).out = st.out ∧ (step cfg st e).err = st.err ∧
    (step cfg st e).closed = st.closed ∧ (step cfg st e).buf = [] := by
  cases e with
  | report r =>
    simp only [step]; split
    · exact ⟨h, rfl, rfl, rfl, hb⟩
    · split
      · exact ⟨h, rfl, rfl, rfl, hb⟩
      · split
        · exact ⟨h, rfl, rfl, rfl, hb⟩
        · exact ⟨h, rfl, rfl, rfl, hb⟩
  | recv tf =>
    simp only [step]; split
    · rename_i hph _; rw [h] at hph; cases hph
    · exact ⟨h, rfl, rfl, rfl, hb⟩
  | tick =>
    simp only [step]; split
    · rename_i hph; rw [h] at hph; cases hph
    · exact ⟨h, rfl, rfl, rfl, hb⟩
  | spill k =>
    simp only [step]; split
    · exact ⟨h, rfl, rfl, rfl, hb⟩
    · rename_i hk; exfalso; apply hk; right; simp [hb]
  | cancel => exact ⟨h, rfl, rfl, rfl, hb⟩
  | seeCancel =>
    simp only [step]; split
    · rename_i hph; rw [h] at hph; cases hph
    · exact ⟨h, rfl, rfl, rfl, hb⟩
  | drain =>
    simp only [step]; split
    · rename_i hph _; rw [h] at hph; cases hph
    · rename_i hph _; rw [h] at hph; cases hph
    · exact ⟨h, rfl, rfl, rfl, hb⟩

theorem stable_run (cfg : Cfg) (evs : List Ev) {st : St β} (h : st.phase = .returned) (hb : st.buf = []) :
    (run cfg st evs).phase = .returned ∧ (run cfg st evs).out = st.out ∧ (run cfg st evs).err = st.err ∧
    (run cfg st evs).closed = st.closed ∧ (run cfg st evs).buf = [] := by
  induction evs generalizing st with
  | nil => exact ⟨h, rfl, rfl, rfl, hb⟩
  | cons e es ih =>
    obtain ⟨h1, h2, h3, h4, h5⟩ := stable_step cfg e h hb
    obtain ⟨i1, i2, i3, i4, i5⟩ := ih h1 h5
    exact ⟨i1, i2.trans h2, i3.trans h3, i4.trans h4, i5⟩

/-- the log of completed Report calls only grows -/
theorem log_step (cfg : Cfg) (st : St β) (e : Ev) : st.log <+: (step cfg st e).log := by
  cases e with
  | report r =>
    simp only [step]; split
    · exact List.prefix_refl _
    · split
      · exact List.prefix_append _ _
      · split
        · exact List.prefix_refl _
        · exact List.prefix_append _ _
  | recv tf =>
    simp only [step]; split
    · split
      · split <;> simp [St.handle, St.flush]
      · simp [St.handle]
    · exact List.prefix_refl _
  | tick =>
    simp only [step]; split
    · split
      · simp [St.flush]
      · split <;> simp [St.flush]
    · exact List.prefix_refl _
  | spill k => simp only [step]; split <;> simp
  | cancel => simp [step]
  | seeCancel =>
    simp only [step]; split
    · split <;> simp
    · exact List.prefix_refl _
  | drain =>
    simp only [step]; split
    · simp [St.handle]
    · simp [St.flush]
    · exact List.prefix_refl _

theorem log_run (cfg : Cfg) (evs : List Ev) (st : St β) : st.log <+: (run cfg st evs).log := by
  induction evs generalizing st with
  | nil => exact List.prefix_refl _
  | cons e es ih => exact (log_step cfg st e).trans (ih _)

theorem run_append (cfg : Cfg) (a b : List Ev) (st : St β) :
    run cfg st (a ++ b) = run cfg (run cfg st a) b := by
  induction a generalizing st with
  | nil => rfl
  | cons e es ih => simp [run, ih]

/-- without a `cancel` event the context stays as it is -/
theorem cancelled_of_nocancel (cfg : Cfg) (l : List Ev) (s : St β) (h : ∀ e ∈ l, e ≠ .cancel) :
    (run cfg s l).cancelled = s.cancelled := by
  induction l generalizing s with
  | nil => rfl
  | cons e es ih =>
    simp only [run]
    rw [ih _ (fun x hx => h x (by simp [hx]))]
    have he := h e (by simp)
    cases e with
    | cancel => exact absurd rfl he
    | report r =>
      simp only [step]; split
      · rfl
      · split
        · rfl
        · split <;> rfl
    | recv tf =>
      simp only [step]; split
      · split
        · split <;> rfl
        · rfl
      · rfl
    | tick =>
      simp only [step]; split
      · split
        · rfl
        · split <;> rfl
      · rfl
    | spill k => simp only [step]; split <;> rfl
    | seeCancel =>
      simp only [step]; split
      · split <;> rfl
      · rfl
    | drain => simp only [step]; split <;> rfl

/-- every schedule that ends with `Run` returned splits at the returning step -/
theorem return_split (cfg : Cfg) (sched : List Ev) (st : St β) (h0 : st.phase ≠ .returned)
    (h : (run cfg st sched).phase = .returned) :
    ∃ pre post, sched = pre ++ .drain :: post ∧ (run cfg st pre).phase = .draining ∧ (run cfg st pre).q = [] := by
  induction sched generalizing st with
  | nil => exact absurd h h0
  | cons e es ih =>
    by_cases h1 : (step cfg st e).phase = .returned
    · obtain ⟨he, hph, hq⟩ := return_step h0 h1
      exact ⟨[], es, by simp [he], hph, hq⟩
    · obtain ⟨pre, post, hs, hp, hq⟩ := ih (step cfg st e) h1 h
      exact ⟨e :: pre, post, by simp [hs], hp, hq⟩

end Pandora.Proofs.C06Queue

/-! ## the sink as a file of lines -/

namespace Pandora.Proofs.C06
open Pandora.Model.Phout

/-- any line encoder whose lines contain no LF: the concatenation of the terminated lines splits back into
exactly those lines, nothing after the last LF -/
theorem fileLines_of_lines (bodies : List Bytes) (h : ∀ b ∈ bodies, LF ∉ b) :
    fileLines (bodies.flatMap (fun b => b ++ [LF])) = some bodies := by
  unfold fileLines
  rw [splitOn_terminated _ h]
  simp only [List.getLast?_append, List.getLast?_singleton, Option.some_or, List.dropLast_concat]

end Pandora.Proofs.C06
