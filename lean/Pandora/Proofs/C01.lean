/-
Helper lemmas of C01 (statements in the vocabulary of `Proofs/LineMath` and `Bridge/*`; the property theorems and their
statement-level definitions are in `Props/C01.lean`).
-/
import Pandora.Bridge.C01

namespace Pandora.Proofs.C01
open Pandora Pandora.Gen.Schedule Pandora.Bridge.Schedule Pandora.Bridge.C01 Pandora.Proofs.LineMath

theorem secs_pos' {D : ℤ} (h : 0 < D) : 0 < secs D := by
  unfold secs
  have : (0:ℝ) < (D:ℝ) := by exact_mod_cast h
  positivity

theorem floor_ns_le {x : ℝ} {D : ℤ} (hx : x ≤ secs D) : ⌊x * 1000000000⌋ ≤ D := by
  have : x * 1000000000 ≤ (D:ℝ) := by
    rw [← secs_mul D]; exact mul_le_mul_of_nonneg_right hx (by norm_num)
  have h2 := Int.floor_le_floor this
  simpa using h2

/-- const profile: everything the property says about operation `k < n` -/
theorem const_core (ops : ℝ) (D : ℤ) (hops : 0 ≤ ops) (hD : 0 < D) (k : ℤ) (hk0 : 0 ≤ k)
    (hkn : k < Go.f2i (ops * secs D)) :
    0 ≤ (k:ℝ) / ops ∧ (k:ℝ) / ops ≤ secs D ∧ ops * ((k:ℝ) / ops) = k ∧
      (∀ y : ℝ, 0 ≤ y → y < (k:ℝ) / ops → ops * y < k) ∧
      Go.f2i ((k:ℝ) * (1000000000 / ops)) = ⌊(k:ℝ) / ops * 1000000000⌋ ∧
      0 ≤ ⌊(k:ℝ) / ops * 1000000000⌋ ∧ ⌊(k:ℝ) / ops * 1000000000⌋ ≤ D := by
  have hs := secs_pos' hD
  have htot0 : 0 ≤ ops * secs D := by positivity
  rw [Go.f2i_of_nonneg htot0] at hkn
  have hk0' : (0:ℝ) ≤ (k:ℝ) := by exact_mod_cast hk0
  have hklt : (k:ℝ) < ops * secs D := by
    have : ((k:ℤ):ℝ) < ⌊ops * secs D⌋ := by exact_mod_cast hkn
    exact lt_of_lt_of_le this (Int.floor_le _)
  have hops' : 0 < ops := by
    rcases hops.lt_or_eq with h | h
    · exact h
    · rw [← h] at hklt; simp at hklt; linarith
  have hx0 : 0 ≤ (k:ℝ) / ops := by positivity
  have hxs : (k:ℝ) / ops ≤ secs D := by
    rw [div_le_iff₀ hops']; linarith [mul_comm ops (secs D)]
  have harg : (k:ℝ) * (1000000000 / ops) = (k:ℝ) / ops * 1000000000 := by field_simp
  refine ⟨hx0, hxs, ?_, ?_, ?_, ?_, ?_⟩
  · field_simp
  · intro y _ hyx
    have := (lt_div_iff₀ hops').mp hyx; linarith [mul_comm ops y]
  · rw [harg]; exact Go.f2i_of_nonneg (by positivity)
  · exact Int.floor_nonneg.mpr (by positivity)
  · exact floor_ns_le hxs

theorem line_cfg {f t : ℝ} {D : ℤ} (hf : 0 ≤ f) (ht : 0 ≤ t) (hD : 0 < D) (hne : f ≠ t) :
    Cfg (slope f t D) f (secs D) := by
  have hs := secs_pos' hD
  refine ⟨hs, ?_, hf, ?_⟩
  · unfold slope; exact div_ne_zero (sub_ne_zero.mpr (Ne.symm hne)) hs.ne'
  · have : slope f t D * secs D + f = t := by unfold slope; field_simp; ring
    rw [this]; exact ht

theorem line_total {f t : ℝ} {D : ℤ} (hD : 0 < D) :
    cum (slope f t D) f (secs D) = (f + t) / 2 * secs D := by
  have hs := secs_pos' hD
  have hend : slope f t D * secs D + f = t := by unfold slope; field_simp; ring
  rw [cum_total, hend]

/-- line profile with `from ≠ to`: everything the property says, about the regenerated `NewLine` -/
theorem line_core (f t : ℝ) (D : ℤ) (hf : 0 ≤ f) (ht : 0 ≤ t) (hD : 0 < D) (hne : f ≠ t) :
    ∃ at_ : ℤ → ℤ, NewLine f t D = Sched.doAt D ⌊(f + t) / 2 * secs D⌋ at_ ∧
      ∀ k : ℤ, 0 ≤ k → k < ⌊(f + t) / 2 * secs D⌋ →
        Earliest (slope f t D) f (secs D) (k:ℝ) (xk (slope f t D) f (k:ℝ)) ∧
        at_ k = ⌊xk (slope f t D) f (k:ℝ) * 1000000000⌋ ∧ 0 ≤ at_ k ∧ at_ k ≤ D := by
  have hc := line_cfg hf ht hD hne
  have htot := line_total (f := f) (t := t) hD
  have hs := secs_pos' hD
  have htot0 : 0 ≤ (f + t) / 2 * secs D := by positivity
  obtain ⟨at_, hnew, hat⟩ := NewLine_sem f t D hne hc
  refine ⟨at_, ?_, ?_⟩
  · rw [hnew, htot, Go.f2i_of_nonneg htot0]
  · intro k hk0 hkn
    have hk0' : (0:ℝ) ≤ (k:ℝ) := by exact_mod_cast hk0
    have hkle : (k:ℝ) ≤ cum (slope f t D) f (secs D) := by
      rw [htot]
      have : ((k:ℤ):ℝ) < ⌊(f + t) / 2 * secs D⌋ := by exact_mod_cast hkn
      exact le_of_lt (lt_of_lt_of_le this (Int.floor_le _))
    have he := earliest_xk hc hk0' hkle
    have hx0 : 0 ≤ xk (slope f t D) f (k:ℝ) := he.1
    have hpos : 0 ≤ xk (slope f t D) f (k:ℝ) * 1000000000 := by positivity
    have hatk : at_ k = ⌊xk (slope f t D) f (k:ℝ) * 1000000000⌋ := by
      rw [hat k hk0 hkle, Go.f2i_of_nonneg hpos]
    refine ⟨he, hatk, ?_, ?_⟩
    · rw [hatk]; exact Int.floor_nonneg.mpr hpos
    · rw [hatk]; exact floor_ns_le he.2.1

/-- the rate levels of a step profile -/
theorem loopLE_levels (f t : ℝ) (s : ℤ) (hs : 1 ≤ s) :
    ∀ r ∈ Go.loopLE f t (s:ℝ), f ≤ r ∧ r ≤ t := by
  have hs' : (0:ℝ) < (s:ℝ) := by exact_mod_cast (by omega : (0:ℤ) < s)
  intro r hr
  unfold Go.loopLE at hr
  split_ifs at hr with hft
  · rw [List.mem_map] at hr
    obtain ⟨j, hj, rfl⟩ := hr
    rw [List.mem_range] at hj
    constructor
    · have : (0:ℝ) ≤ (j:ℝ) * (s:ℝ) := mul_nonneg (Nat.cast_nonneg j) hs'.le
      linarith
    · have hj' : (j:ℝ) ≤ ((⌊(t - f) / (s:ℝ)⌋₊ : ℕ) : ℝ) := by exact_mod_cast Nat.lt_succ_iff.mp hj
      have h2 : ((⌊(t - f) / (s:ℝ)⌋₊ : ℕ) : ℝ) ≤ (t - f) / (s:ℝ) :=
        Nat.floor_le (div_nonneg (by linarith) hs'.le)
      have h3 : (j:ℝ) * (s:ℝ) ≤ t - f := by
        have := le_trans hj' h2
        rwa [le_div_iff₀ hs'] at this
      linarith
  · simp at hr

/-- results of `m` further calls of `Next` on a leaf that has answered `m0` calls; the clock readings are irrelevant -/
def nexts (D n : ℤ) (f : ℤ → ℤ) (t0 : ℤ) : (m0 : ℕ) → (nows : List ℤ) → Except String (List (ℤ × Bool) × DoAtSt)
  | m0, [] => Except.ok ([], startedSt D n f t0 m0)
  | m0, now :: rest =>
      match doAtSchedule_Next now (startedSt D n f t0 m0) with
      | Except.error e => Except.error e
      | Except.ok (r, _) =>
          match nexts D n f t0 (m0 + 1) rest with
          | Except.error e => Except.error e
          | Except.ok (rs, s) => Except.ok (r :: rs, s)

/-- the answer to call number `j` (0-based) of a started leaf -/
def answer (D n : ℤ) (f : ℤ → ℤ) (t0 : ℤ) (j : ℕ) : ℤ × Bool :=
  if n ≤ (j : ℤ) then (t0 + D, false) else (t0 + f (j : ℤ), true)

theorem nexts_eq (D n : ℤ) (f : ℤ → ℤ) (t0 : ℤ) : ∀ (nows : List ℤ) (m0 : ℕ),
    nexts D n f t0 m0 nows =
      Except.ok ((List.range nows.length).map (fun j => answer D n f t0 (m0 + j)), startedSt D n f t0 (m0 + nows.length)) := by
  intro nows
  induction nows with
  | nil => intro m0; simp [nexts]
  | cons now rest ih =>
      intro m0
      have e1 : m0 + 1 + rest.length = m0 + (rest.length + 1) := by omega
      have e2 : ∀ j : ℕ, answer D n f t0 (m0 + 1 + j) = answer D n f t0 (m0 + (j + 1)) := by
        intro j; congr 1; omega
      have e0 : (if n ≤ (m0 : ℤ) then (t0 + D, false) else (t0 + f (m0 : ℤ), true)) = answer D n f t0 (m0 + 0) := by
        simp [answer]
      rw [nexts, next_started, ih (m0 + 1), e0]
      simp only [List.length_cons, List.range_succ_eq_map, List.map_cons, List.map_map, e1]
      congr 3
      apply List.map_congr_left
      intro j _
      exact e2 j

end Pandora.Proofs.C01
