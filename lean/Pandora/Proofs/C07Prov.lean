import Pandora.Model.C07Prov

/-! Round 4 — helper lemmas for the provider-side theorems of C07 (`uris` option, counters). -/
namespace Pandora.Proofs.C07
open Pandora.Model.C07

/-- an entry of a well-formed uri file has nothing after its line -/
theorem payload_uri_of_ok (it : Item) (h : itemOK .uri it = true) : payload .uri it = [] := by
  cases it with
  | hdr k v => rfl
  | req u t b => simp [payload]
  | frame t fr => simp [itemOK] at h

/-- the lines of the entries joined with newlines = the file rendered without any layout and without final newline -/
theorem renderItems_uris : ∀ (items : List Item), (∀ it ∈ items, payload .uri it = []) →
    renderItems .uri false [] items [] = urisFile (items.map urisLine)
  | [], _ => rfl
  | [it], h => by
    have hp := h it (by simp)
    simp [renderItems, urisFile, urisLine, hp]
  | it :: it2 :: rest, h => by
    have hp := h it (by simp)
    have ih := renderItems_uris (it2 :: rest) (fun x hx => h x (List.mem_cons_of_mem _ hx))
    simp only [List.map_cons] at ih ⊢
    simp [renderItems, urisFile, urisLine, hp, renderBlanks, ih]

theorem render_uris (items : List Item) (hi : itemsOK .uri items = true) :
    render .uri items { finalNL := false } = urisFile (items.map urisLine) := by
  have h : ∀ it ∈ items, payload .uri it = [] := fun it hm =>
    payload_uri_of_ok it (by simpa [itemsOK] using (List.all_eq_true.mp hi) it hm)
  simp [render, renderBlanks, renderItems_uris items h]

theorem wrapIdx_of_lt (bits len n : Nat) (h : n < 2 ^ bits) : wrapIdx bits len n = n % len := by
  unfold wrapIdx; rw [Nat.mod_eq_of_lt h]

end Pandora.Proofs.C07
